import Tfv.Proofs.InferStore
import Tfv.Proofs.Apply
/-!
# Soundness of the constraint-free inference engine (C03), part 1

`Step L σ σ'`: the store `σ'` is a sound successor of `σ` (well-formed, still
constraint free, no variable lost, every solution of `σ'` is a solution of `σ`).
This file proves the statements for `bind`, `above`, `below` at fuel `n+1`
from the statements of their callees at fuel `n`.
-/
namespace Tfv.C03P

/-! ## 1. sound successor stores -/

structure Step (L : Lang) (σ σ' : Store) : Prop where
  ok : OkStore L σ'
  nc : NoConstraints σ'
  len : σ.vars.length ≤ σ'.vars.length
  sat : ∀ ρ, Sat L ρ σ' → Sat L ρ σ

theorem Step.refl {L : Lang} {σ : Store} (ok : OkStore L σ) (nc : NoConstraints σ) : Step L σ σ :=
  ⟨ok, nc, Nat.le_refl _, fun _ h => h⟩

theorem Step.trans {L : Lang} {a b c : Store} (h1 : Step L a b) (h2 : Step L b c) : Step L a c :=
  ⟨h2.ok, h2.nc, Nat.le_trans h1.len h2.len, fun ρ h => h1.sat ρ (h2.sat ρ h)⟩

theorem Step.of_sameCore {L : Lang} {σ σ' : Store} (ok : OkStore L σ) (nc' : NoConstraints σ')
    (c : SameCore σ σ') : Step L σ σ' :=
  ⟨c.okStore ok, nc', Nat.le_of_eq c.len.symm, fun _ h => c.sat h⟩

theorem Step.okTerm {L : Lang} {σ σ' : Store} (s : Step L σ σ') {t : Term}
    (h : okTerm L σ t = true) : okTerm L σ' t = true := okTerm_mono s.len t h

theorem Step.okTermL {L : Lang} {σ σ' : Store} (s : Step L σ σ') {ts : List Term}
    (h : okTermL L σ ts = true) : okTermL L σ' ts = true := okTermL_mono s.len ts h

/-! ## 2. a store updated at one variable -/

/-- `σ'` has the core `(b, l, u)` at `v` and the core of `σ` elsewhere -/
structure Upd (σ σ' : Store) (v : Nat) (b : Option Term) (l u : Option Nat) : Prop where
  len : σ'.vars.length = σ.vars.length
  b_eq : (getVar σ' v).bound = b
  l_eq : (getVar σ' v).lower = l
  u_eq : (getVar σ' v).upper = u
  ne : ∀ w, w ≠ v → (getVar σ' w).bound = (getVar σ w).bound ∧
    (getVar σ' w).lower = (getVar σ w).lower ∧ (getVar σ' w).upper = (getVar σ w).upper

theorem upd_setVar {σ : Store} {v : Nat} (hv : v < σ.vars.length) (i : VarInfo) :
    Upd σ (setVar σ v i) v i.bound i.lower i.upper := by
  refine ⟨length_setVar _ _ _, ?_, ?_, ?_, ?_⟩
  · rw [getVar_setVar_eq i hv]
  · rw [getVar_setVar_eq i hv]
  · rw [getVar_setVar_eq i hv]
  · intro w hw
    rw [getVar_setVar_ne i (Ne.symm hw)]
    exact ⟨rfl, rfl, rfl⟩

theorem Upd.sameCore_left {σ0 σ σ' : Store} {v : Nat} {b : Option Term} {l u : Option Nat}
    (c : SameCore σ0 σ) (U : Upd σ σ' v b l u) : Upd σ0 σ' v b l u :=
  ⟨U.len.trans c.len, U.b_eq, U.l_eq, U.u_eq, fun w hw =>
    ⟨(U.ne w hw).1.trans (c.bound w), (U.ne w hw).2.1.trans (c.lower w), (U.ne w hw).2.2.trans (c.upper w)⟩⟩

theorem Upd.sameCore_right {σ σ' σ'' : Store} {v : Nat} {b : Option Term} {l u : Option Nat}
    (U : Upd σ σ' v b l u) (c : SameCore σ' σ'') : Upd σ σ'' v b l u :=
  ⟨c.len.trans U.len, (c.bound v).trans U.b_eq, (c.lower v).trans U.l_eq, (c.upper v).trans U.u_eq,
   fun w hw => ⟨(c.bound w).trans (U.ne w hw).1, (c.lower w).trans (U.ne w hw).2.1,
     (c.upper w).trans (U.ne w hw).2.2⟩⟩

theorem Upd.okStore {L : Lang} {σ σ' : Store} {v : Nat} {b : Option Term} {l u : Option Nat}
    (ok : OkStore L σ) (U : Upd σ σ' v b l u)
    (hb : ∀ t, b = some t → okTerm L σ t = true) (hl : okBound L l) (hu : okBound L u)
    (hord : ∀ x y, l = some x → u = some y → opSub L x y = true)
    (hbasic : ∀ o args, b = some (.app o args) → (l.isSome = true ∨ u.isSome = true) → arityOf L o = 0) :
    OkStore L σ' where
  bound := fun w t hw => by
    apply okTerm_mono (Nat.le_of_eq U.len.symm)
    by_cases e : w = v
    · subst e; rw [U.b_eq] at hw; exact hb t hw
    · rw [(U.ne w e).1] at hw; exact ok.bound w t hw
  lower := fun w => by
    by_cases e : w = v
    · subst e; rw [U.l_eq]; exact hl
    · rw [(U.ne w e).2.1]; exact ok.lower w
  upper := fun w => by
    by_cases e : w = v
    · subst e; rw [U.u_eq]; exact hu
    · rw [(U.ne w e).2.2]; exact ok.upper w
  ordered := fun w x y hx hy => by
    by_cases e : w = v
    · subst e; rw [U.l_eq] at hx; rw [U.u_eq] at hy; exact hord x y hx hy
    · rw [(U.ne w e).2.1] at hx; rw [(U.ne w e).2.2] at hy; exact ok.ordered w x y hx hy
  basic := fun w o args hw hx => by
    by_cases e : w = v
    · subst e; rw [U.b_eq] at hw; rw [U.l_eq, U.u_eq] at hx; exact hbasic o args hw hx
    · rw [(U.ne w e).1] at hw; rw [(U.ne w e).2.1, (U.ne w e).2.2] at hx
      exact ok.basic w o args hw hx

theorem Upd.sat_back {L : Lang} {ρ : Val} {σ σ' : Store} {v : Nat} {b : Option Term} {l u : Option Nat}
    (U : Upd σ σ' v b l u) (h : Sat L ρ σ')
    (hb : ∀ t, (getVar σ v).bound = some t → ρ v = den ρ t)
    (hl : ∀ x, (getVar σ v).bound = none → (getVar σ v).lower = some x → Sub L (.app x []) (ρ v))
    (hu : ∀ x, (getVar σ v).bound = none → (getVar σ v).upper = some x → Sub L (ρ v) (.app x [])) :
    Sat L ρ σ where
  wf := h.wf
  bound := fun w t hw => by
    by_cases e : w = v
    · subst e; exact hb t hw
    · exact h.bound w t ((U.ne w e).1.trans hw)
  lower := fun w x hw hx => by
    by_cases e : w = v
    · subst e; exact hl x hw hx
    · exact h.lower w x ((U.ne w e).1.trans hw) ((U.ne w e).2.1.trans hx)
  upper := fun w x hw hx => by
    by_cases e : w = v
    · subst e; exact hu x hw hx
    · exact h.upper w x ((U.ne w e).1.trans hw) ((U.ne w e).2.2.trans hx)

/-! ## 3. the operator order -/

theorem opSub_strict_imp {L : Lang} {a b : Nat} (h : opSub L a b true = true) : opSub L a b false = true := by
  unfold opSub at h ⊢
  simp only [Bool.not_true, Bool.false_and, Bool.false_or, Bool.or_eq_true] at h
  simp only [Bool.or_eq_true]
  rcases h with (h | h) | h
  · exact Or.inl (Or.inl (Or.inr h))
  · exact Or.inl (Or.inr h)
  · exact Or.inr h

theorem sub_base_of_opSub {L : Lang} (wf : WF L) {a b : Nat} (ha : arityOf L a = 0) (hb : arityOf L b = 0)
    (h : opSub L a b = true) : Sub L (.app a []) (.app b []) := by
  rcases (opSub_iff wf a b).mp h with e | e | e
  · subst e; exact Sub.bot _
  · subst e; exact Sub.top _
  · exact Sub.base ha hb e

/-! ## 4. `checkConstraints` without constraints -/

theorem checkConstraints_nc {L : Lang} {σ σ' : Store} {v : Nat} (h : NoConstraints σ) :
    ∀ n, checkConstraints L n σ v = .ok σ' → σ' = σ
  | 0, hc => by unfold checkConstraints at hc; cases hc
  | 1, hc => by
    unfold checkConstraints checkList at hc; cases hc
  | n+2, hc => by
    unfold checkConstraints at hc
    rw [h] at hc
    unfold checkList at hc
    injection hc with hc; exact hc.symm

/-! ## 5. the statements proved by induction on the fuel -/

/-- what `bind v t` needs to be sound when `t` is a base type: the base type is
comparable with the bounds of `v` (then `bind` itself rejects the wrong direction) -/
def BindPre (L : Lang) (σ : Store) (v : Nat) (t : Term) : Prop :=
  ∀ o args, t = .app o args → arityOf L o = 0 →
    (∀ l, (getVar σ v).lower = some l → opSub L l o = true ∨ opSub L o l true = true) ∧
    (∀ u, (getVar σ v).upper = some u → opSub L o u = true ∨ opSub L u o true = true)

def BindS (L : Lang) (n : Nat) : Prop :=
  ∀ σ v t σ', OkStore L σ → NoConstraints σ → v < σ.vars.length → okTerm L σ t = true →
    BindPre L σ v t → bind L n σ v t = .ok σ' →
    Step L σ σ' ∧ ∀ ρ, Sat L ρ σ' → ρ v = den ρ t

def AboveS (L : Lang) (n : Nat) : Prop :=
  ∀ σ v new σ', OkStore L σ → NoConstraints σ → v < σ.vars.length → new < L.length →
    arityOf L new = 0 → above L n σ v new = .ok σ' →
    Step L σ σ' ∧ ∀ ρ, Sat L ρ σ' → Sub L (.app new []) (ρ v)

def BelowS (L : Lang) (n : Nat) : Prop :=
  ∀ σ v new σ', OkStore L σ → NoConstraints σ → v < σ.vars.length → new < L.length →
    arityOf L new = 0 → below L n σ v new = .ok σ' →
    Step L σ σ' ∧ ∀ ρ, Sat L ρ σ' → Sub L (ρ v) (.app new [])

/-- `unify` in subtype mode (stated here because `bind` hands the bounds of a variable bound to
another variable over through `unify`) -/
def UnifyS (L : Lang) (n : Nat) : Prop :=
  ∀ σ a b σ', OkStore L σ → NoConstraints σ → okTerm L σ a = true → okTerm L σ b = true →
    unify L n σ a b true false false = .ok σ' →
    Step L σ σ' ∧ ∀ ρ, Sat L ρ σ' → Sub L (den ρ a) (den ρ b)

theorem bindPre_var (L : Lang) (σ : Store) (v w : Nat) : BindPre L σ v (.var w) := by
  intro o args h; cases h

theorem bindPre_compound {L : Lang} {σ : Store} {v o : Nat} {args : List Term} (h : arityOf L o ≠ 0) :
    BindPre L σ v (.app o args) := by
  intro o' args' e h0
  injection e with e1 e2
  subst e1
  exact absurd h0 h

theorem okTerm_base {L : Lang} {σ : Store} {o : Nat} (h1 : o < L.length) (h2 : arityOf L o = 0) :
    okTerm L σ (.app o []) = true :=
  okTerm_app.mpr ⟨h1, by rw [h2]; rfl, okTermL_nil⟩

/-! ## 6. `above` -/

theorem above_step {L : Lang} (wf : WF L) {n : Nat} (hbind : BindS L n) : AboveS L (n+1) := by
  intro σ v new σ' ok nc hv hnew hnew0 h
  unfold above at h
  split at h
  · next htop =>
    have htop : new = TOP := by simpa using htop
    subst htop
    obtain ⟨s, hs⟩ := hbind σ v _ σ' ok nc hv (okTerm_base hnew hnew0)
      (by
        intro o args e _
        injection e with e1 _
        subst e1
        refine ⟨fun l _ => Or.inl ?_, fun u _ => Or.inr ?_⟩
        · unfold opSub; simp
        · unfold opSub; simp) h
    refine ⟨s, fun ρ hρ => ?_⟩
    rw [hs ρ hρ, den_app, denL_nil]
    exact Sub.top _
  · simp only [] at h
    split at h
    · cases h
    · next hnb =>
      have hnb : (getVar σ v).bound = none := by simpa using hnb
      split at h
      · cases h
      · next σr hr =>
        -- the intermediate store `σr`
        have key : Step L σ σr ∧ σr.vars.length = σ.vars.length ∧
            ∀ ρ, Sat L ρ σr → Sub L (.app new []) (ρ v) := by
          have c1 : SameCore σ (setVar σ v { (getVar σ v) with wildcard := false }) :=
            sameCore_setVar rfl rfl rfl
          split at hr
          · cases hr
          · split at hr
            · cases hr
            · next hu1 hu2 =>
              split at hr
              · next hl1 =>
                injection hr with hr
                subst hr
                refine ⟨Step.of_sameCore ok (nc_setVar nc _ _) c1, c1.len, fun ρ hρ => ?_⟩
                have hρ0 := c1.sat hρ
                cases hl : (getVar σ v).lower with
                | none => rw [hl] at hl1; simp at hl1
                | some l =>
                  rw [hl] at hl1
                  simp only [Option.any_some] at hl1
                  have hl0 := ok.lower v l hl
                  exact sub_trans wf _ _ _
                    (sub_base_of_opSub wf hnew0 hl0.2 (opSub_strict_imp hl1)) (hρ0.lower v l hnb hl)
              · next hl1 =>
                split at hr
                · next hl2 =>
                  have e := checkConstraints_nc (nc_setVar (nc_setVar nc _ _) _ _) _ hr
                  subst e
                  have U : Upd σ _ v _ _ _ :=
                    Upd.sameCore_left c1 (upd_setVar (by rw [length_setVar]; exact hv)
                      { bound := (getVar σ v).bound, lower := some new, upper := (getVar σ v).upper,
                        cset := (getVar σ v).cset })
                  have ok' : OkStore L _ := U.okStore ok
                    (fun t ht => by rw [hnb] at ht; cases ht)
                    (fun o ho => by injection ho with ho; subst ho; exact ⟨hnew, hnew0⟩)
                    (ok.upper v)
                    (fun x y hx hy => by
                      injection hx with hx; subst hx
                      rw [hy] at hu2
                      simpa using hu2)
                    (fun o args ht => by rw [hnb] at ht; cases ht)
                  refine ⟨⟨ok', nc_setVar (nc_setVar nc _ _) _ _, Nat.le_of_eq U.len.symm, fun ρ hρ => ?_⟩,
                    U.len, fun ρ hρ => ?_⟩
                  · refine U.sat_back hρ (fun t ht => by rw [hnb] at ht; cases ht) ?_ ?_
                    · intro x _ hx
                      rw [hx] at hl2
                      simp only [Option.all_some] at hl2
                      exact sub_trans wf _ _ _ (sub_base_of_opSub wf (ok.lower v x hx).2 hnew0 hl2)
                        (hρ.lower v new (U.b_eq.trans hnb) U.l_eq)
                    · intro x _ hx
                      exact hρ.upper v x (U.b_eq.trans hnb) (U.u_eq.trans hx)
                  · exact hρ.lower v new (U.b_eq.trans hnb) U.l_eq
                · cases hr
        obtain ⟨s1, hlen, hsub⟩ := key
        split at h
        · next hc =>
          split at h
          · next l hl =>
            have hl0 := s1.ok.lower v l hl
            obtain ⟨s2, _⟩ := hbind σr v _ σ' s1.ok s1.nc (by rw [hlen]; exact hv)
              (okTerm_base hl0.1 hl0.2)
              (by
                intro o args e _
                injection e with e1 _
                subst e1
                simp only [Bool.and_eq_true, beq_iff_eq] at hc
                refine ⟨fun l' hl' => Or.inl ?_, fun u hu => Or.inl ?_⟩
                · rw [hl] at hl'; injection hl' with hl'; subst hl'; exact opSub_self L _
                · rw [← hc.2, hl] at hu; injection hu with hu; subst hu; exact opSub_self L _) h
            exact ⟨s1.trans s2, fun ρ hρ => hsub ρ (s2.sat ρ hρ)⟩
          · injection h with h; subst h
            exact ⟨s1, hsub⟩
        · injection h with h; subst h
          exact ⟨s1, hsub⟩

/-! ## 7. `below` -/

theorem below_step {L : Lang} (wf : WF L) {n : Nat} (hbind : BindS L n) : BelowS L (n+1) := by
  intro σ v new σ' ok nc hv hnew hnew0 h
  unfold below at h
  split at h
  · next hbot =>
    have hbot : new = BOT := by simpa using hbot
    subst hbot
    obtain ⟨s, hs⟩ := hbind σ v _ σ' ok nc hv (okTerm_base hnew hnew0)
      (by
        intro o args e _
        injection e with e1 _
        subst e1
        refine ⟨fun l _ => Or.inr ?_, fun u _ => Or.inl ?_⟩
        · unfold opSub; simp
        · unfold opSub; simp) h
    refine ⟨s, fun ρ hρ => ?_⟩
    rw [hs ρ hρ, den_app, denL_nil]
    exact Sub.bot _
  · simp only [] at h
    split at h
    · cases h
    · next hnb =>
      have hnb : (getVar σ v).bound = none := by simpa using hnb
      split at h
      · cases h
      · next σr hr =>
        have key : Step L σ σr ∧ σr.vars.length = σ.vars.length ∧
            ∀ ρ, Sat L ρ σr → Sub L (ρ v) (.app new []) := by
          have c1 : SameCore σ (setVar σ v { (getVar σ v) with wildcard := false }) :=
            sameCore_setVar rfl rfl rfl
          split at hr
          · cases hr
          · split at hr
            · cases hr
            · next hl1 hl2 =>
              split at hr
              · next hu1 =>
                injection hr with hr
                subst hr
                refine ⟨Step.of_sameCore ok (nc_setVar nc _ _) c1, c1.len, fun ρ hρ => ?_⟩
                have hρ0 := c1.sat hρ
                cases hu : (getVar σ v).upper with
                | none => rw [hu] at hu1; simp at hu1
                | some u =>
                  rw [hu] at hu1
                  simp only [Option.any_some] at hu1
                  have hu0 := ok.upper v u hu
                  exact sub_trans wf _ _ _ (hρ0.upper v u hnb hu)
                    (sub_base_of_opSub wf hu0.2 hnew0 (opSub_strict_imp hu1))
              · next hu1 =>
                split at hr
                · next hu2 =>
                  have e := checkConstraints_nc (nc_setVar (nc_setVar nc _ _) _ _) _ hr
                  subst e
                  have U : Upd σ _ v _ _ _ :=
                    Upd.sameCore_left c1 (upd_setVar (by rw [length_setVar]; exact hv)
                      { bound := (getVar σ v).bound, lower := (getVar σ v).lower, upper := some new,
                        cset := (getVar σ v).cset })
                  have ok' : OkStore L _ := U.okStore ok
                    (fun t ht => by rw [hnb] at ht; cases ht)
                    (ok.lower v)
                    (fun o ho => by injection ho with ho; subst ho; exact ⟨hnew, hnew0⟩)
                    (fun x y hx hy => by
                      injection hy with hy; subst hy
                      rw [hx] at hl2
                      simpa using hl2)
                    (fun o args ht => by rw [hnb] at ht; cases ht)
                  refine ⟨⟨ok', nc_setVar (nc_setVar nc _ _) _ _, Nat.le_of_eq U.len.symm, fun ρ hρ => ?_⟩,
                    U.len, fun ρ hρ => ?_⟩
                  · refine U.sat_back hρ (fun t ht => by rw [hnb] at ht; cases ht) ?_ ?_
                    · intro x _ hx
                      exact hρ.lower v x (U.b_eq.trans hnb) (U.l_eq.trans hx)
                    · intro x _ hx
                      rw [hx] at hu2
                      simp only [Option.all_some] at hu2
                      exact sub_trans wf _ _ _ (hρ.upper v new (U.b_eq.trans hnb) U.u_eq)
                        (sub_base_of_opSub wf hnew0 (ok.upper v x hx).2 hu2)
                  · exact hρ.upper v new (U.b_eq.trans hnb) U.u_eq
                · cases hr
        obtain ⟨s1, hlen, hsub⟩ := key
        split at h
        · next hc =>
          split at h
          · next u hu =>
            have hu0 := s1.ok.upper v u hu
            obtain ⟨s2, _⟩ := hbind σr v _ σ' s1.ok s1.nc (by rw [hlen]; exact hv)
              (okTerm_base hu0.1 hu0.2)
              (by
                intro o args e _
                injection e with e1 _
                subst e1
                simp only [Bool.and_eq_true, beq_iff_eq] at hc
                refine ⟨fun l hl => Or.inl ?_, fun u' hu' => Or.inl ?_⟩
                · rw [← hc.2, hu] at hl; injection hl with hl; subst hl; exact opSub_self L _
                · rw [hu] at hu'; injection hu' with hu'; subst hu'; exact opSub_self L _) h
            exact ⟨s1.trans s2, fun ρ hρ => hsub ρ (s2.sat ρ hρ)⟩
          · injection h with h; subst h
            exact ⟨s1, hsub⟩
        · injection h with h; subst h
          exact ⟨s1, hsub⟩

/-! ## 8. `bind` -/

def clearW (σ : Store) (v : Nat) : VarInfo := { (getVar σ v) with wildcard := false }

/-- the store `bind v (.var tv)` hands to `unify` (which passes the bounds of `v` on to `tv`) -/
def bindVarStore (σ : Store) (v tv : Nat) : Store :=
  let i := clearW σ v
  let σ := setVar σ v i
  let σ := setVar σ v { i with bound := some (.var tv) }
  let ti := getVar σ tv
  let σ := setCset σ ti.cset (unionSorted (getCset σ ti.cset) (getCset σ i.cset))
  let σ := setVar σ v { (getVar σ v) with cset := ti.cset }
  setVar σ tv { (getVar σ tv) with wildcard := false }

def bindBaseStore (σ : Store) (v : Nat) (t : Term) : Store :=
  let i := clearW σ v
  setVar (setVar σ v i) v { i with bound := some t }

def bindAppStore (σ : Store) (v : Nat) (t : Term) : Store :=
  let i := clearW σ v
  let σ := bindBaseStore σ v t
  let vars := directVars σ (termFuel σ) t []
  let merged := vars.foldl (fun acc w => unionSorted acc (getCset σ (getVar σ w).cset)) (getCset σ i.cset)
  let σ := setCset σ i.cset merged
  vars.foldl (fun σ w => setVar σ w { (getVar σ w) with cset := i.cset }) σ

theorem bind_var_eq (L : Lang) (n : Nat) (σ : Store) (v tv : Nat) :
    bind L (n+1) σ v (.var tv) =
      if (getVar σ v).bound.isSome then .error (.internal "bind:variable cannot be unified twice")
      else if tv == v then .ok (setVar σ v (clearW σ v))
      else
        match (match (getVar σ v).lower with
               | some l => unify L n (bindVarStore σ v tv) (.app l []) (.var tv) true false false
               | none => .ok (bindVarStore σ v tv)) with
        | .error e => .error e
        | .ok σ1 =>
          match (match (getVar σ v).upper with
                 | some u => unify L n σ1 (.var tv) (.app u []) true false false
                 | none => .ok σ1) with
          | .error e => .error e
          | .ok σ2 => checkConstraints L n σ2 v := by
  rw [bind]
  rfl

theorem bind_app_eq (L : Lang) (n : Nat) (σ : Store) (v o : Nat) (args : List Term) :
    bind L (n+1) σ v (.app o args) =
      if (getVar σ v).bound.isSome then .error (.internal "bind:variable cannot be unified twice")
      else if arityOf L o == 0 then
        if (getVar σ v).lower.any (fun l => opSub L o l true) then .error .subtypeMismatch
        else if (getVar σ v).upper.any (fun u => opSub L u o true) then .error .subtypeMismatch
        else checkConstraints L n (bindBaseStore σ v (.app o args)) v
      else
        if (getVar σ v).lower.isSome || (getVar σ v).upper.isSome then .error .subtypeMismatch
        else checkConstraints L n (bindAppStore σ v (.app o args)) v := by
  rw [bind]
  rfl

theorem sameCore_clearW (σ : Store) (v : Nat) : SameCore σ (setVar σ v (clearW σ v)) :=
  sameCore_setVar rfl rfl rfl

theorem upd_bindBaseStore {σ : Store} {v : Nat} (hv : v < σ.vars.length) (t : Term) :
    Upd σ (bindBaseStore σ v t) v (some t) (getVar σ v).lower (getVar σ v).upper :=
  Upd.sameCore_left (sameCore_clearW σ v)
    (upd_setVar (by rw [length_setVar]; exact hv) { (clearW σ v) with bound := some t })

theorem nc_bindBaseStore {σ : Store} (nc : NoConstraints σ) (v : Nat) (t : Term) :
    NoConstraints (bindBaseStore σ v t) := nc_setVar (nc_setVar nc _ _) _ _

theorem upd_bindAppStore {σ : Store} {v : Nat} (hv : v < σ.vars.length) (t : Term) :
    Upd σ (bindAppStore σ v t) v (some t) (getVar σ v).lower (getVar σ v).upper :=
  Upd.sameCore_right (upd_bindBaseStore hv t)
    (SameCore.trans (sameCore_setCset _ _ _) (sameCore_foldl_cset _ _ _))

theorem nc_bindAppStore {σ : Store} (nc : NoConstraints σ) (v : Nat) (t : Term) :
    NoConstraints (bindAppStore σ v t) := by
  unfold bindAppStore
  simp only []
  apply nc_foldl_cset
  rw [merged_nil (nc_bindBaseStore nc v t)]
  exact nc_setCset_nil (nc_bindBaseStore nc v t) _

theorem upd_bindVarStore {σ : Store} {v : Nat} (hv : v < σ.vars.length) (tv : Nat) :
    Upd σ (bindVarStore σ v tv) v (some (.var tv)) (getVar σ v).lower (getVar σ v).upper := by
  have U0 := upd_bindBaseStore hv (.var tv)
  unfold bindVarStore
  simp only []
  refine Upd.sameCore_right ?_ (sameCore_setVar rfl rfl rfl)
  refine Upd.sameCore_right ?_ (sameCore_setVar rfl rfl rfl)
  refine Upd.sameCore_right ?_ (sameCore_setCset _ _ _)
  exact U0

theorem nc_bindVarStore {σ : Store} (nc : NoConstraints σ) (v tv : Nat) :
    NoConstraints (bindVarStore σ v tv) := by
  unfold bindVarStore
  simp only []
  apply nc_setVar
  apply nc_setVar
  have nc2 := nc_bindBaseStore nc v (.var tv)
  unfold bindBaseStore at nc2
  simp only [] at nc2
  rw [nc2, nc2]
  exact nc_setCset_nil nc2 _

theorem bind_step {L : Lang} (wf : WF L) {n : Nat} (hunify : UnifyS L n) :
    BindS L (n+1) := by
  intro σ v t σ' ok nc hv ht hpre h
  cases t with
  | var tv =>
    rw [bind_var_eq] at h
    split at h
    · cases h
    · next hnb =>
      have hnb : (getVar σ v).bound = none := by simpa using hnb
      split at h
      · next htv =>
        have htv : tv = v := by simpa using htv
        injection h with h
        subst h
        subst htv
        exact ⟨Step.of_sameCore ok (nc_setVar nc _ _) (sameCore_clearW σ tv), fun ρ _ => (den_var ρ tv).symm⟩
      · have U := upd_bindVarStore hv tv
        have ncB := nc_bindVarStore nc v tv
        have okB : OkStore L (bindVarStore σ v tv) := U.okStore ok
          (fun t' e => by injection e with e; subst e; exact ht)
          (ok.lower v) (ok.upper v) (ok.ordered v) (fun o args e => by cases e)
        have htv : tv < (bindVarStore σ v tv).vars.length := by
          rw [U.len]; exact okTerm_var.mp ht
        split at h
        · cases h
        · next σ1 h1 =>
          have k1 : Step L (bindVarStore σ v tv) σ1 ∧
              ∀ ρ, Sat L ρ σ1 → ∀ l, (getVar σ v).lower = some l → Sub L (.app l []) (ρ tv) := by
            split at h1
            · next l hl =>
              obtain ⟨s, hs⟩ := hunify _ (.app l []) (.var tv) σ1 okB ncB
                (okTerm_base (ok.lower v l hl).1 (ok.lower v l hl).2) (okTerm_var.mpr htv) h1
              refine ⟨s, fun ρ hρ l' hl' => ?_⟩
              rw [hl] at hl'; injection hl' with hl'; subst hl'
              have := hs ρ hρ
              rw [den_app, denL_nil, den_var] at this
              exact this
            · next hl =>
              injection h1 with h1; subst h1
              exact ⟨Step.refl okB ncB, fun ρ _ l' hl' => by rw [hl] at hl'; cases hl'⟩
          split at h
          · cases h
          · next σ2 h2 =>
            have k2 : Step L σ1 σ2 ∧
                ∀ ρ, Sat L ρ σ2 → ∀ u, (getVar σ v).upper = some u → Sub L (ρ tv) (.app u []) := by
              split at h2
              · next u hu =>
                obtain ⟨s, hs⟩ := hunify _ (.var tv) (.app u []) σ2 k1.1.ok k1.1.nc
                  (okTerm_var.mpr (Nat.lt_of_lt_of_le htv k1.1.len))
                  (okTerm_base (ok.upper v u hu).1 (ok.upper v u hu).2) h2
                refine ⟨s, fun ρ hρ u' hu' => ?_⟩
                rw [hu] at hu'; injection hu' with hu'; subst hu'
                have := hs ρ hρ
                rw [den_app, denL_nil, den_var] at this
                exact this
              · next hu =>
                injection h2 with h2; subst h2
                exact ⟨Step.refl k1.1.ok k1.1.nc, fun ρ _ u' hu' => by rw [hu] at hu'; cases hu'⟩
            have e := checkConstraints_nc k2.1.nc _ h
            subst e
            have sB := k1.1.trans k2.1
            have heq : ∀ ρ, Sat L ρ σ' → ρ v = ρ tv := fun ρ hρ => by
              have := (sB.sat ρ hρ).bound v (.var tv) U.b_eq
              rw [den_var] at this; exact this
            refine ⟨⟨sB.ok, sB.nc, ?_, fun ρ hρ => ?_⟩, fun ρ hρ => by rw [den_var]; exact heq ρ hρ⟩
            · have := sB.len; rw [U.len] at this; exact this
            · refine U.sat_back (sB.sat ρ hρ) (fun t' e => by rw [hnb] at e; cases e) ?_ ?_
              · intro x _ hx
                rw [heq ρ hρ]
                exact k1.2 ρ (k2.1.sat ρ hρ) x hx
              · intro x _ hx
                rw [heq ρ hρ]
                exact k2.2 ρ hρ x hx
  | app o args =>
    obtain ⟨ho, hlen, hargs⟩ := okTerm_app.mp ht
    rw [bind_app_eq] at h
    split at h
    · cases h
    · next hnb =>
      have hnb : (getVar σ v).bound = none := by simpa using hnb
      split at h
      · next h0 =>
        have h0 : arityOf L o = 0 := by simpa using h0
        have hnil : args = [] := List.eq_nil_of_length_eq_zero (hlen.trans h0)
        subst hnil
        split at h
        · cases h
        · next hl1 =>
          split at h
          · cases h
          · next hu1 =>
            have e := checkConstraints_nc (nc_bindBaseStore nc v _) _ h
            subst e
            have U := upd_bindBaseStore hv (.app o [])
            have ok' : OkStore L (bindBaseStore σ v (.app o [])) := U.okStore ok
              (fun t' e => by injection e with e; subst e; exact ht)
              (ok.lower v) (ok.upper v) (ok.ordered v)
              (fun o' args' e _ => by injection e with e; injection e with e1 e2; subst e1; exact h0)
            have heq : ∀ ρ, Sat L ρ (bindBaseStore σ v (.app o [])) → ρ v = .app o [] := fun ρ hρ => by
              have := hρ.bound v _ U.b_eq
              rw [den_app, denL_nil] at this; exact this
            refine ⟨⟨ok', nc_bindBaseStore nc v _, Nat.le_of_eq U.len.symm, fun ρ hρ => ?_⟩,
              fun ρ hρ => hρ.bound v _ U.b_eq⟩
            refine U.sat_back hρ (fun t' e => by rw [hnb] at e; cases e) ?_ ?_
            · intro x _ hx
              rw [heq ρ hρ]
              rcases (hpre o [] rfl h0).1 x hx with hh | hh
              · exact sub_base_of_opSub wf (ok.lower v x hx).2 h0 hh
              · rw [hx] at hl1; simp only [Option.any_some] at hl1; exact absurd hh hl1
            · intro x _ hx
              rw [heq ρ hρ]
              rcases (hpre o [] rfl h0).2 x hx with hh | hh
              · exact sub_base_of_opSub wf h0 (ok.upper v x hx).2 hh
              · rw [hx] at hu1; simp only [Option.any_some] at hu1; exact absurd hh hu1
      · next h0 =>
        split at h
        · cases h
        · next hb =>
          simp only [Bool.or_eq_true, not_or, Bool.not_eq_true, Option.isSome_eq_false_iff,
            Option.isNone_iff_eq_none] at hb
          have e := checkConstraints_nc (nc_bindAppStore nc v _) _ h
          subst e
          have U := upd_bindAppStore hv (.app o args)
          have ok' : OkStore L (bindAppStore σ v (.app o args)) := U.okStore ok
            (fun t' e => by injection e with e; subst e; exact ht)
            (ok.lower v) (ok.upper v) (ok.ordered v)
            (fun o' args' _ hx => by rw [hb.1, hb.2] at hx; simp at hx)
          refine ⟨⟨ok', nc_bindAppStore nc v _, Nat.le_of_eq U.len.symm, fun ρ hρ => ?_⟩,
            fun ρ hρ => hρ.bound v _ U.b_eq⟩
          refine U.sat_back hρ (fun t' e => by rw [hnb] at e; cases e) ?_ ?_
          · intro x _ hx; rw [hb.1] at hx; cases hx
          · intro x _ hx; rw [hb.2] at hx; cases hx

end Tfv.C03P
