import Tfv.Proofs.GraphAbsDeepTop
import Tfv.Proofs.GraphAbsDeepClass
/-!
# C08 on expanded composite operators at any depth: abstraction-free expressions, and agreement with `flowHO`

For an abstraction-free expression of the class `HofS`, `addExprA` on its embedding is `addExpr` (`addExprA_embed`), so
the theorem for `HofA` describes the graphs of `addExpr` as well, through the layout `flowHA` of the embedding; since
`C08_hofS_general` describes the same graph through `flowHO`, the two layouts agree.
-/
namespace Tfv.C08P
open Tfv

theorem noShared_of_hofS : ∀ (e : TExpr), hofS e = true → noShared e = true
  | .src _ _ _, _ => rfl
  | .op _ _, _ => rfl
  | .shared _ _, h => by cases h
  | .app f x t, h => by
    simp only [hofS, Bool.and_eq_true] at h
    simp only [noShared, noShared_of_hofS f h.1.2, noShared_of_hofS x h.2, Bool.and_self]

/-- the theorem for `HofA`, read for `addExpr` on an abstraction-free expression of the class `HofS` -/
theorem addExpr_hofS_via_hofA {G : GLang} {c : GCfg} {root : Node} {origin : Option Node} (hc : c.withTypes = false)
    {g g' : GState} {e : TExpr} {cur : Option Nat} {im : Bool} {n : Nat} {name : String} {ty : Term}
    (hof : HofS e) (hh : headOf e = .op name ty)
    (hg : GFresh g) (hs : SrcNoInt g) (hcur : ∀ m, cur = some m → CurFree g m)
    (h : addExpr G c root origin g e cur im = .ok (g', n)) :
    n = (flowHATop g.nextB g.srcNodes [] (AExpr.ofT e) cur).node ∧
    g'.nextB = (flowHATop g.nextB g.srcNodes [] (AExpr.ofT e) cur).next ∧
    g'.srcNodes = (flowHATop g.nextB g.srcNodes [] (AExpr.ofT e) cur).memo ∧
    g'.internals = g.internals ++ (flowHATop g.nextB g.srcNodes [] (AExpr.ofT e) cur).ints ∧
    (∀ p, p ∈ g'.fd.frm ↔ p ∈ g.fd.frm ∨ p ∈ (flowHATop g.nextB g.srcNodes [] (AExpr.ofT e) cur).edges) := by
  have hns := noShared_of_hofS e (hofS_complete e hof)
  have hA : addExprA G c root origin { g := g, params := [] } (AExpr.ofT e) cur im = .ok ({ g := g', params := [] }, n) := by
    rw [addExprA_embed e hns g [] cur im, h]; rfl
  obtain ⟨_, h2, h3, h4, _, _, h7, h8, _, _⟩ := addExprA_hofA_general hc (hofA_of_hofS hof) (headOfA_ofT_op hh)
    (s := { g := g, params := [] }) hg hs (parFresh_nil g)
    (fun m hm => ⟨hcur m hm, fun _ hp => by cases hp⟩) hA
  exact ⟨h2, h3, h4, h7, h8⟩

/-- on abstraction-free expressions of the class `HofS` the layout `flowHA` of the embedding is the layout `flowHO`
(for a start state that can occur: source nodes handed out, the reserved node unused) -/
theorem flowHA_agrees {e : TExpr} {name : String} {ty : Term} (hof : HofS e) (hh : headOf e = .op name ty)
    (next : Nat) (memo : List (Nat × Nat)) (cur : Option Nat) (hm : ∀ p ∈ memo, p.2 < next)
    (hcur : ∀ m, cur = some m → m < next ∧ ∀ p ∈ memo, p.2 ≠ m) :
    (flowHATop next memo [] (AExpr.ofT e) cur).node = (flowHOTop next memo e cur).node ∧
    (flowHATop next memo [] (AExpr.ofT e) cur).next = (flowHOTop next memo e cur).next ∧
    (flowHATop next memo [] (AExpr.ofT e) cur).memo = (flowHOTop next memo e cur).memo ∧
    (flowHATop next memo [] (AExpr.ofT e) cur).ints = (flowHOTop next memo e cur).ints ∧
    (∀ p, p ∈ (flowHATop next memo [] (AExpr.ofT e) cur).edges ↔ (flowHOTop next memo e cur).edges p) := by
  let g : GState := { nextB := next, srcNodes := memo }
  have hg : GFresh g := ⟨hm, fun _ hp => (by cases hp), fun _ hp => (by cases hp)⟩
  have hs : SrcNoInt g := fun _ hp => by cases hp
  have hc : ∀ m, cur = some m → CurFree g m := fun m hm' =>
    ⟨(hcur m hm').1, (hcur m hm').2, fun _ hp => (by cases hp), fun _ hp => (by cases hp)⟩
  have hcfg : ({ withTypes := false } : GCfg).withTypes = false := rfl
  obtain ⟨g', n, hrun⟩ := addExpr_total (G := default) (c := { withTypes := false }) (root := .res "w") (origin := none)
    hcfg g e cur false
  obtain ⟨a1, a2, a3, a4, a5⟩ := addExpr_hofS_via_hofA hcfg hof hh hg hs hc hrun
  obtain ⟨_, b1, b2, b3, _, b4, b5, _, _⟩ := addExpr_hofS_general hcfg hof hh hg hs hc hrun
  refine ⟨a1.symm.trans b1, a2.symm.trans b2, a3.symm.trans b3, ?_, ?_⟩
  · have := a4.symm.trans b4
    exact List.append_cancel_left this
  · intro p
    have h1 := a5 p
    have h2 := b5 p
    have hnil : p ∉ g.fd.frm := fun hp => by cases hp
    constructor
    · intro hp
      rcases h2.1 (h1.2 (Or.inr hp)) with h' | h'
      · exact absurd h' hnil
      · exact h'
    · intro hp
      rcases h1.1 (h2.2 (Or.inr hp)) with h' | h'
      · exact absurd h' hnil
      · exact h'

end Tfv.C08P
