import Tfv.Model
import Tfv.Spec.Sub
import Tfv.Spec.Taxonomy
import Tfv.Proofs.SubOrder
import Tfv.Proofs.Canon
import Tfv.Proofs.CanonComplete
import Tfv.Proofs.CanonClosed
import Tfv.Proofs.CanonLinks
/-!
# Helper lemmas for C10: `Bottom` (`Top`) occurs in the canon only if it was requested (or listed)
-/
namespace Tfv.Tax
open Tfv

theorem avoids_app {x o : Nat} {args : List Ty} :
    avoids x (.app o args) = true ↔ (o ≠ x ∧ avoidsL x args = true) := by
  rw [avoids]
  simp only [Bool.and_eq_true, bne_iff_ne, ne_eq]

theorem avoidsL_cons {x : Nat} {t : Ty} {ts : List Ty} :
    avoidsL x (t :: ts) = true ↔ (avoids x t = true ∧ avoidsL x ts = true) := by
  rw [avoidsL]
  simp only [Bool.and_eq_true]

theorem avoidsL_nil {x : Nat} : avoidsL x [] = true := by rw [avoidsL]

theorem avoids_base {x a : Nat} (h : a ≠ x) : avoids x (.app a []) = true :=
  avoids_app.mpr ⟨h, avoidsL_nil⟩

mutual
theorem tbFree_iff_avoids : ∀ (t : Ty), tbFree t = true ↔ (avoids TOP t = true ∧ avoids BOT t = true)
  | .app o args => by
    rw [tbFree_app, avoids_app, avoids_app, tbFreeL_iff_avoidsL args]
    constructor
    · rintro ⟨h1, h2, h3, h4⟩; exact ⟨⟨h1, h3⟩, h2, h4⟩
    · rintro ⟨⟨h1, h3⟩, h2, h4⟩; exact ⟨h1, h2, h3, h4⟩
theorem tbFreeL_iff_avoidsL : ∀ (ts : List Ty),
    tbFreeL ts = true ↔ (avoidsL TOP ts = true ∧ avoidsL BOT ts = true)
  | [] => by simp [tbFreeL_nil, avoidsL_nil]
  | t :: ts => by
    rw [tbFreeL_cons, avoidsL_cons, avoidsL_cons, tbFree_iff_avoids t, tbFreeL_iff_avoidsL ts]
    constructor
    · rintro ⟨⟨h1, h2⟩, h3, h4⟩; exact ⟨⟨h1, h3⟩, h2, h4⟩
    · rintro ⟨⟨h1, h3⟩, h2, h4⟩; exact ⟨⟨h1, h2⟩, h3, h4⟩
end

/-- the fall-back successor list of a compound type -/
def fallback (o : SOpts) (up : Bool) : List Ty :=
  if o.bottom && !up then [.app BOT []] else if o.top && up then [.app TOP []] else []

mutual
theorem succT_avoids {L : Lang} {o : SOpts} {x : Nat}
    (hbase : ∀ (up : Bool) (op : Nat) (s : Ty), op ≠ x → s ∈ baseSucc L o up op → avoids x s = true)
    (hfall : ∀ (up : Bool) (s : Ty), s ∈ fallback o up → avoids x s = true) :
    ∀ (up : Bool) (t s : Ty), avoids x t = true → s ∈ succT L o up t → avoids x s = true
  | up, .app b bs, s, ht, h => by
    obtain ⟨hb1, hb3⟩ := avoids_app.mp ht
    by_cases h0 : arityOf L b = 0
    · simp only [succT, h0, beq_self_eq_true, if_true] at h
      exact hbase up b s hb1 h
    · have hb : (arityOf L b == 0) = false := by simpa using h0
      simp only [succT, hb, Bool.false_eq_true, if_false] at h
      by_cases he : (succArgs L o up (varianceOf L b) bs).isEmpty = true
      · simp only [he, if_true] at h
        exact hfall up s h
      · simp only [he, Bool.false_eq_true, if_false, List.mem_map] at h
        obtain ⟨as, has, rfl⟩ := h
        exact avoids_app.mpr ⟨hb1, succArgs_avoids hbase hfall up (varianceOf L b) bs as hb3 has⟩
theorem succArgs_avoids {L : Lang} {o : SOpts} {x : Nat}
    (hbase : ∀ (up : Bool) (op : Nat) (s : Ty), op ≠ x → s ∈ baseSucc L o up op → avoids x s = true)
    (hfall : ∀ (up : Bool) (s : Ty), s ∈ fallback o up → avoids x s = true) :
    ∀ (up : Bool) (vs : List Bool) (ts ss : List Ty), avoidsL x ts = true → ss ∈ succArgs L o up vs ts →
    avoidsL x ss = true
  | _, [], _, _, _, h => by simp [succArgs] at h
  | _, _ :: _, [], _, _, h => by simp [succArgs] at h
  | up, v :: vs, p :: ps, ss, ht, h => by
    simp only [succArgs, List.mem_append, List.mem_map] at h
    obtain ⟨t1, t2⟩ := avoidsL_cons.mp ht
    rcases h with ⟨q, hq, rfl⟩ | ⟨qs, hqs, rfl⟩
    · exact avoidsL_cons.mpr ⟨succT_avoids hbase hfall (up == v) p q t1 hq, t2⟩
    · exact avoidsL_cons.mpr ⟨t1, succArgs_avoids hbase hfall up vs ps qs t2 hqs⟩
end

theorem top_ne_bot : TOP ≠ BOT := by decide

theorem baseSucc_avoids_bot {L : Lang} (wf : WF L) {o : SOpts} (hb : o.bottom = false) (hu : o.univ = [])
    (up : Bool) (op : Nat) (s : Ty) (hop : op ≠ BOT) (hs : s ∈ baseSucc L o up op) :
    avoids BOT s = true := by
  have hBb : (op == BOT) = false := by simpa using hop
  unfold baseSucc at hs
  cases up
  · simp only [Bool.not_false, if_true, hu, List.isEmpty_nil, Bool.not_true, Bool.false_eq_true, if_false, hb,
      Bool.false_and] at hs
    by_cases hT : (op == TOP) = true
    · simp [hT] at hs
    · simp only [hT, Bool.false_eq_true, if_false] at hs
      by_cases hc : (o.custom && !(childrenOf L op).isEmpty) = true
      · simp only [hc, if_true, List.mem_map] at hs
        obtain ⟨c, hc1, rfl⟩ := hs
        have h5 := wf.builtin_orphan _ _ (mem_childrenOf.mp hc1)
        exact avoids_base (by unfold BOT; omega)
      · simp [hc] at hs
  · simp only [Bool.not_true, Bool.false_eq_true, if_false, hBb] at hs
    have htop : s ∈ (if (o.top && op != TOP) = true then [Ty.app TOP []] else []) → avoids BOT s = true := by
      intro h
      by_cases hb : (o.top && op != TOP) = true
      · simp only [hb, if_true, List.mem_singleton] at h
        subst h
        exact avoids_base top_ne_bot
      · simp [hb] at h
    cases hp : parentOf L op with
    | some p =>
      by_cases hc : o.custom = true
      · simp only [hc, hp, Option.isSome_some, Bool.and_self, if_true, List.mem_singleton] at hs
        subst hs
        exact avoids_base (wf.parent_not_bot _ _ hp)
      · simp only [hc, Bool.false_and, Bool.false_eq_true, if_false] at hs
        exact htop hs
    | none =>
      simp only [hp, Option.isSome_none, Bool.and_false, Bool.false_eq_true, if_false] at hs
      exact htop hs

theorem baseSucc_avoids_top {L : Lang} (wf : WF L) {o : SOpts} (ht : o.top = false) (hu : o.univ = [])
    (up : Bool) (op : Nat) (s : Ty) (hop : op ≠ TOP) (hs : s ∈ baseSucc L o up op) :
    avoids TOP s = true := by
  have hTb : (op == TOP) = false := by simpa using hop
  unfold baseSucc at hs
  cases up
  · simp only [Bool.not_false, if_true, hTb, Bool.false_eq_true, if_false] at hs
    by_cases hc : (o.custom && !(childrenOf L op).isEmpty) = true
    · simp only [hc, if_true, List.mem_map] at hs
      obtain ⟨c, hc1, rfl⟩ := hs
      have h5 := wf.builtin_orphan _ _ (mem_childrenOf.mp hc1)
      exact avoids_base (by unfold TOP; omega)
    · simp only [hc, Bool.false_eq_true, if_false] at hs
      by_cases hb : (o.bottom && op != BOT) = true
      · simp only [hb, if_true, List.mem_singleton] at hs
        subst hs
        exact avoids_base (Ne.symm top_ne_bot)
      · simp [hb] at hs
  · simp only [Bool.not_true, Bool.false_eq_true, if_false, hu, List.isEmpty_nil, ht, Bool.false_and] at hs
    by_cases hB : (op == BOT) = true
    · simp [hB] at hs
    · simp only [hB, Bool.false_eq_true, if_false] at hs
      cases hp : parentOf L op with
      | some p =>
        by_cases hc : o.custom = true
        · simp only [hc, hp, Option.isSome_some, Bool.and_self, if_true, List.mem_singleton] at hs
          subst hs
          exact avoids_base (wf.parent_not_top _ _ hp)
        · simp [hc] at hs
      | none => simp [hp] at hs

theorem fallback_avoids_bot {o : SOpts} (hb : o.bottom = false) (up : Bool) (s : Ty)
    (hs : s ∈ fallback o up) : avoids BOT s = true := by
  unfold fallback at hs
  simp only [hb, Bool.false_and, Bool.false_eq_true, if_false] at hs
  by_cases h : (o.top && up) = true
  · simp only [h, if_true, List.mem_singleton] at hs
    subst hs; exact avoids_base top_ne_bot
  · simp [h] at hs

theorem fallback_avoids_top {o : SOpts} (ht : o.top = false) (up : Bool) (s : Ty)
    (hs : s ∈ fallback o up) : avoids TOP s = true := by
  unfold fallback at hs
  simp only [ht, Bool.false_and, Bool.false_eq_true, if_false] at hs
  by_cases h : (o.bottom && !up) = true
  · simp only [h, if_true, List.mem_singleton] at hs
    subst hs; exact avoids_base (Ne.symm top_ne_bot)
  · simp [h] at hs

/-- `Bottom` occurs in the expanded canon only if requested or present at the start -/
theorem canon_avoids_bot {L : Lang} (wf : WF L) {c : CanonCfg} (hB : c.includeBottom = false) (n : Nat)
    (stack canon : List Ty) (h1 : ∀ t ∈ canon, avoids BOT t = true) (h2 : ∀ t ∈ stack, avoids BOT t = true) :
    ∀ s ∈ expandCanon L c n stack canon, avoids BOT s = true := by
  apply expandCanon_least (fun x => avoids BOT x = true) ?_ n stack canon h1 h2
  intro t ht s hs
  unfold canonSucc at hs
  rcases List.mem_append.mp hs with hs | hs
  · exact succT_avoids (o := canonOpts c false) (baseSucc_avoids_bot wf hB rfl)
      (fallback_avoids_bot hB) true t s ht hs
  · exact succT_avoids (o := canonOpts c true) (baseSucc_avoids_bot wf hB rfl)
      (fallback_avoids_bot hB) false t s ht hs

/-- `Top` occurs in the expanded canon only if requested or present at the start -/
theorem canon_avoids_top {L : Lang} (wf : WF L) {c : CanonCfg} (hT : c.includeTop = false) (n : Nat)
    (stack canon : List Ty) (h1 : ∀ t ∈ canon, avoids TOP t = true) (h2 : ∀ t ∈ stack, avoids TOP t = true) :
    ∀ s ∈ expandCanon L c n stack canon, avoids TOP s = true := by
  apply expandCanon_least (fun x => avoids TOP x = true) ?_ n stack canon h1 h2
  intro t ht s hs
  unfold canonSucc at hs
  rcases List.mem_append.mp hs with hs | hs
  · exact succT_avoids (o := canonOpts c false) (baseSucc_avoids_top wf hT rfl)
      (fallback_avoids_top hT) true t s ht hs
  · exact succT_avoids (o := canonOpts c true) (baseSucc_avoids_top wf hT rfl)
      (fallback_avoids_top hT) false t s ht hs

theorem mkCanon_avoids_bot {L : Lang} (wf : WF L) {c : CanonCfg} (hB : c.includeBottom = false)
    {listed : List Ty} (hl : ∀ t ∈ listed, avoids BOT t = true) :
    ∀ s ∈ mkCanon L c listed, avoids BOT s = true := by
  rw [mkCanon_eq]
  exact canon_avoids_bot wf hB _ _ _ (fun t ht => hl t ((mem_initOf listed t).mp ht))
    (fun t ht => hl t ((mem_initOf listed t).mp ht))

theorem mkCanon_avoids_top {L : Lang} (wf : WF L) {c : CanonCfg} (hT : c.includeTop = false)
    {listed : List Ty} (hl : ∀ t ∈ listed, avoids TOP t = true) :
    ∀ s ∈ mkCanon L c listed, avoids TOP s = true := by
  rw [mkCanon_eq]
  exact canon_avoids_top wf hT _ _ _ (fun t ht => hl t ((mem_initOf listed t).mp ht))
    (fun t ht => hl t ((mem_initOf listed t).mp ht))

end Tfv.Tax
