import Tfv.Proofs.FlowNested
/-!
# C08 proofs, part 9: operations passed as arguments at any depth
-/
namespace Tfv.C08P
open Tfv

/-! ## unfolding `flowHO` -/

theorem flowHO_src (next : Nat) (memo : List (Nat × Nat)) (id : Nat) (l : Option String) (ty : Term) (cur : Nat) :
    flowHO next memo (.src id l ty) cur =
      match memo.find? (fun p => p.1 == id) with
      | some p => { node := p.2, next := next, memo := memo, ints := [], edges := fun _ => False }
      | none => { node := cur, next := next, memo := memo ++ [(id, cur)], ints := [], edges := fun _ => False } := by
  rw [flowHO]; rfl

theorem flowHO_spine (next : Nat) (memo : List (Nat × Nat)) (e : TExpr) (cur : Nat) (name : String) (ty : Term)
    (h : headOf e = .op name ty) :
    flowHO next memo e cur =
      { node := cur, next := ((argsOf e).foldl hoArgStep { next := next, memo := memo, rs := [] }).next,
        memo := ((argsOf e).foldl hoArgStep { next := next, memo := memo, rs := [] }).memo,
        ints := spineInts cur ((argsOf e).foldl hoArgStep { next := next, memo := memo, rs := [] }).rs,
        edges := spineEdges cur ((argsOf e).foldl hoArgStep { next := next, memo := memo, rs := [] }).rs } := by
  rw [flowHO, h]
  simp only []
  have : ∀ (init : HoArgs), List.foldl (fun (st : HoArgs) (x : { x // x ∈ argsOf e }) =>
        if x.1.ty.isFunction = true then
          { next := (flowHO (st.next + 2) st.memo x.1 st.next).next, memo := (flowHO (st.next + 2) st.memo x.1 st.next).memo,
            rs := st.rs ++ [(flowHO (st.next + 2) st.memo x.1 st.next, some (st.next + 1))] }
        else
          { next := (flowHO (st.next + 1) st.memo x.1 st.next).next, memo := (flowHO (st.next + 1) st.memo x.1 st.next).memo,
            rs := st.rs ++ [(flowHO (st.next + 1) st.memo x.1 st.next, none)] }) init (argsOf e).attach =
      (argsOf e).foldl hoArgStep init := by
    intro init
    exact foldl_attach_val (argsOf e) hoArgStep init
  rw [this]

/-! ## the wiring of a passed operation, in general -/

theorem wire_some_mem_gen (k : Core) (n x i : Nat) (p : Nat × Nat)
    (hnx : n ≠ x) (hnn : (n, n) ∉ k.ints) (hxn : (x, n) ∉ k.ints) :
    p ∈ (wire k n x (some i)).frm ↔
      p ∈ k.frm ∨ p = (x, i) ∨ p = (n, x) ∨ (∃ j, (x, j) ∈ k.ints ∧ p = (j, i)) ∨
      (∃ j, (n, j) ∈ k.ints ∧ j ≠ i ∧ p = (j, x)) ∨
      (∃ fin, (n, fin) ∈ k.frm ∧ p = (i, fin)) :=
  wire_some_mem_all k n x i p hnx hnn hxn

/-! ## one argument more: the spine description -/

theorem argInfos_snoc (rs : List (HoRes × Option Nat)) (q : HoRes × Option Nat) :
    argInfos (rs ++ [q]) = argInfos rs ++ [{ node := q.1.node, lam := q.2 }] := by
  simp [argInfos]

theorem mem_argInfos (rs : List (HoRes × Option Nat)) (a : ArgInfo) :
    a ∈ argInfos rs ↔ ∃ q ∈ rs, a = { node := q.1.node, lam := q.2 } := by
  simp only [argInfos, List.mem_map]
  constructor
  · rintro ⟨q, hq, rfl⟩; exact ⟨q, hq, rfl⟩
  · rintro ⟨q, hq, rfl⟩; exact ⟨q, hq, rfl⟩

/-- the internal pair in front of an argument -/
def lamPair (n : Nat) : Option Nat → List (Nat × Nat)
  | some l => [(n, l)]
  | none => []

theorem spineInts_eq (n : Nat) (rs : List (HoRes × Option Nat)) :
    spineInts n rs = rs.flatMap (fun q => lamPair n q.2 ++ q.1.ints) := by
  unfold spineInts
  congr 1

theorem spineInts_snoc (n : Nat) (rs : List (HoRes × Option Nat)) (q : HoRes × Option Nat) :
    spineInts n (rs ++ [q]) = spineInts n rs ++ (lamPair n q.2 ++ q.1.ints) := by
  simp [spineInts_eq]

theorem mem_spineInts (n : Nat) (rs : List (HoRes × Option Nat)) (p : Nat × Nat) :
    p ∈ spineInts n rs ↔ (∃ q ∈ rs, q.2 = some p.2 ∧ p.1 = n) ∨ (∃ q ∈ rs, p ∈ q.1.ints) := by
  rw [spineInts_eq]
  simp only [List.mem_flatMap, List.mem_append]
  constructor
  · rintro ⟨q, hq, h | h⟩
    · left
      refine ⟨q, hq, ?_⟩
      cases hl : q.2 with
      | none => rw [hl] at h; cases h
      | some l =>
        rw [hl] at h
        simp only [lamPair, List.mem_singleton] at h
        rw [h]; exact ⟨rfl, rfl⟩
    · exact Or.inr ⟨q, hq, h⟩
  · rintro (⟨q, hq, h1, h2⟩ | ⟨q, hq, h⟩)
    · refine ⟨q, hq, Or.inl ?_⟩
      rw [h1]
      simp only [lamPair, List.mem_singleton]
      rw [← h2]
    · exact ⟨q, hq, Or.inr h⟩

theorem spineEdges_snoc (n : Nat) (rs : List (HoRes × Option Nat)) (q : HoRes × Option Nat) (p : Nat × Nat) :
    spineEdges n (rs ++ [q]) p ↔
      spineEdges n rs p ∨ q.1.edges p ∨ p = (n, q.1.node) ∨ (∃ l, q.2 = some l ∧ p = (q.1.node, l)) ∨
      (∃ a ∈ rs, ∃ l, a.2 = some l ∧ p = (l, q.1.node)) ∨
      (∃ l, q.2 = some l ∧ ∃ a ∈ rs, p = (l, a.1.node)) ∨
      (∃ l μ, q.2 = some l ∧ (q.1.node, μ) ∈ q.1.ints ∧ p = (μ, l)) := by
  unfold spineEdges
  rw [argInfos_snoc, hofEdges_snoc]
  simp only [List.mem_append, List.mem_singleton]
  constructor
  · rintro (⟨a, ha | rfl, h⟩ | (h | h | ⟨l, hl, h⟩ | ⟨a, ha, l, hl, h⟩ | ⟨l, hl, a, ha, h⟩) | ⟨a, ha | rfl, l, μ, hl, hm, h⟩)
    · exact Or.inl (Or.inl ⟨a, ha, h⟩)
    · exact Or.inr (Or.inl h)
    · exact Or.inl (Or.inr (Or.inl h))
    · exact Or.inr (Or.inr (Or.inl h))
    · exact Or.inr (Or.inr (Or.inr (Or.inl ⟨l, hl, h⟩)))
    · obtain ⟨a', ha', rfl⟩ := (mem_argInfos rs a).1 ha
      exact Or.inr (Or.inr (Or.inr (Or.inr (Or.inl ⟨a', ha', l, hl, h⟩))))
    · obtain ⟨a', ha', rfl⟩ := (mem_argInfos rs a).1 ha
      exact Or.inr (Or.inr (Or.inr (Or.inr (Or.inr (Or.inl ⟨l, hl, a', ha', h⟩)))))
    · exact Or.inl (Or.inr (Or.inr ⟨a, ha, l, μ, hl, hm, h⟩))
    · exact Or.inr (Or.inr (Or.inr (Or.inr (Or.inr (Or.inr ⟨l, μ, hl, hm, h⟩)))))
  · rintro ((⟨a, ha, h⟩ | h | ⟨a, ha, l, μ, hl, hm, h⟩) | h | h | ⟨l, hl, h⟩ | ⟨a, ha, l, hl, h⟩ | ⟨l, hl, a, ha, h⟩ |
      ⟨l, μ, hl, hm, h⟩)
    · exact Or.inl ⟨a, Or.inl ha, h⟩
    · exact Or.inr (Or.inl (Or.inl h))
    · exact Or.inr (Or.inr ⟨a, Or.inl ha, l, μ, hl, hm, h⟩)
    · exact Or.inl ⟨q, Or.inr rfl, h⟩
    · exact Or.inr (Or.inl (Or.inr (Or.inl h)))
    · exact Or.inr (Or.inl (Or.inr (Or.inr (Or.inl ⟨l, hl, h⟩))))
    · exact Or.inr (Or.inl (Or.inr (Or.inr (Or.inr (Or.inl
        ⟨_, (mem_argInfos rs _).2 ⟨a, ha, rfl⟩, l, hl, h⟩)))))
    · exact Or.inr (Or.inl (Or.inr (Or.inr (Or.inr (Or.inr
        ⟨l, hl, _, (mem_argInfos rs _).2 ⟨a, ha, rfl⟩, h⟩)))))
    · exact Or.inr (Or.inr ⟨q, Or.inr rfl, l, μ, hl, hm, h⟩)

/-! ## context, postcondition, invariant -/

/-- the state in which an expression with the reserved node `x` is added -/
structure GCtx (x : Nat) (k : Core) : Prop where
  x_lt : x < k.nextB
  ints : ∀ p ∈ k.ints, p.1 < k.nextB ∧ p.1 ≠ x
  frm : ∀ p ∈ k.frm, p.1 < k.nextB ∧ p.1 ≠ x
  src : ∀ p ∈ k.src, p.2 < k.nextB ∧ p.2 ≠ x

structure GPost (x : Nat) (k : Core) (e : TExpr) (r : HoRes) (k' : Core) (m : Nat) : Prop where
  node_eq : m = r.node
  next_eq : k'.nextB = r.next
  src_eq : k'.src = r.memo
  shared_eq : k'.shared = k.shared
  ints_eq : k'.ints = k.ints ++ r.ints
  frm_iff : ∀ p, p ∈ k'.frm ↔ p ∈ k.frm ∨ r.edges p
  le : k.nextB ≤ r.next
  memo_rng : ∀ p ∈ r.memo, p ∈ k.src ∨ (x ≤ p.2 ∧ p.2 < r.next)
  node_rng : r.node = x ∨ ∃ p ∈ k.src, p.2 = r.node
  node_op : ∀ name ty, headOf e = .op name ty → r.node = x
  edges_rng : ∀ p, r.edges p → x ≤ p.1 ∧ p.1 < r.next ∧ p.2 < r.next
  ints_rng : ∀ q ∈ r.ints, x ≤ q.1 ∧ q.1 < r.next ∧ k.nextB ≤ q.2 ∧ q.2 < r.next
  ints_nodup : (r.ints.map Prod.snd).Nodup

structure GInv (n : Nat) (k0 : Core) (l : List TExpr) (k : Core) (st : HoArgs) : Prop where
  next_eq : k.nextB = st.next
  src_eq : k.src = st.memo
  shared_eq : k.shared = k0.shared
  ints_eq : k.ints = k0.ints ++ spineInts n st.rs
  frm_iff : ∀ p, p ∈ k.frm ↔ p ∈ k0.frm ∨ spineEdges n st.rs p
  le : k0.nextB ≤ st.next
  memo_rng : ∀ p ∈ st.memo, p ∈ k0.src ∨ (k0.nextB ≤ p.2 ∧ p.2 < st.next)
  edges_rng : ∀ q ∈ st.rs, ∀ p, q.1.edges p → k0.nextB ≤ p.1 ∧ p.1 < st.next ∧ p.2 < st.next
  ints_rng : ∀ q ∈ st.rs, ∀ i ∈ q.1.ints, k0.nextB ≤ i.1 ∧ i.1 < st.next ∧ k0.nextB ≤ i.2 ∧ i.2 < st.next
  lam_rng : ∀ q ∈ st.rs, ∀ i, q.2 = some i → k0.nextB ≤ i ∧ i < st.next ∧ k0.nextB ≤ q.1.node
  node_lt : ∀ q ∈ st.rs, q.1.node < st.next ∧ q.1.node ≠ n
  shape : st.rs.map (fun q => q.2.isSome) = l.map (fun a => a.ty.isFunction)
  lams_nodup : (st.rs.filterMap (fun q => q.2)).Nodup
  ints_nodup : ((spineInts n st.rs).map Prod.snd).Nodup

theorem gInv_init {n : Nat} {k0 : Core} :
    GInv n k0 [] k0 { next := k0.nextB, memo := k0.src, rs := [] } := by
  refine ⟨rfl, rfl, rfl, by simp [spineInts], ?_, Nat.le_refl _, fun p hp => Or.inl hp, by simp, by simp, by simp,
    by simp, rfl, by simp, by simp [spineInts]⟩
  intro p
  simp [spineEdges, hofEdges, argInfos]

/-- consequences of the invariant used by both kinds of step -/
theorem gInv_facts {n : Nat} {k0 k : Core} {l : List TExpr} {st : HoArgs} (hctx : GCtx n k0)
    (inv : GInv n k0 l k st) :
    (∀ p ∈ k.ints, p.1 < st.next ∧ (p.1 = n → ∃ q ∈ st.rs, q.2 = some p.2)) ∧
    (∀ p ∈ k.frm, p.1 < st.next) ∧
    (∀ p ∈ st.memo, p.2 < st.next ∧ p.2 ≠ n) := by
  have hn := hctx.x_lt
  have hle := inv.le
  refine ⟨?_, ?_, ?_⟩
  · intro p hp
    rw [inv.ints_eq, List.mem_append] at hp
    rcases hp with hp | hp
    · have := hctx.ints p hp
      exact ⟨by omega, fun h => absurd h this.2⟩
    · rcases (mem_spineInts n st.rs p).1 hp with ⟨q, hq, h1, h2⟩ | ⟨q, hq, h⟩
      · exact ⟨by omega, fun _ => ⟨q, hq, h1⟩⟩
      · have := inv.ints_rng q hq p h
        exact ⟨this.2.1, fun h' => by omega⟩
  · intro p hp
    rcases (inv.frm_iff p).1 hp with h | h | h | h
    · have := (hctx.frm p h).1; omega
    · obtain ⟨q, hq, h⟩ := h
      exact (inv.edges_rng q hq p h).2.1
    · rcases h with ⟨a, ha, h'⟩ | ⟨a, ha, i, hl, h'⟩ | ⟨i', j', hi', hj', _, i, hl, h'⟩
      · rw [h']; show n < _; omega
      · obtain ⟨q, hq, rfl⟩ := (mem_argInfos _ _).1 ha
        rw [h']; exact (inv.node_lt q hq).1
      · obtain ⟨q, hq, hq'⟩ := (mem_argInfos _ _).1 (List.getElem_mem hi')
        rw [hq'] at hl
        rw [h']; exact (inv.lam_rng q hq i hl).2.1
    · obtain ⟨q, hq, i, μ, _, hm, h'⟩ := h
      rw [h']; exact (inv.ints_rng q hq _ hm).2.2.2
  · intro p hp
    rcases inv.memo_rng p hp with h | h
    · have := hctx.src p h
      exact ⟨by omega, this.2⟩
    · exact ⟨h.2, by omega⟩

theorem gInv_ints_lt {n : Nat} {k0 k : Core} {l : List TExpr} {st : HoArgs} (inv : GInv n k0 l k st) :
    ∀ p ∈ spineInts n st.rs, p.2 < st.next := by
  intro p hp
  rcases (mem_spineInts n st.rs p).1 hp with ⟨q, hq, h1, _⟩ | ⟨q, hq, h⟩
  · exact (inv.lam_rng q hq _ h1).2.1
  · exact (inv.ints_rng q hq p h).2.2.2

/-! ## the steps -/

/-- the induction hypothesis for one argument -/
def ArgIH (b : TExpr) : Prop :=
  ∀ (k : Core) (x : Nat), GCtx x k →
    GPost x k b (flowHO k.nextB k.src b x) (addExprC k b (some x)).1 (addExprC k b (some x)).2

theorem gInv_step_data {n : Nat} {k0 k : Core} {l : List TExpr} {st : HoArgs} (hctx : GCtx n k0)
    (inv : GInv n k0 l k st) (b : TExpr) (ih : ArgIH b) (hfun : b.ty.isFunction = false) :
    GInv n k0 (l ++ [b]) (argStepC n k b) (hoArgStep st b) := by
  obtain ⟨hI, hF, hM⟩ := gInv_facts hctx inv
  have hn := hctx.x_lt
  have hle := inv.le
  have hK1 : GCtx st.next k.fresh.1 := by
    refine ⟨?_, ?_, ?_, ?_⟩
    · show st.next < k.nextB + 1
      rw [inv.next_eq]; omega
    · intro p hp
      have := (hI p hp).1
      refine ⟨?_, by omega⟩
      show p.1 < k.nextB + 1
      rw [inv.next_eq]; omega
    · intro p hp
      have := hF p hp
      refine ⟨?_, by omega⟩
      show p.1 < k.nextB + 1
      rw [inv.next_eq]; omega
    · intro p hp
      have hp' : p ∈ st.memo := by rw [← inv.src_eq]; exact hp
      have := (hM p hp').1
      refine ⟨?_, by omega⟩
      show p.2 < k.nextB + 1
      rw [inv.next_eq]; omega
  have post := ih k.fresh.1 st.next hK1
  have e1 : k.fresh.1.nextB = st.next + 1 := by show k.nextB + 1 = _; rw [inv.next_eq]
  have e2 : k.fresh.1.src = st.memo := inv.src_eq
  have e3 : k.fresh.2 = st.next := inv.next_eq
  rw [e1, e2] at post
  unfold argStepC hoArgStep
  simp only [hfun, mkInternal, Bool.false_eq_true, if_false]
  rw [e3]
  generalize flowHO (st.next + 1) st.memo b st.next = r at post ⊢
  generalize addExprC k.fresh.1 b (some st.next) = km at post ⊢
  obtain ⟨K', m⟩ := km
  simp only [] at post ⊢
  have hm := post.node_eq
  subst hm
  have hr_le : st.next + 1 ≤ r.next := by have := post.le; rw [e1] at this; exact this
  obtain ⟨w1, w2, w3, w4⟩ := wire_frame K' n r.node none
  have hrnode : r.node < r.next ∧ r.node ≠ n := by
    rcases post.node_rng with h | ⟨p, hp, h⟩
    · rw [h]; exact ⟨by omega, by omega⟩
    · have hp' : p ∈ st.memo := by rw [← e2]; exact hp
      have := hM p hp'
      rw [← h]; exact ⟨by omega, this.2⟩
  refine ⟨by rw [w1]; exact post.next_eq, by rw [w2]; exact post.src_eq,
    by rw [w3, post.shared_eq]; exact inv.shared_eq, ?_, ?_, by show k0.nextB ≤ r.next; omega, ?_, ?_, ?_, ?_, ?_,
    ?_, ?_, ?_⟩
  · rw [w4, post.ints_eq, spineInts_snoc]
    show k.ints ++ r.ints = _
    rw [inv.ints_eq]
    simp [lamPair]
  · intro p
    rw [wire_none_mem, spineEdges_snoc, post.frm_iff]
    show ((p ∈ k.frm ∨ r.edges p) ∨ p = (n, r.node) ∨ ∃ j, (n, j) ∈ K'.ints ∧ p = (j, r.node)) ↔ _
    rw [inv.frm_iff]
    constructor
    · rintro (((h | h) | h) | h | ⟨j, hj, h⟩)
      · exact Or.inl h
      · exact Or.inr (Or.inl h)
      · exact Or.inr (Or.inr (Or.inl h))
      · exact Or.inr (Or.inr (Or.inr (Or.inl h)))
      · rw [post.ints_eq, List.mem_append] at hj
        rcases hj with hj | hj
        · obtain ⟨q, hq, hl⟩ := (hI (n, j) hj).2 rfl
          exact Or.inr (Or.inr (Or.inr (Or.inr (Or.inr (Or.inl ⟨q, hq, j, hl, h⟩)))))
        · have := (post.ints_rng _ hj).1
          have : st.next ≤ n := this
          omega
    · rintro (h | h | h | h | ⟨i, hi, _⟩ | ⟨a, ha, i, hl, h⟩ | ⟨i, hi, _⟩ | ⟨i, μ, hi, _⟩)
      · exact Or.inl (Or.inl (Or.inl h))
      · exact Or.inl (Or.inl (Or.inr h))
      · exact Or.inl (Or.inr h)
      · exact Or.inr (Or.inl h)
      · cases hi
      · refine Or.inr (Or.inr ⟨i, ?_, h⟩)
        rw [post.ints_eq]
        apply List.mem_append_left
        show (n, i) ∈ k.ints
        rw [inv.ints_eq]
        exact List.mem_append_right _ ((mem_spineInts n st.rs (n, i)).2 (Or.inl ⟨a, ha, hl, rfl⟩))
      · cases hi
      · cases hi
  · intro p hp
    rcases post.memo_rng p hp with h | h
    · have hp' : p ∈ st.memo := by rw [← e2]; exact h
      rcases inv.memo_rng p hp' with h' | h'
      · exact Or.inl h'
      · exact Or.inr ⟨h'.1, by show p.2 < r.next; omega⟩
    · exact Or.inr ⟨by omega, h.2⟩
  · intro q hq p hp
    show k0.nextB ≤ p.1 ∧ p.1 < r.next ∧ p.2 < r.next
    simp only [List.mem_append, List.mem_singleton] at hq
    rcases hq with hq | rfl
    · have := inv.edges_rng q hq p hp
      exact ⟨this.1, by omega, by omega⟩
    · have := post.edges_rng p hp
      exact ⟨by omega, this.2.1, this.2.2⟩
  · intro q hq i hi
    show k0.nextB ≤ i.1 ∧ i.1 < r.next ∧ k0.nextB ≤ i.2 ∧ i.2 < r.next
    simp only [List.mem_append, List.mem_singleton] at hq
    rcases hq with hq | rfl
    · have := inv.ints_rng q hq i hi
      exact ⟨this.1, by omega, this.2.2.1, by omega⟩
    · have := post.ints_rng i hi
      rw [e1] at this
      exact ⟨by omega, this.2.1, by omega, this.2.2.2⟩
  · intro q hq i hi
    show k0.nextB ≤ i ∧ i < r.next ∧ k0.nextB ≤ q.1.node
    simp only [List.mem_append, List.mem_singleton] at hq
    rcases hq with hq | rfl
    · have := inv.lam_rng q hq i hi
      exact ⟨this.1, by omega, this.2.2⟩
    · cases hi
  · intro q hq
    show q.1.node < r.next ∧ q.1.node ≠ n
    simp only [List.mem_append, List.mem_singleton] at hq
    rcases hq with hq | rfl
    · have := inv.node_lt q hq
      exact ⟨by omega, this.2⟩
    · exact hrnode
  · show (st.rs ++ [(r, none)]).map (fun (q : HoRes × Option Nat) => q.2.isSome) = _
    rw [List.map_append, List.map_append, inv.shape]
    simp [hfun]
  · show ((st.rs ++ [(r, none)]).filterMap (fun (q : HoRes × Option Nat) => q.2)).Nodup
    rw [List.filterMap_append]
    simpa using inv.lams_nodup
  · show ((spineInts n (st.rs ++ [(r, none)])).map Prod.snd).Nodup
    rw [spineInts_snoc, List.map_append, List.nodup_append]
    refine ⟨inv.ints_nodup, by simpa [lamPair] using post.ints_nodup, ?_⟩
    intro y hy z hz hyz
    subst hyz
    obtain ⟨p1, hp1, h1⟩ := List.mem_map.1 hy
    obtain ⟨p2, hp2, h2⟩ := List.mem_map.1 hz
    have a1 := gInv_ints_lt inv p1 hp1
    simp only [lamPair, List.nil_append] at hp2
    have a2 := (post.ints_rng p2 hp2).2.2.1
    rw [e1] at a2
    omega

/-- the core after reserving the node and the internal node of a passed operation -/
def funCore2 (k : Core) (n : Nat) : Core :=
  { nextB := k.nextB + 2, src := k.src, shared := k.shared, ints := k.ints ++ [(n, k.nextB + 1)], frm := k.frm }

theorem mkInternal_true (k : Core) (n : Nat) : mkInternal k.fresh.1 n true = (funCore2 k n, some (k.nextB + 1)) := rfl

theorem gInv_step_fun {n : Nat} {k0 k : Core} {l : List TExpr} {st : HoArgs} (hctx : GCtx n k0)
    (inv : GInv n k0 l k st) (b : TExpr) (ih : ArgIH b) (hfun : b.ty.isFunction = true)
    (hhead : ∃ name ty, headOf b = .op name ty) :
    GInv n k0 (l ++ [b]) (argStepC n k b) (hoArgStep st b) := by
  obtain ⟨hI, hF, hM⟩ := gInv_facts hctx inv
  have hn := hctx.x_lt
  have hle := inv.le
  have hkn : k.nextB = st.next := inv.next_eq
  have K1n : (funCore2 k n).nextB = st.next + 2 := by show k.nextB + 2 = _; rw [hkn]
  have K1s : (funCore2 k n).src = st.memo := inv.src_eq
  have K1i : (funCore2 k n).ints = k.ints ++ [(n, st.next + 1)] := by
    show k.ints ++ [(n, k.nextB + 1)] = _; rw [hkn]
  have K1f : (funCore2 k n).frm = k.frm := rfl
  have K1h : (funCore2 k n).shared = k.shared := rfl
  have hK1 : GCtx st.next (funCore2 k n) := by
    refine ⟨by rw [K1n]; omega, ?_, ?_, ?_⟩
    · intro p hp
      rw [K1i, List.mem_append, List.mem_singleton] at hp
      rw [K1n]
      rcases hp with hp | rfl
      · have := (hI p hp).1
        exact ⟨by omega, by omega⟩
      · exact ⟨by show n < _; omega, by show n ≠ _; omega⟩
    · intro p hp
      have := hF p hp
      rw [K1n]
      exact ⟨by omega, by omega⟩
    · intro p hp
      have hp' : p ∈ st.memo := by rw [← K1s]; exact hp
      have := (hM p hp').1
      rw [K1n]
      exact ⟨by omega, by omega⟩
  have post := ih (funCore2 k n) st.next hK1
  rw [K1n, K1s] at post
  have e3 : k.fresh.2 = st.next := hkn
  unfold argStepC hoArgStep
  simp only [hfun, if_true]
  rw [mkInternal_true, e3, hkn]
  simp only []
  generalize flowHO (st.next + 2) st.memo b st.next = r at post ⊢
  generalize addExprC (funCore2 k n) b (some st.next) = km at post ⊢
  obtain ⟨K', m⟩ := km
  simp only [] at post ⊢
  have hm := post.node_eq
  subst hm
  obtain ⟨name, ty, hh⟩ := hhead
  have hx : r.node = st.next := post.node_op name ty hh
  have hr_le : st.next + 2 ≤ r.next := by have := post.le; rw [K1n] at this; exact this
  have hKi : K'.ints = (k.ints ++ [(n, st.next + 1)]) ++ r.ints := by rw [post.ints_eq, K1i]
  have hKf : ∀ p, p ∈ K'.frm ↔ p ∈ k.frm ∨ r.edges p := by
    intro p; rw [post.frm_iff, K1f]
  have hri : ∀ q ∈ r.ints, st.next ≤ q.1 ∧ q.1 < r.next ∧ st.next + 2 ≤ q.2 ∧ q.2 < r.next := by
    intro q hq
    have := post.ints_rng q hq
    rw [K1n] at this
    exact this
  obtain ⟨w1, w2, w3, w4⟩ := wire_frame K' n r.node (some (st.next + 1))
  -- side conditions of the wiring lemma
  have c2 : n ≠ r.node := by rw [hx]; omega
  have c3 : (n, n) ∉ K'.ints := by
    intro hj
    rw [hKi, List.mem_append, List.mem_append, List.mem_singleton] at hj
    rcases hj with (hj | hj) | hj
    · obtain ⟨q, hq, hl⟩ := (hI _ hj).2 rfl
      have := (inv.lam_rng q hq n hl).1
      omega
    · have := (Prod.mk.inj hj).2; omega
    · have := (hri _ hj).1
      have : st.next ≤ n := this
      omega
  have c4 : (r.node, n) ∉ K'.ints := by
    intro hj
    rw [hKi, List.mem_append, List.mem_append, List.mem_singleton, hx] at hj
    rcases hj with (hj | hj) | hj
    · have := (hI _ hj).1
      have : st.next < st.next := this
      omega
    · have := (Prod.mk.inj hj).1; omega
    · have := (hri _ hj).2.2.1
      have : st.next + 2 ≤ n := this
      omega
  have hA : ∀ p : Nat × Nat, (∃ j, (r.node, j) ∈ K'.ints ∧ p = (j, st.next + 1)) ↔
      (∃ μ, (r.node, μ) ∈ r.ints ∧ p = (μ, st.next + 1)) := by
    intro p
    constructor
    · rintro ⟨j, hj, h⟩
      rw [hKi, List.mem_append, List.mem_append, List.mem_singleton] at hj
      rcases hj with (hj | hj) | hj
      · have := (hI _ hj).1
        have : r.node < st.next := this
        omega
      · have := (Prod.mk.inj hj).1; omega
      · exact ⟨j, hj, h⟩
    · rintro ⟨μ, hμ, h⟩
      exact ⟨μ, by rw [hKi]; exact List.mem_append_right _ hμ, h⟩
  have hB : ∀ p : Nat × Nat, (∃ j, (n, j) ∈ K'.ints ∧ j ≠ st.next + 1 ∧ p = (j, r.node)) ↔
      (∃ a ∈ st.rs, ∃ i, a.2 = some i ∧ p = (i, r.node)) := by
    intro p
    constructor
    · rintro ⟨j, hj, hji, h⟩
      rw [hKi, List.mem_append, List.mem_append, List.mem_singleton] at hj
      rcases hj with (hj | hj) | hj
      · obtain ⟨q, hq, hl⟩ := (hI _ hj).2 rfl
        exact ⟨q, hq, j, hl, h⟩
      · exact absurd (Prod.mk.inj hj).2 hji
      · have := (hri _ hj).1
        have : st.next ≤ n := this
        omega
    · rintro ⟨a, ha, i, hl, h⟩
      refine ⟨i, ?_, ?_, h⟩
      · rw [hKi, inv.ints_eq]
        apply List.mem_append_left
        apply List.mem_append_left
        exact List.mem_append_right _ ((mem_spineInts n st.rs (n, i)).2 (Or.inl ⟨a, ha, hl, rfl⟩))
      · have := (inv.lam_rng a ha i hl).2.1
        omega
  have hC : ∀ p : Nat × Nat, (∃ fin, (n, fin) ∈ K'.frm ∧ p = (st.next + 1, fin)) ↔
      (∃ a ∈ st.rs, p = (st.next + 1, a.1.node)) := by
    intro p
    constructor
    · rintro ⟨fin, hfin, h⟩
      rw [hKf, inv.frm_iff] at hfin
      rcases hfin with (hfin | hfin) | hfin
      · exact absurd rfl (hctx.frm _ hfin).2
      · rcases hfin with ⟨q, hq, h'⟩ | h' | ⟨q, hq, i, μ, _, hm, h'⟩
        · have := (inv.edges_rng q hq _ h').1
          have : k0.nextB ≤ n := this
          omega
        · rcases h' with ⟨a, ha, h'⟩ | ⟨a, ha, i, _, h'⟩ | ⟨i', j', hi', hj', _, i, hl, h'⟩
          · obtain ⟨q, hq, rfl⟩ := (mem_argInfos _ _).1 ha
            exact ⟨q, hq, by rw [h, (Prod.mk.inj h').2]⟩
          · obtain ⟨q, hq, rfl⟩ := (mem_argInfos _ _).1 ha
            exact absurd (Prod.mk.inj h').1.symm (inv.node_lt q hq).2
          · obtain ⟨q, hq, hq'⟩ := (mem_argInfos _ _).1 (List.getElem_mem hi')
            rw [hq'] at hl
            have := (inv.lam_rng q hq i hl).1
            have h2 := (Prod.mk.inj h').1
            omega
        · have := (inv.ints_rng q hq _ hm).2.2.1
          have h2 := (Prod.mk.inj h').1
          have : k0.nextB ≤ μ := this
          omega
      · have := (post.edges_rng _ hfin).1
        have : st.next ≤ n := this
        omega
    · rintro ⟨a, ha, h⟩
      refine ⟨a.1.node, ?_, h⟩
      rw [hKf, inv.frm_iff]
      exact Or.inl (Or.inr (Or.inr (Or.inl (Or.inl ⟨_, (mem_argInfos _ _).2 ⟨a, ha, rfl⟩, rfl⟩))))
  have hrnode : r.node < r.next ∧ r.node ≠ n := by rw [hx]; exact ⟨by omega, by omega⟩
  refine ⟨by rw [w1]; exact post.next_eq, by rw [w2]; exact post.src_eq,
    by rw [w3, post.shared_eq, K1h]; exact inv.shared_eq, ?_, ?_, by show k0.nextB ≤ r.next; omega, ?_, ?_, ?_, ?_, ?_,
    ?_, ?_, ?_⟩
  · rw [w4, hKi, spineInts_snoc, inv.ints_eq]
    simp [lamPair]
  · intro p
    rw [wire_some_mem_gen _ _ _ _ _ c2 c3 c4, spineEdges_snoc, hA, hB, hC, hKf, inv.frm_iff]
    constructor
    · rintro (((h | h) | h) | h | h | ⟨μ, hμ, h⟩ | h | h)
      · exact Or.inl h
      · exact Or.inr (Or.inl h)
      · exact Or.inr (Or.inr (Or.inl h))
      · exact Or.inr (Or.inr (Or.inr (Or.inr (Or.inl ⟨_, rfl, h⟩))))
      · exact Or.inr (Or.inr (Or.inr (Or.inl h)))
      · exact Or.inr (Or.inr (Or.inr (Or.inr (Or.inr (Or.inr (Or.inr ⟨_, μ, rfl, hμ, h⟩))))))
      · exact Or.inr (Or.inr (Or.inr (Or.inr (Or.inr (Or.inl h)))))
      · exact Or.inr (Or.inr (Or.inr (Or.inr (Or.inr (Or.inr (Or.inl ⟨_, rfl, h⟩))))))
    · rintro (h | h | h | h | ⟨i, hi, h⟩ | h | ⟨i, hi, h⟩ | ⟨i, μ, hi, hμ, h⟩)
      · exact Or.inl (Or.inl (Or.inl h))
      · exact Or.inl (Or.inl (Or.inr h))
      · exact Or.inl (Or.inr h)
      · exact Or.inr (Or.inr (Or.inl h))
      · cases hi; exact Or.inr (Or.inl h)
      · exact Or.inr (Or.inr (Or.inr (Or.inr (Or.inl h))))
      · cases hi; exact Or.inr (Or.inr (Or.inr (Or.inr (Or.inr h))))
      · cases hi; exact Or.inr (Or.inr (Or.inr (Or.inl ⟨μ, hμ, h⟩)))
  · intro p hp
    rcases post.memo_rng p hp with h | h
    · have hp' : p ∈ st.memo := by rw [← K1s]; exact h
      rcases inv.memo_rng p hp' with h' | h'
      · exact Or.inl h'
      · exact Or.inr ⟨h'.1, by show p.2 < r.next; omega⟩
    · exact Or.inr ⟨by omega, h.2⟩
  · intro q hq p hp
    show k0.nextB ≤ p.1 ∧ p.1 < r.next ∧ p.2 < r.next
    simp only [List.mem_append, List.mem_singleton] at hq
    rcases hq with hq | rfl
    · have := inv.edges_rng q hq p hp
      exact ⟨this.1, by omega, by omega⟩
    · have := post.edges_rng p hp
      exact ⟨by omega, this.2.1, this.2.2⟩
  · intro q hq i hi
    show k0.nextB ≤ i.1 ∧ i.1 < r.next ∧ k0.nextB ≤ i.2 ∧ i.2 < r.next
    simp only [List.mem_append, List.mem_singleton] at hq
    rcases hq with hq | rfl
    · have := inv.ints_rng q hq i hi
      exact ⟨this.1, by omega, this.2.2.1, by omega⟩
    · have := hri i hi
      exact ⟨by omega, this.2.1, by omega, this.2.2.2⟩
  · intro q hq i hi
    show k0.nextB ≤ i ∧ i < r.next ∧ k0.nextB ≤ q.1.node
    simp only [List.mem_append, List.mem_singleton] at hq
    rcases hq with hq | rfl
    · have := inv.lam_rng q hq i hi
      exact ⟨this.1, by omega, this.2.2⟩
    · cases hi
      exact ⟨by omega, by omega, by show k0.nextB ≤ r.node; omega⟩
  · intro q hq
    show q.1.node < r.next ∧ q.1.node ≠ n
    simp only [List.mem_append, List.mem_singleton] at hq
    rcases hq with hq | rfl
    · have := inv.node_lt q hq
      exact ⟨by omega, this.2⟩
    · exact hrnode
  · show (st.rs ++ [(r, some (st.next + 1))]).map (fun (q : HoRes × Option Nat) => q.2.isSome) = _
    rw [List.map_append, List.map_append, inv.shape]
    simp [hfun]
  · show ((st.rs ++ [(r, some (st.next + 1))]).filterMap (fun (q : HoRes × Option Nat) => q.2)).Nodup
    rw [List.filterMap_append, List.nodup_append]
    refine ⟨inv.lams_nodup, by simp, ?_⟩
    intro y hy z hz hyz
    simp only [List.filterMap_cons, List.filterMap_nil, List.mem_singleton] at hz
    subst hz
    subst hyz
    obtain ⟨a, ha, hl⟩ := List.mem_filterMap.1 hy
    have := (inv.lam_rng a ha _ hl).2.1
    omega
  · show ((spineInts n (st.rs ++ [(r, some (st.next + 1))])).map Prod.snd).Nodup
    rw [spineInts_snoc, List.map_append, List.nodup_append]
    refine ⟨inv.ints_nodup, ?_, ?_⟩
    · simp only [lamPair, List.cons_append, List.nil_append, List.map_cons, List.nodup_cons]
      refine ⟨?_, post.ints_nodup⟩
      intro hmem
      obtain ⟨p2, hp2, h2⟩ := List.mem_map.1 hmem
      have := (hri p2 hp2).2.2.1
      omega
    · intro y hy z hz hyz
      subst hyz
      obtain ⟨p1, hp1, h1⟩ := List.mem_map.1 hy
      obtain ⟨p2, hp2, h2⟩ := List.mem_map.1 hz
      have a1 := gInv_ints_lt inv p1 hp1
      simp only [lamPair, List.cons_append, List.nil_append, List.mem_cons] at hp2
      rcases hp2 with rfl | hp2
      · have : y = st.next + 1 := h2.symm
        omega
      · have a2 := (hri p2 hp2).2.2.1
        omega

/-! ## the induction -/

theorem gInv_all {n : Nat} {k0 : Core} (hctx : GCtx n k0) :
    ∀ (l : List TExpr), (∀ a ∈ l, ArgIH a) →
      (∀ a ∈ l, a.ty.isFunction = true → ∃ name ty, headOf a = .op name ty) →
      GInv n k0 l (l.foldl (argStepC n) k0) (l.foldl hoArgStep { next := k0.nextB, memo := k0.src, rs := [] }) := by
  intro l
  induction l using snoc_induction with
  | nil => intro _ _; exact gInv_init
  | snoc l a ih =>
    intro h1 h2
    have inv := ih (fun b hb => h1 b (List.mem_append_left _ hb)) (fun b hb => h2 b (List.mem_append_left _ hb))
    rw [List.foldl_append, List.foldl_append]
    simp only [List.foldl_cons, List.foldl_nil]
    cases hfun : a.ty.isFunction with
    | false => exact gInv_step_data hctx inv a (h1 a (by simp)) hfun
    | true => exact gInv_step_fun hctx inv a (h1 a (by simp)) hfun (h2 a (by simp) hfun)

theorem addExprC_flowHO {e : TExpr} (hof : Hof e) : ArgIH e := by
  induction hof with
  | src id l ty =>
    intro k x hctx
    rw [addExprC, flowHO_src]
    cases hfind : List.find? (fun p => p.fst == id) k.src with
    | some p =>
      have hp := List.mem_of_find?_eq_some hfind
      simp only []
      refine ⟨rfl, rfl, rfl, rfl, by simp, by simp, Nat.le_refl _, fun q hq => Or.inl hq, Or.inr ⟨p, hp, rfl⟩, ?_,
        by simp, by simp, by simp⟩
      intro name ty' h; cases h
    | none =>
      simp only [cur_some]
      have := hctx.x_lt
      refine ⟨rfl, rfl, rfl, rfl, by simp, by simp, Nat.le_refl _, ?_, Or.inl rfl, fun _ _ _ => rfl, by simp, by simp,
        by simp⟩
      intro q hq
      rw [List.mem_append, List.mem_singleton] at hq
      rcases hq with hq | rfl
      · exact Or.inl hq
      · exact Or.inr ⟨Nat.le_refl _, this⟩
  | spine e name ty hh hheads _ ih =>
    intro k x hctx
    rw [addExprC_spine e name ty k (some x) hh, flowHO_spine _ _ e x name ty hh]
    simp only [cur_some]
    have inv := gInv_all hctx (argsOf e) ih hheads
    generalize List.foldl (argStepC x) k (argsOf e) = k' at inv ⊢
    generalize List.foldl hoArgStep { next := k.nextB, memo := k.src, rs := [] } (argsOf e) = st at inv ⊢
    have hx := hctx.x_lt
    have hle := inv.le
    refine ⟨rfl, inv.next_eq, inv.src_eq, inv.shared_eq, inv.ints_eq, inv.frm_iff, hle, ?_, Or.inl rfl,
      fun _ _ _ => rfl, ?_, ?_, inv.ints_nodup⟩
    · intro p hp
      rcases inv.memo_rng p hp with h | h
      · exact Or.inl h
      · exact Or.inr ⟨by omega, h.2⟩
    · intro p hp
      show x ≤ p.1 ∧ p.1 < st.next ∧ p.2 < st.next
      rcases hp with ⟨q, hq, h⟩ | h | ⟨q, hq, i, μ, hl, hm, h⟩
      · have := inv.edges_rng q hq p h
        exact ⟨by omega, this.2.1, this.2.2⟩
      · rcases h with ⟨a, ha, h'⟩ | ⟨a, ha, i, hl, h'⟩ | ⟨i', j', hi', hj', _, i, hl, h'⟩
        · obtain ⟨q, hq, rfl⟩ := (mem_argInfos _ _).1 ha
          rw [h']
          exact ⟨Nat.le_refl _, by show x < _; omega, (inv.node_lt q hq).1⟩
        · obtain ⟨q, hq, rfl⟩ := (mem_argInfos _ _).1 ha
          have := inv.lam_rng q hq i hl
          rw [h']
          exact ⟨by show x ≤ q.1.node; omega, (inv.node_lt q hq).1, this.2.1⟩
        · obtain ⟨q, hq, hq'⟩ := (mem_argInfos _ _).1 (List.getElem_mem hi')
          obtain ⟨q2, hq2, hq2'⟩ := (mem_argInfos _ _).1 (List.getElem_mem hj')
          rw [hq'] at hl
          have := inv.lam_rng q hq i hl
          rw [h', hq2']
          exact ⟨by show x ≤ i; omega, this.2.1, (inv.node_lt q2 hq2).1⟩
      · have h1 := inv.ints_rng q hq _ hm
        have h2 := inv.lam_rng q hq i hl
        rw [h]
        exact ⟨by show x ≤ μ; omega, h1.2.2.2, h2.2.1⟩
    · intro q hq
      show x ≤ q.1 ∧ q.1 < st.next ∧ k.nextB ≤ q.2 ∧ q.2 < st.next
      rcases (mem_spineInts x st.rs q).1 hq with ⟨a, ha, h1, h2⟩ | ⟨a, ha, h⟩
      · have := inv.lam_rng a ha _ h1
        exact ⟨by omega, by omega, this.1, this.2.1⟩
      · have := inv.ints_rng a ha q h
        exact ⟨by omega, this.2.1, this.2.2.1, this.2.2.2⟩

/-! ## back to the model -/

theorem addExprC_none_op {e : TExpr} {name : String} {ty : Term} (hh : headOf e = .op name ty) (k : Core) :
    addExprC k e none = addExprC k.fresh.1 e (some k.nextB) := by
  rw [addExprC_spine e name ty k none hh, addExprC_spine e name ty k.fresh.1 (some k.nextB) hh]
  rfl

theorem gCtx_of_fresh {g : GState} {cur : Option Nat} (hg : GFresh g) (hcur : ∀ m, cur = some m → CurFree g m) :
    GCtx (allocNode g.nextB cur).1 { coreOf g with nextB := (allocNode g.nextB cur).2 } := by
  cases cur with
  | none =>
    simp only [allocNode]
    refine ⟨Nat.lt_succ_self _, ?_, ?_, ?_⟩
    · intro p hp
      have := (hg.int_lt p hp).1
      exact ⟨by show p.1 < g.nextB + 1; omega, by omega⟩
    · intro p hp
      have := (hg.frm_lt p hp).1
      exact ⟨by show p.1 < g.nextB + 1; omega, by omega⟩
    · intro p hp
      have := hg.src_lt p hp
      exact ⟨by show p.2 < g.nextB + 1; omega, by omega⟩
  | some m =>
    simp only [allocNode]
    have hm := hcur m rfl
    refine ⟨hm.lt, ?_, ?_, ?_⟩
    · intro p hp
      exact ⟨(hg.int_lt p hp).1, (hm.no_int p hp).1⟩
    · intro p hp
      exact ⟨(hg.frm_lt p hp).1, hm.no_frm p hp⟩
    · intro p hp
      exact ⟨hg.src_lt p hp, hm.no_src p hp⟩

/-- the postcondition on the graph -/
theorem addExpr_hof_post {G : GLang} {c : GCfg} {root : Node} {origin : Option Node} (hc : c.withTypes = false)
    {g g' : GState} {e : TExpr} {cur : Option Nat} {im : Bool} {n : Nat} {name : String} {ty : Term}
    (hof : Hof e) (hh : headOf e = .op name ty)
    (hg : GFresh g) (hcur : ∀ m, cur = some m → CurFree g m)
    (h : addExpr G c root origin g e cur im = .ok (g', n)) :
    GPost (allocNode g.nextB cur).1 { coreOf g with nextB := (allocNode g.nextB cur).2 } e
      (flowHOTop g.nextB g.srcNodes e cur) (coreOf g') n := by
  obtain ⟨g1, h1, h2⟩ := addExpr_core (G := G) (root := root) (origin := origin) hc e g cur im
  rw [h1] at h
  cases h
  have hctx := gCtx_of_fresh hg hcur
  have post := addExprC_flowHO hof _ _ hctx
  rw [h2]
  cases cur with
  | none =>
    rw [addExprC_none_op hh]
    exact post
  | some m => exact post

/-- operations passed as arguments at any depth: the theorem on the graph -/
theorem addExpr_hof_general {G : GLang} {c : GCfg} {root : Node} {origin : Option Node} (hc : c.withTypes = false)
    {g g' : GState} {e : TExpr} {cur : Option Nat} {im : Bool} {n : Nat} {name : String} {ty : Term}
    (hof : Hof e) (hh : headOf e = .op name ty)
    (hg : GFresh g) (hcur : ∀ m, cur = some m → CurFree g m)
    (h : addExpr G c root origin g e cur im = .ok (g', n)) :
    n = (allocNode g.nextB cur).1 ∧
    n = (flowHOTop g.nextB g.srcNodes e cur).node ∧
    g'.nextB = (flowHOTop g.nextB g.srcNodes e cur).next ∧
    g'.srcNodes = (flowHOTop g.nextB g.srcNodes e cur).memo ∧
    g'.sharedNodes = g.sharedNodes ∧
    g'.internals = g.internals ++ (flowHOTop g.nextB g.srcNodes e cur).ints ∧
    (∀ p, p ∈ g'.fd.frm ↔ p ∈ g.fd.frm ∨ (flowHOTop g.nextB g.srcNodes e cur).edges p) ∧
    ((flowHOTop g.nextB g.srcNodes e cur).ints.map Prod.snd).Nodup ∧
    (∀ q ∈ (flowHOTop g.nextB g.srcNodes e cur).ints, g.nextB ≤ q.2 ∧ q.2 < g'.nextB) := by
  have post := addExpr_hof_post hc hof hh hg hcur h
  have hn : n = (flowHOTop g.nextB g.srcNodes e cur).node := post.node_eq
  have hx := post.node_op name ty hh
  have hnext : g'.nextB = (flowHOTop g.nextB g.srcNodes e cur).next := post.next_eq
  refine ⟨by rw [hn, hx], hn, hnext, post.src_eq, post.shared_eq, post.ints_eq, post.frm_iff, post.ints_nodup, ?_⟩
  intro q hq
  have := post.ints_rng q hq
  rw [hnext]
  have hle : g.nextB ≤ (allocNode g.nextB cur).2 := by cases cur <;> simp [allocNode]
  exact ⟨Nat.le_trans hle this.2.2.1, this.2.2.2⟩

theorem addExpr_hof_general_fresh {G : GLang} {c : GCfg} {root : Node} {origin : Option Node}
    (hc : c.withTypes = false)
    {g g' : GState} {e : TExpr} {cur : Option Nat} {im : Bool} {n : Nat} {name : String} {ty : Term}
    (hof : Hof e) (hh : headOf e = .op name ty)
    (hg : GFresh g) (hcur : ∀ m, cur = some m → CurFree g m)
    (h : addExpr G c root origin g e cur im = .ok (g', n)) : GFresh g' := by
  have post := addExpr_hof_post hc hof hh hg hcur h
  have hnext : g'.nextB = (flowHOTop g.nextB g.srcNodes e cur).next := post.next_eq
  have hle : g.nextB ≤ (allocNode g.nextB cur).2 := by cases cur <;> simp [allocNode]
  have hle2 : (allocNode g.nextB cur).2 ≤ (flowHOTop g.nextB g.srcNodes e cur).next := post.le
  generalize flowHOTop g.nextB g.srcNodes e cur = r at post hnext hle2
  refine ⟨?_, ?_, ?_⟩
  · intro p hp
    have hs : g'.srcNodes = r.memo := post.src_eq
    rw [hs] at hp
    rcases post.memo_rng p hp with h' | h'
    · have := hg.src_lt p h'
      omega
    · omega
  · intro p hp
    have hi : g'.internals = g.internals ++ r.ints := post.ints_eq
    rw [hi, List.mem_append] at hp
    rcases hp with hp | hp
    · have := hg.int_lt p hp
      omega
    · have := post.ints_rng p hp
      omega
  · intro p hp
    rcases (post.frm_iff p).1 hp with h' | h'
    · have := hg.frm_lt p h'
      omega
    · have := post.edges_rng p h'
      omega

/-! ## the class `Hof` -/

theorem hof_args {e : TExpr} (h : Hof e) {name : String} {ty : Term} (hh : headOf e = .op name ty) :
    (∀ a ∈ argsOf e, a.ty.isFunction = true → ∃ name' ty', headOf a = .op name' ty') ∧ (∀ a ∈ argsOf e, Hof a) := by
  cases h with
  | src id l t => cases hh
  | spine _ _ _ _ h1 h2 => exact ⟨h1, h2⟩

theorem hof_sound : ∀ (e : TExpr), hof e = true → Hof e
  | .src id l ty, _ => .src id l ty
  | .op name ty, _ => .spine _ name ty rfl (by simp [argsOf]) (by simp [argsOf])
  | .shared _ _, h => by cases h
  | .app f x t, h => by
    simp only [hof, Bool.and_eq_true, Bool.or_eq_true, Bool.not_eq_true'] at h
    obtain ⟨⟨⟨h1, h2⟩, h3⟩, h4⟩ := h
    have ihf := hof_sound f h2
    have ihx := hof_sound x h3
    cases hh : headOf f with
    | op name ty =>
      obtain ⟨a1, a2⟩ := hof_args ihf hh
      refine .spine _ name ty hh ?_ ?_
      · intro a ha hfun
        simp only [argsOf, List.mem_append, List.mem_singleton] at ha
        rcases ha with ha | rfl
        · exact a1 a ha hfun
        · rcases h4 with h4 | h4
          · rw [hfun] at h4; cases h4
          · cases hx : headOf a with
            | op name' ty' => exact ⟨name', ty', rfl⟩
            | src _ _ _ => rw [hx] at h4; cases h4
            | app _ _ _ => rw [hx] at h4; cases h4
            | shared _ _ => rw [hx] at h4; cases h4
      · intro a ha
        simp only [argsOf, List.mem_append, List.mem_singleton] at ha
        rcases ha with ha | rfl
        · exact a2 a ha
        · exact ihx
    | src _ _ _ => rw [hh] at h1; cases h1
    | app _ _ _ => rw [hh] at h1; cases h1
    | shared _ _ => rw [hh] at h1; cases h1

/-- first-order expressions are in the class -/
theorem hof_of_firstOrder {e : TExpr} (h : FirstOrder e) : Hof e := by
  induction h with
  | src id l ty => exact .src id l ty
  | spine e name ty hh hnf _ ih =>
    refine .spine e name ty hh ?_ ih
    intro a ha hfun
    rw [hnf a ha] at hfun; cases hfun

/-- one-level higher-order spines are in the class -/
theorem hof_of_hofArgs {e : TExpr} {name : String} {ty : Term} (hh : headOf e = .op name ty)
    (hargs : ∀ a ∈ argsOf e, HofArg a) : Hof e :=
  .spine e name ty hh (fun a ha => (hargs a ha).head_op) (fun a ha => hof_of_firstOrder (hargs a ha).fo)

end Tfv.C08P
