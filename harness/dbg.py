"""debug helper: run a property module's implementation side only and summarise oracle failures by feature"""
import sys, os, json, collections
HERE = os.path.dirname(os.path.abspath(__file__)); sys.path.insert(0, HERE)
os.environ["TRANSFORGE_VERIF"] = "1"
import common, runner, importlib
common.import_impl()
prop = sys.argv[1]; seed = int(sys.argv[2]) if len(sys.argv) > 2 else 0; tier = sys.argv[3] if len(sys.argv) > 3 else "quick"
mod = importlib.import_module("props." + prop)
ctx = runner.Ctx(prop, tier, seed)
mod.run(ctx)
cnt = collections.Counter(json.dumps(f["features"], sort_keys=True) for f in ctx.failures)
for k, v in cnt.most_common():
    ex = next(f for f in ctx.failures if json.dumps(f["features"], sort_keys=True) == k)
    print(v, k); print("     e.g.", ex["description"][:500])
print("cases", ctx.evaluations, "failures", len(ctx.failures))
print("stats", dict(sorted(ctx.stats.items())))
