import Tfv.Model
import Tfv.Spec.Sat
import Tfv.Spec.SatChain
import Tfv.Spec.SatWitness
import Tfv.Proofs.InferConstrMain
import Tfv.Proofs.InferConstrExamples
import Tfv.Proofs.InferConstrFulfilled
import Tfv.Proofs.InferConstrExamples2
/-!
# C03 (type part) for stores WITH deferred constraints

`Tfv/Props/C03.lean` proves the soundness of the inference engine under `NoConstraints σ`, where
`check_constraints` does nothing. Here the same conclusions are proved for stores that carry
pending subtype / elimination constraints: every re-check of a constraint (`fulfill`, which unifies
with `skip_basic`, minimises alternatives and fixes them) only *adds* information, so solutions only
shrink, and whatever `unify` / `apply` establish still holds under every remaining solution.

The store invariant is `OkStoreC L σ` (Proofs/InferConstrStore.lean): `OkStore L σ`, every registered
constraint mentions only well-formed terms, every constraint id held by a constraint set is allocated.
`Sat L ρ σ` (Spec/Sat.lean) does not mention constraints: "solutions" are solutions of the bindings and
bounds. Statements only; the proofs are in `Tfv/Proofs/InferConstr*.lean`, namespace `Tfv.C03C`.
-/
namespace Tfv.C03
open Tfv Tfv.C03P Tfv.C03C

/-- Subtype unification on a store with pending constraints is sound: the invariant is kept, no
variable is lost, every solution of the resulting store is a solution of the original one and makes
`a` a subtype of `b`. (Flags as `Type.apply` uses them: `subtype=True`, nothing skipped.) -/
theorem C03c_unify_sound (L : Lang) (wf : WF L) (n : Nat) (σ σ' : Store) (a b : Term)
    (ok : OkStoreC L σ) (ha : okTerm L σ a = true) (hb : okTerm L σ b = true)
    (h : unify L n σ a b true false false = .ok σ') :
    OkStoreC L σ' ∧ σ.vars.length ≤ σ'.vars.length ∧
    (∀ t, okTerm L σ t = true → okTerm L σ' t = true) ∧
    ∀ ρ, Sat L ρ σ' → Sat L ρ σ ∧ Sub L (den ρ a) (den ρ b) :=
  unify_soundC wf ok ha hb h

/-- non-vacuity: `x0` carries the pending constraint `x0 ≤ A`; `B.unify(x0)` re-checks it (still
undecided) and raises the lower bound of `x0`; `x0 := B` and `x0 := A` are solutions -/
example : OkStoreC exL σC ∧ getConstr σC 0 = .sub (.var 0) (.app 5 []) false false ∧
    getCset σC (getVar σC 0).cset = [0] ∧
    okTerm exL σC (.app 6 []) = true ∧ okTerm exL σC (.var 0) = true ∧
    unify exL 11 σC (.app 6 []) (.var 0) true false false = .ok σC1 ∧
    Sat exL (valOf [.app 6 []]) σC1 ∧ Sat exL (valOf [.app 5 []]) σC1 :=
  ⟨σC_okc, σC_pending.1, σC_pending.2, by decide, by decide, exC_unify,
   satB_sound exL_wf σC1_okc.ok (by decide), satB_sound exL_wf σC1_okc.ok (by decide)⟩

/-- Subtype unification with arbitrary `skip_basic` / `skip_wildcard` (`fulfill` re-checks a subtype
constraint with `skip_basic=True`): the invariant is kept and solutions only shrink; the subtype
relation is established when nothing is skipped. -/
theorem C03c_unify_flags_sound (L : Lang) (wf : WF L) (n : Nat) (σ σ' : Store) (a b : Term) (sb sw : Bool)
    (ok : OkStoreC L σ) (ha : okTerm L σ a = true) (hb : okTerm L σ b = true)
    (h : unify L n σ a b true sb sw = .ok σ') :
    OkStoreC L σ' ∧ σ.vars.length ≤ σ'.vars.length ∧
    (∀ t, okTerm L σ t = true → okTerm L σ' t = true) ∧
    ∀ ρ, Sat L ρ σ' → Sat L ρ σ ∧ (sb = false → sw = false → Sub L (den ρ a) (den ρ b)) :=
  unify_flags_soundC wf ok ha hb h

example : OkStoreC exL {} ∧ unify exL 1 {} (.app 5 []) (.app 6 []) true true false = .ok {} ∧
    Sat exL (valOf []) {} :=
  ⟨empty_okc exL, cexC_sb_run, satB_sound exL_wf (empty_ok exL) (by decide)⟩

/-- Finding (expected): with `skip_basic=True` unification accepts `A` against `B` although `A` is not
a subtype of `B` (base types are deliberately not compared), so the subtype conclusion needs
`skip_basic = False`. -/
theorem C03c_unify_skip_basic_no_subtype :
    ¬ (∀ (L : Lang) (n : Nat) (σ σ' : Store) (a b : Term), WF L → OkStoreC L σ →
        okTerm L σ a = true → okTerm L σ b = true →
        unify L n σ a b true true false = .ok σ' →
        ∀ ρ, Sat L ρ σ' → Sub L (den ρ a) (den ρ b)) := unify_skip_basic_no_subtype

/-- Finding (expected): with `skip_wildcard=True` two wildcards are left unrelated, so the subtype
conclusion needs `skip_wildcard = False`. -/
theorem C03c_unify_skip_wildcard_no_subtype :
    ¬ (∀ (L : Lang) (n : Nat) (σ σ' : Store) (a b : Term), WF L → OkStoreC L σ →
        okTerm L σ a = true → okTerm L σ b = true →
        unify L n σ a b true false true = .ok σ' →
        ∀ ρ, Sat L ρ σ' → Sub L (den ρ a) (den ρ b)) := unify_skip_wildcard_no_subtype

/-- Re-checking the constraints of a variable (`check_constraints`) keeps the invariant and only
shrinks the set of solutions. -/
theorem C03c_check_constraints_sound (L : Lang) (wf : WF L) (n : Nat) (σ σ' : Store) (v : Nat)
    (ok : OkStoreC L σ) (h : checkConstraints L n σ v = .ok σ') :
    OkStoreC L σ' ∧ σ.vars.length ≤ σ'.vars.length ∧ ∀ ρ, Sat L ρ σ' → Sat L ρ σ :=
  checkConstraints_soundC wf ok h

example : OkStoreC exL σCb ∧ checkConstraints exL 9 σCb 0 = .ok σC2 ∧ Sat exL (valOf [.app 6 []]) σC2 :=
  ⟨okStoreCB_sound (by decide), exC_check3, satB_sound exL_wf σC2_okc.ok (by decide)⟩

/-- `Constraint.fulfill()` of a registered constraint (either kind) keeps the invariant and only shrinks
the set of solutions. -/
theorem C03c_fulfill_sound (L : Lang) (wf : WF L) (n : Nat) (σ σ' : Store) (c : Nat) (d : Bool)
    (ok : OkStoreC L σ) (hc : c < σ.constrs.length) (h : fulfill L n σ c = .ok (σ', d)) :
    OkStoreC L σ' ∧ σ.vars.length ≤ σ'.vars.length ∧ ∀ ρ, Sat L ρ σ' → Sat L ρ σ :=
  fulfill_soundC wf ok hc h

example : OkStoreC exL σC1 ∧ 0 < σC1.constrs.length ∧ fulfill exL 7 σC1 0 = .ok (σC1, false) :=
  ⟨σC1_okc, by decide, exC_fulfill2 5⟩

/-- `fix` on a store with pending constraints is sound: solutions only shrink and the returned term
means the same as the given one. -/
theorem C03c_fix_sound (L : Lang) (wf : WF L) (n : Nat) (σ σ' : Store) (t t' : Term) (pl : Bool)
    (ok : OkStoreC L σ) (ht : okTerm L σ t = true)
    (h : fix L n σ t pl = .ok (σ', t')) :
    OkStoreC L σ' ∧ σ.vars.length ≤ σ'.vars.length ∧
    (∀ t, okTerm L σ t = true → okTerm L σ' t = true) ∧ okTerm L σ' t' = true ∧
    ∀ ρ, Sat L ρ σ' → Sat L ρ σ ∧ den ρ t' = den ρ t := fix_soundC wf ok ht h

/-- non-vacuity: fixing `x0` (lower bound `B`, pending `x0 ≤ A`) resolves `x0 := B`, which fulfils the constraint -/
example : OkStoreC exL σC1 ∧ getCset σC1 (getVar σC1 0).cset = [0] ∧ okTerm exL σC1 (.var 0) = true ∧
    fix exL 11 σC1 (.var 0) true = .ok (σC2, .app 6 []) ∧ Sat exL (valOf [.app 6 []]) σC2 ∧
    getConstr σC2 0 = .sub (.var 0) (.app 5 []) false true :=
  ⟨σC1_okc, rfl, by decide, exC_fix, satB_sound exL_wf σC2_okc.ok (by decide), rfl⟩

/-- Instantiating a schema WITH constraints (`TypeSchema.instance()`: fresh variables, the constraints
registered and checked in source order, then `fix`) is sound: the store grows by the schema's variables,
solutions only shrink, and the returned term means the same as the body over the fresh variables.
`okCAstN` says the constraints mention only the schema's variables and respect arities. -/
theorem C03c_instantiate_sound (L : Lang) (wf : WF L) (n : Nat) (σ σ' : Store) (s : Schema) (f : Term)
    (ok : OkStoreC L σ)
    (hcs : ∀ c, c ∈ s.constraints → okCAstN L (s.nvars + s.nwild) c = true)
    (hbody : okTermN L (s.nvars + s.nwild) s.body = true)
    (h : instantiate L n σ s = .ok (σ', f)) :
    OkStoreC L σ' ∧ σ.vars.length + s.nvars + s.nwild ≤ σ'.vars.length ∧
    (∀ t, okTerm L σ t = true → okTerm L σ' t = true) ∧ okTerm L σ' f = true ∧
    ∀ ρ, Sat L ρ σ' → Sat L ρ σ ∧ den ρ f = den ρ (s.body.shift σ.vars.length) :=
  instantiate_sound_C wf ok hcs hbody h

/-- non-vacuity: the schema `x0 => x0 ** x0 [x0 ≤ A]`; its instance carries the pending constraint -/
example : OkStoreC exL {} ∧ exSC.constraints = [.sub (.var 0) (.app 5 []) false] ∧
    (∀ c, c ∈ exSC.constraints → okCAstN exL (exSC.nvars + exSC.nwild) c = true) ∧
    okTermN exL (exSC.nvars + exSC.nwild) exSC.body = true ∧
    instantiate exL 11 {} exSC = .ok (σC, .app FUN [.var 0, .var 0]) ∧
    getCset σC (getVar σC 0).cset = [0] :=
  ⟨empty_okc exL, rfl, by decide, by decide, exC_inst, rfl⟩

/-- `Type.apply` on a store with pending constraints is sound: under every solution of the resulting
store the function type is `p ** r'` with the argument a subtype of `p` and `r'` the meaning of the
returned term (or the function type is `Top` and so is the result). -/
theorem C03c_apply_sound (L : Lang) (wf : WF L) (n : Nat) (σ σ' : Store) (f x r : Term) (fixFlag : Bool)
    (ok : OkStoreC L σ) (hf : okTerm L σ f = true) (hx : okTerm L σ x = true)
    (h : applyT L n σ f x fixFlag = .ok (σ', r)) :
    OkStoreC L σ' ∧ σ.vars.length ≤ σ'.vars.length ∧
    (∀ t, okTerm L σ t = true → okTerm L σ' t = true) ∧ okTerm L σ' r = true ∧
    ∀ ρ, Sat L ρ σ' → Sat L ρ σ ∧
      ((∃ p, den ρ f = .app FUN [p, den ρ r] ∧ Sub L (den ρ x) p) ∨
       (den ρ f = .app TOP [] ∧ r = .app TOP [])) := apply_soundC wf ok hf hx h

/-- non-vacuity: `(x0 ** x0)[x0 ≤ A]` applied to `B` returns `B`; the constraint is re-checked twice and
ends up fulfilled; applied to `Unit` (not below `A`) the constraint rejects the application -/
example : OkStoreC exL σC ∧ okTerm exL σC (.app FUN [.var 0, .var 0]) = true ∧ okTerm exL σC (.app 6 []) = true ∧
    applyT exL 11 σC (.app FUN [.var 0, .var 0]) (.app 6 []) true = .ok (σC2, .app 6 []) ∧
    Sat exL (valOf [.app 6 []]) σC2 ∧
    applyT exL 11 σC (.app FUN [.var 0, .var 0]) (.app 0 []) true = .error .constraintViolation :=
  ⟨σC_okc, by decide, by decide, exC_apply, satB_sound exL_wf σC2_okc.ok (by decide), exC_apply_bad⟩

/-- A chain of applications on a store with pending constraints is sound: under every solution of the
final store, `f` means `p₁ ** p₂ ** … ** r'` with every argument a subtype of the corresponding
parameter and `r'` the meaning of the returned term. -/
theorem C03c_apply_chain (L : Lang) (wf : WF L) (n : Nat) (fixFlag : Bool) (σ σ' : Store) (f r : Term)
    (xs : List Term) (ok : OkStoreC L σ)
    (hf : okTerm L σ f = true) (hxs : okTermL L σ xs = true)
    (h : applyAll L n fixFlag σ f xs = .ok (σ', r)) :
    OkStoreC L σ' ∧ σ.vars.length ≤ σ'.vars.length ∧
    (∀ t, okTerm L σ t = true → okTerm L σ' t = true) ∧ okTerm L σ' r = true ∧
    ∀ ρ, Sat L ρ σ' → Sat L ρ σ ∧ Accepts L (den ρ f) (denL ρ xs) (den ρ r) :=
  apply_chainC wf ok hf hxs h

example : OkStoreC exL σC ∧ okTermL exL σC [.app 6 []] = true ∧
    applyAll exL 11 true σC (.app FUN [.var 0, .var 0]) [.app 6 []] = .ok (σC2, .app 6 []) ∧
    Sat exL (valOf [.app 6 []]) σC2 :=
  ⟨σC_okc, by decide, exC_chain, satB_sound exL_wf σC2_okc.ok (by decide)⟩

/-- In every store reached by a successful chain of applications (pending constraints allowed), a
variable that carries a lower or an upper base-type bound is never bound to a compound type. -/
theorem C03c_base_bound_never_compound (L : Lang) (wf : WF L) (n : Nat) (fixFlag : Bool) (σ σ' : Store)
    (f r : Term) (xs : List Term) (ok : OkStoreC L σ)
    (hf : okTerm L σ f = true) (hxs : okTermL L σ xs = true)
    (h : applyAll L n fixFlag σ f xs = .ok (σ', r)) :
    ∀ v o args, (getVar σ' v).bound = some (.app o args) →
      ((getVar σ' v).lower.isSome = true ∨ (getVar σ' v).upper.isSome = true) → arityOf L o = 0 :=
  (apply_chainC wf ok hf hxs h).1.ok.basic

example : (getVar σC2 0).bound = some (.app 6 []) ∧ (getVar σC2 0).lower = some 6 ∧ arityOf exL 6 = 0 :=
  ⟨rfl, rfl, rfl⟩

/-- The property in one statement, constraints allowed: after a successful chain of applications whose
final store is acyclic, every admissible choice for the unresolved variables extends to an
instantiation of all variables under which every argument is a subtype of the corresponding
parameter and the result is the returned type. -/
theorem C03c_apply_chain_instantiation (L : Lang) (wf : WF L) (n : Nat) (fixFlag : Bool) (σ σ' : Store)
    (f r : Term) (xs : List Term) (ok : OkStoreC L σ)
    (hf : okTerm L σ f = true) (hxs : okTermL L σ xs = true)
    (h : applyAll L n fixFlag σ f xs = .ok (σ', r)) (hac : Acyclic σ')
    (θ : Val) (hθ : Choice L θ σ') :
    ∃ ρ, Sat L ρ σ' ∧ (∀ v, (getVar σ' v).bound = none → ρ v = θ v) ∧ Sat L ρ σ ∧
      Accepts L (den ρ f) (denL ρ xs) (den ρ r) :=
  apply_chain_instantiationC wf ok hf hxs h hac θ hθ

example : ∃ ρ, Sat exL ρ σC2 ∧ Sat exL ρ σC ∧
    Accepts exL (den ρ (.app FUN [.var 0, .var 0])) (denL ρ [.app 6 []]) (den ρ (.app 6 [])) := by
  obtain ⟨ρ, h1, _, h2, h3⟩ := C03c_apply_chain_instantiation exL exL_wf 11 true σC σC2
    (.app FUN [.var 0, .var 0]) (.app 6 []) [.app 6 []] σC_okc (by decide) (by decide) exC_chain
    (acyclicB_sound (by decide)) _ (choice_exists exL_wf σC2_okc.ok)
  exact ⟨ρ, h1, h2, h3⟩

/-- the executable form of the invariant implies the invariant (the harness can evaluate it on stores) -/
theorem C03c_okStoreCB_sound (L : Lang) (σ : Store) (h : okStoreCB L σ = true) : OkStoreC L σ :=
  okStoreCB_sound h

/-- the stores of the constraint-free theorems (C03) satisfy the invariant -/
theorem C03c_of_noConstraints (L : Lang) (σ : Store) (ok : OkStore L σ) (nc : NoConstraints σ)
    (hc : σ.constrs = []) : OkStoreC L σ := okStoreC_of_noConstraints ok nc hc

example : OkStoreC exL σS := C03c_of_noConstraints exL σS σS_ok σS_nc rfl

/-! ## Fulfilled constraints hold (stretch goal)

`SubsHold L σ`: every subtype constraint of `σ` that is marked fulfilled holds (reference a subtype of the target)
under every solution of `σ`. `NoWild σ`: no variable of `σ` is a wildcard. -/

/-- After a successful chain of applications on a wildcard-free store, every subtype constraint marked
fulfilled — before or during the chain — holds under every solution of the final store.
PARTIAL: needs `NoWild σ` (no wildcard variables; preserved by the engine). The marking relies on `match3 … = some true`,
which is sound only without wildcards (`C03c_match3_wildcards_unsound`); whether a run can actually mark a
constraint wrongly in the presence of wildcards is left open (the `unify` that precedes the test binds paired variables). -/
theorem C03c_fulfilled_sub_holds_partial (L : Lang) (wf : WF L) (n : Nat) (fixFlag : Bool) (σ σ' : Store) (f r : Term)
    (xs : List Term) (ok : OkStoreC L σ) (nw : NoWild σ) (hs : SubsHold L σ)
    (hf : okTerm L σ f = true) (hxs : okTermL L σ xs = true)
    (h : applyAll L n fixFlag σ f xs = .ok (σ', r)) :
    NoWild σ' ∧ ∀ c ref tgt s, c < σ'.constrs.length → getConstr σ' c = .sub ref tgt s true →
      ∀ ρ, Sat L ρ σ' → Sub L (den ρ ref) (den ρ tgt) :=
  applyAll_subsHold wf ok nw hs hf hxs h

/-- non-vacuity: after `(x0 ** x0)[x0 ≤ A]` applied to `B` the constraint `x0 ≤ A` is marked fulfilled in the final store -/
example : OkStoreC exL σC ∧ NoWild σC ∧ SubsHold exL σC ∧
    applyAll exL 11 true σC (.app FUN [.var 0, .var 0]) [.app 6 []] = .ok (σC2, .app 6 []) ∧
    0 < σC2.constrs.length ∧ getConstr σC2 0 = .sub (.var 0) (.app 5 []) false true ∧
    Sat exL (valOf [.app 6 []]) σC2 :=
  ⟨σC_okc, σC_noWild, σC_subsHold, exC_chain, by decide, rfl, satB_sound exL_wf σC2_okc.ok (by decide)⟩

/-- … the same for a single unification, with arbitrary `skip_basic` / `skip_wildcard`. PARTIAL: `NoWild σ`, as above. -/
theorem C03c_fulfilled_sub_holds_unify_partial (L : Lang) (wf : WF L) (n : Nat) (σ σ' : Store) (a b : Term)
    (sb sw : Bool) (ok : OkStoreC L σ) (nw : NoWild σ) (hs : SubsHold L σ)
    (ha : okTerm L σ a = true) (hb : okTerm L σ b = true)
    (h : unify L n σ a b true sb sw = .ok σ') :
    NoWild σ' ∧ ∀ c ref tgt s, c < σ'.constrs.length → getConstr σ' c = .sub ref tgt s true →
      ∀ ρ, Sat L ρ σ' → Sub L (den ρ ref) (den ρ tgt) :=
  unify_subsHold wf ok nw hs ha hb h

example : OkStoreC exL σC ∧ NoWild σC ∧ SubsHold exL σC ∧
    unify exL 11 σC (.app 6 []) (.var 0) true false false = .ok σC1 :=
  ⟨σC_okc, σC_noWild, σC_subsHold, exC_unify⟩

/-- … and for instantiating a schema without wildcards (`nwild = 0`): in the instance every subtype
constraint marked fulfilled holds. PARTIAL: `NoWild σ` and `s.nwild = 0`, as above. -/
theorem C03c_fulfilled_sub_holds_instantiate_partial (L : Lang) (wf : WF L) (n : Nat) (σ σ' : Store) (s : Schema)
    (f : Term) (ok : OkStoreC L σ) (nw : NoWild σ) (hs : SubsHold L σ) (hw : s.nwild = 0)
    (hcs : ∀ c, c ∈ s.constraints → okCAstN L (s.nvars + s.nwild) c = true)
    (hbody : okTermN L (s.nvars + s.nwild) s.body = true)
    (h : instantiate L n σ s = .ok (σ', f)) :
    NoWild σ' ∧ ∀ c ref tgt st, c < σ'.constrs.length → getConstr σ' c = .sub ref tgt st true →
      ∀ ρ, Sat L ρ σ' → Sub L (den ρ ref) (den ρ tgt) :=
  instantiate_subsHold wf ok nw hs hw hcs hbody h

example : OkStoreC exL {} ∧ NoWild {} ∧ SubsHold exL {} ∧ exSC.nwild = 0 ∧
    instantiate exL 11 {} exSC = .ok (σC, .app FUN [.var 0, .var 0]) :=
  ⟨empty_okc exL, noWildB_sound (by rfl), subsHold_empty exL, rfl, exC_inst⟩

/-- Why the proof needs wildcard-free stores: on two distinct wildcards `match3 (subtype=True)` answers `some true`
although a solution of the store need not relate them. -/
theorem C03c_match3_wildcards_unsound :
    match3 exL σW 68 true false (.var 0) (.var 1) = some true ∧
    Sat exL (valOf [.app 5 [], .app 6 []]) σW ∧
    ¬ Sub exL (den (valOf [.app 5 [], .app 6 []]) (.var 0)) (den (valOf [.app 5 [], .app 6 []]) (.var 1)) :=
  match3_wildcards_unsound

/-- When `fulfill` narrows an unfulfilled elimination constraint to a single alternative `only` (`σ1` is the
store after `minimize`, and `only` is the one alternative `match3` does not refute), it answers `true`, solutions
only shrink, and under every solution of the resulting store the reference is a subtype of `only`.
PARTIAL (local form): the statement "every elimination constraint marked fulfilled in a final store holds for its
one remaining alternative" is not proved: `minimize` writes back the reference and alternatives it read *before*
its nested `fix` calls while keeping the *current* fulfilled flag, so a nested re-entrant `fulfill` of the same
constraint can be overwritten by stale alternatives; no store-level invariant survives that without ruling the
re-entrancy out. -/
theorem C03c_fulfilled_elim_holds_partial (L : Lang) (wf : WF L) (n : Nat) (σ σ1 σ' : Store) (c : Nat)
    (d ful : Bool) (r0 ref only : Term) (a0 alts : List Term)
    (ok : OkStoreC L σ) (hc : c < σ.constrs.length)
    (h0 : getConstr σ c = .elim r0 a0 false)
    (hm : minimize L n σ c = .ok σ1)
    (h1 : getConstr σ1 c = .elim ref alts ful)
    (hf : alts.filter (fun t => match3 L σ1 (matchFuel σ1) true true ref t != some false) = [only])
    (h : fulfill L (n+1) σ c = .ok (σ', d)) :
    d = true ∧ ∀ ρ, Sat L ρ σ' → Sat L ρ σ ∧ Sub L (den ρ ref) (den ρ only) :=
  fulfill_elim_single wf ok hc h0 hm h1 hf h

/-- non-vacuity: `x0 ∈ {A}` is narrowed to `A`; afterwards `x0 ≤ A`, and `x0 := B` is a solution -/
example : OkStoreC exL σE ∧ getConstr σE 0 = .elim (.var 0) [.app 5 []] false ∧
    minimize exL 9 σE 0 = .ok σE ∧
    [Term.app 5 []].filter (fun t => match3 exL σE (matchFuel σE) true true (.var 0) t != some false) = [.app 5 []] ∧
    fulfill exL 10 σE 0 = .ok (σE', true) ∧ (getVar σE' 0).upper = some 5 ∧
    Sat exL (valOf [.app 6 []]) σE' :=
  ⟨σE_okc, rfl, exE_minimize, exE_filter, exE_fulfill, rfl, satB_sound exL_wf σE'_okc.ok (by decide)⟩

/-- executable forms of the extra hypotheses -/
theorem C03c_noWildB_sound (σ : Store) (h : noWildB σ = true) : NoWild σ := noWildB_sound h

theorem C03c_noFulfilledSubB_sound (L : Lang) (σ : Store) (h : noFulfilledSubB σ = true) : SubsHold L σ :=
  noFulfilledSubB_sound h

end Tfv.C03
