import Tfv.Model
namespace Tfv.C10
theorem placeholder : True := trivial
end Tfv.C10
