import Tfv.Proofs.QueryMatch
/-!
# Part C: consequences of `Matches`
-/
namespace Tfv

variable {g : List Triple} {wf : Node}

/-! ## sub-tasks: dropping steps, links, outputs -/

/-- `t'` asks for a part of what `t` asks: fewer outputs/inputs/links, the same constraints on the steps it keeps -/
structure SubTask (t' t : QTask) : Prop where
  outputs : ∀ o ∈ t'.outputs, o ∈ t.outputs
  inputs : ∀ i ∈ t'.inputs, i ∈ t.inputs
  from_ : ∀ k b, b ∈ (t'.step k).from_ → b ∈ (t.step k).from_
  ops : ∀ k, StepReach t' k → (t'.step k).ops = (t.step k).ops
  types : ∀ k, StepReach t' k → (t'.step k).types = (t.step k).types

theorem SubTask.reach {t' t : QTask} (h : SubTask t' t) : ∀ k, StepReach t' k → StepReach t k := by
  intro k hk
  induction hk with
  | out ho => exact .out (h.outputs _ ho)
  | step _ hb ih => exact .step ih (h.from_ _ _ hb)

theorem SubTask.matchesBy {G : GLang} {t' t : QTask} {f : QFlags} {hh : Nat → Node} (h : SubTask t' t)
    (hm : MatchesBy G t f g wf hh) : MatchesBy G t' f g wf hh := by
  refine ⟨?_, ?_, ?_, ?_, ?_, ?_⟩
  · intro o ho
    rw [h.types o (.out ho)]
    exact hm.output o (h.outputs o ho)
  · intro hch k hk
    rw [h.ops k hk, h.types k hk]
    exact hm.step hch k (h.reach k hk)
  · intro hch c b hc hb
    have hrb : StepReach t' b := .step hc hb
    have : relaxedLink t' c b = relaxedLink t c b := by
      unfold relaxedLink
      simp only [h.ops c hc, h.types c hc, h.ops b hrb, h.types b hrb]
    rw [this]
    exact hm.link hch c b (h.reach c hc) (h.from_ c b hb)
  · intro hio i hi hr
    rw [h.types i hr]
    exact hm.input hio i (h.inputs i hi) (h.reach i hr)
  · intro hop k o hk hops
    rw [h.ops k hk] at hops
    exact hm.preOps hop k o (h.reach k hk) hops
  · intro hty k hk hne
    rw [h.types k hk] at hne ⊢
    exact hm.preTypes hty k (h.reach k hk) hne

/-- remove the link `c → j` (step `j` stays in the list of steps, but is no longer reachable through `c`) -/
def QTask.dropLink (t : QTask) (c j : Nat) : QTask :=
  { t with steps := t.steps.mapIdx (fun i s => if i = c then { s with from_ := s.from_.filter (· != j) } else s) }

theorem dropLink_step (t : QTask) (c j k : Nat) :
    (t.dropLink c j).step k =
      if k = c then { t.step k with from_ := (t.step k).from_.filter (· != j) } else t.step k := by
  unfold QTask.dropLink QTask.step
  simp only [List.getD_eq_getElem?_getD, List.getElem?_mapIdx]
  cases t.steps[k]? with
  | none =>
    simp only [Option.map_none, Option.getD_none]
    split <;> rfl
  | some s =>
    simp only [Option.map_some, Option.getD_some]

theorem dropLink_subTask (t : QTask) (c j : Nat) : SubTask (t.dropLink c j) t := by
  refine ⟨fun _ h => h, fun _ h => h, ?_, ?_, ?_⟩
  · intro k b hb
    rw [dropLink_step] at hb
    split at hb
    · exact (List.mem_filter.1 hb).1
    · exact hb
  · intro k _
    rw [dropLink_step]
    split <;> rfl
  · intro k _
    rw [dropLink_step]
    split <;> rfl

/-! ## generalising types -/

/-- each alternative of `ts` has a supertype among `ts'` (and no constraint stays no constraint) -/
def GeneralisesTypes (le : Ty → Ty → Bool) (ts ts' : List Ty) : Prop :=
  (ts = [] ↔ ts' = []) ∧ ∀ T ∈ ts, ∃ T' ∈ ts', le T T' = true

/-- `t'` is `t` with the type alternatives of some steps generalised -/
structure GeneralisedTask (le : Ty → Ty → Bool) (t t' : QTask) : Prop where
  outputs : t'.outputs = t.outputs
  inputs : t'.inputs = t.inputs
  from_ : ∀ k, (t'.step k).from_ = (t.step k).from_
  ops : ∀ k, (t'.step k).ops = (t.step k).ops
  types : ∀ k, GeneralisesTypes le (t.step k).types (t'.step k).types

/-- the `subtypeOf` annotations of a graph are closed under supertypes within `D` (C07 proves this of generated graphs,
`D` = the canonical types) -/
def UpClosedSubtypeOf (G : GLang) (D : Ty → Prop) (g : List Triple) : Prop :=
  ∀ n T T' u, D T → D T' → typeUri G T.toTerm = .ok u → (n, Node.tf "subtypeOf", u) ∈ g →
    leTyB G.types T T' = true → ∃ u', typeUri G T'.toTerm = .ok u' ∧ (n, Node.tf "subtypeOf", u') ∈ g

theorem GeneralisedTask.reach {le : Ty → Ty → Bool} {t t' : QTask} (h : GeneralisedTask le t t') :
    ∀ k, StepReach t' k ↔ StepReach t k := by
  intro k
  constructor
  · intro hk
    induction hk with
    | out ho => exact .out (h.outputs ▸ ho)
    | step _ hb ih => exact .step ih (h.from_ _ ▸ hb)
  · intro hk
    induction hk with
    | out ho => exact .out (h.outputs.symm ▸ ho)
    | step _ hb ih => exact .step ih ((h.from_ _).symm ▸ hb)

section
variable (G : GLang) (D : Ty → Prop)
  (hrefl : ∀ x, D x → leTyB G.types x x = true)
  (htrans : ∀ x y z, D x → D y → D z → leTyB G.types x y = true → leTyB G.types y z = true → leTyB G.types x z = true)
  (hanti : ∀ x y, D x → D y → leTyB G.types x y = true → leTyB G.types y x = true → x = y)
include hrefl htrans hanti

theorem typeOk_generalise (hup : UpClosedSubtypeOf G D g) {ts ts' : List Ty}
    (hD : ∀ T ∈ ts, D T) (hD' : ∀ T ∈ ts', D T) (hgen : GeneralisesTypes (leTyB G.types) ts ts') {n : Node}
    (h : TypeOk G g n ts) : TypeOk G g n ts' := by
  rcases h with h | ⟨M, hM, u, hu, hg⟩
  · exact Or.inl (hgen.1.1 h)
  · right
    have inv := unionOf_general_inv (leTyB G.types) D hrefl htrans hanti ts hD
    have inv' := unionOf_general_inv (leTyB G.types) D hrefl htrans hanti ts' hD'
    have hMts : M ∈ ts := ((inv.mem M).1 hM).1
    obtain ⟨T', hT', hle⟩ := hgen.2 M hMts
    obtain ⟨M', hM', hle'⟩ := inv'.cov T' hT'
    have hM'ts : M' ∈ ts' := ((inv'.mem M').1 hM').1
    have hle2 := htrans M T' M' (hD M hMts) (hD' T' hT') (hD' M' hM'ts) hle hle'
    obtain ⟨u', hu', hg'⟩ := hup n M M' u (hD M hMts) (hD' M' hM'ts) hu hg hle2
    exact ⟨M', hM', u', hu', hg'⟩

theorem GeneralisedTask.matchesBy {t t' : QTask} {f : QFlags} {hh : Nat → Node}
    (h : GeneralisedTask (leTyB G.types) t t')
    (hD : ∀ k, ∀ T ∈ (t.step k).types, D T) (hD' : ∀ k, ∀ T ∈ (t'.step k).types, D T)
    (hup : UpClosedSubtypeOf G D g)
    (hupc : ∀ x y, D x → D y → HasType G g wf x → leTyB G.types x y = true → HasType G g wf y)
    (hm : MatchesBy G t f g wf hh) : MatchesBy G t' f g wf hh := by
  have hty : ∀ k n, TypeOk G g n (t.step k).types → TypeOk G g n (t'.step k).types :=
    fun k n => typeOk_generalise G D hrefl htrans hanti hup (hD k) (hD' k) (h.types k)
  refine ⟨?_, ?_, ?_, ?_, ?_, ?_⟩
  · intro o ho
    rw [h.outputs] at ho
    obtain ⟨h1, h2⟩ := hm.output o ho
    exact ⟨h1, hty o _ h2⟩
  · intro hch k hk
    obtain ⟨h1, h2⟩ := hm.step hch k ((h.reach k).1 hk)
    rw [h.ops k]
    exact ⟨h1, hty k _ h2⟩
  · intro hch c b hc hb
    rw [h.from_ c] at hb
    have he : ∀ k, (t'.step k).types.isEmpty = (t.step k).types.isEmpty := by
      intro k
      have := (h.types k).1
      cases h1 : (t.step k).types <;> cases h2 : (t'.step k).types <;> simp_all
    have : relaxedLink t' c b = relaxedLink t c b := by
      unfold relaxedLink
      simp only [h.ops, he]
    rw [this]
    exact hm.link hch c b ((h.reach c).1 hc) hb
  · intro hio i hi hr
    rw [h.inputs] at hi
    obtain ⟨h1, h2⟩ := hm.input hio i hi ((h.reach i).1 hr)
    exact ⟨h1, hty i _ h2⟩
  · intro hop k o hk hops
    rw [h.ops k] at hops
    exact hm.preOps hop k o ((h.reach k).1 hk) hops
  · intro htyp k hk hne
    have hne' : (t.step k).types ≠ [] := fun he => hne ((h.types k).1.1 he)
    obtain ⟨T, hT, hHas⟩ := hm.preTypes htyp k ((h.reach k).1 hk) hne'
    obtain ⟨T', hT', hle⟩ := (h.types k).2 T hT
    exact ⟨T', hT', hupc T T' (hD k T hT) (hD' k T' hT') hHas hle⟩

end

/-! ## absent operators and types -/

theorem not_matches_absent_operator {G : GLang} {t : QTask} {f : QFlags} {k : Nat} {o : String}
    (hk : StepReach t k) (hops : (t.step k).ops = [o])
    (habs : (f.byOperators = true ∧ (wf, Node.tf "containsOperation", Node.ns o) ∉ g) ∨
            (f.byChronology = true ∧ ∀ n, (n, Node.tf "via", Node.ns o) ∉ g)) :
    ¬ Matches G t f g wf := by
  rintro ⟨h, hm⟩
  rcases habs with ⟨hop, hno⟩ | ⟨hch, hno⟩
  · exact hno (hm.preOps hop k o hk hops)
  · rcases (hm.step hch k hk).1 with h1 | ⟨o', ho', hg⟩
    · rw [hops] at h1
      cases h1
    · rw [hops] at ho'
      simp only [List.mem_singleton] at ho'
      subst ho'
      exact hno _ hg

theorem not_matches_absent_type {G : GLang} {t : QTask} {f : QFlags} {k : Nat}
    (hk : StepReach t k) (hne : (t.step k).types ≠ [])
    (habs : (f.byTypes = true ∧ ∀ T ∈ (t.step k).types, ¬ HasType G g wf T) ∨
            (f.byChronology = true ∧ ∀ n, ∀ T ∈ unionOf (leTyB G.types) false (t.step k).types, ∀ u,
              typeUri G T.toTerm = .ok u → (n, Node.tf "subtypeOf", u) ∉ g)) :
    ¬ Matches G t f g wf := by
  rintro ⟨h, hm⟩
  rcases habs with ⟨hty, hno⟩ | ⟨hch, hno⟩
  · obtain ⟨T, hT, hHas⟩ := hm.preTypes hty k hk hne
    exact hno T hT hHas
  · rcases (hm.step hch k hk).2 with h1 | ⟨T, hT, u, hu, hg⟩
    · exact hne h1
    · exact hno _ T hT u hu hg

/-! ## a task read off the graph matches it -/

/-- the task's steps are nodes of the graph (through `h`) and everything the task says is a triple of the graph -/
structure ReadOff (G : GLang) (t : QTask) (g : List Triple) (wf : Node) (h : Nat → Node) : Prop where
  outputs : ∀ o ∈ t.outputs, (wf, Node.tf "output", h o) ∈ g
  inputs : ∀ i ∈ t.inputs, StepReach t i → (wf, Node.tf "input", h i) ∈ g
  ops : ∀ k, StepReach t k → ∀ o ∈ (t.step k).ops, (h k, Node.tf "via", Node.ns o) ∈ g
  types : ∀ k, StepReach t k → ∀ T ∈ (t.step k).types, ∃ u, typeUri G T.toTerm = .ok u ∧ (h k, Node.tf "subtypeOf", u) ∈ g
  links : ∀ c b, StepReach t c → b ∈ (t.step c).from_ → (h c, Node.tf "depends", h b) ∈ g
  /-- membership triples of the workflow, as the graph generator emits them -/
  memberOps : ∀ n o, (n, Node.tf "via", o) ∈ g → (wf, Node.tf "containsOperation", o) ∈ g
  memberTypes : ∀ n u, (n, Node.tf "subtypeOf", u) ∈ g → (wf, Node.tf "containsType", u) ∈ g

theorem ReadOff.matchesBy {G : GLang} {t : QTask} {h : Nat → Node} (hr : ReadOff G t g wf h) (f : QFlags) :
    MatchesBy G t f g wf h := by
  have hty : ∀ k, StepReach t k → TypeOk G g (h k) (t.step k).types := by
    intro k hk
    cases hx : (t.step k).types with
    | nil => exact Or.inl rfl
    | cons T Ts =>
      right
      rw [← hx]
      cases hu : unionOf (leTyB G.types) false (t.step k).types with
      | nil =>
        rw [unionOf_eq_nil, hx] at hu
        cases hu
      | cons M Ms =>
        have hM : M ∈ unionOf (leTyB G.types) false (t.step k).types := by rw [hu]; simp
        obtain ⟨u, h1, h2⟩ := hr.types k hk M (unionOf_subset _ _ _ M hM)
        rw [← hu]
        exact ⟨M, hM, u, h1, h2⟩
  have hop : ∀ k, StepReach t k → OpOk g (h k) (t.step k).ops := by
    intro k hk
    cases hx : (t.step k).ops with
    | nil => exact Or.inl rfl
    | cons o os =>
      right
      exact ⟨o, by simp, hr.ops k hk o (by rw [hx]; simp)⟩
  refine ⟨?_, ?_, ?_, ?_, ?_, ?_⟩
  · intro o ho
    exact ⟨Or.inl (hr.outputs o ho), hty o (.out ho)⟩
  · intro _ k hk
    exact ⟨hop k hk, hty k hk⟩
  · intro _ c b hc hb
    exact Or.inl (hr.links c b hc hb)
  · intro _ i hi hri
    exact ⟨Or.inl (hr.inputs i hi hri), hty i hri⟩
  · intro _ k o hk hops
    exact hr.memberOps _ _ (hr.ops k hk o (by rw [hops]; simp))
  · intro _ k hk hne
    cases hx : (t.step k).types with
    | nil => exact absurd hx hne
    | cons T Ts =>
      obtain ⟨u, h1, h2⟩ := hr.types k hk T (by rw [hx]; simp)
      exact ⟨T, by simp, u, h1, hr.memberTypes _ _ h2⟩

end Tfv
