import Tfv.Proofs.LambdaStd
import Tfv.Proofs.LambdaExamples
/-!
# `primitiveL`: the combined statements used by Props/C15
-/
namespace Tfv.C15P
open Tfv Tfv.LamSpec

/-- weakest form: if the unfolding left no defined operator, the result is normal -/
theorem primitive_normal_of_unfolded {defs : List LDef} {fuel : Nat} {t r : LTerm}
    (hu : noDefined defs (unfoldDefs defs (defs.length + 1) t) = true)
    (h : primitiveL defs fuel t = some r) : normalB defs r = true := by
  unfold primitiveL at h
  rw [normalB_iff, nf_noRedex _ _ _ h, nf_noDefined h hu]; rfl

theorem primitive_normal_strat {defs : List LDef} {ρ : String → Nat} (hd : Stratified defs ρ)
    {fuel : Nat} {t r : LTerm} (h : primitiveL defs fuel t = some r) : normalB defs r = true :=
  primitive_normal_of_unfolded (unfold_complete_strat hd _ (Nat.le_succ _) t) h

theorem primitive_normal {defs : List LDef} (hd : depOrdered defs = true) {fuel : Nat} {t r : LTerm}
    (h : primitiveL defs fuel t = some r) : normalB defs r = true :=
  primitive_normal_of_unfolded (unfold_complete hd _ (Nat.le_succ _) t) h

theorem normalB_split {defs : List LDef} {r : LTerm} (h : normalB defs r = true) :
    noRedex r = true ∧ noDefined defs r = true := by
  rw [normalB_iff, Bool.and_eq_true] at h; exact h

/-- a normal term (no redex, no defined operator) is a fixed point of `primitiveL` for every fuel above
its height -/
theorem primitive_fix {defs : List LDef} {r : LTerm} (h : normalB defs r = true) (m : Nat)
    (hm : height r < m) : primitiveL defs m r = some r := by
  obtain ⟨h₁, h₂⟩ := normalB_split h
  unfold primitiveL
  rw [unfold_id _ _ h₂]
  exact nf_fix m r h₁ hm

theorem primitive_mono {defs : List LDef} {n m : Nat} {t r : LTerm} (h : primitiveL defs n t = some r)
    (hnm : n ≤ m) : primitiveL defs m t = some r := nf_mono h hnm

theorem primitive_deterministic {defs : List LDef} {n m : Nat} {t r₁ r₂ : LTerm}
    (h₁ : primitiveL defs n t = some r₁) (h₂ : primitiveL defs m t = some r₂) : r₁ = r₂ :=
  nf_deterministic h₁ h₂

/-- `primitiveL` = delta unfolding followed by beta reduction -/
theorem primitive_is_reduction {defs : List LDef} {fuel : Nat} {t r : LTerm}
    (h : primitiveL defs fuel t = some r) :
    ∃ u, DeltaStar defs t u ∧ RedStar u r :=
  ⟨_, unfold_delta defs _ t, nf_sound _ _ _ h⟩

/-- the result of `nf` is THE normal form: any normal term reachable by beta steps, in any order, is it -/
theorem nf_eq_normal_form {n : Nat} {t r r' : LTerm} (h : nf n t = some r) (hr : RedStar t r')
    (hn : noRedex r' = true) : r = r' :=
  normal_form_unique (nf_sound n t r h) hr (nf_noRedex n t r h) hn

theorem nf_agrees_inner {n m : Nat} {t r₁ r₂ : LTerm} (h₁ : nf n t = some r₁)
    (h₂ : nfInner m t = some r₂) : r₁ = r₂ :=
  nf_eq_normal_form h₁ (nfInner_spec m t r₂ h₂).1 (nfInner_spec m t r₂ h₂).2

theorem exInner : nfInner 10 exUnfolded = some exResult := by decide
theorem exInner2 : nfInner 13 exUnfolded2 = some exResult2 := by decide

/-- `(λx. s0) Ω`: normal order terminates, applicative order does not (for this fuel) -/
def exK : LTerm := .app (.lam (.src 0)) exOmega
theorem exK_nf : nf 2 exK = some (.src 0) := by decide
theorem exK_inner : nfInner 50 exK = none := by decide


theorem exOmega_red {t : LTerm} (h : Red exOmega t) : t = exOmega := by
  unfold exOmega at h
  cases h with
  | beta b x => decide
  | appL x hf =>
    cases hf with
    | lam hb =>
      cases hb with
      | appL _ h => cases h
      | appR _ h => cases h
  | appR f hx =>
    cases hx with
    | lam hb =>
      cases hb with
      | appL _ h => cases h
      | appR _ h => cases h

theorem exOmega_star {t : LTerm} (h : RedStar exOmega t) : t = exOmega := by
  generalize ha : exOmega = a at h
  induction h with
  | refl => rfl
  | step hab _ ih =>
    subst ha
    have := exOmega_red hab
    subst this
    exact ih rfl

theorem exOmega_diverges (n : Nat) : nf n exOmega = none := by
  refine (nf_none_iff exOmega).mpr ?_ n
  rintro ⟨r, hr, hn⟩
  rw [exOmega_star hr] at hn
  exact absurd hn (by decide)

/-- if the unfolded term has a normal form, `primitiveL` finds it for all sufficiently large fuel -/
theorem primitive_complete {defs : List LDef} {t r : LTerm}
    (h : RedStar (unfoldDefs defs (defs.length + 1) t) r) (hn : noRedex r = true) :
    ∃ n, ∀ m, n ≤ m → primitiveL defs m t = some r := by
  obtain ⟨n, hnf⟩ := nf_complete h hn
  exact ⟨n, fun m hm => nf_mono hnf hm⟩

end Tfv.C15P
