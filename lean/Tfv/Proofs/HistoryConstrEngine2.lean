import Tfv.Proofs.HistoryConstrEngine
/-!
# History independence in the shift form WITH constraints (C16), part 6: `fulfill`, `minimize`, `minLoop`, the induction
-/
namespace Tfv.C16H
open Tfv Tfv.C03P Tfv.C16P Tfv.C03C Tfv.C16C Tfv.C18P

/-! ## 1. lists of shifted terms -/

theorem shiftL_append (k : Nat) (a b : List Term) : Term.shiftL k (a ++ b) = Term.shiftL k a ++ Term.shiftL k b := by
  rw [shiftL_eq_map, shiftL_eq_map, shiftL_eq_map, List.map_append]

theorem shiftL_single (k : Nat) (t : Term) : Term.shiftL k [t] = [t.shift k] := by
  rw [shiftL_cons, shiftL_nil]

theorem all_shiftL {k : Nat} {f g : Term → Bool} (h : ∀ t, f (t.shift k) = g t) :
    ∀ ts : List Term, (Term.shiftL k ts).all f = ts.all g
  | [] => by rw [shiftL_nil]; rfl
  | t :: ts => by rw [shiftL_cons, List.all_cons, List.all_cons, h t, all_shiftL h ts]

theorem filter_shiftL {k : Nat} {f g : Term → Bool} (h : ∀ t, f (t.shift k) = g t) :
    ∀ ts : List Term, (Term.shiftL k ts).filter f = Term.shiftL k (ts.filter g)
  | [] => by rw [shiftL_nil]; rfl
  | t :: ts => by
    rw [shiftL_cons, List.filter_cons, List.filter_cons, h t, filter_shiftL h ts]
    split
    · rw [shiftL_cons]
    · rfl

theorem map_shiftL {k : Nat} {f g : Term → Term} (h : ∀ t, f (t.shift k) = (g t).shift k) :
    ∀ ts : List Term, (Term.shiftL k ts).map f = Term.shiftL k (ts.map g)
  | [] => by rw [shiftL_nil]; rfl
  | t :: ts => by rw [shiftL_cons, List.map_cons, List.map_cons, h t, map_shiftL h ts, shiftL_cons]

theorem normalizedIn_appendC (σ₀ σ : Store) (t : Term) :
    normalizedIn (σ₀.appendC σ) (t.shift σ₀.vars.length) = normalizedIn σ t := by
  cases t with
  | var v =>
    rw [shift_var]
    show (getVar (σ₀.appendC σ) (v + σ₀.vars.length)).bound.isNone = (getVar σ v).bound.isNone
    rw [(getVar_appendC_core σ₀ σ v).1, Option.isNone_map]
  | app o args => rw [shift_app]; rfl

/-! ## 2. `fulfill` -/

theorem fulfill_stepH {L : Lang} {σ₀ : Store} {n : Nat} (hunify : UnifyH L σ₀ n) (hmin : MinimizeH L σ₀ n) :
    FulfillH L σ₀ (n+1) := by
  intro σ c hc hlt
  have hterms := hc.ctm_scoped hlt
  cases e0 : getConstr σ c with
  | sub ref tgt s0 f0 =>
    rw [e0, constrTerms_sub] at hterms
    have hr := hterms ref List.mem_cons_self
    have htg := hterms tgt (List.mem_cons_of_mem _ List.mem_cons_self)
    have e0' : getConstr (σ₀.appendC σ) (c + σ₀.constrs.length) =
        .sub (ref.shift σ₀.vars.length) (tgt.shift σ₀.vars.length) s0 f0 := by
      rw [getConstr_appendC hlt, e0]; rfl
    rw [fulfill_sub_eq' L n _ _ e0', fulfillE_sub_eq' L _ n σ c e0]
    have h1 := hunify σ ref tgt true true false hc hr htg
    rw [h1]
    cases e1 : unifyE L σ₀.vars.length n σ ref tgt true true false with
    | error e => rfl
    | ok σ1 =>
      simp only [shR_ok]
      rw [e1] at h1
      have f1 := (all_frameC L n).1 _ _ _ _ _ _ _ _ hc (hc.tin hr) (hc.tin htg) h1
      obtain ⟨hc1, g1⟩ := behind_of_frC f1
      have hlt1 : c < σ1.constrs.length := Nat.lt_of_lt_of_le hlt g1.clen
      rw [matchFuel_appendC, match3_appendC, getConstr_appendC hlt1]
      cases match3E L σ₀.vars.length σ1 (matchFuelE σ₀.vars.length σ1) true false ref tgt with
      | none =>
        simp only []
        cases getConstr σ1 c with
        | sub r t s f => rfl
        | elim r a f => rfl
      | some b =>
        cases b with
        | false => rfl
        | true =>
          simp only []
          cases getConstr σ1 c with
          | sub r t s f =>
            simp only [Constr.shift]
            have := setConstr_appendC σ₀ σ1 c (.sub r t s true)
            simp only [Constr.shift] at this
            rw [this]
            rfl
          | elim r a f => rfl
  | elim r0 a0 ful0 =>
    have e0' : getConstr (σ₀.appendC σ) (c + σ₀.constrs.length) =
        .elim (r0.shift σ₀.vars.length) (Term.shiftL σ₀.vars.length a0) ful0 := by
      rw [getConstr_appendC hlt, e0]; rfl
    cases ful0 with
    | true =>
      rw [fulfill_elim_true_eq L n _ _ e0', fulfillE_elim_true_eq L _ n σ c e0]
      rfl
    | false =>
      rw [fulfill_elim_eq L n _ _ e0', fulfillE_elim_eq L _ n σ c e0]
      have h1 := hmin σ c hc hlt
      rw [h1]
      cases e1 : minimizeE L σ₀.vars.length n σ c with
      | error e => rfl
      | ok σ1 =>
        simp only [shR_ok]
        rw [e1] at h1
        have f1 := (all_frameC L n).2.2.2.2.2.2.2.2.2.2.1 _ _ _ _ hc (hc.cin hlt).1 (hc.cin hlt).2 h1
        obtain ⟨hc1, g1⟩ := behind_of_frC f1
        have hlt1 : c < σ1.constrs.length := Nat.lt_of_lt_of_le hlt g1.clen
        have hterms1 := hc1.ctm_scoped hlt1
        rw [getConstr_appendC hlt1]
        cases e1' : getConstr σ1 c with
        | sub r t s f => rfl
        | elim ref alts ful =>
          rw [e1', constrTerms_elim] at hterms1
          have hr := hterms1 ref List.mem_cons_self
          have halts : ∀ t, t ∈ alts → TermScoped σ1 t := fun t ht => hterms1 t (List.mem_cons_of_mem _ ht)
          simp only [Constr.shift]
          have hf : (Term.shiftL σ₀.vars.length alts).filter (fun t =>
                match3 L (σ₀.appendC σ1) (matchFuel (σ₀.appendC σ1)) true true (ref.shift σ₀.vars.length) t
                  != some false) =
              Term.shiftL σ₀.vars.length (alts.filter (fun t =>
                match3E L σ₀.vars.length σ1 (matchFuelE σ₀.vars.length σ1) true true ref t != some false)) :=
            filter_shiftL (fun t => by rw [matchFuel_appendC, match3_appendC]) alts
          rw [normalizedIn_appendC, all_shiftL (fun t => normalizedIn_appendC σ₀ σ1 t) alts, hf]
          split
          · rfl
          · cases ef : alts.filter (fun t =>
                match3E L σ₀.vars.length σ1 (matchFuelE σ₀.vars.length σ1) true true ref t != some false) with
            | nil => rfl
            | cons only rest =>
              have honly : TermScoped σ1 only := by
                have hm : only ∈ only :: rest := List.mem_cons_self
                rw [← ef] at hm
                exact halts only (List.mem_filter.mp hm).1
              have hrest : ∀ t, t ∈ rest → TermScoped σ1 t := by
                intro t ht
                have hm : t ∈ only :: rest := List.mem_cons_of_mem _ ht
                rw [← ef] at hm
                exact halts t (List.mem_filter.mp hm).1
              cases rest with
              | nil =>
                simp only [shiftL_cons, shiftL_nil]
                have hs := setConstr_appendC σ₀ σ1 c (.elim ref [only] true)
                simp only [Constr.shift, shiftL_cons, shiftL_nil] at hs
                rw [hs]
                have hx : TermsInR (σ₀.appendC σ1) (beyond σ₀).S
                    (constrTerms ((Constr.elim ref [only] true).shift σ₀.vars.length)) := by
                  rw [constrTerms_shift]
                  apply termsInB_iff.mpr
                  intro t ht
                  rw [constrTerms_elim] at ht
                  rcases List.mem_cons.mp ht with e | e
                  · rw [e]; exact hr
                  · rw [List.mem_singleton.mp e]; exact honly
                have f2 := frC_setConstr hc1 (hc1.cin hlt1).1 _ hx
                rw [setConstr_appendC] at f2
                obtain ⟨hc2, g2⟩ := behind_of_frC f2
                have h3 := hunify _ ref only true false false hc2 (g2.ts hr) (g2.ts honly)
                rw [h3]
                cases unifyE L σ₀.vars.length n (setConstr σ1 c (.elim ref [only] true)) ref only true false false with
                | error e => rfl
                | ok σ3 => rfl
              | cons second rest2 =>
                simp only [shiftL_cons]
                have hs := setConstr_appendC σ₀ σ1 c (.elim ref (only :: second :: rest2) ful)
                simp only [Constr.shift, shiftL_cons] at hs
                rw [hs]
                rfl

/-! ## 3. `minimize`, `minLoop` -/

theorem minimize_stepH {L : Lang} {σ₀ : Store} {n : Nat} (hloop : MinLoopH L σ₀ n) : MinimizeH L σ₀ (n+1) := by
  intro σ c hc hlt
  have hterms := hc.ctm_scoped hlt
  cases e0 : getConstr σ c with
  | sub r t s f =>
    have e0' : getConstr (σ₀.appendC σ) (c + σ₀.constrs.length) =
        .sub (r.shift σ₀.vars.length) (t.shift σ₀.vars.length) s f := by
      rw [getConstr_appendC hlt, e0]; rfl
    rw [minimize_sub_eq L n _ _ e0', minimizeE_sub_eq L _ n σ c e0]
    rfl
  | elim ref alts f0 =>
    rw [e0, constrTerms_elim] at hterms
    have halts : ∀ t, t ∈ alts → TermScoped σ t := fun t ht => hterms t (List.mem_cons_of_mem _ ht)
    have e0' : getConstr (σ₀.appendC σ) (c + σ₀.constrs.length) =
        .elim (ref.shift σ₀.vars.length) (Term.shiftL σ₀.vars.length alts) f0 := by
      rw [getConstr_appendC hlt, e0]; rfl
    rw [minimize_elim_eq L n _ _ e0', minimizeE_elim_eq L _ n σ c e0]
    have h1 := hloop σ alts [] hc halts (fun _ h => nomatch h)
    rw [shiftL_nil] at h1
    rw [h1]
    cases e1 : minLoopE L σ₀.vars.length n σ alts [] with
    | error e => rfl
    | ok q =>
      obtain ⟨σ1, mins⟩ := q
      simp only [shL_ok]
      rw [e1] at h1
      obtain ⟨f1, _⟩ := (all_frameC L n).2.2.2.2.2.2.2.2.2.2.2 _ _ _ _ _ _ hc (termsInB_iff.mpr halts)
        termsInR_nil h1
      obtain ⟨hc1, g1⟩ := behind_of_frC f1
      have hlt1 : c < σ1.constrs.length := Nat.lt_of_lt_of_le hlt g1.clen
      rw [getConstr_appendC hlt1]
      cases getConstr σ1 c with
      | sub r t s f => rfl
      | elim r1 a1 ful =>
        simp only [Constr.shift]
        rw [followT_appendC, map_shiftL (fun t => followT_appendC σ₀ σ1 t) mins]
        have hs := setConstr_appendC σ₀ σ1 c
          (.elim (followTE σ₀.vars.length σ1 ref) (mins.map (followTE σ₀.vars.length σ1)) ful)
        simp only [Constr.shift] at hs
        rw [hs]
        rfl

theorem minStep_appendC (L : Lang) (σ₀ σ : Store) (obj : Term) (acc : List Term × Bool) (m : Term) :
    minStep L (σ₀.appendC σ) (obj.shift σ₀.vars.length) (Term.shiftL σ₀.vars.length acc.1, acc.2)
        (m.shift σ₀.vars.length) =
      (Term.shiftL σ₀.vars.length (minStepE L σ₀.vars.length σ obj acc m).1,
        (minStepE L σ₀.vars.length σ obj acc m).2) := by
  unfold minStep minStepE
  simp only []
  rw [matchFuel_appendC, match3_appendC, followT_appendC]
  by_cases h : (match3E L σ₀.vars.length σ (matchFuelE σ₀.vars.length σ) true false m obj == some true) = true
  · simp only [h, if_true, match3_appendC, shiftL_append, shiftL_single]
  · simp only [h, Bool.false_eq_true, if_false, match3_appendC, shiftL_append, shiftL_single]

theorem minFold_appendC (L : Lang) (σ₀ σ : Store) (obj : Term) : ∀ (mins : List Term) (acc : List Term × Bool),
    (Term.shiftL σ₀.vars.length mins).foldl (minStep L (σ₀.appendC σ) (obj.shift σ₀.vars.length))
        (Term.shiftL σ₀.vars.length acc.1, acc.2) =
      (Term.shiftL σ₀.vars.length (mins.foldl (minStepE L σ₀.vars.length σ obj) acc).1,
        (mins.foldl (minStepE L σ₀.vars.length σ obj) acc).2)
  | [], acc => by rw [shiftL_nil]; rfl
  | m :: ms, acc => by
    rw [shiftL_cons, List.foldl_cons, List.foldl_cons, minStep_appendC]
    exact minFold_appendC L σ₀ σ obj ms _

theorem minLoop_stepH {L : Lang} {σ₀ : Store} {n : Nat} (hfix : FixH L σ₀ n) (hloop : MinLoopH L σ₀ n) :
    MinLoopH L σ₀ (n+1) := by
  intro σ alts mins hc halts hmins
  cases alts with
  | nil => rw [shiftL_nil, minLoop_nil_eq, minLoopE_nil_eq]; rfl
  | cons obj rest =>
    have hobj := halts obj List.mem_cons_self
    have hrest : ∀ t, t ∈ rest → TermScoped σ t := fun t ht => halts t (List.mem_cons_of_mem _ ht)
    have hobj' := followTE_scoped hc hobj
    have hfold := minFold_appendC L σ₀ σ obj mins ([], true)
    rw [shiftL_nil] at hfold
    have hin : ∀ t, t ∈ (mins.foldl (minStepE L σ₀.vars.length σ obj) ([], true)).1 → TermScoped σ t := by
      have h1 := minStep_in hc L (hc.tin hobj) _ (termsInB_iff.mpr hmins)
      rw [hfold] at h1
      exact termsInB_iff.mp h1
    rw [shiftL_cons, minLoop_cons_eq, minLoopE_cons_eq, hfold, followT_appendC]
    simp only []
    split
    · have h1 := hfix σ (followTE σ₀.vars.length σ obj) true hc hobj'
      rw [h1]
      cases e1 : fixE L σ₀.vars.length n σ (followTE σ₀.vars.length σ obj) true with
      | error e => rfl
      | ok q =>
        obtain ⟨σ1, t⟩ := q
        simp only [shP_ok]
        rw [e1] at h1
        obtain ⟨f1, ht⟩ := (all_frameC L n).2.2.2.2.2.1 _ _ _ _ _ _ hc (hc.tin hobj') h1
        obtain ⟨hc1, g1⟩ := behind_of_frC f1
        have ht' : TermScoped σ1 t := termInB_iff.mp ht
        rw [← shiftL_single, ← shiftL_append]
        refine hloop σ1 rest _ hc1 (g1.tss hrest) (fun u hu => ?_)
        rcases List.mem_append.mp hu with h | h
        · exact g1.ts (hin u h)
        · rw [List.mem_singleton.mp h]; exact ht'
    · exact hloop σ rest _ hc hrest hin

/-! ## 4. the induction on the fuel -/

theorem all_historyC (L : Lang) (σ₀ : Store) : ∀ n,
    UnifyH L σ₀ n ∧ UnifyListH L σ₀ n ∧ BindH L σ₀ n ∧ AboveH L σ₀ n ∧ BelowH L σ₀ n ∧ FixH L σ₀ n ∧
    FixListH L σ₀ n ∧ CheckH L σ₀ n ∧ CheckListH L σ₀ n ∧ FulfillH L σ₀ n ∧ MinimizeH L σ₀ n ∧ MinLoopH L σ₀ n
  | 0 => by
    refine ⟨?_, ?_, ?_, ?_, ?_, ?_, ?_, ?_, ?_, ?_, ?_, ?_⟩
    · intro σ a b st sb sw _ _ _; rw [unify, unifyE]; rfl
    · intro σ vs xs ys st sb sw _ _ _; rw [unifyList, unifyListE]; rfl
    · intro σ v t _ _ _; rw [bind, bindE]; rfl
    · intro σ v new _ _; rw [above, aboveE]; rfl
    · intro σ v new _ _; rw [below, belowE]; rfl
    · intro σ t pl _ _; rw [fix, fixE]; rfl
    · intro σ vs ps pl _ _; rw [fixList, fixListE]; rfl
    · intro σ v _ _; rw [checkConstraints, checkConstraintsE]; rfl
    · intro σ v cs _ _ _; rw [checkList, checkListE]; rfl
    · intro σ c _ _; rw [fulfill, fulfillE]; rfl
    · intro σ c _ _; rw [minimize, minimizeE]; rfl
    · intro σ alts mins _ _ _; rw [minLoop, minLoopE]; rfl
  | n+1 => by
    obtain ⟨h1, h2, h3, h4, h5, h6, h7, h8, h9, h10, h11, h12⟩ := all_historyC L σ₀ n
    exact ⟨unify_stepH h1 h2 h3 h4 h5, unifyList_stepH h1 h2, bind_stepH h1 h8,
      above_stepH h3 h8, below_stepH h3 h8, fix_stepH h3 h7, fixList_stepH h6 h7,
      check_stepH h9, checkList_stepH h10 h9, fulfill_stepH h1 h11, minimize_stepH h12,
      minLoop_stepH h6 h12⟩

end Tfv.C16H
