import Tfv.Proofs.WorkflowNode
/-!
# The stages of `addWorkflow`, named
-/
namespace Tfv

def wfRoot : Node := Node.res "workflow"

/-- `exprs[source] = Source(type)` for one source -/
def wfSrcStep (stypes : List (Nat × Term)) (acc : XState × List (Nat × TExpr)) (r : Nat) : XState × List (Nat × TExpr) :=
  let (σ, ty) := match stypes.find? (fun q => q.1 == r) with
    | some q => (acc.1.store, q.2)
    | none => let (σ, v) := newVar acc.1.store; (σ, Term.var v)
  ({ store := σ, nsrc := acc.1.nsrc + 1 }, acc.2 ++ [(r, TExpr.src acc.1.nsrc none ty)])

/-- the memo table `add_workflow` starts from: one source expression per source of the workflow -/
def wfSrcTable (w : Wf) (xs0 : XState) (stypes : List (Nat × Term)) : XState × List (Nat × TExpr) :=
  w.sources.foldl (wfSrcStep stypes) (xs0, [])

/-- the graph is built from the language together with the store left by the final `fix()` -/
def wfGLang (G : GLang) (σf : Store) : GLang := { G with store := σf }

/-- the memo table after the final `fix()` of the target expression (result `te'`): an expression object reachable
from the target is the one that was fixed just now (the last `.shared k _` visited in `te'`), the others keep what an
earlier `fix()` left; every source occurrence reads the type its object carries now -/
def wfFinalExprs (ws : WState) (te' : TExpr) : List (Nat × TExpr) :=
  ws.exprs.map (fun p =>
    (p.1, setSrcTypes (srcTypesOf te' ws.srcTypes) ((alook (sharedOf te' []) p.1).getD p.2)))

/-- a stand-in source is connected to the expression it stands for -/
def wfLinkStep (c : GCfg) (g : GState) (p : Nat × Nat) : GState :=
  match g.srcNodes.find? (fun q => q.1 == p.1), g.sharedNodes.find? (fun q => q.1 == p.2) with
  | some s, some t => gAddFrom c g s.2 t.2 true
  | _, _ => g

/-- one source of the workflow is marked as an input -/
def wfMarkStep (G : GLang) (c : GCfg) (w : Wf) (exprs : List (Nat × TExpr)) (n : Nat) (g : GState) (r : Nat) :
    Except WErr GState :=
  match wfNode G c w wfRoot exprs n g r with
  | .error e => Except.error e
  | .ok (g', k) => .ok (g'.add (wfRoot, .tf "input", .b k))

/-- the output mark and the class of the workflow -/
def wfFinish (c : GCfg) (g3 : GState) (out : Nat) : GState :=
  if c.withClasses then (g3.add (wfRoot, .tf "output", .b out)).add (wfRoot, .rdf "type", .tf "Transformation")
  else g3.add (wfRoot, .tf "output", .b out)

/-- the resource ↦ node map that `add_workflow` returns -/
def wfNodeMap (exprs : List (Nat × TExpr)) (g : GState) : List (Nat × Nat) :=
  exprs.filterMap (fun p => (nodeOf g p.2).map (fun k => (p.1, k)))

/-- a successful run of `addWorkflow`, stage by stage: `source_types`, the target, the memo table `ws` and the target
expression `te` of `wfExpr`, the final `fix()` with its store `σf` and fixed tree `te'`, the nodes of the target (graph
`g1`), the links of the stand-in sources and the input marks (graph `g3`), the output mark and the class -/
structure WfRun (P : PLang) (G : GLang) (ops : List OperatorDecl) (c : GCfg) (pt : Bool) (w : Wf)
    (g : GState) (out : Nat) (m : List (Nat × Nat))
    (xs0 : XState) (stypes : List (Nat × Term)) (tgt : Nat) (ws : WState) (te : TExpr) (σf : Store) (te' : TExpr)
    (g1 g3 : GState) : Prop where
  st : sourceTypes P ops w {} w.apps [] = .ok (xs0, stypes)
  target : w.target = .ok tgt
  expr : wfExpr P ops w pt (w.apps.length + 2)
    { xs := (wfSrcTable w xs0 stypes).1, exprs := (wfSrcTable w xs0 stypes).2 } tgt = .ok (ws, te)
  fix : fixExpr P.types ws.xs.store te = .ok (σf, te')
  node : wfNode (wfGLang G σf) c w wfRoot (wfFinalExprs ws te') (w.apps.length + 2) (initGraph (wfGLang G σf) c) tgt
    = .ok (g1, out)
  marks : w.sources.foldlM (wfMarkStep (wfGLang G σf) c w (wfFinalExprs ws te') (w.apps.length + 2))
    (ws.indirection.foldl (wfLinkStep c) g1) = .ok g3
  graph : g = wfFinish c g3 out
  map : m = wfNodeMap (wfFinalExprs ws te') g

theorem wfNodeMap_eq (exprs : List (Nat × TExpr)) (g : GState) :
    exprs.filterMap (fun p =>
      match p.2 with
      | .shared k _ => (g.sharedNodes.find? (fun q => q.1 == k)).map (fun q => (p.1, q.2))
      | .src id _ _ => (g.srcNodes.find? (fun q => q.1 == id)).map (fun q => (p.1, q.2))
      | _ => none) = wfNodeMap exprs g := by
  unfold wfNodeMap
  congr 1
  funext p
  cases h : p.2 with
  | src id l t => simp only [nodeOf, alook, Option.map_map]; rfl
  | shared k e => simp only [nodeOf, alook, Option.map_map]; rfl
  | op n t => rfl
  | app f x t => rfl

theorem addWorkflow_run (P : PLang) (G : GLang) (ops : List OperatorDecl) (c : GCfg) (pt : Bool)
    (w : Wf) (g : GState) (out : Nat) (m : List (Nat × Nat))
    (h : addWorkflow P G ops c pt w = .ok (g, out, m)) :
    ∃ xs0 stypes tgt ws te σf te' g1 g3, WfRun P G ops c pt w g out m xs0 stypes tgt ws te σf te' g1 g3 := by
  unfold addWorkflow at h
  simp only [] at h
  split at h
  · cases h
  · rename_i xs0 stypes hst
    split at h
    · cases h
    · rename_i tgt htgt
      split at h
      · cases h
      · rename_i ws te hwe
        split at h
        · cases h
        · rename_i σf e' hfix
          split at h
          · cases h
          · rename_i g1 outNode h1
            split at h
            · cases h
            · rename_i g3 h3
              simp only [Except.ok.injEq, Prod.mk.injEq] at h
              obtain ⟨hg, rfl, hm⟩ := h
              refine ⟨xs0, stypes, tgt, ws, te, σf, e', g1, g3, hst, htgt, hwe, hfix, h1, h3, hg.symm, ?_⟩
              rw [← hm, ← hg]
              exact wfNodeMap_eq _ _

end Tfv
