import Tfv.Proofs.LambdaUnfold
/-!
# the fuelled evaluators `whnf` and `nf`: equations, inversion, fuel monotonicity, soundness w.r.t.
beta reduction, results are normal, normal forms are fixed points
-/
namespace Tfv.C15P
open Tfv Tfv.LamSpec

/-! ## equations -/

theorem whnf_zero (t : LTerm) : whnf 0 t = none := by unfold whnf; rfl
theorem whnf_app_none {n : Nat} {f : LTerm} (x : LTerm) (h : whnf n f = none) :
    whnf (n+1) (.app f x) = none := by rw [whnf, h]
theorem whnf_app_lam {n : Nat} {f b : LTerm} (x : LTerm) (h : whnf n f = some (.lam b)) :
    whnf (n+1) (.app f x) = whnf n (LTerm.beta b x) := by rw [whnf, h]
theorem whnf_app_other {n : Nat} {f f' : LTerm} (x : LTerm) (h : whnf n f = some f')
    (hl : f'.isLam = false) : whnf (n+1) (.app f x) = some (.app f' x) := by
  rw [whnf, h]; cases f' <;> first | rfl | cases hl
theorem whnf_op (n : Nat) (s : String) : whnf (n+1) (.op s) = some (.op s) := by
  rw [whnf]; intro _ _ h; cases h
theorem whnf_src (n : Nat) (s : Nat) : whnf (n+1) (.src s) = some (.src s) := by
  rw [whnf]; intro _ _ h; cases h
theorem whnf_var (n : Nat) (s : Nat) : whnf (n+1) (.var s) = some (.var s) := by
  rw [whnf]; intro _ _ h; cases h
theorem whnf_lam (n : Nat) (b : LTerm) : whnf (n+1) (.lam b) = some (.lam b) := by
  rw [whnf]; intro _ _ h; cases h
theorem nf_zero (t : LTerm) : nf 0 t = none := by unfold nf; rfl
theorem nf_app_none {n : Nat} {f : LTerm} (x : LTerm) (h : whnf n f = none) :
    nf (n+1) (.app f x) = none := by rw [nf, h]
theorem nf_app_lam {n : Nat} {f b : LTerm} (x : LTerm) (h : whnf n f = some (.lam b)) :
    nf (n+1) (.app f x) = nf n (LTerm.beta b x) := by rw [nf, h]
theorem nf_app_other {n : Nat} {f f' : LTerm} (x : LTerm) (h : whnf n f = some f')
    (hl : f'.isLam = false) : nf (n+1) (.app f x) =
      (nf n f').bind (fun f'' => (nf n x).map (fun x' => .app f'' x')) := by
  rw [nf, h]
  cases f' <;> first | cases hl | skip
  all_goals (simp only []; cases nf n _ <;> cases nf n x <;> rfl)
theorem nf_lam (n : Nat) (b : LTerm) : nf (n+1) (.lam b) = (nf n b).map .lam := by rw [nf]
theorem nf_op (n : Nat) (s : String) : nf (n+1) (.op s) = some (.op s) := by
  rw [nf] <;> (intros; rename_i h; cases h)
theorem nf_src (n : Nat) (s : Nat) : nf (n+1) (.src s) = some (.src s) := by
  rw [nf] <;> (intros; rename_i h; cases h)
theorem nf_var (n : Nat) (s : Nat) : nf (n+1) (.var s) = some (.var s) := by
  rw [nf] <;> (intros; rename_i h; cases h)

/-! ## inversion -/

theorem isLam_false_or (t : LTerm) : t.isLam = false ∨ ∃ b, t = .lam b := by
  cases t <;> first | exact .inl rfl | exact .inr ⟨_, rfl⟩

theorem whnf_app_inv {n : Nat} {f x r : LTerm} (h : whnf (n+1) (.app f x) = some r) :
    (∃ b, whnf n f = some (.lam b) ∧ whnf n (LTerm.beta b x) = some r) ∨
    (∃ f', whnf n f = some f' ∧ f'.isLam = false ∧ r = .app f' x) := by
  cases hf : whnf n f with
  | none => rw [whnf_app_none x hf] at h; cases h
  | some f' =>
    rcases isLam_false_or f' with hl | ⟨b, rfl⟩
    · rw [whnf_app_other x hf hl] at h
      exact .inr ⟨f', rfl, hl, (Option.some.inj h).symm⟩
    · rw [whnf_app_lam x hf] at h
      exact .inl ⟨b, rfl, h⟩

theorem nf_app_inv {n : Nat} {f x r : LTerm} (h : nf (n+1) (.app f x) = some r) :
    (∃ b, whnf n f = some (.lam b) ∧ nf n (LTerm.beta b x) = some r) ∨
    (∃ f' f'' x', whnf n f = some f' ∧ f'.isLam = false ∧ nf n f' = some f'' ∧ nf n x = some x' ∧
      r = .app f'' x') := by
  cases hf : whnf n f with
  | none => rw [nf_app_none x hf] at h; cases h
  | some f' =>
    rcases isLam_false_or f' with hl | ⟨b, rfl⟩
    · rw [nf_app_other x hf hl] at h
      cases hf' : nf n f' with
      | none => rw [hf'] at h; cases h
      | some f'' =>
        cases hx : nf n x with
        | none => rw [hf', hx] at h; cases h
        | some x' =>
          rw [hf', hx] at h
          exact .inr ⟨f', f'', x', rfl, hl, hf', rfl, (Option.some.inj h).symm⟩
    · rw [nf_app_lam x hf] at h
      exact .inl ⟨b, rfl, h⟩

theorem nf_lam_inv {n : Nat} {b r : LTerm} (h : nf (n+1) (.lam b) = some r) :
    ∃ b', nf n b = some b' ∧ r = .lam b' := by
  rw [nf_lam] at h
  cases hb : nf n b with
  | none => rw [hb] at h; cases h
  | some b' => rw [hb] at h; exact ⟨b', rfl, (Option.some.inj h).symm⟩

/-! ## fuel monotonicity -/

theorem whnf_mono_succ : ∀ (n : Nat) (t r : LTerm), whnf n t = some r → whnf (n+1) t = some r
  | 0, t, r, h => by rw [whnf_zero] at h; cases h
  | n+1, .op s, r, h => by rw [whnf_op] at h ⊢; exact h
  | n+1, .src s, r, h => by rw [whnf_src] at h ⊢; exact h
  | n+1, .var s, r, h => by rw [whnf_var] at h ⊢; exact h
  | n+1, .lam b, r, h => by rw [whnf_lam] at h ⊢; exact h
  | n+1, .app f x, r, h => by
    rcases whnf_app_inv h with ⟨b, hf, hb⟩ | ⟨f', hf, hl, rfl⟩
    · rw [whnf_app_lam x (whnf_mono_succ n f _ hf)]
      exact whnf_mono_succ n _ _ hb
    · rw [whnf_app_other x (whnf_mono_succ n f _ hf) hl]

theorem whnf_mono {n m : Nat} {t r : LTerm} (h : whnf n t = some r) (hnm : n ≤ m) : whnf m t = some r := by
  induction hnm with
  | refl => exact h
  | step _ ih => exact whnf_mono_succ _ _ _ ih

theorem nf_mono_succ : ∀ (n : Nat) (t r : LTerm), nf n t = some r → nf (n+1) t = some r
  | 0, t, r, h => by rw [nf_zero] at h; cases h
  | n+1, .op s, r, h => by rw [nf_op] at h ⊢; exact h
  | n+1, .src s, r, h => by rw [nf_src] at h ⊢; exact h
  | n+1, .var s, r, h => by rw [nf_var] at h ⊢; exact h
  | n+1, .lam b, r, h => by
    obtain ⟨b', hb, rfl⟩ := nf_lam_inv h
    rw [nf_lam, nf_mono_succ n b b' hb]; rfl
  | n+1, .app f x, r, h => by
    rcases nf_app_inv h with ⟨b, hf, hb⟩ | ⟨f', f'', x', hf, hl, hf', hx, rfl⟩
    · rw [nf_app_lam x (whnf_mono_succ n f _ hf)]
      exact nf_mono_succ n _ _ hb
    · rw [nf_app_other x (whnf_mono_succ n f _ hf) hl, nf_mono_succ n _ _ hf', nf_mono_succ n _ _ hx]
      rfl

theorem nf_mono {n m : Nat} {t r : LTerm} (h : nf n t = some r) (hnm : n ≤ m) : nf m t = some r := by
  induction hnm with
  | refl => exact h
  | step _ ih => exact nf_mono_succ _ _ _ ih

theorem whnf_deterministic {n m : Nat} {t r₁ r₂ : LTerm} (h₁ : whnf n t = some r₁) (h₂ : whnf m t = some r₂) :
    r₁ = r₂ := by
  have a := whnf_mono h₁ (Nat.le_max_left n m)
  have b := whnf_mono h₂ (Nat.le_max_right n m)
  rw [a] at b; exact Option.some.inj b

theorem nf_deterministic {n m : Nat} {t r₁ r₂ : LTerm} (h₁ : nf n t = some r₁) (h₂ : nf m t = some r₂) :
    r₁ = r₂ := by
  have a := nf_mono h₁ (Nat.le_max_left n m)
  have b := nf_mono h₂ (Nat.le_max_right n m)
  rw [a] at b; exact Option.some.inj b

/-! ## soundness: only beta steps -/

theorem RedStar.lam {b b' : LTerm} (h : RedStar b b') : RedStar (.lam b) (.lam b') :=
  Star.map (R := Red) LTerm.lam (fun _ _ => Red.lam) h

theorem RedStar.appL {f f' : LTerm} (x : LTerm) (h : RedStar f f') : RedStar (.app f x) (.app f' x) :=
  Star.map (R := Red) (fun f => LTerm.app f x) (fun _ _ => Red.appL x) h

theorem RedStar.appR (f : LTerm) {x x' : LTerm} (h : RedStar x x') : RedStar (.app f x) (.app f x') :=
  Star.map (R := Red) (fun x => LTerm.app f x) (fun _ _ => Red.appR f) h

theorem RedStar.app {f f' x x' : LTerm} (hf : RedStar f f') (hx : RedStar x x') :
    RedStar (.app f x) (.app f' x') :=
  Star.trans (RedStar.appL x hf) (RedStar.appR f' hx)

theorem whnf_sound : ∀ (n : Nat) (t r : LTerm), whnf n t = some r → RedStar t r
  | 0, t, r, h => by rw [whnf_zero] at h; cases h
  | n+1, .op s, r, h => by rw [whnf_op] at h; cases h; exact .refl _
  | n+1, .src s, r, h => by rw [whnf_src] at h; cases h; exact .refl _
  | n+1, .var s, r, h => by rw [whnf_var] at h; cases h; exact .refl _
  | n+1, .lam b, r, h => by rw [whnf_lam] at h; cases h; exact .refl _
  | n+1, .app f x, r, h => by
    rcases whnf_app_inv h with ⟨b, hf, hb⟩ | ⟨f', hf, hl, rfl⟩
    · exact Star.trans (RedStar.appL x (whnf_sound n f _ hf))
        (.step (Red.beta b x) (whnf_sound n _ _ hb))
    · exact RedStar.appL x (whnf_sound n f _ hf)

theorem nf_sound : ∀ (n : Nat) (t r : LTerm), nf n t = some r → RedStar t r
  | 0, t, r, h => by rw [nf_zero] at h; cases h
  | n+1, .op s, r, h => by rw [nf_op] at h; cases h; exact .refl _
  | n+1, .src s, r, h => by rw [nf_src] at h; cases h; exact .refl _
  | n+1, .var s, r, h => by rw [nf_var] at h; cases h; exact .refl _
  | n+1, .lam b, r, h => by
    obtain ⟨b', hb, rfl⟩ := nf_lam_inv h
    exact RedStar.lam (nf_sound n b b' hb)
  | n+1, .app f x, r, h => by
    rcases nf_app_inv h with ⟨b, hf, hb⟩ | ⟨f', f'', x', hf, hl, hf', hx, rfl⟩
    · exact Star.trans (RedStar.appL x (whnf_sound n f _ hf))
        (.step (Red.beta b x) (nf_sound n _ _ hb))
    · exact RedStar.app (Star.trans (whnf_sound n f _ hf) (nf_sound n _ _ hf')) (nf_sound n _ _ hx)

/-! ## results are normal -/

/-- weak head normal: not an application of an anonymous function, recursively along the spine -/
def isWhnfB : LTerm → Bool
  | .app f _ => !f.isLam && isWhnfB f
  | _ => true

theorem whnf_isWhnf : ∀ (n : Nat) (t r : LTerm), whnf n t = some r → isWhnfB r = true
  | 0, t, r, h => by rw [whnf_zero] at h; cases h
  | n+1, .op s, r, h => by rw [whnf_op] at h; cases h; rfl
  | n+1, .src s, r, h => by rw [whnf_src] at h; cases h; rfl
  | n+1, .var s, r, h => by rw [whnf_var] at h; cases h; rfl
  | n+1, .lam b, r, h => by rw [whnf_lam] at h; cases h; rfl
  | n+1, .app f x, r, h => by
    rcases whnf_app_inv h with ⟨b, hf, hb⟩ | ⟨f', hf, hl, rfl⟩
    · exact whnf_isWhnf n _ _ hb
    · simp only [isWhnfB, hl, Bool.not_false, Bool.true_and]
      exact whnf_isWhnf n f _ hf

/-- `whnf` does nothing on a weak head normal term -/
theorem whnf_of_isWhnf : ∀ (n : Nat) (t r : LTerm), isWhnfB t = true → whnf n t = some r → r = t
  | 0, t, r, _, h => by rw [whnf_zero] at h; cases h
  | n+1, .op s, r, _, h => by rw [whnf_op] at h; cases h; rfl
  | n+1, .src s, r, _, h => by rw [whnf_src] at h; cases h; rfl
  | n+1, .var s, r, _, h => by rw [whnf_var] at h; cases h; rfl
  | n+1, .lam b, r, _, h => by rw [whnf_lam] at h; cases h; rfl
  | n+1, .app f x, r, hw, h => by
    simp only [isWhnfB, Bool.and_eq_true, Bool.not_eq_true'] at hw
    rcases whnf_app_inv h with ⟨b, hf, hb⟩ | ⟨f', hf, hl, rfl⟩
    · have := whnf_of_isWhnf n f _ hw.2 hf
      rw [← this] at hw; cases hw.1
    · rw [whnf_of_isWhnf n f _ hw.2 hf]

/-- normalising a weak head normal term that is not an anonymous function never yields one -/
theorem nf_not_lam : ∀ (n : Nat) (t r : LTerm), isWhnfB t = true → t.isLam = false →
    nf n t = some r → r.isLam = false
  | 0, t, r, _, _, h => by rw [nf_zero] at h; cases h
  | n+1, .op s, r, _, _, h => by rw [nf_op] at h; cases h; rfl
  | n+1, .src s, r, _, _, h => by rw [nf_src] at h; cases h; rfl
  | n+1, .var s, r, _, _, h => by rw [nf_var] at h; cases h; rfl
  | n+1, .lam b, r, _, hl, h => by cases hl
  | n+1, .app f x, r, hw, _, h => by
    simp only [isWhnfB, Bool.and_eq_true, Bool.not_eq_true'] at hw
    rcases nf_app_inv h with ⟨b, hf, hb⟩ | ⟨f', f'', x', hf, hl, hf', hx, rfl⟩
    · have := whnf_of_isWhnf n f _ hw.2 hf
      rw [← this] at hw; cases hw.1
    · rfl

theorem nf_noRedex : ∀ (n : Nat) (t r : LTerm), nf n t = some r → noRedex r = true
  | 0, t, r, h => by rw [nf_zero] at h; cases h
  | n+1, .op s, r, h => by rw [nf_op] at h; cases h; rfl
  | n+1, .src s, r, h => by rw [nf_src] at h; cases h; rfl
  | n+1, .var s, r, h => by rw [nf_var] at h; cases h; rfl
  | n+1, .lam b, r, h => by
    obtain ⟨b', hb, rfl⟩ := nf_lam_inv h
    exact nf_noRedex n b b' hb
  | n+1, .app f x, r, h => by
    rcases nf_app_inv h with ⟨b, hf, hb⟩ | ⟨f', f'', x', hf, hl, hf', hx, rfl⟩
    · exact nf_noRedex n _ _ hb
    · simp only [noRedex, Bool.and_eq_true, Bool.not_eq_true']
      exact ⟨⟨nf_not_lam n f' f'' (whnf_isWhnf n f f' hf) hl hf', nf_noRedex n _ _ hf'⟩,
        nf_noRedex n _ _ hx⟩

/-! ## reduction preserves "no defined operator" -/

theorem noDefined_shift (defs : List LDef) (d : Int) : ∀ (c : Nat) (t : LTerm),
    noDefined defs (LTerm.shift d c t) = noDefined defs t
  | c, .op s => by simp only [LTerm.shift]
  | c, .src s => by simp only [LTerm.shift]
  | c, .var i => by simp only [LTerm.shift]; split <;> rfl
  | c, .lam b => by simp only [LTerm.shift, noDefined]; exact noDefined_shift defs d (c+1) b
  | c, .app f x => by
    simp only [LTerm.shift, noDefined, noDefined_shift defs d c f, noDefined_shift defs d c x]

theorem noDefined_subst (defs : List LDef) : ∀ (j : Nat) (s t : LTerm),
    noDefined defs s = true → noDefined defs t = true → noDefined defs (LTerm.subst j s t) = true
  | j, s, .op n, _, ht => by simpa only [LTerm.subst] using ht
  | j, s, .src n, _, ht => by simp only [LTerm.subst]; rfl
  | j, s, .var i, hs, ht => by simp only [LTerm.subst]; split <;> assumption
  | j, s, .lam b, hs, ht => by
    simp only [LTerm.subst, noDefined] at ht ⊢
    exact noDefined_subst defs (j+1) _ b (by rw [noDefined_shift]; exact hs) ht
  | j, s, .app f x, hs, ht => by
    simp only [LTerm.subst, noDefined, Bool.and_eq_true] at ht ⊢
    exact ⟨noDefined_subst defs j s f hs ht.1, noDefined_subst defs j s x hs ht.2⟩

theorem noDefined_beta {defs : List LDef} {b x : LTerm} (hb : noDefined defs b = true)
    (hx : noDefined defs x = true) : noDefined defs (LTerm.beta b x) = true := by
  unfold LTerm.beta
  rw [noDefined_shift]
  exact noDefined_subst defs 0 _ b (by rw [noDefined_shift]; exact hx) hb

theorem red_noDefined {defs : List LDef} {t t' : LTerm} (h : Red t t') :
    noDefined defs t = true → noDefined defs t' = true := by
  induction h with
  | beta b x =>
    intro ht; simp only [noDefined, Bool.and_eq_true] at ht; exact noDefined_beta ht.1 ht.2
  | appL x _ ih =>
    intro ht; simp only [noDefined, Bool.and_eq_true] at ht ⊢; exact ⟨ih ht.1, ht.2⟩
  | appR f _ ih =>
    intro ht; simp only [noDefined, Bool.and_eq_true] at ht ⊢; exact ⟨ht.1, ih ht.2⟩
  | lam _ ih => intro ht; simp only [noDefined] at ht ⊢; exact ih ht

theorem redStar_noDefined {defs : List LDef} {t t' : LTerm} (h : RedStar t t') :
    noDefined defs t = true → noDefined defs t' = true := by
  induction h with
  | refl => exact id
  | step hab _ ih => exact fun ht => ih (red_noDefined hab ht)

theorem nf_noDefined {defs : List LDef} {n : Nat} {t r : LTerm} (h : nf n t = some r)
    (ht : noDefined defs t = true) : noDefined defs r = true :=
  redStar_noDefined (nf_sound n t r h) ht

theorem normalB_iff (defs : List LDef) (t : LTerm) :
    normalB defs t = (noRedex t && noDefined defs t) := by
  induction t with
  | op s => simp only [normalB, noRedex, noDefined, Bool.true_and]
  | src k => rfl
  | var i => rfl
  | lam b ih => simp only [normalB, noRedex, noDefined, ih]
  | app f x ihf ihx =>
    simp only [normalB, noRedex, noDefined, ihf, ihx]
    cases f.isLam <;> cases noRedex f <;> cases noDefined defs f <;> cases noRedex x <;>
      cases noDefined defs x <;> rfl

/-! ## normal forms are fixed points -/

theorem whnf_fix : ∀ (n : Nat) (t : LTerm), isWhnfB t = true → height t < n → whnf n t = some t
  | 0, t, _, h => absurd h (Nat.not_lt_zero _)
  | n+1, .op s, _, _ => whnf_op n s
  | n+1, .src s, _, _ => whnf_src n s
  | n+1, .var s, _, _ => whnf_var n s
  | n+1, .lam b, _, _ => whnf_lam n b
  | n+1, .app f x, hw, hh => by
    simp only [isWhnfB, Bool.and_eq_true, Bool.not_eq_true'] at hw
    simp only [height] at hh
    exact whnf_app_other x (whnf_fix n f hw.2 (by omega)) hw.1

theorem noRedex_isWhnf : ∀ (t : LTerm), noRedex t = true → isWhnfB t = true
  | .op _, _ => rfl
  | .src _, _ => rfl
  | .var _, _ => rfl
  | .lam _, _ => rfl
  | .app f x, h => by
    simp only [noRedex, Bool.and_eq_true, Bool.not_eq_true'] at h
    simp only [isWhnfB, Bool.and_eq_true, Bool.not_eq_true']
    exact ⟨h.1.1, noRedex_isWhnf f h.1.2⟩

theorem nf_fix : ∀ (n : Nat) (t : LTerm), noRedex t = true → height t < n → nf n t = some t
  | 0, t, _, h => absurd h (Nat.not_lt_zero _)
  | n+1, .op s, _, _ => nf_op n s
  | n+1, .src s, _, _ => nf_src n s
  | n+1, .var s, _, _ => nf_var n s
  | n+1, .lam b, hr, hh => by
    simp only [noRedex] at hr
    simp only [height] at hh
    rw [nf_lam, nf_fix n b hr (by omega)]; rfl
  | n+1, .app f x, hr, hh => by
    simp only [noRedex, Bool.and_eq_true, Bool.not_eq_true'] at hr
    simp only [height] at hh
    rw [nf_app_other x (whnf_fix n f (noRedex_isWhnf f hr.1.2) (by omega)) hr.1.1,
      nf_fix n f hr.1.2 (by omega), nf_fix n x hr.2 (by omega)]
    rfl

end Tfv.C15P
