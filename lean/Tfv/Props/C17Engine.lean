import Tfv.Model
import Tfv.Spec.History
import Tfv.Proofs.InferNoInternalTop
import Tfv.Proofs.InferNoInternalFuel
import Tfv.Proofs.InferConstrExamples2
import Tfv.Proofs.InferNoInternalExamples
/-!
# C17 (engine part) — the inference engine never fails with an internal assertion

`Tfv/Model/Infer.lean` keeps every Python `assert` of `type.py` as a branch returning
`Err.internal site` (`bind` "variable cannot be unified twice", `above`/`below`
"assert not self.bound", `fulfill` "assert normalized" / "constraint changed kind", `inform`
"assert not v.bound"). The theorems below say that none of these branches is taken, for any
fuel, any language description and any arguments, on every store satisfying

  `FuelOk σ` (`Tfv/Spec/History.lean`): `∀ t, Final σ (followT σ t)` — `follow()` always arrives at
  an unresolved variable or a compound type, i.e. the variable-to-variable bindings contain no cycle.

`FuelOk` holds for the empty store and for every store without bindings, has the executable test
`chainsB`, and is preserved by every function of the engine (the `_keeps` theorems); hence it holds
in every state reachable from the empty store through `instantiate` / `applyT` / `unify` / `fix` /
`addConstraint`. No well-formedness of the store, of the terms, of the schema or of the language is
needed (`OkStoreC`, `WF L` are not used). `Err.outOfFuel` is not an internal error.
`OkStoreC` alone would not suffice: on a store with a cycle of variable bindings (which satisfies
`OkStoreC`) the assertions do fire (`C17e_*_needs_*` at the end); such stores are unreachable.

The induction uses the equivalent form `Chains σ` (`C17e_fuelOk_iff_chains`): every chain of bindings
ends within `nb σ` steps, `nb σ` the number of bound variables — a new binding leaves room for one
more step. Besides `Chains`, the induction carries "no constraint changes its kind" (for
`fulfill`'s second assertion) and, for `minimize`, "the constraint is left with final terms".

Statements only; proofs in `Tfv/Proofs/InferNoInternal{Store,Engine,Top,Fuel}.lean`, namespace
`Tfv.C17E` (one induction on the fuel over the twelve functions of the mutual block, `all_noInternal`).
-/
namespace Tfv.C17
open Tfv Tfv.C03P Tfv.C03C Tfv.C17E

/-! ## the invariant -/

/-- The empty store satisfies the invariant. -/
theorem C17e_fuelOk_empty : FuelOk {} := fuelOk_empty

/-- A store without bindings satisfies the invariant. -/
theorem C17e_fuelOk_of_unbound (σ : Store) (h : ∀ w, (getVar σ w).bound = none) : FuelOk σ :=
  (chains_of_unbound h).fuelOk

/-- The fuel of `followT` suffices (`FuelOk`) exactly when every chain of variable bindings ends within
as many steps as there are bound variables (`Chains`, the form the induction uses). -/
theorem C17e_fuelOk_iff_chains (σ : Store) : FuelOk σ ↔ Chains σ := (chains_iff_fuelOk σ).symm

/-- The executable test `chainsB` is sound. -/
theorem C17e_chainsB_sound (σ : Store) (h : chainsB σ = true) : FuelOk σ := fuelOk_of_chainsB h

/-- non-vacuity: a store with a pending subtype constraint, one with a resolved variable and a fulfilled
constraint, one with a pending elimination constraint -/
example : FuelOk σC ∧ FuelOk σC2 ∧ FuelOk σE ∧ (getVar σC2 0).bound = some (.app 6 []) :=
  ⟨fuelOk_of_chainsB (by decide), fuelOk_of_chainsB (by decide), fuelOk_of_chainsB (by decide), rfl⟩

/-! ## the functions of the mutual block -/

/-- `unify` (any mode, any flags) never fails with an internal error on a store satisfying the invariant. -/
theorem C17e_unify_no_internal (L : Lang) (n : Nat) (σ : Store) (a b : Term) (st sb sw : Bool)
    (h : FuelOk σ) (site : String) : unify L n σ a b st sb sw ≠ .error (.internal site) :=
  ((all_noInternal L n).1 σ a b st sb sw (chains_of_fuelOk h)).not_internal site

/-- …and the store it returns satisfies the invariant again. -/
theorem C17e_unify_keeps (L : Lang) (n : Nat) (σ σ' : Store) (a b : Term) (st sb sw : Bool)
    (h : FuelOk σ) (hr : unify L n σ a b st sb sw = .ok σ') : FuelOk σ' :=
  Chains.fuelOk ((((all_noInternal L n).1 σ a b st sb sw (chains_of_fuelOk h)).step hr).ch)

/-- non-vacuity: the store with the pending constraint `x0 ≤ A`; unifying its resolved successor -/
example : FuelOk σC2 ∧ unify exL 3 σC2 (.var 0) (.app 6 []) true false false = .ok σC2 :=
  ⟨fuelOk_of_chainsB (by decide), by with_unfolding_all rfl⟩

/-- `unifyList` never fails with an internal error. -/
theorem C17e_unifyList_no_internal (L : Lang) (n : Nat) (σ : Store) (vs : List Bool) (xs ys : List Term)
    (st sb sw : Bool) (h : FuelOk σ) (site : String) :
    unifyList L n σ vs xs ys st sb sw ≠ .error (.internal site) :=
  ((all_noInternal L n).2.1 σ vs xs ys st sb sw (chains_of_fuelOk h)).not_internal site

/-- `bind v t` never fails with an internal error when `v` is unresolved and `t` is final (a compound
term or an unresolved variable) — which is what every caller passes: both come out of `followT`. -/
theorem C17e_bind_no_internal (L : Lang) (n : Nat) (σ : Store) (v : Nat) (t : Term) (h : FuelOk σ)
    (hv : (getVar σ v).bound = none) (ht : Final σ t) (site : String) :
    bind L n σ v t ≠ .error (.internal site) :=
  ((all_noInternal L n).2.2.1 σ v t (chains_of_fuelOk h) hv ht).not_internal site

/-- …and the store `bind` returns satisfies the invariant again. -/
theorem C17e_bind_keeps (L : Lang) (n : Nat) (σ σ' : Store) (v : Nat) (t : Term) (h : FuelOk σ)
    (hv : (getVar σ v).bound = none) (ht : Final σ t) (hr : bind L n σ v t = .ok σ') : FuelOk σ' :=
  Chains.fuelOk ((((all_noInternal L n).2.2.1 σ v t (chains_of_fuelOk h) hv ht).step hr).ch)

example : FuelOk σC ∧ (getVar σC 0).bound = none ∧ Final σC (.app 6 []) :=
  ⟨fuelOk_of_chainsB (by decide), rfl, trivial⟩

/-- `above v new` never fails with an internal error when `v` is unresolved (also after the re-entrant
re-check of the constraints, which may resolve `v`: the model re-tests `bound`, the repaired D9). -/
theorem C17e_above_no_internal (L : Lang) (n : Nat) (σ : Store) (v new : Nat) (h : FuelOk σ)
    (hv : (getVar σ v).bound = none) (site : String) : above L n σ v new ≠ .error (.internal site) :=
  ((all_noInternal L n).2.2.2.1 σ v new (chains_of_fuelOk h) hv).not_internal site

/-- the same for `below` -/
theorem C17e_below_no_internal (L : Lang) (n : Nat) (σ : Store) (v new : Nat) (h : FuelOk σ)
    (hv : (getVar σ v).bound = none) (site : String) : below L n σ v new ≠ .error (.internal site) :=
  ((all_noInternal L n).2.2.2.2.1 σ v new (chains_of_fuelOk h) hv).not_internal site

example : FuelOk σC ∧ (getVar σC 0).bound = none := ⟨fuelOk_of_chainsB (by decide), rfl⟩

/-- `fix` never fails with an internal error. -/
theorem C17e_fix_no_internal (L : Lang) (n : Nat) (σ : Store) (t : Term) (pl : Bool) (h : FuelOk σ)
    (site : String) : fix L n σ t pl ≠ .error (.internal site) :=
  ((all_noInternal L n).2.2.2.2.2.1 σ t pl (chains_of_fuelOk h)).not_internal site

/-- …and the store `fix` returns satisfies the invariant again. -/
theorem C17e_fix_keeps (L : Lang) (n : Nat) (σ σ' : Store) (t t' : Term) (pl : Bool) (h : FuelOk σ)
    (hr : fix L n σ t pl = .ok (σ', t')) : FuelOk σ' :=
  Chains.fuelOk ((((all_noInternal L n).2.2.2.2.2.1 σ t pl (chains_of_fuelOk h)).step hr).ch)

example : FuelOk σC2 ∧ fix exL 3 σC2 (.var 0) true = .ok (σC2, .app 6 []) :=
  ⟨fuelOk_of_chainsB (by decide), by with_unfolding_all rfl⟩

/-- `check_constraints` never fails with an internal error. -/
theorem C17e_check_no_internal (L : Lang) (n : Nat) (σ : Store) (v : Nat) (h : FuelOk σ) (site : String) :
    checkConstraints L n σ v ≠ .error (.internal site) :=
  ((all_noInternal L n).2.2.2.2.2.2.2.1 σ v (chains_of_fuelOk h)).not_internal site

/-- …and the store `check_constraints` returns satisfies the invariant again. -/
theorem C17e_check_keeps (L : Lang) (n : Nat) (σ σ' : Store) (v : Nat) (h : FuelOk σ)
    (hr : checkConstraints L n σ v = .ok σ') : FuelOk σ' :=
  Chains.fuelOk ((((all_noInternal L n).2.2.2.2.2.2.2.1 σ v (chains_of_fuelOk h)).step hr).ch)

example : FuelOk σCb ∧ checkConstraints exL 9 σCb 0 = .ok σC2 := ⟨fuelOk_of_chainsB (by decide), exC_check3⟩

/-- `Constraint.fulfill()` (both kinds; any constraint id) never fails with an internal error: after
`minimize` the reference and the alternatives of an elimination constraint are normalized, and no
constraint ever changes its kind. -/
theorem C17e_fulfill_no_internal (L : Lang) (n : Nat) (σ : Store) (c : Nat) (h : FuelOk σ) (site : String) :
    fulfill L n σ c ≠ .error (.internal site) :=
  ((all_noInternal L n).2.2.2.2.2.2.2.2.2.1 σ c (chains_of_fuelOk h)).not_internal site

/-- …and the store `fulfill` returns satisfies the invariant again. -/
theorem C17e_fulfill_keeps (L : Lang) (n : Nat) (σ σ' : Store) (c : Nat) (d : Bool) (h : FuelOk σ)
    (hr : fulfill L n σ c = .ok (σ', d)) : FuelOk σ' :=
  Chains.fuelOk ((((all_noInternal L n).2.2.2.2.2.2.2.2.2.1 σ c (chains_of_fuelOk h)).step hr).ch)

/-- non-vacuity: the pending elimination constraint `x0 ∈ {A}` is minimized, passes the `normalized`
assertion, is narrowed to its single alternative and fulfilled -/
example : FuelOk σE ∧ getConstr σE 0 = .elim (.var 0) [.app 5 []] false ∧ fulfill exL 10 σE 0 = .ok (σE', true) :=
  ⟨fuelOk_of_chainsB (by decide), rfl, exE_fulfill⟩

/-- `minimize` never fails with an internal error, and leaves an elimination constraint with a final
reference and final alternatives (what `fulfill` asserts). -/
theorem C17e_minimize_no_internal (L : Lang) (n : Nat) (σ : Store) (c : Nat) (h : FuelOk σ) (site : String) :
    minimize L n σ c ≠ .error (.internal site) :=
  ((all_noInternal L n).2.2.2.2.2.2.2.2.2.2.1 σ c (chains_of_fuelOk h)).1.not_internal site

/-- After a successful `minimize` an elimination constraint is still an elimination constraint, and its
reference and all its alternatives are final (compound terms or unresolved variables): exactly what
`fulfill` asserts next. -/
theorem C17e_minimize_normalizes (L : Lang) (n : Nat) (σ σ' : Store) (c : Nat) (r0 : Term) (a0 : List Term)
    (f0 : Bool) (h : FuelOk σ) (hc : getConstr σ c = .elim r0 a0 f0) (hr : minimize L n σ c = .ok σ') :
    ∃ ref alts f, getConstr σ' c = .elim ref alts f ∧ Final σ' ref ∧ ∀ t, t ∈ alts → Final σ' t :=
  ((all_noInternal L n).2.2.2.2.2.2.2.2.2.2.1 σ c (chains_of_fuelOk h)).2 σ' hr (by rw [hc]; rfl)

example : FuelOk σE ∧ getConstr σE 0 = .elim (.var 0) [.app 5 []] false ∧ minimize exL 9 σE 0 = .ok σE :=
  ⟨fuelOk_of_chainsB (by decide), rfl, exE_minimize⟩

/-- The whole mutual block in one statement (the induction on the fuel). -/
theorem C17e_engine_block (L : Lang) (n : Nat) :
    UnifyN L n ∧ UnifyListN L n ∧ BindN L n ∧ AboveN L n ∧ BelowN L n ∧ FixN L n ∧ FixListN L n ∧
    CheckN L n ∧ CheckListN L n ∧ FulfillN L n ∧ MinimizeN L n ∧ MinLoopN L n := all_noInternal L n

/-! ## the entry points -/

/-- Registering a constraint (`Constraint.__init__`: `inform()` with its assertion, then the first
`fulfill()`) never fails with an internal error. -/
theorem C17e_addConstraint_no_internal (L : Lang) (fuel : Nat) (σ : Store) (c : Constr) (h : FuelOk σ)
    (site : String) : addConstraint L fuel σ c ≠ .error (.internal site) :=
  (addConstraint_good L fuel c (chains_of_fuelOk h)).not_internal site

/-- …and the store it returns satisfies the invariant again. -/
theorem C17e_addConstraint_keeps (L : Lang) (fuel : Nat) (σ σ' : Store) (c : Constr) (h : FuelOk σ)
    (hr : addConstraint L fuel σ c = .ok σ') : FuelOk σ' :=
  Chains.fuelOk ((addConstraint_good L fuel c (chains_of_fuelOk h)).chains hr)

example : FuelOk ({ vars := [{}], csets := [[]] } : Store) ∧
    addConstraint exL 11 { vars := [{}], csets := [[]] } (.sub (.var 0) (.app 5 []) false false) = .ok σC :=
  ⟨fuelOk_of_chainsB (by decide), exC_add⟩

/-- `TypeSchema.instance()` never fails with an internal error — for every schema (no well-formedness
assumed), on every store satisfying the invariant, in particular on the empty store. -/
theorem C17e_instantiate_no_internal (L : Lang) (fuel : Nat) (σ : Store) (s : Schema) (h : FuelOk σ)
    (site : String) : instantiate L fuel σ s ≠ .error (.internal site) :=
  (instantiate_good L fuel s (chains_of_fuelOk h)).not_internal site

/-- …and the store `instantiate` returns satisfies the invariant again. -/
theorem C17e_instantiate_keeps (L : Lang) (fuel : Nat) (σ σ' : Store) (s : Schema) (f : Term) (h : FuelOk σ)
    (hr : instantiate L fuel σ s = .ok (σ', f)) : FuelOk σ' :=
  Chains.fuelOk ((instantiate_good L fuel s (chains_of_fuelOk h)).chains hr)

/-- non-vacuity: the constrained schema `x0 => x0 ** x0 [x0 ≤ A]` instantiated on the empty store -/
example : FuelOk {} ∧ exSC.constraints = [.sub (.var 0) (.app 5 []) false] ∧
    instantiate exL 11 {} exSC = .ok (σC, .app FUN [.var 0, .var 0]) :=
  ⟨fuelOk_empty, rfl, exC_inst⟩

/-- `Type.apply` never fails with an internal error. -/
theorem C17e_apply_no_internal (L : Lang) (fuel : Nat) (σ : Store) (f x : Term) (fixFlag : Bool) (h : FuelOk σ)
    (site : String) : applyT L fuel σ f x fixFlag ≠ .error (.internal site) :=
  (applyT_good L fuel f x fixFlag (chains_of_fuelOk h)).not_internal site

/-- …and the store `apply` returns satisfies the invariant again. -/
theorem C17e_apply_keeps (L : Lang) (fuel : Nat) (σ σ' : Store) (f x r : Term) (fixFlag : Bool) (h : FuelOk σ)
    (hr : applyT L fuel σ f x fixFlag = .ok (σ', r)) : FuelOk σ' :=
  Chains.fuelOk (((applyT_good L fuel f x fixFlag (chains_of_fuelOk h)).step hr).ch)

/-- non-vacuity: `(x0 ** x0)[x0 ≤ A]` applied to `B` (the constraint is re-checked and ends up fulfilled),
and applied to `Unit`, where the constraint rejects the application with a declared error -/
example : FuelOk σC ∧ applyT exL 11 σC (.app FUN [.var 0, .var 0]) (.app 6 []) true = .ok (σC2, .app 6 []) ∧
    applyT exL 11 σC (.app FUN [.var 0, .var 0]) (.app 0 []) true = .error .constraintViolation :=
  ⟨fuelOk_of_chainsB (by decide), exC_apply, exC_apply_bad⟩

/-- A chain of applications never fails with an internal error. -/
theorem C17e_applyAll_no_internal (L : Lang) (fuel : Nat) (fixFlag : Bool) (σ : Store) (f : Term)
    (xs : List Term) (h : FuelOk σ) (site : String) :
    applyAll L fuel fixFlag σ f xs ≠ .error (.internal site) :=
  (applyAll_good L fuel fixFlag xs σ f (chains_of_fuelOk h)).not_internal site

/-- …and the final store of the chain satisfies the invariant again. -/
theorem C17e_applyAll_keeps (L : Lang) (fuel : Nat) (fixFlag : Bool) (σ σ' : Store) (f r : Term)
    (xs : List Term) (h : FuelOk σ) (hr : applyAll L fuel fixFlag σ f xs = .ok (σ', r)) : FuelOk σ' :=
  Chains.fuelOk (((applyAll_good L fuel fixFlag xs σ f (chains_of_fuelOk h)).step hr).ch)

example : FuelOk σC ∧ applyAll exL 11 true σC (.app FUN [.var 0, .var 0]) [.app 6 []] = .ok (σC2, .app 6 []) :=
  ⟨fuelOk_of_chainsB (by decide), exC_chain⟩

/-- **C17, engine part, in one statement**: instantiating any schema on the empty store and applying the
instance to any arguments in turn never fails with an internal error, whatever the language
description, the fuel, the schema (constraints of both kinds, wildcards) and the arguments are. -/
theorem C17e_apply_chain_no_internal (L : Lang) (fuel : Nat) (fixFlag : Bool) (s : Schema) (xs : List Term)
    (site : String) : useSchema L fuel fixFlag {} s xs ≠ .error (.internal site) :=
  (useSchema_good L fuel fixFlag s xs chains_empty).not_internal site

/-- The same from any store satisfying the invariant (a use of a definition behind a history of earlier
uses), and the final store satisfies the invariant again, so uses can be chained. -/
theorem C17e_apply_chain_no_internal_from (L : Lang) (fuel : Nat) (fixFlag : Bool) (σ : Store) (s : Schema)
    (xs : List Term) (h : FuelOk σ) (site : String) :
    useSchema L fuel fixFlag σ s xs ≠ .error (.internal site) :=
  (useSchema_good L fuel fixFlag s xs (chains_of_fuelOk h)).not_internal site

/-- The final store of a use satisfies the invariant again. -/
theorem C17e_apply_chain_keeps (L : Lang) (fuel : Nat) (fixFlag : Bool) (σ σ' : Store) (s : Schema)
    (xs : List Term) (r : Term) (h : FuelOk σ) (hr : useSchema L fuel fixFlag σ s xs = .ok (σ', r)) :
    FuelOk σ' :=
  Chains.fuelOk ((useSchema_good L fuel fixFlag s xs (chains_of_fuelOk h)).chains hr)

/-- non-vacuity: the constrained schema `x0 => x0 ** x0 [x0 ≤ A]` instantiated on the empty store and
applied to `B`: the result is `B`, the constraint is fulfilled -/
example : useSchema exL 11 true {} exSC [.app 6 []] = .ok (σC2, .app 6 []) := by
  unfold useSchema
  rw [exC_inst]
  exact exC_chain

/-! ## the invariant is needed

`σcyc`: two variables bound to each other (`x0 := x1`, `x1 := x0`); `σcycE`: the same with a pending
elimination constraint `x0 ∈ {A}`. On these stores `followT` returns a bound variable and the
assertions fire. The stores satisfy `OkStoreC` but not `FuelOk`; by the theorems above they cannot be
reached from the empty store. -/

/-- The cyclic stores satisfy the invariant of the soundness proofs, but not `FuelOk`. -/
theorem C17e_cyclic_store_ok : OkStoreC exL σcyc ∧ OkStoreC exL σcycE ∧ ¬ FuelOk σcyc :=
  ⟨σcyc_okc, σcycE_okc, σcyc_not_fuelOk⟩

/-- `bind`'s assertion fires through `unify` (`x0 ≤ x1`) on the cyclic store. -/
theorem C17e_bind_needs_fuelOk :
    unify exL 2 σcyc (.var 0) (.var 1) true false false
      = .error (.internal "bind:variable cannot be unified twice") := σcyc_bind

/-- `above`'s assertion fires through `unify` (`A ≤ x0`) on the cyclic store. -/
theorem C17e_above_needs_fuelOk :
    unify exL 2 σcyc (.app 5 []) (.var 0) true false false
      = .error (.internal "above:assert not self.bound") := σcyc_above

/-- `below`'s assertion fires through `unify` (`x1 ≤ A`) on the cyclic store. -/
theorem C17e_below_needs_fuelOk :
    unify exL 2 σcyc (.var 1) (.app 5 []) true false false
      = .error (.internal "below:assert not self.bound") := σcyc_below

/-- `fulfill`'s assertion fires on the cyclic store: `minimize` cannot normalize the reference. -/
theorem C17e_fulfill_needs_fuelOk :
    fulfill exL 5 σcycE 0 = .error (.internal "fulfill:assert normalized") := σcycE_fulfill

/-- `inform()`'s assertion fires on the cyclic store. -/
theorem C17e_inform_needs_fuelOk :
    addConstraint exL 5 σcyc (.sub (.var 0) (.app 5 []) false false)
      = .error (.internal "inform:assert not v.bound") := σcyc_inform

end Tfv.C17
