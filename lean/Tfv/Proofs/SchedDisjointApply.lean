import Tfv.Proofs.SchedDisjointColor
/-!
# C18 — constraints over disjoint variables, part 4: unification with a concrete type, `fix`, application

On a coloured store (`Col σ`: partitioned into closed regions with one constraint each) terms may mention
variables of several colours. Unifying such a term with a CONCRETE type never binds a variable to a term
mentioning another variable, so every bind stays inside the region of one colour; `fix` binds variables to base
types only. Hence, under every schedule that leaves constant lists alone, the scheduled `unify` (one side
concrete), `fix` and `Type.apply` (concrete argument) are the model's, and the store stays coloured.
-/
namespace Tfv.C18D
open Tfv Tfv.C03P Tfv.C16P Tfv.C03C Tfv.C18P Tfv.C16C Tfv.C18S

/-- all variables of the term are allocated -/
def AllocT (σ : Store) (t : Term) : Prop := TermIn (fun v => v < σ.vars.length) t

def AllocTs (σ : Store) (ts : List Term) : Prop := TermsIn (fun v => v < σ.vars.length) ts

theorem allocT_mono {σ σ' : Store} (h : σ.vars.length ≤ σ'.vars.length) {t : Term} (ht : AllocT σ t) :
    AllocT σ' t := fun v hv => Nat.lt_of_lt_of_le (ht v hv) h

theorem allocTs_mono {σ σ' : Store} (h : σ.vars.length ≤ σ'.vars.length) {ts : List Term}
    (ht : AllocTs σ ts) : AllocTs σ' ts := fun t hm => allocT_mono h (ht t hm)

theorem allocT_of_inR {σ : Store} {S : Nat → Prop} {t : Term} (h : TermInR σ S t) : AllocT σ t :=
  fun v hv => (h v hv).2

theorem allocT_var {σ : Store} {w : Nat} : AllocT σ (.var w) ↔ w < σ.vars.length :=
  termIn_var (S := fun v => v < σ.vars.length)

theorem allocT_app {σ : Store} {o : Nat} {args : List Term} : AllocT σ (.app o args) ↔ AllocTs σ args :=
  termIn_app (S := fun v => v < σ.vars.length)

theorem allocTs_cons {σ : Store} {t : Term} {ts : List Term} :
    AllocTs σ (t :: ts) ↔ (AllocT σ t ∧ AllocTs σ ts) := termsIn_cons (S := fun v => v < σ.vars.length)

theorem allocT_closed {σ : Store} {t : Term} (h : t.closed = true) : AllocT σ t := termIn_closed h

theorem allocT_followT {κ : Coloring} {σ : Store} (h : Colored κ σ) {t : Term} (ht : AllocT σ t) :
    AllocT σ (followT σ t) := followT_in h.closedAll ht

theorem termInR_of_closed {σ : Store} {S : Nat → Prop} {t : Term} (h : t.closed = true) : TermInR σ S t :=
  fun _ hv => absurd hv (closed_no_var t h)

/-- a variable is a term over the region of its colour -/
theorem termInR_var_col (κ : Coloring) {σ : Store} {w : Nat} (hw : AllocT σ (.var w)) :
    TermInR σ (regOf κ σ (κ.col w)).S (.var w) :=
  termInR_var.mpr ⟨Or.inl rfl, allocT_var.mp hw⟩

theorem goodC_seqP_term {σ : Store} {P : Store → Term → Prop}
    {r₁ r₂ : Except Err (Store × Term)} {k₁ k₂ : Store → Term → Except Err Store} :
    GoodCP σ P r₁ r₂ →
    (∀ σ1 x, Col σ1 → σ.vars.length ≤ σ1.vars.length → P σ1 x → GoodC σ1 (k₁ σ1 x) (k₂ σ1 x)) →
    GoodC σ (match r₁ with | .error e => .error e | .ok (σ, x) => k₁ σ x)
      (match r₂ with | .error e => .error e | .ok (σ, x) => k₂ σ x) := by
  intro h hk
  rw [h.1]
  split
  · exact goodC_error _
  · next σ1 x =>
    obtain ⟨c1, l1, p1⟩ := h.2 σ1 x rfl
    have g := hk σ1 x c1 l1 p1
    exact ⟨g.1, fun σ' e => ⟨(g.2 σ' e).1, Nat.le_trans l1 (g.2 σ' e).2⟩⟩

theorem goodCP_seqP_term {α : Type} {σ : Store} {P : Store → Term → Prop} {Q : Store → α → Prop}
    {r₁ r₂ : Except Err (Store × Term)} {k₁ k₂ : Store → Term → Except Err (Store × α)} :
    GoodCP σ P r₁ r₂ →
    (∀ σ1 x, Col σ1 → σ.vars.length ≤ σ1.vars.length → P σ1 x → GoodCP σ1 Q (k₁ σ1 x) (k₂ σ1 x)) →
    GoodCP σ Q (match r₁ with | .error e => .error e | .ok (σ, x) => k₁ σ x)
      (match r₂ with | .error e => .error e | .ok (σ, x) => k₂ σ x) := by
  intro h hk
  rw [h.1]
  split
  · exact goodCP_error _
  · next σ1 x =>
    obtain ⟨c1, l1, p1⟩ := h.2 σ1 x rfl
    have g := hk σ1 x c1 l1 p1
    exact ⟨g.1, fun σ' y e => ⟨(g.2 σ' y e).1, Nat.le_trans l1 (g.2 σ' y e).2.1, (g.2 σ' y e).2.2⟩⟩

/-- the four functions that may be handed terms of several colours, at fuel `n` -/
structure BlockCol (L : Lang) (ord : List Nat → List Nat) (n : Nat) : Prop where
  unify : ∀ (σ : Store) (a b : Term) (st sb sw : Bool), Col σ → AllocT σ a → AllocT σ b →
    (a.closed = true ∨ b.closed = true) →
    GoodC σ (unifyS L ord n σ a b st sb sw) (unify L n σ a b st sb sw)
  unifyList : ∀ (σ : Store) (vs : List Bool) (xs ys : List Term) (st sb sw : Bool), Col σ → AllocTs σ xs →
    AllocTs σ ys → (Term.closedL xs = true ∨ Term.closedL ys = true) →
    GoodC σ (unifyListS L ord n σ vs xs ys st sb sw) (unifyList L n σ vs xs ys st sb sw)
  fix : ∀ (σ : Store) (t : Term) (pl : Bool), Col σ → AllocT σ t →
    GoodCP σ (fun σ' t' => AllocT σ' t') (fixS L ord n σ t pl) (fix L n σ t pl)
  fixList : ∀ (σ : Store) (vs : List Bool) (ps : List Term) (pl : Bool), Col σ → AllocTs σ ps →
    GoodC σ (fixListS L ord n σ vs ps pl) (fixList L n σ vs ps pl)

theorem blockCol_zero (L : Lang) (ord : List Nat → List Nat) : BlockCol L ord 0 where
  unify := by intros; simp only [unifyS, Tfv.unify]; exact goodC_error _
  unifyList := by intros; simp only [unifyListS, Tfv.unifyList]; exact goodC_error _
  fix := by intros; simp only [fixS, Tfv.fix]; exact goodCP_error _
  fixList := by intros; simp only [fixListS, Tfv.fixList]; exact goodC_error _

section step
variable {L : Lang} {ord : List Nat → List Nat} {n : Nat}

/-- one side is a variable, the other a concrete type: everything happens in the region of the variable's colour -/
theorem unify_var_closed (hord : OrdConst ord) (σ : Store) (a b : Term) (st sb sw : Bool) (hcol : Col σ) (w : Nat)
    (hw : w < σ.vars.length)
    (hab : (a = .var w ∧ b.closed = true) ∨ (a.closed = true ∧ b = .var w)) :
    GoodC σ (unifyS L ord (n+1) σ a b st sb sw) (unify L (n+1) σ a b st sb sw) := by
  obtain ⟨κ, h⟩ := hcol
  obtain ⟨c0, o⟩ := h.onlyC (κ.col w)
  have hvar : TermInR σ (regOf κ σ (κ.col w)).S (.var w) := termInR_var.mpr ⟨Or.inl rfl, hw⟩
  rcases hab with ⟨ea, hb⟩ | ⟨ha, eb⟩
  · subst ea
    exact goodC_of_goodE h ((blockOne hord c0 (n+1)).unify _ σ _ b st sb sw (h.closed _) o hvar
      (termInR_of_closed hb))
  · subst eb
    exact goodC_of_goodE h ((blockOne hord c0 (n+1)).unify _ σ a _ st sb sw (h.closed _) o
      (termInR_of_closed ha) hvar)

theorem unifyC_succ (hord : OrdConst ord) (ih : BlockCol L ord n) (σ : Store) (a b : Term) (st sb sw : Bool) (hcol : Col σ) (ha : AllocT σ a)
    (hb : AllocT σ b) (hcl : a.closed = true ∨ b.closed = true) :
    GoodC σ (unifyS L ord (n+1) σ a b st sb sw) (unify L (n+1) σ a b st sb sw) := by
  cases a with
  | var w =>
    refine unify_var_closed (n := n) hord σ _ b st sb sw hcol w (allocT_var.mp ha) (Or.inl ⟨rfl, ?_⟩)
    rcases hcl with h | h
    · rw [closed_var] at h; cases h
    · exact h
  | app ao as =>
    cases b with
    | var w =>
      refine unify_var_closed (n := n) hord σ _ _ st sb sw hcol w (allocT_var.mp hb) (Or.inr ⟨?_, rfl⟩)
      rcases hcl with h | h
      · exact h
      · rw [closed_var] at h; cases h
    | app bo bs =>
      have hl : σ.vars.length ≤ σ.vars.length := Nat.le_refl _
      simp only [unifyS, unify, followT_app]
      refine goodC_ite (fun _ => goodC_ok hcol hl) (fun _ => goodC_ite (fun _ => ?_) (fun _ =>
        goodC_ite (fun _ => ?_) (fun _ => goodC_error _)))
      · exact goodC_ite (fun _ => goodC_ok hcol hl) (fun _ => goodC_ite (fun _ => goodC_error _)
          (fun _ => goodC_ite (fun _ => goodC_error _) (fun _ => goodC_ok hcol hl)))
      · refine ih.unifyList σ _ as bs st sb sw hcol (allocT_app.mp ha) (allocT_app.mp hb) ?_
        rw [closed_app, closed_app] at hcl
        exact hcl

theorem unifyListC_succ (ih : BlockCol L ord n) (σ : Store) (vs : List Bool) (xs ys : List Term) (st sb sw : Bool) (hcol : Col σ)
    (hxs : AllocTs σ xs) (hys : AllocTs σ ys) (hcl : Term.closedL xs = true ∨ Term.closedL ys = true) :
    GoodC σ (unifyListS L ord (n+1) σ vs xs ys st sb sw) (unifyList L (n+1) σ vs xs ys st sb sw) := by
  cases vs <;> cases xs <;> cases ys <;> simp only [unifyListS, unifyList] <;>
    try exact goodC_ok hcol (Nat.le_refl _)
  next v vs x xs y ys =>
  obtain ⟨hx, hxs'⟩ := allocTs_cons.mp hxs
  obtain ⟨hy, hys'⟩ := allocTs_cons.mp hys
  simp only [closedL_cons, Bool.and_eq_true] at hcl
  have hcl1 : x.closed = true ∨ y.closed = true := hcl.imp (·.1) (·.1)
  have hcl2 : Term.closedL xs = true ∨ Term.closedL ys = true := hcl.imp (·.2) (·.2)
  refine goodC_seq ?_ (fun σ1 c1 l1 =>
    ih.unifyList σ1 vs xs ys st sb sw c1 (allocTs_mono l1 hxs') (allocTs_mono l1 hys') hcl2)
  cases v with
  | false => simp only [Bool.false_eq_true, if_false]; exact ih.unify σ y x st sb sw hcol hy hx hcl1.symm
  | true => simp only [if_true]; exact ih.unify σ x y st sb sw hcol hx hy hcl1

theorem fixC_succ (hord : OrdConst ord) (ih : BlockCol L ord n) (σ : Store) (t : Term) (pl : Bool) (hcol : Col σ) (ht : AllocT σ t) :
    GoodCP σ (fun σ' t' => AllocT σ' t') (fixS L ord (n+1) σ t pl) (fix L (n+1) σ t pl) := by
  cases t with
  | var w =>
    obtain ⟨κ, h⟩ := hcol
    obtain ⟨c0, o⟩ := h.onlyC (κ.col w)
    exact goodCP_of_goodEP h ((blockOne hord c0 (n+1)).fix _ σ _ pl (h.closed _) o (termInR_var_col κ ht))
      (fun _ _ p => allocT_of_inR p)
  | app o args =>
    simp only [fixS, fix, followT_app]
    exact goodCP_seq (ih.fixList σ _ args pl hcol (allocT_app.mp ht))
      (fun σ1 c1 l1 => goodCP_ok c1 (Nat.le_refl _) (allocT_mono l1 ht))

theorem fixListC_succ (ih : BlockCol L ord n) (σ : Store) (vs : List Bool) (ps : List Term) (pl : Bool) (hcol : Col σ)
    (hps : AllocTs σ ps) : GoodC σ (fixListS L ord (n+1) σ vs ps pl) (fixList L (n+1) σ vs ps pl) := by
  cases vs <;> cases ps <;> simp only [fixListS, fixList] <;> try exact goodC_ok hcol (Nat.le_refl _)
  next v vs p ps =>
  obtain ⟨hp, hps'⟩ := allocTs_cons.mp hps
  exact goodC_seqP_term (ih.fix σ p _ hcol hp)
    (fun σ1 _ c1 l1 _ => ih.fixList σ1 vs ps pl c1 (allocTs_mono l1 hps'))

end step

theorem blockCol {L : Lang} {ord : List Nat → List Nat} (hord : OrdConst ord) : ∀ n, BlockCol L ord n
  | 0 => blockCol_zero L ord
  | n+1 =>
    have ih := blockCol hord n
    ⟨unifyC_succ hord ih, unifyListC_succ ih, fixC_succ hord ih, fixListC_succ ih⟩

/-! ## `Type.apply` with a concrete argument -/

theorem applyPreS_col {L : Lang} {ord : List Nat → List Nat} (hord : OrdConst ord) (fuel : Nat) (σ : Store)
    (f0 : Term) (hcol : Col σ) (hf : AllocT σ f0) :
    GoodCP σ (fun σ' f1 => AllocT σ' f1) (applyPreS L ord fuel σ f0) (applyPre L fuel σ f0) := by
  cases f0 with
  | app o args =>
    simp only [applyPreS, applyPre]
    exact goodCP_ok hcol (Nat.le_refl _) hf
  | var fv =>
    obtain ⟨κ, h⟩ := hcol
    obtain ⟨c0, o⟩ := h.onlyC (κ.col fv)
    have hc := h.closed (κ.col fv)
    have hfv := termInR_var_col κ hf
    simp only [applyPreS, applyPre]
    have fA := frC_newVar hc false
    have fB := frC_newVar fA.closed false
    have fAB := fA.trans fB
    have oB := onlyC_newVar (onlyC_newVar o false) false
    have hterm : TermInR (newVar (newVar σ).1).1 (regOf κ σ (κ.col fv)).S
        (.app FUN [.var (newVar σ).2, .var (newVar (newVar σ).1).2]) := by
      refine termInR_app.mpr (termsInR_cons.mpr ⟨termInR_var.mpr ⟨hc.sfr _ ?_, ?_⟩,
        termsInR_cons.mpr ⟨termInR_var.mpr ⟨hc.sfr _ ?_, ?_⟩, termsInR_nil⟩⟩)
      · rw [snd_newVar]; exact Nat.le_refl _
      · simp only [snd_newVar, length_newVar]; omega
      · simp only [snd_newVar, length_newVar]; omega
      · simp only [snd_newVar, length_newVar]; omega
    have g := goodE_from fAB ((blockOne (L := L) hord c0 fuel).bind _ _ fv _ fB.closed oB
      (fAB.ins (termInR_var.mp hfv)) hterm)
    exact goodCP_of_goodEP h (goodEP_seq g (fun σ3 f3 o3 =>
      goodEP_ok (P := fun σ' f1 => TermInR σ' (regOf κ σ (κ.col fv)).S f1) (FrC.refl f3.closed) o3
        (followT_inR f3.closed (f3.tin hfv)))) (fun _ _ p => allocT_of_inR p)

theorem applyPostS_col {L : Lang} {ord : List Nat → List Nat} (hord : OrdConst ord) (fuel : Nat) (σ : Store)
    (x0 f1 : Term) (fixFlag : Bool) (hcol : Col σ) (hx : x0.closed = true) (hf : AllocT σ f1) :
    GoodCP σ (fun σ' r => AllocT σ' r) (applyPostS L ord fuel σ x0 f1 fixFlag)
      (applyPost L fuel σ x0 f1 fixFlag) := by
  have hl0 : σ.vars.length ≤ σ.vars.length := Nat.le_refl _
  have top : ∀ o : Nat, GoodCP σ (fun σ' r => AllocT σ' r)
      (if (o == TOP) = true then .ok (σ, .app TOP []) else .error .functionApplication)
      (if (o == TOP) = true then .ok (σ, .app TOP []) else .error .functionApplication) := fun o =>
    goodCP_ite (fun _ => goodCP_ok hcol hl0 (allocT_closed (by decide))) (fun _ => goodCP_error _)
  cases f1 with
  | var v => simp only [applyPostS, applyPost]; exact goodCP_error _
  | app o args =>
    match args, hf with
    | [], _ => simp only [applyPostS, applyPost]; exact top o
    | [_], _ => simp only [applyPostS, applyPost]; exact top o
    | _ :: _ :: _ :: _, _ => simp only [applyPostS, applyPost]; exact top o
    | [l, r], hf =>
      obtain ⟨hl, hr⟩ := allocTs_cons.mp (allocT_app.mp hf)
      obtain ⟨hr, _⟩ := allocTs_cons.mp hr
      simp only [applyPostS, applyPost]
      refine goodCP_ite (fun _ => ?_) (fun _ => top o)
      refine goodCP_seq ((blockCol hord fuel).unify σ x0 l true false false hcol (allocT_closed hx) hl
        (Or.inl hx)) (fun σ1 c1 l1 => ?_)
      exact goodCP_ite (fun _ => (blockCol hord fuel).fix σ1 r true c1 (allocT_mono l1 hr))
        (fun _ => goodCP_ok c1 (Nat.le_refl _) (allocT_mono l1 hr))

/-- `Type.apply` of a type over a coloured store to a CONCRETE argument type: the schedule does not matter -/
theorem applyTS_col {L : Lang} {ord : List Nat → List Nat} (hord : OrdConst ord) (fuel : Nat) (σ : Store)
    (f x : Term) (fixFlag : Bool) (hcol : Col σ) (hf : AllocT σ f) (hx : x.closed = true) :
    GoodCP σ (fun σ' r => AllocT σ' r) (applyTS L ord fuel σ f x fixFlag) (applyT L fuel σ f x fixFlag) := by
  rw [applyTS_eq, applyT_eq]
  have hx0 : (followT σ x).closed = true := by
    obtain ⟨o, args, e, _⟩ := closed_is_app hx
    rw [e, followT_app, ← e]; exact hx
  obtain ⟨κ, h⟩ := hcol
  exact goodCP_seqP_term (applyPreS_col hord fuel σ _ ⟨κ, h⟩ (allocT_followT h hf))
    (fun σ1 f1 c1 _ hf1 => applyPostS_col hord fuel σ1 _ f1 fixFlag c1 hx0 hf1)

end Tfv.C18D
