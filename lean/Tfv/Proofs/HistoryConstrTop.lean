import Tfv.Proofs.HistoryConstrMain
import Tfv.Proofs.HistoryUse
/-!
# History independence in the shift form WITH constraints (C16), part 8: the final statements

* `appendC` extends `append`; `σ₀.appendC {} = σ₀`;
* a scoped store placed behind ANY history has its part behind the history closed (`behind_of_scopedC`), so the
  engine theorems apply with no hypothesis on the history;
* placing behind a history is injective, hence the main statement holds IFF the fresh run does not depend on the
  fuel offsets (`useSchema_shift_iff`).
-/
namespace Tfv.C16H
open Tfv Tfv.C03P Tfv.C16P Tfv.C03C Tfv.C16C Tfv.C18P

/-! ## 1. `appendC` and `append` -/

theorem appendC_empty (σ₀ : Store) : σ₀.appendC {} = σ₀ := by
  unfold Store.appendC
  simp

theorem shiftIds_zero_all_nil : ∀ (l : List (List Nat)), (∀ x, x ∈ l → x = []) → ∀ m, l.map (shiftIds m) = l
  | [], _, _ => rfl
  | x :: xs, h, m => by
    rw [List.map_cons, shiftIds_zero_all_nil xs (fun y hy => h y (List.mem_cons_of_mem _ hy)) m,
      h x List.mem_cons_self]
    rfl

/-- `appendC` extends `append`: on a store without constraints they coincide -/
theorem appendC_eq_append (σ₀ σ : Store) (nc : NoConstraints σ) (hk : σ.constrs = []) :
    σ₀.appendC σ = σ₀.append σ := by
  unfold Store.appendC Store.append
  rw [hk, shiftIds_zero_all_nil σ.csets (nc_all_nil nc)]
  simp

theorem afterHistoryC_eq_afterHistory (σ₀ : Store) (r : Except Err (Store × Term))
    (h : ∀ σ t, r = .ok (σ, t) → NoConstraints σ ∧ σ.constrs = []) :
    afterHistoryC σ₀ r = afterHistory σ₀ r := by
  cases r with
  | error e => rfl
  | ok p =>
    obtain ⟨σ, t⟩ := p
    obtain ⟨h1, h2⟩ := h σ t rfl
    simp only [afterHistoryC, afterHistory, appendC_eq_append σ₀ σ h1 h2]

/-- `σ.constrs = []` alone is not enough: a dangling constraint id in a constraint set is shifted by `appendC` -/
theorem appendC_ne_append_dangling :
    (({ constrs := [.sub (.var 0) (.var 0) false true] } : Store).appendC { csets := [[0]] }) ≠
      (({ constrs := [.sub (.var 0) (.var 0) false true] } : Store).append { csets := [[0]] }) := by
  intro h
  have : (({ constrs := [.sub (.var 0) (.var 0) false true] } : Store).appendC { csets := [[0]] }).csets =
      (({ constrs := [.sub (.var 0) (.var 0) false true] } : Store).append { csets := [[0]] }).csets := by rw [h]
  simp [Store.appendC, Store.append, shiftIds] at this

/-! ## 2. a scoped store behind any history -/

theorem behind_empty (σ₀ : Store) : Behind σ₀ {} := by
  show ClosedC (σ₀.appendC {}) (beyond σ₀)
  rw [appendC_empty]
  exact closedC_fresh σ₀

theorem behind_of_scopedC {σ₀ σ : Store} (hs : ScopedC σ) : Behind σ₀ σ where
  bnd := fun w b hw hb => by
    have hw : σ₀.vars.length ≤ w := hw
    obtain ⟨w', rfl⟩ : ∃ w', w = w' + σ₀.vars.length := ⟨w - σ₀.vars.length, by omega⟩
    rw [(getVar_appendC_core σ₀ σ w').1] at hb
    cases hb' : (getVar σ w').bound with
    | none => rw [hb'] at hb; cases hb
    | some b' =>
      rw [hb'] at hb
      simp only [Option.map_some] at hb
      injection hb with hb; subst hb
      apply termInB_iff.mpr
      intro v hv
      exact (hs.bnd w' b' trivial hb' v hv).2
  cs := fun w hw hS => by
    have hS : σ₀.vars.length ≤ w := hS
    obtain ⟨w', rfl⟩ : ∃ w', w = w' + σ₀.vars.length := ⟨w - σ₀.vars.length, by omega⟩
    rw [vlen_appendC] at hw
    rw [getVar_appendC_ge (by omega), shiftI_cset]
    exact Nat.le_add_left _ _
  mem := fun k c hk hm => by
    have hk : σ₀.csets.length ≤ k := hk
    obtain ⟨k', rfl⟩ : ∃ k', k = k' + σ₀.csets.length := ⟨k - σ₀.csets.length, by omega⟩
    rw [getCset_appendC] at hm
    obtain ⟨c', hc', rfl⟩ := mem_shiftIds.mp hm
    have := (hs.mem k' c' trivial hc').2
    exact ⟨Nat.le_add_left _ _, by rw [clen_appendC]; omega⟩
  ctm := fun c u hlt hC hu => by
    have hC : σ₀.constrs.length ≤ c := hC
    obtain ⟨c', rfl⟩ : ∃ c', c = c' + σ₀.constrs.length := ⟨c - σ₀.constrs.length, by omega⟩
    rw [clen_appendC] at hlt
    have hlt' : c' < σ.constrs.length := by omega
    rw [getConstr_appendC hlt', constrTerms_shift] at hu
    obtain ⟨u', hu', rfl⟩ := mem_shiftL.mp hu
    apply termInB_iff.mpr
    intro v hv
    exact (hs.ctm c' u' hlt' trivial hu' v hv).2
  sfr := fun v hv => by
    rw [vlen_appendC] at hv
    show σ₀.vars.length ≤ v
    omega
  kfr := fun k hk => by
    rw [klen_appendC] at hk
    show σ₀.csets.length ≤ k
    omega
  cfr := fun c hc => by
    rw [clen_appendC] at hc
    show σ₀.constrs.length ≤ c
    omega

theorem scopedC_empty : ScopedC {} where
  bnd := fun w b _ hb => by rw [getVar_oor (by simp)] at hb; cases hb
  cs := fun _ _ _ => trivial
  mem := fun k c _ hm => by rw [getCset_oor (by simp)] at hm; cases hm
  ctm := fun c u hlt _ _ => by simp at hlt
  sfr := fun _ _ => trivial
  kfr := fun _ _ => trivial
  cfr := fun _ _ => trivial

/-- the invariant `OkStoreC` of the constrained engine implies scoping -/
theorem scopedC_of_okStoreC {L : Lang} {σ : Store} (okc : OkStoreC L σ) : ScopedC σ where
  bnd := fun w b _ hb _ hv => ⟨trivial, varIn_okTerm b (okc.ok.bound w b hb) hv⟩
  cs := fun _ _ _ => trivial
  mem := fun _ _ _ hm => ⟨trivial, okc.crange.get hm⟩
  ctm := fun _ u hlt _ hu _ hv => ⟨trivial, varIn_okTermL _ (okc.cget hlt) u hu hv⟩
  sfr := fun _ _ => trivial
  kfr := fun _ _ => trivial
  cfr := fun _ _ => trivial

theorem termScoped_of_okTerm {L : Lang} {σ : Store} {t : Term} (h : okTerm L σ t = true) : TermScoped σ t :=
  fun _ hv => varIn_okTerm t h hv

/-! ## 3. one whole use behind ANY history -/

theorem shiftL_of_closed {k : Nat} {xs : List Term} (h : Term.closedL xs = true) : Term.shiftL k xs = xs :=
  shiftL_closed k xs h

theorem termScoped_closed {σ : Store} {xs : List Term} (h : Term.closedL xs = true) :
    ∀ x, x ∈ xs → TermScoped σ x :=
  fun x hx _ hv => absurd hv (closedL_no_var xs h x hx)

/-- one use of a schema WITH constraints, on concrete arguments, behind ANY history `σ₀`: the outcome of the use from
the empty store with the fuels computed as behind `σ₀.vars.length` more variables and `σ₀.constrs.length` more
constraints, placed behind the history -/
theorem useSchema_shift {L : Lang} {n : Nat} {fixFlag : Bool} (σ₀ : Store) {s : Schema} {xs : List Term}
    (hcs : ∀ c, c ∈ s.constraints → okCAstN L (s.nvars + s.nwild) c = true)
    (hbody : okTermN L (s.nvars + s.nwild) s.body = true) (hxs : Term.closedL xs = true) :
    useSchema L n fixFlag σ₀ s xs =
      afterHistoryC σ₀ (useSchemaE L σ₀.vars.length σ₀.constrs.length n fixFlag {} s xs) := by
  have h := useSchema_historyC (L := L) (n := n) (fixFlag := fixFlag) (behind_empty σ₀) hcs hbody
    (termScoped_closed (σ := {}) hxs)
  rw [appendC_empty, shiftL_of_closed hxs] at h
  exact h

theorem instantiate_shift {L : Lang} {n : Nat} (σ₀ : Store) {s : Schema}
    (hcs : ∀ c, c ∈ s.constraints → okCAstN L (s.nvars + s.nwild) c = true)
    (hbody : okTermN L (s.nvars + s.nwild) s.body = true) :
    instantiate L n σ₀ s = afterHistoryC σ₀ (instantiateE L σ₀.vars.length σ₀.constrs.length n {} s) := by
  have h := (instantiate_historyC (L := L) (n := n) (behind_empty σ₀) hcs hbody).1
  rw [appendC_empty] at h
  exact h

/-! ## 4. placing behind a history is injective -/

mutual
theorem shift_inj (k : Nat) : ∀ (a b : Term), a.shift k = b.shift k → a = b
  | .var v, .var w, h => by
    rw [shift_var, shift_var] at h
    injection h with h
    have : v = w := by omega
    rw [this]
  | .var v, .app o args, h => by rw [shift_var, shift_app] at h; cases h
  | .app o args, .var w, h => by rw [shift_var, shift_app] at h; cases h
  | .app o args, .app p brgs, h => by
    rw [shift_app, shift_app] at h
    injection h with h1 h2
    rw [h1, shiftL_inj k args brgs h2]
theorem shiftL_inj (k : Nat) : ∀ (as bs : List Term), Term.shiftL k as = Term.shiftL k bs → as = bs
  | [], [], _ => rfl
  | [], _ :: _, h => by rw [shiftL_nil, shiftL_cons] at h; cases h
  | _ :: _, [], h => by rw [shiftL_nil, shiftL_cons] at h; cases h
  | a :: as, b :: bs, h => by
    rw [shiftL_cons, shiftL_cons] at h
    injection h with h1 h2
    rw [shift_inj k a b h1, shiftL_inj k as bs h2]
end

theorem map_inj {α β : Type} {f : α → β} (hf : ∀ a b, f a = f b → a = b) :
    ∀ (l l' : List α), l.map f = l'.map f → l = l'
  | [], [], _ => rfl
  | [], _ :: _, h => by cases h
  | _ :: _, [], h => by cases h
  | a :: as, b :: bs, h => by
    rw [List.map_cons, List.map_cons] at h
    injection h with h1 h2
    rw [hf a b h1, map_inj hf as bs h2]

theorem shiftI_inj (k j : Nat) (a b : VarInfo) (h : a.shift k j = b.shift k j) : a = b := by
  have h1 : (a.shift k j).bound = (b.shift k j).bound := by rw [h]
  have h2 : (a.shift k j).lower = (b.shift k j).lower := by rw [h]
  have h3 : (a.shift k j).upper = (b.shift k j).upper := by rw [h]
  have h4 : (a.shift k j).wildcard = (b.shift k j).wildcard := by rw [h]
  have h5 : (a.shift k j).cset = (b.shift k j).cset := by rw [h]
  simp only [shiftI_bound, shiftI_lower, shiftI_upper, shiftI_wildcard, shiftI_cset] at h1 h2 h3 h4 h5
  cases a with
  | mk ab al au aw ac =>
    cases b with
    | mk bb bl bu bw bc =>
      simp only at h1 h2 h3 h4 h5
      have e1 : ab = bb := by
        cases ab with
        | none =>
          cases bb with
          | none => rfl
          | some y => cases h1
        | some x =>
          cases bb with
          | none => cases h1
          | some y =>
            simp only [Option.map_some] at h1
            injection h1 with h1
            rw [shift_inj k x y h1]
      have e5 : ac = bc := by omega
      rw [e1, h2, h3, h4, e5]

theorem shiftIds_inj (m : Nat) (a b : List Nat) (h : shiftIds m a = shiftIds m b) : a = b :=
  map_inj (fun x y (e : x + m = y + m) => by omega) a b h

theorem shiftC_inj (k : Nat) (a b : Constr) (h : a.shift k = b.shift k) : a = b := by
  cases a with
  | sub r t s f =>
    cases b with
    | sub r' t' s' f' =>
      simp only [Constr.shift] at h
      injection h with h1 h2 h3 h4
      rw [shift_inj k r r' h1, shift_inj k t t' h2, h3, h4]
    | elim r' a' f' => simp only [Constr.shift] at h; cases h
  | elim r a f =>
    cases b with
    | sub r' t' s' f' => simp only [Constr.shift] at h; cases h
    | elim r' a' f' =>
      simp only [Constr.shift] at h
      injection h with h1 h2 h3
      rw [shift_inj k r r' h1, shiftL_inj k a a' h2, h3]

theorem appendC_inj (σ₀ σ σ' : Store) (h : σ₀.appendC σ = σ₀.appendC σ') : σ = σ' := by
  have h1 : (σ₀.appendC σ).vars = (σ₀.appendC σ').vars := by rw [h]
  have h2 : (σ₀.appendC σ).csets = (σ₀.appendC σ').csets := by rw [h]
  have h3 : (σ₀.appendC σ).constrs = (σ₀.appendC σ').constrs := by rw [h]
  unfold Store.appendC at h1 h2 h3
  simp only at h1 h2 h3
  have e1 := map_inj (shiftI_inj _ _) _ _ (List.append_cancel_left h1)
  have e2 := map_inj (shiftIds_inj _) _ _ (List.append_cancel_left h2)
  have e3 := map_inj (shiftC_inj _) _ _ (List.append_cancel_left h3)
  cases σ; cases σ'
  simp only at e1 e2 e3
  rw [e1, e2, e3]

theorem afterHistoryC_inj (σ₀ : Store) (r r' : Except Err (Store × Term))
    (h : afterHistoryC σ₀ r = afterHistoryC σ₀ r') : r = r' := by
  cases r with
  | error e =>
    cases r' with
    | error e' => simp only [shP_error] at h; injection h with h; rw [h]
    | ok p => obtain ⟨σ', t'⟩ := p; simp only [shP_error, shP_ok] at h; cases h
  | ok p =>
    obtain ⟨σ, t⟩ := p
    cases r' with
    | error e' => simp only [shP_error, shP_ok] at h; cases h
    | ok p' =>
      obtain ⟨σ', t'⟩ := p'
      simp only [shP_ok] at h
      injection h with h
      injection h with h1 h2
      rw [appendC_inj σ₀ σ σ' h1, shift_inj _ t t' h2]

/-- THE MAIN STATEMENT holds for a given history exactly when the fresh run does not depend on the fuel offsets the
history induces -/
theorem useSchema_shift_iff {L : Lang} {n : Nat} {fixFlag : Bool} (σ₀ : Store) {s : Schema} {xs : List Term}
    (hcs : ∀ c, c ∈ s.constraints → okCAstN L (s.nvars + s.nwild) c = true)
    (hbody : okTermN L (s.nvars + s.nwild) s.body = true) (hxs : Term.closedL xs = true) :
    useSchema L n fixFlag σ₀ s xs = afterHistoryC σ₀ (useSchema L n fixFlag {} s xs) ↔
      useSchemaE L σ₀.vars.length σ₀.constrs.length n fixFlag {} s xs = useSchema L n fixFlag {} s xs := by
  rw [useSchema_shift σ₀ hcs hbody hxs]
  constructor
  · exact afterHistoryC_inj σ₀ _ _
  · intro h; rw [h]

/-- the main statement transfers between histories with the same numbers of variables and of constraints -/
theorem useSchema_shift_transfer {L : Lang} {n : Nat} {fixFlag : Bool} (σ₀ σ₀' : Store) {s : Schema}
    {xs : List Term} (hv : σ₀'.vars.length = σ₀.vars.length) (hk : σ₀'.constrs.length = σ₀.constrs.length)
    (hcs : ∀ c, c ∈ s.constraints → okCAstN L (s.nvars + s.nwild) c = true)
    (hbody : okTermN L (s.nvars + s.nwild) s.body = true) (hxs : Term.closedL xs = true)
    (h : useSchema L n fixFlag σ₀' s xs = afterHistoryC σ₀' (useSchema L n fixFlag {} s xs)) :
    useSchema L n fixFlag σ₀ s xs = afterHistoryC σ₀ (useSchema L n fixFlag {} s xs) := by
  have h1 := (useSchema_shift_iff σ₀' hcs hbody hxs).mp h
  rw [hv, hk] at h1
  exact (useSchema_shift_iff σ₀ hcs hbody hxs).mpr h1

theorem vlen_blankHistory (k m : Nat) : (blankHistory k m).vars.length = k := by
  unfold blankHistory; simp

theorem clen_blankHistory (k m : Nat) : (blankHistory k m).constrs.length = m := by
  unfold blankHistory; simp

/-- the history enters a use only through its numbers of variables and of constraints: a statement about the model
alone -/
theorem useSchema_sizes_only {L : Lang} {n : Nat} {fixFlag : Bool} {s : Schema} {xs : List Term}
    (hcs : ∀ c, c ∈ s.constraints → okCAstN L (s.nvars + s.nwild) c = true)
    (hbody : okTermN L (s.nvars + s.nwild) s.body = true) (hxs : Term.closedL xs = true) :
    ∃ F : Nat → Nat → Except Err (Store × Term), F 0 0 = useSchema L n fixFlag {} s xs ∧
      ∀ σ₀ : Store, useSchema L n fixFlag σ₀ s xs = afterHistoryC σ₀ (F σ₀.vars.length σ₀.constrs.length) :=
  ⟨fun k m => useSchemaE L k m n fixFlag {} s xs, useSchemaE_zero L n fixFlag {} s xs,
   fun σ₀ => useSchema_shift σ₀ hcs hbody hxs⟩

/-! ## 5. constraint-free schemas: the fresh run does not depend on the fuel offsets -/

theorem nc_blankHistory (k m : Nat) : NoConstraints (blankHistory k m) := by
  intro j
  unfold getCset blankHistory
  rfl

/-- the store a constraint-free use builds from the empty store has no constraints -/
theorem useSchema_fresh_noConstraints {L : Lang} {n : Nat} {fixFlag : Bool} {s : Schema} {xs : List Term}
    (hc : s.constraints = []) (hbody : okTermN L (s.nvars + s.nwild) s.body = true)
    (hxs : Term.closedL xs = true) :
    ∀ σ t, useSchema L n fixFlag {} s xs = .ok (σ, t) → NoConstraints σ ∧ σ.constrs = [] := by
  intro σ t e
  have h := useSchema_sim (sim_empty nc_empty) scoped_empty L n fixFlag s xs hc hbody hxs
  rw [e] at h
  obtain ⟨τ, e2, sm⟩ := h
  injection e2 with e2
  injection e2 with e3 _
  subst e3
  exact ⟨sm.ncσ, sm.constrs⟩

/-- for a schema WITHOUT constraints the use from the empty store gives the same outcome for all fuel offsets: the
hypothesis of the `_partial` theorem always holds, and the main theorem of the constraint-free engine is the special
case (derived here from that theorem, `useSchema_history_empty`, and the shift theorem) -/
theorem useSchemaE_stable_constraint_free {L : Lang} {n : Nat} {fixFlag : Bool} {s : Schema} {xs : List Term}
    (hc : s.constraints = []) (hbody : okTermN L (s.nvars + s.nwild) s.body = true)
    (hxs : Term.closedL xs = true) (k m : Nat) :
    useSchemaE L k m n fixFlag {} s xs = useSchema L n fixFlag {} s xs := by
  have hcs : ∀ c, c ∈ s.constraints → okCAstN L (s.nvars + s.nwild) c = true := by
    intro c hm; rw [hc] at hm; cases hm
  have h1 := useSchema_shift (L := L) (n := n) (fixFlag := fixFlag) (blankHistory k m) hcs hbody hxs
  rw [vlen_blankHistory, clen_blankHistory] at h1
  have h2 := useSchema_history_empty (L := L) (n := n) (fixFlag := fixFlag) (nc_blankHistory k m) hc hbody hxs
  rw [← afterHistoryC_eq_afterHistory _ _ (useSchema_fresh_noConstraints hc hbody hxs)] at h2
  exact afterHistoryC_inj (blankHistory k m) _ _ (h1.symm.trans h2)

/-! ## 6. the engine block in terms of `Except.map` -/

theorem shR_eq_map (σ₀ : Store) (r : Except Err Store) : shR σ₀ r = r.map (σ₀.appendC ·) := by
  cases r <;> rfl

theorem shB_eq_map (σ₀ : Store) (r : Except Err (Store × Bool)) :
    shB σ₀ r = r.map (fun p => (σ₀.appendC p.1, p.2)) := by
  cases r <;> rfl

theorem unify_shift {L : Lang} {n : Nat} {σ₀ σ : Store} {a b : Term} {st sb sw : Bool} (hs : ScopedC σ)
    (ha : TermScoped σ a) (hb : TermScoped σ b) :
    unify L n (σ₀.appendC σ) (a.shift σ₀.vars.length) (b.shift σ₀.vars.length) st sb sw =
      (unifyE L σ₀.vars.length n σ a b st sb sw).map (σ₀.appendC ·) := by
  rw [(all_historyC L σ₀ n).1 σ a b st sb sw (behind_of_scopedC hs) ha hb, shR_eq_map]

theorem bind_shift {L : Lang} {n : Nat} {σ₀ σ : Store} {v : Nat} {t : Term} (hs : ScopedC σ)
    (hv : v < σ.vars.length) (ht : TermScoped σ t) :
    bind L n (σ₀.appendC σ) (v + σ₀.vars.length) (t.shift σ₀.vars.length) =
      (bindE L σ₀.vars.length n σ v t).map (σ₀.appendC ·) := by
  rw [(all_historyC L σ₀ n).2.2.1 σ v t (behind_of_scopedC hs) hv ht, shR_eq_map]

theorem check_shift {L : Lang} {n : Nat} {σ₀ σ : Store} {v : Nat} (hs : ScopedC σ) (hv : v < σ.vars.length) :
    checkConstraints L n (σ₀.appendC σ) (v + σ₀.vars.length) =
      (checkConstraintsE L σ₀.vars.length n σ v).map (σ₀.appendC ·) := by
  rw [(all_historyC L σ₀ n).2.2.2.2.2.2.2.1 σ v (behind_of_scopedC hs) hv, shR_eq_map]

theorem fulfill_shift {L : Lang} {n : Nat} {σ₀ σ : Store} {c : Nat} (hs : ScopedC σ) (hc : c < σ.constrs.length) :
    fulfill L n (σ₀.appendC σ) (c + σ₀.constrs.length) =
      (fulfillE L σ₀.vars.length n σ c).map (fun p => (σ₀.appendC p.1, p.2)) := by
  rw [(all_historyC L σ₀ n).2.2.2.2.2.2.2.2.2.1 σ c (behind_of_scopedC hs) hc, shB_eq_map]

theorem useSchema_content_irrelevant {L : Lang} {n : Nat} {fixFlag : Bool} (σ₀ σ₀' : Store) {s : Schema}
    {xs : List Term} (hv : σ₀'.vars.length = σ₀.vars.length) (hk : σ₀'.constrs.length = σ₀.constrs.length)
    (hcs : ∀ c, c ∈ s.constraints → okCAstN L (s.nvars + s.nwild) c = true)
    (hbody : okTermN L (s.nvars + s.nwild) s.body = true) (hxs : Term.closedL xs = true) :
    ∃ r, useSchema L n fixFlag σ₀ s xs = afterHistoryC σ₀ r ∧ useSchema L n fixFlag σ₀' s xs = afterHistoryC σ₀' r :=
  ⟨useSchemaE L σ₀.vars.length σ₀.constrs.length n fixFlag {} s xs, useSchema_shift σ₀ hcs hbody hxs,
   by rw [useSchema_shift σ₀' hcs hbody hxs, hv, hk]⟩

end Tfv.C16H
