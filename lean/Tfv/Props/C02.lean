import Tfv.Model
namespace Tfv.C02
theorem placeholder : True := trivial
end Tfv.C02
