import Tfv.Proofs.WorkflowIsoType
import Tfv.Proofs.WorkflowIsoEquiv
/-!
# `addExpr` is equivariant under a renaming of the blank-node supply — every configuration; errors included
-/
namespace Tfv

variable {ρ : Nat → Nat}

/-! ## `annotateType` -/

def annSupStep (G : GLang) (c : GCfg) (root : Node) (current : Nat) (g : GState) (s : Ty) : Except GErr GState :=
  match addType G c typeFuel g s.toTerm with
  | .error e => .error e
  | .ok (g, sn) =>
    let g := if c.withMembershipSupertypes then g.add (root, .tf "containsType", sn) else g
    let g := if c.withSupertypes then g.add (.b current, .tf "subtypeOf", sn) else g
    .ok g

def annHead (c : GCfg) (root : Node) (current : Nat) (canonical : Bool) (g : GState) (tn : Node) : GState :=
  let g1 := g.add (.b current, .tf "type", tn)
  let g2 := if c.withSupertypes && canonical then g1.add (.b current, .tf "subtypeOf", tn) else g1
  if c.withMembership then g2.add (root, .tf "containsType", tn) else g2

theorem annotateType_isoEq (G : GLang) (c : GCfg) (g : GState) (root : Node) (current : Nat) (ty : Term) (mf : Bool)
    (ov : Option Bool) :
    annotateType G c g root current ty mf ov =
      match addType G c typeFuel g ty with
      | .error e => .error e
      | .ok (g, tn) =>
        match ty with
        | .var _ => .ok (annHead c root current (ov.getD (inCanon G ty)) g tn)
        | .app _ _ =>
          if ov.getD (inCanon G ty) then
            (dedupTy (langSucc G.types G.cfg G.canon (G.canon.length + 2) true ty.generalize true)).foldlM
              (annSupStep G c root current) (annHead c root current (ov.getD (inCanon G ty)) g tn)
          else .ok (annHead c root current (ov.getD (inCanon G ty)) g tn) := by
  unfold annotateType
  cases addType G c typeFuel g ty with
  | error e => rfl
  | ok p => cases ty <;> rfl

theorem SRen.stepAddTo (hρ : Function.Injective ρ) {g g' : GState} (h : SRen ρ g g') (a p b : Node)
    (ha : Node) (hp : renN ρ p = p) (hb : Node) (hea : renN ρ a = ha) (heb : renN ρ b = hb) :
    SRen ρ (g.add (a, p, b)) (g'.add (ha, p, hb)) := by
  have := h.stepAdd hρ (a, p, b)
  have e : renT ρ (a, p, b) = (ha, p, hb) := by
    show (renN ρ a, renN ρ p, renN ρ b) = _
    rw [hea, hp, heb]
  rw [e] at this
  exact this

theorem SRen.stepAnnHead (hρ : Function.Injective ρ) (c : GCfg) {root : Node} (hr : renN ρ root = root)
    {g g' : GState} (h : SRen ρ g g') (current : Nat) (canonical : Bool) (tn : Node) :
    SRen ρ (annHead c root current canonical g tn) (annHead c root (ρ current) canonical g' (renN ρ tn)) := by
  unfold annHead
  have h1 := h.stepAddTo hρ (.b current) (.tf "type") tn (.b (ρ current)) rfl (renN ρ tn) rfl rfl
  have h2 : SRen ρ
      (if c.withSupertypes && canonical then (g.add (.b current, .tf "type", tn)).add (.b current, .tf "subtypeOf", tn)
        else g.add (.b current, .tf "type", tn))
      (if c.withSupertypes && canonical then
        (g'.add (.b (ρ current), .tf "type", renN ρ tn)).add (.b (ρ current), .tf "subtypeOf", renN ρ tn)
        else g'.add (.b (ρ current), .tf "type", renN ρ tn)) := by
    split
    · exact h1.stepAddTo hρ (.b current) (.tf "subtypeOf") tn (.b (ρ current)) rfl (renN ρ tn) rfl rfl
    · exact h1
  simp only
  split
  · exact h2.stepAddTo hρ root (.tf "containsType") tn root rfl (renN ρ tn) hr rfl
  · exact h2

theorem annotateType_ren (hρ : Function.Injective ρ) (G : GLang) (c : GCfg) {root : Node} (hr : renN ρ root = root)
    {g g' : GState} (h : SRen ρ g g') (current : Nat) (ty : Term) (mf : Bool) (ov : Option Bool) :
    IsoRelX (SRen ρ) (annotateType G c g root current ty mf ov) (annotateType G c g' root (ρ current) ty mf ov) := by
  rw [annotateType_isoEq, annotateType_isoEq]
  have h1 := (addType_ren hρ G c typeFuel).1 g g' ty h
  cases hp : addType G c typeFuel g ty with
  | error e =>
    rw [hp] at h1
    have h1' : addType G c typeFuel g' ty = .error e := h1
    rw [h1']; exact rfl
  | ok p1 =>
    obtain ⟨g1, tn⟩ := p1
    rw [hp] at h1
    obtain ⟨⟨g1', tn'⟩, hp', hg1, htn⟩ := h1
    simp only at hg1 htn
    subst htn
    rw [hp']
    simp only
    have hh := hg1.stepAnnHead hρ c hr current (ov.getD (inCanon G ty)) tn
    cases ty with
    | var v => exact ⟨_, rfl, hh⟩
    | app o args =>
      simp only
      split
      · refine foldlM_relX (Q := SRen ρ) _ _ _ (fun s _ ga ga' hga => ?_) hh
        unfold annSupStep
        have h2 := (addType_ren hρ G c typeFuel).1 ga ga' s.toTerm hga
        cases hs : addType G c typeFuel ga s.toTerm with
        | error e =>
          rw [hs] at h2
          have h2' : addType G c typeFuel ga' s.toTerm = .error e := h2
          rw [h2']; exact rfl
        | ok p2 =>
          obtain ⟨g2, sn⟩ := p2
          rw [hs] at h2
          obtain ⟨⟨g2', sn'⟩, hs', hg2, hsn⟩ := h2
          simp only at hg2 hsn
          subst hsn
          rw [hs']
          simp only
          refine ⟨_, rfl, ?_⟩
          have h3 : SRen ρ (if c.withMembershipSupertypes then g2.add (root, .tf "containsType", sn) else g2)
              (if c.withMembershipSupertypes then g2'.add (root, .tf "containsType", renN ρ sn) else g2') := by
            split
            · exact hg2.stepAddTo hρ root (.tf "containsType") sn root rfl (renN ρ sn) hr rfl
            · exact hg2
          split
          · exact h3.stepAddTo hρ (.b current) (.tf "subtypeOf") sn (.b (ρ current)) rfl (renN ρ sn) rfl rfl
          · exact h3
      · exact ⟨_, rfl, hh⟩

/-! ## leaves -/

/-- a state and a concept node, renamed -/
def SRenK (ρ : Nat → Nat) (p p' : GState × Nat) : Prop := SRen ρ p.1 p'.1 ∧ p'.2 = ρ p.2

theorem srcBody_ren (hρ : Function.Injective ρ) (G : GLang) (c : GCfg) {root : Node} (hr : renN ρ root = root)
    {origin : Option Node} (ho : OriginFixed ρ origin) {g g' : GState} (h : SRen ρ g g') (cur id : Nat) (ty : Term) :
    IsoRelX (SRenK ρ) (srcBody G c root origin g cur id ty) (srcBody G c root origin g' (ρ cur) id ty) := by
  unfold srcBody
  simp only
  have h1 : SRen ρ { g with srcNodes := g.srcNodes ++ [(id, cur)] }
      { g' with srcNodes := g'.srcNodes ++ [(id, ρ cur)] } :=
    ⟨h.triples, by simp [h.srcNodes, renV], h.sharedNodes, h.internals, h.fd, h.supply, h.typeNodes, h.supertyped⟩
  by_cases hcond : (c.withTypes && (inCanon G (normT G.store ty) || c.withNoncanonicalTypes)) = true
  · simp only [if_pos hcond]
    have h2 := annotateType_ren hρ G c hr h1 cur (normT G.store ty) false (some (inCanon G (normT G.store ty)))
    cases ha : annotateType G c { g with srcNodes := g.srcNodes ++ [(id, cur)] } root cur (normT G.store ty) false
        (some (inCanon G (normT G.store ty))) with
    | error e =>
      rw [ha] at h2
      have h2' : annotateType G c { g' with srcNodes := g'.srcNodes ++ [(id, ρ cur)] } root (ρ cur)
        (normT G.store ty) false (some (inCanon G (normT G.store ty))) = .error e := h2
      rw [h2']; exact rfl
    | ok g2 =>
      rw [ha] at h2
      obtain ⟨g2', hg2', hg2⟩ := h2
      rw [hg2']
      exact ⟨_, rfl, hg2.stepOrigin hρ c ho cur, rfl⟩
  · simp only [if_neg hcond]
    exact ⟨_, rfl, h1.stepOrigin hρ c ho cur, rfl⟩

theorem opBody_ren (hρ : Function.Injective ρ) (G : GLang) (c : GCfg) {root : Node} (hr : renN ρ root = root)
    {origin : Option Node} (ho : OriginFixed ρ origin) {g g' : GState} (h : SRen ρ g g') (cur : Nat) (name : String)
    (ty : Term) (inter : Bool) :
    IsoRelX (SRenK ρ) (opBody G c root origin g cur name ty inter) (opBody G c root origin g' (ρ cur) name ty inter) := by
  unfold opBody
  simp only
  have h1 := h.stepOpTriples hρ c hr cur name
  by_cases hcond : (c.withTypes && (c.withNoncanonicalTypes || inCanon G (normT G.store (outputType 1000 ty))) &&
      (c.withIntermediateTypes || !inter)) = true
  · simp only [if_pos hcond]
    have h2 := annotateType_ren hρ G c hr h1 cur (normT G.store (outputType 1000 ty)) true none
    cases ha : annotateType G c (opTriples c root g cur name) root cur (normT G.store (outputType 1000 ty)) true with
    | error e =>
      rw [ha] at h2
      have h2' : annotateType G c (opTriples c root g' (ρ cur) name) root (ρ cur)
        (normT G.store (outputType 1000 ty)) true = .error e := h2
      rw [h2']; exact rfl
    | ok g2 =>
      rw [ha] at h2
      obtain ⟨g2', hg2', hg2⟩ := h2
      rw [hg2']
      exact ⟨_, rfl, hg2.stepOrigin hρ c ho cur, rfl⟩
  · simp only [if_neg hcond]
    exact ⟨_, rfl, h1.stepOrigin hρ c ho cur, rfl⟩

/-! ## the theorem -/

/-- **`addExpr` is equivariant under a renaming of the blank-node supply**, every configuration: on a renamed state
(with the renamed current node) it fails with the same error, or succeeds with the renamed node and the renamed state. -/
theorem addExpr_ren (G : GLang) (c : GCfg) (root : Node) (origin : Option Node)
    (hρ : Function.Injective ρ) (hr : renN ρ root = root) (ho : OriginFixed ρ origin) :
    ∀ (e : TExpr) (g g' : GState) (cur : Option Nat) (inter : Bool), SRen ρ g g' →
      IsoRelX (SRenK ρ) (addExpr G c root origin g e cur inter) (addExpr G c root origin g' e (cur.map ρ) inter) := by
  intro e
  induction e with
  | src id l ty =>
    intro g g' cur inter h
    rw [addExpr_src, addExpr_src, h.srcNodes, find?_key_renV]
    cases hfind : g.srcNodes.find? (fun p => p.1 == id) with
    | some p => exact ⟨_, rfl, h, rfl⟩
    | none =>
      simp only [Option.map_none]
      obtain ⟨hc, hn⟩ := h.stepCur cur
      rw [hn]
      exact srcBody_ren hρ G c hr ho hc _ id ty
  | op name ty =>
    intro g g' cur inter h
    rw [addExpr_op, addExpr_op]
    obtain ⟨hc, hn⟩ := h.stepCur cur
    rw [hn]
    exact opBody_ren hρ G c hr ho hc _ name ty inter
  | app f x ty ihf ihx =>
    intro g g' cur inter h
    rw [addExpr_app, addExpr_app]
    obtain ⟨hc, hn⟩ := h.stepCur cur
    have h1 := ihf _ _ (some (curOrFresh g cur).2) inter hc
    rw [Option.map_some, ← hn] at h1
    cases hfr : addExpr G c root origin (curOrFresh g cur).1 f (some (curOrFresh g cur).2) inter with
    | error err =>
      rw [hfr] at h1
      have h1' : addExpr G c root origin (curOrFresh g' (cur.map ρ)).1 f (some (curOrFresh g' (cur.map ρ)).2) inter
        = .error err := h1
      rw [h1']; exact rfl
    | ok p1 =>
      obtain ⟨g1, fnode⟩ := p1
      rw [hfr] at h1
      obtain ⟨⟨g1', fnode'⟩, hf', hg1, hfn⟩ := h1
      simp only at hg1 hfn
      subst hfn
      rw [hf']
      simp only
      obtain ⟨hfre, hnb⟩ := hg1.stepFresh
      have hnb' : g1'.nextB = ρ g1.nextB := hnb
      obtain ⟨hpre, hci⟩ := hfre.stepAppPre hρ fnode x.ty.isFunction
      have h2 := ihx _ _ (some g1.nextB) true hpre
      rw [Option.map_some, ← hnb'] at h2
      cases hxr : addExpr G c root origin (appPre g1.fresh.1 fnode x.ty.isFunction).1 x (some g1.nextB) true with
      | error err =>
        rw [hxr] at h2
        have h2' : addExpr G c root origin (appPre g1'.fresh.1 (ρ fnode) x.ty.isFunction).1 x (some g1'.nextB) true
          = .error err := h2
        rw [h2']; exact rfl
      | ok p2 =>
        obtain ⟨g3, xnode⟩ := p2
        rw [hxr] at h2
        obtain ⟨⟨g3', xnode'⟩, hx', hg3, hxn⟩ := h2
        simp only at hg3 hxn
        subst hxn
        rw [hx']
        simp only
        rw [hci, hn]
        exact ⟨_, rfl, hg3.stepAppWire hρ c ho fnode xnode _ _, rfl⟩
  | shared k e ih =>
    intro g g' cur inter h
    rw [addExpr_shared, addExpr_shared, h.sharedNodes, find?_key_renV]
    cases hfind : g.sharedNodes.find? (fun p => p.1 == k) with
    | some p => exact ⟨_, rfl, h, rfl⟩
    | none =>
      simp only [Option.map_none]
      have h1 := ih g g' cur inter h
      cases her : addExpr G c root origin g e cur inter with
      | error err =>
        rw [her] at h1
        have h1' : addExpr G c root origin g' e (cur.map ρ) inter = .error err := h1
        rw [h1']; exact rfl
      | ok p1 =>
        obtain ⟨g1, m⟩ := p1
        rw [her] at h1
        obtain ⟨⟨g1', m'⟩, he', hg1, hm⟩ := h1
        simp only at hg1 hm
        subst hm
        rw [he']
        exact ⟨_, rfl, ⟨hg1.triples, hg1.srcNodes, by simp [hg1.sharedNodes, renV], hg1.internals, hg1.fd,
          hg1.supply, hg1.typeNodes, hg1.supertyped⟩, rfl⟩

end Tfv
