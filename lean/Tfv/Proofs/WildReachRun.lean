import Tfv.Proofs.WildReachInst
import Tfv.Proofs.WildConstrRun
/-!
# Runs with wildcard ARGUMENTS (`wrun` of WildConstrRun.lean) that use at most one wildcard in total

`wrun_marks_strict`: instantiate the schema in the empty store, instantiate the argument schemas (each may have
wildcards), apply; if the schema and the arguments together have at most one wildcard, every subtype record marked in the
final store passes the strict matcher with fuel `matchFuel σ' + d`.
-/
namespace Tfv.C03X
open Tfv Tfv.C03P Tfv.C03C Tfv.C03R Tfv.C16P Tfv.C17E

/-- total number of wildcards of a list of schemas -/
def wildTotal : List Schema → Nat
  | [] => 0
  | a :: as => a.nwild + wildTotal as

theorem finish_from_empty {L : Lang} {σ' : Store} {d : Nat} (y : TY L {} σ') (c2 : Chains σ')
    (hr : ReflD L (dewild σ') true d) : subsStrictAt L σ' (matchFuel σ' + d) = true := by
  apply subsStrictAt_of
  intro c r0 t0 s0 hc hg
  rcases y.marks c r0 t0 s0 hc hg with ⟨h0, _⟩ | ⟨σm, em, hm⟩
  · cases h0
  · have := matchFuel_mono em
    exact strict_stable em c2 hr (by omega) r0 t0 hm

theorem instArgs_ty_zero {L : Lang} {fuel : Nat} : ∀ (as : List Schema) {σ σ' : Store} {xs : List Term},
    WildLe1 σ → Chains σ → wildTotal as = 0 →
    instArgsG (instantiate L fuel) σ as = .ok (σ', xs) → TY L σ σ' ∧ WildLe1 σ' ∧ Chains σ'
  | [], σ, σ', xs, hw, hc, _, h => by
    unfold instArgsG at h
    injection h with h; injection h with h1 _
    subst h1
    exact ⟨TY.refl L σ, hw, hc⟩
  | a :: as, σ, σ', xs, hw, hc, ht, h => by
    unfold instArgsG at h
    unfold wildTotal at ht
    have ea : a.nwild = 0 := by omega
    split at h
    · cases h
    · next σ1 x he =>
      have hwa : WildLe1 (allocVars σ a.nvars a.nwild) := by
        rw [ea]; exact wl_mono (wildMono_allocVars_zero σ a.nvars) hw
      obtain ⟨y1, m1⟩ := instantiate_ty hwa he
      have c1 : Chains σ1 := (instantiate_good L fuel a hc).chains he
      split at h
      · cases h
      · next σ2 xs2 he2 =>
        injection h with h; injection h with h1 _
        subst h1
        obtain ⟨y2, w2, c2⟩ := instArgs_ty_zero as (wl_mono m1 hwa) c1 (by omega) he2
        exact ⟨y1.trans y2, w2, c2⟩

theorem instArgs_ty_one {L : Lang} {fuel : Nat} : ∀ (as : List Schema) {σ σ' : Store} {xs : List Term},
    NoWild σ → Chains σ → wildTotal as ≤ 1 →
    instArgsG (instantiate L fuel) σ as = .ok (σ', xs) → TY L σ σ' ∧ WildLe1 σ' ∧ Chains σ'
  | [], σ, σ', xs, hw, hc, _, h => by
    unfold instArgsG at h
    injection h with h; injection h with h1 _
    subst h1
    exact ⟨TY.refl L σ, wildLe1_of_noWild hw, hc⟩
  | a :: as, σ, σ', xs, hw, hc, ht, h => by
    unfold instArgsG at h
    unfold wildTotal at ht
    split at h
    · cases h
    · next σ1 x he =>
      have hwa : WildLe1 (allocVars σ a.nvars a.nwild) := wildLe1_allocVars hw a.nvars (by omega)
      obtain ⟨y1, m1⟩ := instantiate_ty hwa he
      have c1 : Chains σ1 := (instantiate_good L fuel a hc).chains he
      split at h
      · cases h
      · next σ2 xs2 he2 =>
        injection h with h; injection h with h1 _
        subst h1
        by_cases ea : a.nwild = 0
        · have n1 : NoWild σ1 := by
            rw [ea] at m1
            exact m1.noWild ((wildMono_allocVars_zero σ a.nvars).noWild hw)
          obtain ⟨y2, w2, c2⟩ := instArgs_ty_one as n1 c1 (by omega) he2
          exact ⟨y1.trans y2, w2, c2⟩
        · obtain ⟨y2, w2, c2⟩ := instArgs_ty_zero as (wl_mono m1 hwa) c1 (by omega) he2
          exact ⟨y1.trans y2, w2, c2⟩

/-- runs with wildcard arguments, at most one wildcard in total -/
theorem wrun_marks_strict {L : Lang} {fuel : Nat} {s : Schema} {as : List Schema} {σ' : Store} {r : Term} {d : Nat}
    (ht : s.nwild + wildTotal as ≤ 1) (h : wrun L fuel s as = .ok (σ', r))
    (hr : ReflD L (dewild σ') true d) : subsStrictAt L σ' (matchFuel σ' + d) = true := by
  unfold wrun wrunG at h
  split at h
  · cases h
  · next σ f hi =>
    have hw0 : WildLe1 (allocVars {} s.nvars s.nwild) := wildLe1_allocVars noWild_empty s.nvars (by omega)
    obtain ⟨y0, m0⟩ := instantiate_ty hw0 hi
    have c0 : Chains σ := (instantiate_good L fuel s chains_empty).chains hi
    split at h
    · cases h
    · next σ1 xs he =>
      rw [appAllG_eq_applyAll] at h
      have step : TY L σ σ1 ∧ WildLe1 σ1 ∧ Chains σ1 := by
        by_cases es : s.nwild = 0
        · have n0 : NoWild σ := by
            rw [es] at m0
            exact m0.noWild ((wildMono_allocVars_zero {} s.nvars).noWild noWild_empty)
          exact instArgs_ty_one as n0 c0 (by omega) he
        · exact instArgs_ty_zero as (wl_mono m0 hw0) c0 (by omega) he
      obtain ⟨y1, w1, c1⟩ := step
      have y2 : TY L σ1 σ' := ((applyAll_tx L fuel true xs σ1 f w1).step h).toY
      have c2 : Chains σ' := ((applyAll_good L fuel true xs σ1 f c1).step h).ch
      exact finish_from_empty (y0.trans (y1.trans y2)) c2 hr


/-- the clause of C03 for a schema with at most one wildcard: every subtype constraint marked fulfilled in the final store
holds under every solution of the final store -/
theorem reach_marks_hold {L : Lang} (wf : WF L) {n : Nat} {fixFlag : Bool} {s : Schema} {xs : List Term}
    {σ σ' : Store} {f r : Term} {d : Nat} (hs : s.nwild ≤ 1)
    (hcs : ∀ c, c ∈ s.constraints → okCAstN L (s.nvars + s.nwild) c = true)
    (hbody : okTermN L (s.nvars + s.nwild) s.body = true)
    (hi : instantiate L n {} s = .ok (σ, f)) (hxs : okTermL L σ xs = true)
    (ha : applyAll L n fixFlag σ f xs = .ok (σ', r)) (hr : ReflD L (dewild σ') true d) :
    OkStoreC L σ' ∧ SubsHold L σ' := by
  obtain ⟨_, s1, _, hf, _⟩ := instantiate_steps wf (okStoreCB_sound (L := L) (σ := {}) (by rfl)) hcs hbody hi
  have s2 := (applyAll_soundC wf n fixFlag xs σ σ' f r s1.ok hf hxs ha).1
  exact ⟨s2.ok, subsStrictAt_sound wf s2.ok (reach_marks_strict_nwild hs hi ha hr)⟩

/-- a successful run with a subtype constraint marked fulfilled, a flagged variable left, the certificate, and bindings at
most `d` deep -/
def goodOne (L : Lang) (d : Nat) (r : Except Err (Store × Term)) : Bool :=
  match r with
  | .ok (σ, _) => certK L σ && reflDK L (dewild σ) true d && decide (0 < fulSubs σ)
  | .error _ => false

/-- `F(A)` as an argument schema -/
def wArgFA : Schema := ⟨0, 0, .app 7 [.app 5 []], []⟩

theorem wrun_one_wild : goodOne wL 3 (wrun wL 60 wS2 [wArgF, wArgFA]) = true := by
  rw [wrun_eq_K]; decide +kernel


theorem subsStrictAt_mono {L : Lang} {σ : Store} {n m : Nat} (hnm : n ≤ m) (h : subsStrictAt L σ n = true) :
    subsStrictAt L σ m = true :=
  subsStrictAt_of (fun _ r t _ hc hg => match3_true_fuel_le L (dewild σ) true false hnm r t (subsStrictAt_get h hc hg))


/-- a store with one flagged variable -/
def σ1w : Store := { vars := [{ wildcard := true }], csets := [[]] }

/-- the result of a `fulfill` has at most one flagged variable, and the call answered `true` -/
def fulfillOneB (r : Except Err (Store × Bool)) : Bool :=
  match r with
  | .ok (σ', d) => wildLe1B' σ' && d
  | .error _ => false

theorem fulfill_σWs_one : fulfillOneB (fulfill exL 8 σWs 0) = true := by
  rw [fulfill_eq_K]; decide +kernel

end Tfv.C03X
