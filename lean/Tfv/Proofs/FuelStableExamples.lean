import Tfv.Proofs.FuelStable
import Tfv.Proofs.FuelStableUse
import Tfv.Proofs.HistoryConstrExamples
/-!
# Fuel stability: non-vacuity, and SHALLOW inputs on which history independence fails

FINDING. A bound on the nesting depth of the inputs (schema body, constraint terms, arguments) does NOT make the fuels
suffice: what the fuelled helpers walk is the RESOLVED term, and elimination constraints with a single alternative
(`x₁ << {Fᵉ(x₀)}`, `x₂ << {Fᵉ(x₁)}`, …) bind variables to one another's terms without allocating variables, so the
resolved depth grows by `e` per variable while the fuels grow by `4` (`match`) resp. `1` (occurs / `variables()`).

* `sV e k`: `x₀ ** y [x₁ << {Fᵉ x₀}, …, x_k << {Fᵉ x_(k-1)}, x_(k+1) << {Fᵉ B}, …, x_2k << {Fᵉ x_(2k-1)}, y << {x_k, x_2k}]`
  applied to `A`. All terms are nested at most `e + 1` deep; `x_k` resolves to `F^(e·k)(x₀)`. When `e·k` exceeds
  `vars + 64`, `variables()` of the last constraint does not reach `x₀` from the empty store: the constraint is not
  registered with `x₀`, is not re-checked when the argument binds `x₀`, and the result type stays the unresolved `y`;
  behind a history of 20 variables it is registered, re-checked, and `y` is resolved to `F^(e·k)(A)`.
  Kernel-checked for `(e, k) = (25, 3)` (8 variables, depth ≤ 26), `(8, 12)` (26 variables, depth ≤ 9) and
  `(4, 36)` (74 variables, depth ≤ 5).
* `sChain`: the `match` fuel (`4·vars + 64`), no arguments, depth ≤ 31, 9 variables.
-/
namespace Tfv.C16D
open Tfv Tfv.C03P Tfv.C16P Tfv.C03C Tfv.C16C Tfv.C16H Tfv.C17E

/-! ## 1. non-vacuity of the helper theorems -/

theorem σElim_fuelOk : FuelOk σElim := fuelOk_of_chainsB (by decide)
theorem σElim_shallow : ConstrsShallow σElim 1 := constrsShallowB_sound (by decide)
theorem σElim_rdepth : RDepth σElim 1 (.var 0) := rdepthB_sound 1 _ (by decide)
theorem σCC_fuelOk : FuelOk σCC := fuelOk_of_chainsB (by decide)
theorem σCC_shallow : ConstrsShallow σCC 1 := constrsShallowB_sound (by decide)
theorem σCC_closed : closedWithin σCC (σCC.vars.length * (σCC.constrs.length + 1) + 8)
    ([Term.var 0, .var 1].foldl (fun acc t => directVars σCC (termFuel σCC) t acc) [])
    ([Term.var 0, .var 1].foldl (fun acc t => directVars σCC (termFuel σCC) t acc) []) = true := by decide

/-! ## 2. shallow inputs, deep resolved terms -/

def fN (d : Nat) (t : Term) : Term := nest 7 d t

def chainCs (e : Nat) (first : Nat) (base : Term) (k : Nat) : List CAst :=
  (List.range k).map (fun j => CAst.elim (.var (first + j)) [fN e (if j = 0 then base else .var (first + j - 1))])

/-- `x₀ ** y [x₁ << {Fᵉ x₀}, …, x_k << {Fᵉ x_(k-1)}, x_(k+1) << {Fᵉ B}, …, x_2k << {Fᵉ x_(2k-1)}, y << {x_k, x_2k}]` -/
def sV (e k : Nat) : Schema := ⟨2 * k + 2, 0, .app FUN [.var 0, .var (2 * k + 1)],
  chainCs e 1 (.var 0) k ++ chainCs e (k + 1) (.app 6 []) k ++ [.elim (.var (2 * k + 1)) [.var k, .var (2 * k)]]⟩

/-- the largest raw depth among the body and the constraint terms of a schema -/
def schemaDepth (s : Schema) : Nat :=
  max (tdepth s.body) (tdepth.tdepthL (s.constraints.flatMap (fun c => match c with
    | .sub r t _ => [r, t]
    | .elim r alts => r :: alts)))

/-- the result type is the unresolved variable `v` -/
def isVar (v : Nat) : Store → Term → Bool := fun _ t => match t with
  | .var w => w == v
  | _ => false
/-- the result type is a compound type -/
def isApp : Store → Term → Bool := fun _ t => match t with
  | .app _ _ => true
  | _ => false

theorem sV_25_3_depth : schemaDepth (sV 25 3) = 26 := by decide +kernel
theorem sV_25_3_ok : (∀ c, c ∈ (sV 25 3).constraints → okCAstN exL ((sV 25 3).nvars + (sV 25 3).nwild) c = true) ∧
    okTermN exL ((sV 25 3).nvars + (sV 25 3).nwild) (sV 25 3).body = true := ⟨by decide, by decide⟩
theorem sV_25_3_fresh : okTest (useSchemaE exL 0 0 700 true {} (sV 25 3) [.app 5 []]) (isVar 7) = true := by
  decide +kernel
theorem sV_25_3_offset : okTest (useSchemaE exL 20 0 700 true {} (sV 25 3) [.app 5 []]) isApp = true := by
  decide +kernel

theorem isVar_elim {v : Nat} {σ : Store} {t : Term} (h : isVar v σ t = true) : t = .var v := by
  unfold isVar at h
  cases t with
  | var w => simp only [beq_iff_eq] at h; rw [h]
  | app o args => cases h

theorem isApp_elim {σ : Store} {t : Term} (h : isApp σ t = true) : ∃ o args, t = .app o args := by
  cases t with
  | var w => cases h
  | app o args => exact ⟨o, args, rfl⟩

/-- from two kernel evaluations of the engine with fuel offsets to the two runs of the MODEL: from the empty store the
result type is the unresolved variable `v`; behind the blank history of `k` variables it is a compound type; so the use
behind that history is NOT the fresh use placed behind the history. -/
theorem fails_of_tests {L : Lang} {n : Nat} {fixFlag : Bool} {s : Schema} {xs : List Term} {v : Nat} (k : Nat)
    (hcs : ∀ c, c ∈ s.constraints → okCAstN L (s.nvars + s.nwild) c = true)
    (hbody : okTermN L (s.nvars + s.nwild) s.body = true) (hxs : Term.closedL xs = true)
    (h0 : okTest (useSchemaE L 0 0 n fixFlag {} s xs) (isVar v) = true)
    (h1 : okTest (useSchemaE L k 0 n fixFlag {} s xs) isApp = true) :
    (∃ σ, useSchema L n fixFlag {} s xs = .ok (σ, .var v)) ∧
    (∃ σ o args, useSchema L n fixFlag (blankHistory k 0) s xs = .ok (σ, .app o args)) ∧
    useSchema L n fixFlag (blankHistory k 0) s xs ≠
      afterHistoryC (blankHistory k 0) (useSchema L n fixFlag {} s xs) := by
  obtain ⟨σa, ta, ea, ha⟩ := okTest_elim h0
  obtain ⟨σb, tb, eb, hb⟩ := okTest_elim h1
  have ha' := isVar_elim ha
  obtain ⟨o, args, hb'⟩ := isApp_elim hb
  subst ha' hb'
  rw [useSchemaE_zero] at ea
  have hsh := useSchema_shift (L := L) (n := n) (fixFlag := fixFlag) (blankHistory k 0) hcs hbody hxs
  rw [vlen_blankHistory, clen_blankHistory, eb] at hsh
  refine ⟨⟨σa, ea⟩, ⟨_, o, _, hsh⟩, ?_⟩
  rw [hsh, ea]
  intro h
  simp only [afterHistoryC] at h
  injection h with h
  injection h with _ h
  rw [shift_app] at h
  cases h

/-- depth ≤ 26, 8 variables, one argument `A`: history independence FAILS behind 20 unresolved variables -/
theorem sV_25_3_fails :
    (∃ σ, useSchema exL 700 true {} (sV 25 3) [.app 5 []] = .ok (σ, .var 7)) ∧
    (∃ σ o args, useSchema exL 700 true (blankHistory 20 0) (sV 25 3) [.app 5 []] = .ok (σ, .app o args)) ∧
    useSchema exL 700 true (blankHistory 20 0) (sV 25 3) [.app 5 []] ≠
      afterHistoryC (blankHistory 20 0) (useSchema exL 700 true {} (sV 25 3) [.app 5 []]) :=
  fails_of_tests 20 sV_25_3_ok.1 sV_25_3_ok.2 (by decide) sV_25_3_fresh sV_25_3_offset

theorem blank20_okc : OkStoreC exL (blankHistory 20 0) := okStoreCB_sound (by decide +kernel)

/-! depth ≤ 9, 26 variables -/
theorem sV_8_12_depth : schemaDepth (sV 8 12) = 9 := by decide +kernel
theorem sV_8_12_ok : (∀ c, c ∈ (sV 8 12).constraints → okCAstN exL ((sV 8 12).nvars + (sV 8 12).nwild) c = true) ∧
    okTermN exL ((sV 8 12).nvars + (sV 8 12).nwild) (sV 8 12).body = true := ⟨by decide +kernel, by decide⟩
theorem sV_8_12_fresh : okTest (useSchemaE exL 0 0 1000 true {} (sV 8 12) [.app 5 []]) (isVar 25) = true := by
  decide +kernel
theorem sV_8_12_offset : okTest (useSchemaE exL 20 0 1000 true {} (sV 8 12) [.app 5 []]) isApp = true := by
  decide +kernel
theorem sV_8_12_fails :
    (∃ σ, useSchema exL 1000 true {} (sV 8 12) [.app 5 []] = .ok (σ, .var 25)) ∧
    (∃ σ o args, useSchema exL 1000 true (blankHistory 20 0) (sV 8 12) [.app 5 []] = .ok (σ, .app o args)) ∧
    useSchema exL 1000 true (blankHistory 20 0) (sV 8 12) [.app 5 []] ≠
      afterHistoryC (blankHistory 20 0) (useSchema exL 1000 true {} (sV 8 12) [.app 5 []]) :=
  fails_of_tests 20 sV_8_12_ok.1 sV_8_12_ok.2 (by decide) sV_8_12_fresh sV_8_12_offset

/-! ## 3. the `match` fuel: depth ≤ 31, 9 variables, no arguments -/

/-- `x₈ ** x₈ [x₀ << {F³⁰ A}, x₁ << {F³⁰ x₀}, x₂ << {F³⁰ x₁}, x₃ << {F³⁰ x₂}, x₄ << {F³⁰ B}, …, x₇ << {F³⁰ x₆},
x₈ << {x₃, x₇}]`: `x₃`, `x₇` resolve to `F¹²⁰(A)`, `F¹²⁰(B)`; `minimize` of the last constraint compares them with
`match`, fuel `4·9 + 64 = 100` from the empty store -/
def sChain : Schema := ⟨9, 0, .app FUN [.var 8, .var 8],
  chainCs 30 0 (.app 5 []) 4 ++ chainCs 30 4 (.app 6 []) 4 ++ [.elim (.var 8) [.var 3, .var 7]]⟩

theorem sChain_depth : schemaDepth sChain = 31 := by decide +kernel
theorem sChain_ok : (∀ c, c ∈ sChain.constraints → okCAstN exL (sChain.nvars + sChain.nwild) c = true) ∧
    okTermN exL (sChain.nvars + sChain.nwild) sChain.body = true := ⟨by decide +kernel, by decide⟩
theorem sChain_fresh : okTest (useSchemaE exL 0 0 700 true {} sChain [])
    (fun σ _ => (getVar σ 8).bound.isNone && decide (getCset σ (getVar σ 8).cset = [8])) = true := by decide +kernel
theorem sChain_offset : okTest (useSchemaE exL 6 0 700 true {} sChain [])
    (fun σ _ => (getVar σ 8).bound.isSome && decide (getCset σ (getVar σ 8).cset = [])) = true := by decide +kernel

theorem sChain_fails :
    useSchema exL 700 true (blankHistory 6 0) sChain [] ≠
      afterHistoryC (blankHistory 6 0) (useSchema exL 700 true {} sChain []) := by
  intro h
  have h2 := (useSchema_shift_iff (blankHistory 6 0) sChain_ok.1 sChain_ok.2 rfl).mp h
  rw [vlen_blankHistory, clen_blankHistory, ← useSchemaE_zero] at h2
  obtain ⟨σa, ta, ea, ha⟩ := okTest_elim sChain_fresh
  obtain ⟨σb, tb, eb, hb⟩ := okTest_elim sChain_offset
  rw [h2, ea] at eb
  injection eb with eb
  injection eb with e1 e2
  subst e1
  simp only [Bool.and_eq_true] at ha hb
  have h1 := ha.1
  have h3 := hb.1
  cases hbd : (getVar σa 8).bound with
  | none => rw [hbd] at h3; cases h3
  | some b => rw [hbd] at h1; cases h1

/-! ## 4. the safety check on the examples of C16Shift -/

/-- `x ** x [x << {A, B}]` on `B` -/
theorem sElim_safe : useSafe exL 40 true sElim [.app 6 []] = true := by decide +kernel
/-- `x ** x [x ≤ A]` on `B` -/
theorem exSC_safe : useSafe exL 40 true exSC [.app 6 []] = true := by decide +kernel
/-- `x ** y ** x [x ≤ F(y)]` on `F(B)`, `A` (a skeleton variable is allocated) -/
theorem sSubF_safe : useSafe exL 60 true sSubF [.app 7 [.app 6 []], .app 5 []] = true := by decide +kernel
/-- the check REJECTS the shallow counterexample … -/
theorem sV_25_3_rejected : useSafe exL 700 true (sV 25 3) [.app 5 []] = false := by decide +kernel
/-- … and the deep one of C16Shift -/
theorem sDeep_rejected : useSafe exL 200 true sDeep [] = false := by decide +kernel

end Tfv.C16D
