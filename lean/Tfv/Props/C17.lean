import Tfv.Model
import Tfv.Proofs.ParseTotal
/-!
# C17 — the two stack-machine parsers never fail "internally"

The model of `Language.parse_type` and `Language.parse_expr` (`Tfv/Model/Parse.lean`) returns
`PErr.internal site` at every place where the Python code could raise something other than
its declared errors (`AssertionError`, `IndexError` on `stack[-1]`, `stack[1]`, `pop()`, an alias
index out of range, or the model's own fuel running out).  The theorems below say that none of
these branches is reachable from the parsers' initial state, whatever the token list is.
Statements only; proofs are in `Tfv/Proofs/ParseTotal.lean`.
-/
namespace Tfv.C17
open Tfv

/-! ## a concrete language for the non-vacuity examples -/

/-- builtins, a nullary `A`, a unary `F`, a binary `G`, and a unary alias `L x = F(x)` -/
def exP : PLang :=
  { types := builtinDecls ++ [⟨"A", [], none⟩, ⟨"F", [true], none⟩, ⟨"G", [true, true], none⟩],
    aliases := [⟨"L", 1, .app 6 [.var 0]⟩] }

/-! ## 1. the type parser -/

/-- For every language description, both modes (`consumeAll` true: whole input; false: in-line
mode that stops early), every variable base and every token list, the type parser started in
its initial state never ends in an internal error: it returns a type or one of the declared
errors. No hypothesis on the language or on the tokens is needed. -/
theorem C17_parseType_no_internal (P : PLang) (consumeAll : Bool) (varBase : Nat)
    (toks : List String) (site : String) :
    parseTypeLoop P consumeAll varBase {} toks ≠ .error (.internal site) :=
  parseTypeLoop_no_internal P consumeAll varBase site toks {} (InvT_init P consumeAll)

/-- The same for the entry point `parseTypeToks` (whole-input mode). -/
theorem C17_parseTypeToks_no_internal (P : PLang) (toks : List String) (varBase : Nat)
    (site : String) :
    parseTypeToks P toks varBase ≠ .error (.internal site) :=
  parseTypeToks_no_internal P toks varBase site

/-- The generalisation that carries the induction: from any state satisfying the loop invariant
`InvT` (non-empty stack, alias entries in range, and in in-line mode: bottom entry a mark, the
entry above it a mark or an operator still waiting for parameters, number of marks = 1 + level)
the parser never ends in an internal error. -/
theorem C17_parseType_no_internal_inv (P : PLang) (consumeAll : Bool) (varBase : Nat)
    (s : TState) (hs : InvT P consumeAll s) (toks : List String) (site : String) :
    parseTypeLoop P consumeAll varBase s toks ≠ .error (.internal site) :=
  parseTypeLoop_no_internal P consumeAll varBase site toks s hs

/-- the initial state satisfies the invariant (non-vacuity of `C17_parseType_no_internal_inv`) -/
example : InvT exP false {} := InvT_init exP false

/-- a non-initial state satisfying the in-line invariant: `F (` has been read -/
example : InvT exP false { stack := [.mark, .op 6, .mark], level := 1, calls := [true] } := by
  refine ⟨by simp, ?_, fun _ => ⟨by decide, Or.inr ⟨.op 6, ?_, ?_, ?_⟩⟩⟩
  · intro it hit
    simp at hit
    rcases hit with rfl | rfl | rfl <;> trivial
  · exact ⟨[.mark], rfl⟩
  · show arityOf exP.types 6 ≠ 0
    decide
  · intro h; simp at h

/-- a type that parses: `G(A, L(_))` is `G(A, F(_0))`, one variable created -/
example : parseTypeToks exP ["G", "(", "A", ",", "L", "(", "_", ")", ")"]
    = .ok (.app 7 [.app 5 [], .app 6 [.var 0]], 1) := by rfl

/-- declared errors do occur: too many closing brackets give `BracketMismatch` -/
example : parseTypeToks exP ["A", ")", ")"] = .error .bracketMismatch := by rfl

/-- declared errors do occur: a wrong number of parameters gives `TypeParameterError` -/
example : parseTypeToks exP ["G", "(", "A", ")"] = .error .typeParameter := by rfl

/-- The invariant is needed: from a stack that the parser itself can never produce in in-line mode
(an operator above the bottom mark while `level` says a bracket is open) `stack[1]` does fail.
Such states are unreachable from the initial state, by `C17_parseType_no_internal`. -/
example : parseTypeLoop exP false 0 { stack := [.op 6, .mark], level := 1 } ["A", ")"]
    = .error (.internal "stack[1] IndexError") := by rfl

/-- …and from an empty stack `stack[-1]` fails. -/
example : parseTypeLoop exP true 0 { stack := [] } ["("]
    = .error (.internal "stack[-1] on empty stack") := by rfl

/-! ## 2. the type parser only consumes -/

/-- What the type parser leaves unread is a suffix of what it was given (from any state, in
both modes); in particular it is not longer. -/
theorem C17_parseType_consumes (P : PLang) (consumeAll : Bool) (varBase : Nat) (s : TState)
    (toks : List String) (t : Term) (k : Nat) (rest : List String)
    (h : parseTypeLoop P consumeAll varBase s toks = .ok (t, k, rest)) :
    rest <:+ toks ∧ rest.length ≤ toks.length :=
  ⟨parseTypeLoop_suffix P consumeAll varBase toks s t k rest h,
   parseTypeLoop_length P consumeAll varBase toks s t k rest h⟩

/-- in-line mode stops after `F(A)` and leaves the two following tokens (hypothesis satisfiable,
with a non-empty remainder) -/
example : parseTypeLoop exP false 0 {} ["F", "(", "A", ")", "x", "y"]
    = .ok (.app 6 [.app 5 []], 0, ["x", "y"]) := by rfl

/-! ## 3. the expression parser -/

/-- For a builder whose fallible operations (`mkOp`, `mkApp`, `annotate`; `mkSource` cannot fail)
never fail internally, the expression parser never ends in an internal error, from ANY state
(an empty stack is answered by `BracketMismatch`), provided the fuel exceeds the number of
tokens.  This includes the site `"fuel"`: every iteration consumes at least one token. -/
theorem C17_parseExpr_no_internal {S E : Type} (P : PLang) (B : Builder S E) (hB : BuilderTotal B)
    (inputs : List E) (defaults : Bool) (n : Nat) (s : EState S E) (toks : List String)
    (hn : n ≥ toks.length + 1) (site : String) :
    parseExprLoop P B inputs defaults n s toks ≠ .error (.internal site) :=
  parseExprLoop_no_internal P B hB inputs defaults site n s toks (by omega)

/-- The entry point `parseExprToks` uses fuel `toks.length + 1`, which suffices. -/
theorem C17_parseExprToks_no_internal' {S E : Type} (P : PLang) (B : Builder S E)
    (hB : BuilderTotal B) (inputs : List E) (st0 : S) (toks : List String) (site : String) :
    parseExprToks P B inputs st0 toks ≠ .error (.internal site) :=
  parseExprToks_no_internal P B hB inputs st0 toks site

/-- The free builder (structure only) never fails internally. -/
theorem C17_freeBuilder_total (opNames : List String) : BuilderTotal (freeBuilder opNames) :=
  freeBuilder_total opNames

/-- The expression parser over the free builder never ends in an internal error. -/
theorem C17_parseExprToks_no_internal (P : PLang) (opNames : List String) (inputs : List PExpr)
    (st0 : FreeState) (toks : List String) (site : String) :
    parseExprToks P (freeBuilder opNames) inputs st0 toks ≠ .error (.internal site) :=
  parseExprToks_no_internal P (freeBuilder opNames) (freeBuilder_total opNames) inputs st0 toks site

/-- the hypotheses of `C17_parseExpr_no_internal` are satisfiable: free builder over two operator
names, six tokens, fuel seven -/
example : BuilderTotal (freeBuilder ["f", "g"]) ∧
    (7 : Nat) ≥ ["f", "(", "g", "-", ")", ":"].length + 1 :=
  ⟨freeBuilder_total _, by decide⟩

/-- an expression with an annotation that parses: `f (g -) : F(A)` -/
example : parseExprToks exP (freeBuilder ["f", "g"]) [] {} ["f", "(", "g", "-", ")", ":", "F", "(", "A", ")"]
    = .ok ({ nsrc := 1, nvars := 0, anns := [.app 6 [.app 5 []]] },
           .ann (.app (.op "f") (.app (.op "g") (.src 0))) (.app 6 [.app 5 []])) := by rfl

/-- an unbalanced closing bracket gives `BracketMismatch` -/
example : parseExprToks exP (freeBuilder ["f", "g"]) [] {} ["f", ")", "g"]
    = .error .bracketMismatch := by rfl

/-- the free builder's `mkOp` does fail, with a declared error -/
example : parseExprToks exP (freeBuilder ["f", "g"]) [] {} ["f", "h"]
    = .error (.undefinedToken "h") := by rfl

/-- `BuilderTotal` is needed: a builder whose `mkApp` fails internally makes the parser do so -/
example : parseExprToks exP
    { freeBuilder ["f", "g"] with mkApp := fun _ _ _ => .error (.internal "boom") } [] {} ["f", "g"]
    = .error (.internal "boom") := by rfl

/-! ## 4. fuel is an artefact of the model -/

/-- Any two amounts of fuel above the number of tokens give the same result. -/
theorem C17_parseExpr_fuel_irrelevant {S E : Type} (P : PLang) (B : Builder S E)
    (inputs : List E) (defaults : Bool) (n m : Nat) (s : EState S E) (toks : List String)
    (hn : n ≥ toks.length + 1) (hm : m ≥ toks.length + 1) :
    parseExprLoop P B inputs defaults n s toks = parseExprLoop P B inputs defaults m s toks :=
  parseExprLoop_fuel P B inputs defaults n m s toks (by omega) (by omega)

/-- the bound is sharp: with fuel equal to the number of tokens the model runs out of fuel -/
example : (parseExprLoop exP (freeBuilder ["f", "g"]) [] false 3 { st := {} } ["f", "g", "f"]).toOption.isNone
    = true := by rfl

/-- … and with one more it does not -/
example : (parseExprLoop exP (freeBuilder ["f", "g"]) [] false 4 { st := {} } ["f", "g", "f"]).toOption.isSome
    = true := by rfl

end Tfv.C17
