"""C05 - on comparable arguments the inferred type is the least one, in any order."""
from __future__ import annotations
import itertools
import langgen as G
import infer as I
from refsub import ref_sub

RULE = ("signatures c(x) ** ... ** c(x) ** r(x) for contexts c in {x, F(x) (co- and contravariant F), F(F(x)), A ** x, x ** A} and r in {x, F(x), Unit}; "
        "argument tuples (1-4) drawn from one chain of the hierarchy with Top/Bottom mixed in; every permutation and every single-argument "
        "specialisation (a subtype from the same chain); implementation vs model on each; oracle: an independent closed form (join of the non-Bottom "
        "arguments as instantiation in covariant contexts, meet of the non-Top ones as upper limit in contravariant ones), equality of outcomes across "
        "permutations, monotonicity under specialisation; fixing clause: types of depth <= 3 over variables with bounds from a chain, each variable with a "
        "single polarity, fixed type compared with every corner instantiation; non-trivial = at least two distinct non-Top/Bottom arguments; distinct by (language, schema, argument tuple)")
ASSUMPTIONS = ["arguments that meet the variable are pairwise comparable (the property's premise)"]
INVARIANTS = True   # runner.run_invariants: hypotheses of the engine theorems evaluated on the model's runs of this check's infer lines
TRUSTED = ["harness/infer.py", "harness/refsub.py (oracle)"]

X_ = ('v', 0)


def chains(spec):
    """maximal chains of base types (leaf to root)"""
    out = []
    for b in spec.bases():
        if not spec.descendants(b):
            out.append([b] + spec.ancestors(b))   # most specific first
    return out


def contexts(spec, rng):
    """(name, builder c(t), polarity)"""
    cs = [("x", lambda t: t, True)]
    bases = spec.bases() or [G.UNIT]
    a = (rng.choice(bases), ())
    for c in spec.compounds(builtin=False):
        var = spec.variance(c)

        def mk(c=c, var=var):
            def f(t):
                return (c, tuple(t if j == 0 else a for j in range(len(var))))
            return f
        cs.append((f"{spec.name(c)}(x)", mk(), var[0]))
        f1 = mk()
        cs.append((f"{spec.name(c)}({spec.name(c)}(x))", (lambda t, f1=f1: f1(f1(t))), True if var[0] else True))
    cs.append(("A ** x", lambda t: (G.FUN, (a, t)), True))
    cs.append(("x ** A", lambda t: (G.FUN, (t, a)), False))
    return cs


def results(spec, rng):
    rs = [("x", lambda t: t, True), ("Unit", lambda t: (G.UNIT, ()), None)]
    bases = spec.bases() or [G.UNIT]
    a = (rng.choice(bases), ())
    for c in spec.compounds(builtin=False):
        var = spec.variance(c)
        if var[0]:
            rs.append((f"{spec.name(c)}(x)", (lambda t, c=c, var=var: (c, tuple(t if j == 0 else a for j in range(len(var))))), True))
    return rs


def expected(spec, chain, args, pol, r):
    """closed form of the property: ('conc', type) | ('var', lower, upper)"""
    order = {b: i for i, b in enumerate(chain)}   # small = specific

    def rank(o):
        return -1 if o == G.BOT else (10 ** 6 if o == G.TOP else order[o])
    if pol:
        eff = [a for a in args if a != G.BOT]
        if not eff:
            return ("var", None, None)
        top = max(eff, key=rank)
        return ("low", top)
    eff = [a for a in args if a != G.TOP]
    if not eff:
        return ("var", None, None)
    bot = min(eff, key=rank)
    return ("up", bot)


def render_expected(exp, r, rname):
    """expected canonical observation after all arguments were applied (result fixed with prefer_lower)"""
    kind = exp[0]
    if rname == "Unit":
        return f"({G.UNIT})  {{}}"
    if kind == "low":
        return I.term_sexp(I.conc(r((exp[1], ())))) + "  {}"
    if kind == "up":
        if exp[1] == G.BOT:
            return I.term_sexp(I.conc(r((G.BOT, ())))) + "  {}"
        return I.term_sexp(r(X_)) + f" [- {exp[1]} -] {{}}"
    return I.term_sexp(r(X_)) + " [- - -] {}"


def run(ctx):
    rng = ctx.rng
    nlang = 5 if ctx.tier == "quick" else 30
    for li in range(nlang):
        spec = G.gen_lang(rng, max_base=7, max_ops=2, max_arity=2)
        if not chains(spec):
            continue
        ops = spec.build()
        ctx.setup(spec.sexp(), "ok T")
        cs = contexts(spec, rng)
        rs = results(spec, rng)
        for chain in chains(spec)[: 3 if ctx.tier == "quick" else 8]:
            pool = chain + [G.TOP, G.BOT]
            for (cname, c, pol) in cs:
                rname, r, _ = rng.choice(rs)
                for n in (1, 2, 3) if ctx.tier == "quick" else (1, 2, 3, 4):
                    tuples = list(itertools.product(pool, repeat=n))
                    k = 6 if ctx.tier == "quick" else 30
                    for args in (tuples if len(tuples) <= k else rng.sample(tuples, k)):
                        chain_case(ctx, li, spec, ops, chain, cname, c, pol, rname, r, list(args))
        fix_cases(ctx, li, spec, ops)


def schema_for(c, r, n):
    body = r(X_)
    for _ in range(n):
        body = (G.FUN, (c(X_), body))
    return {"nvars": 1, "nwild": 0, "body": body, "constraints": []}


def chain_case(ctx, li, spec, ops, chain, cname, c, pol, rname, r, args):
    s = schema_for(c, r, len(args))
    outcomes = {}
    distinct_eff = len({a for a in args if a not in (G.TOP, G.BOT)})
    perms = set(itertools.permutations(args))
    exp = expected(spec, chain, args, pol, r)
    want = render_expected(exp, r, rname)
    for perm in sorted(perms):
        argterms = [(0, I.conc(c((a, ())))) for a in perm]
        obs, results_, err = I.run_chain(s, argterms, spec, ops)
        ctx.case(I.infer_line(s, argterms), obs, {"lang": spec.to_json(), "schema": I.schema_src(s, spec), "context": cname,
            "args": [spec.name(a) for a in perm]}, nontrivial=distinct_eff >= 2, key=(li, cname, rname, perm))
        last = obs.split(" | ")[-1]
        outcomes[perm] = last
        replay = {"lang": spec.to_json(), "schema": s, "context": cname, "result": rname, "args": list(perm), "chain": chain, "pol": pol}
        if err is not None:
            ctx.fail(f"{I.schema_src(s, spec)} applied to chain arguments {[spec.name(a) for a in perm]} failed: {last}",
                {"check": "chain-succeeds"}, replay)
        elif norm(last) != norm(want):
            ctx.fail(f"{I.schema_src(s, spec)} applied to {[spec.name(a) for a in perm]}: result {last}, closed form {want}",
                {"check": "least-instantiation"}, replay)
    if len(set(norm(v) for v in outcomes.values())) > 1:
        ctx.fail(f"{I.schema_src(s, spec)}: outcome depends on argument order: {outcomes}", {"check": "order-independence"},
            {"lang": spec.to_json(), "schema": s, "context": cname, "result": rname, "args": list(args), "chain": chain, "pol": pol})
    ctx.count(f"ctx_{'co' if pol else 'contra'}_{exp[0]}")
    # specialisation: replace one argument by a subtype from the chain
    order = {b: i for i, b in enumerate(chain)}
    i = ctx.rng.randrange(len(args))
    a = args[i]
    lower = [G.BOT] if a == G.BOT else ([G.BOT] + chain if a == G.TOP else [G.BOT] + chain[: order[a]])
    if lower:
        a2 = ctx.rng.choice(lower)
        args2 = list(args)
        args2[i] = a2
        s2 = schema_for(c, r, len(args2))
        o1, r1, e1 = I.run_chain(s, [(0, I.conc(c((x, ())))) for x in args], spec, ops)
        o2, r2, e2 = I.run_chain(s2, [(0, I.conc(c((x, ())))) for x in args2], spec, ops)
        ctx.evaluations += 1
        if e1 is None and e2 is not None:
            ctx.fail(f"{I.schema_src(s, spec)}: specialising argument {spec.name(a)} to {spec.name(a2)} turned success into {o2.split(' | ')[-1]}",
                {"check": "specialisation-keeps-success"}, {"lang": spec.to_json(), "schema": s, "args": args, "args2": args2, "context": cname, "result": rname, "chain": chain, "pol": pol})
        elif e1 is None and e2 is None:
            d1, d2 = data_or_none(r1[-1], ops), data_or_none(r2[-1], ops)
            if d1 is not None and d2 is not None and not ref_sub(spec, d2, d1):
                ctx.fail(f"{I.schema_src(s, spec)}: specialising {spec.name(a)} to {spec.name(a2)} made the result more general: {G.ty_str(d1, spec)} -> {G.ty_str(d2, spec)}",
                    {"check": "specialisation-monotone"}, {"lang": spec.to_json(), "schema": s, "args": args, "args2": args2, "context": cname, "result": rname, "chain": chain, "pol": pol})


def norm(s):
    return " ".join(s.split())


def data_or_none(t, ops):
    from transforge import type as T
    t = t.follow()
    if isinstance(t, T.TypeVariable):
        return None
    args = [data_or_none(p, ops) for p in t.params]
    if any(a is None for a in args):
        return None
    return (I.op_index(t.operator, ops), tuple(args))


# -- fixing clause -----------------------------------------------------------------------

def gen_fix_term(rng, spec, nvars, depth, used):
    """type over variables, each used at most once (single polarity by construction)"""
    comps = spec.compounds(builtin=True)
    free = [v for v in range(nvars) if v not in used]
    if free and (depth == 0 or rng.random() < 0.4):
        v = rng.choice(free)
        used.add(v)
        return ('v', v)
    if depth == 0 or not comps or rng.random() < 0.15:
        b = spec.bases() or [G.UNIT]
        return (rng.choice(b), ())
    o = rng.choice(comps)
    return (o, tuple(gen_fix_term(rng, spec, nvars, depth - 1, used) for _ in range(spec.arity(o))))


def term_py(t, ops, vars_):
    if I.is_var(t):
        return vars_[t[1]]
    return ops[t[0]](*(term_py(a, ops, vars_) for a in t[1]))


def inst_term(t, theta):
    if I.is_var(t):
        return theta[t[1]]
    return (t[0], tuple(inst_term(a, theta) for a in t[1]))


def fix_cases(ctx, li, spec, ops):
    from transforge import type as T
    rng = ctx.rng
    chs = chains(spec)
    for _ in range(12 if ctx.tier == "quick" else 60):
        nvars = rng.randint(1, 3)
        bounds = []
        for v in range(nvars):
            ch = rng.choice(chs)
            i, j = sorted((rng.randrange(len(ch)), rng.randrange(len(ch))))
            lo, hi = ch[i], ch[j]           # ch is specific-first: ch[i] <= ch[j]
            kind = rng.random()
            if kind < 0.25:
                bounds.append((lo, None))
            elif kind < 0.5:
                bounds.append((None, hi))
            elif kind < 0.6:
                bounds.append((None, None))
            else:
                if lo == hi:
                    hi = None
                bounds.append((lo, hi))
        used = set()
        t = gen_fix_term(rng, spec, nvars, rng.randint(0, 3), used)
        pl = rng.random() < 0.8
        vars_ = []
        for lo, hi in bounds:
            v = T.TypeVariable()
            v.lower = ops[lo] if lo is not None else None
            v.upper = ops[hi] if hi is not None else None
            vars_.append(v)
        tp = term_py(t, ops, vars_)
        try:
            res = tp.fix(prefer_lower=pl)
            obs = "ok " + I.canon(res, ops)
        except T.TypingError as e:
            obs = "E:" + type(e).__name__
            res = None
        line = "(fixcase (" + " ".join(f"({'-' if lo is None else lo} {'-' if hi is None else hi})" for lo, hi in bounds) + f") {I.term_sexp(t)} {'T' if pl else 'F'})"
        ctx.case(line, obs, {"lang": spec.to_json(), "bounds": bounds, "term": I.term_sexp(t), "prefer_lower": pl}, key=(li, line))
        if res is None:
            ctx.fail(f"fix of {I.term_sexp(t)} with bounds {bounds} raised {obs}", {"check": "fix-succeeds"},
                {"lang": spec.to_json(), "bounds": bounds, "term": t, "prefer_lower": pl})
            continue
        # least instantiation: compare with every corner
        rest = [v for v in vars_ if v.follow() is v]
        for combo in itertools.product(*[[0, 1] for _ in range(nvars)]):
            theta = {}
            ok = True
            for k, ((lo, hi), c) in enumerate(zip(bounds, combo)):
                pick = lo if c == 0 else hi
                if pick is None:
                    pick = G.BOT if c == 0 else G.TOP
                theta[k] = (pick, ())
            corner = inst_term(t, theta)
            # instantiate the fixed result: unresolved variables take the same corner values
            def inst_res(x):
                x = x.follow()
                if isinstance(x, T.TypeVariable):
                    k = next(i for i, v in enumerate(vars_) if v is x)
                    return theta[k]
                return (I.op_index(x.operator, ops), tuple(inst_res(p) for p in x.params))
            fixed = inst_res(res)
            good = ref_sub(spec, fixed, corner) if pl else ref_sub(spec, corner, fixed)
            if not good:
                ctx.fail(f"fix(prefer_lower={pl}) of {I.term_sexp(t)} with bounds {bounds} gives {G.ty_str(fixed, spec)}, "
                         f"not {'below' if pl else 'above'} the corner instantiation {G.ty_str(corner, spec)}",
                    {"check": "fix-least"}, {"lang": spec.to_json(), "bounds": bounds, "term": t, "prefer_lower": pl})
                break
        ctx.count("fix_" + ("lower" if pl else "upper"))


def replay(ctx, payload):
    from props.C03 import fix_schema
    inp = payload["input"]
    spec = G.LangSpec([(n, v, p) for n, v, p in inp["lang"]])
    ops = spec.build()
    if "term" in inp:
        print("fix case: re-run the check with the recorded seed; input:", inp)
        return True
    s = fix_schema(inp["schema"])
    param = s["body"][1][0]

    def plug(a, t=param):
        if I.is_var(t):
            return (a, ())
        return (t[0], tuple(plug(a, x) for x in t[1]))
    ok = True
    outs = set()
    for perm in sorted(set(itertools.permutations(inp["args"]))):
        argterms = [(0, I.conc(plug(a))) for a in perm]
        obs, res, err = I.run_chain(s, argterms, spec, ops)
        last = obs.split(" | ")[-1]
        print(I.schema_src(s, spec), [spec.name(a) for a in perm], "->", last)
        outs.add(norm(last))
        if err is not None:
            ok = False
    if len(outs) > 1:
        ok = False
    if "chain" in inp and ok:
        # closed form
        rname = inp.get("result")
        print("closed form check needs the context builders: see the description in the replay file")
    if "args2" in inp:
        argterms = [(0, I.conc(plug(a))) for a in inp["args2"]]
        obs, res, err = I.run_chain(s, argterms, spec, ops)
        print("specialised:", [spec.name(a) for a in inp["args2"]], "->", obs.split(" | ")[-1])
        if err is not None:
            ok = False
    return ok
