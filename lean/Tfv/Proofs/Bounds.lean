import Tfv.Model
import Tfv.Spec.Sub
import Tfv.Spec.Sat
import Tfv.Proofs.SubOrder
/-!
# Helper lemmas for C05: the bound-tightening machine (`above`, `below`, `bind`)
on constraint-free stores.
-/
namespace Tfv.C05P

/-! ## 1. store plumbing -/

theorem getVar_setVar_same {σ : Store} {v : Nat} {i : VarInfo} (h : v < σ.vars.length) :
    getVar (setVar σ v i) v = i := by
  unfold getVar setVar
  simp [List.getD_eq_getElem?_getD, h]

theorem getVar_setVar_ne {σ : Store} {v w : Nat} {i : VarInfo} (h : v ≠ w) :
    getVar (setVar σ v i) w = getVar σ w := by
  unfold getVar setVar
  simp [List.getD_eq_getElem?_getD, List.getElem?_set_ne h]

theorem setVar_setVar (σ : Store) (v : Nat) (i j : VarInfo) :
    setVar (setVar σ v i) v j = setVar σ v j := by
  unfold setVar
  simp [List.set_set]

theorem setVar_getVar (σ : Store) (v : Nat) : setVar σ v (getVar σ v) = σ := by
  unfold setVar getVar
  have : σ.vars.set v (σ.vars.getD v {}) = σ.vars := by
    by_cases h : v < σ.vars.length
    · simp [List.getD_eq_getElem?_getD, h]
    · exact List.set_eq_of_length_le (by omega)
  rw [this]

theorem setVar_length (σ : Store) (v : Nat) (i : VarInfo) :
    (setVar σ v i).vars.length = σ.vars.length := by
  unfold setVar; simp

theorem getCset_setVar (σ : Store) (v : Nat) (i : VarInfo) (k : Nat) :
    getCset (setVar σ v i) k = getCset σ k := rfl

theorem noConstraints_setVar {σ : Store} (h : NoConstraints σ) (v : Nat) (i : VarInfo) :
    NoConstraints (setVar σ v i) := fun k => h k

theorem checkConstraints_nc (L : Lang) {σ : Store} (h : NoConstraints σ) (n v : Nat) :
    checkConstraints L (n+2) σ v = .ok σ := by
  unfold checkConstraints
  rw [h]
  unfold checkList
  rfl

/-! ## 2. the pure (per-variable) form of `bind`, `above`, `below` -/

/-- lift a per-variable result back into the store -/
def liftI (σ : Store) (v : Nat) : Except Err VarInfo → R
  | .ok i => .ok (setVar σ v i)
  | .error e => .error e

/-- `bind v (.app o [])` for a nullary `o`, seen on the variable record alone -/
def bindBaseI (L : Lang) (i : VarInfo) (o : Nat) : Except Err VarInfo :=
  if i.bound.isSome then .error (.internal "bind:variable cannot be unified twice")
  else if i.lower.any (fun l => opSub L o l true) then .error .subtypeMismatch
  else if i.upper.any (fun u => opSub L u o true) then .error .subtypeMismatch
  else .ok { i with wildcard := false, bound := some (.app o []) }

theorem bind_base (L : Lang) {σ : Store} (nc : NoConstraints σ) (n v o : Nat)
    (h0 : arityOf L o = 0) :
    bind L (n+3) σ v (.app o []) = liftI σ v (bindBaseI L (getVar σ v) o) := by
  unfold bind bindBaseI
  by_cases hb : (getVar σ v).bound.isSome = true
  · simp [hb, liftI]
  · simp only [hb, h0, beq_self_eq_true, if_true, setVar_setVar]
    by_cases h1 : ((getVar σ v).lower.any fun l => opSub L o l true) = true
    · simp [h1, liftI]
    · by_cases h2 : ((getVar σ v).upper.any fun u => opSub L u o true) = true
      · simp [h1, h2, liftI]
      · simp only [h1, h2, liftI]
        exact checkConstraints_nc L (noConstraints_setVar nc _ _) n v

/-- the closing step of `above`/`below`: equal bounds bind the variable -/
def closeI (L : Lang) (i : VarInfo) : Except Err VarInfo :=
  if i.bound.isNone && i.lower.isSome && i.lower == i.upper then
    match i.lower with
    | some l => bindBaseI L i l
    | none => .ok i
  else .ok i

/-- `above v new` on the variable record alone -/
def aboveI (L : Lang) (i0 : VarInfo) (new : Nat) : Except Err VarInfo :=
  if new == TOP then bindBaseI L i0 TOP
  else
    let i : VarInfo := { i0 with wildcard := false }
    if i.bound.isSome then .error (.internal "above:assert not self.bound")
    else if i.upper.any (fun u => opSub L u new true) then .error .subtypeMismatch
    else if i.upper.any (fun u => !opSub L new u) then .error .subtypeMismatch
    else if i.lower.any (fun l => opSub L new l true) then closeI L i
    else if i.lower.all (fun l => opSub L l new) then closeI L { i with lower := some new }
    else .error .subtypeMismatch

/-- the closing step of `below` -/
def closeDI (L : Lang) (i : VarInfo) : Except Err VarInfo :=
  if i.bound.isNone && i.upper.isSome && i.upper == i.lower then
    match i.upper with
    | some u => bindBaseI L i u
    | none => .ok i
  else .ok i

/-- `below v new` on the variable record alone -/
def belowI (L : Lang) (i0 : VarInfo) (new : Nat) : Except Err VarInfo :=
  if new == BOT then bindBaseI L i0 BOT
  else
    let i : VarInfo := { i0 with wildcard := false }
    if i.bound.isSome then .error (.internal "below:assert not self.bound")
    else if i.lower.any (fun l => opSub L new l true) then .error .subtypeMismatch
    else if i.lower.any (fun l => !opSub L l new) then .error .subtypeMismatch
    else if i.upper.any (fun u => opSub L u new true) then closeDI L i
    else if i.upper.all (fun u => opSub L new u) then closeDI L { i with upper := some new }
    else .error .subtypeMismatch

/-- bounds of a variable record are nullary operators -/
def NullaryBounds (L : Lang) (i : VarInfo) : Prop :=
  (∀ l, i.lower = some l → arityOf L l = 0) ∧ (∀ u, i.upper = some u → arityOf L u = 0)

theorem close_eq (L : Lang) {σ : Store} (nc : NoConstraints σ) (n v : Nat) (hv : v < σ.vars.length)
    (i : VarInfo) (hl : ∀ l, i.lower = some l → arityOf L l = 0) :
    (let σ1 := setVar σ v i
     let j := getVar σ1 v
     if j.bound.isNone && j.lower.isSome && j.lower == j.upper then
       match j.lower with
       | some l => bind L (n+3) σ1 v (.app l [])
       | none => .ok σ1
     else (.ok σ1 : R)) = liftI σ v (closeI L i) := by
  simp only [getVar_setVar_same hv]
  unfold closeI
  split
  · cases hlo : i.lower with
    | none => simp [liftI]
    | some l =>
      simp only
      rw [bind_base L (noConstraints_setVar nc _ _) n v l (hl l hlo), getVar_setVar_same hv]
      cases bindBaseI L i l <;> simp [liftI, setVar_setVar]
  · simp [liftI]

theorem above_eq (L : Lang) {σ : Store} (nc : NoConstraints σ) (n v new : Nat)
    (hv : v < σ.vars.length) (htop : arityOf L TOP = 0) (hnew : arityOf L new = 0)
    (hl : ∀ l, (getVar σ v).lower = some l → arityOf L l = 0) :
    above L (n+4) σ v new = liftI σ v (aboveI L (getVar σ v) new) := by
  unfold above aboveI
  by_cases ht : (new == TOP) = true
  · simp only [ht, if_true]
    exact bind_base L nc n v TOP htop
  · simp only [ht]
    by_cases hb : (getVar σ v).bound.isSome = true
    · simp [hb, liftI]
    by_cases h1 : Option.any (fun u => opSub L u new true) (getVar σ v).upper = true
    · simp [hb, h1, liftI]
    by_cases h2 : Option.any (fun u => !opSub L new u) (getVar σ v).upper = true
    · simp [hb, h1, h2, liftI]
    by_cases h3 : Option.any (fun l => opSub L new l true) (getVar σ v).lower = true
    · simp only [hb, h1, h2, h3, if_true, if_false, Bool.false_eq_true]
      exact close_eq L nc n v hv _ hl
    by_cases h4 : Option.all (fun l => opSub L l new) (getVar σ v).lower = true
    · simp only [hb, h1, h2, h3, h4, if_true, if_false, Bool.false_eq_true, setVar_setVar]
      rw [checkConstraints_nc L (noConstraints_setVar nc _ _) (n+1) v]
      exact close_eq L nc n v hv _ (fun l h => by cases h; exact hnew)
    · simp [hb, h1, h2, h3, h4, liftI]

theorem closeD_eq (L : Lang) {σ : Store} (nc : NoConstraints σ) (n v : Nat) (hv : v < σ.vars.length)
    (i : VarInfo) (hl : ∀ u, i.upper = some u → arityOf L u = 0) :
    (let σ1 := setVar σ v i
     let j := getVar σ1 v
     if j.bound.isNone && j.upper.isSome && j.upper == j.lower then
       match j.upper with
       | some u => bind L (n+3) σ1 v (.app u [])
       | none => .ok σ1
     else (.ok σ1 : R)) = liftI σ v (closeDI L i) := by
  simp only [getVar_setVar_same hv]
  unfold closeDI
  split
  · cases hlo : i.upper with
    | none => simp [liftI]
    | some l =>
      simp only
      rw [bind_base L (noConstraints_setVar nc _ _) n v l (hl l hlo), getVar_setVar_same hv]
      cases bindBaseI L i l <;> simp [liftI, setVar_setVar]
  · simp [liftI]

theorem below_eq (L : Lang) {σ : Store} (nc : NoConstraints σ) (n v new : Nat)
    (hv : v < σ.vars.length) (hbot : arityOf L BOT = 0) (hnew : arityOf L new = 0)
    (hl : ∀ u, (getVar σ v).upper = some u → arityOf L u = 0) :
    below L (n+4) σ v new = liftI σ v (belowI L (getVar σ v) new) := by
  unfold below belowI
  by_cases ht : (new == BOT) = true
  · simp only [ht, if_true]
    exact bind_base L nc n v BOT hbot
  · simp only [ht]
    by_cases hb : (getVar σ v).bound.isSome = true
    · simp [hb, liftI]
    by_cases h1 : Option.any (fun l => opSub L new l true) (getVar σ v).lower = true
    · simp [hb, h1, liftI]
    by_cases h2 : Option.any (fun l => !opSub L l new) (getVar σ v).lower = true
    · simp [hb, h1, h2, liftI]
    by_cases h3 : Option.any (fun u => opSub L u new true) (getVar σ v).upper = true
    · simp only [hb, h1, h2, h3, if_true, if_false, Bool.false_eq_true]
      exact closeD_eq L nc n v hv _ hl
    by_cases h4 : Option.all (fun u => opSub L new u) (getVar σ v).upper = true
    · simp only [hb, h1, h2, h3, h4, if_true, if_false, Bool.false_eq_true, setVar_setVar]
      rw [checkConstraints_nc L (noConstraints_setVar nc _ _) (n+1) v]
      exact closeD_eq L nc n v hv _ (fun l h => by cases h; exact hnew)
    · simp [hb, h1, h2, h3, h4, liftI]

/-! ## 3. the order on a chain of base types -/

theorem opSub_strict_iff {L : Lang} (wf : WF L) (a b : Nat) :
    opSub L a b true = true ↔ (a = BOT ∨ b = TOP ∨ (Anc L a b ∧ a ≠ b)) := by
  unfold opSub
  simp only [Bool.not_true, Bool.false_and, Bool.false_or, Bool.or_eq_true, beq_iff_eq]
  constructor
  · rintro ((h | h) | h)
    · exact Or.inl h
    · exact Or.inr (Or.inl h)
    · cases hp : parentOf L a with
      | none => rw [hp] at h; cases h
      | some q =>
        rw [hp] at h
        have hq := wf.parent_lt _ _ hp
        rcases (chainSub_iff wf (a+1) q b (by omega)).mp h with h' | h' | h'
        · exact absurd h' (wf.parent_not_bot _ _ hp)
        · exact Or.inr (Or.inl h')
        · refine Or.inr (Or.inr ⟨Anc.step hp h', ?_⟩)
          have := anc_le wf h'
          omega
  · rintro (h | h | ⟨h, hne⟩)
    · exact Or.inl (Or.inl h)
    · exact Or.inl (Or.inr h)
    · cases h with
      | refl _ => exact absurd rfl hne
      | @step _ q _ hp h' =>
        right
        rw [hp]
        have hq := wf.parent_lt _ _ hp
        exact (chainSub_iff wf (a+1) q b (by omega)).mpr (Or.inr (Or.inr h'))

/-- a set of base types lying on one chain of the declared hierarchy (`Top`, `Bottom` excluded) -/
structure ChainOn (L : Lang) (S : Nat → Prop) : Prop where
  nullary : ∀ a, S a → arityOf L a = 0
  not_top : ∀ a, S a → a ≠ TOP
  not_bot : ∀ a, S a → a ≠ BOT
  comparable : ∀ a b, S a → S b → Anc L a b ∨ Anc L b a

/-- on a chain the declared order is the reversed order of declaration indices -/
theorem anc_chain_iff {L : Lang} (wf : WF L) {S : Nat → Prop} (ch : ChainOn L S) {a b : Nat}
    (ha : S a) (hb : S b) : Anc L a b ↔ b ≤ a := by
  constructor
  · exact anc_le wf
  · intro h
    rcases ch.comparable a b ha hb with h1 | h1
    · exact h1
    · have := anc_le wf h1
      have e : a = b := by omega
      rw [e]; exact Anc.refl b

theorem opSub_chain {L : Lang} (wf : WF L) {S : Nat → Prop} (ch : ChainOn L S) {a b : Nat}
    (ha : S a) (hb : S b) : opSub L a b false = decide (b ≤ a) := by
  rw [Bool.eq_iff_iff, opSub_iff wf, decide_eq_true_iff, ← anc_chain_iff wf ch ha hb]
  constructor
  · rintro (h | h | h)
    · exact absurd h (ch.not_bot a ha)
    · exact absurd h (ch.not_top b hb)
    · exact h
  · exact fun h => Or.inr (Or.inr h)

theorem opSub_strict_chain {L : Lang} (wf : WF L) {S : Nat → Prop} (ch : ChainOn L S) {a b : Nat}
    (ha : S a) (hb : S b) : opSub L a b true = decide (b < a) := by
  rw [Bool.eq_iff_iff, opSub_strict_iff wf, decide_eq_true_iff]
  constructor
  · rintro (h | h | ⟨h, hne⟩)
    · exact absurd h (ch.not_bot a ha)
    · exact absurd h (ch.not_top b hb)
    · have := (anc_chain_iff wf ch ha hb).mp h
      omega
  · intro h
    exact Or.inr (Or.inr ⟨(anc_chain_iff wf ch ha hb).mpr (by omega), by omega⟩)

/-! ## 4. one step of the machine on a chain -/

def optMin (lo : Option Nat) (a : Nat) : Nat := match lo with | none => a | some l => min l a
def optMax (up : Option Nat) (a : Nat) : Nat := match up with | none => a | some u => max u a

/-- bind the record when its bounds meet -/
def sealI (i : VarInfo) : VarInfo :=
  match i.lower, i.upper with
  | some l, some u => if l = u then { i with bound := some (.app l []) } else i
  | _, _ => i

/-- the bounds of a record lie in `S` -/
def BoundsIn (S : Nat → Prop) (i : VarInfo) : Prop :=
  (∀ l, i.lower = some l → S l) ∧ (∀ u, i.upper = some u → S u)

theorem closeI_chain {L : Lang} (wf : WF L) {S : Nat → Prop} (ch : ChainOn L S)
    {i : VarInfo} (hi : BoundsIn S i) (hb : i.bound = none) (hw : i.wildcard = false) :
    closeI L i = .ok (sealI i) := by
  obtain ⟨bd, lo, up, w, c⟩ := i
  simp only at hb hw
  subst hb hw
  unfold closeI sealI
  cases lo with
  | none => simp
  | some l =>
    cases up with
    | none => simp
    | some u =>
      by_cases e : l = u
      · subst e
        have e1 := opSub_strict_chain wf ch (hi.1 l rfl) (hi.1 l rfl)
        simp [bindBaseI, e1]
      · simp [e]

theorem closeDI_chain {L : Lang} (wf : WF L) {S : Nat → Prop} (ch : ChainOn L S)
    {i : VarInfo} (hi : BoundsIn S i) (hb : i.bound = none) (hw : i.wildcard = false) :
    closeDI L i = .ok (sealI i) := by
  obtain ⟨bd, lo, up, w, c⟩ := i
  simp only at hb hw
  subst hb hw
  unfold closeDI sealI
  cases lo with
  | none => cases up <;> simp
  | some l =>
    cases up with
    | none => simp
    | some u =>
      by_cases e : l = u
      · subst e
        have e1 := opSub_strict_chain wf ch (hi.1 l rfl) (hi.1 l rfl)
        simp [bindBaseI, e1]
      · have e' : ¬ u = l := fun h => e h.symm
        simp [e, e']

theorem aboveI_chain {L : Lang} (wf : WF L) {S : Nat → Prop} (ch : ChainOn L S) {new : Nat}
    (hS : S new) {i : VarInfo} (hi : BoundsIn S i) (hb : i.bound = none) :
    aboveI L i new =
      if i.upper.any (fun u => decide (new < u)) then .error .subtypeMismatch
      else .ok (sealI { i with wildcard := false, lower := some (optMin i.lower new) }) := by
  obtain ⟨bd, lo, up, w, c⟩ := i
  simp only at hb
  subst hb
  have hnt : (new == TOP) = false := by simpa using ch.not_top new hS
  unfold aboveI
  simp only [hnt]
  cases up with
  | none =>
    cases lo with
    | none => simp [closeI, sealI, optMin]
    | some l =>
      have e1 := opSub_strict_chain wf ch hS (hi.1 l rfl)
      have e2 := opSub_chain wf ch (hi.1 l rfl) hS
      by_cases h : l < new
      · simp [closeI, sealI, optMin, e1, h, Nat.min_eq_left (Nat.le_of_lt h)]
      · simp [closeI, sealI, optMin, e1, e2, h, Nat.min_eq_right (Nat.le_of_not_lt h), Nat.le_of_not_lt h]
  | some u =>
    have e3 := opSub_strict_chain wf ch (hi.2 u rfl) hS
    have e4 := opSub_chain wf ch hS (hi.2 u rfl)
    by_cases hu : new < u
    · simp [e3, hu]
    · have hS' : BoundsIn S { lower := some (optMin lo new), upper := some u, wildcard := false, cset := c } := by
        refine ⟨fun l hl => ?_, fun u' hu' => hi.2 u' hu'⟩
        simp only [Option.some.injEq] at hl
        subst hl
        cases lo with
        | none => exact hS
        | some l0 =>
          simp only [optMin]
          rcases Nat.le_total l0 new with h | h
          · rw [Nat.min_eq_left h]; exact hi.1 l0 rfl
          · rw [Nat.min_eq_right h]; exact hS
      rw [← closeI_chain wf ch hS' rfl rfl]
      cases lo with
      | none => simp [e3, e4, hu, Nat.le_of_not_lt hu, optMin]
      | some l =>
        have e1 := opSub_strict_chain wf ch hS (hi.1 l rfl)
        have e2 := opSub_chain wf ch (hi.1 l rfl) hS
        by_cases h : l < new
        · simp [optMin, e1, e3, e4, hu, h, Nat.le_of_not_lt hu, Nat.min_eq_left (Nat.le_of_lt h)]
        · simp [optMin, e1, e2, e3, e4, hu, h, Nat.le_of_not_lt hu, Nat.min_eq_right (Nat.le_of_not_lt h), Nat.le_of_not_lt h]

theorem belowI_chain {L : Lang} (wf : WF L) {S : Nat → Prop} (ch : ChainOn L S) {new : Nat}
    (hS : S new) {i : VarInfo} (hi : BoundsIn S i) (hb : i.bound = none) :
    belowI L i new =
      if i.lower.any (fun l => decide (l < new)) then .error .subtypeMismatch
      else .ok (sealI { i with wildcard := false, upper := some (optMax i.upper new) }) := by
  obtain ⟨bd, lo, up, w, c⟩ := i
  simp only at hb
  subst hb
  have hnt : (new == BOT) = false := by simpa using ch.not_bot new hS
  unfold belowI
  simp only [hnt]
  have hS' : BoundsIn S { lower := lo, upper := some (optMax up new), wildcard := false, cset := c } := by
    refine ⟨fun l hl => hi.1 l hl, fun u' hu' => ?_⟩
    simp only [Option.some.injEq] at hu'
    subst hu'
    cases up with
    | none => exact hS
    | some u0 =>
      simp only [optMax]
      rcases Nat.le_total u0 new with h | h
      · rw [Nat.max_eq_right h]; exact hS
      · rw [Nat.max_eq_left h]; exact hi.2 u0 rfl
  rw [← closeDI_chain wf ch hS' rfl rfl]
  cases lo with
  | none =>
    cases up with
    | none => simp [optMax]
    | some u =>
      have e1 := opSub_strict_chain wf ch (hi.2 u rfl) hS
      have e2 := opSub_chain wf ch hS (hi.2 u rfl)
      by_cases h : new < u
      · simp [optMax, e1, h, Nat.max_eq_left (Nat.le_of_lt h)]
      · simp [optMax, e1, e2, h, Nat.max_eq_right (Nat.le_of_not_lt h), Nat.le_of_not_lt h]
  | some l =>
    have e3 := opSub_strict_chain wf ch hS (hi.1 l rfl)
    have e4 := opSub_chain wf ch (hi.1 l rfl) hS
    by_cases hl : l < new
    · simp [e3, hl]
    · cases up with
      | none => simp [e3, e4, hl, Nat.le_of_not_lt hl, optMax]
      | some u =>
        have e1 := opSub_strict_chain wf ch (hi.2 u rfl) hS
        have e2 := opSub_chain wf ch hS (hi.2 u rfl)
        by_cases h : new < u
        · simp [optMax, e1, e3, e4, hl, h, Nat.le_of_not_lt hl, Nat.max_eq_left (Nat.le_of_lt h)]
        · simp [optMax, e1, e2, e3, e4, hl, h, Nat.le_of_not_lt hl, Nat.max_eq_right (Nat.le_of_not_lt h), Nat.le_of_not_lt h]

/-! ## 5. sequences of supplies: closed form -/

theorem list_snoc_induction {α : Type} {P : List α → Prop} (nil : P [])
    (snoc : ∀ xs x, P xs → P (xs ++ [x])) : ∀ xs, P xs := by
  intro xs
  rw [← List.reverse_reverse xs]
  induction xs.reverse with
  | nil => simpa using nil
  | cons x ys ih => rw [List.reverse_cons]; exact snoc _ _ ih

/-- a supply: `(true, a)` gives `a` from below (covariant argument, `above`),
`(false, b)` gives `b` from above (contravariant argument, `below`) -/
abbrev Op := Bool × Nat

def loStep (lo : Option Nat) (op : Op) : Option Nat := if op.1 then some (optMin lo op.2) else lo
def upStep (up : Option Nat) (op : Op) : Option Nat := if op.1 then up else some (optMax up op.2)
/-- least declaration index (= greatest in the declared order) among the covariant supplies -/
def lowerOf (ops : List Op) : Option Nat := ops.foldl loStep none
/-- greatest declaration index (= least in the declared order) among the contravariant supplies -/
def upperOf (ops : List Op) : Option Nat := ops.foldl upStep none

theorem lowerOf_snoc (ops : List Op) (op : Op) : lowerOf (ops ++ [op]) = loStep (lowerOf ops) op := by
  simp [lowerOf, List.foldl_append]

theorem upperOf_snoc (ops : List Op) (op : Op) : upperOf (ops ++ [op]) = upStep (upperOf ops) op := by
  simp [upperOf, List.foldl_append]

theorem lowerOf_spec (ops : List Op) :
    match lowerOf ops with
    | none => ∀ a, (true, a) ∉ ops
    | some m => (true, m) ∈ ops ∧ ∀ a, (true, a) ∈ ops → m ≤ a := by
  induction ops using list_snoc_induction with
  | nil => simp [lowerOf]
  | snoc ops op ih =>
    rw [lowerOf_snoc]
    obtain ⟨d, x⟩ := op
    cases d with
    | false =>
      simp only [loStep, Bool.false_eq_true, if_false]
      cases h : lowerOf ops with
      | none => rw [h] at ih; simpa using ih
      | some m =>
        rw [h] at ih
        simp only [List.mem_append, List.mem_singleton, Prod.mk.injEq, Bool.true_eq_false, false_and,
          or_false]
        exact ih
    | true =>
      simp only [loStep, if_true]
      cases h : lowerOf ops with
      | none =>
        rw [h] at ih
        simp only [optMin, List.mem_append, List.mem_singleton, Prod.mk.injEq, true_and]
        refine ⟨Or.inr trivial, fun a ha => ?_⟩
        rcases ha with ha | ha
        · exact absurd ha (ih a)
        · omega
      | some m =>
        rw [h] at ih
        simp only [optMin, List.mem_append, List.mem_singleton, Prod.mk.injEq, true_and]
        refine ⟨?_, fun a ha => ?_⟩
        · rcases Nat.le_total m x with hmx | hmx
          · rw [Nat.min_eq_left hmx]; exact Or.inl ih.1
          · rw [Nat.min_eq_right hmx]; exact Or.inr rfl
        · rcases ha with ha | ha
          · have := ih.2 a ha; omega
          · omega

theorem upperOf_spec (ops : List Op) :
    match upperOf ops with
    | none => ∀ b, (false, b) ∉ ops
    | some m => (false, m) ∈ ops ∧ ∀ b, (false, b) ∈ ops → b ≤ m := by
  induction ops using list_snoc_induction with
  | nil => simp [upperOf]
  | snoc ops op ih =>
    rw [upperOf_snoc]
    obtain ⟨d, x⟩ := op
    cases d with
    | true =>
      simp only [upStep, if_true]
      cases h : upperOf ops with
      | none => rw [h] at ih; simpa using ih
      | some m =>
        rw [h] at ih
        simp only [List.mem_append, List.mem_singleton, Prod.mk.injEq, Bool.false_eq_true, false_and,
          or_false]
        exact ih
    | false =>
      simp only [upStep, Bool.false_eq_true, if_false]
      cases h : upperOf ops with
      | none =>
        rw [h] at ih
        simp only [optMax, List.mem_append, List.mem_singleton, Prod.mk.injEq, true_and]
        refine ⟨Or.inr trivial, fun a ha => ?_⟩
        rcases ha with ha | ha
        · exact absurd ha (ih a)
        · omega
      | some m =>
        rw [h] at ih
        simp only [optMax, List.mem_append, List.mem_singleton, Prod.mk.injEq, true_and]
        refine ⟨?_, fun a ha => ?_⟩
        · rcases Nat.le_total m x with hmx | hmx
          · rw [Nat.max_eq_right hmx]; exact Or.inr rfl
          · rw [Nat.max_eq_left hmx]; exact Or.inl ih.1
        · rcases ha with ha | ha
          · have := ih.2 a ha; omega
          · omega

/-- one supply through `unify`, seen on the record: a bound variable is only checked -/
def supI (L : Lang) (i : VarInfo) (op : Op) : Except Err VarInfo :=
  match i.bound with
  | none =>
    if op.1 then (if op.2 == BOT then .ok i else aboveI L i op.2)
    else (if op.2 == TOP then .ok i else belowI L i op.2)
  | some (.app m _) =>
    if op.1 then
      if op.2 == BOT || m == TOP then .ok i
      else if !opSub L op.2 m then .error .subtypeMismatch else .ok i
    else
      if m == BOT || op.2 == TOP then .ok i
      else if !opSub L m op.2 then .error .subtypeMismatch else .ok i
  | some (.var _) => .ok i

/-- one raw supply (`above`/`below` called directly), seen on the record -/
def rawI (L : Lang) (i : VarInfo) (op : Op) : Except Err VarInfo :=
  if op.1 then aboveI L i op.2 else belowI L i op.2

def stepE {α : Type} (f : α → Op → Except Err α) (r : Except Err α) (op : Op) : Except Err α :=
  match r with
  | .error e => .error e
  | .ok i => f i op

def runSupI (L : Lang) (i : VarInfo) (ops : List Op) : Except Err VarInfo :=
  ops.foldl (stepE (supI L)) (.ok i)
def runRawI (L : Lang) (i : VarInfo) (ops : List Op) : Except Err VarInfo :=
  ops.foldl (stepE (rawI L)) (.ok i)

def okBounds (lo up : Option Nat) : Bool :=
  match lo, up with
  | some l, some u => decide (u ≤ l)
  | _, _ => true

theorem supI_closed {L : Lang} (wf : WF L) {S : Nat → Prop} (ch : ChainOn L S)
    (lo up : Option Nat) (w : Bool) (c : Nat)
    (hin : BoundsIn S { lower := lo, upper := up, wildcard := w, cset := c })
    (hw : lo ≠ none → up ≠ none → w = false)
    (hok : okBounds lo up = true) (op : Op) (hS : S op.2) :
    supI L (sealI { lower := lo, upper := up, wildcard := w, cset := c }) op =
      if okBounds (loStep lo op) (upStep up op) then
        .ok (sealI { lower := loStep lo op, upper := upStep up op, wildcard := false, cset := c })
      else .error .subtypeMismatch := by
  obtain ⟨d, x⟩ := op
  have hxt : (x == TOP) = false := by simpa using ch.not_top x hS
  have hxb : (x == BOT) = false := by simpa using ch.not_bot x hS
  by_cases hsealed : ∃ m, lo = some m ∧ up = some m
  · obtain ⟨m, rfl, rfl⟩ := hsealed
    have hm : S m := hin.1 m rfl
    have hmt : (m == TOP) = false := by simpa using ch.not_top m hm
    have hmb : (m == BOT) = false := by simpa using ch.not_bot m hm
    have hw' : w = false := hw (by simp) (by simp)
    subst hw'
    have e1 := opSub_chain wf ch hS hm
    have e2 := opSub_chain wf ch hm hS
    cases d with
    | true =>
      by_cases h : m ≤ x
      · simp [supI, sealI, loStep, upStep, optMin, okBounds, hxb, hmt, e1, h, Nat.min_eq_left h]
      · simp [supI, sealI, loStep, upStep, optMin, okBounds, hxb, hmt, e1, h]
        omega
    | false =>
      by_cases h : x ≤ m
      · simp [supI, sealI, loStep, upStep, optMax, okBounds, hxt, hmb, e2, h, Nat.max_eq_left h]
      · simp [supI, sealI, loStep, upStep, optMax, okBounds, hxt, hmb, e2, h]
        omega
  · have hns : sealI { lower := lo, upper := up, wildcard := w, cset := c } =
        { lower := lo, upper := up, wildcard := w, cset := c } := by
      unfold sealI
      cases lo with
      | none => rfl
      | some l =>
        cases up with
        | none => rfl
        | some u =>
          have : l ≠ u := fun e => hsealed ⟨l, rfl, by rw [e]⟩
          simp [this]
    rw [hns]
    cases d with
    | true =>
      simp only [supI, hxb, if_true, Bool.false_eq_true, if_false]
      rw [aboveI_chain wf ch hS hin rfl]
      simp only [loStep, upStep, if_true]
      cases up with
      | none => simp [okBounds]
      | some u =>
        cases lo with
        | none =>
          simp only [okBounds, optMin, Option.any_some, decide_eq_true_eq]
          by_cases hxu : x < u
          · have : ¬ u ≤ x := by omega
            simp [hxu, this]
          · have : u ≤ x := by omega
            simp [hxu, this]
        | some l =>
          simp only [okBounds, decide_eq_true_eq] at hok
          simp only [okBounds, optMin, Option.any_some, decide_eq_true_eq]
          by_cases hxu : x < u
          · have : ¬ u ≤ min l x := by omega
            simp [hxu, this]
          · have : u ≤ min l x := by omega
            simp [hxu, this]
    | false =>
      simp only [supI, hxt, Bool.false_eq_true, if_false]
      rw [belowI_chain wf ch hS hin rfl]
      simp only [loStep, upStep, Bool.false_eq_true, if_false]
      cases lo with
      | none => cases up <;> simp [okBounds]
      | some l =>
        cases up with
        | none =>
          simp only [okBounds, optMax, Option.any_some, decide_eq_true_eq]
          by_cases hxu : l < x
          · have : ¬ x ≤ l := by omega
            simp [hxu, this]
          · have : x ≤ l := by omega
            simp [hxu, this]
        | some u =>
          simp only [okBounds, decide_eq_true_eq] at hok
          simp only [okBounds, optMax, Option.any_some, decide_eq_true_eq]
          by_cases hxu : l < x
          · have : ¬ max u x ≤ l := by omega
            simp [hxu, this]
          · have : max u x ≤ l := by omega
            simp [hxu, this]

theorem okBounds_step_false {lo up : Option Nat} (h : okBounds lo up = false) (op : Op) :
    okBounds (loStep lo op) (upStep up op) = false := by
  obtain ⟨d, x⟩ := op
  cases lo with
  | none => simp [okBounds] at h
  | some l =>
    cases up with
    | none => simp [okBounds] at h
    | some u =>
      simp only [okBounds, decide_eq_false_iff_not] at h
      cases d with
      | true =>
        simp only [loStep, upStep, if_true, optMin, okBounds, decide_eq_false_iff_not]
        omega
      | false =>
        simp only [loStep, upStep, Bool.false_eq_true, if_false, optMax, okBounds, decide_eq_false_iff_not]
        omega

theorem runSupI_snoc (L : Lang) (i : VarInfo) (ops : List Op) (op : Op) :
    runSupI L i (ops ++ [op]) = stepE (supI L) (runSupI L i ops) op := by
  simp [runSupI, List.foldl_append]

theorem runRawI_snoc (L : Lang) (i : VarInfo) (ops : List Op) (op : Op) :
    runRawI L i (ops ++ [op]) = stepE (rawI L) (runRawI L i ops) op := by
  simp [runRawI, List.foldl_append]

/-- the record reached after the supplies `ops` (when they are compatible) -/
def closedI (w : Bool) (c : Nat) (ops : List Op) : VarInfo :=
  sealI { lower := lowerOf ops, upper := upperOf ops, wildcard := w && ops.isEmpty, cset := c }

/-- closed form of any interleaving of covariant and contravariant supplies on a chain -/
theorem runSupI_chain {L : Lang} (wf : WF L) {S : Nat → Prop} (ch : ChainOn L S) (w : Bool) (c : Nat)
    (ops : List Op) : (∀ op ∈ ops, S op.2) →
    runSupI L { wildcard := w, cset := c } ops =
      if okBounds (lowerOf ops) (upperOf ops) then .ok (closedI w c ops)
      else .error .subtypeMismatch := by
  induction ops using list_snoc_induction with
  | nil => intro _; simp [runSupI, lowerOf, upperOf, okBounds, closedI, sealI]
  | snoc ops op ih =>
    intro hS
    have ih' := ih (fun o ho => hS o (List.mem_append_left _ ho))
    have hop : S op.2 := hS op (by simp)
    rw [runSupI_snoc, ih']
    unfold closedI
    rw [lowerOf_snoc, upperOf_snoc]
    have hlo := lowerOf_spec ops
    have hup := upperOf_spec ops
    generalize lowerOf ops = lo at *
    generalize upperOf ops = up at *
    by_cases hok : okBounds lo up = true
    · simp only [hok, if_true, stepE]
      have hin : BoundsIn S { lower := lo, upper := up, wildcard := w && ops.isEmpty, cset := c } := by
        constructor
        · intro l hl; simp only at hl; subst hl
          exact hS (true, l) (List.mem_append_left _ hlo.1)
        · intro u hu; simp only at hu; subst hu
          exact hS (false, u) (List.mem_append_left _ hup.1)
      have hw : lo ≠ none → up ≠ none → (w && ops.isEmpty) = false := by
        intro h1 _
        cases lo with
        | none => exact absurd rfl h1
        | some l =>
          have : ops ≠ [] := List.ne_nil_of_mem hlo.1
          simp [this]
      rw [supI_closed wf ch lo up _ c hin hw hok op hop]
      have he : (ops ++ [op]).isEmpty = false := by cases ops <;> rfl
      rw [he, Bool.and_false]
    · have hok' : okBounds lo up = false := by simpa using hok
      simp [hok', stepE, okBounds_step_false hok' op]

/-! ## 6. invariants of the record machine -/

/-- the record is unbound or bound to a base type, and its bounds are base types -/
def InvI (L : Lang) (i : VarInfo) : Prop :=
  NullaryBounds L i ∧ (i.bound = none ∨ ∃ m, i.bound = some (.app m []) ∧ arityOf L m = 0)

theorem bindBaseI_inv {L : Lang} {i j : VarInfo} {o : Nat} (hi : NullaryBounds L i) (ho : arityOf L o = 0)
    (h : bindBaseI L i o = .ok j) : InvI L j := by
  unfold bindBaseI at h
  split at h
  · cases h
  · split at h
    · cases h
    · split at h
      · cases h
      · injection h with h
        subst h
        exact ⟨hi, Or.inr ⟨o, rfl, ho⟩⟩

theorem closeI_inv {L : Lang} {i j : VarInfo} (hi : InvI L i) (h : closeI L i = .ok j) : InvI L j := by
  unfold closeI at h
  split at h
  · cases hlo : i.lower with
    | none => rw [hlo] at h; injection h with h; subst h; exact hi
    | some l => rw [hlo] at h; exact bindBaseI_inv hi.1 (hi.1.1 l hlo) h
  · injection h with h; subst h; exact hi

theorem closeDI_inv {L : Lang} {i j : VarInfo} (hi : InvI L i) (h : closeDI L i = .ok j) : InvI L j := by
  unfold closeDI at h
  split at h
  · cases hlo : i.upper with
    | none => rw [hlo] at h; injection h with h; subst h; exact hi
    | some l => rw [hlo] at h; exact bindBaseI_inv hi.1 (hi.1.2 l hlo) h
  · injection h with h; subst h; exact hi

theorem aboveI_inv {L : Lang} {i j : VarInfo} {new : Nat} (hi : InvI L i) (htop : arityOf L TOP = 0)
    (hnew : arityOf L new = 0) (h : aboveI L i new = .ok j) : InvI L j := by
  unfold aboveI at h
  split at h
  · exact bindBaseI_inv hi.1 htop h
  · simp only at h
    split at h
    · cases h
    · rename_i hb
      have hb' : i.bound = none := by simpa using hb
      split at h
      · cases h
      · split at h
        · cases h
        · split at h
          · refine closeI_inv ?_ h
            exact ⟨⟨hi.1.1, hi.1.2⟩, Or.inl hb'⟩
          · split at h
            · refine closeI_inv ?_ h
              refine ⟨⟨?_, hi.1.2⟩, Or.inl hb'⟩
              intro l hl; injection hl with hl; subst hl; exact hnew
            · cases h

theorem belowI_inv {L : Lang} {i j : VarInfo} {new : Nat} (hi : InvI L i) (hbot : arityOf L BOT = 0)
    (hnew : arityOf L new = 0) (h : belowI L i new = .ok j) : InvI L j := by
  unfold belowI at h
  split at h
  · exact bindBaseI_inv hi.1 hbot h
  · simp only at h
    split at h
    · cases h
    · rename_i hb
      have hb' : i.bound = none := by simpa using hb
      split at h
      · cases h
      · split at h
        · cases h
        · split at h
          · refine closeDI_inv ?_ h
            exact ⟨⟨hi.1.1, hi.1.2⟩, Or.inl hb'⟩
          · split at h
            · refine closeDI_inv ?_ h
              refine ⟨⟨hi.1.1, ?_⟩, Or.inl hb'⟩
              intro l hl; injection hl with hl; subst hl; exact hnew
            · cases h

/-! ## 7. `follow`, `occurs`, and `unify` against a base type -/

theorem followT_app (σ : Store) (o : Nat) (args : List Term) : followT σ (.app o args) = .app o args := by
  unfold followT follow
  rfl

theorem followT_var_unbound {σ : Store} {v : Nat} (h : (getVar σ v).bound = none) :
    followT σ (.var v) = .var v := by
  unfold followT follow
  rw [h]

theorem followT_var_app {σ : Store} {v m : Nat} {ms : List Term}
    (h : (getVar σ v).bound = some (.app m ms)) : followT σ (.var v) = .app m ms := by
  unfold followT follow
  rw [h]
  simp only
  cases σ.vars.length <;> (unfold follow; rfl)

theorem match3_nullary_var (L : Lang) (σ : Store) (n a v : Nat) (h0 : arityOf L a = 0)
    (hb : (getVar σ v).bound = none) :
    match3 L σ n false false (.app a []) (.var v) ≠ some true := by
  cases n with
  | zero => unfold match3; simp
  | succ n =>
    unfold match3
    rw [followT_app, followT_var_unbound hb]
    simp only [Bool.false_and, Bool.false_eq_true, if_false, h0]
    split
    · simp
    · split
      · simp
      · split <;> simp

theorem occurs_nullary_var (L : Lang) (σ : Store) (k a v : Nat) (h0 : arityOf L a = 0)
    (hb : (getVar σ v).bound = none) :
    occurs L σ k (.app a []) (.var v) = false := by
  cases k with
  | zero => unfold occurs; rfl
  | succ k =>
    unfold occurs
    rw [followT_app, followT_var_unbound hb]
    have := match3_nullary_var L σ (matchFuel σ) a v h0 hb
    simp [this]

theorem unify_base_var (L : Lang) (σ : Store) (n a v : Nat) (h0 : arityOf L a = 0)
    (hb : (getVar σ v).bound = none) (hne : a ≠ BOT) :
    unify L (n+1) σ (.app a []) (.var v) true false false = above L n σ v a := by
  unfold unify
  rw [followT_app, followT_var_unbound hb]
  have : (a == BOT) = false := by simpa using hne
  simp [this, occurs_nullary_var L σ _ a v h0 hb, h0]

theorem unify_var_base (L : Lang) (σ : Store) (n b v : Nat) (h0 : arityOf L b = 0)
    (hb : (getVar σ v).bound = none) (hne : b ≠ TOP) :
    unify L (n+1) σ (.var v) (.app b []) true false false = below L n σ v b := by
  unfold unify
  rw [followT_app, followT_var_unbound hb]
  have : (b == TOP) = false := by simpa using hne
  simp [this, occurs_nullary_var L σ _ b v h0 hb, h0]

theorem unify_base_bound (L : Lang) (σ : Store) (n a v m : Nat) (ms : List Term) (h0 : arityOf L a = 0)
    (hb : (getVar σ v).bound = some (.app m ms)) :
    unify L (n+1) σ (.app a []) (.var v) true false false =
      if a == BOT || m == TOP then .ok σ
      else if !opSub L a m then .error .subtypeMismatch else .ok σ := by
  unfold unify
  rw [followT_app, followT_var_app hb]
  simp [h0]

theorem unify_bound_base (L : Lang) (σ : Store) (n b v m : Nat) (ms : List Term) (h0 : arityOf L m = 0)
    (hb : (getVar σ v).bound = some (.app m ms)) :
    unify L (n+1) σ (.var v) (.app b []) true false false =
      if m == BOT || b == TOP then .ok σ
      else if !opSub L m b then .error .subtypeMismatch else .ok σ := by
  unfold unify
  rw [followT_app, followT_var_app hb]
  simp [h0]

/-! ## 8. runs on the store -/

/-- `above`/`below` called directly -/
def rawSupply (L : Lang) (n v : Nat) (σ : Store) (op : Op) : R :=
  if op.1 then above L n σ v op.2 else below L n σ v op.2

/-- a base-type argument meeting the variable `v` through `unify` (as `apply` does):
covariant supplies put the argument on the left -/
def supply (L : Lang) (n v : Nat) (σ : Store) (op : Op) : R :=
  if op.1 then unify L n σ (.app op.2 []) (.var v) true false false
  else unify L n σ (.var v) (.app op.2 []) true false false

def runRaw (L : Lang) (n : Nat) (σ : Store) (v : Nat) (ops : List Op) : R :=
  ops.foldl (stepE (rawSupply L n v)) (.ok σ)
def runSupply (L : Lang) (n : Nat) (σ : Store) (v : Nat) (ops : List Op) : R :=
  ops.foldl (stepE (supply L n v)) (.ok σ)

/-- left fold of `above · v a` over the arguments, in the `Except` monad -/
def aboveAll (L : Lang) (n : Nat) (σ : Store) (v : Nat) (as : List Nat) : R :=
  as.foldl (fun r a => match r with | .error e => .error e | .ok σ1 => above L n σ1 v a) (.ok σ)
def belowAll (L : Lang) (n : Nat) (σ : Store) (v : Nat) (bs : List Nat) : R :=
  bs.foldl (fun r b => match r with | .error e => .error e | .ok σ1 => below L n σ1 v b) (.ok σ)

theorem aboveAll_eq_runRaw (L : Lang) (n : Nat) (σ : Store) (v : Nat) (as : List Nat) :
    aboveAll L n σ v as = runRaw L n σ v (as.map fun a => (true, a)) := by
  unfold aboveAll runRaw
  rw [List.foldl_map]
  congr 1
  funext r a
  cases r <;> rfl

theorem belowAll_eq_runRaw (L : Lang) (n : Nat) (σ : Store) (v : Nat) (bs : List Nat) :
    belowAll L n σ v bs = runRaw L n σ v (bs.map fun b => (false, b)) := by
  unfold belowAll runRaw
  rw [List.foldl_map]
  congr 1
  funext r a
  cases r <;> rfl

theorem liftI_setVar (σ : Store) (v : Nat) (j : VarInfo) (r : Except Err VarInfo) :
    liftI (setVar σ v j) v r = liftI σ v r := by
  cases r <;> simp [liftI, setVar_setVar]

theorem rawSupply_eq (L : Lang) (wf : WF L) {σ : Store} (nc : NoConstraints σ) (n v : Nat)
    (hv : v < σ.vars.length) (op : Op) (h0 : arityOf L op.2 = 0) (hi : NullaryBounds L (getVar σ v)) :
    rawSupply L (n+4) v σ op = liftI σ v (rawI L (getVar σ v) op) := by
  unfold rawSupply rawI
  split
  · exact above_eq L nc n v op.2 hv (arity_top wf) h0 hi.1
  · exact below_eq L nc n v op.2 hv (arity_bot wf) h0 hi.2

theorem rawI_inv {L : Lang} (wf : WF L) {i j : VarInfo} {op : Op} (hi : InvI L i)
    (h0 : arityOf L op.2 = 0) (h : rawI L i op = .ok j) : InvI L j := by
  unfold rawI at h
  split at h
  · exact aboveI_inv hi (arity_top wf) h0 h
  · exact belowI_inv hi (arity_bot wf) h0 h

theorem supI_inv {L : Lang} (wf : WF L) {i j : VarInfo} {op : Op} (hi : InvI L i)
    (h0 : arityOf L op.2 = 0) (h : supI L i op = .ok j) : InvI L j := by
  unfold supI at h
  split at h
  · split at h
    · split at h
      · injection h with h; subst h; exact hi
      · exact aboveI_inv hi (arity_top wf) h0 h
    · split at h
      · injection h with h; subst h; exact hi
      · exact belowI_inv hi (arity_bot wf) h0 h
  · have : j = i := by
      split at h
      · split at h
        · injection h with h; exact h.symm
        · split at h
          · cases h
          · injection h with h; exact h.symm
      · split at h
        · injection h with h; exact h.symm
        · split at h
          · cases h
          · injection h with h; exact h.symm
    rw [this]; exact hi
  · injection h with h; subst h; exact hi

theorem supply_eq (L : Lang) (wf : WF L) {σ : Store} (nc : NoConstraints σ) (n v : Nat)
    (hv : v < σ.vars.length) (op : Op) (h0 : arityOf L op.2 = 0) (hi : InvI L (getVar σ v)) :
    supply L (n+5) v σ op = liftI σ v (supI L (getVar σ v) op) := by
  unfold supply supI
  rcases hi.2 with hb | ⟨m, hb, hm⟩
  · rw [hb]
    simp only
    split
    · split
      · rename_i h; rw [unify]; rw [followT_app, followT_var_unbound hb]
        simp [h, liftI, setVar_getVar]
      · rename_i h
        rw [unify_base_var L σ (n+4) op.2 v h0 hb (by simpa using h)]
        exact above_eq L nc n v op.2 hv (arity_top wf) h0 hi.1.1
    · split
      · rename_i h; rw [unify]; rw [followT_app, followT_var_unbound hb]
        simp [h, liftI, setVar_getVar]
      · rename_i h
        rw [unify_var_base L σ (n+4) op.2 v h0 hb (by simpa using h)]
        exact below_eq L nc n v op.2 hv (arity_bot wf) h0 hi.1.2
  · rw [hb]
    simp only
    split
    · rw [unify_base_bound L σ (n+4) op.2 v m [] h0 hb]
      split
      · simp [liftI, setVar_getVar]
      · split <;> simp [liftI, setVar_getVar]
    · rw [unify_bound_base L σ (n+4) op.2 v m [] hm hb]
      split
      · simp [liftI, setVar_getVar]
      · split <;> simp [liftI, setVar_getVar]

theorem runE_transfer (σ : Store) (v : Nat) (f : Store → Op → R) (g : VarInfo → Op → Except Err VarInfo)
    (P : VarInfo → Prop) (Q : Op → Prop)
    (hstep : ∀ j op, Q op → P j → f (setVar σ v j) op = liftI σ v (g j op))
    (hinv : ∀ j j' op, Q op → P j → g j op = .ok j' → P j')
    (h0 : P (getVar σ v)) (ops : List Op) : (∀ op ∈ ops, Q op) →
    (ops.foldl (stepE f) (.ok σ) = liftI σ v (ops.foldl (stepE g) (.ok (getVar σ v))) ∧
      ∀ j, ops.foldl (stepE g) (.ok (getVar σ v)) = .ok j → P j) := by
  induction ops using list_snoc_induction with
  | nil =>
    intro _
    refine ⟨?_, fun j hj => ?_⟩
    · simp [liftI, setVar_getVar]
    · simp only [List.foldl_nil] at hj
      injection hj with hj; subst hj; exact h0
  | snoc ops op ih =>
    intro hQ
    obtain ⟨ih1, ih2⟩ := ih (fun o ho => hQ o (List.mem_append_left _ ho))
    have hq : Q op := hQ op (by simp)
    rw [List.foldl_append, List.foldl_append, ih1]
    simp only [List.foldl_cons, List.foldl_nil]
    cases hr : ops.foldl (stepE g) (.ok (getVar σ v)) with
    | error e => simp [liftI, stepE]
    | ok j =>
      have hj := ih2 j hr
      refine ⟨?_, fun j' hj' => hinv j j' op hq hj hj'⟩
      simp only [liftI, stepE]
      rw [hstep j op hq hj]
      cases g j op <;> rfl

theorem runRaw_eq (L : Lang) (wf : WF L) {σ : Store} (nc : NoConstraints σ) (n v : Nat)
    (hv : v < σ.vars.length) (ops : List Op) (h0 : ∀ op ∈ ops, arityOf L op.2 = 0)
    (hi : InvI L (getVar σ v)) :
    runRaw L (n+4) σ v ops = liftI σ v (runRawI L (getVar σ v) ops) := by
  refine (runE_transfer σ v (rawSupply L (n+4) v) (rawI L) (InvI L) (fun op => arityOf L op.2 = 0)
    ?_ ?_ hi ops h0).1
  · intro j op hq hj
    have := rawSupply_eq L wf (noConstraints_setVar nc v j) n v (by rw [setVar_length]; exact hv) op hq
      (by rw [getVar_setVar_same hv]; exact hj.1)
    rw [this, getVar_setVar_same hv, liftI_setVar]
  · intro j j' op hq hj h
    exact rawI_inv wf hj hq h

theorem runSupply_eq (L : Lang) (wf : WF L) {σ : Store} (nc : NoConstraints σ) (n v : Nat)
    (hv : v < σ.vars.length) (ops : List Op) (h0 : ∀ op ∈ ops, arityOf L op.2 = 0)
    (hi : InvI L (getVar σ v)) :
    runSupply L (n+5) σ v ops = liftI σ v (runSupI L (getVar σ v) ops) := by
  refine (runE_transfer σ v (supply L (n+5) v) (supI L) (InvI L) (fun op => arityOf L op.2 = 0)
    ?_ ?_ hi ops h0).1
  · intro j op hq hj
    have := supply_eq L wf (noConstraints_setVar nc v j) n v (by rw [setVar_length]; exact hv) op hq
      (by rw [getVar_setVar_same hv]; exact hj)
    rw [this, getVar_setVar_same hv, liftI_setVar]
  · intro j j' op hq hj h
    exact supI_inv wf hj hq h

/-- a record is bound-free: unbound and without bounds -/
def FreshI (i : VarInfo) : Prop := i.bound = none ∧ i.lower = none ∧ i.upper = none

theorem freshI_eta {i : VarInfo} (h : FreshI i) : i = { wildcard := i.wildcard, cset := i.cset } := by
  obtain ⟨bd, lo, up, w, c⟩ := i
  obtain ⟨h1, h2, h3⟩ := h
  simp only at h1 h2 h3
  subst h1 h2 h3
  rfl

theorem freshI_inv (L : Lang) {i : VarInfo} (h : FreshI i) : InvI L i := by
  refine ⟨⟨fun l hl => ?_, fun u hu => ?_⟩, Or.inl h.1⟩
  · rw [h.2.1] at hl; cases hl
  · rw [h.2.2] at hu; cases hu

/-- **closed form**, through `unify`: any interleaving of supplies from one chain -/
theorem runSupply_chain (L : Lang) (wf : WF L) {S : Nat → Prop} (ch : ChainOn L S) {σ : Store}
    (nc : NoConstraints σ) (n v : Nat) (hv : v < σ.vars.length) (hf : FreshI (getVar σ v))
    (ops : List Op) (hS : ∀ op ∈ ops, S op.2) :
    runSupply L (n+5) σ v ops =
      if okBounds (lowerOf ops) (upperOf ops) then
        .ok (setVar σ v (closedI (getVar σ v).wildcard (getVar σ v).cset ops))
      else .error .subtypeMismatch := by
  rw [runSupply_eq L wf nc n v hv ops (fun op h => ch.nullary _ (hS op h)) (freshI_inv L hf)]
  rw [freshI_eta hf, runSupI_chain wf ch _ _ ops hS]
  split <;> rfl

/-- supplies with a non-BOT covariant / non-TOP contravariant argument -/
def Proper (op : Op) : Prop := if op.1 then op.2 ≠ BOT else op.2 ≠ TOP

theorem supI_bound {L : Lang} {i j : VarInfo} {op : Op} (hb : i.bound ≠ none) (h : supI L i op = .ok j) :
    j = i := by
  unfold supI at h
  split at h
  · rename_i hb'; exact absurd hb' hb
  · split at h
    · split at h
      · injection h with h; exact h.symm
      · split at h
        · cases h
        · injection h with h; exact h.symm
    · split at h
      · injection h with h; exact h.symm
      · split at h
        · cases h
        · injection h with h; exact h.symm
  · injection h with h; exact h.symm

theorem supI_unbound {L : Lang} {i : VarInfo} {op : Op} (hb : i.bound = none) (hp : Proper op) :
    supI L i op = rawI L i op := by
  unfold supI rawI Proper at *
  rw [hb]
  simp only
  split
  · rename_i h; simp only [h, if_true] at hp; simp [hp]
  · rename_i h
    have hp' : op.2 ≠ TOP := by simpa [h] using hp
    simp [hp']

/-- as long as the variable is still unbound at the end, direct `above`/`below` calls
and supplies through `unify` agree -/
theorem runRawI_of_runSupI (L : Lang) (i : VarInfo) (ops : List Op) : (∀ op ∈ ops, Proper op) →
    ∀ j, runSupI L i ops = .ok j → j.bound = none → runRawI L i ops = .ok j := by
  induction ops using list_snoc_induction with
  | nil => intro _ j h _; simpa [runSupI, runRawI] using h
  | snoc ops op ih =>
    intro hp j h hb
    rw [runSupI_snoc] at h
    rw [runRawI_snoc]
    cases hr : runSupI L i ops with
    | error e => rw [hr] at h; simp [stepE] at h
    | ok j' =>
      rw [hr] at h
      simp only [stepE] at h
      have hb' : j'.bound = none := by
        cases hbj : j'.bound with
        | none => rfl
        | some t =>
          have := supI_bound (by rw [hbj]; simp) h
          rw [this, hbj] at hb; cases hb
      rw [ih (fun o ho => hp o (List.mem_append_left _ ho)) j' hr hb']
      simp only [stepE]
      rw [← supI_unbound hb' (hp op (by simp))]
      exact h

theorem rawI_ok_unbound {L : Lang} {i j : VarInfo} {op : Op} (h : rawI L i op = .ok j) : i.bound = none := by
  cases hb : i.bound with
  | none => rfl
  | some t =>
    exfalso
    unfold rawI aboveI belowI bindBaseI at h
    simp only [hb, Option.isSome_some, if_true] at h
    split at h
    · split at h <;> cases h
    · split at h <;> cases h

/-- a successful run of direct `above`/`below` calls is also a successful run through `unify`,
with the same result -/
theorem runSupI_of_runRawI (L : Lang) (i : VarInfo) (ops : List Op) : (∀ op ∈ ops, Proper op) →
    ∀ j, runRawI L i ops = .ok j → runSupI L i ops = .ok j := by
  induction ops using list_snoc_induction with
  | nil => intro _ j h; simpa [runSupI, runRawI] using h
  | snoc ops op ih =>
    intro hp j h
    rw [runRawI_snoc] at h
    rw [runSupI_snoc]
    cases hr : runRawI L i ops with
    | error e => rw [hr] at h; simp [stepE] at h
    | ok j' =>
      rw [hr] at h
      simp only [stepE] at h
      rw [ih (fun o ho => hp o (List.mem_append_left _ ho)) j' hr]
      simp only [stepE]
      rw [supI_unbound (rawI_ok_unbound h) (hp op (by simp))]
      exact h

/-- when the run through `unify` fails, direct calls fail as well (possibly with another error) -/
theorem runRawI_fails (L : Lang) (i : VarInfo) (ops : List Op) (hp : ∀ op ∈ ops, Proper op)
    (e : Err) (h : runSupI L i ops = .error e) : ∃ e', runRawI L i ops = .error e' := by
  cases hr : runRawI L i ops with
  | error e' => exact ⟨e', rfl⟩
  | ok j => rw [runSupI_of_runRawI L i ops hp j hr] at h; cases h

def strictBounds (lo up : Option Nat) : Bool :=
  match lo, up with
  | some l, some u => decide (u < l)
  | _, _ => true

theorem okBounds_of_strict {lo up : Option Nat} (h : strictBounds lo up = true) : okBounds lo up = true := by
  cases lo <;> cases up <;> simp_all [strictBounds, okBounds]
  omega

theorem sealI_strict {lo up : Option Nat} (h : strictBounds lo up = true) (w : Bool) (c : Nat) :
    sealI { lower := lo, upper := up, wildcard := w, cset := c } =
      { lower := lo, upper := up, wildcard := w, cset := c } := by
  cases lo <;> cases up <;> simp_all [strictBounds, sealI]
  omega

theorem chain_proper {L : Lang} {S : Nat → Prop} (ch : ChainOn L S) {ops : List Op}
    (hS : ∀ op ∈ ops, S op.2) : ∀ op ∈ ops, Proper op := by
  intro op h
  unfold Proper
  split
  · exact ch.not_bot _ (hS op h)
  · exact ch.not_top _ (hS op h)

/-- **closed form**, direct calls: any interleaving of `above`/`below` on a chain in which every
`above` argument lies strictly below every `below` argument -/
theorem runRaw_chain_strict (L : Lang) (wf : WF L) {S : Nat → Prop} (ch : ChainOn L S) {σ : Store}
    (nc : NoConstraints σ) (n v : Nat) (hv : v < σ.vars.length) (hf : FreshI (getVar σ v))
    (ops : List Op) (hS : ∀ op ∈ ops, S op.2)
    (hs : strictBounds (lowerOf ops) (upperOf ops) = true) :
    runRaw L (n+4) σ v ops =
      .ok (setVar σ v { lower := lowerOf ops, upper := upperOf ops,
                        wildcard := (getVar σ v).wildcard && ops.isEmpty, cset := (getVar σ v).cset }) := by
  rw [runRaw_eq L wf nc n v hv ops (fun op h => ch.nullary _ (hS op h)) (freshI_inv L hf)]
  have h1 := runSupI_chain wf ch (getVar σ v).wildcard (getVar σ v).cset ops hS
  rw [okBounds_of_strict hs, if_pos rfl] at h1
  unfold closedI at h1
  rw [sealI_strict hs] at h1
  rw [freshI_eta hf, runRawI_of_runSupI L _ ops (chain_proper ch hS) _ h1 rfl]
  rfl

/-- direct calls never succeed where the run through `unify` fails -/
theorem runRaw_chain_fails (L : Lang) (wf : WF L) {S : Nat → Prop} (ch : ChainOn L S) {σ : Store}
    (nc : NoConstraints σ) (n v : Nat) (hv : v < σ.vars.length) (hf : FreshI (getVar σ v))
    (ops : List Op) (hS : ∀ op ∈ ops, S op.2)
    (hs : okBounds (lowerOf ops) (upperOf ops) = false) :
    ∃ e, runRaw L (n+4) σ v ops = .error e := by
  rw [runRaw_eq L wf nc n v hv ops (fun op h => ch.nullary _ (hS op h)) (freshI_inv L hf)]
  have h1 := runSupI_chain wf ch (getVar σ v).wildcard (getVar σ v).cset ops hS
  rw [hs] at h1
  simp only [Bool.false_eq_true, if_false] at h1
  rw [← freshI_eta hf] at h1
  obtain ⟨e, he⟩ := runRawI_fails L _ ops (chain_proper ch hS) _ h1
  exact ⟨e, by rw [he]; rfl⟩

/-! ## 9. reading the closed form in the declared order -/

/-- `lo` is the greatest element of `A` in the declared order (`none` when `A` is empty) -/
def IsGreatest (L : Lang) (A : List Nat) : Option Nat → Prop
  | none => A = []
  | some m => m ∈ A ∧ ∀ a ∈ A, Anc L a m

/-- `up` is the least element of `B` in the declared order (`none` when `B` is empty) -/
def IsLeast (L : Lang) (B : List Nat) : Option Nat → Prop
  | none => B = []
  | some m => m ∈ B ∧ ∀ b ∈ B, Anc L m b

/-- arguments supplied in covariant position -/
def coArgs (ops : List Op) : List Nat := (ops.filter (fun op => op.1)).map (fun op => op.2)
/-- arguments supplied in contravariant position -/
def contraArgs (ops : List Op) : List Nat := (ops.filter (fun op => !op.1)).map (fun op => op.2)

theorem mem_coArgs {ops : List Op} {a : Nat} : a ∈ coArgs ops ↔ (true, a) ∈ ops := by
  unfold coArgs
  simp only [List.mem_map, List.mem_filter]
  constructor
  · rintro ⟨⟨d, x⟩, ⟨h1, h2⟩, h3⟩
    simp only at h2 h3
    subst h2 h3
    exact h1
  · intro h; exact ⟨(true, a), ⟨h, rfl⟩, rfl⟩

theorem mem_contraArgs {ops : List Op} {b : Nat} : b ∈ contraArgs ops ↔ (false, b) ∈ ops := by
  unfold contraArgs
  simp only [List.mem_map, List.mem_filter]
  constructor
  · rintro ⟨⟨d, x⟩, ⟨h1, h2⟩, h3⟩
    simp only [Bool.not_eq_eq_eq_not, Bool.not_true] at h2 h3
    subst h2 h3
    exact h1
  · intro h; exact ⟨(false, b), ⟨h, rfl⟩, rfl⟩

theorem lowerOf_isGreatest {L : Lang} (wf : WF L) {S : Nat → Prop} (ch : ChainOn L S) (ops : List Op)
    (hS : ∀ op ∈ ops, S op.2) : IsGreatest L (coArgs ops) (lowerOf ops) := by
  have h := lowerOf_spec ops
  cases hl : lowerOf ops with
  | none =>
    rw [hl] at h
    unfold IsGreatest
    apply List.eq_nil_iff_forall_not_mem.mpr
    intro a ha
    exact h a (mem_coArgs.mp ha)
  | some m =>
    rw [hl] at h
    refine ⟨mem_coArgs.mpr h.1, fun a ha => ?_⟩
    have ha' := mem_coArgs.mp ha
    exact (anc_chain_iff wf ch (hS _ ha') (hS _ h.1)).mpr (h.2 a ha')

theorem upperOf_isLeast {L : Lang} (wf : WF L) {S : Nat → Prop} (ch : ChainOn L S) (ops : List Op)
    (hS : ∀ op ∈ ops, S op.2) : IsLeast L (contraArgs ops) (upperOf ops) := by
  have h := upperOf_spec ops
  cases hl : upperOf ops with
  | none =>
    rw [hl] at h
    unfold IsLeast
    apply List.eq_nil_iff_forall_not_mem.mpr
    intro a ha
    exact h a (mem_contraArgs.mp ha)
  | some m =>
    rw [hl] at h
    refine ⟨mem_contraArgs.mpr h.1, fun a ha => ?_⟩
    have ha' := mem_contraArgs.mp ha
    exact (anc_chain_iff wf ch (hS _ h.1) (hS _ ha')).mpr (h.2 a ha')

theorem isGreatest_unique {L : Lang} (wf : WF L) {A : List Nat} {x y : Option Nat}
    (hx : IsGreatest L A x) (hy : IsGreatest L A y) : x = y := by
  cases x with
  | none =>
    cases y with
    | none => rfl
    | some m => unfold IsGreatest at hx; rw [hx] at hy; exact absurd hy.1 (by simp)
  | some l =>
    cases y with
    | none => unfold IsGreatest at hy; rw [hy] at hx; exact absurd hx.1 (by simp)
    | some m => rw [anc_antisymm wf (hy.2 l hx.1) (hx.2 m hy.1)]

theorem isLeast_unique {L : Lang} (wf : WF L) {A : List Nat} {x y : Option Nat}
    (hx : IsLeast L A x) (hy : IsLeast L A y) : x = y := by
  cases x with
  | none =>
    cases y with
    | none => rfl
    | some m => unfold IsLeast at hx; rw [hx] at hy; exact absurd hy.1 (by simp)
  | some l =>
    cases y with
    | none => unfold IsLeast at hy; rw [hy] at hx; exact absurd hx.1 (by simp)
    | some m => rw [anc_antisymm wf (hx.2 m hy.1) (hy.2 l hx.1)]

theorem lowerOf_congr {ops ops' : List Op} (h : ∀ a, (true, a) ∈ ops ↔ (true, a) ∈ ops') :
    lowerOf ops = lowerOf ops' := by
  have h1 := lowerOf_spec ops
  have h2 := lowerOf_spec ops'
  cases e1 : lowerOf ops with
  | none =>
    cases e2 : lowerOf ops' with
    | none => rfl
    | some m => rw [e1] at h1; rw [e2] at h2; exact absurd ((h m).mpr h2.1) (h1 m)
  | some l =>
    cases e2 : lowerOf ops' with
    | none => rw [e1] at h1; rw [e2] at h2; exact absurd ((h l).mp h1.1) (h2 l)
    | some m =>
      rw [e1] at h1; rw [e2] at h2
      have := h1.2 m ((h m).mpr h2.1)
      have := h2.2 l ((h l).mp h1.1)
      congr 1; omega

theorem upperOf_congr {ops ops' : List Op} (h : ∀ a, (false, a) ∈ ops ↔ (false, a) ∈ ops') :
    upperOf ops = upperOf ops' := by
  have h1 := upperOf_spec ops
  have h2 := upperOf_spec ops'
  cases e1 : upperOf ops with
  | none =>
    cases e2 : upperOf ops' with
    | none => rfl
    | some m => rw [e1] at h1; rw [e2] at h2; exact absurd ((h m).mpr h2.1) (h1 m)
  | some l =>
    cases e2 : upperOf ops' with
    | none => rw [e1] at h1; rw [e2] at h2; exact absurd ((h l).mp h1.1) (h2 l)
    | some m =>
      rw [e1] at h1; rw [e2] at h2
      have := h1.2 m ((h m).mpr h2.1)
      have := h2.2 l ((h l).mp h1.1)
      congr 1; omega

/-- the supplies are compatible: every covariant argument is a subtype of every contravariant one -/
def Compat (L : Lang) (ops : List Op) : Prop :=
  ∀ a b, (true, a) ∈ ops → (false, b) ∈ ops → Anc L a b

theorem okBounds_iff_compat {L : Lang} (wf : WF L) {S : Nat → Prop} (ch : ChainOn L S) (ops : List Op)
    (hS : ∀ op ∈ ops, S op.2) : okBounds (lowerOf ops) (upperOf ops) = true ↔ Compat L ops := by
  have h1 := lowerOf_spec ops
  have h2 := upperOf_spec ops
  constructor
  · intro h a b ha hb
    cases e1 : lowerOf ops with
    | none => rw [e1] at h1; exact absurd ha (h1 a)
    | some l =>
      cases e2 : upperOf ops with
      | none => rw [e2] at h2; exact absurd hb (h2 b)
      | some u =>
        rw [e1] at h1; rw [e2] at h2
        rw [e1, e2] at h
        simp only [okBounds, decide_eq_true_eq] at h
        have := h1.2 a ha
        have := h2.2 b hb
        exact (anc_chain_iff wf ch (hS _ ha) (hS _ hb)).mpr (by omega)
  · intro h
    cases e1 : lowerOf ops with
    | none => simp [okBounds]
    | some l =>
      cases e2 : upperOf ops with
      | none => simp [okBounds]
      | some u =>
        rw [e1] at h1; rw [e2] at h2
        simp only [okBounds, decide_eq_true_eq]
        exact (anc_chain_iff wf ch (hS _ h1.1) (hS _ h2.1)).mp (h l u h1.1 h2.1)

/-- strictly compatible: every covariant argument is a proper subtype of every contravariant one -/
def StrictCompat (L : Lang) (ops : List Op) : Prop :=
  ∀ a b, (true, a) ∈ ops → (false, b) ∈ ops → Anc L a b ∧ a ≠ b

theorem strictBounds_of_strictCompat {L : Lang} (wf : WF L) (ops : List Op)
    (h : StrictCompat L ops) : strictBounds (lowerOf ops) (upperOf ops) = true := by
  have h1 := lowerOf_spec ops
  have h2 := upperOf_spec ops
  cases e1 : lowerOf ops with
  | none => simp [strictBounds]
  | some l =>
    cases e2 : upperOf ops with
    | none => simp [strictBounds]
    | some u =>
      rw [e1] at h1; rw [e2] at h2
      simp only [strictBounds, decide_eq_true_eq]
      obtain ⟨ha, hne⟩ := h l u h1.1 h2.1
      have := anc_le wf ha
      omega

end Tfv.C05P
