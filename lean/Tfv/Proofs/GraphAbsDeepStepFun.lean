import Tfv.Proofs.GraphAbsDeepInv
/-!
# C08 on expanded composite operators at any depth: the invariant step for an argument with an internal node

One lemma for a passed operation (`fed = true`, parameter table `ps1 = ps`) and for an abstraction (`fed = false`,
`ps1` = the table extended by the parameters of the abstraction, which denote the internal node `st.next + 1`; `r` is
the layout of the body).
-/
namespace Tfv.C08P
open Tfv

theorem sInvA_step_fun {n : Nat} {k0 k : Core} {ps0 ps : Params} {st : HaArgs} (hctx : GCtxA n k0 ps0)
    (inv : SInvA n k0 ps0 k ps st) (fed : Bool) (ps1 : Params)
    (hps1a : ∀ t, TabNode k.src ps t → TabNode k.src ps1 t)
    (hps1b : ∀ t, TabNode k.src ps1 t → TabNode k.src ps t ∨ t = st.next + 1)
    (r : HaRes) (K' : Core) (ps' : Params) (m : Nat)
    (post : SPostA st.next (funCore2 k n) ps1 r K' ps' m) :
    SInvA n k0 ps0 (wireFed fed K' n m (st.next + 1)) ps' (pushArg st r (some (st.next + 1)) fed) := by
  obtain ⟨hI, hF, hM⟩ := sInvA_facts hctx inv
  have hn := hctx.x_lt
  have hle := inv.le
  have hkn : k.nextB = st.next := inv.next_eq
  have e2 : k.src = st.memo := inv.src_eq
  have e4 : ps = st.params := inv.par_eq
  have K1n : (funCore2 k n).nextB = st.next + 2 := by show k.nextB + 2 = _; rw [hkn]
  have K1s : (funCore2 k n).src = k.src := rfl
  have K1i : (funCore2 k n).ints = k.ints ++ [(n, st.next + 1)] := by
    show k.ints ++ [(n, k.nextB + 1)] = _; rw [hkn]
  have K1f : (funCore2 k n).frm = k.frm := rfl
  have K1h : (funCore2 k n).shared = k.shared := rfl
  have hm := post.node_eq
  subst hm
  have hr_le : st.next + 2 ≤ r.next := by have := post.le; rw [K1n] at this; exact this
  have hmono : ∀ t, TabNode st.memo st.params t → TabNode r.memo r.params t := by
    intro t ht
    apply post.tab_mono t
    rw [K1s]
    apply hps1a
    rw [e2, e4]; exact ht
  have hKi : K'.ints = (k.ints ++ [(n, st.next + 1)]) ++ r.ints := by rw [post.ints_eq, K1i]
  have hKf : ∀ p, p ∈ K'.frm ↔ p ∈ k.frm ∨ p ∈ r.edges := by
    intro p; rw [post.frm_iff, K1f]
  have hri : ∀ q ∈ r.ints, st.next ≤ q.1 ∧ q.1 < r.next ∧ st.next + 2 ≤ q.2 ∧ q.2 < r.next := by
    intro q hq
    have := post.ints_rng q hq
    rw [K1n] at this
    exact this
  obtain ⟨w1, w2, w3, w4⟩ := wireFed_frame fed K' n r.node (st.next + 1)
  -- the node of the argument: the reserved one, the node of a source or parameter, or the internal node itself
  have hnr : r.node = st.next ∨ TabNode st.memo st.params r.node ∨ r.node = st.next + 1 := by
    rcases post.node_rng with h | h
    · exact Or.inl h
    · rw [K1s] at h
      rcases hps1b _ h with h' | h'
      · right; left; rw [← e2, ← e4]; exact h'
      · exact Or.inr (Or.inr h')
  have hrnode : r.node < r.next ∧ r.node ≠ n := by
    rcases hnr with h | h | h
    · rw [h]; exact ⟨by omega, by omega⟩
    · have := hM _ h
      exact ⟨by omega, this.2⟩
    · rw [h]; exact ⟨by omega, by omega⟩
  -- no internal node made before this argument hangs off the argument's node
  have hNI : ∀ q ∈ k.ints, q.1 ≠ r.node := by
    intro q hq
    rcases hnr with h | h | h
    · have := (hI q hq).1
      rw [h]; omega
    · exact inv.noint q hq _ (by rw [e2, e4]; exact h)
    · have := (hI q hq).1
      rw [h]; omega
  have hmr : ∀ t, TabNode r.memo r.params t →
      TabNode st.memo st.params t ∨ t = st.next ∨ t = st.next + 1 ∨ (st.next + 2 ≤ t ∧ t < r.next) := by
    intro t ht
    rcases post.tab_rng t ht with h | h | h
    · rw [K1s] at h
      rcases hps1b _ h with h' | h'
      · left; rw [← e2, ← e4]; exact h'
      · exact Or.inr (Or.inr (Or.inl h'))
    · exact Or.inr (Or.inl h)
    · rw [K1n] at h
      exact Or.inr (Or.inr (Or.inr h))
  have hMr : ∀ t, TabNode r.memo r.params t → t ≠ n := by
    intro t ht
    rcases hmr t ht with h | h | h | h
    · exact (hM t h).2
    · omega
    · omega
    · omega
  -- side conditions of the wiring lemma
  have c2 : n ≠ r.node := fun h => hrnode.2 h.symm
  have c3 : (n, n) ∉ K'.ints := by
    intro hj
    rw [hKi, List.mem_append, List.mem_append, List.mem_singleton] at hj
    rcases hj with (hj | hj) | hj
    · obtain ⟨q, hq, hl⟩ := (hI _ hj).2 rfl
      have := (inv.lam_rng q hq n hl).1
      omega
    · have := (Prod.mk.inj hj).2; omega
    · have := (hri _ hj).1
      have : st.next ≤ n := this
      omega
  have c4 : (r.node, n) ∉ K'.ints := by
    intro hj
    rw [hKi, List.mem_append, List.mem_append, List.mem_singleton] at hj
    rcases hj with (hj | hj) | hj
    · exact hNI _ hj rfl
    · exact hrnode.2 (Prod.mk.inj hj).1
    · have := (hri _ hj).2.2.1
      have : st.next + 2 ≤ n := this
      omega
  have hA : ∀ p : Nat × Nat, (∃ j, (r.node, j) ∈ K'.ints ∧ p = (j, st.next + 1)) ↔
      (∃ μ, (r.node, μ) ∈ r.ints ∧ p = (μ, st.next + 1)) := by
    intro p
    constructor
    · rintro ⟨j, hj, h⟩
      rw [hKi, List.mem_append, List.mem_append, List.mem_singleton] at hj
      rcases hj with (hj | hj) | hj
      · exact absurd rfl (hNI _ hj)
      · exact absurd (Prod.mk.inj hj).1 hrnode.2
      · exact ⟨j, hj, h⟩
    · rintro ⟨μ, hμ, h⟩
      exact ⟨μ, by rw [hKi]; exact List.mem_append_right _ hμ, h⟩
  have hB : ∀ p : Nat × Nat, (∃ j, (n, j) ∈ K'.ints ∧ j ≠ st.next + 1 ∧ p = (j, r.node)) ↔
      (∃ a ∈ st.rs, ∃ l, a.lam = some l ∧ p = (l, r.node)) := by
    intro p
    constructor
    · rintro ⟨j, hj, hji, h⟩
      rw [hKi, List.mem_append, List.mem_append, List.mem_singleton] at hj
      rcases hj with (hj | hj) | hj
      · obtain ⟨q, hq, hl⟩ := (hI _ hj).2 rfl
        exact ⟨q, hq, j, hl, h⟩
      · exact absurd (Prod.mk.inj hj).2 hji
      · have := (hri _ hj).1
        have : st.next ≤ n := this
        omega
    · rintro ⟨a, ha, l, hl, h⟩
      refine ⟨l, ?_, ?_, h⟩
      · rw [hKi, inv.ints_eq]
        apply List.mem_append_left
        apply List.mem_append_left
        exact List.mem_append_right _ ((mem_spineIntsA n st.rs (n, l)).2 (Or.inl ⟨a, ha, hl, rfl⟩))
      · have := (inv.lam_rng a ha l hl).2
        omega
  have hC : ∀ p : Nat × Nat, (∃ fin, (n, fin) ∈ K'.frm ∧ p = (st.next + 1, fin)) ↔
      (∃ a ∈ st.rs, p = (st.next + 1, a.node)) := by
    intro p
    constructor
    · rintro ⟨fin, hfin, h⟩
      rw [hKf, inv.frm_iff] at hfin
      rcases hfin with (hfin | hfin) | hfin
      · exact absurd rfl (hctx.frm _ hfin).2
      · rcases hfin with ⟨q, hq, h'⟩ | ⟨a, ha, h'⟩ | ⟨a, ha, l, _, _, h'⟩ | ⟨a, ha, b, hb, l, hl, _, h'⟩ |
          ⟨q, hq, l, μ, _, hm, h'⟩
        · rcases (inv.edges_rng q hq _ h').1 with h'' | h''
          · have : k0.nextB ≤ n := h''
            omega
          · exact absurd rfl (hM _ h'').2
        · exact ⟨a, ha, by rw [h, (Prod.mk.inj h').2]⟩
        · exact absurd (Prod.mk.inj h').1.symm (inv.node_lt a ha).2
        · have := (inv.lam_rng a ha l hl).1
          have h2 := (Prod.mk.inj h').1
          omega
        · have := (inv.ints_rng q hq _ hm).2.2.1
          have h2 := (Prod.mk.inj h').1
          have : k0.nextB ≤ μ := this
          omega
      · rcases (post.edges_rng _ hfin).1 with h'' | h''
        · have : st.next ≤ n := h''
          omega
        · exact absurd rfl (hMr _ h'')
    · rintro ⟨a, ha, h⟩
      refine ⟨a.node, ?_, h⟩
      rw [hKf, inv.frm_iff]
      exact Or.inl (Or.inr (Or.inr (Or.inl ⟨a, ha, rfl⟩)))
  have hfresh : ∀ a ∈ st.rs, ∀ l, a.lam = some l → some (st.next + 1) ≠ some l := by
    intro a ha l hl h
    have := (inv.lam_rng a ha l hl).2
    have : st.next + 1 = l := Option.some.inj h
    omega
  refine ⟨by rw [w1]; exact post.next_eq, by rw [w2]; exact post.src_eq, post.par_eq,
    by rw [w3, post.shared_eq, K1h]; exact inv.shared_eq, ?_, ?_, by show k0.nextB ≤ r.next; omega,
    fun t ht => hmono t (inv.tab_mono t ht), ?_, ?_, ?_, ?_, ?_, ?_, ?_, ?_, ?_⟩
  · rw [w4, hKi]
    show _ = k0.ints ++ spineIntsA n (st.rs ++ [_])
    rw [spineIntsA_snoc, inv.ints_eq]
    simp [lamPair]
  · intro p
    rw [wireFed_mem fed _ _ _ _ _ c2 c3 c4]
    show _ ↔ p ∈ k0.frm ∨ SpineEdgesA n (st.rs ++ [⟨r.node, some (st.next + 1), fed, r.ints, r.edges⟩]) p
    rw [spineEdgesA_snoc n st.rs _ p hfresh, hA, hB, hC, hKf, inv.frm_iff]
    constructor
    · rintro (((h | h) | h) | ⟨hf, h⟩ | h | ⟨μ, hμ, h⟩ | h | h)
      · exact Or.inl h
      · exact Or.inr (Or.inl h)
      · exact Or.inr (Or.inr (Or.inl h))
      · exact Or.inr (Or.inr (Or.inr (Or.inr (Or.inl ⟨_, rfl, hf, h⟩))))
      · exact Or.inr (Or.inr (Or.inr (Or.inl h)))
      · exact Or.inr (Or.inr (Or.inr (Or.inr (Or.inr (Or.inr (Or.inr ⟨_, μ, rfl, hμ, h⟩))))))
      · exact Or.inr (Or.inr (Or.inr (Or.inr (Or.inr (Or.inl h)))))
      · exact Or.inr (Or.inr (Or.inr (Or.inr (Or.inr (Or.inr (Or.inl ⟨_, rfl, h⟩))))))
    · rintro (h | h | h | h | ⟨l, hl, hf, h⟩ | h | ⟨l, hl, h⟩ | ⟨l, μ, hl, hμ, h⟩)
      · exact Or.inl (Or.inl (Or.inl h))
      · exact Or.inl (Or.inl (Or.inr h))
      · exact Or.inl (Or.inr h)
      · exact Or.inr (Or.inr (Or.inl h))
      · cases hl; exact Or.inr (Or.inl ⟨hf, h⟩)
      · exact Or.inr (Or.inr (Or.inr (Or.inr (Or.inl h))))
      · cases hl; exact Or.inr (Or.inr (Or.inr (Or.inr (Or.inr h))))
      · cases hl; exact Or.inr (Or.inr (Or.inr (Or.inl ⟨μ, hμ, h⟩)))
  · intro t ht
    rcases hmr t ht with h | h | h | h
    · rcases inv.tab_rng t h with h' | h'
      · exact Or.inl h'
      · exact Or.inr ⟨h'.1, by show t < r.next; omega⟩
    · exact Or.inr ⟨by omega, by show t < r.next; omega⟩
    · exact Or.inr ⟨by omega, by show t < r.next; omega⟩
    · exact Or.inr ⟨by omega, h.2⟩
  · intro q hq p hp
    show (k0.nextB ≤ p.1 ∨ TabNode r.memo r.params p.1) ∧ p.1 < r.next ∧ p.2 < r.next
    simp only [pushArg, List.mem_append, List.mem_singleton] at hq
    rcases hq with hq | rfl
    · have := inv.edges_rng q hq p hp
      refine ⟨?_, by omega, by omega⟩
      rcases this.1 with h | h
      · exact Or.inl h
      · exact Or.inr (hmono _ h)
    · have := post.edges_rng p hp
      refine ⟨?_, this.2.1, this.2.2⟩
      rcases this.1 with h | h
      · exact Or.inl (by omega)
      · exact Or.inr h
  · intro q hq i hi
    show k0.nextB ≤ i.1 ∧ i.1 < r.next ∧ k0.nextB ≤ i.2 ∧ i.2 < r.next
    simp only [pushArg, List.mem_append, List.mem_singleton] at hq
    rcases hq with hq | rfl
    · have := inv.ints_rng q hq i hi
      exact ⟨this.1, by omega, this.2.2.1, by omega⟩
    · have := hri i hi
      exact ⟨by omega, this.2.1, by omega, this.2.2.2⟩
  · intro q hq i hi
    show k0.nextB ≤ i ∧ i < r.next
    simp only [pushArg, List.mem_append, List.mem_singleton] at hq
    rcases hq with hq | rfl
    · have := inv.lam_rng q hq i hi
      exact ⟨this.1, by omega⟩
    · cases hi
      exact ⟨by omega, by omega⟩
  · intro q hq
    show k0.nextB ≤ q.node ∨ TabNode r.memo r.params q.node
    simp only [pushArg, List.mem_append, List.mem_singleton] at hq
    rcases hq with hq | rfl
    · rcases inv.node_rng q hq with h | h
      · exact Or.inl h
      · exact Or.inr (hmono _ h)
    · rcases hnr with h | h | h
      · exact Or.inl (by show k0.nextB ≤ r.node; omega)
      · exact Or.inr (hmono _ h)
      · exact Or.inl (by show k0.nextB ≤ r.node; omega)
  · intro q hq
    show q.node < r.next ∧ q.node ≠ n
    simp only [pushArg, List.mem_append, List.mem_singleton] at hq
    rcases hq with hq | rfl
    · have := inv.node_lt q hq
      exact ⟨by omega, this.2⟩
    · exact hrnode
  · show ((st.rs ++ [(⟨r.node, some (st.next + 1), fed, r.ints, r.edges⟩ : HaArg)]).filterMap (fun q => q.lam)).Nodup
    rw [List.filterMap_append, List.nodup_append]
    refine ⟨inv.lams_nodup, by simp, ?_⟩
    intro y hy z hz hyz
    simp only [List.filterMap_cons, List.filterMap_nil, List.mem_singleton] at hz
    subst hz
    subst hyz
    obtain ⟨a, ha, hl⟩ := List.mem_filterMap.1 hy
    have := (inv.lam_rng a ha _ hl).2
    omega
  · show ((spineIntsA n (st.rs ++ [(⟨r.node, some (st.next + 1), fed, r.ints, r.edges⟩ : HaArg)])).map Prod.snd).Nodup
    rw [spineIntsA_snoc, List.map_append, List.nodup_append]
    refine ⟨inv.ints_nodup, ?_, ?_⟩
    · simp only [lamPair, List.cons_append, List.nil_append, List.map_cons, List.nodup_cons]
      refine ⟨?_, post.ints_nodup⟩
      intro hmem
      obtain ⟨p2, hp2, h2⟩ := List.mem_map.1 hmem
      have := (hri p2 hp2).2.2.1
      omega
    · intro y hy z hz hyz
      subst hyz
      obtain ⟨p1, hp1, h1⟩ := List.mem_map.1 hy
      obtain ⟨p2, hp2, h2⟩ := List.mem_map.1 hz
      have a1 := sInvA_ints_lt inv p1 hp1
      simp only [lamPair, List.cons_append, List.nil_append, List.mem_cons] at hp2
      rcases hp2 with rfl | hp2
      · have : y = st.next + 1 := h2.symm
        omega
      · have a2 := (hri p2 hp2).2.2.1
        omega
  · intro p hp t ht
    rw [w4] at hp
    rw [w2] at ht
    exact post.noint p hp t ht

end Tfv.C08P
