import Tfv.Proofs.BoundsChain
/-!
# C05: `Top` and `Bottom` among the supplies
-/
namespace Tfv.C05P

/-- `Bottom` from below and `Top` from above -/
def neutralB (op : Op) : Bool := (op.1 && op.2 == BOT) || (!op.1 && op.2 == TOP)

theorem supI_neutral (L : Lang) (i : VarInfo) {op : Op} (h : neutralB op = true) : supI L i op = .ok i := by
  obtain ⟨d, x⟩ := op
  unfold neutralB at h
  unfold supI
  cases d with
  | true =>
    have hx : x = BOT := by simpa using h
    subst hx
    cases hb : i.bound with
    | none => simp
    | some t => cases t <;> simp
  | false =>
    have hx : x = TOP := by simpa using h
    subst hx
    cases hb : i.bound with
    | none => simp
    | some t => cases t <;> simp

theorem runSupI_cons (L : Lang) (i : VarInfo) (op : Op) (ops : List Op) :
    runSupI L i (op :: ops) =
      match supI L i op with
      | .error e => .error e
      | .ok j => runSupI L j ops := by
  unfold runSupI
  simp only [List.foldl_cons, stepE]
  cases supI L i op with
  | error e => exact foldl_stepE_error _ e ops
  | ok j => rfl

/-- neutral supplies can be dropped -/
theorem runSupI_filter (L : Lang) : ∀ (ops : List Op) (i : VarInfo),
    runSupI L i ops = runSupI L i (ops.filter fun op => !neutralB op)
  | [], _ => rfl
  | op :: ops, i => by
    cases hn : neutralB op with
    | true =>
      rw [runSupI_cons, supI_neutral L i hn]
      simp only [List.filter_cons, hn, Bool.not_true, Bool.false_eq_true, if_false]
      exact runSupI_filter L ops i
    | false =>
      simp only [List.filter_cons, hn, Bool.not_false, if_true]
      rw [runSupI_cons, runSupI_cons]
      cases supI L i op with
      | error e => rfl
      | ok j => exact runSupI_filter L ops j

theorem runSupply_filter (L : Lang) (wf : WF L) {σ : Store} (nc : NoConstraints σ) (n v : Nat)
    (hv : v < σ.vars.length) (ops : List Op) (h0 : ∀ op ∈ ops, arityOf L op.2 = 0)
    (hi : InvI L (getVar σ v)) :
    runSupply L (n+5) σ v ops = runSupply L (n+5) σ v (ops.filter fun op => !neutralB op) := by
  rw [runSupply_eq L wf nc n v hv ops h0 hi,
    runSupply_eq L wf nc n v hv _ (fun op h => h0 op (List.mem_filter.mp h).1) hi, runSupI_filter]

/-- a variable bound to `Top` accepts every further covariant supply unchanged -/
theorem runSupI_top_absorbs (L : Lang) (i : VarInfo) (ms : List Term) (hb : i.bound = some (.app TOP ms)) :
    ∀ (ops : List Op), (∀ op ∈ ops, op.1 = true) → runSupI L i ops = .ok i
  | [], _ => rfl
  | op :: ops, h => by
    have h1 : op.1 = true := h op (by simp)
    rw [runSupI_cons]
    have : supI L i op = .ok i := by
      unfold supI
      rw [hb]
      simp [h1]
    rw [this]
    exact runSupI_top_absorbs L i ms hb ops (fun o ho => h o (List.mem_cons_of_mem _ ho))

/-- a variable bound to `Bottom` accepts every further contravariant supply unchanged -/
theorem runSupI_bot_absorbs (L : Lang) (i : VarInfo) (ms : List Term) (hb : i.bound = some (.app BOT ms)) :
    ∀ (ops : List Op), (∀ op ∈ ops, op.1 = false) → runSupI L i ops = .ok i
  | [], _ => rfl
  | op :: ops, h => by
    have h1 : op.1 = false := h op (by simp)
    rw [runSupI_cons]
    have : supI L i op = .ok i := by
      unfold supI
      rw [hb]
      simp [h1]
    rw [this]
    exact runSupI_bot_absorbs L i ms hb ops (fun o ho => h o (List.mem_cons_of_mem _ ho))

theorem runSupI_append (L : Lang) (i : VarInfo) (o1 o2 : List Op) :
    runSupI L i (o1 ++ o2) =
      match runSupI L i o1 with
      | .error e => .error e
      | .ok j => runSupI L j o2 := by
  unfold runSupI
  rw [List.foldl_append]
  cases List.foldl (stepE (supI L)) (.ok i) o1 with
  | error e => exact foldl_stepE_error _ e o2
  | ok j => rfl

theorem split_first {α : Type} [DecidableEq α] (x : α) : ∀ (xs : List α), x ∈ xs →
    ∃ pre post, xs = pre ++ x :: post ∧ x ∉ pre
  | [], h => by cases h
  | y :: ys, h => by
    by_cases e : y = x
    · exact ⟨[], ys, by rw [e]; rfl, by simp⟩
    · have : x ∈ ys := by
        rcases List.mem_cons.mp h with h | h
        · exact absurd h.symm e
        · exact h
      obtain ⟨pre, post, h1, h2⟩ := split_first x ys this
      refine ⟨y :: pre, post, by rw [h1]; rfl, ?_⟩
      intro hm
      rcases List.mem_cons.mp hm with hm | hm
      · exact e hm.symm
      · exact h2 hm

theorem upperOf_none_of_co {ops : List Op} (h : ∀ op ∈ ops, op.1 = true) : upperOf ops = none := by
  have h1 := upperOf_spec ops
  cases e : upperOf ops with
  | none => rfl
  | some m => rw [e] at h1; have := h _ h1.1; cases this

theorem lowerOf_none_of_contra {ops : List Op} (h : ∀ op ∈ ops, op.1 = false) : lowerOf ops = none := by
  have h1 := lowerOf_spec ops
  cases e : lowerOf ops with
  | none => rfl
  | some m => rw [e] at h1; have := h _ h1.1; cases this

/-- covariant supplies from a chain with `Top` (and possibly `Bottom`) among them: the variable ends
up bound to `Top`, in every order -/
theorem runSupI_co_top {L : Lang} (wf : WF L) {S : Nat → Prop} (ch : ChainOn L S) (w : Bool) (c : Nat)
    (ops : List Op) (hco : ∀ op ∈ ops, op.1 = true)
    (hS : ∀ op ∈ ops, S op.2 ∨ op.2 = TOP ∨ op.2 = BOT) (htop : (true, TOP) ∈ ops) :
    ∃ lo, runSupI L { wildcard := w, cset := c } ops =
      .ok { bound := some (.app TOP []), lower := lo, upper := none, wildcard := false, cset := c } := by
  obtain ⟨pre, post, hsplit, hpre⟩ := split_first ((true, TOP) : Op) ops htop
  subst hsplit
  have hS' : ∀ op ∈ pre.filter (fun op => !neutralB op), S op.2 := by
    intro op hop
    obtain ⟨hm, hn⟩ := List.mem_filter.mp hop
    have h1 : op.1 = true := hco op (List.mem_append_left _ hm)
    obtain ⟨d, x⟩ := op
    simp only at h1
    subst h1
    rcases hS _ (List.mem_append_left _ hm) with h | h | h
    · exact h
    · simp only at h; subst h; exact absurd hm hpre
    · simp only at h; subst h; simp [neutralB] at hn
  have hco' : ∀ op ∈ pre.filter (fun op => !neutralB op), op.1 = true :=
    fun op hop => hco op (List.mem_append_left _ (List.mem_filter.mp hop).1)
  rw [runSupI_append, runSupI_filter, runSupI_chain wf ch w c _ hS', upperOf_none_of_co hco']
  have hlo := lowerOf_spec (pre.filter fun op => !neutralB op)
  unfold closedI
  rw [upperOf_none_of_co hco']
  generalize lowerOf (pre.filter fun op => !neutralB op) = lo at *
  refine ⟨lo, ?_⟩
  have hok : okBounds lo none = true := by cases lo <;> rfl
  have hseal : ∀ b, sealI { lower := lo, upper := none, wildcard := b, cset := c } =
      { lower := lo, upper := none, wildcard := b, cset := c } := by
    intro b; cases lo <;> rfl
  rw [hok, if_pos rfl, hseal]
  simp only
  rw [runSupI_cons]
  generalize (w && (pre.filter fun op => !neutralB op).isEmpty) = b0
  have hstep : supI L { lower := lo, upper := none, wildcard := b0, cset := c } (true, TOP) =
      .ok { bound := some (.app TOP []), lower := lo, upper := none, wildcard := false, cset := c } := by
    unfold supI aboveI bindBaseI
    cases lo with
    | none => simp [TOP, BOT]
    | some l =>
      have hl : S l := hS' _ hlo.1
      simp [TOP, BOT, show opSub L 1 l true = false from opSub_top_strict wf (ch.not_top l hl)]
  rw [hstep]
  simp only
  exact runSupI_top_absorbs L _ [] rfl post (fun o ho => hco o (by simp [ho]))

/-- contravariant supplies from a chain with `Bottom` (and possibly `Top`) among them: bound to `Bottom` -/
theorem runSupI_contra_bot {L : Lang} (wf : WF L) {S : Nat → Prop} (ch : ChainOn L S) (w : Bool) (c : Nat)
    (ops : List Op) (hco : ∀ op ∈ ops, op.1 = false)
    (hS : ∀ op ∈ ops, S op.2 ∨ op.2 = TOP ∨ op.2 = BOT) (hbot : (false, BOT) ∈ ops) :
    ∃ up, runSupI L { wildcard := w, cset := c } ops =
      .ok { bound := some (.app BOT []), lower := none, upper := up, wildcard := false, cset := c } := by
  obtain ⟨pre, post, hsplit, hpre⟩ := split_first ((false, BOT) : Op) ops hbot
  subst hsplit
  have hS' : ∀ op ∈ pre.filter (fun op => !neutralB op), S op.2 := by
    intro op hop
    obtain ⟨hm, hn⟩ := List.mem_filter.mp hop
    have h1 : op.1 = false := hco op (List.mem_append_left _ hm)
    obtain ⟨d, x⟩ := op
    simp only at h1
    subst h1
    rcases hS _ (List.mem_append_left _ hm) with h | h | h
    · exact h
    · simp only at h; subst h; simp [neutralB] at hn
    · simp only at h; subst h; exact absurd hm hpre
  have hco' : ∀ op ∈ pre.filter (fun op => !neutralB op), op.1 = false :=
    fun op hop => hco op (List.mem_append_left _ (List.mem_filter.mp hop).1)
  rw [runSupI_append, runSupI_filter, runSupI_chain wf ch w c _ hS', lowerOf_none_of_contra hco']
  have hup := upperOf_spec (pre.filter fun op => !neutralB op)
  unfold closedI
  rw [lowerOf_none_of_contra hco']
  generalize upperOf (pre.filter fun op => !neutralB op) = up at *
  refine ⟨up, ?_⟩
  have hok : okBounds none up = true := rfl
  have hseal : ∀ b, sealI { lower := none, upper := up, wildcard := b, cset := c } =
      { lower := none, upper := up, wildcard := b, cset := c } := fun b => rfl
  rw [hok, if_pos rfl, hseal]
  simp only
  rw [runSupI_cons]
  generalize (w && (pre.filter fun op => !neutralB op).isEmpty) = b0
  have hstep : supI L { lower := none, upper := up, wildcard := b0, cset := c } (false, BOT) =
      .ok { bound := some (.app BOT []), lower := none, upper := up, wildcard := false, cset := c } := by
    unfold supI belowI bindBaseI
    cases up with
    | none => simp [TOP, BOT]
    | some u =>
      have hu : S u := hS' _ hup.1
      simp [TOP, BOT, show opSub L u 2 true = false from opSub_strict_bot wf (ch.not_bot u hu)]
  rw [hstep]
  simp only
  exact runSupI_bot_absorbs L _ [] rfl post (fun o ho => hco o (by simp [ho]))

/-- store level: covariant arguments from a chain, `Top` among them (and `Bottom` allowed): success,
the variable is bound to `Top` whatever the order -/
theorem supply_co_top (L : Lang) (wf : WF L) {S : Nat → Prop} (ch : ChainOn L S) {σ : Store}
    (nc : NoConstraints σ) (n v : Nat) (hv : v < σ.vars.length) (hf : FreshI (getVar σ v))
    (as : List Nat) (hS : ∀ a ∈ as, S a ∨ a = TOP ∨ a = BOT) (htop : TOP ∈ as) :
    ∃ lo, runSupply L (n+5) σ v (coOps as) =
      .ok (setVar σ v { bound := some (.app TOP []), lower := lo, upper := none, wildcard := false,
                        cset := (getVar σ v).cset }) := by
  have h0 : ∀ op ∈ coOps as, arityOf L op.2 = 0 := by
    intro op hop
    rcases hS _ (mem_coOps.mp hop).2 with h | h | h
    · exact ch.nullary _ h
    · rw [h]; exact arity_top wf
    · rw [h]; exact arity_bot wf
  obtain ⟨lo, h⟩ := runSupI_co_top wf ch (getVar σ v).wildcard (getVar σ v).cset (coOps as)
    (fun op hop => (mem_coOps.mp hop).1) (fun op hop => hS _ (mem_coOps.mp hop).2)
    (mem_coOps.mpr ⟨rfl, htop⟩)
  refine ⟨lo, ?_⟩
  rw [runSupply_eq L wf nc n v hv _ h0 (freshI_inv L hf), freshI_eta hf, h]
  rfl

/-- store level: contravariant arguments from a chain, `Bottom` among them: bound to `Bottom` -/
theorem supply_contra_bot (L : Lang) (wf : WF L) {S : Nat → Prop} (ch : ChainOn L S) {σ : Store}
    (nc : NoConstraints σ) (n v : Nat) (hv : v < σ.vars.length) (hf : FreshI (getVar σ v))
    (bs : List Nat) (hS : ∀ b ∈ bs, S b ∨ b = TOP ∨ b = BOT) (hbot : BOT ∈ bs) :
    ∃ up, runSupply L (n+5) σ v (contraOps bs) =
      .ok (setVar σ v { bound := some (.app BOT []), lower := none, upper := up, wildcard := false,
                        cset := (getVar σ v).cset }) := by
  have h0 : ∀ op ∈ contraOps bs, arityOf L op.2 = 0 := by
    intro op hop
    rcases hS _ (mem_contraOps.mp hop).2 with h | h | h
    · exact ch.nullary _ h
    · rw [h]; exact arity_top wf
    · rw [h]; exact arity_bot wf
  obtain ⟨up, h⟩ := runSupI_contra_bot wf ch (getVar σ v).wildcard (getVar σ v).cset (contraOps bs)
    (fun op hop => (mem_contraOps.mp hop).1) (fun op hop => hS _ (mem_contraOps.mp hop).2)
    (mem_contraOps.mpr ⟨rfl, hbot⟩)
  refine ⟨up, ?_⟩
  rw [runSupply_eq L wf nc n v hv _ h0 (freshI_inv L hf), freshI_eta hf, h]
  rfl

/-- `Bottom` among covariant and `Top` among contravariant supplies can be dropped: with them the
closed forms of the chain case apply to the remaining supplies -/
theorem supply_drop_neutral (L : Lang) (wf : WF L) {σ : Store} (nc : NoConstraints σ) (n v : Nat)
    (hv : v < σ.vars.length) (hf : FreshI (getVar σ v)) (ops : List Op)
    (h0 : ∀ op ∈ ops, arityOf L op.2 = 0) :
    runSupply L (n+5) σ v ops = runSupply L (n+5) σ v (ops.filter fun op => !neutralB op) :=
  runSupply_filter L wf nc n v hv ops h0 (freshI_inv L hf)

end Tfv.C05P
