import Tfv.Proofs.FitsGen1
/-!
# C06 beyond linear alternatives, part 2: syntactic classes of patterns and the filter of `fulfill`

* `Term.pvars L pol p`: the variable occurrences of a pattern with their polarity.
* `semiLinear L p`: every variable has at most one covariant or at most one contravariant occurrence.
  For these `fitsX` is exactly `Fits` (`fitsX_iff_fits`).
* `unipolar L p`: no variable occurs in both polarities (`F(G(b, _))`, `G(b, c)`, `G(b, b)`, `b ** c`).
  For these `fitsB` -- what the matcher decides -- is exactly `Fits` (`fitsB_iff_fits_unipolar`):
  a repeated variable of one polarity can always be instantiated by `Top` (or `Bottom`).
* the filter of `fulfill` on a concrete reference: keeps every alternative that really fits (any pattern),
  keeps exactly the fitting ones for unipolar alternatives, and for semi-linear ones the surplus is
  exactly the alternatives with `fitsB` but not `fitsX`.
-/
namespace Tfv

mutual
/-- the variable occurrences of a pattern, each with the polarity of its position -/
def Term.pvars (L : Lang) : Bool → Term → List (Nat × Bool)
  | pol, .var v => [(v, pol)]
  | pol, .app o ps => Term.pvarsL L pol (varianceOf L o) ps
def Term.pvarsL (L : Lang) : Bool → List Bool → List Term → List (Nat × Bool)
  | pol, v :: vs, p :: ps => Term.pvars L (pol == v) p ++ Term.pvarsL L pol vs ps
  | _, _, _ => []
end

def Req.key (r : Req) : Nat × Bool := (r.1, r.2.1)

theorem pvars_app (L : Lang) (pol : Bool) (o : Nat) (ps : List Term) :
    (Term.app o ps).pvars L pol = Term.pvarsL L pol (varianceOf L o) ps := by
  rw [Term.pvars]

theorem pvarsL_cons (L : Lang) (pol v : Bool) (vs : List Bool) (p : Term) (ps : List Term) :
    Term.pvarsL L pol (v :: vs) (p :: ps) = Term.pvars L (pol == v) p ++ Term.pvarsL L pol vs ps := by
  rw [Term.pvarsL]

mutual
/-- the requirements sit at variable occurrences of the pattern, in order -/
theorem reqs_keys_sublist (L : Lang) : ∀ (pol : Bool) (x : Ty) (p : Term),
    ((reqs L pol x p).map Req.key).Sublist (p.pvars L pol)
  | pol, x, .var v => by
    rw [reqs_var, Term.pvars]
    exact List.Sublist.refl _
  | pol, .app xo xs, .app po ps => by
    rw [reqs_app, pvars_app]
    by_cases c1 : ((if pol then xo else po) == BOT || (if pol then po else xo) == TOP) = true
    · simp only [c1, if_true, List.map_nil]; exact List.nil_sublist _
    · by_cases c2 : (arityOf L (if pol then xo else po) == 0) = true
      · simp only [c1, c2, if_true, Bool.false_eq_true, if_false, List.map_nil]; exact List.nil_sublist _
      · by_cases c3 : ((if pol then xo else po) != (if pol then po else xo)) = true
        · simp only [c1, c2, c3, if_true, Bool.false_eq_true, if_false, List.map_nil]
          exact List.nil_sublist _
        · simp only [c1, c2, c3, Bool.false_eq_true, if_false]
          have e : (if pol then xo else po) = po := by
            cases pol <;> simp at c3 ⊢
            exact c3
          rw [e]
          exact reqsL_keys_sublist L pol _ xs ps
theorem reqsL_keys_sublist (L : Lang) : ∀ (pol : Bool) (vs : List Bool) (xs : List Ty) (ps : List Term),
    ((reqsL L pol vs xs ps).map Req.key).Sublist (Term.pvarsL L pol vs ps)
  | pol, [], xs, ps => by rw [reqsL_nil_v]; exact List.nil_sublist _
  | pol, _ :: _, [], ps => by rw [reqsL_nil_x]; exact List.nil_sublist _
  | pol, _ :: _, _ :: _, [] => by rw [reqsL_nil_p]; exact List.nil_sublist _
  | pol, v :: vs, x :: xs, p :: ps => by
    rw [reqsL_cons, pvarsL_cons, List.map_append]
    exact List.Sublist.append (reqs_keys_sublist L (pol == v) x p) (reqsL_keys_sublist L pol vs xs ps)
end

/-- every variable has at most one covariant or at most one contravariant occurrence -/
def semiLinear (L : Lang) (p : Term) : Bool :=
  (p.pvars L true).all fun q =>
    decide ((p.pvars L true).count (q.1, true) ≤ 1) || decide ((p.pvars L true).count (q.1, false) ≤ 1)

/-- no variable occurs in both polarities -/
def unipolar (L : Lang) (p : Term) : Bool :=
  (p.pvars L true).all fun q => !(p.pvars L true).contains (q.1, !q.2)

theorem lowers_length (rs : List Req) (v : Nat) :
    (lowers rs v).length = (rs.map Req.key).count (v, true) := by
  unfold lowers
  rw [List.length_map, ← List.countP_eq_length_filter, List.count, List.countP_map]
  apply List.countP_congr
  rintro ⟨w, b, t⟩ _
  simp [Req.key, Prod.ext_iff]

theorem uppers_length (rs : List Req) (v : Nat) :
    (uppers rs v).length = (rs.map Req.key).count (v, false) := by
  unfold uppers
  rw [List.length_map, ← List.countP_eq_length_filter, List.count, List.countP_map]
  apply List.countP_congr
  rintro ⟨w, b, t⟩ _
  simp [Req.key, Prod.ext_iff]

theorem semiReqs_of_semiLinear {L : Lang} {p : Term} (h : semiLinear L p = true) (x : Ty) :
    SemiReqs (reqs L true x p) := by
  intro v
  rw [lowers_length, uppers_length]
  have sub := reqs_keys_sublist L true x p
  have c1 := sub.count_le (v, true)
  have c2 := sub.count_le (v, false)
  unfold semiLinear at h
  rw [List.all_eq_true] at h
  by_cases m1 : (v, true) ∈ p.pvars L true
  · have := h _ m1
    simp only [Bool.or_eq_true, decide_eq_true_eq] at this
    omega
  · have z : (p.pvars L true).count (v, true) = 0 := List.count_eq_zero_of_not_mem m1
    omega

theorem compat_of_unipolar {L : Lang} {p : Term} (h : unipolar L p = true) (x : Ty) :
    compat L (reqs L true x p) = true := by
  rw [compat_iff]
  intro v l u hl hu
  have sub := (reqs_keys_sublist L true x p).subset
  have m1 : (v, true) ∈ p.pvars L true := sub (List.mem_map.mpr ⟨_, hl, rfl⟩)
  have m2 : (v, false) ∈ p.pvars L true := sub (List.mem_map.mpr ⟨_, hu, rfl⟩)
  unfold unipolar at h
  rw [List.all_eq_true] at h
  have := h _ m1
  simp only [Bool.not_true, Bool.not_eq_true', List.contains_eq_mem, decide_eq_false_iff_not] at this
  exact absurd m2 this

theorem semiLinear_of_unipolar {L : Lang} {p : Term} (h : unipolar L p = true) : semiLinear L p = true := by
  unfold semiLinear
  rw [List.all_eq_true]
  rintro ⟨v, b⟩ hq
  unfold unipolar at h
  rw [List.all_eq_true] at h
  have := h _ hq
  simp only [Bool.not_eq_true', List.contains_eq_mem, decide_eq_false_iff_not] at this
  have z := List.count_eq_zero_of_not_mem this
  cases b <;> simp at z ⊢ <;> omega

/-- **`fitsX` is `Fits`** for semi-linear well-formed patterns -/
theorem fitsX_iff_fits {L : Lang} (wf : WF L) (x : Ty) (p : Term)
    (hx : wfTy L x = true) (hp : wfTm L p = true) (hs : semiLinear L p = true) :
    fitsX L x p = true ↔ Fits L x p :=
  ⟨fits_of_fitsX_reqs wf x p hx hp (semiReqs_of_semiLinear hs x), fitsX_of_fits wf x p hx hp⟩

theorem fitsX_eq_fitsB_unipolar {L : Lang} (x : Ty) (p : Term) (hu : unipolar L p = true) :
    fitsX L x p = fitsB L true x p := by
  unfold fitsX
  rw [compat_of_unipolar hu x, Bool.and_true]

/-- **`fitsB` is `Fits`** for unipolar well-formed patterns (repeated variables allowed) -/
theorem fitsB_iff_fits_unipolar {L : Lang} (wf : WF L) (x : Ty) (p : Term)
    (hx : wfTy L x = true) (hp : wfTm L p = true) (hu : unipolar L p = true) :
    fitsB L true x p = true ↔ Fits L x p := by
  rw [← fitsX_eq_fitsB_unipolar x p hu]
  exact fitsX_iff_fits wf x p hx hp (semiLinear_of_unipolar hu)

/-! ## the filter of `fulfill` on a concrete reference -/

/-- an alternative that really fits is never eliminated (any pattern, repeated variables or not) -/
theorem kept_of_fits {L : Lang} (wf : WF L) (σ : Store) (n : Nat) (x : Ty) (p : Term)
    (hx : wfTy L x = true) (hp : wfTm L p = true) (hf : PatFree σ p) (hn : Ty.depth x < n)
    (h : Fits L x p) : match3 L σ n true true x.toTerm p ≠ some false := by
  intro e
  have := (match3_eliminates L σ n x p hf hn).mp e
  rw [fits_of_instance wf x p hx hp h] at this
  cases this

/-- **violation ⇒ no fit**, for arbitrary alternatives: if the filter leaves nothing, the argument fits no alternative -/
theorem violation_no_fit {L : Lang} (wf : WF L) (σ : Store) (n : Nat) (x : Ty) (alts : List Term)
    (hx : wfTy L x = true) (hp : ∀ t ∈ alts, wfTm L t = true)
    (hf : ∀ t ∈ alts, PatFree σ t) (hn : Ty.depth x < n)
    (h : alts.filter (fun t => match3 L σ n true true x.toTerm t != some false) = []) :
    ∀ t ∈ alts, ¬ Fits L x t := by
  intro t ht hfit
  have hk := kept_of_fits wf σ n x t hx (hp t ht) (hf t ht) hn hfit
  have : t ∈ alts.filter (fun t => match3 L σ n true true x.toTerm t != some false) :=
    List.mem_filter.mpr ⟨ht, by simpa using hk⟩
  rw [h] at this
  cases this

/-- **acceptance iff fit** for unipolar alternatives: the filter leaves nothing iff the argument fits no alternative -/
theorem violation_iff_no_fit_unipolar {L : Lang} (wf : WF L) (σ : Store) (n : Nat) (x : Ty) (alts : List Term)
    (hx : wfTy L x = true) (hp : ∀ t ∈ alts, wfTm L t = true) (hu : ∀ t ∈ alts, unipolar L t = true)
    (hf : ∀ t ∈ alts, PatFree σ t) (hn : Ty.depth x < n) :
    alts.filter (fun t => match3 L σ n true true x.toTerm t != some false) = [] ↔
      ∀ t ∈ alts, ¬ Fits L x t := by
  rw [filter_empty_iff L σ n x alts hf hn]
  constructor
  · intro h t ht hfit
    have := (fitsB_iff_fits_unipolar wf x t hx (hp t ht) (hu t ht)).mpr hfit
    rw [h t ht] at this; cases this
  · intro h t ht
    cases hb : fitsB L true x t with
    | false => rfl
    | true => exact absurd ((fitsB_iff_fits_unipolar wf x t hx (hp t ht) (hu t ht)).mp hb) (h t ht)

/-- for unipolar alternatives the filter keeps exactly the alternatives that fit -/
theorem kept_iff_fits_unipolar {L : Lang} (wf : WF L) (σ : Store) (n : Nat) (x : Ty) (alts : List Term)
    (hx : wfTy L x = true) (hp : ∀ t ∈ alts, wfTm L t = true) (hu : ∀ t ∈ alts, unipolar L t = true)
    (hf : ∀ t ∈ alts, PatFree σ t) (hn : Ty.depth x < n) (t : Term) :
    t ∈ alts.filter (fun t => match3 L σ n true true x.toTerm t != some false) ↔ t ∈ alts ∧ Fits L x t := by
  rw [filter_keeps_fitting L σ n x alts hf hn, List.mem_filter]
  constructor
  · rintro ⟨ht, hb⟩
    exact ⟨ht, (fitsB_iff_fits_unipolar wf x t hx (hp t ht) (hu t ht)).mp hb⟩
  · rintro ⟨ht, hfit⟩
    exact ⟨ht, (fitsB_iff_fits_unipolar wf x t hx (hp t ht) (hu t ht)).mpr hfit⟩

/-- for semi-linear alternatives: kept iff `fitsB`, fitting iff `fitsX`; the filter keeps a superset of the
fitting alternatives, the surplus being those with `fitsB` but not `fitsX` -/
theorem kept_semilinear {L : Lang} (wf : WF L) (σ : Store) (n : Nat) (x : Ty) (alts : List Term)
    (hx : wfTy L x = true) (hp : ∀ t ∈ alts, wfTm L t = true) (hs : ∀ t ∈ alts, semiLinear L t = true)
    (hf : ∀ t ∈ alts, PatFree σ t) (hn : Ty.depth x < n) (t : Term) :
    t ∈ alts.filter (fun t => match3 L σ n true true x.toTerm t != some false) ↔
      t ∈ alts ∧ (Fits L x t ∨ (fitsB L true x t = true ∧ fitsX L x t = false)) := by
  rw [filter_keeps_fitting L σ n x alts hf hn, List.mem_filter]
  constructor
  · rintro ⟨ht, hb⟩
    refine ⟨ht, ?_⟩
    cases hX : fitsX L x t with
    | true => exact Or.inl ((fitsX_iff_fits wf x t hx (hp t ht) (hs t ht)).mp hX)
    | false => exact Or.inr ⟨hb, rfl⟩
  · rintro ⟨ht, hfit | ⟨hb, _⟩⟩
    · exact ⟨ht, fits_of_instance wf x t hx (hp t ht) hfit⟩
    · exact ⟨ht, hb⟩

/-- linear patterns (the class of `Props/C06.lean`) are semi-linear -/
theorem count_pvars_le (L : Lang) (w : Nat) (b : Bool) : ∀ (l : List (Nat × Bool)),
    l.count (w, b) ≤ (l.map Prod.fst).count w
  | [] => by simp
  | (v, c) :: l => by
    have := count_pvars_le L w b l
    simp only [List.count_cons, List.map_cons]
    by_cases e : v = w
    · subst e; cases b <;> cases c <;> simp <;> omega
    · have e' : ((v, c) == (w, b)) = false := by simp [e]
      have e'' : (v == w) = false := by simp [e]
      simp only [e', e'']
      simpa using this

mutual
theorem pvars_fst_sublist (L : Lang) : ∀ (pol : Bool) (p : Term),
    ((p.pvars L pol).map Prod.fst).Sublist p.vars
  | pol, .var v => by rw [Term.pvars, Term.vars]; exact List.Sublist.refl _
  | pol, .app o ps => by
    rw [pvars_app, Term.vars]
    exact pvarsL_fst_sublist L pol _ ps
theorem pvarsL_fst_sublist (L : Lang) : ∀ (pol : Bool) (vs : List Bool) (ps : List Term),
    ((Term.pvarsL L pol vs ps).map Prod.fst).Sublist (Term.varsL ps)
  | pol, [], ps => by
    have : Term.pvarsL L pol [] ps = [] := by simp [Term.pvarsL]
    rw [this]; exact List.nil_sublist _
  | pol, _ :: _, [] => by
    rw [Term.pvarsL]
    · exact List.nil_sublist _
    · intro v vs p ps _ h; cases h
  | pol, v :: vs, p :: ps => by
    rw [pvarsL_cons, Term.varsL, List.map_append]
    exact List.Sublist.append (pvars_fst_sublist L (pol == v) p) (pvarsL_fst_sublist L pol vs ps)
end

theorem semiLinear_of_linear {L : Lang} {p : Term} (h : linear p) : semiLinear L p = true := by
  unfold semiLinear
  rw [List.all_eq_true]
  rintro ⟨v, b⟩ _
  have c1 := count_pvars_le L v true (p.pvars L true)
  have c2 := (pvars_fst_sublist L true p).count_le v
  have c3 : p.vars.count v ≤ 1 := List.nodup_iff_count.mp h v
  simp only [Bool.or_eq_true, decide_eq_true_eq]
  omega

theorem count_pvars_sum (w : Nat) : ∀ (l : List (Nat × Bool)),
    l.count (w, true) + l.count (w, false) = (l.map Prod.fst).count w
  | [] => by simp
  | (v, c) :: l => by
    have := count_pvars_sum w l
    simp only [List.count_cons, List.map_cons]
    by_cases e : v = w
    · subst e; cases c <;> simp <;> omega
    · have e1 : ((v, c) == (w, true)) = false := by simp [e]
      have e2 : ((v, c) == (w, false)) = false := by simp [e]
      have e3 : (v == w) = false := by simp [e]
      simp only [e1, e2, e3]
      simpa using this

/-- linear patterns (the class of `Props/C06.lean`) are unipolar -/
theorem unipolar_of_linear {L : Lang} {p : Term} (h : linear p) : unipolar L p = true := by
  unfold unipolar
  rw [List.all_eq_true]
  rintro ⟨v, b⟩ hq
  simp only [Bool.not_eq_true', List.contains_eq_mem, decide_eq_false_iff_not]
  intro hq'
  have c1 := count_pvars_sum v (p.pvars L true)
  have c2 := (pvars_fst_sublist L true p).count_le v
  have c3 : p.vars.count v ≤ 1 := List.nodup_iff_count.mp h v
  have p1 : 0 < (p.pvars L true).count (v, b) := List.count_pos_iff.mpr hq
  have p2 : 0 < (p.pvars L true).count (v, !b) := List.count_pos_iff.mpr hq'
  cases b with
  | true => rw [Bool.not_true] at p2; omega
  | false => rw [Bool.not_false] at p2; omega

end Tfv
