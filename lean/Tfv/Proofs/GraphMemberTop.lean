import Tfv.Proofs.GraphMemberWorkflow
/-!
# Membership theorems for any logged run (`addExpr`, `wfNode`, `addWorkflow`)
-/
namespace Tfv

section
variable {G : GLang} {c : GCfg} {root : Node} {g g' : GState}

theorem Logged.mono (h : Logged G c root g g') : ∀ t, t ∈ g.triples → t ∈ g'.triples := by
  obtain ⟨_, L⟩ := h; exact L.mono

theorem Logged.type_sub_cT (h : Logged G c root g g') (hM : c.withMembership = true) {a tn : Node}
    (hm : (a, Node.tf "type", tn) ∈ g'.triples) :
    (a, Node.tf "type", tn) ∈ g.triples ∨ (root, Node.tf "containsType", tn) ∈ g'.triples := by
  obtain ⟨_, L⟩ := h; exact L.type_sub_cT hM hm

theorem Logged.subtypeOf_sub_cT (h : Logged G c root g g') (hM : c.withMembership = true)
    (hMS : c.withMembershipSupertypes = true) {a tn : Node} (hm : (a, Node.tf "subtypeOf", tn) ∈ g'.triples) :
    (a, Node.tf "subtypeOf", tn) ∈ g.triples ∨ (root, Node.tf "containsType", tn) ∈ g'.triples := by
  obtain ⟨_, L⟩ := h; exact L.subtypeOf_sub_cT hM hMS hm

theorem Logged.cT_justified (h : Logged G c root g g') {a tn : Node}
    (hm : (a, Node.tf "containsType", tn) ∈ g'.triples) :
    (a, Node.tf "containsType", tn) ∈ g.triples ∨ (a = root ∧ ∃ n,
      (c.withMembership = true ∧ (Node.b n, Node.tf "type", tn) ∈ g'.triples) ∨
      (c.withMembershipSupertypes = true ∧ ∃ ty tn0 s, lookupType g'.typeNodes ty = some tn0 ∧
        (Node.b n, Node.tf "type", tn0) ∈ g'.triples ∧ s ∈ supsOf G ty ∧
        lookupType g'.typeNodes s.toTerm = some tn ∧
        (c.withSupertypes = true → (Node.b n, Node.tf "subtypeOf", tn) ∈ g'.triples))) := by
  obtain ⟨_, L⟩ := h; exact L.cT_justified hm

theorem Logged.via_sub_cO (h : Logged G c root g g') (hM : c.withMembership = true) {a o : Node}
    (hm : (a, Node.tf "via", o) ∈ g'.triples) :
    (a, Node.tf "via", o) ∈ g.triples ∨ (root, Node.tf "containsOperation", o) ∈ g'.triples := by
  obtain ⟨_, L⟩ := h; exact L.via_sub_cO hM hm

theorem Logged.cO_justified (h : Logged G c root g g') {a o : Node}
    (hm : (a, Node.tf "containsOperation", o) ∈ g'.triples) :
    (a, Node.tf "containsOperation", o) ∈ g.triples ∨ (a = root ∧ c.withOperators = true ∧
      c.withMembership = true ∧ ∃ n, (Node.b n, Node.tf "via", o) ∈ g'.triples) := by
  obtain ⟨_, L⟩ := h; exact L.cO_justified hm

theorem Logged.cT_off (h : Logged G c root g g') (hM : c.withMembership = false)
    (hMS : c.withMembershipSupertypes = false) {a tn : Node} (hm : (a, Node.tf "containsType", tn) ∈ g'.triples) :
    (a, Node.tf "containsType", tn) ∈ g.triples := by
  obtain ⟨_, L⟩ := h; exact L.cT_off hM hMS hm

theorem Logged.cO_off (h : Logged G c root g g') (hoff : c.withMembership = false ∨ c.withOperators = false)
    {a o : Node} (hm : (a, Node.tf "containsOperation", o) ∈ g'.triples) :
    (a, Node.tf "containsOperation", o) ∈ g.triples := by
  obtain ⟨_, L⟩ := h; exact L.cO_off hoff hm

theorem Logged.cT_union (h : Logged G c root g g') (hg : ∀ t ∈ g.triples, ¬ Tracked t)
    (hM : c.withMembership = true) (hMS : c.withMembershipSupertypes = true) (hS : c.withSupertypes = true)
    (tn : Node) :
    (root, Node.tf "containsType", tn) ∈ g'.triples ↔
      ∃ n, (Node.b n, Node.tf "type", tn) ∈ g'.triples ∨ (Node.b n, Node.tf "subtypeOf", tn) ∈ g'.triples := by
  obtain ⟨_, L⟩ := h; exact L.cT_union hg hM hMS hS tn

theorem Logged.cT_union_types (h : Logged G c root g g') (hg : ∀ t ∈ g.triples, ¬ Tracked t)
    (hM : c.withMembership = true) (hMS : c.withMembershipSupertypes = false) (tn : Node) :
    (root, Node.tf "containsType", tn) ∈ g'.triples ↔ ∃ n, (Node.b n, Node.tf "type", tn) ∈ g'.triples := by
  obtain ⟨_, L⟩ := h; exact L.cT_union_types hg hM hMS tn

theorem Logged.cO_union (h : Logged G c root g g') (hg : ∀ t ∈ g.triples, ¬ Tracked t)
    (hM : c.withMembership = true) (o : Node) :
    (root, Node.tf "containsOperation", o) ∈ g'.triples ↔ ∃ n, (Node.b n, Node.tf "via", o) ∈ g'.triples := by
  obtain ⟨_, L⟩ := h; exact L.cO_union hg hM o

end

theorem initGraph_untracked (G : GLang) (c : GCfg) : ∀ t ∈ (initGraph G c).triples, ¬ Tracked t := by
  intro t ht
  rw [initGraph_triples] at ht
  cases ht

/-- in the graph of a workflow, membership triples have the root as subject and need their switches -/
theorem addWorkflow_member_switches (P : PLang) (G : GLang) (ops : List OperatorDecl) (c : GCfg)
    (passthrough : Bool) (w : Wf) (g : GState) (out : Nat) (m : List (Nat × Nat))
    (h : addWorkflow P G ops c passthrough w = .ok (g, out, m)) (a o : Node) :
    ((a, Node.tf "containsType", o) ∈ g.triples →
      a = Node.res "workflow" ∧ (c.withMembership = true ∨ c.withMembershipSupertypes = true)) ∧
    ((a, Node.tf "containsOperation", o) ∈ g.triples →
      a = Node.res "workflow" ∧ c.withMembership = true ∧ c.withOperators = true) := by
  have L := addWorkflow_logged P G ops c passthrough w g out m h
  constructor
  · intro hm
    rcases L.cT_justified hm with h' | ⟨ha, _, ⟨h1, _⟩ | ⟨h1, _⟩⟩
    · exact absurd (tracked_cT _ _) (initGraph_untracked G c _ h')
    · exact ⟨ha, .inl h1⟩
    · exact ⟨ha, .inr h1⟩
  · intro hm
    rcases L.cO_justified hm with h' | ⟨ha, h1, h2, _⟩
    · exact absurd (tracked_cO _ _) (initGraph_untracked G c _ h')
    · exact ⟨ha, h2, h1⟩

end Tfv
