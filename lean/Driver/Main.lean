import Tfv.DriverCore
/-! entry point of `tfv-driver`; the protocol is in `Tfv/DriverCore.lean` (shared with `tfv-inv`) -/

def main : IO Unit := do
  let out ← IO.getStdout
  loop (← IO.getStdin) out {}
  out.flush
