import Tfv.Model
import Tfv.Spec.Sub
import Tfv.Spec.Taxonomy
import Tfv.Proofs.SubOrder
import Tfv.Proofs.Canon
/-!
# Helper lemmas for C10, part 2: covering steps are complete between `Top`/`Bottom`-free types
-/
namespace Tfv.Tax
open Tfv

/-! ## 1. `tbFree` -/

theorem tbFree_app {o : Nat} {args : List Ty} :
    tbFree (.app o args) = true ↔ (o ≠ TOP ∧ o ≠ BOT ∧ tbFreeL args = true) := by
  unfold tbFree
  simp only [Bool.and_eq_true, bne_iff_ne, ne_eq, and_assoc]

theorem tbFreeL_cons {t : Ty} {ts : List Ty} :
    tbFreeL (t :: ts) = true ↔ (tbFree t = true ∧ tbFreeL ts = true) := by
  rw [tbFreeL]
  simp only [Bool.and_eq_true]

theorem tbFreeL_nil : tbFreeL [] = true := by rw [tbFreeL]

theorem tbFree_base {a : Nat} (h : 5 ≤ a) : tbFree (.app a []) = true := by
  rw [tbFree_app]
  refine ⟨?_, ?_, tbFreeL_nil⟩
  · unfold TOP; omega
  · unfold BOT; omega

/-! ## 2. base types: parent/children steps -/

/-- the last step of a proper ancestor walk -/
theorem anc_last {L : Lang} {a b : Nat} (h : Anc L a b) (hne : a ≠ b) :
    ∃ c, parentOf L c = some b ∧ Anc L a c := by
  induction h with
  | refl _ => exact absurd rfl hne
  | @step x p y hp _ ih =>
    by_cases e : p = y
    · subst e; exact ⟨x, hp, Anc.refl _⟩
    · obtain ⟨c, hc1, hc2⟩ := ih e
      exact ⟨c, hc1, Anc.step hp hc2⟩

theorem baseSucc_child {L : Lang} {o : SOpts} (hc : o.custom = true) {c p : Nat}
    (hp : parentOf L c = some p) (hT : p ≠ TOP) : Ty.app c [] ∈ baseSucc L o false p := by
  have hTb : (p == TOP) = false := by simpa using hT
  have hmem : c ∈ childrenOf L p := mem_childrenOf.mpr hp
  have hne : (childrenOf L p).isEmpty = false := by
    cases hch : childrenOf L p with
    | nil => rw [hch] at hmem; cases hmem
    | cons _ _ => rfl
  unfold baseSucc
  simp only [Bool.not_false, if_true, hTb, Bool.false_eq_true, if_false, hc, hne, Bool.and_self,
    List.mem_map]
  exact ⟨c, hmem, rfl⟩

theorem baseSucc_parent {L : Lang} {o : SOpts} (hc : o.custom = true) {a p : Nat}
    (hp : parentOf L a = some p) (hB : a ≠ BOT) : Ty.app p [] ∈ baseSucc L o true a := by
  have hBb : (a == BOT) = false := by simpa using hB
  unfold baseSucc
  simp only [Bool.not_true, Bool.false_eq_true, if_false, hBb, hc, hp, Option.isSome_some, Bool.and_self,
    if_true, List.mem_singleton]

theorem succT_base {L : Lang} {o : SOpts} {up : Bool} {a : Nat} (h0 : arityOf L a = 0) :
    succT L o up (.app a []) = baseSucc L o up a := by
  simp only [succT, h0, beq_self_eq_true, if_true]

theorem succT_app_mem {L : Lang} {o : SOpts} {up : Bool} {op : Nat} {args us : List Ty}
    (h0 : arityOf L op ≠ 0) (h : us ∈ succArgs L o up (varianceOf L op) args) :
    Ty.app op us ∈ succT L o up (.app op args) := by
  have hb : (arityOf L op == 0) = false := by simpa using h0
  have hne : (succArgs L o up (varianceOf L op) args).isEmpty = false := by
    cases hch : succArgs L o up (varianceOf L op) args with
    | nil => rw [hch] at h; cases h
    | cons _ _ => rfl
  simp only [succT, hb, Bool.false_eq_true, if_false, hne, List.mem_map]
  exact ⟨us, h, rfl⟩

theorem succArgs_head {L : Lang} {o : SOpts} {up v : Bool} {vs : List Bool} {p q : Ty} {ps : List Ty}
    (h : q ∈ succT L o (up == v) p) : (q :: ps) ∈ succArgs L o up (v :: vs) (p :: ps) := by
  simp only [succArgs, List.mem_append, List.mem_map]
  exact Or.inl ⟨q, h, rfl⟩

theorem succArgs_tail {L : Lang} {o : SOpts} {up v : Bool} {vs : List Bool} {p : Ty} {ps qs : List Ty}
    (h : qs ∈ succArgs L o up vs ps) : (p :: qs) ∈ succArgs L o up (v :: vs) (p :: ps) := by
  simp only [succArgs, List.mem_append, List.mem_map]
  exact Or.inr ⟨qs, h, rfl⟩

/-- upward chain of parent steps between base types -/
theorem base_cover_up {L : Lang} (wf : WF L) {o : SOpts} (hc : o.custom = true) {a b : Nat}
    (h : Anc L a b) : Reach (Step L o true) (.app a []) (.app b []) := by
  induction h with
  | refl _ => exact Reach.refl _
  | @step x p y hp _ ih =>
    refine Reach.step ?_ ih
    have h5 := wf.builtin_orphan _ _ hp
    show Ty.app p [] ∈ succT L o true (.app x [])
    rw [succT_base (wf.child_nullary _ _ hp)]
    exact baseSucc_parent hc hp (by unfold BOT; omega)

/-- downward chain of child steps between base types -/
theorem base_cover_down {L : Lang} (wf : WF L) {o : SOpts} (hc : o.custom = true) {a b : Nat}
    (h : Anc L a b) : Reach (Step L o false) (.app b []) (.app a []) := by
  induction h with
  | refl _ => exact Reach.refl _
  | @step x p y hp _ ih =>
    refine reach_trans ih (reach_one ?_)
    show Ty.app x [] ∈ succT L o false (.app p [])
    rw [succT_base (wf.parent_nullary _ _ hp)]
    exact baseSucc_child hc hp (wf.parent_not_top _ _ hp)

/-! ## 3. a covering step towards any strictly smaller/larger type -/

mutual
/-- distance between two types of the same shape: sum of the operator index differences -/
def gap : Ty → Ty → Nat
  | .app a as, .app b bs => (a - b) + (b - a) + gapL as bs
def gapL : List Ty → List Ty → Nat
  | s :: ss, t :: ts => gap s t + gapL ss ts
  | [], _ => 0
  | _ :: _, [] => 0
end

theorem leArgs_cons_inv {L : Lang} {up : Bool} {vs : List Bool} {p : Ty} {ps ss : List Ty}
    (h : LeArgs L up vs (p :: ps) ss) :
    ∃ v vs' q qs, vs = v :: vs' ∧ ss = q :: qs ∧ Le L (up == v) p q ∧ LeArgs L up vs' ps qs := by
  cases up
  · obtain ⟨v, vs', q, qs, e1, e2, h1, h2⟩ := subArgs_cons_right (leArgs_down.mp h)
    refine ⟨v, vs', q, qs, e1, e2, ?_, leArgs_down.mpr h2⟩
    cases v
    · exact le_up.mpr (by simpa using h1)
    · exact le_down.mpr (by simpa using h1)
  · obtain ⟨v, vs', q, qs, e1, e2, h1, h2⟩ := subArgs_cons_left (leArgs_up.mp h)
    refine ⟨v, vs', q, qs, e1, e2, ?_, leArgs_up.mpr h2⟩
    cases v
    · exact le_down.mpr (by simpa using h1)
    · exact le_up.mpr (by simpa using h1)

theorem leArgs_nil_inv {L : Lang} {up : Bool} {vs : List Bool} {ss : List Ty}
    (h : LeArgs L up vs [] ss) : ss = [] := by
  cases up
  · exact (subArgs_nil_right (leArgs_down.mp h)).2
  · exact (subArgs_nil_left (leArgs_up.mp h)).2

/-- root shape of `Le` between `Top`/`Bottom`-free types -/
theorem le_inv_tbfree {L : Lang} {up : Bool} {a b : Nat} {as bs : List Ty}
    (h : Le L up (.app b bs) (.app a as)) (hb : b ≠ TOP ∧ b ≠ BOT) (ha : a ≠ TOP ∧ a ≠ BOT) :
    (as = [] ∧ bs = [] ∧ arityOf L a = 0 ∧ arityOf L b = 0 ∧ (if up then Anc L b a else Anc L a b)) ∨
    (a = b ∧ arityOf L b ≠ 0 ∧ LeArgs L up (varianceOf L b) bs as) := by
  cases up
  · rcases sub_inv (le_down.mp h) with ⟨e, _⟩ | ⟨e, _⟩ | ⟨e1, e2, n1, n2, a1⟩ | ⟨e1, n1, r1⟩
    · exact absurd e ha.2
    · exact absurd e hb.1
    · exact Or.inl ⟨e1, e2, n1, n2, by simpa using a1⟩
    · subst e1; exact Or.inr ⟨rfl, n1, leArgs_down.mpr r1⟩
  · rcases sub_inv (le_up.mp h) with ⟨e, _⟩ | ⟨e, _⟩ | ⟨e1, e2, n1, n2, a1⟩ | ⟨e1, n1, r1⟩
    · exact absurd e hb.2
    · exact absurd e ha.1
    · exact Or.inl ⟨e2, e1, n2, n1, by simpa using a1⟩
    · subst e1; exact Or.inr ⟨rfl, n1, leArgs_up.mpr r1⟩

mutual
theorem step_complete {L : Lang} (wf : WF L) {o : SOpts} (hc : o.custom = true) : ∀ (up : Bool) (t s : Ty),
    tbFree t = true → tbFree s = true → Le L up t s → s ≠ t →
    ∃ u, u ∈ succT L o up t ∧ Le L up u s ∧ tbFree u = true ∧ gap u s < gap t s
  | up, .app b bs, .app a as, ht, hs, hle, hne => by
    obtain ⟨hb1, hb2, hb3⟩ := tbFree_app.mp ht
    obtain ⟨ha1, ha2, ha3⟩ := tbFree_app.mp hs
    rcases le_inv_tbfree hle ⟨hb1, hb2⟩ ⟨ha1, ha2⟩ with ⟨e1, e2, n1, n2, hanc⟩ | ⟨e1, n1, r1⟩
    · subst e1; subst e2
      have hab : a ≠ b := fun e => hne (by rw [e])
      rw [succT_base n2]
      cases up
      · simp only [Bool.false_eq_true, if_false] at hanc
        obtain ⟨c, hc1, hc2⟩ := anc_last hanc hab
        have h5 := wf.builtin_orphan _ _ hc1
        have hlt := wf.parent_lt _ _ hc1
        have hle2 := anc_le wf hc2
        refine ⟨.app c [], baseSucc_child hc hc1 hb1,
          le_down.mpr (Sub.base n1 (wf.child_nullary _ _ hc1) hc2), tbFree_base h5, ?_⟩
        simp only [gap, gapL]
        omega
      · simp only [if_true] at hanc
        cases hanc with
        | refl _ => exact absurd rfl hab
        | @step _ p _ hp hpa =>
          have hlt := wf.parent_lt _ _ hp
          have hle2 := anc_le wf hpa
          refine ⟨.app p [], baseSucc_parent hc hp hb2,
            le_up.mpr (Sub.base (wf.parent_nullary _ _ hp) n1 hpa),
            tbFree_app.mpr ⟨wf.parent_not_top _ _ hp, wf.parent_not_bot _ _ hp, tbFreeL_nil⟩, ?_⟩
          simp only [gap, gapL]
          omega
    · subst e1
      have hne2 : as ≠ bs := fun e => hne (by rw [e])
      obtain ⟨us, u1, u2, u3, u4⟩ := stepArgs_complete wf hc up (varianceOf L a) bs as hb3 ha3 r1 hne2
      refine ⟨.app a us, succT_app_mem n1 u1, le_app n1 u2, tbFree_app.mpr ⟨hb1, hb2, u3⟩, ?_⟩
      simp only [gap]
      omega
theorem stepArgs_complete {L : Lang} (wf : WF L) {o : SOpts} (hc : o.custom = true) : ∀ (up : Bool)
    (vs : List Bool) (ts ss : List Ty), tbFreeL ts = true → tbFreeL ss = true → LeArgs L up vs ts ss → ss ≠ ts →
    ∃ us, us ∈ succArgs L o up vs ts ∧ LeArgs L up vs us ss ∧ tbFreeL us = true ∧ gapL us ss < gapL ts ss
  | up, vs, [], ss, _, _, hle, hne => absurd (leArgs_nil_inv hle) hne
  | up, vs, p :: ps, ss, ht, hs, hle, hne => by
    obtain ⟨v, vs', q, qs, e1, e2, h1, h2⟩ := leArgs_cons_inv hle
    subst e1; subst e2
    obtain ⟨t1, t2⟩ := tbFreeL_cons.mp ht
    obtain ⟨s1, s2⟩ := tbFreeL_cons.mp hs
    by_cases e : q = p
    · subst e
      have hne2 : qs ≠ ps := fun e' => hne (by rw [e'])
      obtain ⟨us, u1, u2, u3, u4⟩ := stepArgs_complete wf hc up vs' ps qs t2 s2 h2 hne2
      refine ⟨q :: us, succArgs_tail u1, leArgs_cons h1 u2, tbFreeL_cons.mpr ⟨t1, u3⟩, ?_⟩
      simp only [gapL]
      omega
    · obtain ⟨u, u1, u2, u3, u4⟩ := step_complete wf hc (up == v) p q t1 s1 h1 e
      refine ⟨u :: ps, succArgs_head u1, leArgs_cons u2 h2, tbFreeL_cons.mpr ⟨u3, t2⟩, ?_⟩
      simp only [gapL]
      omega
end

/-! ## 4. reachability by covering steps -/

theorem reach_complete_aux {L : Lang} (wf : WF L) {o : SOpts} (ok : UnivOK L o) (hc : o.custom = true)
    (up : Bool) (s : Ty) (hs : tbFree s = true) : ∀ (k : Nat) (t : Ty), gap t s ≤ k → wfTy L t = true →
    tbFree t = true → Le L up t s → Reach (StepTo L o up s) t s
  | k, t, hk, hw, ht, hle => by
    by_cases e : s = t
    · subst e; exact Reach.refl _
    · obtain ⟨u, u1, u2, u3, u4⟩ := step_complete wf hc up t s ht hs hle e
      obtain ⟨r1, r2, r3⟩ := succT_sound wf ok up t u hw u1
      cases k with
      | zero => omega
      | succ k =>
        exact Reach.step ⟨u1, r2, r1, u2, u3, r3⟩
          (reach_complete_aux wf ok hc up s hs k u (by omega) r3 u3 u2)

theorem reach_complete {L : Lang} (wf : WF L) {o : SOpts} (ok : UnivOK L o) (hc : o.custom = true)
    (up : Bool) {t s : Ty} (hw : wfTy L t = true) (ht : tbFree t = true) (hs : tbFree s = true)
    (hle : Le L up t s) : Reach (StepTo L o up s) t s :=
  reach_complete_aux wf ok hc up s hs (gap t s) t (Nat.le_refl _) hw ht hle

/-- every type on a `StepTo` path lies between the start and the goal -/
theorem reach_stepTo_between {L : Lang} (wf : WF L) {o : SOpts} {up : Bool} {goal t x : Ty}
    (h : Reach (StepTo L o up goal) t x) (hw : wfTy L t = true) (ht : tbFree t = true)
    (hle : Le L up t goal) :
    Le L up t x ∧ Le L up x goal ∧ tbFree x = true ∧ wfTy L x = true := by
  induction h with
  | refl _ => exact ⟨le_refl up hw, hle, ht, hw⟩
  | @step a b c hr _ ih =>
    obtain ⟨_, _, r3, r4, r5, r6⟩ := hr
    obtain ⟨i1, i2, i3, i4⟩ := ih r6 r5 r4
    exact ⟨le_trans wf r3 i1, i2, i3, i4⟩

end Tfv.Tax
