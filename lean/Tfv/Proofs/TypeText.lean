import Tfv.Model.Text
/-!
# Helper lemmas for C14 (text half): the type parser inverts the type printer

* `loop_step`, `typeStep_*` — what one token does to the state of `parse_type`'s loop.
* `resolve_op`, `resolve_alias` — name resolution under the naming discipline `TextNames` / `AliasNames`.
* `ParsesTy` — the stack-machine invariant: from any state whose stack top is not an operator,
  reading the printed form of `t` (followed by anything) pushes `.ty t.toTerm` and changes nothing else.
  `ParsesArgs` — the same for a comma-separated argument list after an opening bracket.
* `parsesTy_of_printable` — the invariant holds for every printable type (mutual induction over
  `Ty` / `List Ty`), covering the three printing forms: name, `Name ( args )`, `( a * b )`.
* `parseTypeToks_typeToks`, `typeToks_injective`, `parseTypeToks_alias_plain`, `parseTypeToks_alias_param`.
-/
namespace Tfv.TypeText

/-- tokens with a fixed meaning for the type parser -/
def specialToks : List String := ["(", ")", ",", "*", "_", "#", "\n", "Top", "Bottom"]

/-- what `Language.add` guarantees about operator names, as far as type text needs it -/
structure TextNames (L : Lang) : Prop where
  builtins : L.take 5 = builtinDecls
  nodup : ((L.drop 5).map (·.name)).Nodup
  notSpecial : ∀ x ∈ (L.drop 5).map (·.name), x ∉ specialToks

/-! ## 1. single steps of the loop -/

theorem loop_step (P : PLang) (vb : Nat) (s s' : TState) (tok : String) (rest : List String)
    (hc : s.comment = false) (h1 : tok ≠ "\n") (h2 : tok ≠ "#")
    (hs : typeStep P vb s tok = .ok s') :
    parseTypeLoop P true vb s (tok :: rest) = parseTypeLoop P true vb s' rest := by
  rw [parseTypeLoop]
  simp [hc, h1, h2, hs]

theorem typeStep_open (P : PLang) (vb : Nat) (top : TItem) (R : List TItem) (lvl : Int) (cs : List Bool)
    (fr : Nat) (c : Bool) :
    typeStep P vb ⟨top :: R, lvl, cs, fr, c⟩ "(" = .ok ⟨.mark :: top :: R, lvl + 1, top.isOp :: cs, fr, c⟩ := by
  simp [typeStep]

theorem typeStep_star (P : PLang) (vb : Nat) (a : Term) (R : List TItem) (lvl : Int) (cs : List Bool)
    (fr : Nat) (c : Bool) :
    typeStep P vb ⟨.ty a :: R, lvl, cs, fr, c⟩ "*" = .ok ⟨.ty a :: .op PROD :: R, lvl, cs, fr, c⟩ := by
  simp [typeStep]

theorem typeStep_comma (P : PLang) (vb : Nat) (S st : List TItem) (lvl : Int) (cs : List Bool)
    (fr : Nat) (c : Bool) (hb : backtrack P S [] = .ok st) :
    typeStep P vb ⟨S, lvl, cs, fr, c⟩ "," = .ok ⟨.mark :: st, lvl, cs, fr, c⟩ := by
  simp [typeStep, hb]

theorem typeStep_close_group (P : PLang) (vb : Nat) (S st : List TItem) (lvl : Int) (cs : List Bool)
    (fr : Nat) (c : Bool) (hb : backtrack P S [] = .ok st) :
    typeStep P vb ⟨S, lvl, false :: cs, fr, c⟩ ")" = .ok ⟨st, lvl - 1, cs, fr, c⟩ := by
  simp [typeStep, hb]

theorem typeStep_close_call (P : PLang) (vb : Nat) (S st st' : List TItem) (lvl : Int) (cs : List Bool)
    (fr : Nat) (c : Bool) (hb : backtrack P S [] = .ok st) (ha : applyOperator P st [] = .ok st') :
    typeStep P vb ⟨S, lvl, true :: cs, fr, c⟩ ")" = .ok ⟨st', lvl - 1, cs, fr, c⟩ := by
  simp [typeStep, hb, ha]

theorem typeStep_name (P : PLang) (vb : Nat) (s : TState) (tok : String) (it : TItem)
    (h : tok ∉ specialToks) (hr : resolveTypeToken P tok = .ok it) :
    typeStep P vb s tok = .ok { s with stack := it :: s.stack } := by
  simp only [specialToks, List.mem_cons, List.not_mem_nil, or_false, not_or] at h
  simp [typeStep, h, hr]

/-! ## 2. names -/

theorem getElem?_of_take5 {L : Lang} (h : L.take 5 = builtinDecls) (i : Nat) (hi : i < 5) :
    L[i]? = builtinDecls[i]? := by
  rw [← h, List.getElem?_take]; simp [hi]

theorem lang_builtin_facts {L : Lang} (h : L.take 5 = builtinDecls) :
    nameOf L TOP = "Top" ∧ nameOf L BOT = "Bottom" ∧ arityOf L TOP = 0 ∧ arityOf L BOT = 0 ∧ arityOf L PROD = 2 := by
  simp [nameOf, arityOf, varianceOf, TOP, BOT, PROD, getElem?_of_take5 h, builtinDecls]

theorem findIdx?_name_getElem {α : Type} (f : α → String) (l : List α) (hn : (l.map f).Nodup) :
    ∀ (i : Nat) (hi : i < l.length), l.findIdx? (fun d => f d == f l[i]) = some i := by
  induction l with
  | nil => intro i hi; simp at hi
  | cons d l ih =>
    intro i hi
    simp only [List.map_cons, List.nodup_cons] at hn
    cases i with
    | zero => simp [List.findIdx?_cons]
    | succ i =>
      simp only [List.length_cons, Nat.add_lt_add_iff_right] at hi
      have hne : (f d == f (l[i])) = false := by
        simp only [beq_eq_false_iff_ne, ne_eq]
        intro he
        apply hn.1
        rw [he]
        exact List.mem_map.mpr ⟨l[i], List.getElem_mem hi, rfl⟩
      simp [List.findIdx?_cons, hne, ih hn.2 i hi]

theorem nameOf_drop5 (L : Lang) (o : Nat) (h5 : 5 ≤ o) (ho : o < L.length) :
    ∃ (h : o - 5 < (L.drop 5).length), nameOf L o = ((L.drop 5)[o - 5]).name := by
  refine ⟨by simp; omega, ?_⟩
  have : 5 + (o - 5) = o := by omega
  simp [nameOf, List.getElem_drop, this, List.getElem?_eq_getElem ho]

theorem nameOf_not_special {L : Lang} (hN : TextNames L) (o : Nat) (h5 : 5 ≤ o) (ho : o < L.length) :
    nameOf L o ∉ specialToks := by
  obtain ⟨h, he⟩ := nameOf_drop5 L o h5 ho
  rw [he]
  exact hN.notSpecial _ (List.mem_map.mpr ⟨_, List.getElem_mem h, rfl⟩)

theorem resolve_op {P : PLang} (hN : TextNames P.types) (o : Nat) (h5 : 5 ≤ o) (ho : o < P.types.length) :
    resolveTypeToken P (nameOf P.types o)
      = .ok (if arityOf P.types o == 0 then .ty (.app o []) else .op o) := by
  have hns := nameOf_not_special hN o h5 ho
  obtain ⟨h, he⟩ := nameOf_drop5 P.types o h5 ho
  have hf := findIdx?_name_getElem (·.name) _ hN.nodup (o - 5) h
  rw [← he] at hf
  simp only [specialToks, List.mem_cons, List.not_mem_nil, or_false, not_or] at hns
  have : o - 5 + 5 = o := by omega
  simp [resolveTypeToken, hns, hf, this]

theorem resolve_top (P : PLang) : resolveTypeToken P "Top" = .ok (.ty (.app TOP [])) := by
  simp [resolveTypeToken]

theorem resolve_bot (P : PLang) : resolveTypeToken P "Bottom" = .ok (.ty (.app BOT [])) := by
  simp [resolveTypeToken]

/-! ## 3. folding the stack -/

theorem backtrack_tys (P : PLang) (xs : List Term) (R : List TItem) (acc : List Term) :
    backtrack P (xs.map TItem.ty ++ R) acc = backtrack P R (acc ++ xs) := by
  induction xs generalizing acc with
  | nil => simp
  | cons x xs ih => simp [backtrack, ih]

theorem applyOperator_tys (P : PLang) (xs : List Term) (R : List TItem) (acc : List Term) :
    applyOperator P (xs.map TItem.ty ++ R) acc = applyOperator P R (acc ++ xs) := by
  induction xs generalizing acc with
  | nil => simp
  | cons x xs ih => simp [applyOperator, ih]

theorem toTermL_eq_map (ts : List Ty) : Ty.toTermL ts = ts.map Ty.toTerm := by
  induction ts with
  | nil => simp [Ty.toTermL]
  | cons t ts ih => simp [Ty.toTermL, ih]

/-- the argument types of a call as they lie on the stack (top first) -/
def tyItems (ts : List Ty) : List TItem := (Ty.toTermL ts).reverse.map TItem.ty

theorem tyItems_cons (t : Ty) (ts : List Ty) : tyItems (t :: ts) = tyItems ts ++ [.ty t.toTerm] := by
  simp [tyItems, Ty.toTermL]

theorem applyOperator_tyItems (P : PLang) (ts : List Ty) (it : TItem) (S : List TItem) (hop : it.isOp = true) :
    applyOperator P (tyItems ts ++ it :: S) []
      = match applyItem P it (Ty.toTermL ts) with
        | .error e => .error e
        | .ok t => .ok (.ty t :: S) := by
  rw [tyItems, applyOperator_tys]
  cases it <;> simp [TItem.isOp] at hop <;> simp only [applyOperator, TItem.isOp, List.nil_append, List.reverse_reverse, if_true]
  all_goals (generalize applyItem P _ _ = r; cases r <;> rfl)

/-! ## 4. the invariant and its three printing forms -/

/-- the stack-machine invariant for one type: from any state whose stack top is not an operator,
reading the printed form of `t` pushes `t` and changes nothing else -/
def ParsesTy (P : PLang) (vb : Nat) (t : Ty) : Prop :=
  ∀ (top : TItem) (R : List TItem) (lvl : Int) (cs : List Bool) (fr : Nat) (rest : List String),
    top.isOp = false →
    parseTypeLoop P true vb ⟨top :: R, lvl, cs, fr, false⟩ (typeToks P.types t ++ rest)
      = parseTypeLoop P true vb ⟨.ty t.toTerm :: top :: R, lvl, cs, fr, false⟩ rest

/-- the invariant for a non-empty argument list read after an opening bracket: the machine reaches a
stack that the next `backtrack` folds to the arguments (in reverse) on top of what was below the mark -/
def ParsesArgs (P : PLang) (vb : Nat) (ts : List Ty) : Prop :=
  ∀ (R : List TItem) (lvl : Int) (cs : List Bool) (fr : Nat) (rest : List String),
    ∃ St : List TItem,
      parseTypeLoop P true vb ⟨.mark :: R, lvl, cs, fr, false⟩ (typeToksArgs P.types ts ++ rest)
        = parseTypeLoop P true vb ⟨St, lvl, cs, fr, false⟩ rest
      ∧ backtrack P St [] = .ok (tyItems ts ++ R)

theorem parsesTy_prod (P : PLang) (vb : Nat) (hN : TextNames P.types) (a b : Ty)
    (ha : ParsesTy P vb a) (hb : ParsesTy P vb b) : ParsesTy P vb (.app PROD [a, b]) := by
  intro top R lvl cs fr rest htop
  have hf := lang_builtin_facts hN.builtins
  have hbt : backtrack P (.ty b.toTerm :: .ty a.toTerm :: .op PROD :: .mark :: top :: R) []
      = .ok (.ty (Ty.app PROD [a, b]).toTerm :: top :: R) := by
    simp [backtrack, applyItem, hf, Ty.toTerm, Ty.toTermL]
  simp only [typeToks, beq_self_eq_true, if_true, List.append_assoc, List.cons_append, List.nil_append]
  rw [loop_step P vb _ _ "(" _ rfl (by decide) (by decide) (typeStep_open ..), htop]
  rw [ha .mark _ _ _ _ _ rfl]
  rw [loop_step P vb _ _ "*" _ rfl (by decide) (by decide) (typeStep_star ..)]
  rw [hb _ _ _ _ _ _ rfl]
  rw [loop_step P vb _ _ ")" _ rfl (by decide) (by decide) (typeStep_close_group _ _ _ _ _ _ _ _ hbt)]
  rw [Int.add_sub_cancel]

theorem not_special_ne {tok : String} (h : tok ∉ specialToks) : tok ≠ "\n" ∧ tok ≠ "#" := by
  simp only [specialToks, List.mem_cons, List.not_mem_nil, or_false, not_or] at h
  exact ⟨h.2.2.2.2.2.2.1, h.2.2.2.2.2.1⟩

/-- one token that resolves to an item is pushed -/
theorem loop_name (P : PLang) (vb : Nat) (S : List TItem) (lvl : Int) (cs : List Bool) (fr : Nat)
    (tok : String) (it : TItem) (rest : List String)
    (h : tok ∉ specialToks) (hr : resolveTypeToken P tok = .ok it) :
    parseTypeLoop P true vb ⟨S, lvl, cs, fr, false⟩ (tok :: rest)
      = parseTypeLoop P true vb ⟨it :: S, lvl, cs, fr, false⟩ rest :=
  loop_step P vb _ _ tok rest rfl (not_special_ne h).1 (not_special_ne h).2 (typeStep_name P vb _ tok it h hr)

theorem loop_top (P : PLang) (vb : Nat) (S : List TItem) (lvl : Int) (cs : List Bool) (fr : Nat) (rest : List String) :
    parseTypeLoop P true vb ⟨S, lvl, cs, fr, false⟩ ("Top" :: rest)
      = parseTypeLoop P true vb ⟨.ty (.app TOP []) :: S, lvl, cs, fr, false⟩ rest := by
  apply loop_step P vb _ _ "Top" rest rfl (by decide) (by decide)
  simp [typeStep, resolve_top]

theorem loop_bot (P : PLang) (vb : Nat) (S : List TItem) (lvl : Int) (cs : List Bool) (fr : Nat) (rest : List String) :
    parseTypeLoop P true vb ⟨S, lvl, cs, fr, false⟩ ("Bottom" :: rest)
      = parseTypeLoop P true vb ⟨.ty (.app BOT []) :: S, lvl, cs, fr, false⟩ rest := by
  apply loop_step P vb _ _ "Bottom" rest rfl (by decide) (by decide)
  simp [typeStep, resolve_bot]

/-- a call `name ( args )` whose head resolves to an operator or alias item -/
theorem loop_call (P : PLang) (vb : Nat) (ts : List Ty) (hargs : ParsesArgs P vb ts)
    (S : List TItem) (lvl : Int) (cs : List Bool) (fr : Nat) (tok : String) (it : TItem) (res : Term)
    (rest : List String)
    (h : tok ∉ specialToks) (hr : resolveTypeToken P tok = .ok it) (hop : it.isOp = true)
    (happ : applyItem P it (Ty.toTermL ts) = .ok res) :
    parseTypeLoop P true vb ⟨S, lvl, cs, fr, false⟩ ([tok, "("] ++ typeToksArgs P.types ts ++ [")"] ++ rest)
      = parseTypeLoop P true vb ⟨.ty res :: S, lvl, cs, fr, false⟩ rest := by
  simp only [List.append_assoc, List.cons_append, List.nil_append]
  rw [loop_name P vb _ _ _ _ tok it _ h hr]
  rw [loop_step P vb _ _ "(" _ rfl (by decide) (by decide) (typeStep_open ..), hop]
  obtain ⟨St, h1, h2⟩ := hargs (it :: S) (lvl + 1) (true :: cs) fr (")" :: rest)
  rw [h1]
  have h3 : applyOperator P (tyItems ts ++ it :: S) [] = .ok (.ty res :: S) := by
    rw [applyOperator_tyItems P ts it S hop, happ]
  rw [loop_step P vb _ _ ")" _ rfl (by decide) (by decide) (typeStep_close_call _ _ _ _ _ _ _ _ _ h2 h3)]
  rw [Int.add_sub_cancel]

theorem parsesArgs_one (P : PLang) (vb : Nat) (t : Ty) (ht : ParsesTy P vb t) : ParsesArgs P vb [t] := by
  intro R lvl cs fr rest
  refine ⟨.ty t.toTerm :: .mark :: R, ?_, ?_⟩
  · simp only [typeToksArgs]
    exact ht .mark R lvl cs fr rest rfl
  · simp [backtrack, tyItems, Ty.toTermL]

theorem parsesArgs_cons (P : PLang) (vb : Nat) (t : Ty) (ts : List Ty) (hne : ts ≠ [])
    (ht : ParsesTy P vb t) (hts : ParsesArgs P vb ts) : ParsesArgs P vb (t :: ts) := by
  intro R lvl cs fr rest
  obtain ⟨St, h1, h2⟩ := hts (.ty t.toTerm :: R) lvl cs fr rest
  refine ⟨St, ?_, ?_⟩
  · have hb : backtrack P (.ty t.toTerm :: .mark :: R) [] = .ok (.ty t.toTerm :: R) := by
      simp [backtrack]
    rw [typeToksArgs]
    · simp only [List.append_assoc, List.cons_append, List.nil_append]
      rw [ht .mark R lvl cs fr _ rfl]
      rw [loop_step P vb _ _ "," _ rfl (by decide) (by decide) (typeStep_comma _ _ _ _ _ _ _ _ hb)]
      exact h1
    · exact hne
  · rw [h2, tyItems_cons]; simp

/-! ## 5. mutual induction over types and argument lists -/

theorem typeToks_call (L : Lang) (o : Nat) (args : List Ty) (ho : o ≠ PROD) (hne : args ≠ []) :
    typeToks L (.app o args) = [nameOf L o, "("] ++ typeToksArgs L args ++ [")"] := by
  have h1 : (o == PROD) = false := by simp [ho]
  have h2 : args.isEmpty = false := by simpa using hne
  unfold typeToks
  simp [h1, h2]

mutual
theorem parsesTy_of_printable (P : PLang) (vb : Nat) (hN : TextNames P.types) :
    ∀ t : Ty, printable P.types t = true → ParsesTy P vb t
  | .app o args, hp => by
    simp only [printable, Bool.and_eq_true, Bool.or_eq_true, beq_iff_eq, decide_eq_true_eq] at hp
    obtain ⟨⟨⟨hcase, holt⟩, hlen⟩, hargs⟩ := hp
    have hall := parsesAll_of_printable P vb hN args hargs
    have hf := lang_builtin_facts hN.builtins
    by_cases hprod : o = PROD
    · subst hprod
      rw [hf.2.2.2.2] at hlen
      match args, hlen, hall with
      | [a, b], _, hall =>
        exact parsesTy_prod P vb hN a b (hall a (by simp)) (hall b (by simp))
    · by_cases hnil : args = []
      · subst hnil
        intro top R lvl cs fr rest htop
        have hne : (o == PROD) = false := by simp [hprod]
        simp only [typeToks, hne, List.isEmpty_nil, if_true, Bool.false_eq_true, if_false, List.cons_append, List.nil_append]
        rcases hcase with ((h | h) | h) | h
        · subst h; rw [hf.1]; exact loop_top ..
        · subst h; rw [hf.2.1]; exact loop_bot ..
        · exact absurd h hprod
        · have hres := resolve_op hN o h holt
          have ha : arityOf P.types o = 0 := by simpa using hlen.symm
          rw [ha] at hres
          exact loop_name P vb _ _ _ _ _ _ _ (nameOf_not_special hN o h holt) hres
      · have hpa := parsesArgs_of_printable P vb hN args hargs hnil
        have hpos : arityOf P.types o ≠ 0 := by
          intro h0; rw [h0] at hlen; exact hnil (List.eq_nil_of_length_eq_zero hlen)
        have h5 : 5 ≤ o := by
          rcases hcase with ((h | h) | h) | h
          · subst h; exact absurd hf.2.2.1 hpos
          · subst h; exact absurd hf.2.2.2.1 hpos
          · exact absurd h hprod
          · exact h
        intro top R lvl cs fr rest htop
        rw [typeToks_call _ o args hprod hnil]
        have hres := resolve_op hN o h5 holt
        have hb : (arityOf P.types o == 0) = false := by simpa using hpos
        rw [hb] at hres
        exact loop_call P vb args hpa _ lvl cs fr _ (.op o) _ rest (nameOf_not_special hN o h5 holt) hres rfl
          (by simp [applyItem, toTermL_eq_map, hlen, Ty.toTerm])
theorem parsesAll_of_printable (P : PLang) (vb : Nat) (hN : TextNames P.types) :
    ∀ ts : List Ty, printableL P.types ts = true → ∀ t ∈ ts, ParsesTy P vb t
  | [], _, t, ht => by simp at ht
  | t' :: ts, hp, t, ht => by
    simp only [printableL, Bool.and_eq_true] at hp
    rcases List.mem_cons.mp ht with heq | ht'
    · exact heq ▸ parsesTy_of_printable P vb hN t' hp.1
    · exact parsesAll_of_printable P vb hN ts hp.2 t ht'
theorem parsesArgs_of_printable (P : PLang) (vb : Nat) (hN : TextNames P.types) :
    ∀ ts : List Ty, printableL P.types ts = true → ts ≠ [] → ParsesArgs P vb ts
  | [], _, h => absurd rfl h
  | t :: ts, hp, _ => by
    simp only [printableL, Bool.and_eq_true] at hp
    have ht := parsesTy_of_printable P vb hN t hp.1
    by_cases hne : ts = []
    · subst hne; exact parsesArgs_one P vb t ht
    · exact parsesArgs_cons P vb t ts hne ht (parsesArgs_of_printable P vb hN ts hp.2 hne)
end

/-! ## 6. the round trip and injectivity -/

theorem parseTypeToks_typeToks (P : PLang) (vb : Nat) (hN : TextNames P.types) (t : Ty)
    (hp : printable P.types t = true) :
    parseTypeToks P (typeToks P.types t) vb = .ok (t.toTerm, 0) := by
  have h := parsesTy_of_printable P vb hN t hp .mark [] 0 [] 0 [] rfl
  rw [List.append_nil] at h
  have h0 : ({} : TState) = ⟨[.mark], 0, [], 0, false⟩ := rfl
  unfold parseTypeToks
  rw [h0, h]
  simp [parseTypeLoop, typeFinish, backtrack]

mutual
theorem toTerm_injective : ∀ s t : Ty, s.toTerm = t.toTerm → s = t
  | .app o as, .app o' bs, h => by
    simp only [Ty.toTerm, Term.app.injEq] at h
    rw [h.1, toTermL_injective as bs h.2]
theorem toTermL_injective : ∀ ss ts : List Ty, Ty.toTermL ss = Ty.toTermL ts → ss = ts
  | [], [], _ => rfl
  | [], _ :: _, h => by simp [Ty.toTermL] at h
  | _ :: _, [], h => by simp [Ty.toTermL] at h
  | s :: ss, t :: ts, h => by
    simp only [Ty.toTermL, List.cons.injEq] at h
    rw [toTerm_injective s t h.1, toTermL_injective ss ts h.2]
end

theorem typeToks_injective (L : Lang) (hN : TextNames L) (s t : Ty)
    (hs : printable L s = true) (ht : printable L t = true) (h : typeToks L s = typeToks L t) : s = t := by
  have h1 := parseTypeToks_typeToks ⟨L, []⟩ 0 hN s hs
  have h2 := parseTypeToks_typeToks ⟨L, []⟩ 0 hN t ht
  simp only at h1 h2
  rw [h, h2] at h1
  simp only [Except.ok.injEq, Prod.mk.injEq, and_true] at h1
  exact (toTerm_injective s t h1.symm)

/-! ## 7. aliases -/

/-- what `Language.add` guarantees about alias names: distinct from each other, from the names of the
language's operators, and from the tokens with a fixed meaning -/
structure AliasNames (P : PLang) : Prop where
  nodup : (P.aliases.map (·.name)).Nodup
  notOp : ∀ a ∈ P.aliases, a.name ∉ (P.types.drop 5).map (·.name)
  notSpecial : ∀ a ∈ P.aliases, a.name ∉ specialToks

theorem resolve_alias {P : PLang} (hA : AliasNames P) (a : AliasDecl) (ha : a ∈ P.aliases) :
    ∃ k, P.aliases[k]? = some a ∧
      resolveTypeToken P a.name = .ok (if a.arity == 0 then .ty a.body else .alias k) := by
  obtain ⟨k, hk, hka⟩ := List.mem_iff_getElem.mp ha
  refine ⟨k, by rw [← hka]; exact List.getElem?_eq_getElem hk, ?_⟩
  have hns := hA.notSpecial a ha
  simp only [specialToks, List.mem_cons, List.not_mem_nil, or_false, not_or] at hns
  have hop : (P.types.drop 5).findIdx? (fun d => d.name == a.name) = none := by
    rw [List.findIdx?_eq_none_iff]
    intro d hd
    have := hA.notOp a ha
    simp only [beq_eq_false_iff_ne, ne_eq]
    intro he
    exact this (List.mem_map.mpr ⟨d, hd, he⟩)
  have hf := findIdx?_name_getElem (·.name) _ hA.nodup k hk
  rw [hka] at hf
  have hget : P.aliases[k]? = some a := by rw [← hka]; exact List.getElem?_eq_getElem hk
  simp [resolveTypeToken, hns, hop, hf, hget]

/-- a single token that denotes a type -/
theorem parseTypeToks_single (P : PLang) (vb : Nat) (tok : String) (body : Term)
    (h : tok ∉ specialToks) (hr : resolveTypeToken P tok = .ok (.ty body)) :
    parseTypeToks P [tok] vb = .ok (body, 0) := by
  have h0 : ({} : TState) = ⟨[.mark], 0, [], 0, false⟩ := rfl
  unfold parseTypeToks
  rw [h0, loop_name P vb _ _ _ _ tok _ _ h hr]
  simp [parseTypeLoop, typeFinish, backtrack]

theorem parseTypeToks_alias_plain (P : PLang) (vb : Nat) (hA : AliasNames P) (a : AliasDecl)
    (ha : a ∈ P.aliases) (har : a.arity = 0) :
    parseTypeToks P [a.name] vb = .ok (a.body, 0) := by
  obtain ⟨k, _, hr⟩ := resolve_alias hA a ha
  simp only [har, beq_self_eq_true, if_true] at hr
  exact parseTypeToks_single P vb a.name a.body (hA.notSpecial a ha) hr

theorem parseTypeToks_alias_param (P : PLang) (vb : Nat) (hN : TextNames P.types) (hA : AliasNames P)
    (a : AliasDecl) (ha : a ∈ P.aliases) (ts : List Ty) (hp : printableL P.types ts = true)
    (hlen : ts.length = a.arity) (hpos : 1 ≤ a.arity) :
    parseTypeToks P ([a.name, "("] ++ typeToksArgs P.types ts ++ [")"]) vb
      = .ok (a.body.substArgs (Ty.toTermL ts), 0) := by
  obtain ⟨k, hk, hr⟩ := resolve_alias hA a ha
  have hne : ts ≠ [] := by intro h; subst h; simp at hlen; omega
  have hb : (a.arity == 0) = false := by simp; omega
  simp only [hb, Bool.false_eq_true, if_false] at hr
  have hargs := parsesArgs_of_printable P vb hN ts hp hne
  have h0 : ({} : TState) = ⟨[.mark], 0, [], 0, false⟩ := rfl
  have happ : applyItem P (.alias k) (Ty.toTermL ts) = .ok (a.body.substArgs (Ty.toTermL ts)) := by
    simp [applyItem, hk, toTermL_eq_map, hlen]
  have := loop_call P vb ts hargs [.mark] 0 [] 0 a.name (.alias k) _ [] (hA.notSpecial a ha) hr rfl happ
  rw [List.append_nil] at this
  unfold parseTypeToks
  rw [h0, this]
  simp [parseTypeLoop, typeFinish, backtrack]

/-! ## 8. the index form of the naming discipline -/

/-- the index form of the naming discipline (as in the URI half) implies the list form -/
theorem nodup_names_of_index (L : Lang)
    (hn : ∀ i j, 5 ≤ i → 5 ≤ j → i < L.length → j < L.length → nameOf L i = nameOf L j → i = j) :
    ((L.drop 5).map (·.name)).Nodup := by
  rw [List.nodup_iff_pairwise_ne, List.pairwise_iff_getElem]
  intro i j hi hj hij he
  simp only [List.length_map, List.length_drop] at hi hj
  simp only [List.getElem_map, List.getElem_drop] at he
  have h1 : nameOf L (5 + i) = (L[5 + i]).name := by
    simp [nameOf, List.getElem?_eq_getElem (show 5 + i < L.length by omega)]
  have h2 : nameOf L (5 + j) = (L[5 + j]).name := by
    simp [nameOf, List.getElem?_eq_getElem (show 5 + j < L.length by omega)]
  have := hn (5 + i) (5 + j) (by omega) (by omega) (by omega) (by omega) (by rw [h1, h2, he])
  omega

theorem not_special_of_index (L : Lang) (S : List String)
    (hs : ∀ i, 5 ≤ i → i < L.length → nameOf L i ∉ S) :
    ∀ x ∈ (L.drop 5).map (·.name), x ∉ S := by
  intro x hx
  obtain ⟨d, hd, rfl⟩ := List.mem_map.mp hx
  obtain ⟨i, hi, rfl⟩ := List.mem_iff_getElem.mp hd
  simp only [List.length_drop] at hi
  have h1 : nameOf L (5 + i) = (L[5 + i]).name := by
    simp [nameOf, List.getElem?_eq_getElem (show 5 + i < L.length by omega)]
  rw [List.getElem_drop, ← h1]
  exact hs (5 + i) (by omega) (by omega)

end Tfv.TypeText
