import Tfv.Proofs.InferNoInternalStore
/-!
# The inference engine never fails with an internal assertion (C17, engine part): the mutual block

One induction on the fuel over the twelve functions of the mutual block of `Tfv/Model/Infer.lean`:
on a store satisfying `Chains`, every function returns a store satisfying `Chains` in which no
constraint has changed its kind (`StepN`), or an error that is not `Err.internal`.
`bind`, `above`, `below` additionally need the variable they are handed to be unresolved
(their callers obtain it from `followT`), `bind` needs the term to be final.
-/
namespace Tfv.C17E
open Tfv Tfv.C03P Tfv.C03C Tfv.C16P

/-! ## 1. the statements -/

def UnifyN (L : Lang) (n : Nat) : Prop :=
  ∀ σ a b st sb sw, Chains σ → GoodR σ (unify L n σ a b st sb sw)

def UnifyListN (L : Lang) (n : Nat) : Prop :=
  ∀ σ vs xs ys st sb sw, Chains σ → GoodR σ (unifyList L n σ vs xs ys st sb sw)

def BindN (L : Lang) (n : Nat) : Prop :=
  ∀ σ v t, Chains σ → (getVar σ v).bound = none → Final σ t → GoodR σ (bind L n σ v t)

def AboveN (L : Lang) (n : Nat) : Prop :=
  ∀ σ v new, Chains σ → (getVar σ v).bound = none → GoodR σ (above L n σ v new)

def BelowN (L : Lang) (n : Nat) : Prop :=
  ∀ σ v new, Chains σ → (getVar σ v).bound = none → GoodR σ (below L n σ v new)

def CheckN (L : Lang) (n : Nat) : Prop :=
  ∀ σ v, Chains σ → GoodR σ (checkConstraints L n σ v)

def CheckListN (L : Lang) (n : Nat) : Prop :=
  ∀ σ v cs, Chains σ → GoodR σ (checkList L n σ v cs)

def FulfillN (L : Lang) (n : Nat) : Prop :=
  ∀ σ c, Chains σ → GoodP σ (fulfill L n σ c)

/-- after `minimize`, an elimination constraint mentions final terms only -/
def MinPost (σ : Store) (c : Nat) (r : R) : Prop :=
  ∀ σ', r = .ok σ' → isElim (getConstr σ c) = true →
    ∃ ref alts f, getConstr σ' c = .elim ref alts f ∧ Final σ' ref ∧ ∀ t, t ∈ alts → Final σ' t

def MinimizeN (L : Lang) (n : Nat) : Prop :=
  ∀ σ c, Chains σ → GoodR σ (minimize L n σ c) ∧ MinPost σ c (minimize L n σ c)

def MinLoopN (L : Lang) (n : Nat) : Prop :=
  ∀ σ alts mins, Chains σ → GoodP σ (minLoop L n σ alts mins)

def FixN (L : Lang) (n : Nat) : Prop :=
  ∀ σ t pl, Chains σ → GoodP σ (fix L n σ t pl)

def FixListN (L : Lang) (n : Nat) : Prop :=
  ∀ σ vs ps pl, Chains σ → GoodR σ (fixList L n σ vs ps pl)

/-! ## 2. small facts -/

theorem goodR_err {σ : Store} {e : Err} (h : isInt e = false) : GoodR σ (.error e) := h
theorem goodP_err {α : Type} {σ : Store} {e : Err} (h : isInt e = false) : GoodP (α := α) σ (.error e) := h

theorem constrs_newVars : ∀ (n : Nat) (σ : Store), (newVars σ n).1.constrs = σ.constrs
  | 0, σ => by unfold newVars; rfl
  | n+1, σ => by
    unfold newVars
    simp only []
    rw [constrs_newVars n]
    rfl

theorem stepN_newVars {σ : Store} (hc : Chains σ) (n : Nat) : StepN σ (newVars σ n).1 :=
  StepN.of_boundEq hc (boundEq_newVars n σ) (constrs_newVars n σ)

theorem boundEq_setVar2 {σ : Store} {v : Nat} {i j : VarInfo} (hi : i.bound = (getVar σ v).bound)
    (hj : j.bound = (getVar σ v).bound) : BoundEq σ (setVar (setVar σ v i) v j) :=
  (boundEq_setVar hi).trans (boundEq_setVar (hj.trans ((boundEq_setVar hi).bound v).symm))

theorem boundEq_setVar_of {σ0 σ : Store} {v : Nat} {i : VarInfo} (h : BoundEq σ0 σ)
    (hb : i.bound = (getVar σ v).bound) : BoundEq σ0 (setVar σ v i) := h.trans (boundEq_setVar hb)

theorem stepN_bindBaseStore {σ : Store} {v : Nat} {t : Term} (hc : Chains σ)
    (hv : (getVar σ v).bound = none) (ht : Final σ t) (hne : t ≠ .var v) : StepN σ (bindBaseStore σ v t) := by
  have b1 : BoundEq σ (setVar σ v (clearW σ v)) := boundEq_setVar rfl
  refine ⟨?_, kindEq_constrs rfl⟩
  unfold bindBaseStore
  exact chains_bindSet (b1.chains hc) ((b1.bound v).trans hv) rfl (b1.final ht) hne

theorem boundEq_bindVarStore (σ : Store) (v tv : Nat) :
    BoundEq (bindBaseStore σ v (.var tv)) (bindVarStore σ v tv) := by
  unfold bindVarStore bindBaseStore
  simp only []
  apply boundEq_setVar_of
  · apply boundEq_setVar_of
    · exact boundEq_setCset _ _ _
    · rfl
  · rfl

theorem stepN_bindVarStore {σ : Store} {v tv : Nat} (hc : Chains σ)
    (hv : (getVar σ v).bound = none) (ht : Final σ (.var tv)) (hne : tv ≠ v) :
    StepN σ (bindVarStore σ v tv) := by
  have s1 := stepN_bindBaseStore hc hv ht (fun e => hne (by injection e))
  exact ⟨(boundEq_bindVarStore σ v tv).chains s1.ch, kindEq_constrs rfl⟩

theorem boundEq_bindAppStore (σ : Store) (v : Nat) (t : Term) :
    BoundEq (bindBaseStore σ v t) (bindAppStore σ v t) := by
  unfold bindAppStore
  simp only []
  exact (boundEq_setCset _ _ _).trans (boundEq_foldl_cset _ _ _)

theorem stepN_bindAppStore {σ : Store} {v o : Nat} {args : List Term} (hc : Chains σ)
    (hv : (getVar σ v).bound = none) : StepN σ (bindAppStore σ v (.app o args)) := by
  have s1 := stepN_bindBaseStore (t := .app o args) hc hv trivial (fun e => Term.noConfusion e)
  exact ⟨(boundEq_bindAppStore σ v _).chains s1.ch, kindEq_constrs (constrs_bindAppStore σ v _)⟩

/-- the comparison of a new bound with the existing ones in `above` / `below` -/
theorem bounds_chain {σ0 σa : Store} {c1 c2 c3 c4 : Prop} [Decidable c1] [Decidable c2] [Decidable c3]
    [Decidable c4] {X : R} (ha : StepN σ0 σa) (hX : GoodR σ0 X) :
    GoodR σ0 (if c1 then .error .subtypeMismatch else if c2 then .error .subtypeMismatch
      else if c3 then .ok σa else if c4 then X else .error .subtypeMismatch) := by
  split
  · exact goodR_err rfl
  · split
    · exact goodR_err rfl
    · split
      · exact ha
      · split
        · exact hX
        · exact goodR_err rfl

/-- the `normalized` test of `fulfill` -/
def normB (σ : Store) : Term → Bool
  | .var v => (getVar σ v).bound.isNone
  | _ => true

theorem normB_of_final {σ : Store} {t : Term} (h : Final σ t) : normB σ t = true := by
  cases t with
  | app o args => rfl
  | var v =>
    have h' : (getVar σ v).bound = none := h
    show (getVar σ v).bound.isNone = true
    rw [h']; rfl

/-! ## 3. `unify`, `unifyList` -/

theorem unify_stepN {L : Lang} {n : Nat} (hunify : UnifyN L n) (hlist : UnifyListN L n) (hbind : BindN L n)
    (habove : AboveN L n) (hbelow : BelowN L n) : UnifyN L (n+1) := by
  intro σ a b st sb sw hc
  have fa := hc.finalT a
  have fb := hc.finalT b
  unfold unify
  split
  · next av bv e1 e2 =>
    rw [e1] at fa; rw [e2] at fb
    split
    · exact hbind σ av _ hc fa fb
    · exact GoodR.refl hc
  · split
    · exact GoodR.refl hc
    · split
      · split
        · exact GoodR.refl hc
        · split
          · exact goodR_err rfl
          · split
            · exact goodR_err rfl
            · exact GoodR.refl hc
      · split
        · exact hlist _ _ _ _ _ _ _ hc
        · exact goodR_err rfl
  · next av bo bs e1 e2 =>
    rw [e1] at fa
    split
    · exact GoodR.refl hc
    · split
      · exact goodR_err rfl
      · split
        · split
          · exact GoodR.refl hc
          · split
            · exact hbelow σ av bo hc fa
            · exact hbind σ av _ hc fa trivial
        · split
          · split
            next σ1 fresh hnv =>
            have s1 : StepN σ σ1 := by
              have := stepN_newVars hc bs.length; rw [hnv] at this; exact this
            have fa1 : (getVar σ1 av).bound = none := by
              have := (boundEq_newVars bs.length σ).bound av; rw [hnv] at this; exact this.trans fa
            refine GoodR.trans s1 (goodR_seq (hbind σ1 av _ s1.ch fa1 trivial) ?_)
            intro σ2 _ s2
            exact hunify _ _ _ _ _ _ s2.ch
          · exact hbind σ av _ hc fa trivial
  · next ao as bv e1 e2 =>
    rw [e2] at fb
    split
    · exact GoodR.refl hc
    · split
      · exact goodR_err rfl
      · split
        · split
          · exact GoodR.refl hc
          · split
            · exact habove σ bv ao hc fb
            · exact hbind σ bv _ hc fb trivial
        · split
          · split
            next σ1 fresh hnv =>
            have s1 : StepN σ σ1 := by
              have := stepN_newVars hc as.length; rw [hnv] at this; exact this
            have fb1 : (getVar σ1 bv).bound = none := by
              have := (boundEq_newVars as.length σ).bound bv; rw [hnv] at this; exact this.trans fb
            refine GoodR.trans s1 (goodR_seq (hbind σ1 bv _ s1.ch fb1 trivial) ?_)
            intro σ2 _ s2
            exact hunify _ _ _ _ _ _ s2.ch
          · exact hbind σ bv _ hc fb trivial

theorem unifyList_stepN {L : Lang} {n : Nat} (hunify : UnifyN L n) (hlist : UnifyListN L n) :
    UnifyListN L (n+1) := by
  intro σ vs xs ys st sb sw hc
  unfold unifyList
  split
  · exact goodR_err rfl
  · next heq =>
    cases heq
    refine goodR_seq ?_ ?_
    · split
      · exact hunify _ _ _ _ _ _ hc
      · exact hunify _ _ _ _ _ _ hc
    · intro σ1 _ s1
      exact hlist _ _ _ _ _ _ _ s1.ch
  · exact GoodR.refl hc

/-! ## 4. `bind`, `above`, `below` -/

theorem bind_stepN {L : Lang} {n : Nat} (hunify : UnifyN L n) (hcheck : CheckN L n) : BindN L (n+1) := by
  intro σ v t hc hv ht
  have hns : ¬ ((getVar σ v).bound.isSome = true) := by rw [hv]; simp
  cases t with
  | var tv =>
    rw [bind_var_eq, if_neg hns]
    split
    · exact goodR_ok.mpr (StepN.of_boundEq hc (boundEq_setVar rfl) rfl)
    · next hne =>
      have hne' : tv ≠ v := by simpa using hne
      have sB : StepN σ (bindVarStore σ v tv) := stepN_bindVarStore hc hv ht hne'
      refine GoodR.trans sB (goodR_seq ?_ ?_)
      · split
        · exact hunify _ _ _ _ _ _ sB.ch
        · exact GoodR.refl sB.ch
      · intro σ1 _ s1
        refine goodR_seq ?_ ?_
        · split
          · exact hunify _ _ _ _ _ _ s1.ch
          · exact GoodR.refl s1.ch
        · intro σ2 _ s2
          exact hcheck σ2 v s2.ch
  | app o args =>
    rw [bind_app_eq, if_neg hns]
    split
    · split
      · exact goodR_err rfl
      · split
        · exact goodR_err rfl
        · have sB : StepN σ (bindBaseStore σ v (.app o args)) :=
            stepN_bindBaseStore hc hv trivial (fun e => Term.noConfusion e)
          exact GoodR.trans sB (hcheck _ v sB.ch)
    · split
      · exact goodR_err rfl
      · have sB : StepN σ (bindAppStore σ v (.app o args)) := stepN_bindAppStore hc hv
        exact GoodR.trans sB (hcheck _ v sB.ch)

theorem above_stepN {L : Lang} {n : Nat} (hbind : BindN L n) (hcheck : CheckN L n) : AboveN L (n+1) := by
  intro σ v new hc hv
  unfold above
  split
  · exact hbind σ v _ hc hv trivial
  · simp only []
    split
    · next hb => rw [hv] at hb; cases hb
    · have sa : StepN σ (setVar σ v { (getVar σ v) with wildcard := false }) :=
        StepN.of_boundEq hc (boundEq_setVar rfl) rfl
      have sm : StepN σ (setVar (setVar σ v { (getVar σ v) with wildcard := false }) v
          { bound := (getVar σ v).bound, lower := some new, upper := (getVar σ v).upper, wildcard := false,
            cset := (getVar σ v).cset }) :=
        StepN.of_boundEq hc (boundEq_setVar2 rfl rfl) rfl
      refine goodR_seq (bounds_chain sa (GoodR.trans sm (hcheck _ v sm.ch))) ?_
      intro σr _ sr
      split
      · next hcnd =>
        simp only [Bool.and_eq_true, Option.isNone_iff_eq_none] at hcnd
        split
        · exact hbind σr v _ sr.ch hcnd.1.1 trivial
        · exact GoodR.refl sr.ch
      · exact GoodR.refl sr.ch

theorem below_stepN {L : Lang} {n : Nat} (hbind : BindN L n) (hcheck : CheckN L n) : BelowN L (n+1) := by
  intro σ v new hc hv
  unfold below
  split
  · exact hbind σ v _ hc hv trivial
  · simp only []
    split
    · next hb => rw [hv] at hb; cases hb
    · have sa : StepN σ (setVar σ v { (getVar σ v) with wildcard := false }) :=
        StepN.of_boundEq hc (boundEq_setVar rfl) rfl
      have sm : StepN σ (setVar (setVar σ v { (getVar σ v) with wildcard := false }) v
          { bound := (getVar σ v).bound, lower := (getVar σ v).lower, upper := some new, wildcard := false,
            cset := (getVar σ v).cset }) :=
        StepN.of_boundEq hc (boundEq_setVar2 rfl rfl) rfl
      refine goodR_seq (bounds_chain sa (GoodR.trans sm (hcheck _ v sm.ch))) ?_
      intro σr _ sr
      split
      · next hcnd =>
        simp only [Bool.and_eq_true, Option.isNone_iff_eq_none] at hcnd
        split
        · exact hbind σr v _ sr.ch hcnd.1.1 trivial
        · exact GoodR.refl sr.ch
      · exact GoodR.refl sr.ch

/-! ## 5. `fix`, `fixList` -/

theorem fix_stepN {L : Lang} {n : Nat} (hbind : BindN L n) (hlist : FixListN L n) : FixN L (n+1) := by
  intro σ t pl hc
  have ft := hc.finalT t
  unfold fix
  split
  · refine goodRP_seq (hlist σ _ _ pl hc) ?_
    intro σ1 _ s1
    exact goodP_ok.mpr (StepN.refl s1.ch)
  · next v e1 =>
    rw [e1] at ft
    simp only []
    refine goodRP_seq ?_ ?_
    · split
      · split
        · exact hbind σ v _ hc ft trivial
        · exact GoodR.refl hc
      · split
        · split
          · exact hbind σ v _ hc ft trivial
          · exact GoodR.refl hc
        · exact GoodR.refl hc
    · intro σ1 _ s1
      exact goodP_ok.mpr (StepN.refl s1.ch)

theorem fixList_stepN {L : Lang} {n : Nat} (hfix : FixN L n) (hlist : FixListN L n) : FixListN L (n+1) := by
  intro σ vs ps pl hc
  unfold fixList
  split
  · exact goodR_err rfl
  · next heq =>
    cases heq
    split
    · next e he => exact goodR_err ((hfix _ _ _ hc).err_of he)
    · next σ1 x he =>
      have s1 := (hfix _ _ _ hc).step he
      exact GoodR.trans s1 (hlist _ _ _ _ s1.ch)
  · exact GoodR.refl hc

/-! ## 6. the constraint machinery -/

theorem check_stepN {L : Lang} {n : Nat} (hlist : CheckListN L n) : CheckN L (n+1) := by
  intro σ v hc
  unfold checkConstraints
  exact hlist σ v _ hc

theorem checkList_stepN {L : Lang} {n : Nat} (hful : FulfillN L n) (hlist : CheckListN L n) :
    CheckListN L (n+1) := by
  intro σ v cs hc
  cases cs with
  | nil => unfold checkList; exact GoodR.refl hc
  | cons c cs =>
    unfold checkList
    split
    · next e he => exact goodR_err ((hful σ c hc).err_of he)
    · next σ1 done he =>
      have s1 := (hful σ c hc).step he
      refine GoodR.trans s1 ?_
      simp only []
      split
      · have s2 : StepN σ1 (setCset σ1 (getVar σ1 v).cset ((getCset σ1 (getVar σ1 v).cset).filter (· != c))) :=
          StepN.of_boundEq s1.ch (boundEq_setCset _ _ _) rfl
        exact GoodR.trans s2 (hlist _ v cs s2.ch)
      · exact hlist σ1 v cs s1.ch

theorem isElim_cases {σ : Store} {c : Nat} (hk : isElim (getConstr σ c) = true)
    (hne : ∀ r a f, getConstr σ c = .elim r a f → False) : False := by
  cases hg : getConstr σ c with
  | sub r t s f => rw [hg] at hk; cases hk
  | elim r a f => exact hne r a f hg

theorem minimize_stepN {L : Lang} {n : Nat} (hloop : MinLoopN L n) : MinimizeN L (n+1) := by
  intro σ c hc
  unfold minimize
  split
  · next ref alts f0 e0 =>
    have hl := hloop σ alts [] hc
    split
    · next e he =>
      rw [he] at hl
      exact ⟨hl, fun σ' h => by cases h⟩
    · next σ1 minimized he =>
      rw [he] at hl
      have s1 : StepN σ σ1 := hl
      have hk : isElim (getConstr σ1 c) = true := by rw [s1.kind c, e0]; rfl
      split
      · next r1 a1 ful e1 =>
        have hc1 : c < σ1.constrs.length := getConstr_inrange_of_elim hk
        have b2 := boundEq_setConstr σ1 c (.elim (followT σ1 ref) (minimized.map (followT σ1)) ful)
        have s2 : StepN σ1 (setConstr σ1 c (.elim (followT σ1 ref) (minimized.map (followT σ1)) ful)) :=
          ⟨b2.chains s1.ch, kindEq_setConstr (by rw [e1]; rfl)⟩
        refine ⟨goodR_ok.mpr (s1.trans s2), ?_⟩
        intro σ' h _
        injection h with h
        subst h
        refine ⟨_, _, _, getConstr_setConstr_eq _ hc1, ?_, ?_⟩
        · exact b2.final (s1.ch.finalT ref)
        · intro t ht
          obtain ⟨x, _, e⟩ := List.mem_map.mp ht
          subst e
          exact b2.final (s1.ch.finalT x)
      · next hne => exact (isElim_cases hk (fun r a f h => hne r a f h)).elim
  · next hne =>
    refine ⟨GoodR.refl hc, fun σ' _ hk => ?_⟩
    exact (isElim_cases hk (fun r a f h => hne r a f h)).elim

theorem minLoop_stepN {L : Lang} {n : Nat} (hfix : FixN L n) (hloop : MinLoopN L n) : MinLoopN L (n+1) := by
  intro σ alts mins hc
  cases alts with
  | nil => unfold minLoop; exact goodP_ok.mpr (StepN.refl hc)
  | cons obj rest =>
    unfold minLoop
    simp only []
    split
    · split
      · next e he => exact goodP_err ((hfix _ _ _ hc).err_of he)
      · next σ1 t he =>
        have s1 := (hfix _ _ _ hc).step he
        exact GoodP.trans s1 (hloop _ _ _ s1.ch)
    · exact hloop _ _ _ hc

theorem fulfill_stepN {L : Lang} {n : Nat} (hunify : UnifyN L n) (hmin : MinimizeN L n) : FulfillN L (n+1) := by
  intro σ c hc
  unfold fulfill
  split
  · refine goodRP_seq (hunify σ _ _ true true false hc) ?_
    intro σ1 _ s1
    split
    · split
      · next r t s f e1 =>
        exact goodP_ok.mpr ⟨(boundEq_setConstr _ _ _).chains s1.ch, kindEq_setConstr (by rw [e1]; rfl)⟩
      · exact goodP_ok.mpr (StepN.refl s1.ch)
    · exact goodP_err rfl
    · split
      · exact goodP_ok.mpr (StepN.refl s1.ch)
      · exact goodP_ok.mpr (StepN.refl s1.ch)
  · exact goodP_ok.mpr (StepN.refl hc)
  · next r0 a0 e0 =>
    obtain ⟨gm, pm⟩ := hmin σ c hc
    refine goodRP_seq gm ?_
    intro σ1 he s1
    obtain ⟨ref0, alts0, ful0, e1, fr0, fal0⟩ := pm σ1 he (by rw [e0]; rfl)
    split
    · next ref alts ful e1' =>
      have e2 := e1.symm.trans e1'
      injection e2 with h1 h2 h3
      have fr : Final σ1 ref := h1 ▸ fr0
      have fal : ∀ t, t ∈ alts → Final σ1 t := h2 ▸ fal0
      extract_lets normalized alts' σ2
      split
      · next hpos =>
        exfalso
        have hn : (normB σ1 ref && alts.all (normB σ1)) = true := by
          rw [normB_of_final fr, Bool.true_and, List.all_eq_true]
          intro t ht
          exact normB_of_final (fal t ht)
        have hpos' : (!(normB σ1 ref && alts.all (normB σ1))) = true := hpos
        rw [hn] at hpos'
        cases hpos'
      · have s2 : StepN σ1 σ2 :=
          ⟨(boundEq_setConstr _ _ _).chains s1.ch, kindEq_setConstr (by rw [e1']; rfl)⟩
        have s2' : StepN σ1 (setConstr σ1 c (Constr.elim ref alts' ful)) :=
          ⟨(boundEq_setConstr _ _ _).chains s1.ch, kindEq_setConstr (by rw [e1']; rfl)⟩
        clear_value σ2 alts'
        split
        · exact goodP_err rfl
        · refine GoodP.trans s2 (goodRP_seq (hunify _ _ _ _ _ _ s2.ch) ?_)
          intro σ3 _ s3
          exact goodP_ok.mpr (StepN.refl s3.ch)
        · exact goodP_ok.mpr s2'
    · next hne => exact absurd e1 (hne _ _ _)

/-! ## 7. the induction on the fuel -/

theorem all_noInternal (L : Lang) : ∀ n,
    UnifyN L n ∧ UnifyListN L n ∧ BindN L n ∧ AboveN L n ∧ BelowN L n ∧ FixN L n ∧ FixListN L n ∧
    CheckN L n ∧ CheckListN L n ∧ FulfillN L n ∧ MinimizeN L n ∧ MinLoopN L n
  | 0 => by
    refine ⟨?_, ?_, ?_, ?_, ?_, ?_, ?_, ?_, ?_, ?_, ?_, ?_⟩
    · intro σ a b st sb sw _; unfold unify; exact goodR_err rfl
    · intro σ vs xs ys st sb sw _; unfold unifyList; exact goodR_err rfl
    · intro σ v t _ _ _; unfold bind; exact goodR_err rfl
    · intro σ v new _ _; unfold above; exact goodR_err rfl
    · intro σ v new _ _; unfold below; exact goodR_err rfl
    · intro σ t pl _; unfold fix; exact goodP_err rfl
    · intro σ vs ps pl _; unfold fixList; exact goodR_err rfl
    · intro σ v _; unfold checkConstraints; exact goodR_err rfl
    · intro σ v cs _; unfold checkList; exact goodR_err rfl
    · intro σ c _; unfold fulfill; exact goodP_err rfl
    · intro σ c _; unfold minimize; exact ⟨goodR_err rfl, fun σ' h => by cases h⟩
    · intro σ alts mins _; unfold minLoop; exact goodP_err rfl
  | n+1 => by
    obtain ⟨h1, h2, h3, h4, h5, h6, h7, h8, h9, h10, h11, h12⟩ := all_noInternal L n
    exact ⟨unify_stepN h1 h2 h3 h4 h5, unifyList_stepN h1 h2, bind_stepN h1 h8,
      above_stepN h3 h8, below_stepN h3 h8, fix_stepN h3 h7, fixList_stepN h6 h7,
      check_stepN h9, checkList_stepN h10 h9, fulfill_stepN h1 h11, minimize_stepN h12,
      minLoop_stepN h6 h12⟩

end Tfv.C17E
