"""C01 - subtyping of concrete types is exactly the declared partial order."""
from __future__ import annotations
import langgen as G
from refsub import ref_sub

RULE = ("languages: random forests of 1-8 base types (depth<=4) + 0-3 compound operators of arity 1-3 with random "
        "variance + builtins; pairs (s,t): t obtained from s by walking the hierarchy up/down per variance "
        "(10% deliberately wrong direction) or independent; non-trivial = s,t not syntactically equal and "
        "neither is Top/Bottom at the root; distinct by (language, s, t, strict)")
ASSUMPTIONS = ["types are well-formed (arity respected) - TypeOperation.__init__ enforces it",
               "languages satisfy WF (parents nullary, created before children, not Top/Bottom)"]
TRUSTED = ["harness/refsub.py: independent recursive definition of the declared order (oracle)"]


def obs(f):
    try:
        r = f()
    except Exception as e:  # noqa
        return "E:" + type(e).__name__
    return "T" if r is True else "F" if r is False else "U" if r is None else f"?{r!r}"


def run(ctx):
    rng = ctx.rng
    nlang = 12 if ctx.tier == "quick" else 150
    npairs = 350 if ctx.tier == "quick" else 1400
    maxdepth = 4 if ctx.tier == "quick" else 6
    for li in range(nlang):
        spec = G.gen_lang(rng)
        ops = spec.build()
        ctx.setup(spec.sexp(), "ok T")
        # operator-level relation, all pairs
        n = len(spec.decls)
        for a in range(n):
            for b in range(n):
                for strict in (False, True):
                    o = obs(lambda: ops[a].subtype(ops[b], strict))
                    ctx.case(f"(opsub {a} {b} {'T' if strict else 'F'})", o,
                        {"lang": spec.to_json(), "op": "opsub", "a": spec.name(a), "b": spec.name(b), "strict": strict},
                        nontrivial=(a != b and a >= 5 and b >= 5), key=(li, "op", a, b, strict))
        triples = []
        for k in range(npairs):
            d = rng.randint(0, maxdepth)
            s = G.gen_ty(rng, spec, d)
            r = rng.random()
            if r < 0.45:
                t = G.perturb(rng, spec, s, up=True)
            elif r < 0.7:
                t = G.perturb(rng, spec, s, up=False)
            elif r < 0.8:
                t = s
            else:
                t = G.gen_ty(rng, spec, d)
            if k % 4 == 0:
                # structurally equal sub-terms of s and t as ONE Python object (a type kept in a variable / an alias used on both sides)
                from props.C02 import ty_py_shared
                cache = {}
                ps, pt = ty_py_shared(s, ops, cache), ty_py_shared(t, ops, cache)
                ctx.count("built_with_shared_subobjects")
            else:
                ps, pt = G.ty_py(s, ops), G.ty_py(t, ops)
            for strict in (False, True):
                o = obs(lambda: ps.is_subtype(pt, strict))
                nontriv = s != t and s[0] not in (G.TOP, G.BOT) and t[0] not in (G.TOP, G.BOT)
                ctx.case(f"(issub {G.ty_sexp(s)} {G.ty_sexp(t)} {'T' if strict else 'F'})", o,
                    {"lang": spec.to_json(), "op": "is_subtype", "s": G.ty_str(s, spec), "t": G.ty_str(t, spec), "strict": strict},
                    nontrivial=nontriv, key=(li, s, t, strict))
                # oracle: the declared order, independently computed
                want = ref_sub(spec, s, t) and (not strict or s != t)
                ctx.count(f"verdict_{o}")
                if o != ("T" if want else "F"):
                    ctx.fail(f"is_subtype({G.ty_str(s, spec)}, {G.ty_str(t, spec)}, strict={strict}) = {o}, declared order says {want}",
                        {"check": "declared-order", "got": o},
                        {"lang": spec.to_json(), "s": s, "t": t, "strict": strict})
            ctx.count(f"depth_{max(G.ty_depth(s), G.ty_depth(t))}")
            if k % 3 == 0:
                u = G.perturb(rng, spec, t, up=True)
                triples.append((s, t, u))
        # order axioms on the implementation
        for s, t, u in triples:
            ps, pt, pu = (G.ty_py(x, ops) for x in (s, t, u))
            le = lambda a, b: a.is_subtype(b)  # noqa
            if le(ps, ps) is not True:
                ctx.fail("reflexivity fails", {"check": "refl"}, {"lang": spec.to_json(), "s": s})
            if le(ps, pt) is True and le(pt, pu) is True and le(ps, pu) is not True:
                ctx.fail("transitivity fails", {"check": "trans"}, {"lang": spec.to_json(), "s": s, "t": t, "u": u})
            if le(ps, pt) is True and le(pt, ps) is True and s != t:
                ctx.fail("antisymmetry fails", {"check": "antisymm"}, {"lang": spec.to_json(), "s": s, "t": t})
            if ps.is_subtype(pt, True) is True and (s == t or le(ps, pt) is not True):
                ctx.fail("strict form is not 'subtype and different'", {"check": "strict"}, {"lang": spec.to_json(), "s": s, "t": t})
            ctx.evaluations += 1


def replay(ctx, payload):
    inp = payload["input"]
    spec = G.LangSpec([(n, v, p) for n, v, p in inp["lang"]])
    ops = spec.build()
    tt = lambda x: (x[0], tuple(tt(a) for a in x[1]))  # noqa
    s = tt(inp["s"]); t = tt(inp.get("t", inp["s"]))
    strict = inp.get("strict", False)
    got = G.ty_py(s, ops).is_subtype(G.ty_py(t, ops), strict)
    want = ref_sub(spec, s, t) and (not strict or s != t)
    print(f"is_subtype({G.ty_str(s, spec)}, {G.ty_str(t, spec)}, strict={strict}) = {got}; declared order: {want}")
    return got is want
