"""Validate the checks against a seeded change: seedtest.py <seeded dir> [property ids...]

The change (patch.diff) is applied to a scratch worktree of /repo outside /repo and /verif; the pinned test-suite and the
demonstration are run there, then the quick checks are run with VERIF_REPO pointing at the scratch tree. The worktree is
removed afterwards. Prints one line per check: DETECTED (exit 1 with a VIOLATION line) / missed (exit 0) / error."""
import json, os, subprocess, sys, tempfile, shutil, re

VERIF = os.path.dirname(os.path.dirname(os.path.abspath(__file__)))
BASE_CMD = ["/venv/bin/python", "-m", "pytest", "-q", "-p", "no:cacheprovider", "--timeout=900", "--continue-on-collection-errors"]


def sh(cmd, cwd=None, env=None, timeout=3600):
    p = subprocess.run(cmd, cwd=cwd, env=env, stdout=subprocess.PIPE, stderr=subprocess.STDOUT, text=True, timeout=timeout)
    return p.returncode, p.stdout


def main():
    d = os.path.abspath(sys.argv[1])
    props = sys.argv[2:]
    meta = json.load(open(os.path.join(d, "meta.json"))) if os.path.exists(os.path.join(d, "meta.json")) else {}
    if not props:
        props = meta.get("checks_to_run") or ([meta["breaks_property"]] if meta.get("breaks_property") else [])
    tmp = tempfile.mkdtemp(prefix="seedtest_", dir="/tmp")
    wt = os.path.join(tmp, "wt")
    try:
        rc, out = sh(["git", "-C", "/repo", "worktree", "add", "-f", wt, "HEAD"])
        assert rc == 0, out
        rc, out = sh(["git", "apply", os.path.join(d, "patch.diff")], cwd=wt)
        if rc != 0:
            print("patch does not apply:", out)
            return 2
        env = dict(os.environ)
        env.pop("TRANSFORGE_VERIF", None)
        rc, out = sh(BASE_CMD, cwd=wt, env=env)
        m = re.search(r"(\d+) failed, (\d+) passed", out)
        print("test suite with the change:", out.strip().splitlines()[-1])
        suite_ok = bool(m) and m.group(1) == "2" and m.group(2) == "113"
        demo = os.path.join(d, "demo.py")
        demo_rc = None
        if os.path.exists(demo):
            shutil.copy(demo, os.path.join(wt, "demo.py"))
            demo_rc, dout = sh(["/venv/bin/python", "demo.py"], cwd=wt, env=env)
            print("demo.py with the change: exit", demo_rc)
        results = {}
        for p in props:
            env2 = dict(os.environ)
            env2["VERIF_REPO"] = wt
            rc, out = sh([os.path.join(VERIF, "vcheck"), p, "--tier", "quick"], cwd=VERIF, env=env2)
            viol = [l for l in out.splitlines() if l.startswith("VIOLATION")]
            status = "DETECTED" if rc == 1 and viol else ("missed" if rc == 0 else f"error(rc={rc})")
            nf = any("no-failing-input-found" in l for l in viol)
            results[p] = status + (" (no-failing-input-found)" if nf else "")
            print(f"  {p}: {results[p]}   {out.strip().splitlines()[-1][:200]}")
            if viol:
                rp = viol[0].split("replay=")[1].split()[0]
                try:
                    r = json.load(open(rp))
                    print("     ", (r.get("description") or str(r.get("broken")))[:300])
                except Exception:
                    pass
        print(json.dumps({"seed": os.path.basename(d), "suite_unchanged": suite_ok, "demo_exit": demo_rc, "checks": results}))
    finally:
        sh(["git", "-C", "/repo", "worktree", "remove", "--force", wt])
        shutil.rmtree(tmp, ignore_errors=True)
        # Generated.lean was rewritten from the scratch tree: restore it from /repo
        sh(["/venv/bin/python", os.path.join(VERIF, "harness", "gen_constants.py")], cwd=VERIF)
    return 0


if __name__ == "__main__":
    sys.exit(main())
