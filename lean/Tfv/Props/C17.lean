import Tfv.Model
namespace Tfv.C17
theorem placeholder : True := trivial
end Tfv.C17
