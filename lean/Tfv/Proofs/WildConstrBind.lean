import Tfv.Proofs.WildConstrMatch
import Tfv.Proofs.InferConstrCheck
/-!
# `unify` on two variables inside `fulfill` clears both wildcard flags

`fulfill` calls `unify ref tgt (subtype) (skip_basic) (skip_wildcard = false)`. On a pair of variables this is
`bind av (.var bv)` (`unify_var_var`), and a successful `bind` leaves NEITHER variable a wildcard
(`bind_var_clears_wild`, `unify_var_var_clears_wild`): the two flags are cleared first, and flags are never set
again (`WildMono`). So the both-wildcards rule of `match3` cannot fire on a pair of variables that the preceding
`unify` has visited (`unify_then_match3_pair`).
-/
namespace Tfv.C03C
open Tfv Tfv.C03P Tfv.C16P

theorem wild_bindVarStore_v {σ : Store} {v tv : Nat} (hv : v < σ.vars.length) (hne : tv ≠ v) :
    (getVar (bindVarStore σ v tv) v).wildcard = false := by
  unfold bindVarStore
  simp only []
  rw [getVar_setVar_ne _ hne]
  rw [getVar_setVar_eq _ (by simp [hv])]
  simp only [getVar_setCset]
  rw [getVar_setVar_eq _ (by simp [hv])]
  rfl

theorem wild_bindVarStore_tv {σ : Store} {v tv : Nat} (htv : tv < σ.vars.length) :
    (getVar (bindVarStore σ v tv) tv).wildcard = false := by
  unfold bindVarStore
  simp only []
  rw [getVar_setVar_eq _ (by simp [htv])]

/-- a successful `bind v (.var tv)` leaves neither `v` nor `tv` a wildcard -/
theorem bind_var_clears_wild {L : Lang} (wf : WF L) {n : Nat} {σ σ' : Store} {v tv : Nat}
    (okc : OkStoreC L σ) (hv : v < σ.vars.length) (htv0 : tv < σ.vars.length)
    (h : bind L n σ v (.var tv) = .ok σ') :
    (getVar σ' v).wildcard = false ∧ (getVar σ' tv).wildcard = false := by
  have ok := okc.ok
  have ht : okTerm L σ (.var tv) = true := okTerm_var.mpr htv0
  cases n with
  | zero => unfold bind at h; cases h
  | succ n =>
    obtain ⟨hunify, _, _, _, _, _, _, hcheck, _⟩ := all_soundC wf n
    rw [bind_var_eq] at h
    split at h
    · cases h
    · split at h
      · next e =>
        have e : tv = v := by simpa using e
        injection h with h
        subst h
        subst e
        rw [getVar_setVar_eq _ hv]
        exact ⟨rfl, rfl⟩
      · next e =>
        have hne : tv ≠ v := by simpa using e
        have U := upd_bindVarStore hv tv
        have okB : OkStore L (bindVarStore σ v tv) := U.okStore ok
          (fun t' e => by injection e with e; subst e; exact ht)
          (ok.lower v) (ok.upper v) (ok.ordered v) (fun o args e => by cases e)
        have okcB : OkStoreC L (bindVarStore σ v tv) :=
          okc.transfer okB (Nat.le_of_eq U.len.symm) rfl (csR_bindVarStore okc.crange v tv)
        have htv : tv < (bindVarStore σ v tv).vars.length := by rw [U.len]; exact htv0
        split at h
        · cases h
        · next σ1 h1 =>
          have k1 : StepC L (bindVarStore σ v tv) σ1 := by
            split at h1
            · next l hl =>
              exact (hunify _ (.app l []) (.var tv) false false σ1 okcB
                (okTerm_base (ok.lower v l hl).1 (ok.lower v l hl).2) (okTerm_var.mpr htv) h1).1
            · injection h1 with h1; subst h1
              exact StepC.refl okcB
          split at h
          · cases h
          · next σ2 h2 =>
            have k2 : StepC L σ1 σ2 := by
              split at h2
              · next u hu =>
                exact (hunify _ (.var tv) (.app u []) false false σ2 k1.ok
                  (okTerm_var.mpr (Nat.lt_of_lt_of_le htv k1.len))
                  (okTerm_base (ok.upper v u hu).1 (ok.upper v u hu).2) h2).1
              · injection h2 with h2; subst h2
                exact StepC.refl k1.ok
            have s3 := hcheck σ2 v σ' k2.ok h
            have w : WildMono (bindVarStore σ v tv) σ' := (k1.trans (k2.trans s3)).wild
            constructor
            · cases hw : (getVar σ' v).wildcard with
              | false => rfl
              | true => have := w v hw; rw [wild_bindVarStore_v hv hne] at this; cases this
            · cases hw : (getVar σ' tv).wildcard with
              | false => rfl
              | true => have := w tv hw; rw [wild_bindVarStore_tv htv0] at this; cases this

/-- the `unify` of `fulfill` (`skip_wildcard = false`, any `subtype`-mode `skip_basic`) on two terms that follow to
variables: if it succeeds, neither variable is a wildcard afterwards -/
theorem unify_var_var_clears_wild {L : Lang} (wf : WF L) {n : Nat} {σ σ' : Store} {a b : Term} {av bv : Nat}
    {st sb : Bool} (okc : OkStoreC L σ) (ha : followT σ a = .var av) (hb : followT σ b = .var bv)
    (hav : av < σ.vars.length) (hbv : bv < σ.vars.length)
    (h : unify L n σ a b st sb false = .ok σ') :
    (getVar σ' av).wildcard = false ∧ (getVar σ' bv).wildcard = false := by
  cases n with
  | zero => unfold unify at h; cases h
  | succ n =>
    rw [unify_var_var L n σ a b av bv st sb ha hb] at h
    exact bind_var_clears_wild wf okc hav hbv h

/-- A subtype constraint whose two sides follow to VARIABLES (wildcards or not — the situation of
`match3_wildcards_unsound`): whatever `fulfill` answers, afterwards the constraint holds under every solution, because the
preceding `unify` has bound one variable to the other. No hypothesis on wildcards. -/
theorem fulfill_var_var_sound {L : Lang} (wf : WF L) {n : Nat} {σ σ' : Store} {c : Nat} {d : Bool}
    {ref tgt : Term} {s f : Bool} {av bv : Nat} (okc : OkStoreC L σ)
    (hg : getConstr σ c = .sub ref tgt s f)
    (ha : followT σ ref = .var av) (hb : followT σ tgt = .var bv)
    (hav : av < σ.vars.length) (hbv : bv < σ.vars.length)
    (h : fulfill L n σ c = .ok (σ', d)) :
    ∀ ρ, Sat L ρ σ' → Sub L (den ρ ref) (den ρ tgt) := by
  cases n with
  | zero => unfold fulfill at h; cases h
  | succ n =>
  cases n with
  | zero =>
    rw [fulfill, hg] at h
    simp only [] at h
    unfold unify at h
    cases h
  | succ m =>
    rw [fulfill, hg] at h
    simp only [] at h
    rw [unify_var_var L m σ ref tgt av bv true true ha hb] at h
    split at h
    · cases h
    · next σ1 hu =>
      obtain ⟨s1, heq⟩ := (all_soundC wf m).2.2.1 σ av (.var bv) σ1 okc hav (okTerm_var.mpr hbv)
        (fun o args e => by cases e) hu
      have key : ∀ ρ, Sat L ρ σ1 → Sub L (den ρ ref) (den ρ tgt) := by
        intro ρ hρ1
        have hρ0 := s1.sat ρ hρ1
        rw [← den_followT hρ0 ref, ← den_followT hρ0 tgt, ha, hb, den_var, den_var]
        have := heq ρ hρ1
        rw [den_var] at this
        rw [this]
        exact sub_refl _ (hρ1.wf bv)
      have back : ∀ (x : Constr) ρ, Sat L ρ (setConstr σ1 c x) → Sat L ρ σ1 := fun x ρ hρ =>
        have sc : SameCore σ1 (setConstr σ1 c x) := ⟨rfl, fun _ => rfl, fun _ => rfl, fun _ => rfl⟩
        sc.sat hρ
      intro ρ hρ
      split at h
      · split at h
        · injection h with h; injection h with h1 _; subst h1
          exact key ρ (back _ ρ hρ)
        · injection h with h; injection h with h1 _; subst h1
          exact key ρ hρ
      · cases h
      · split at h
        · injection h with h; injection h with h1 _; subst h1
          exact key ρ hρ
        · injection h with h; injection h with h1 _; subst h1
          exact key ρ hρ

end Tfv.C03C
