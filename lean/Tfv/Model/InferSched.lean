import Tfv.Model.Infer
/-!
# M2s — the inference engine with the re-check order as a parameter (C18)

GENERATED from `Tfv/Model/Infer.lean` by harness/gen_sched.py: the same mutual block, where
`check_constraints` iterates `ord (pending constraints)` instead of the pending constraints in creation
order. `ord = id` is the model of `Infer.lean` (theorem `Tfv.C18.sched_id`); the harness imposes the same
`ord` on the implementation through the TRANSFORGE_VERIF hook.
-/
namespace Tfv


mutual
/-- `unify(self=a, other=b, subtype=st, skip_basic=sb, skip_wildcard=sw)` (type.py:556-630) -/
def unifyS (L : Lang) (ord : List Nat → List Nat) : Nat → Store → Term → Term → Bool → Bool → Bool → R
  | 0, _, _, _, _, _, _ => .error .outOfFuel
  | n+1, σ, a, b, st, sb, sw =>
    match followT σ a, followT σ b with
    | .var av, .var bv =>
      if !sw || !((getVar σ av).wildcard && (getVar σ bv).wildcard) then bindS L ord n σ av (.var bv)
      else .ok σ
    | .app ao as, .app bo bs =>
      if ao == BOT || bo == TOP then .ok σ
      else if arityOf L ao == 0 then
        if sb then .ok σ
        else if st && !opSub L ao bo then .error .subtypeMismatch
        else if !st && ao != bo then .error .typeMismatch
        else .ok σ
      else if ao == bo then unifyListS L ord n σ (varianceOf L ao) as bs st sb sw
      else .error .typeMismatch
    | .var av, .app bo bs =>
      if bo == TOP then .ok σ
      else if occurs L σ (termFuel σ) (.app bo bs) (.var av) then .error .recursiveType
      else if arityOf L bo == 0 then
        if sb || (sw && (getVar σ av).wildcard) then .ok σ
        else if st then belowS L ord n σ av bo
        else bindS L ord n σ av (.app bo bs)
      else
        if sw || sb then
          let (σ1, fresh) := newVars σ bs.length
          match bindS L ord n σ1 av (.app bo fresh) with
          | .error e => .error e
          | .ok σ2 => unifyS L ord n σ2 (.var av) (.app bo bs) st sb sw
        else bindS L ord n σ av (.app bo bs)
    | .app ao as, .var bv =>
      if ao == BOT then .ok σ
      else if occurs L σ (termFuel σ) (.app ao as) (.var bv) then .error .recursiveType
      else if arityOf L ao == 0 then
        if sb || (sw && (getVar σ bv).wildcard) then .ok σ
        else if st then aboveS L ord n σ bv ao
        else bindS L ord n σ bv (.app ao as)
      else
        if sw || sb then
          let (σ1, fresh) := newVars σ as.length
          match bindS L ord n σ1 bv (.app ao fresh) with
          | .error e => .error e
          -- `b.unify(b, …)` in the source (type.py:627): unifies the new skeleton with itself
          | .ok σ2 => unifyS L ord n σ2 (.var bv) (.var bv) st sb sw
        else bindS L ord n σ bv (.app ao as)

def unifyListS (L : Lang) (ord : List Nat → List Nat) : Nat → Store → List Bool → List Term → List Term → Bool → Bool → Bool → R
  | 0, _, _, _, _, _, _, _ => .error .outOfFuel
  | n+1, σ, v :: vs, x :: xs, y :: ys, st, sb, sw =>
    match (if v then unifyS L ord n σ x y st sb sw else unifyS L ord n σ y x st sb sw) with
    | .error e => .error e
    | .ok σ1 => unifyListS L ord n σ1 vs xs ys st sb sw
  | _+1, σ, _, _, _, _, _, _ => .ok σ

/-- `TypeVariable.bind(self=v, t)` (type.py:797-830) -/
def bindS (L : Lang) (ord : List Nat → List Nat) : Nat → Store → Nat → Term → R
  | 0, _, _, _ => .error .outOfFuel
  | n+1, σ, v, t =>
    let i := getVar σ v
    if i.bound.isSome then .error (.internal "bind:variable cannot be unified twice")
    else
      let i := { i with wildcard := false }
      let σ := setVar σ v i
      match t with
      | .var tv =>
        if tv == v then .ok σ
        else
          let σ := setVar σ v { i with bound := some t }
          let ti := getVar σ tv
          let σ := setCset σ ti.cset (unionSorted (getCset σ ti.cset) (getCset σ i.cset))
          let σ := setVar σ v { (getVar σ v) with cset := ti.cset }
          let σ := setVar σ tv { (getVar σ tv) with wildcard := false }
          -- fix: the bounds are handed over through `unify`, which follows `t` (a constraint re-check
          -- triggered by the first bound may already have resolved it)
          match (match i.lower with | some l => unifyS L ord n σ (.app l []) (.var tv) true false false | none => .ok σ) with
          | .error e => .error e
          | .ok σ =>
            match (match i.upper with | some u => unifyS L ord n σ (.var tv) (.app u []) true false false | none => .ok σ) with
            | .error e => .error e
            | .ok σ => checkConstraintsS L ord n σ v
      | .app o args =>
        let σ := setVar σ v { i with bound := some t }
        if arityOf L o == 0 then
          if i.lower.any (fun l => opSub L o l true) then .error .subtypeMismatch
          else if i.upper.any (fun u => opSub L u o true) then .error .subtypeMismatch
          else checkConstraintsS L ord n σ v
        else
          if i.lower.isSome || i.upper.isSome then .error .subtypeMismatch
          else
            let vars := directVars σ (termFuel σ) (.app o args) []
            let merged := vars.foldl (fun acc w => unionSorted acc (getCset σ (getVar σ w).cset)) (getCset σ i.cset)
            let σ := setCset σ i.cset merged
            let σ := vars.foldl (fun σ w => setVar σ w { (getVar σ w) with cset := i.cset }) σ
            checkConstraintsS L ord n σ v

/-- `above(self=v, new)` (type.py:832-861) -/
def aboveS (L : Lang) (ord : List Nat → List Nat) : Nat → Store → Nat → Nat → R
  | 0, _, _, _ => .error .outOfFuel
  | n+1, σ, v, new =>
    if new == TOP then bindS L ord n σ v (.app TOP [])
    else
      let i := { (getVar σ v) with wildcard := false }
      let σ := setVar σ v i
      if i.bound.isSome then .error (.internal "above:assert not self.bound")
      else
        let r : R :=
          if i.upper.any (fun u => opSub L u new true) then .error .subtypeMismatch
          else if i.upper.any (fun u => !opSub L new u) then .error .subtypeMismatch
          else if i.lower.any (fun l => opSub L new l true) then .ok σ
          else if i.lower.all (fun l => opSub L l new) then
            checkConstraintsS L ord n (setVar σ v { i with lower := some new }) v
          else .error .subtypeMismatch
        match r with
        | .error e => .error e
        | .ok σ =>
          let i := getVar σ v
          if i.bound.isNone && i.lower.isSome && i.lower == i.upper then
            match i.lower with
            | some l => bindS L ord n σ v (.app l [])
            | none => .ok σ
          else .ok σ

/-- `below(self=v, new)` (type.py:863-887) -/
def belowS (L : Lang) (ord : List Nat → List Nat) : Nat → Store → Nat → Nat → R
  | 0, _, _, _ => .error .outOfFuel
  | n+1, σ, v, new =>
    if new == BOT then bindS L ord n σ v (.app BOT [])
    else
      let i := { (getVar σ v) with wildcard := false }
      let σ := setVar σ v i
      if i.bound.isSome then .error (.internal "below:assert not self.bound")
      else
        let r : R :=
          if i.lower.any (fun l => opSub L new l true) then .error .subtypeMismatch
          else if i.lower.any (fun l => !opSub L l new) then .error .subtypeMismatch
          else if i.upper.any (fun u => opSub L u new true) then .ok σ
          else if i.upper.all (fun u => opSub L new u) then
            checkConstraintsS L ord n (setVar σ v { i with upper := some new }) v
          else .error .subtypeMismatch
        match r with
        | .error e => .error e
        | .ok σ =>
          let i := getVar σ v
          if i.bound.isNone && i.upper.isSome && i.upper == i.lower then
            match i.upper with
            | some u => bindS L ord n σ v (.app u [])
            | none => .ok σ
          else .ok σ

/-- `check_constraints(self=v)`: snapshot of the set, creation order -/
def checkConstraintsS (L : Lang) (ord : List Nat → List Nat) : Nat → Store → Nat → R
  | 0, _, _ => .error .outOfFuel
  | n+1, σ, v => checkListS L ord n σ v (ord (getCset σ (getVar σ v).cset))

def checkListS (L : Lang) (ord : List Nat → List Nat) : Nat → Store → Nat → List Nat → R
  | 0, _, _, _ => .error .outOfFuel
  | _+1, σ, _, [] => .ok σ
  | n+1, σ, v, c :: cs =>
    match fulfillS L ord n σ c with
    | .error e => .error e
    | .ok (σ1, done) =>
      let σ2 := if done then
          let k := (getVar σ1 v).cset
          setCset σ1 k ((getCset σ1 k).filter (· != c))
        else σ1
      checkListS L ord n σ2 v cs

/-- `Constraint.fulfill()` for both kinds (type.py:997-1004, 1051-1086) -/
def fulfillS (L : Lang) (ord : List Nat → List Nat) : Nat → Store → Nat → Except Err (Store × Bool)
  | 0, _, _ => .error .outOfFuel
  | n+1, σ, c =>
    match getConstr σ c with
    | .sub ref tgt _ _ =>
      match unifyS L ord n σ ref tgt true true false with
      | .error e => .error e
      | .ok σ1 =>
        match match3 L σ1 (matchFuel σ1) true false ref tgt with
        | some true =>
          (match getConstr σ1 c with
           | .sub r t s _ => .ok (setConstr σ1 c (.sub r t s true), true)
           | _ => .ok (σ1, true))
        | some false => .error .constraintViolation
        | none =>
          (match getConstr σ1 c with
           | .sub _ _ _ f => .ok (σ1, f)
           | _ => .ok (σ1, false))
    | .elim _ _ true => .ok (σ, true)
    | .elim _ _ false =>
      match minimizeS L ord n σ c with
      | .error e => .error e
      | .ok σ1 =>
        match getConstr σ1 c with
        | .elim ref alts ful =>
          let normalized (t : Term) : Bool := match t with
            | .var v => (getVar σ1 v).bound.isNone
            | _ => true
          if !(normalized ref && alts.all normalized) then
            .error (.internal "fulfill:assert normalized")
          else
            let alts' := alts.filter (fun t => match3 L σ1 (matchFuel σ1) true true ref t != some false)
            match alts' with
            | [] => .error .constraintViolation
            | [only] =>
              let σ2 := setConstr σ1 c (.elim ref alts' true)
              (match unifyS L ord n σ2 ref only true false false with
               | .error e => .error e
               | .ok σ3 => .ok (σ3, true))
            | _ => .ok (setConstr σ1 c (.elim ref alts' ful), ful)
        | _ => .error (.internal "fulfill:constraint changed kind")

/-- `EliminationConstraint.minimize()` (type.py:1031-1049); the kept alternatives are followed once more at the end: fixing a
later alternative may have bound a variable that is an earlier alternative -/
def minimizeS (L : Lang) (ord : List Nat → List Nat) : Nat → Store → Nat → R
  | 0, _, _ => .error .outOfFuel
  | n+1, σ, c =>
    match getConstr σ c with
    | .elim ref alts _ =>
      match minLoopS L ord n σ alts [] with
      | .error e => .error e
      | .ok (σ1, minimized) =>
        (match getConstr σ1 c with
         | .elim _ _ ful => .ok (setConstr σ1 c (.elim (followT σ1 ref) (minimized.map (followT σ1)) ful))
         | _ => .ok σ1)
    | _ => .ok σ

def minLoopS (L : Lang) (ord : List Nat → List Nat) : Nat → Store → List Term → List Term → Except Err (Store × List Term)
  | 0, _, _, _ => .error .outOfFuel
  | _+1, σ, [], minimized => .ok (σ, minimized)
  | n+1, σ, obj :: rest, minimized =>
    -- for i in range(len(minimized)): …
    let step (acc : List Term × Bool) (m : Term) : List Term × Bool :=
      let m' := if match3 L σ (matchFuel σ) true false m obj == some true then followT σ obj else m
      let add' := if match3 L σ (matchFuel σ) true false obj m' == some true then false else acc.2
      (acc.1 ++ [m'], add')
    let (minimized', add) := minimized.foldl step ([], true)
    if add then
      match fixS L ord n σ (followT σ obj) true with
      | .error e => .error e
      | .ok (σ1, t) => minLoopS L ord n σ1 rest (minimized' ++ [t])
    else minLoopS L ord n σ rest minimized'

/-- `fix(self=t, prefer_lower)` (type.py:394-409) -/
def fixS (L : Lang) (ord : List Nat → List Nat) : Nat → Store → Term → Bool → Except Err (Store × Term)
  | 0, _, _, _ => .error .outOfFuel
  | n+1, σ, t, pl =>
    match followT σ t with
    | .app o args =>
      match fixListS L ord n σ (varianceOf L o) args pl with
      | .error e => .error e
      | .ok σ1 => .ok (σ1, .app o args)
    | .var v =>
      let i := getVar σ v
      let r : R :=
        if pl && i.lower.isSome then
          match i.lower with
          | some l => bindS L ord n σ v (.app l [])
          | none => .ok σ
        else if !pl && i.upper.isSome then
          match i.upper with
          | some u => bindS L ord n σ v (.app u [])
          | none => .ok σ
        else .ok σ
      match r with
      | .error e => .error e
      | .ok σ1 => .ok (σ1, followT σ1 (.var v))

def fixListS (L : Lang) (ord : List Nat → List Nat) : Nat → Store → List Bool → List Term → Bool → R
  | 0, _, _, _, _ => .error .outOfFuel
  | n+1, σ, v :: vs, p :: ps, pl =>
    -- prefer_lower ^ (v == Variance.CONTRA)
    match fixS L ord n σ p (if v then pl else !pl) with
    | .error e => .error e
    | .ok (σ1, _) => fixListS L ord n σ1 vs ps pl
  | _+1, σ, _, _, _ => .ok σ
end

/-! ### Schemas, constraint creation, application -/




/-- `Constraint.__init__`: register, `inform()`, first `fulfill()` -/
def addConstraintS (L : Lang) (ord : List Nat → List Nat) (fuel : Nat) (σ : Store) (c : Constr) : R :=
  let id := σ.constrs.length
  -- `reference.instance()` / `target.instance()` follow their argument
  let c := match c with
    | .sub r t s f => Constr.sub (followT σ r) (followT σ t) s f
    | .elim r alts f => Constr.elim r (alts.map (followT σ)) f
  let σ := { σ with constrs := σ.constrs ++ [c] }
  let vars := varsOfTerms σ (constrTerms c)
  if vars.any (fun v => (getVar σ v).bound.isSome) then .error (.internal "inform:assert not v.bound")
  else
    let σ := vars.foldl (fun σ v =>
      let k := (getVar σ v).cset
      setCset σ k (insertSorted id (getCset σ k))) σ
    match fulfillS L ord fuel σ id with
    | .error e => .error e
    | .ok (σ1, _) => .ok σ1

def addConstraintsS (L : Lang) (ord : List Nat → List Nat) (fuel : Nat) (base : Nat) : Store → List CAst → R
  | σ, [] => .ok σ
  | σ, c :: cs =>
    let c' := match c with
      | .sub r t s => Constr.sub (r.shift base) (t.shift base) s false
      | .elim r alts => Constr.elim (followT σ (r.shift base)) (Term.shiftL base alts) false
    match addConstraintS L ord fuel σ c' with
    | .error e => .error e
    | .ok σ1 => addConstraintsS L ord fuel base σ1 cs

/-- `TypeSchema.instance()`: fresh variables, constraints in source order, `fix(prefer_lower=True)` -/
def instantiateS (L : Lang) (ord : List Nat → List Nat) (fuel : Nat) (σ : Store) (s : Schema) : Except Err (Store × Term) :=
  let base := σ.vars.length
  let σ := allocVars σ s.nvars s.nwild
  match addConstraintsS L ord fuel base σ s.constraints with
  | .error e => .error e
  | .ok σ1 => fixS L ord fuel σ1 (spineFollow σ1 (s.body.shift base)) true

/-- `Type.apply(self=f, arg=x, fix)` (type.py:134-157) -/
def applyTS (L : Lang) (ord : List Nat → List Nat) (fuel : Nat) (σ : Store) (f x : Term) (fixFlag : Bool := true) : Except Err (Store × Term) :=
  let f0 := followT σ f
  let x0 := followT σ x
  let pre : Except Err (Store × Term) :=
    match f0 with
    | .var fv =>
      let (σ1, a) := newVar σ
      let (σ2, b) := newVar σ1
      match bindS L ord fuel σ2 fv (.app FUN [.var a, .var b]) with
      | .error e => .error e
      | .ok σ3 => .ok (σ3, followT σ3 (.var fv))
    | t => .ok (σ, t)
  match pre with
  | .error e => .error e
  | .ok (σ, f1) =>
    match f1 with
    | .app o [l, r] =>
      if o == FUN then
        match unifyS L ord fuel σ x0 l true false false with
        | .error e => .error e
        | .ok σ1 =>
          let isFun := match r with
            | .app o' _ => o' == FUN
            | _ => false
          if fixFlag && !isFun then fixS L ord fuel σ1 r true else .ok (σ1, r)
      else if o == TOP then .ok (σ, .app TOP []) else .error .functionApplication
    | .app o _ => if o == TOP then .ok (σ, .app TOP []) else .error .functionApplication
    | .var _ => .error .functionApplication



/-- iterate the pending constraints by the rank their creation number has in `perm` (unranked ones last, in creation order) -/
def priorityOrd (perm : List Nat) (cs : List Nat) : List Nat :=
  let rank (c : Nat) : Nat := (perm.idxOf? c).getD (perm.length + c)
  cs.mergeSort (fun a b => rank a ≤ rank b)

end Tfv
