import Tfv.Proofs.QueryPath
/-!
# Part A: `solve` is a sound and complete basic-graph-pattern evaluator
-/
namespace Tfv

/-- the value of a variable: the first binding counts -/
def qlookup (env : QEnv) (v : QVar) : Option Node := (env.find? (fun p => p.1 == v)).map (·.2)

theorem termVal_var (wf : Node) (env : QEnv) (v : QVar) : termVal wf env (.var v) = qlookup env v := rfl

theorem qlookup_append (e : QEnv) (v w : QVar) (n : Node) :
    qlookup (e ++ [(v, n)]) w =
      match qlookup e w with
      | some x => some x
      | none => if v = w then some n else none := by
  unfold qlookup
  rw [List.find?_append]
  cases h : e.find? (fun p => p.1 == w) with
  | some x => simp
  | none =>
    by_cases hv : v = w
    · simp [List.find?, hv]
    · have : (v == w) = false := by simpa using hv
      simp [List.find?, hv, this]

/-- `e'` extends `e` as a partial function -/
def EnvLe (e e' : QEnv) : Prop := ∀ v n, qlookup e v = some n → qlookup e' v = some n

theorem EnvLe.refl (e : QEnv) : EnvLe e e := fun _ _ h => h

theorem EnvLe.trans {e1 e2 e3 : QEnv} (h1 : EnvLe e1 e2) (h2 : EnvLe e2 e3) : EnvLe e1 e3 :=
  fun v n h => h2 v n (h1 v n h)

theorem envLe_append (e : QEnv) (v : QVar) (n : Node) : EnvLe e (e ++ [(v, n)]) := by
  intro w x h
  rw [qlookup_append, h]

theorem envLe_append_of {e ρ : QEnv} {v : QVar} {n : Node} (h : EnvLe e ρ) (hn : qlookup ρ v = some n) :
    EnvLe (e ++ [(v, n)]) ρ := by
  intro w x hw
  rw [qlookup_append] at hw
  cases hl : qlookup e w with
  | some y =>
    rw [hl] at hw
    simp only [Option.some.injEq] at hw
    subst hw
    exact h w y hl
  | none =>
    rw [hl] at hw
    by_cases hv : v = w
    · subst hv
      simp only [if_true, Option.some.injEq] at hw
      subst hw
      exact hn
    · simp [hv] at hw

theorem envLe_nil (ρ : QEnv) : EnvLe [] ρ := by
  intro v n h
  simp [qlookup] at h

theorem termVal_mono {wf : Node} {e e' : QEnv} (h : EnvLe e e') {t : QTerm} {a : Node}
    (ht : termVal wf e t = some a) : termVal wf e' t = some a := by
  cases t with
  | var v => exact h v a ht
  | workflow => exact ht
  | node n => exact ht

theorem satTriple_mono {g : List Triple} {wf : Node} {e e' : QEnv} (h : EnvLe e e') {t : QTriple}
    (ht : SatTriple g wf e t) : SatTriple g wf e' t := by
  obtain ⟨a, b, h1, h2, h3⟩ := ht
  exact ⟨a, b, termVal_mono h h1, termVal_mono h h2, h3⟩

theorem satClause_mono {g : List Triple} {wf : Node} {e e' : QEnv} (h : EnvLe e e') {c : QClause}
    (hc : SatClause g wf e c) : SatClause g wf e' c := by
  cases c with
  | one t => exact satTriple_mono h hc
  | union alts =>
    obtain ⟨t, ht, hs⟩ := hc
    exact ⟨t, ht, satTriple_mono h hs⟩

theorem satAll_mono {g : List Triple} {wf : Node} {e e' : QEnv} (h : EnvLe e e') {cs : List QClause}
    (hc : SatAll g wf e cs) : SatAll g wf e' cs :=
  fun c hm => satClause_mono h (hc c hm)

theorem endOk_of_envLe {wf : Node} {e ρ : QEnv} (h : EnvLe e ρ) {t : QTerm} {a : Node}
    (ht : termVal wf ρ t = some a) : endOk (termVal wf e t) a := by
  cases hx : termVal wf e t with
  | none => exact Or.inl rfl
  | some x =>
    have := termVal_mono (wf := wf) h hx
    rw [ht] at this
    simp only [Option.some.injEq] at this
    subst this
    exact Or.inr rfl

/-! ## one triple -/

/-- binding the subject -/
def extS (wf : Node) (env : QEnv) (s : QTerm) (a : Node) : QEnv :=
  match s, termVal wf env s with
  | .var v, none => env ++ [(v, a)]
  | _, _ => env

/-- binding or checking the object -/
def extO (wf : Node) (env1 : QEnv) (o : QTerm) (b : Node) : Option QEnv :=
  match o with
  | .var v =>
    match termVal wf env1 o with
    | some n => if n == b then some env1 else none
    | none => some (env1 ++ [(v, b)])
  | _ => some env1

theorem extendTriple_eq (g : List Triple) (wf : Node) (univ : List Node) (env : QEnv) (t : QTriple) :
    extendTriple g wf univ env t =
      ((pathPairs g univ t.p (termVal wf env t.s) (termVal wf env t.o)).eraseDups).filterMap
        (fun q => extO wf (extS wf env t.s q.1) t.o q.2) := by
  unfold extendTriple extS extO
  rfl

theorem extS_spec {wf : Node} {env : QEnv} {s : QTerm} {a : Node} (h : endOk (termVal wf env s) a) :
    EnvLe env (extS wf env s a) ∧ termVal wf (extS wf env s a) s = some a := by
  unfold extS
  cases s with
  | var v =>
    cases hx : termVal wf env (.var v) with
    | none =>
      refine ⟨envLe_append env v a, ?_⟩
      rw [termVal_var] at hx
      rw [termVal_var, qlookup_append, hx]
      simp
    | some x =>
      rcases h with h | h
      · rw [hx] at h; cases h
      · rw [hx] at h
        exact ⟨EnvLe.refl env, by rw [hx, h]⟩
  | workflow =>
    rcases h with h | h
    · cases h
    · exact ⟨EnvLe.refl env, h⟩
  | node n =>
    rcases h with h | h
    · cases h
    · exact ⟨EnvLe.refl env, h⟩

theorem extS_le {wf : Node} {env ρ : QEnv} {s : QTerm} {a : Node} (h : EnvLe env ρ)
    (hs : termVal wf ρ s = some a) : EnvLe (extS wf env s a) ρ := by
  unfold extS
  cases s with
  | var v =>
    cases hx : termVal wf env (.var v) with
    | none => exact envLe_append_of h hs
    | some x => exact h
  | workflow => exact h
  | node n => exact h

theorem extO_sound {wf : Node} {env1 e' : QEnv} {o : QTerm} {b : Node}
    (hc : ∀ c, termVal wf [] o = some c → c = b)
    (h : extO wf env1 o b = some e') : EnvLe env1 e' ∧ termVal wf e' o = some b := by
  unfold extO at h
  cases o with
  | var v =>
    simp only at h
    cases hx : termVal wf env1 (.var v) with
    | some n =>
      rw [hx] at h
      by_cases hn : n = b
      · subst hn
        simp only [beq_self_eq_true, if_true, Option.some.injEq] at h
        subst h
        exact ⟨EnvLe.refl _, hx⟩
      · simp [hn] at h
    | none =>
      rw [hx] at h
      simp only [Option.some.injEq] at h
      subst h
      refine ⟨envLe_append _ _ _, ?_⟩
      rw [termVal_var] at hx
      rw [termVal_var, qlookup_append, hx]
      simp
  | workflow =>
    simp only [Option.some.injEq] at h
    subst h
    exact ⟨EnvLe.refl _, by rw [← hc wf rfl]; rfl⟩
  | node n =>
    simp only [Option.some.injEq] at h
    subst h
    exact ⟨EnvLe.refl _, by rw [← hc n rfl]; rfl⟩

theorem extO_complete {wf : Node} {env1 ρ : QEnv} {o : QTerm} {b : Node} (h : EnvLe env1 ρ)
    (ho : termVal wf ρ o = some b) : ∃ e', extO wf env1 o b = some e' ∧ EnvLe e' ρ := by
  unfold extO
  cases o with
  | var v =>
    simp only
    cases hx : termVal wf env1 (.var v) with
    | some n =>
      have := h v n hx
      rw [termVal_var] at ho
      rw [ho] at this
      simp only [Option.some.injEq] at this
      subst this
      exact ⟨env1, by simp, h⟩
    | none => exact ⟨_, rfl, envLe_append_of h ho⟩
  | workflow => exact ⟨env1, rfl, h⟩
  | node n => exact ⟨env1, rfl, h⟩

theorem termVal_const {wf : Node} {env : QEnv} {o : QTerm} {c : Node} (h : termVal wf [] o = some c) :
    termVal wf env o = some c := by
  cases o with
  | var v => simp [termVal] at h
  | workflow => exact h
  | node n => exact h

/-- every environment returned by `extendTriple` extends `env` and satisfies the triple -/
theorem extendTriple_sound {g : List Triple} {wf : Node} {univ : List Node} {env e' : QEnv} {t : QTriple}
    (h : e' ∈ extendTriple g wf univ env t) : EnvLe env e' ∧ SatTriple g wf e' t := by
  rw [extendTriple_eq, List.mem_filterMap] at h
  obtain ⟨⟨a, b⟩, hq, he⟩ := h
  rw [List.mem_eraseDups] at hq
  obtain ⟨hp, hs, ho⟩ := pathPairs_sound g univ t.p _ _ a b hq
  obtain ⟨h1, h2⟩ := extS_spec hs
  have hc : ∀ c, termVal wf [] t.o = some c → c = b := by
    intro c hc'
    have := termVal_const (env := env) hc'
    rcases ho with ho | ho
    · rw [this] at ho; cases ho
    · rw [this] at ho
      simp only [Option.some.injEq] at ho
      exact ho
  obtain ⟨h3, h4⟩ := extO_sound hc he
  exact ⟨h1.trans h3, a, b, termVal_mono h3 h2, h4, hp⟩

/-- if `ρ` extends `env` and satisfies the triple then some returned environment is still below `ρ` -/
theorem extendTriple_complete {g : List Triple} {wf : Node} {univ : List Node} {env ρ : QEnv} {t : QTriple}
    (hle : EnvLe env ρ) (hsat : SatTriple g wf ρ t)
    (hu : ∀ n v a, t.p = .opt n → t.s = .var v → termVal wf ρ (.var v) = some a → a ∈ univ) :
    ∃ e' ∈ extendTriple g wf univ env t, EnvLe e' ρ := by
  obtain ⟨a, b, hs, ho, hp⟩ := hsat
  have hmem : (a, b) ∈ pathPairs g univ t.p (termVal wf env t.s) (termVal wf env t.o) := by
    apply pathPairs_complete g univ t.p _ _ a b hp (endOk_of_envLe hle hs) (endOk_of_envLe hle ho)
    intro n hpn hsn _ _
    cases hts : t.s with
    | var v =>
      rw [hts] at hs
      exact hu n v a hpn hts hs
    | workflow => rw [hts] at hsn; cases hsn
    | node m => rw [hts] at hsn; cases hsn
  obtain ⟨e', he, hle'⟩ := extO_complete (extS_le hle hs) ho
  refine ⟨e', ?_, hle'⟩
  rw [extendTriple_eq, List.mem_filterMap]
  exact ⟨(a, b), List.mem_eraseDups.2 hmem, he⟩

/-! ## clause lists -/

/-- one step of `solve` -/
def stepEnvs (g : List Triple) (wf : Node) (univ : List Node) (c : QClause) (envs : List QEnv) : List QEnv :=
  match c with
  | .one t => (envs.flatMap (fun e => extendTriple g wf univ e t)).eraseDups
  | .union alts => (envs.flatMap (fun e => alts.flatMap (fun t => extendTriple g wf univ e t))).eraseDups

theorem solve_cons (g : List Triple) (wf : Node) (univ : List Node) (c : QClause) (cs : List QClause)
    (envs : List QEnv) : solve g wf univ (c :: cs) envs = solve g wf univ cs (stepEnvs g wf univ c envs) := by
  cases c <;> rfl

theorem stepEnvs_sound {g : List Triple} {wf : Node} {univ : List Node} {c : QClause} {envs : List QEnv}
    {e' : QEnv} (h : e' ∈ stepEnvs g wf univ c envs) : ∃ e ∈ envs, EnvLe e e' ∧ SatClause g wf e' c := by
  cases c with
  | one t =>
    simp only [stepEnvs, List.mem_eraseDups, List.mem_flatMap] at h
    obtain ⟨e, he, h1⟩ := h
    obtain ⟨h2, h3⟩ := extendTriple_sound h1
    exact ⟨e, he, h2, h3⟩
  | union alts =>
    simp only [stepEnvs, List.mem_eraseDups, List.mem_flatMap] at h
    obtain ⟨e, he, t, ht, h1⟩ := h
    obtain ⟨h2, h3⟩ := extendTriple_sound h1
    exact ⟨e, he, h2, t, ht, h3⟩

theorem stepEnvs_complete {g : List Triple} {wf : Node} {univ : List Node} {c : QClause} {envs : List QEnv}
    {ρ : QEnv} (h : ∃ e ∈ envs, EnvLe e ρ) (hsat : SatClause g wf ρ c)
    (hu : ∀ t ∈ c.triples, ∀ n v a, t.p = .opt n → t.s = .var v → termVal wf ρ (.var v) = some a → a ∈ univ) :
    ∃ e' ∈ stepEnvs g wf univ c envs, EnvLe e' ρ := by
  obtain ⟨e, he, hle⟩ := h
  cases c with
  | one t =>
    obtain ⟨e', h1, h2⟩ := extendTriple_complete hle hsat (hu t (by simp [QClause.triples]))
    refine ⟨e', ?_, h2⟩
    simp only [stepEnvs, List.mem_eraseDups, List.mem_flatMap]
    exact ⟨e, he, h1⟩
  | union alts =>
    obtain ⟨t, ht, hs⟩ := hsat
    obtain ⟨e', h1, h2⟩ := extendTriple_complete hle hs (hu t ht)
    refine ⟨e', ?_, h2⟩
    simp only [stepEnvs, List.mem_eraseDups, List.mem_flatMap]
    exact ⟨e, he, t, ht, h1⟩

theorem solve_sound (g : List Triple) (wf : Node) (univ : List Node) :
    ∀ (cs : List QClause) (envs : List QEnv) (e' : QEnv), e' ∈ solve g wf univ cs envs →
      ∃ e ∈ envs, EnvLe e e' ∧ SatAll g wf e' cs
  | [], envs, e', h => ⟨e', h, EnvLe.refl _, fun _ hc => by cases hc⟩
  | c :: cs, envs, e', h => by
    rw [solve_cons] at h
    obtain ⟨e1, he1, hle1, hs1⟩ := solve_sound g wf univ cs _ e' h
    obtain ⟨e, he, hle, hsc⟩ := stepEnvs_sound he1
    refine ⟨e, he, hle.trans hle1, ?_⟩
    intro c' hc'
    rcases List.mem_cons.1 hc' with rfl | hc'
    · exact satClause_mono hle1 hsc
    · exact hs1 c' hc'

theorem solve_complete (g : List Triple) (wf : Node) (univ : List Node) (ρ : QEnv) :
    ∀ (cs : List QClause) (envs : List QEnv), (∃ e ∈ envs, EnvLe e ρ) → SatAll g wf ρ cs →
      OptSubjectsIn univ wf ρ cs → ∃ e' ∈ solve g wf univ cs envs, EnvLe e' ρ
  | [], envs, h, _, _ => h
  | c :: cs, envs, h, hs, hu => by
    rw [solve_cons]
    apply solve_complete g wf univ ρ cs
    · exact stepEnvs_complete h (hs c (by simp)) (fun t ht => hu c (by simp) t ht)
    · exact fun c' hc' => hs c' (List.mem_cons_of_mem _ hc')
    · exact fun c' hc' => hu c' (List.mem_cons_of_mem _ hc')

/-- `solve … [[]]` is non-empty iff some assignment whose `p?`-subjects lie in `univ` satisfies every clause;
soundness also needs that solutions bind `p?`-subjects inside `univ` — shown separately below -/
theorem solve_nonempty_of_sat {g : List Triple} {wf : Node} {univ : List Node} {cs : List QClause}
    (h : SatisfiableIn univ g wf cs) : (solve g wf univ cs [[]]).isEmpty = false := by
  obtain ⟨ρ, hs, hu⟩ := h
  obtain ⟨e', he', _⟩ := solve_complete g wf univ ρ cs [[]] ⟨[], by simp, envLe_nil ρ⟩ hs hu
  cases hx : solve g wf univ cs [[]] with
  | nil => rw [hx] at he'; cases he'
  | cons _ _ => rfl

theorem sat_of_solve_nonempty {g : List Triple} {wf : Node} {univ : List Node} {cs : List QClause}
    (h : (solve g wf univ cs [[]]).isEmpty = false) : Satisfiable g wf cs := by
  cases hx : solve g wf univ cs [[]] with
  | nil => rw [hx] at h; cases h
  | cons e' _ =>
    obtain ⟨_, _, _, hs⟩ := solve_sound g wf univ cs [[]] e' (by rw [hx]; simp)
    exact ⟨e', hs⟩

theorem solve_sound_nil {g : List Triple} {wf : Node} {univ : List Node} {cs : List QClause} {e : QEnv}
    (h : e ∈ solve g wf univ cs [[]]) : SatAll g wf e cs := by
  obtain ⟨_, _, _, hs⟩ := solve_sound g wf univ cs [[]] e h
  exact hs

/-! ## `evalQuery` -/

theorem evalQuery_eq (q : Query) (g : List Triple) (wf : Node) :
    evalQuery q g wf = true ↔
      (solve g wf (graphNodes g) q.prefilter [[]]).isEmpty = false ∧
      (solve g wf (graphNodes g) q.body [[]]).isEmpty = false := by
  simp [evalQuery]

theorem eval_sound {q : Query} {g : List Triple} {wf : Node} (h : evalQuery q g wf = true) :
    Satisfiable g wf q.prefilter ∧ Satisfiable g wf q.body := by
  rw [evalQuery_eq] at h
  exact ⟨sat_of_solve_nonempty h.1, sat_of_solve_nonempty h.2⟩

theorem eval_complete {q : Query} {g : List Triple} {wf : Node}
    (h1 : SatisfiableIn (graphNodes g) g wf q.prefilter) (h2 : SatisfiableIn (graphNodes g) g wf q.body) :
    evalQuery q g wf = true := by
  rw [evalQuery_eq]
  exact ⟨solve_nonempty_of_sat h1, solve_nonempty_of_sat h2⟩

/-- a pair that satisfies a path other than `p?` consists of nodes of the graph -/
theorem pathHolds_nodes {g : List Triple} {p : QPath} {a b : Node} (hp : ∀ m, p ≠ .opt m)
    (h : pathHolds g p a b = true) : a ∈ graphNodes g ∧ b ∈ graphNodes g := by
  cases p with
  | pred n =>
    have := (pathHolds_pred g n a b).1 h
    exact ⟨subj_mem_graphNodes this, obj_mem_graphNodes this⟩
  | opt n => exact absurd rfl (hp n)
  | outputFrom =>
    obtain ⟨m, h1, h2⟩ := (pathHolds_outputFrom g a b).1 h
    refine ⟨subj_mem_graphNodes h1, ?_⟩
    rcases h2 with rfl | h2
    · exact obj_mem_graphNodes h1
    · exact obj_mem_graphNodes h2
  | inputFromInv =>
    obtain ⟨m, h1, h2⟩ := (pathHolds_inputFromInv g a b).1 h
    refine ⟨subj_mem_graphNodes h1, ?_⟩
    rcases h2 with rfl | h2
    · exact obj_mem_graphNodes h1
    · exact subj_mem_graphNodes h2

/-- for a grounded clause list every satisfying assignment is one over the nodes of the graph -/
theorem satIn_of_grounded {g : List Triple} {wf : Node} {cs : List QClause} (hg : Grounded cs)
    (h : Satisfiable g wf cs) : SatisfiableIn (graphNodes g) g wf cs := by
  obtain ⟨env, hs⟩ := h
  refine ⟨env, hs, ?_⟩
  intro c hc t ht n v a hp hv ha
  obtain ⟨t', hc', hp', hv'⟩ := hg c hc t ht n v hp hv
  obtain ⟨a', b', h1, h2, h3⟩ := hs _ hc'
  obtain ⟨ha', hb'⟩ := pathHolds_nodes hp' h3
  rcases hv' with hv' | hv'
  · rw [hv', ha] at h1
    simp only [Option.some.injEq] at h1
    subst h1
    exact ha'
  · rw [hv', ha] at h2
    simp only [Option.some.injEq] at h2
    subst h2
    exact hb'

theorem satisfiable_of_in {U : List Node} {g : List Triple} {wf : Node} {cs : List QClause}
    (h : SatisfiableIn U g wf cs) : Satisfiable g wf cs := by
  obtain ⟨env, hs, _⟩ := h
  exact ⟨env, hs⟩

theorem eval_iff_grounded (q : Query) (g : List Triple) (wf : Node)
    (h1 : Grounded q.prefilter) (h2 : Grounded q.body) :
    evalQuery q g wf = true ↔ Satisfiable g wf q.prefilter ∧ Satisfiable g wf q.body :=
  ⟨eval_sound, fun h => eval_complete (satIn_of_grounded h1 h.1) (satIn_of_grounded h2 h.2)⟩

/-! ## solutions only take graph nodes (when `p?` is used between variables only) -/

/-- every `p?` triple has variables at both ends -/
def OptVars (cs : List QClause) : Prop :=
  ∀ c ∈ cs, ∀ t ∈ c.triples, ∀ n, t.p = .opt n → (∃ v, t.s = .var v) ∧ (∃ w, t.o = .var w)

def AllIn (U : List Node) (e : QEnv) : Prop := ∀ v n, qlookup e v = some n → n ∈ U

theorem allIn_append {U : List Node} {e : QEnv} {v : QVar} {n : Node} (h : AllIn U e) (hn : n ∈ U) :
    AllIn U (e ++ [(v, n)]) := by
  intro w x hw
  rw [qlookup_append] at hw
  cases hl : qlookup e w with
  | some y =>
    rw [hl] at hw
    simp only [Option.some.injEq] at hw
    subst hw
    exact h w y hl
  | none =>
    rw [hl] at hw
    by_cases hv : v = w
    · simp only [hv, if_true, Option.some.injEq] at hw
      subst hw
      exact hn
    · simp [hv] at hw

theorem pathPairs_opt_none {g : List Triple} {univ : List Node} {n : String} {a b : Node}
    (h : (a, b) ∈ pathPairs g univ (.opt n) none none) : a ∈ univ ∨ (a, Node.tf n, b) ∈ g := by
  simp only [pathPairs, List.mem_filter, List.mem_append, List.mem_map, Prod.mk.injEq] at h
  rcases h.1 with ⟨x, hx, rfl, _⟩ | h1
  · exact Or.inl hx
  · exact Or.inr ((mem_pairsOf g n a b).1 h1)

theorem extendTriple_allIn {g : List Triple} {wf : Node} {env e' : QEnv} {t : QTriple}
    (hin : AllIn (graphNodes g) env)
    (hv : ∀ n, t.p = .opt n → (∃ v, t.s = .var v) ∧ (∃ w, t.o = .var w))
    (h : e' ∈ extendTriple g wf (graphNodes g) env t) : AllIn (graphNodes g) e' := by
  rw [extendTriple_eq, List.mem_filterMap] at h
  obtain ⟨⟨a, b⟩, hq, he⟩ := h
  rw [List.mem_eraseDups] at hq
  obtain ⟨hp, hs, ho⟩ := pathPairs_sound g _ t.p _ _ a b hq
  have hab : a ∈ graphNodes g ∧ b ∈ graphNodes g := by
    by_cases hopt : ∃ n, t.p = .opt n
    · obtain ⟨n, hn⟩ := hopt
      obtain ⟨⟨v, hv1⟩, ⟨w, hv2⟩⟩ := hv n hn
      rw [hn] at hp hq
      rcases (pathHolds_opt g n a b).1 hp with rfl | hedge
      · suffices a ∈ graphNodes g from ⟨this, this⟩
        rcases hs with hs | hs
        · rcases ho with ho | ho
          · rw [hs, ho] at hq
            rcases pathPairs_opt_none hq with h1 | h1
            · exact h1
            · exact subj_mem_graphNodes h1
          · rw [hv2] at ho
            exact hin w a ho
        · rw [hv1] at hs
          exact hin v a hs
      · exact ⟨subj_mem_graphNodes hedge, obj_mem_graphNodes hedge⟩
    · exact pathHolds_nodes (fun m hm => hopt ⟨m, hm⟩) hp
  have h1 : AllIn (graphNodes g) (extS wf env t.s a) := by
    unfold extS
    split
    · exact allIn_append hin hab.1
    · exact hin
  unfold extO at he
  split at he
  · split at he
    · split at he
      · simp only [Option.some.injEq] at he
        subst he
        exact h1
      · cases he
    · simp only [Option.some.injEq] at he
      subst he
      exact allIn_append h1 hab.2
  · simp only [Option.some.injEq] at he
    subst he
    exact h1

theorem stepEnvs_allIn {g : List Triple} {wf : Node} {c : QClause} {envs : List QEnv}
    (hin : ∀ e ∈ envs, AllIn (graphNodes g) e)
    (hv : ∀ t ∈ c.triples, ∀ n, t.p = .opt n → (∃ v, t.s = .var v) ∧ (∃ w, t.o = .var w)) :
    ∀ e' ∈ stepEnvs g wf (graphNodes g) c envs, AllIn (graphNodes g) e' := by
  intro e' h
  cases c with
  | one t =>
    simp only [stepEnvs, List.mem_eraseDups, List.mem_flatMap] at h
    obtain ⟨e, he, h1⟩ := h
    exact extendTriple_allIn (hin e he) (hv t (by simp [QClause.triples])) h1
  | union alts =>
    simp only [stepEnvs, List.mem_eraseDups, List.mem_flatMap] at h
    obtain ⟨e, he, t, ht, h1⟩ := h
    exact extendTriple_allIn (hin e he) (hv t ht) h1

theorem solve_allIn (g : List Triple) (wf : Node) :
    ∀ (cs : List QClause) (envs : List QEnv), OptVars cs → (∀ e ∈ envs, AllIn (graphNodes g) e) →
      ∀ e' ∈ solve g wf (graphNodes g) cs envs, AllIn (graphNodes g) e'
  | [], _, _, hin => hin
  | c :: cs, envs, hv, hin => by
    rw [solve_cons]
    apply solve_allIn g wf cs
    · exact fun c' hc' => hv c' (List.mem_cons_of_mem _ hc')
    · exact stepEnvs_allIn hin (hv c (by simp))

theorem satIn_of_solve_nonempty {g : List Triple} {wf : Node} {cs : List QClause} (hv : OptVars cs)
    (h : (solve g wf (graphNodes g) cs [[]]).isEmpty = false) : SatisfiableIn (graphNodes g) g wf cs := by
  cases hx : solve g wf (graphNodes g) cs [[]] with
  | nil => rw [hx] at h; cases h
  | cons e' _ =>
    have hm : e' ∈ solve g wf (graphNodes g) cs [[]] := by rw [hx]; simp
    obtain ⟨_, _, _, hs⟩ := solve_sound g wf _ cs [[]] e' hm
    have hall := solve_allIn g wf cs [[]] hv (by
      intro e he
      simp only [List.mem_singleton] at he
      subst he
      intro v n hl
      simp [qlookup] at hl) e' hm
    exact ⟨e', hs, fun c _ t _ n v a _ _ ha => hall v a ha⟩

theorem eval_iff_in (q : Query) (g : List Triple) (wf : Node)
    (h1 : OptVars q.prefilter) (h2 : OptVars q.body) :
    evalQuery q g wf = true ↔
      SatisfiableIn (graphNodes g) g wf q.prefilter ∧ SatisfiableIn (graphNodes g) g wf q.body := by
  constructor
  · intro h
    rw [evalQuery_eq] at h
    exact ⟨satIn_of_solve_nonempty h1 h.1, satIn_of_solve_nonempty h2 h.2⟩
  · exact fun h => eval_complete h.1 h.2

end Tfv
