import Tfv.Proofs.VocabBlank
/-!
# Order independence in general: two results of `add_taxonomy` are equal up to a renaming of blank nodes
-/
namespace Tfv.Voc
open Tfv Tfv.Tax

/-- no blank node is registered for two types -/
def BInj (g : GState) : Prop := ∀ y y' k, g.L y = some (.b k) → g.L y' = some (.b k) → y = y'

open Classical in
/-- the renaming: a blank node registered in `g1` for `x` goes to the node of `x` in `g2`; everything else stays -/
noncomputable def rename (g1 g2 : GState) (n : Node) : Node :=
  if h : ∃ x k, n = .b k ∧ g1.L x = some n then (g2.L (choose h)).getD n else n

def mapTr (ρ : Node → Node) (tr : Triple) : Triple := (ρ tr.1, tr.2.1, ρ tr.2.2)

/-- the nodes the renaming has to be injective on: URIs and registered nodes -/
def InGraph (g : GState) (n : Node) : Prop := NotBlank n ∨ ∃ x, g.L x = some n

theorem rename_notBlank (g1 g2 : GState) {n : Node} (h : NotBlank n) : rename g1 g2 n = n := by
  unfold rename
  rw [dif_neg]
  rintro ⟨x, k, hk, _⟩
  exact h k hk

theorem mapTr_noBlank (g1 g2 : GState) {tr : Triple} (h : NoBlank tr) : mapTr (rename g1 g2) tr = tr := by
  unfold mapTr
  rw [rename_notBlank g1 g2 h.1, rename_notBlank g1 g2 h.2]

section
variable {G : GLang} {c : GCfg} {cl1 cl2 : Bool} {g1 g2 : GState}

/-- the node of `x` in `g2` is the renamed node of `x` in `g1` -/
theorem TaxResult.rename_spec (h1 : TaxResult G c cl1 g1) (h2 : TaxResult G c cl2 g2) (i1 : BInj g1) {x : Term} {n : Node}
    (hl : g1.L x = some n) : g2.L x = some (rename g1 g2 n) := by
  by_cases hb : NotBlank n
  · rw [rename_notBlank g1 g2 hb]; exact h1.transfer h2 hl hb
  · have hex : ∃ x k, n = .b k ∧ g1.L x = some n := by
      cases n with
      | b k => exact ⟨x, k, rfl, hl⟩
      | _ => exact absurd (fun k hk => by cases hk) hb
    obtain ⟨n2, hn2⟩ := (h2.registered x).2 ((h1.registered x).1 ⟨n, hl⟩)
    unfold rename
    rw [dif_pos hex]
    obtain ⟨k, hk, hx0⟩ := Classical.choose_spec hex
    have : Classical.choose hex = x := i1 _ _ k (hk ▸ hx0) (hk ▸ hl)
    rw [this, hn2]
    rfl

/-- a blank node stays blank -/
theorem TaxResult.rename_blank (h1 : TaxResult G c cl1 g1) (h2 : TaxResult G c cl2 g2) (i1 : BInj g1) {x : Term} {k : Nat}
    (hl : g1.L x = some (.b k)) : ∃ k', rename g1 g2 (.b k) = .b k' := by
  have hr := h1.rename_spec h2 i1 hl
  rcases h1.node x _ hl with h | ⟨he, _⟩
  · exact absurd rfl (typeUri_notBlank h k)
  · rcases h2.node x _ hr with h | ⟨_, _, k', hk'⟩
    · rw [he] at h; cases h
    · exact ⟨k', hk'⟩

theorem TaxResult.rename_inj (h1 : TaxResult G c cl1 g1) (h2 : TaxResult G c cl2 g2) (i1 : BInj g1) (i2 : BInj g2)
    {n m : Node} (hn : InGraph g1 n) (hm : InGraph g1 m) (he : rename g1 g2 n = rename g1 g2 m) : n = m := by
  by_cases bn : NotBlank n
  · by_cases bm : NotBlank m
    · rw [rename_notBlank g1 g2 bn, rename_notBlank g1 g2 bm] at he; exact he
    · rcases hm with hm | ⟨y, hy⟩
      · exact absurd hm bm
      · cases m with
        | b k =>
          obtain ⟨k', hk'⟩ := h1.rename_blank h2 i1 hy
          rw [rename_notBlank g1 g2 bn, hk'] at he
          exact absurd he (bn k')
        | _ => exact absurd (fun k hk => by cases hk) bm
  · rcases hn with hn | ⟨x, hx⟩
    · exact absurd hn bn
    · cases n with
      | b k =>
        obtain ⟨k', hk'⟩ := h1.rename_blank h2 i1 hx
        rcases hm with hm | ⟨y, hy⟩
        · rw [rename_notBlank g1 g2 hm, hk'] at he
          exact absurd he.symm (hm k')
        · have hx2 := h1.rename_spec h2 i1 hx
          have hy2 := h1.rename_spec h2 i1 hy
          rw [← he, hk'] at hy2
          rw [hk'] at hx2
          have := i2 _ _ k' hx2 hy2
          subst this
          rw [hx] at hy; cases hy; rfl
      | _ => exact absurd (fun k hk => by cases hk) bn

theorem TaxResult.direct_map (h1 : TaxResult G c cl1 g1) (h2 : TaxResult G c cl2 g2) (i1 : BInj g1) {tr : Triple}
    (hd : DirectTr G c g1 tr) : DirectTr G c g2 (mapTr (rename g1 g2) tr) := by
  rcases hd with ⟨x, n, hl, hd⟩ | hd
  · have hx := h1.rename_spec h2 i1 hl
    left
    cases hd with
    | cls hc =>
      refine ⟨x, _, hx, ?_⟩
      unfold mapTr
      rw [rename_notBlank g1 g2 (n := Node.tf "Type") (fun k hk => by cases hk)]
      exact .cls hc
    | op hxo ha htp =>
      refine ⟨x, _, hx, ?_⟩
      unfold mapTr
      rw [rename_notBlank g1 g2 (opUri_notBlank G _)]
      exact .op hxo ha htp
    | param hxo ha htp hi hp =>
      refine ⟨x, _, hx, ?_⟩
      unfold mapTr
      exact .param hxo ha htp hi (h1.rename_spec h2 i1 hp)
  · right
    rw [mapTr_noBlank g1 g2 (linkTr_noBlank hd)]; exact hd

theorem TaxResult.direct_back (h1 : TaxResult G c cl1 g1) (h2 : TaxResult G c cl2 g2) (i1 : BInj g1) {tr' : Triple}
    (hd : DirectTr G c g2 tr') : ∃ tr, DirectTr G c g1 tr ∧ mapTr (rename g1 g2) tr = tr' := by
  rcases hd with ⟨x, n2, hl2, hd⟩ | hd
  · obtain ⟨n1, hl1⟩ := (h1.registered x).2 ((h2.registered x).1 ⟨n2, hl2⟩)
    have hx := h1.rename_spec h2 i1 hl1
    rw [hl2] at hx
    simp only [Option.some.injEq] at hx
    cases hd with
    | cls hc =>
      refine ⟨(n1, Node.rdf "type", Node.tf "Type"), .inl ⟨x, n1, hl1, .cls hc⟩, ?_⟩
      unfold mapTr
      rw [rename_notBlank g1 g2 (n := Node.tf "Type") (fun k hk => by cases hk), ← hx]
    | @op o args hxo ha htp =>
      refine ⟨(n1, subClassOf, opUri G o), .inl ⟨x, n1, hl1, .op hxo ha htp⟩, ?_⟩
      unfold mapTr
      rw [rename_notBlank g1 g2 (opUri_notBlank G _), ← hx]
    | @param o args i p pn2 hxo ha htp hi hp =>
      obtain ⟨pn1, hp1⟩ := (h1.registered p).2 ((h2.registered p).1 ⟨pn2, hp⟩)
      have hpx := h1.rename_spec h2 i1 hp1
      rw [hp] at hpx
      simp only [Option.some.injEq] at hpx
      refine ⟨(n1, paramPred (i + 1), pn1), .inl ⟨x, n1, hl1, .param hxo ha htp hi hp1⟩, ?_⟩
      unfold mapTr
      rw [← hx, ← hpx]
  · exact ⟨tr', .inr hd, mapTr_noBlank g1 g2 (linkTr_noBlank hd)⟩

theorem TaxResult.direct_inGraph {cl : Bool} {g : GState} (_h : TaxResult G c cl g) {tr : Triple} (hd : DirectTr G c g tr) :
    InGraph g tr.1 ∧ InGraph g tr.2.2 := by
  rcases hd with ⟨x, n, hl, hd⟩ | hd
  · cases hd with
    | cls _ => exact ⟨.inr ⟨x, hl⟩, .inl (fun k hk => by cases hk)⟩
    | op _ _ _ => exact ⟨.inr ⟨x, hl⟩, .inl (opUri_notBlank G _)⟩
    | param _ _ _ _ hp => exact ⟨.inr ⟨x, hl⟩, .inr ⟨_, hp⟩⟩
  · have := linkTr_noBlank hd
    exact ⟨.inl this.1, .inl this.2⟩

/-- **two results are isomorphic**: a renaming that fixes every non-blank node, sends blank nodes to blank nodes, is injective on
the nodes of the first graph, and maps the triple set of the first onto the triple set of the second -/
theorem TaxResult.iso {cl : Bool} (h1 : TaxResult G c cl g1) (h2 : TaxResult G c cl g2) (i1 : BInj g1) (i2 : BInj g2) :
    ∃ ρ : Node → Node, (∀ n, NotBlank n → ρ n = n) ∧
      (∀ x k, g1.L x = some (.b k) → ∃ k', ρ (.b k) = .b k') ∧
      (∀ tr, tr ∈ g1.triples → InGraph g1 tr.1 ∧ InGraph g1 tr.2.2) ∧
      (∀ n m, InGraph g1 n → InGraph g1 m → ρ n = ρ m → n = m) ∧
      (∀ tr, tr ∈ g1.triples → mapTr ρ tr ∈ g2.triples) ∧
      (∀ tr', tr' ∈ g2.triples → ∃ tr, tr ∈ g1.triples ∧ mapTr ρ tr = tr') := by
  refine ⟨rename g1 g2, fun n hn => rename_notBlank g1 g2 hn, fun x k hl => h1.rename_blank h2 i1 hl, ?_,
    fun n m hn hm he => h1.rename_inj h2 i1 i2 hn hm he, ?_, ?_⟩
  · intro tr htr
    rw [h1.triples] at htr
    rcases htr with hd | ⟨_, t, _, ref, s, href, hs, rfl⟩
    · exact h1.direct_inGraph hd
    · refine ⟨?_, .inl (typeUri_notBlank href)⟩
      cases hs with
      | refl _ => exact .inl (typeUri_notBlank href)
      | step hab _ => exact (h1.direct_inGraph hab).1
  · intro tr htr
    rw [h1.triples] at htr
    rw [h2.triples]
    rcases htr with hd | ⟨hc, t, ht, ref, s, href, hs, rfl⟩
    · exact .inl (h1.direct_map h2 i1 hd)
    · refine .inr ⟨hc, t, ht, ref, rename g1 g2 s, href, ?_, ?_⟩
      · cases hs with
        | refl _ => rw [rename_notBlank g1 g2 (typeUri_notBlank href)]; exact .refl _
        | @step _ m _ hab hrest =>
          have hm := directEdge_obj_notBlank hab
          have := h1.direct_map h2 i1 hab
          unfold mapTr at this
          simp only [] at this
          rw [rename_notBlank g1 g2 hm] at this
          exact .step this (h1.reach_transfer h2 hrest hm)
      · unfold mapTr
        simp only []
        rw [rename_notBlank g1 g2 (typeUri_notBlank href)]
  · intro tr' htr
    rw [h2.triples] at htr
    rcases htr with hd | ⟨hc, t, ht, ref, s2, href, hs, rfl⟩
    · obtain ⟨tr, hd1, hm⟩ := h1.direct_back h2 i1 hd
      exact ⟨tr, (h1.triples tr).2 (.inl hd1), hm⟩
    · cases hs with
      | refl _ =>
        refine ⟨(ref, subClassOf, ref), (h1.triples _).2 (.inr ⟨hc, t, ht, ref, ref, href, .refl _, rfl⟩), ?_⟩
        exact mapTr_noBlank g1 g2 ⟨typeUri_notBlank href, typeUri_notBlank href⟩
      | @step _ m _ hab hrest =>
        have hm := directEdge_obj_notBlank hab
        obtain ⟨⟨s1, p1, m1⟩, hd1, hmap⟩ := h1.direct_back h2 i1 hab
        unfold mapTr at hmap
        simp only [Prod.mk.injEq] at hmap
        obtain ⟨hs1, rfl, hm1⟩ := hmap
        have hm1' : NotBlank m1 := directEdge_obj_notBlank (G := G) (c := c) (g := g1) (a := s1) hd1
        rw [rename_notBlank g1 g2 hm1'] at hm1
        subst hm1
        refine ⟨(s1, subClassOf, ref), (h1.triples _).2 (.inr ⟨hc, t, ht, ref, s1, href,
          .step hd1 (h2.reach_transfer h1 hrest hm), rfl⟩), ?_⟩
        unfold mapTr
        simp only []
        rw [hs1, rename_notBlank g1 g2 (typeUri_notBlank href)]

end

/-- `TaxResult.iso` for two runs of `add_taxonomy` -/
theorem addTaxonomyOn_iso (G : GLang) (c : GCfg) (closure : Bool) (order1 order2 : List Ty) (g1 g2 : GState)
    (hcov1 : ∀ t ∈ G.canon, t ∈ order1) (hcov2 : ∀ t ∈ G.canon, t ∈ order2)
    (h1 : addTaxonomyOn G c closure order1 {} = .ok g1) (h2 : addTaxonomyOn G c closure order2 {} = .ok g2) :
    ∃ ρ : Node → Node, (∀ n, NotBlank n → ρ n = n) ∧
      (∀ x k, g1.L x = some (.b k) → ∃ k', ρ (.b k) = .b k') ∧
      (∀ tr, tr ∈ g1.triples → InGraph g1 tr.1 ∧ InGraph g1 tr.2.2) ∧
      (∀ n m, InGraph g1 n → InGraph g1 m → ρ n = ρ m → n = m) ∧
      (∀ tr, tr ∈ g1.triples → mapTr ρ tr ∈ g2.triples) ∧
      (∀ tr', tr' ∈ g2.triples → ∃ tr, tr ∈ g1.triples ∧ mapTr ρ tr = tr') :=
  (addTaxonomyOn_result G c closure order1 g1 hcov1 h1).iso (addTaxonomyOn_result G c closure order2 g2 hcov2 h2)
    (addTaxonomyOn_blank_inj G c closure order1 g1 h1) (addTaxonomyOn_blank_inj G c closure order2 g2 h2)

end Tfv.Voc
