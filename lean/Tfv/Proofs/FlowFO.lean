import Tfv.Proofs.FlowSpine
/-!
# C08 proofs, part 3: first-order expressions — the `from` edges are the application tree
-/
namespace Tfv.C08P
open Tfv

/-! ## unfolding `flowFO` -/

theorem foldl_attach_val {α β : Type} (l : List α) (f : β → α → β) (b : β) :
    l.attach.foldl (fun st x => f st x.1) b = l.foldl f b := by
  rw [List.foldl_attach]

/-- one step of the fold in `flowFO` -/
def flowStep (n : Nat) (st : FlowRes) (x : TExpr) : FlowRes :=
  flowArg n st (flowFO (st.next + 1) st.memo x (some st.next))

theorem flowFO_src (next : Nat) (memo : List (Nat × Nat)) (id : Nat) (l : Option String) (ty : Term) (cur : Option Nat) :
    flowFO next memo (.src id l ty) cur =
      match memo.find? (fun p => p.1 == id) with
      | some p => { node := p.2, next := next, memo := memo, edges := [], ops := [] }
      | none => { node := (allocNode next cur).1, next := (allocNode next cur).2,
                  memo := memo ++ [(id, (allocNode next cur).1)], edges := [], ops := [] } := by
  rw [flowFO]; rfl

theorem flowFO_spine (next : Nat) (memo : List (Nat × Nat)) (e : TExpr) (cur : Option Nat) (name : String) (ty : Term)
    (h : headOf e = .op name ty) :
    flowFO next memo e cur =
      (argsOf e).foldl (flowStep (allocNode next cur).1)
        { node := (allocNode next cur).1, next := (allocNode next cur).2, memo := memo, edges := [],
          ops := [((allocNode next cur).1, e)] } := by
  rw [flowFO, h]
  simp only []
  exact foldl_attach_val (argsOf e) (flowStep (allocNode next cur).1) _

/-! ## `wire` only adds edges -/

theorem foldl_from_frame {α : Type} (p : α → Bool) (a b : α → Nat) (l : List α) (k : Core) :
    let k' := l.foldl (fun k j => if p j then k.from (a j) (b j) else k) k
    k'.nextB = k.nextB ∧ k'.src = k.src ∧ k'.shared = k.shared ∧ k'.ints = k.ints := by
  induction l generalizing k with
  | nil => exact ⟨rfl, rfl, rfl, rfl⟩
  | cons x xs ih =>
    simp only [List.foldl_cons]
    have := ih (if p x then k.from (a x) (b x) else k)
    by_cases hp : p x <;> simpa [hp, Core.from] using this

theorem foldl_from_frame' {α : Type} (a b : α → Nat) (l : List α) (k : Core) :
    let k' := l.foldl (fun k j => k.from (a j) (b j)) k
    k'.nextB = k.nextB ∧ k'.src = k.src ∧ k'.shared = k.shared ∧ k'.ints = k.ints := by
  simpa using foldl_from_frame (fun _ => true) a b l k

theorem wire_frame (k : Core) (fnode xnode : Nat) (ci : Option Nat) :
    (wire k fnode xnode ci).nextB = k.nextB ∧ (wire k fnode xnode ci).src = k.src ∧
    (wire k fnode xnode ci).shared = k.shared ∧ (wire k fnode xnode ci).ints = k.ints := by
  cases ci with
  | none =>
    simp only [wire]
    have := foldl_from_frame (fun j => some j != none) (fun j => j) (fun _ => xnode)
      (intsOf (k.from fnode xnode).ints fnode) (k.from fnode xnode)
    simpa [Core.from] using this
  | some i =>
    simp only [wire]
    have h1 := foldl_from_frame' (fun j => j) (fun _ => i)
      (intsOf ((k.from xnode i).from fnode xnode).ints xnode) ((k.from xnode i).from fnode xnode)
    generalize List.foldl (fun k j => k.from j i) ((k.from xnode i).from fnode xnode)
      (intsOf ((k.from xnode i).from fnode xnode).ints xnode) = k1 at h1 ⊢
    have h2 := foldl_from_frame (fun j => some j != some i) (fun j => j) (fun _ => xnode) (intsOf k1.ints fnode) k1
    generalize List.foldl (fun k j => if (some j != some i) = true then k.from j xnode else k) k1 (intsOf k1.ints fnode) = k2 at h2 ⊢
    have h3 := foldl_from_frame (fun fin => xnode != fin || (objectsOf (k.from xnode i).frm fnode).contains xnode)
      (fun _ => i) (fun fin => fin) (objectsOf k2.frm fnode).eraseDups k2
    have h1 : k1.nextB = k.nextB ∧ k1.src = k.src ∧ k1.shared = k.shared ∧ k1.ints = k.ints := h1
    refine ⟨?_, ?_, ?_, ?_⟩
    · rw [h3.1, h2.1, h1.1]
    · rw [h3.2.1, h2.2.1, h1.2.1]
    · rw [h3.2.2.1, h2.2.2.1, h1.2.2.1]
    · rw [h3.2.2.2, h2.2.2.2, h1.2.2.2]

/-- with no internal node around, wiring an argument is one edge -/
theorem wire_none (k : Core) (fnode xnode : Nat) (h : intsOf k.ints fnode = []) :
    wire k fnode xnode none = k.from fnode xnode := by
  simp only [wire]
  have : (k.from fnode xnode).ints = k.ints := rfl
  rw [this, h]; rfl

theorem intsOf_eq_nil {ints : List (Nat × Nat)} {n : Nat} (h : ∀ p ∈ ints, p.1 ≠ n) : intsOf ints n = [] := by
  unfold intsOf
  rw [List.map_eq_nil_iff, List.filter_eq_nil_iff]
  intro p hp
  simpa using h p hp

/-! ## the correspondence -/

/-- no internal node is attached to a node that the expression is going to use:
the reserved node, or any node not yet handed out -/
def IntsOK (k : Core) (cur : Option Nat) : Prop :=
  ∀ p ∈ k.ints, p.1 < k.nextB ∧ ∀ n, cur = some n → p.1 ≠ n

/-- the core after laying out `r` on top of `k` -/
def coreRes (k : Core) (r : FlowRes) : Core :=
  { nextB := r.next, src := r.memo, shared := k.shared, ints := k.ints, frm := r.edges ++ k.frm }

/-- the core whose counter, sources and new edges are those of `st` -/
def coreSt (k : Core) (st : FlowRes) (frm0 : List (Nat × Nat)) : Core :=
  { nextB := st.next, src := st.memo, shared := k.shared, ints := k.ints, frm := st.edges ++ frm0 }

theorem cur_alloc (k : Core) (cur : Option Nat) :
    (k.cur cur).2 = (allocNode k.nextB cur).1 ∧
    (k.cur cur).1 = { k with nextB := (allocNode k.nextB cur).2 } := by
  cases cur <;> exact ⟨rfl, rfl⟩

theorem foldl_flowStep_node (n : Nat) : ∀ (as : List TExpr) (st : FlowRes), st.node = n →
    (as.foldl (flowStep n) st).node = n
  | [], _, h => h
  | a :: as, st, _ => by
    simp only [List.foldl_cons]
    exact foldl_flowStep_node n as _ rfl

theorem fold_flowFO (n : Nat) (frm0 : List (Nat × Nat)) : ∀ (as : List TExpr),
    (∀ a ∈ as, a.ty.isFunction = false) →
    (∀ a ∈ as, ∀ (k : Core) (cur : Option Nat), IntsOK k cur →
      addExprC k a cur = (coreRes k (flowFO k.nextB k.src a cur), (flowFO k.nextB k.src a cur).node) ∧
      k.nextB ≤ (flowFO k.nextB k.src a cur).next) →
    ∀ (k : Core) (st : FlowRes), st.next = k.nextB → st.memo = k.src → k.frm = st.edges ++ frm0 →
      (∀ p ∈ k.ints, p.1 < k.nextB ∧ p.1 ≠ n) →
      as.foldl (argStepC n) k = coreSt k (as.foldl (flowStep n) st) frm0 ∧
      k.nextB ≤ (as.foldl (flowStep n) st).next
  | [], _, _, k, st, h1, h2, h3, _ => by
    simp only [List.foldl_nil]
    refine ⟨?_, by omega⟩
    simp only [coreSt]
    rw [h1, h2, ← h3]
  | a :: as, hnf, ih, k, st, h1, h2, h3, hi => by
    simp only [List.foldl_cons]
    have hnfa := hnf a (List.mem_cons_self)
    have hok : IntsOK k.fresh.1 (some k.nextB) := by
      intro p hp
      have := hi p hp
      refine ⟨?_, ?_⟩
      · show p.1 < k.nextB + 1
        omega
      · intro m hm; cases hm; omega
    obtain ⟨ha, hmono⟩ := ih a (List.mem_cons_self) k.fresh.1 (some k.nextB) hok
    have hstep : argStepC n k a = coreSt k (flowStep n st a) frm0 := by
      unfold argStepC
      simp only [hnfa, mkInternal, Bool.false_eq_true, if_false]
      have hf2 : k.fresh.2 = k.nextB := rfl
      rw [hf2, ha]
      simp only []
      rw [wire_none]
      · simp only [coreRes, coreSt, Core.from, flowStep, flowArg, h1, h2]
        have e1 : k.fresh.1.nextB = k.nextB + 1 := rfl
        have e2 : k.fresh.1.src = k.src := rfl
        have e3 : k.fresh.1.frm = k.frm := rfl
        have e4 : k.fresh.1.shared = k.shared := rfl
        have e5 : k.fresh.1.ints = k.ints := rfl
        simp only [e1, e2, e3, e4, e5, h3, List.append_assoc, List.cons_append]
      · apply intsOf_eq_nil
        intro p hp
        exact (hi p hp).2
    rw [hstep]
    have hnext : (flowStep n st a).next = (flowFO (k.nextB + 1) k.src a (some k.nextB)).next := by
      simp only [flowStep, flowArg, h1, h2]
    have hmono' : k.nextB + 1 ≤ (flowStep n st a).next := by
      rw [hnext]; exact hmono
    have := fold_flowFO n frm0 as (fun b hb => hnf b (List.mem_cons_of_mem _ hb))
      (fun b hb => ih b (List.mem_cons_of_mem _ hb))
      (coreSt k (flowStep n st a) frm0) (flowStep n st a) rfl rfl rfl
      (by
        intro p hp
        have := hi p hp
        refine ⟨?_, this.2⟩
        show p.1 < (flowStep n st a).next
        omega)
    refine ⟨this.1, ?_⟩
    have h5 : (flowStep n st a).next ≤ (List.foldl (flowStep n) (flowStep n st a) as).next := this.2
    omega

theorem addExprC_flowFO {e : TExpr} (hfo : FirstOrder e) : ∀ (k : Core) (cur : Option Nat), IntsOK k cur →
    addExprC k e cur = (coreRes k (flowFO k.nextB k.src e cur), (flowFO k.nextB k.src e cur).node) ∧
    k.nextB ≤ (flowFO k.nextB k.src e cur).next := by
  induction hfo with
  | src id l ty =>
    intro k cur _
    rw [addExprC, flowFO_src]
    cases hfind : List.find? (fun p => p.fst == id) k.src with
    | some p =>
      refine ⟨?_, Nat.le_refl _⟩
      simp only [coreRes, List.nil_append]
    | none =>
      obtain ⟨c1, c2⟩ := cur_alloc k cur
      simp only [coreRes, List.nil_append, c1, c2]
      refine ⟨trivial, ?_⟩
      cases cur <;> simp [allocNode]
  | spine e name ty hh hnf _ ih =>
    intro k cur hok
    rw [addExprC_spine e name ty k cur hh, flowFO_spine _ _ e cur name ty hh]
    obtain ⟨c1, c2⟩ := cur_alloc k cur
    have := fold_flowFO (allocNode k.nextB cur).1 k.frm (argsOf e) hnf ih (k.cur cur).1
      { node := (allocNode k.nextB cur).1, next := (allocNode k.nextB cur).2, memo := k.src, edges := [],
        ops := [((allocNode k.nextB cur).1, e)] } (by rw [c2]) (by rw [c2]) (by rw [c2]; rfl)
      (by
        rw [c2]
        intro p hp
        have := hok p hp
        cases cur with
        | none => simp only [allocNode]; omega
        | some m => simp only [allocNode]; exact ⟨this.1, this.2 m rfl⟩)
    rw [c1]
    refine ⟨?_, ?_⟩
    · rw [this.1, c2, foldl_flowStep_node (allocNode k.nextB cur).1 (argsOf e) _ rfl]
      rfl
    · have h2 := this.2
      rw [c2] at h2
      have h3 : k.nextB ≤ (allocNode k.nextB cur).2 := by cases cur <;> simp [allocNode]
      exact Nat.le_trans h3 h2

/-! ## back to the model -/

theorem addExpr_total {G : GLang} {c : GCfg} {root : Node} {origin : Option Node} (hc : c.withTypes = false)
    (g : GState) (e : TExpr) (cur : Option Nat) (im : Bool) :
    ∃ g' n, addExpr G c root origin g e cur im = .ok (g', n) := by
  obtain ⟨g', h, _⟩ := addExpr_core (G := G) (root := root) (origin := origin) hc e g cur im
  exact ⟨g', _, h⟩

theorem addExpr_first_order {G : GLang} {c : GCfg} {root : Node} {origin : Option Node} (hc : c.withTypes = false)
    {g g' : GState} {e : TExpr} {cur : Option Nat} {im : Bool} {n : Nat} (hfo : FirstOrder e)
    (hints : ∀ p ∈ g.internals, p.1 < g.nextB ∧ ∀ m, cur = some m → p.1 ≠ m)
    (h : addExpr G c root origin g e cur im = .ok (g', n)) :
    n = (flowFO g.nextB g.srcNodes e cur).node ∧
    g'.nextB = (flowFO g.nextB g.srcNodes e cur).next ∧
    g'.srcNodes = (flowFO g.nextB g.srcNodes e cur).memo ∧
    g'.fd.frm = (flowFO g.nextB g.srcNodes e cur).edges ++ g.fd.frm ∧
    g'.internals = g.internals ∧ g'.sharedNodes = g.sharedNodes := by
  obtain ⟨g1, h1, h2⟩ := addExpr_core (G := G) (root := root) (origin := origin) hc e g cur im
  rw [h1] at h
  cases h
  have hm := (addExprC_flowFO hfo (coreOf g) cur hints).1
  rw [hm] at h2
  refine ⟨by rw [hm]; rfl, ?_, ?_, ?_, ?_, ?_⟩
  · exact congrArg Core.nextB h2
  · exact congrArg Core.src h2
  · exact congrArg Core.frm h2
  · exact congrArg Core.ints h2
  · exact congrArg Core.shared h2

/-! ## the executable check of `FirstOrder` -/

theorem firstOrder_args {e : TExpr} (h : FirstOrder e) {name : String} {ty : Term} (hh : headOf e = .op name ty) :
    (∀ a ∈ argsOf e, a.ty.isFunction = false) ∧ (∀ a ∈ argsOf e, FirstOrder a) := by
  cases h with
  | src id l t => cases hh
  | spine _ _ _ _ h1 h2 => exact ⟨h1, h2⟩

theorem firstOrder_sound : ∀ (e : TExpr), firstOrder e = true → FirstOrder e
  | .src id l ty, _ => .src id l ty
  | .op name ty, _ => .spine _ name ty rfl (by simp [argsOf]) (by simp [argsOf])
  | .shared _ _, h => by cases h
  | .app f x t, h => by
    simp only [firstOrder, Bool.and_eq_true, Bool.not_eq_true'] at h
    obtain ⟨⟨⟨h1, h2⟩, h3⟩, h4⟩ := h
    have ihf := firstOrder_sound f h2
    have ihx := firstOrder_sound x h4
    cases hh : headOf f with
    | op name ty =>
      obtain ⟨a1, a2⟩ := firstOrder_args ihf hh
      refine .spine _ name ty hh ?_ ?_
      · intro a ha
        simp only [argsOf, List.mem_append, List.mem_singleton] at ha
        rcases ha with ha | rfl
        · exact a1 a ha
        · exact h3
      · intro a ha
        simp only [argsOf, List.mem_append, List.mem_singleton] at ha
        rcases ha with ha | rfl
        · exact a2 a ha
        · exact ihx
    | src _ _ _ => rw [hh] at h1; cases h1
    | app _ _ _ => rw [hh] at h1; cases h1
    | shared _ _ => rw [hh] at h1; cases h1

theorem firstOrder_of_args : ∀ (e : TExpr) (name : String) (ty : Term), headOf e = .op name ty →
    (∀ a ∈ argsOf e, a.ty.isFunction = false) → (∀ a ∈ argsOf e, firstOrder a = true) → firstOrder e = true
  | .src _ _ _, _, _, h, _, _ => by cases h
  | .shared _ _, _, _, h, _, _ => by cases h
  | .op _ _, _, _, _, _, _ => rfl
  | .app f x t, name, ty, h, h1, h2 => by
    have hh : headOf f = .op name ty := h
    have ih := firstOrder_of_args f name ty hh
      (fun a ha => h1 a (by simp [argsOf, ha])) (fun a ha => h2 a (by simp [argsOf, ha]))
    simp only [firstOrder, hh, ih, Bool.and_eq_true, Bool.not_eq_true']
    exact ⟨⟨⟨trivial, trivial⟩, h1 x (by simp [argsOf])⟩, h2 x (by simp [argsOf])⟩

theorem firstOrder_complete {e : TExpr} (h : FirstOrder e) : firstOrder e = true := by
  induction h with
  | src id l ty => rfl
  | spine e name ty hh h1 _ ih => exact firstOrder_of_args e name ty hh h1 ih

theorem firstOrder_iff (e : TExpr) : firstOrder e = true ↔ FirstOrder e :=
  ⟨firstOrder_sound e, firstOrder_complete⟩

end Tfv.C08P
