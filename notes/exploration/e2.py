import sys
sys.path.insert(0,'/repo')
from transforge.type import *
from transforge.type import _
from transforge.expr import *
from transforge.lang import *
from transforge.graph import *
from transforge.query import *
from rdflib import BNode, Dataset, RDF
def tryit(label, fn):
    try:
        r=fn(); print(label,'=>',r)
    except Exception as e:
        print(label,'!!',type(e).__name__, e)

A=TypeOperator('A'); B=TypeOperator('B',supertype=A)
F=TypeOperator('F',params=1); G=TypeOperator('G',params=2)
# C14
lang=Language(dict(A=A,B=B,F=F,G=G), namespace=TEST, canon={G(G(B,A),F(A)), G(G(A,F(A)),B)})
t=G(G(B,A),F(A))
u=lang.uri(t); print('C14 uri',u, '->', lang.parse_type_uri(u), 'orig', t)
for t in sorted(lang.canon, key=str):
    u=lang.uri(t)
    try:
        back=lang.parse_type_uri(u)
    except Exception as e:
        back=type(e).__name__
    if back!=t: print('  MISMATCH',t,u,back)
# C14 print/parse round trip
for t in [G(F(A),B), A*B, F(A*B), G(A*B, F(Top())), Unit(), F(Unit()), (A*B)*A, A*(B*A), G(A*(B*A),(A*B)*A)]:
    s=str(t)
    tryit(f'C14 parse_type({s!r})', lambda: (lang.parse_type(s), lang.parse_type(s)==t))
