import Tfv.Proofs.FitsApply2
import Tfv.Proofs.FitsGen3
/-!
# C06 end to end, part 3: applying `x ** r(x) [x << alts]` to a compound concrete argument
-/
namespace Tfv.C06A
open Tfv Tfv.C03P Tfv.C03C Tfv.C16P Tfv.C17E Tfv.C03R

/-- after binding `x` to the compound argument `a` with exactly one alternative `t` above it -/
def σC1 (a t : Ty) : Store :=
  { vars := [{ bound := some a.toTerm, cset := 0 }], csets := [[]],
    constrs := [.elim a.toTerm [t.toTerm] true] }

/-- after binding `x` to the compound argument `a` with several alternatives above it -/
def σCk (a : Ty) (kept : List Ty) : Store :=
  { vars := [{ bound := some a.toTerm, cset := 0 }], csets := [[0]],
    constrs := [.elim a.toTerm (Ty.toTermL kept) false] }

def afterC (a : Ty) : List Ty → Except Err Store
  | [] => .error .constraintViolation
  | [t] => .ok (σC1 a t)
  | kept => .ok (σCk a kept)

theorem mem_filter_sub {L : Lang} {a t : Ty} {ts : List Ty} (h : t ∈ ts.filter (fun t => sub L a t)) : sub L a t = true :=
  (List.mem_filter.mp h).2

/-- `x` bound to `a`, constraint not yet re-checked -/
def σB (a : Ty) (ts : List Ty) : Store :=
  { vars := [{ bound := some a.toTerm, cset := 0 }], csets := [[0]],
    constrs := [.elim (.var 0) (Ty.toTermL ts) false] }

theorem check_σB (L : Lang) (k : Nat) (ts : List Ty) (a : Ty)
    (ha : antichain L ts = true)
    (hd : ∀ t ∈ ts, Ty.depth t < 64) (hda : Ty.depth a < 64)
    (hn : ts.length + 2 * Ty.sizeL ts + 2 * Ty.size a + 1 ≤ k) :
    checkConstraints L (k+4) (σB a ts) 0 = afterC a (ts.filter (fun t => sub L a t)) := by
  rw [checkConstraints]
  have e1 : getCset (σB a ts) (getVar (σB a ts) 0).cset = [0] := rfl
  rw [e1, checkList]
  have hfo : followT (σB a ts) (.var 0) = a.toTerm := followT_bound_toTerm rfl
  rw [fulfill_closed_core L (σB a ts) k 0 (.var 0) a.toTerm ts rfl Nat.zero_lt_one ha hd (by omega) hfo
    (fun v e => by cases a; rw [Tfv.toTerm_app] at e; cases e)]
  have hf := filter_toTerm L (setConstr (σB a ts) 0 (Constr.elim a.toTerm (Ty.toTermL ts) false)) a hda ts hd
  rw [matchFuel_setConstr] at hf
  rw [hf]
  generalize hk : ts.filter (fun t => sub L a t) = kept
  match kept, hk with
  | [], _ => rw [Ty.toTermL]; rfl
  | [t], hk =>
    have hs : sub L a t = true := mem_filter_sub (ts := ts) (by rw [hk]; exact List.mem_cons_self)
    rw [Tfv.toTermL_cons, Ty.toTermL]
    simp only []
    rw [unify_toTerm_ok _ a t (by omega) hs]
    simp only [if_true]
    rw [checkList]
    rfl
  | t1 :: t2 :: rest, _ =>
    simp only [Tfv.toTermL_cons]
    rw [checkList]
    rfl

theorem bind_compound (L : Lang) (k : Nat) (ts : List Ty) (ao : Nat) (as : List Ty)
    (h0 : arityOf L ao ≠ 0) (ha : antichain L ts = true)
    (hd : ∀ t ∈ ts, Ty.depth t < 64) (hda : Ty.depth (.app ao as) < 64)
    (hn : ts.length + 2 * Ty.sizeL ts + 2 * Ty.size (.app ao as) + 1 ≤ k) :
    bind L (k+5) (σ0 (Ty.toTermL ts)) 0 (Ty.app ao as).toTerm =
      afterC (.app ao as) (ts.filter (fun t => sub L (.app ao as) t)) := by
  rw [← check_σB L k ts (.app ao as) ha hd hda hn]
  rw [Tfv.toTerm_app, bind]
  have hdv : directVars (setVar (setVar (σ0 (Ty.toTermL ts)) 0 { cset := 0 }) 0
      { bound := some (.app ao (Ty.toTermL as)), cset := 0 })
      (termFuel (setVar (setVar (σ0 (Ty.toTermL ts)) 0 { cset := 0 }) 0
      { bound := some (.app ao (Ty.toTermL as)), cset := 0 })) (.app ao (Ty.toTermL as)) [] = [] :=
    directVars_closed _ _ _ _ (by rw [closed_app]; exact closedL_toTermL as)
  simp [σ0, getVar, h0, setVar] at hdv ⊢
  rw [hdv]
  simp [getCset, setCset, σB, Tfv.toTerm_app]

theorem unify_compound (L : Lang) (wf : WF L) (m : Nat) (alts : List Term) (ao : Nat) (as : List Ty)
    (h0 : arityOf L ao ≠ 0) :
    unify L (m+1) (σ0 alts) (Ty.app ao as).toTerm (.var 0) true false false =
      bind L m (σ0 alts) 0 (Ty.app ao as).toTerm := by
  have hb : ao ≠ BOT := fun e => h0 (by rw [e]; exact arity_bot wf)
  have hocc := occurs_closed_var (L := L) (σ := σ0 alts) (w := 0) rfl (termFuel (σ0 alts)) _
    (closed_toTerm (.app ao as))
  rw [Tfv.toTerm_app] at hocc ⊢
  rw [unify, Tfv.followT_app, C16P.followT_unbound rfl]
  simp [hb, hocc, h0]

/-- what `applyT` returns: the result type as written, or what the variable stands for -/
def resTerm (σ : Store) : Term → Term
  | .var v => followT σ (.var v)
  | t => t

def isFunT : Term → Bool
  | .app o _ => o == FUN
  | _ => false

theorem applyT_compound (L : Lang) (wf : WF L) (k : Nat) (r : Term) (ts : List Ty) (ao : Nat) (as : List Ty)
    (fixFlag : Bool) (h0 : arityOf L ao ≠ 0) (ha : antichain L ts = true)
    (hd : ∀ t ∈ ts, Ty.depth t < 64) (hda : Ty.depth (.app ao as) < 64)
    (hn : ts.length + 2 * Ty.sizeL ts + 2 * Ty.size (.app ao as) + 1 ≤ k) :
    applyT L (k+6) (σ0 (Ty.toTermL ts)) (.app FUN [.var 0, r]) (Ty.app ao as).toTerm fixFlag =
      (match afterC (.app ao as) (ts.filter (fun t => sub L (.app ao as) t)) with
       | .error e => .error e
       | .ok σ1 => if fixFlag && !isFunT r then fix L (k+6) σ1 r true else .ok (σ1, r)) := by
  unfold applyT
  rw [Tfv.followT_app, followT_toTerm]
  simp only [beq_self_eq_true, if_true]
  rw [unify_compound L wf _ _ ao as h0, bind_compound L k ts ao as h0 ha hd hda hn]
  cases afterC (.app ao as) (ts.filter (fun t => sub L (.app ao as) t)) with
  | error e => rfl
  | ok σ1 =>
    simp only []
    cases r <;> rfl

/-! ## the whole run -/

/-- instantiate the signature in the empty store and apply the instance to the arguments in turn -/
def runAll (L : Lang) (n : Nat) (fixFlag : Bool) (s : Schema) (xs : List Term) : Except Err (Store × Term) :=
  match instantiate L n {} s with
  | .error e => .error e
  | .ok (σ, f) => applyAll L n fixFlag σ f xs

theorem inert_σC1 (a t : Ty) : Inert (σC1 a t) a := by
  intro v
  cases v with
  | zero => exact Or.inr rfl
  | succ v => exact Or.inl ⟨rfl, rfl, rfl⟩

theorem inert_σCk (a : Ty) (kept : List Ty) : Inert (σCk a kept) a := by
  intro v
  cases v with
  | zero => exact Or.inr rfl
  | succ v => exact Or.inl ⟨rfl, rfl, rfl⟩

theorem afterC_inert {a : Ty} {kept : List Ty} {σ1 : Store} (h : afterC a kept = .ok σ1) : Inert σ1 a := by
  match kept, h with
  | [t], h => injection h with h; subst h; exact inert_σC1 a t
  | t1 :: t2 :: rest, h => injection h with h; subst h; exact inert_σCk a _

theorem fix_inert {L : Lang} {σ : Store} {a : Ty} (hi : Inert σ a) (n : Nat) (t : Term) (pl : Bool)
    (h : 2 * (tsz t * Ty.size a) ≤ n) : fix L n σ t pl = .ok (σ, resTerm σ t) := by
  rw [(fix_fixList_inert L σ a hi n).1 t pl h]
  cases t <;> rfl

/-- the fuel that suffices for one application to the argument `a` -/
def fuelFor (r : Term) (ts : List Ty) (a : Ty) : Nat :=
  ts.length + 2 * Ty.sizeL ts + 2 * ((tsz r + 2) * Ty.size a) + 16

/-- **the whole run, compound argument**: `x ** r(x) [x << ts]` applied to `a = o(…)`, `o` not nullary -/
theorem runAll_compound (L : Lang) (wf : WF L) (N : Nat) (r : Term) (ts : List Ty) (ao : Nat) (as : List Ty)
    (fixFlag : Bool) (h0 : arityOf L ao ≠ 0) (ha : antichain L ts = true) (h2 : 2 ≤ ts.length)
    (hd : ∀ t ∈ ts, Ty.depth t < 64) (hda : Ty.depth (.app ao as) < 64)
    (hN : fuelFor r ts (.app ao as) ≤ N) :
    runAll L N fixFlag (elimSchema r ts) [(Ty.app ao as).toTerm] =
      (match afterC (.app ao as) (ts.filter (fun t => sub L (.app ao as) t)) with
       | .error e => .error e
       | .ok σ1 => .ok (σ1, if fixFlag && !isFunT r then resTerm σ1 r else r)) := by
  have hS := size_pos (.app ao as)
  have hm : tsz r + 2 ≤ (tsz r + 2) * Ty.size (.app ao as) := Nat.le_mul_of_pos_right _ hS
  have hm2 : Ty.size (.app ao as) ≤ (tsz r + 2) * Ty.size (.app ao as) :=
    Nat.le_mul_of_pos_left _ (by omega)
  have hm3 : tsz r * Ty.size (.app ao as) ≤ (tsz r + 2) * Ty.size (.app ao as) :=
    Nat.mul_le_mul_right _ (by omega)
  unfold fuelFor at hN
  obtain ⟨k, rfl⟩ : ∃ k, N = k + 6 := ⟨N - 6, by omega⟩
  unfold runAll
  rw [show k + 6 = (k + 4) + 2 from rfl, instantiate_elimSchema L (k+4) r ts ha h2 hd (by omega)]
  simp only []
  rw [applyAll]
  rw [show k + 4 + 2 = k + 6 from rfl, applyT_compound L wf k r ts ao as fixFlag h0 ha hd hda (by omega)]
  cases hc : afterC (.app ao as) (ts.filter (fun t => sub L (.app ao as) t)) with
  | error e => rfl
  | ok σ1 =>
    simp only []
    cases hb : (fixFlag && !isFunT r)
    · simp only [Bool.false_eq_true, if_false]
      rw [applyAll]
    · simp only [if_true]
      rw [fix_inert (afterC_inert hc) _ r true (by omega)]
      simp only []
      rw [applyAll]

/-! ## reading the result -/

theorem fits_toTerm_iff {L : Lang} (wf : WF L) {a t : Ty} (hwa : wfTy L a = true) (hwt : wfTy L t = true) :
    Fits L a t.toTerm ↔ sub L a t = true := by
  rw [sub_iff_Sub wf hwa hwt]
  constructor
  · rintro ⟨θ, _, h⟩; rwa [Tfv.inst_toTerm] at h
  · intro h; exact ⟨fun _ => t, fun _ => hwt, by rwa [Tfv.inst_toTerm]⟩

theorem filter_ne_nil_iff {L : Lang} (wf : WF L) {a : Ty} {ts : List Ty} (hwa : wfTy L a = true)
    (hwt : ∀ t ∈ ts, wfTy L t = true) :
    ts.filter (fun t => sub L a t) ≠ [] ↔ ∃ t ∈ ts, Fits L a t.toTerm := by
  constructor
  · intro h
    obtain ⟨t, ht⟩ := List.exists_mem_of_ne_nil _ h
    obtain ⟨h1, h2⟩ := List.mem_filter.mp ht
    exact ⟨t, h1, (fits_toTerm_iff wf hwa (hwt t h1)).mpr h2⟩
  · rintro ⟨t, h1, h2⟩ e
    have : t ∈ ts.filter (fun t => sub L a t) :=
      List.mem_filter.mpr ⟨h1, (fits_toTerm_iff wf hwa (hwt t h1)).mp h2⟩
    rw [e] at this
    cases this

theorem afterC_ok_iff (a : Ty) (kept : List Ty) : (∃ σ1, afterC a kept = .ok σ1) ↔ kept ≠ [] := by
  match kept with
  | [] =>
    constructor
    · rintro ⟨_, h⟩; cases h
    · intro h; exact absurd rfl h
  | [t] =>
    constructor
    · intro _ h; cases h
    · intro _; exact ⟨_, rfl⟩
  | t1 :: t2 :: rest =>
    constructor
    · intro _ h; cases h
    · intro _; exact ⟨_, rfl⟩

theorem res_congr_follow {σ : Store} {t t' : Term} (h : followT σ t = followT σ t') (τ : Ty) :
    Res σ t τ ↔ Res σ t' τ := by
  cases τ with
  | app o τs => rw [res_app, res_app, h]

mutual
theorem res_inst_bound (σ : Store) (a : Ty) (hb : (getVar σ 0).bound = some a.toTerm) :
    ∀ r : Term, (∀ v ∈ r.vars, v = 0) → Res σ r (r.inst (fun _ => a))
  | .var v, h => by
    have : v = 0 := h v (by rw [Term.vars]; exact List.mem_singleton.mpr rfl)
    subst this
    rw [Term.inst]
    exact (res_congr_follow (by rw [followT_bound_toTerm hb, followT_toTerm]) a).mpr (res_toTerm σ a)
  | .app o args, h => by
    rw [Term.inst, res_app]
    exact ⟨args, Tfv.followT_app σ o args, resL_inst_bound σ a hb args (by rw [Term.vars] at h; exact h)⟩
theorem resL_inst_bound (σ : Store) (a : Ty) (hb : (getVar σ 0).bound = some a.toTerm) :
    ∀ rs : List Term, (∀ v ∈ Term.varsL rs, v = 0) → ResL σ rs (Term.instL (fun _ => a) rs)
  | [], _ => by rw [Term.instL]; exact resL_nil
  | r :: rs, h => by
    rw [Term.varsL] at h
    rw [Term.instL, resL_cons]
    exact ⟨res_inst_bound σ a hb r (fun v hv => h v (List.mem_append_left _ hv)),
      resL_inst_bound σ a hb rs (fun v hv => h v (List.mem_append_right _ hv))⟩
end

theorem res_resTerm {σ : Store} {r : Term} {τ : Ty} (hc : ∀ v, followT σ (followT σ (.var v)) = followT σ (.var v))
    (h : Res σ r τ) : Res σ (resTerm σ r) τ := by
  cases r with
  | var v => exact (res_congr_follow (t := resTerm σ (.var v)) (t' := .var v) (hc v) τ).mpr h
  | app o args => exact h

/-! ## the clauses of the property -/

theorem accept_iff_fit {L : Lang} (wf : WF L) (N : Nat) (r : Term) (ts : List Ty) (ao : Nat) (as : List Ty)
    (fixFlag : Bool) (h0 : arityOf L ao ≠ 0) (ha : antichain L ts = true) (h2 : 2 ≤ ts.length)
    (hd : ∀ t ∈ ts, Ty.depth t < 64) (hda : Ty.depth (.app ao as) < 64)
    (hwa : wfTy L (.app ao as) = true) (hwt : ∀ t ∈ ts, wfTy L t = true)
    (hN : fuelFor r ts (.app ao as) ≤ N) :
    (∃ σ' res, runAll L N fixFlag (elimSchema r ts) [(Ty.app ao as).toTerm] = .ok (σ', res)) ↔
      ∃ t ∈ ts, Fits L (.app ao as) t.toTerm := by
  rw [runAll_compound L wf N r ts ao as fixFlag h0 ha h2 hd hda hN, ← filter_ne_nil_iff wf hwa hwt,
    ← afterC_ok_iff (.app ao as)]
  cases afterC (.app ao as) (ts.filter (fun t => sub L (.app ao as) t)) with
  | error e =>
    constructor
    · rintro ⟨_, _, h⟩; cases h
    · rintro ⟨_, h⟩; cases h
  | ok σ1 => exact ⟨fun _ => ⟨σ1, rfl⟩, fun _ => ⟨σ1, _, rfl⟩⟩

theorem reject_is_violation {L : Lang} (wf : WF L) (N : Nat) (r : Term) (ts : List Ty) (ao : Nat) (as : List Ty)
    (fixFlag : Bool) (h0 : arityOf L ao ≠ 0) (ha : antichain L ts = true) (h2 : 2 ≤ ts.length)
    (hd : ∀ t ∈ ts, Ty.depth t < 64) (hda : Ty.depth (.app ao as) < 64)
    (hwa : wfTy L (.app ao as) = true) (hwt : ∀ t ∈ ts, wfTy L t = true)
    (hN : fuelFor r ts (.app ao as) ≤ N) (hno : ∀ t ∈ ts, ¬ Fits L (.app ao as) t.toTerm) :
    runAll L N fixFlag (elimSchema r ts) [(Ty.app ao as).toTerm] = .error .constraintViolation := by
  have hnil : ts.filter (fun t => sub L (.app ao as) t) = [] := by
    cases hf : ts.filter (fun t => sub L (.app ao as) t) with
    | nil => rfl
    | cons x xs =>
      obtain ⟨t, h1, h3⟩ := (filter_ne_nil_iff wf hwa hwt).mp (by rw [hf]; exact List.cons_ne_nil _ _)
      exact absurd h3 (hno t h1)
  rw [runAll_compound L wf N r ts ao as fixFlag h0 ha h2 hd hda hN, hnil]
  rfl

theorem followT_idem_inert {σ : Store} {a : Ty} (hi : Inert σ a) (v : Nat) :
    followT σ (followT σ (.var v)) = followT σ (.var v) := by
  rcases hi v with ⟨hb, _, _⟩ | hb
  · rw [C16P.followT_unbound hb, C16P.followT_unbound hb]
  · rw [followT_bound_toTerm hb, followT_toTerm]

theorem res_result {σ1 : Store} {a : Ty} (hi : Inert σ1 a) (hb : (getVar σ1 0).bound = some a.toTerm) (r : Term)
    (hr : ∀ v ∈ r.vars, v = 0) (c : Bool) : Res σ1 (if c then resTerm σ1 r else r) (r.inst (fun _ => a)) := by
  have h := res_inst_bound σ1 a hb r hr
  cases c
  · exact h
  · exact res_resTerm (followT_idem_inert hi) h

theorem unique_fit {L : Lang} (wf : WF L) (N : Nat) (r : Term) (ts : List Ty) (ao : Nat) (as : List Ty)
    (fixFlag : Bool) (t : Ty) (h0 : arityOf L ao ≠ 0) (ha : antichain L ts = true) (h2 : 2 ≤ ts.length)
    (hd : ∀ t ∈ ts, Ty.depth t < 64) (hda : Ty.depth (.app ao as) < 64)
    (hwa : wfTy L (.app ao as) = true) (hwt : ∀ t ∈ ts, wfTy L t = true)
    (hr : ∀ v ∈ r.vars, v = 0) (hN : fuelFor r ts (.app ao as) ≤ N)
    (hu : ts.filter (fun t => sub L (.app ao as) t) = [t]) :
    ∃ σ' res, runAll L N fixFlag (elimSchema r ts) [(Ty.app ao as).toTerm] = .ok (σ', res) ∧
      (getVar σ' 0).bound = some (Ty.app ao as).toTerm ∧
      getConstr σ' 0 = .elim (Ty.app ao as).toTerm [t.toTerm] true ∧
      getCset σ' (getVar σ' 0).cset = [] ∧
      t ∈ ts ∧ Sub L (.app ao as) t ∧
      Res σ' res (r.inst (fun _ => .app ao as)) := by
  have hmem : t ∈ ts.filter (fun t => sub L (.app ao as) t) := by rw [hu]; exact List.mem_cons_self
  obtain ⟨h1, h3⟩ := List.mem_filter.mp hmem
  refine ⟨σC1 (.app ao as) t, _, ?_, rfl, rfl, rfl, h1, (sub_iff_Sub wf hwa (hwt t h1)).mp h3,
    res_result (inert_σC1 _ t) rfl r hr (fixFlag && !isFunT r)⟩
  rw [runAll_compound L wf N r ts ao as fixFlag h0 ha h2 hd hda hN, hu]
  rfl

theorem several_fit {L : Lang} (wf : WF L) (N : Nat) (r : Term) (ts : List Ty) (ao : Nat) (as : List Ty)
    (fixFlag : Bool) (t1 t2 : Ty) (rest : List Ty) (h0 : arityOf L ao ≠ 0) (ha : antichain L ts = true) (h2 : 2 ≤ ts.length)
    (hd : ∀ t ∈ ts, Ty.depth t < 64) (hda : Ty.depth (.app ao as) < 64)
    (hwa : wfTy L (.app ao as) = true) (hwt : ∀ t ∈ ts, wfTy L t = true)
    (hr : ∀ v ∈ r.vars, v = 0) (hN : fuelFor r ts (.app ao as) ≤ N)
    (hu : ts.filter (fun t => sub L (.app ao as) t) = t1 :: t2 :: rest) :
    ∃ σ' res, runAll L N fixFlag (elimSchema r ts) [(Ty.app ao as).toTerm] = .ok (σ', res) ∧
      (getVar σ' 0).bound = some (Ty.app ao as).toTerm ∧
      getConstr σ' 0 = .elim (Ty.app ao as).toTerm (Ty.toTermL (t1 :: t2 :: rest)) false ∧
      getCset σ' (getVar σ' 0).cset = [0] ∧
      (∀ t, t ∈ t1 :: t2 :: rest ↔ t ∈ ts ∧ Fits L (.app ao as) t.toTerm) ∧
      Res σ' res (r.inst (fun _ => .app ao as)) := by
  refine ⟨σCk (.app ao as) (t1 :: t2 :: rest), _, ?_, rfl, rfl, rfl, ?_,
    res_result (inert_σCk _ _) rfl r hr (fixFlag && !isFunT r)⟩
  · rw [runAll_compound L wf N r ts ao as fixFlag h0 ha h2 hd hda hN, hu]
    rfl
  · intro t
    rw [← hu, List.mem_filter]
    constructor
    · rintro ⟨h1, h3⟩; exact ⟨h1, (fits_toTerm_iff wf hwa (hwt t h1)).mpr h3⟩
    · rintro ⟨h1, h3⟩; exact ⟨h1, (fits_toTerm_iff wf hwa (hwt t h1)).mp h3⟩

end Tfv.C06A
