import Scratch.Exp
open Tfv

def L1 : Lang := builtinDecls ++ [⟨"A", [], none⟩, ⟨"B", [], some 5⟩, ⟨"F", [true], none⟩, ⟨"C", [], none⟩, ⟨"D", [], some 6⟩, ⟨"N", [false], none⟩]
def TOPt : Term := .app TOP []
def BOTt : Term := .app BOT []
def Nn (t : Term) : Term := .app 10 [t]

def staleElim (σ : Store) : Bool :=
  σ.constrs.any fun c => match c with
    | .elim _ alts true => alts.length != 1
    | _ => false

def elimStrict (L : Lang) (σ : Store) : List String :=
  (List.range σ.constrs.length).filterMap fun c =>
    match getConstr σ c with
    | .elim r alts false =>
      match resT σ 50 r, resTL σ 50 alts with
      | some a, some bs => if bs.all (fun b => sub L a b) then none else some s!"ELIM-UNFUL-NOTALL {c}"
      | _, _ => none
    | _ => none

def search (tag : String) (cs : List (List CAst)) (nv : Nat) (bs : List Term) (args : List (List Term)) : IO Unit := do
  let mut cnt := 0
  let mut okc := 0
  let mut stale := 0
  for c in cs do
    for b in bs do
      for xs in args do
          cnt := cnt + 1
          let s : Schema := ⟨nv, 0, b, c⟩
          match run L1 s xs with
          | .ok (σ, _) =>
            okc := okc + 1
            if staleElim σ then stale := stale + 1
            let v := checkFinal L1 σ ++ checkInv σ ++ elimStrict L1 σ
            if !v.isEmpty then
              IO.println s!"VIOLATION {repr s} args {repr xs} : {v} : {repr σ}"
          | .error (.internal m) => IO.println s!"INTERNAL {m} {repr s} args {repr xs}"
          | .error .outOfFuel => IO.println s!"FUEL {repr s} args {repr xs}"
          | .error _ => pure ()
  IO.println s!"{tag} done {cnt} ok {okc} stale {stale}"

def v0 : Term := .var 0
def v1 : Term := .var 1
def v2 : Term := .var 2
def poolA : List Term := [v0, v1, v2, A, B, D, C, TOPt, F v1, F v2, F A, F B, Nn v1, Nn A]
def refs : List Term := [v0, F v0, F v1, Nn v0]
def elims : List CAst :=
  refs.flatMap fun r => poolA.flatMap fun a1 => poolA.flatMap fun a2 =>
    (CAst.elim r [a1, a2]) :: ([v1, v2, A, TOPt, F v2].map fun a3 => CAst.elim r [a1, a2, a3])
def perm3 : List (List Term) := [[v0,v1,v2],[v0,v2,v1],[v1,v0,v2],[v1,v2,v0],[v2,v0,v1],[v2,v1,v0]]
def bodies3 : List Term :=
  perm3.map (fun p => match p with | [a,b,c] => fn a (fn b (fn c v0)) | _ => v0) ++
  [fn (F v1) (fn v2 (fn v0 v0)), fn v2 (fn (F v1) (fn v0 v1)), fn (Nn v1) (fn v0 (fn v2 v0)), fn v1 (fn v1 (fn v0 v2))]
def argP : List Term := [A, B, D, C, TOPt, BOTt, F A, F B, F TOPt, Nn A, Nn B]
def args3 : List (List Term) := argP.flatMap fun a => argP.flatMap fun b => argP.map fun c => [a, b, c]

def smallP : List Term := [v0, v1, v2, A, B, TOPt, F v1]
def elimsS : List CAst :=
  [v0, v1, F v0].flatMap fun r => smallP.flatMap fun a1 => smallP.map fun a2 => CAst.elim r [a1, a2]
def argS : List Term := [A, B, C, TOPt, F A, F B]
def args3S : List (List Term) := argS.flatMap fun a => argS.flatMap fun b => argS.map fun c => [a, b, c]

def main (a : List String) : IO Unit := do
  match a with
  | ["e3b", k] =>
    let k := k.toNat!
    let part := (elims.zipIdx.filter (fun p => p.2 % 8 == k)).map (·.1)
    search s!"e3b-{k}" (part.map (fun c => [c])) 3 bodies3 args3
  | ["ee3", k] =>
    let k := k.toNat!
    let part := (elimsS.zipIdx.filter (fun p => p.2 % 4 == k)).map (·.1)
    search s!"ee3-{k}" (part.flatMap (fun c => elimsS.map fun d => [c, d])) 3 bodies3 args3S
  | _ => pure ()
