import Tfv.Spec.WorkflowInline
import Tfv.Proofs.WorkflowLink
/-!
# `addExpr` and tags: a tag that has a node hides its body; the inlined expression of a resource
-/
namespace Tfv

theorem tlook_eq (T : List (Nat × TExpr)) (k : Nat) : tlook T k = alook T k := rfl

/-- the tags in `R` have nodes in `g` -/
def Reg (R : Nat → Prop) (g : GState) : Prop := ∀ k, R k → ∃ n, alook g.sharedNodes k = some n

theorem Reg.of_ext {R : Nat → Prop} {g g' : GState} (h : Reg R g) (he : ∃ l, g'.sharedNodes = g.sharedNodes ++ l) :
    Reg R g' := by
  intro k hk
  obtain ⟨n, hn⟩ := h k hk
  obtain ⟨l, hl⟩ := he
  exact ⟨n, by rw [hl]; exact alook_append_some hn⟩

theorem Reg.of_eq {R : Nat → Prop} {g g' : GState} (h : Reg R g) (he : g'.sharedNodes = g.sharedNodes) : Reg R g' :=
  h.of_ext ⟨[], by rw [he]; simp⟩

theorem CutEq.refl (R : Nat → Prop) : ∀ e : TExpr, CutEq R e e := by
  intro e
  induction e with
  | src i l t => exact ⟨rfl, rfl, rfl⟩
  | op n t => exact ⟨rfl, rfl⟩
  | app f x t ihf ihx => exact ⟨ihf, ihx, rfl⟩
  | shared k e ih => exact ⟨rfl, .inr ih⟩

/-- **A tag that has a node hides its body**: `addExpr` gives the same result (graph and node, or error) on two
expressions that differ only below tags that are registered in the graph. -/
theorem addExpr_cutEq (G : GLang) (c : GCfg) (root : Node) (origin : Option Node) (R : Nat → Prop) :
    ∀ (e e' : TExpr), CutEq R e e' → ∀ (g : GState) (cur : Option Nat) (inter : Bool), Reg R g →
      addExpr G c root origin g e cur inter = addExpr G c root origin g e' cur inter := by
  intro e
  induction e with
  | src i l t =>
    intro e' h g cur inter _
    cases e' with
    | src i' l' t' => obtain ⟨rfl, rfl, rfl⟩ := h; rfl
    | op _ _ => exact h.elim
    | app _ _ _ => exact h.elim
    | shared _ _ => exact h.elim
  | op n t =>
    intro e' h g cur inter _
    cases e' with
    | op n' t' => obtain ⟨rfl, rfl⟩ := h; rfl
    | src _ _ _ => exact h.elim
    | app _ _ _ => exact h.elim
    | shared _ _ => exact h.elim
  | app f x t ihf ihx =>
    intro e' h g cur inter hreg
    cases e' with
    | app f' x' t' =>
      obtain ⟨hf, hx, hty⟩ := h
      rw [addExpr_app, addExpr_app, ← ihf f' hf _ _ _ (hreg.of_eq (curOrFresh_sharedNodes g cur))]
      cases hfr : addExpr G c root origin (curOrFresh g cur).1 f (some (curOrFresh g cur).2) inter with
      | error err => rfl
      | ok p =>
        obtain ⟨g1, fnode⟩ := p
        have s1 := addExpr_step G c root origin f _ _ _ g1 fnode hfr
        have hreg1 : Reg R g1 := (hreg.of_eq (curOrFresh_sharedNodes g cur)).of_ext s1.sharedNodes_ext
        have hreg2 : Reg R (appPre g1.fresh.1 fnode x.ty.isFunction).1 :=
          hreg1.of_eq (by rw [appPre_sharedNodes]; rfl)
        simp only []
        rw [← hty, ← ihx x' hx _ _ _ hreg2]
    | src _ _ _ => exact h.elim
    | op _ _ => exact h.elim
    | shared _ _ => exact h.elim
  | shared k e ih =>
    intro e' h g cur inter hreg
    cases e' with
    | shared k' e1 =>
      obtain ⟨rfl, h⟩ := h
      rcases h with hk | h
      · obtain ⟨n, hn⟩ := hreg k hk
        rw [addExpr_shared_hit G c root origin g k e cur inter n hn,
          addExpr_shared_hit G c root origin g k e1 cur inter n hn]
      · rw [addExpr_shared, addExpr_shared, ih e1 h g cur inter hreg]
    | src _ _ _ => exact h.elim
    | op _ _ => exact h.elim
    | app _ _ _ => exact h.elim

/-! ## the inlined expression of an entry cannot be told apart from the entry -/

theorem inlineE_zero (T : List (Nat × TExpr)) (e : TExpr) : inlineE T 0 e = e := by
  cases e <;> rfl

/-- the function-ness of an expression survives inlining, when the copies in the table are coherent -/
theorem inlineE_isFunction (T : List (Nat × TExpr)) (hT : TyCoh T) :
    ∀ (n : Nat) (e : TExpr), (∀ x ∈ e.tagged, ∃ e', tlook T x.1 = some e' ∧ e'.ty.isFunction = x.2.ty.isFunction) →
      (inlineE T n e).ty.isFunction = e.ty.isFunction := by
  intro n
  induction n with
  | zero => intro e _; rw [inlineE_zero]
  | succ n ih =>
    intro e he
    cases e with
    | src i l t => rfl
    | op m t => rfl
    | app f x t => rfl
    | shared k e0 =>
      show (inlineE T n (entryBody T k e0)).ty.isFunction = e0.ty.isFunction
      obtain ⟨e', hl, hty⟩ := he (k, e0) List.mem_cons_self
      unfold entryBody
      rw [hl]
      cases e' with
      | shared k2 e2 =>
        simp only []
        rw [ih e2 (fun x hx => hT (k, .shared k2 e2) (alook_some_mem hl) x (List.mem_cons_of_mem _ hx))]
        exact hty
      | src i l t =>
        simp only []
        exact ih e0 (fun x hx => he x (List.mem_cons_of_mem _ hx))
      | op m t =>
        simp only []
        exact ih e0 (fun x hx => he x (List.mem_cons_of_mem _ hx))
      | app f x t =>
        simp only []
        exact ih e0 (fun x hx => he x (List.mem_cons_of_mem _ hx))

/-- an expression all of whose tags are in `R` is `CutEq` to its inlined form -/
theorem cutEq_inlineE (T : List (Nat × TExpr)) (hT : TyCoh T) (R : Nat → Prop) :
    ∀ (n : Nat) (e : TExpr), (∀ k ∈ e.sharedKeys, R k) →
      (∀ x ∈ e.tagged, ∃ e', tlook T x.1 = some e' ∧ e'.ty.isFunction = x.2.ty.isFunction) →
      CutEq R e (inlineE T n e) := by
  intro n
  induction n with
  | zero => intro e _ _; rw [inlineE_zero]; exact CutEq.refl R e
  | succ n ih =>
    intro e hk he
    cases e with
    | src i l t => exact ⟨rfl, rfl, rfl⟩
    | op m t => exact ⟨rfl, rfl⟩
    | app f x t =>
      have hf := ih f (fun k hk' => hk k (List.mem_append_left _ hk')) (fun y hy => he y (List.mem_append_left _ hy))
      have hx := ih x (fun k hk' => hk k (List.mem_append_right _ hk')) (fun y hy => he y (List.mem_append_right _ hy))
      exact ⟨hf, hx, (inlineE_isFunction T hT n x (fun y hy => he y (List.mem_append_right _ hy))).symm⟩
    | shared k e0 => exact ⟨rfl, .inl (hk k List.mem_cons_self)⟩

theorem tyCohB_iff (T : List (Nat × TExpr)) : tyCohB T = true ↔ TyCoh T := by
  unfold tyCohB TyCoh
  rw [List.all_eq_true]
  constructor
  · intro h p hp x hx
    have := h p hp
    rw [List.all_eq_true] at this
    have h2 := this x hx
    split at h2
    · rename_i e' he'
      exact ⟨e', he', by simpa using h2⟩
    · cases h2
  · intro h p hp
    rw [List.all_eq_true]
    intro x hx
    obtain ⟨e', he', hty⟩ := h p hp x hx
    rw [he']
    simpa using hty

/-! ## `wfNode`: when a tool's expression is added, every tagged expression inside it has its node -/

section
variable (G : GLang) (c : GCfg) (w : Wf) (tgt : Nat) (T : List (Nat × TExpr))

/-- what a successful `wfNode` call on a resource does: nothing when the resource has a node; otherwise the nodes of
the tool's inputs are made first, and then one `addExpr` call adds the resource's expression `e` — at that moment
every tag inside `e` other than the resource's own has a node -/
structure VisitShape (fuel : Nat) (n : Nat) (g : GState) (r : Nat) (g' : GState) (k : Nat) : Prop where
  entry : ∃ e, alook T r = some e ∧
    ((nodeOf g e = some k ∧ g' = g) ∨
     (nodeOf g e = none ∧ ∃ g1, wfNodeInputs G c w wfRoot T n g r = .ok g1 ∧
        (∀ e0, e = TExpr.shared r e0 → ∀ j ∈ e0.sharedKeys, ∃ m, alook g1.sharedNodes j = some m) ∧
        addExpr G c wfRoot (some (.res (w.resName r))) g1 e none false = .ok (g', k) ∧
        addExpr G c wfRoot (some (.res (w.resName r))) g1 (inlineE T fuel e) none false = .ok (g', k)))

theorem alook_of_key {l : List (Nat × Nat)} {j : Nat} (h : j ∈ l.map (·.1)) : ∃ m, alook l j = some m :=
  alook_isSome_of_key h

theorem wfNode_shape (hT : RunTable w tgt T) (hc : TyCoh T) (fuel : Nat) (n : Nat) (g : GState) (r : Nat) (g' : GState)
    (k : Nat) (hg : GInv w T g) (h : wfNode G c w wfRoot T (n+1) g r = .ok (g', k)) :
    VisitShape G c w T fuel n g r g' k := by
  rw [wfNode_succ] at h
  split at h
  · cases h
  · rename_i e he
    refine ⟨e, he, ?_⟩
    split at h
    · rename_i k' hk'
      simp only [Except.ok.injEq, Prod.mk.injEq] at h
      obtain ⟨rfl, rfl⟩ := h
      exact .inl ⟨hk', rfl⟩
    · rename_i hnone
      split at h
      · cases h
      · rename_i g1 hin
        obtain ⟨s1, inv1, vis1⟩ := wfNodeInputs_post G c w T n (wfNode_visit G c w tgt T hT n) g r g1 hin
        split at h
        · cases h
        · rename_i g2 node hx
          simp only [Except.ok.injEq, Prod.mk.injEq] at h
          obtain ⟨rfl, rfl⟩ := h
          have h1 := inv1 hg
          rcases hT.entry_shape he with hsrc | ⟨e0, rfl⟩
          · -- a source: `wfNodeInputs` does nothing
            obtain ⟨id, l, t, rfl⟩ := hsrc
            have hrs : r ∈ w.sources := hT.onlySrcs (r, _) (alook_some_mem he) ⟨id, l, t, rfl⟩
            have hg1 : g1 = g := by
              unfold wfNodeInputs at hin
              rw [if_pos (List.contains_iff_mem.2 hrs)] at hin
              cases hin; rfl
            subst hg1
            refine .inr ⟨hnone, g1, hin, (fun e0 h0 => by cases h0), hx, ?_⟩
            cases fuel <;> exact hx
          · have hns : r ∉ w.sources := hT.shared_not_source he
            have hmem : (r, TExpr.shared r e0) ∈ T := alook_some_mem he
            have hnest : ∀ j ∈ e0.sharedKeys, j ∈ g1.sharedNodes.map (·.1) := by
              intro j hj
              obtain ⟨a, i, ei, ha, hi, hei, hjei⟩ := hT.inv.struct r e0 hmem j hj
              obtain ⟨e', k', he', hk'⟩ := vis1 hns a ha i hi
              rw [hei] at he'
              cases he'
              rcases hT.entry_shape hei with hs | ⟨ei0, rfl⟩
              · rw [IsSrc.sharedKeys hs] at hjei; cases hjei
              · exact h1.nested i (alook_some_key hk') _ hei j hjei
            refine .inr ⟨hnone, g1, hin, ?_, hx, ?_⟩
            · intro e0' h0 j hj
              cases h0
              exact alook_of_key (hnest j hj)
            · rw [← hx]
              symm
              refine addExpr_cutEq G c wfRoot _ (fun j => j ∈ e0.sharedKeys) _ _ ?_ g1 none false
                (fun j hj => alook_of_key (hnest j hj))
              have hcoh : ∀ x ∈ e0.tagged, ∃ e', tlook T x.1 = some e' ∧ e'.ty.isFunction = x.2.ty.isFunction :=
                fun x hx' => hc _ hmem x (List.mem_cons_of_mem _ hx')
              cases fuel with
              | zero => rw [inlineE_zero]; exact CutEq.refl _ _
              | succ f =>
                show CutEq _ (TExpr.shared r e0) (TExpr.shared r (inlineE T f (entryBody T r e0)))
                have hb : entryBody T r e0 = e0 := by
                  unfold entryBody; rw [tlook_eq, he]
                rw [hb]
                exact ⟨rfl, .inr (cutEq_inlineE T hc _ f e0 (fun j hj => hj) hcoh)⟩
end

/-! ## flat expressions are their own inlined form -/

theorem inlineE_flat (T : List (Nat × TExpr)) : ∀ (n : Nat) (e : TExpr), e.sharedKeys = [] → inlineE T n e = e := by
  intro n
  induction n with
  | zero => intro e _; exact inlineE_zero T e
  | succ n ih =>
    intro e he
    cases e with
    | src i l t => rfl
    | op m t => rfl
    | app f x t =>
      have h2 : f.sharedKeys = [] ∧ x.sharedKeys = [] := List.append_eq_nil_iff.1 he
      show TExpr.app (inlineE T n f) (inlineE T n x) t = _
      rw [ih f h2.1, ih x h2.2]
    | shared k e0 => cases he

theorem inlineE_flat_entry (T : List (Nat × TExpr)) (r : Nat) (e0 : TExpr) (h : tlook T r = some (TExpr.shared r e0))
    (hf : e0.sharedKeys = []) (n : Nat) : inlineE T n (TExpr.shared r e0) = TExpr.shared r e0 := by
  cases n with
  | zero => exact inlineE_zero T _
  | succ n =>
    show TExpr.shared r (inlineE T n (entryBody T r e0)) = _
    have hb : entryBody T r e0 = e0 := by unfold entryBody; rw [h]
    rw [hb, inlineE_flat T n e0 hf]

end Tfv
