import Tfv.Proofs.WildReachExt
import Tfv.Proofs.WildReachFulfill
import Tfv.Proofs.InferConstrBind
/-!
# With at most one flagged variable, every mark the engine sets passed the STRICT matcher when it was set

`TX L σ σ'`: bindings kept (`Ext`), flags only cleared (`WildMono`), subtype records keep their terms, and every subtype
record marked in `σ'` was marked in `σ` or passed the strict matcher (fuel of that store) in an intermediate store `σm` that
`σ'` extends. Proved for every operation of the engine started in a store with at most one flagged variable (`WildLe1`),
by the induction on the fuel of `Tfv/Proofs/InferNoInternalEngine.lean`. No other precondition.
-/
namespace Tfv.C03X
open Tfv Tfv.C03P Tfv.C03C Tfv.C03R Tfv.C16P Tfv.C17E

def Marks (L : Lang) (σ σ' : Store) : Prop :=
  ∀ c r t s, getConstr σ' c = .sub r t s true →
    getConstr σ c = .sub r t s true ∨
    ∃ σm, Ext σm σ' ∧ match3 L (dewild σm) (matchFuel σm) true false r t = some true

structure TX (L : Lang) (σ σ' : Store) : Prop where
  ext : Ext σ σ'
  wild : WildMono σ σ'
  keep : ∀ c r t s f, getConstr σ c = .sub r t s f → ∃ f', getConstr σ' c = .sub r t s f'
  marks : Marks L σ σ'
  clen : σ'.constrs.length = σ.constrs.length

theorem TX.refl (L : Lang) (σ : Store) : TX L σ σ :=
  ⟨Ext.refl σ, WildMono.refl σ, fun _ _ _ _ f h => ⟨f, h⟩, fun _ _ _ _ h => Or.inl h, rfl⟩

theorem TX.trans {L : Lang} {a b c : Store} (h1 : TX L a b) (h2 : TX L b c) : TX L a c := by
  refine ⟨h1.ext.trans h2.ext, h1.wild.trans h2.wild, ?_, ?_, h2.clen.trans h1.clen⟩
  · intro d r t s f h
    obtain ⟨f1, e1⟩ := h1.keep d r t s f h
    exact h2.keep d r t s f1 e1
  · intro d r t s h
    rcases h2.marks d r t s h with h' | ⟨σm, e, m⟩
    · rcases h1.marks d r t s h' with h'' | ⟨σm, e, m⟩
      · exact Or.inl h''
      · exact Or.inr ⟨σm, e.trans h2.ext, m⟩
    · exact Or.inr ⟨σm, e, m⟩

theorem tx_of_constrs {L : Lang} {σ σ' : Store} (e : Ext σ σ') (w : WildMono σ σ') (hc : σ'.constrs = σ.constrs) :
    TX L σ σ' :=
  ⟨e, w, fun c r t s f h => ⟨f, by rw [getConstr_congr hc]; exact h⟩,
   fun c r t s h => Or.inl (by rw [← getConstr_congr hc]; exact h), by rw [hc]⟩

theorem wl_mono {σ σ' : Store} (hw : WildMono σ σ') (h : WildLe1 σ) : WildLe1 σ' :=
  fun u v hu hv => h u v (hw u hu) (hw v hv)

theorem TX.wl {L : Lang} {σ σ' : Store} (s : TX L σ σ') (h : WildLe1 σ) : WildLe1 σ' := wl_mono s.wild h

theorem wildMono_newVars : ∀ (n : Nat) (σ : Store), WildMono σ (newVars σ n).1
  | 0, σ => by unfold newVars; exact WildMono.refl σ
  | n+1, σ => by
    unfold newVars
    simp only []
    exact (wildMono_newVar σ).trans (wildMono_newVars n _)

theorem tx_newVars (L : Lang) (n : Nat) (σ : Store) : TX L σ (newVars σ n).1 :=
  tx_of_constrs (ext_newVars n σ) (wildMono_newVars n σ) (constrs_newVars n σ)

theorem tx_setVar {L : Lang} {σ : Store} {v : Nat} {i : VarInfo}
    (h : ∀ b, (getVar σ v).bound = some b → i.bound = some b)
    (hi : i.wildcard = true → (getVar σ v).wildcard = true) : TX L σ (setVar σ v i) :=
  tx_of_constrs (ext_setVar h) (wildMono_setVar hi) rfl

theorem tx_setCset (L : Lang) (σ : Store) (k : Nat) (cs : List Nat) : TX L σ (setCset σ k cs) :=
  tx_of_constrs (ext_setCset σ k cs) (wildMono_setCset σ k cs) rfl

theorem tx_bindBaseStore {L : Lang} {σ : Store} {v : Nat} (t : Term) (hv : (getVar σ v).bound = none) :
    TX L σ (bindBaseStore σ v t) :=
  tx_of_constrs (ext_bindBaseStore t hv) (wildMono_bindBaseStore σ v t) rfl

theorem tx_bindVarStore {L : Lang} {σ : Store} {v : Nat} (tv : Nat) (hv : (getVar σ v).bound = none) :
    TX L σ (bindVarStore σ v tv) :=
  tx_of_constrs (ext_bindVarStore tv hv) (wildMono_bindVarStore σ v tv) rfl

theorem tx_bindAppStore {L : Lang} {σ : Store} {v : Nat} (t : Term) (hv : (getVar σ v).bound = none) :
    TX L σ (bindAppStore σ v t) :=
  tx_of_constrs (ext_bindAppStore t hv) (wildMono_bindAppStore σ v t) (constrs_bindAppStore σ v t)

theorem tx_setConstr_elim {L : Lang} {σ : Store} {c : Nat} {r : Term} {a : List Term} {f : Bool}
    (r' : Term) (a' : List Term) (f' : Bool) (he : getConstr σ c = .elim r a f) :
    TX L σ (setConstr σ c (.elim r' a' f')) := by
  refine ⟨ext_setConstr _ _ _, wildMono_setConstr _ _ _, ?_, ?_, by unfold setConstr; simp⟩
  · intro d r0 t0 s0 f0 h
    by_cases hd : c = d
    · subst hd; rw [he] at h; cases h
    · exact ⟨f0, by rw [getConstr_setConstr_ne _ hd]; exact h⟩
  · intro d r0 t0 s0 h
    by_cases hd : c = d
    · subst hd
      by_cases hc : c < σ.constrs.length
      · rw [getConstr_setConstr_eq _ hc] at h; cases h
      · rw [setConstr_oor _ hc] at h; exact Or.inl h
    · rw [getConstr_setConstr_ne _ hd] at h; exact Or.inl h

theorem tx_setConstr_mark {L : Lang} {σ : Store} {c : Nat} {r t : Term} {s f : Bool}
    (he : getConstr σ c = .sub r t s f)
    (hm : match3 L (dewild σ) (matchFuel σ) true false r t = some true) :
    TX L σ (setConstr σ c (.sub r t s true)) := by
  refine ⟨ext_setConstr _ _ _, wildMono_setConstr _ _ _, ?_, ?_, by unfold setConstr; simp⟩
  · intro d r0 t0 s0 f0 h
    by_cases hd : c = d
    · subst hd
      rw [he] at h
      injection h with h1 h2 h3 h4
      subst h1; subst h2; subst h3
      by_cases hc : c < σ.constrs.length
      · exact ⟨true, getConstr_setConstr_eq _ hc⟩
      · rw [setConstr_oor _ hc]; exact ⟨f, he⟩
    · exact ⟨f0, by rw [getConstr_setConstr_ne _ hd]; exact h⟩
  · intro d r0 t0 s0 h
    by_cases hd : c = d
    · subst hd
      by_cases hc : c < σ.constrs.length
      · rw [getConstr_setConstr_eq _ hc] at h
        injection h with h1 h2 h3
        subst h1; subst h2; subst h3
        exact Or.inr ⟨σ, ext_setConstr _ _ _, hm⟩
      · rw [setConstr_oor _ hc] at h; exact Or.inl h
    · rw [getConstr_setConstr_ne _ hd] at h; exact Or.inl h

/-! ## results -/

def TXR (L : Lang) (σ : Store) : R → Prop
  | .ok σ' => TX L σ σ'
  | .error _ => True

def TXP {α : Type} (L : Lang) (σ : Store) : Except Err (Store × α) → Prop
  | .ok (σ', _) => TX L σ σ'
  | .error _ => True

theorem txR_err {L : Lang} {σ : Store} {e : Err} : TXR L σ (.error e) := trivial
theorem txP_err {α : Type} {L : Lang} {σ : Store} {e : Err} : TXP (α := α) L σ (.error e) := trivial
theorem txR_refl (L : Lang) (σ : Store) : TXR L σ (.ok σ) := TX.refl L σ
theorem txP_refl {α : Type} (L : Lang) (σ : Store) (x : α) : TXP L σ (.ok (σ, x)) := TX.refl L σ

theorem TXR.trans {L : Lang} {σ σ1 : Store} {r : R} (s : TX L σ σ1) (h : TXR L σ1 r) : TXR L σ r := by
  cases r with
  | error e => trivial
  | ok σ2 => exact TX.trans s h

theorem TXP.trans {α : Type} {L : Lang} {σ σ1 : Store} {r : Except Err (Store × α)} (s : TX L σ σ1)
    (h : TXP L σ1 r) : TXP L σ r := by
  cases r with
  | error e => trivial
  | ok p => exact TX.trans s h

theorem TXP.step {α : Type} {L : Lang} {σ σ' : Store} {x : α} {r : Except Err (Store × α)} (h : TXP L σ r)
    (e : r = .ok (σ', x)) : TX L σ σ' := by
  rw [e] at h; exact h

theorem TXR.step {L : Lang} {σ σ' : Store} {r : R} (h : TXR L σ r) (e : r = .ok σ') : TX L σ σ' := by
  rw [e] at h; exact h

theorem txR_seq {L : Lang} {σ : Store} {r : R} {k : Store → R} : TXR L σ r →
    (∀ σ1, r = .ok σ1 → TX L σ σ1 → TXR L σ1 (k σ1)) →
    TXR L σ (match r with | .error e => .error e | .ok σ1 => k σ1) := by
  intro h hk
  cases r with
  | error e => trivial
  | ok σ1 => exact TXR.trans h (hk σ1 rfl h)

theorem txRP_seq {β : Type} {L : Lang} {σ : Store} {r : R} {k : Store → Except Err (Store × β)} :
    TXR L σ r → (∀ σ1, r = .ok σ1 → TX L σ σ1 → TXP L σ1 (k σ1)) →
    TXP L σ (match r with | .error e => .error e | .ok σ1 => k σ1) := by
  intro h hk
  cases r with
  | error e => trivial
  | ok σ1 => exact TXP.trans h (hk σ1 rfl h)

/-! ## the statements -/

def UnifyM (L : Lang) (n : Nat) : Prop := ∀ σ a b st sb sw, WildLe1 σ → TXR L σ (unify L n σ a b st sb sw)
def UnifyListM (L : Lang) (n : Nat) : Prop :=
  ∀ σ vs xs ys st sb sw, WildLe1 σ → TXR L σ (unifyList L n σ vs xs ys st sb sw)
def BindM (L : Lang) (n : Nat) : Prop := ∀ σ v t, WildLe1 σ → TXR L σ (bind L n σ v t)
def AboveM (L : Lang) (n : Nat) : Prop := ∀ σ v new, WildLe1 σ → TXR L σ (above L n σ v new)
def BelowM (L : Lang) (n : Nat) : Prop := ∀ σ v new, WildLe1 σ → TXR L σ (below L n σ v new)
def CheckM (L : Lang) (n : Nat) : Prop := ∀ σ v, WildLe1 σ → TXR L σ (checkConstraints L n σ v)
def CheckListM (L : Lang) (n : Nat) : Prop := ∀ σ v cs, WildLe1 σ → TXR L σ (checkList L n σ v cs)
def FulfillM (L : Lang) (n : Nat) : Prop := ∀ σ c, WildLe1 σ → TXP L σ (fulfill L n σ c)
def MinimizeM (L : Lang) (n : Nat) : Prop := ∀ σ c, WildLe1 σ → TXR L σ (minimize L n σ c)
def MinLoopM (L : Lang) (n : Nat) : Prop := ∀ σ alts mins, WildLe1 σ → TXP L σ (minLoop L n σ alts mins)
def FixM (L : Lang) (n : Nat) : Prop := ∀ σ t pl, WildLe1 σ → TXP L σ (fix L n σ t pl)
def FixListM (L : Lang) (n : Nat) : Prop := ∀ σ vs ps pl, WildLe1 σ → TXR L σ (fixList L n σ vs ps pl)

theorem unify_stepM {L : Lang} {n : Nat} (hunify : UnifyM L n) (hlist : UnifyListM L n) (hbind : BindM L n)
    (habove : AboveM L n) (hbelow : BelowM L n) : UnifyM L (n+1) := by
  intro σ a b st sb sw hw
  unfold unify
  split
  · split
    · exact hbind σ _ _ hw
    · exact txR_refl L σ
  · split
    · exact txR_refl L σ
    · split
      · split
        · exact txR_refl L σ
        · split
          · exact txR_err
          · split
            · exact txR_err
            · exact txR_refl L σ
      · split
        · exact hlist _ _ _ _ _ _ _ hw
        · exact txR_err
  · next av bo bs e1 e2 =>
    split
    · exact txR_refl L σ
    · split
      · exact txR_err
      · split
        · split
          · exact txR_refl L σ
          · split
            · exact hbelow σ av bo hw
            · exact hbind σ av _ hw
        · split
          · split
            next σ1 fresh hnv =>
            have s1 : TX L σ σ1 := by
              have := tx_newVars L bs.length σ; rw [hnv] at this; exact this
            refine TXR.trans s1 (txR_seq (hbind σ1 av _ (s1.wl hw)) ?_)
            intro σ2 _ s2
            exact hunify _ _ _ _ _ _ (s2.wl (s1.wl hw))
          · exact hbind σ av _ hw
  · next ao as bv e1 e2 =>
    split
    · exact txR_refl L σ
    · split
      · exact txR_err
      · split
        · split
          · exact txR_refl L σ
          · split
            · exact habove σ bv ao hw
            · exact hbind σ bv _ hw
        · split
          · split
            next σ1 fresh hnv =>
            have s1 : TX L σ σ1 := by
              have := tx_newVars L as.length σ; rw [hnv] at this; exact this
            refine TXR.trans s1 (txR_seq (hbind σ1 bv _ (s1.wl hw)) ?_)
            intro σ2 _ s2
            exact hunify _ _ _ _ _ _ (s2.wl (s1.wl hw))
          · exact hbind σ bv _ hw

theorem unifyList_stepM {L : Lang} {n : Nat} (hunify : UnifyM L n) (hlist : UnifyListM L n) :
    UnifyListM L (n+1) := by
  intro σ vs xs ys st sb sw hw
  unfold unifyList
  split
  · exact txR_err
  · next heq =>
    cases heq
    refine txR_seq ?_ ?_
    · split
      · exact hunify _ _ _ _ _ _ hw
      · exact hunify _ _ _ _ _ _ hw
    · intro σ1 _ s1
      exact hlist _ _ _ _ _ _ _ (s1.wl hw)
  · exact txR_refl L _

theorem bind_stepM {L : Lang} {n : Nat} (hunify : UnifyM L n) (hcheck : CheckM L n) : BindM L (n+1) := by
  intro σ v t hw
  cases t with
  | var tv =>
    rw [bind_var_eq]
    split
    · exact txR_err
    · next hns =>
      have hv : (getVar σ v).bound = none := by
        cases hb : (getVar σ v).bound with
        | none => rfl
        | some b => rw [hb] at hns; exact absurd rfl hns
      split
      · exact tx_setVar (fun _ hb => hb) (fun h => Bool.noConfusion h)
      · have sB : TX L σ (bindVarStore σ v tv) := tx_bindVarStore tv hv
        refine TXR.trans sB (txR_seq ?_ ?_)
        · split
          · exact hunify _ _ _ _ _ _ (sB.wl hw)
          · exact txR_refl L _
        · intro σ1 _ s1
          refine txR_seq ?_ ?_
          · split
            · exact hunify _ _ _ _ _ _ (s1.wl (sB.wl hw))
            · exact txR_refl L _
          · intro σ2 _ s2
            exact hcheck σ2 v (s2.wl (s1.wl (sB.wl hw)))
  | app o args =>
    rw [bind_app_eq]
    split
    · exact txR_err
    · next hns =>
      have hv : (getVar σ v).bound = none := by
        cases hb : (getVar σ v).bound with
        | none => rfl
        | some b => rw [hb] at hns; exact absurd rfl hns
      split
      · split
        · exact txR_err
        · split
          · exact txR_err
          · have sB : TX L σ (bindBaseStore σ v (.app o args)) := tx_bindBaseStore _ hv
            exact TXR.trans sB (hcheck _ v (sB.wl hw))
      · split
        · exact txR_err
        · have sB : TX L σ (bindAppStore σ v (.app o args)) := tx_bindAppStore _ hv
          exact TXR.trans sB (hcheck _ v (sB.wl hw))

theorem tx_chain {L : Lang} {σ0 σa : Store} {c1 c2 c3 c4 : Prop} [Decidable c1] [Decidable c2] [Decidable c3]
    [Decidable c4] {X : R} (ha : TX L σ0 σa) (hX : TXR L σ0 X) :
    TXR L σ0 (if c1 then .error .subtypeMismatch else if c2 then .error .subtypeMismatch
      else if c3 then .ok σa else if c4 then X else .error .subtypeMismatch) := by
  split
  · exact txR_err
  · split
    · exact txR_err
    · split
      · exact ha
      · split
        · exact hX
        · exact txR_err

theorem above_stepM {L : Lang} {n : Nat} (hbind : BindM L n) (hcheck : CheckM L n) : AboveM L (n+1) := by
  intro σ v new hw
  unfold above
  split
  · exact hbind σ v _ hw
  · simp only []
    split
    · exact txR_err
    · have sa : TX L σ (setVar σ v { (getVar σ v) with wildcard := false }) :=
        tx_setVar (fun _ hb => hb) (fun h => Bool.noConfusion h)
      have sm : TX L σ (setVar (setVar σ v { (getVar σ v) with wildcard := false }) v
          { bound := (getVar σ v).bound, lower := some new, upper := (getVar σ v).upper, wildcard := false,
            cset := (getVar σ v).cset }) := by
        refine sa.trans (tx_setVar ?_ (fun h => Bool.noConfusion h))
        intro b hb
        rw [getVar_setVar] at hb
        split at hb
        · exact hb
        · exact hb
      refine txR_seq (tx_chain sa (TXR.trans sm (hcheck _ v (sm.wl hw)))) ?_
      intro σr _ sr
      split
      · split
        · exact hbind σr v _ (sr.wl hw)
        · exact txR_refl L σr
      · exact txR_refl L σr

theorem below_stepM {L : Lang} {n : Nat} (hbind : BindM L n) (hcheck : CheckM L n) : BelowM L (n+1) := by
  intro σ v new hw
  unfold below
  split
  · exact hbind σ v _ hw
  · simp only []
    split
    · exact txR_err
    · have sa : TX L σ (setVar σ v { (getVar σ v) with wildcard := false }) :=
        tx_setVar (fun _ hb => hb) (fun h => Bool.noConfusion h)
      have sm : TX L σ (setVar (setVar σ v { (getVar σ v) with wildcard := false }) v
          { bound := (getVar σ v).bound, lower := (getVar σ v).lower, upper := some new, wildcard := false,
            cset := (getVar σ v).cset }) := by
        refine sa.trans (tx_setVar ?_ (fun h => Bool.noConfusion h))
        intro b hb
        rw [getVar_setVar] at hb
        split at hb
        · exact hb
        · exact hb
      refine txR_seq (tx_chain sa (TXR.trans sm (hcheck _ v (sm.wl hw)))) ?_
      intro σr _ sr
      split
      · split
        · exact hbind σr v _ (sr.wl hw)
        · exact txR_refl L σr
      · exact txR_refl L σr

theorem fix_stepM {L : Lang} {n : Nat} (hbind : BindM L n) (hlist : FixListM L n) : FixM L (n+1) := by
  intro σ t pl hw
  unfold fix
  split
  · refine txRP_seq (hlist σ _ _ pl hw) ?_
    intro σ1 _ _
    exact txP_refl L σ1 _
  · next v e1 =>
    simp only []
    refine txRP_seq ?_ ?_
    · split
      · split
        · exact hbind σ v _ hw
        · exact txR_refl L σ
      · split
        · split
          · exact hbind σ v _ hw
          · exact txR_refl L σ
        · exact txR_refl L σ
    · intro σ1 _ _
      exact txP_refl L σ1 _

theorem fixList_stepM {L : Lang} {n : Nat} (hfix : FixM L n) (hlist : FixListM L n) : FixListM L (n+1) := by
  intro σ vs ps pl hw
  unfold fixList
  split
  · exact txR_err
  · next heq =>
    cases heq
    split
    · exact txR_err
    · next σ1 x he =>
      have s1 := (hfix _ _ _ hw).step he
      exact TXR.trans s1 (hlist _ _ _ _ (s1.wl hw))
  · exact txR_refl L _

theorem check_stepM {L : Lang} {n : Nat} (hlist : CheckListM L n) : CheckM L (n+1) := by
  intro σ v hw
  unfold checkConstraints
  exact hlist σ v _ hw

theorem checkList_stepM {L : Lang} {n : Nat} (hful : FulfillM L n) (hlist : CheckListM L n) :
    CheckListM L (n+1) := by
  intro σ v cs hw
  cases cs with
  | nil => unfold checkList; exact txR_refl L σ
  | cons c cs =>
    unfold checkList
    split
    · exact txR_err
    · next σ1 done he =>
      have s1 := (hful σ c hw).step he
      refine TXR.trans s1 ?_
      simp only []
      split
      · have s2 := tx_setCset L σ1 (getVar σ1 v).cset ((getCset σ1 (getVar σ1 v).cset).filter (· != c))
        exact TXR.trans s2 (hlist _ v cs (s2.wl (s1.wl hw)))
      · exact hlist σ1 v cs (s1.wl hw)

theorem minimize_stepM {L : Lang} {n : Nat} (hloop : MinLoopM L n) : MinimizeM L (n+1) := by
  intro σ c hw
  unfold minimize
  split
  · next ref alts f0 e0 =>
    have hl := hloop σ alts [] hw
    split
    · exact txR_err
    · next σ1 minimized he =>
      rw [he] at hl
      have s1 : TX L σ σ1 := hl
      split
      · next r1 a1 ful e1 => exact s1.trans (tx_setConstr_elim _ _ _ e1)
      · exact s1
  · exact txR_refl L σ

theorem minLoop_stepM {L : Lang} {n : Nat} (hfix : FixM L n) (hloop : MinLoopM L n) : MinLoopM L (n+1) := by
  intro σ alts mins hw
  cases alts with
  | nil => unfold minLoop; exact txP_refl L σ _
  | cons obj rest =>
    unfold minLoop
    simp only []
    split
    · split
      · exact txP_err
      · next σ1 t he =>
        have s1 := (hfix _ _ _ hw).step he
        exact TXP.trans s1 (hloop _ _ _ (s1.wl hw))
    · exact hloop _ _ _ hw

theorem fulfill_stepM {L : Lang} {n : Nat} (hunify : UnifyM L n) (hmin : MinimizeM L n) : FulfillM L (n+1) := by
  intro σ c hw
  unfold fulfill
  split
  · next ref tgt s0 f0 e0 =>
    refine txRP_seq (hunify σ _ _ true true false hw) ?_
    intro σ1 _ s1
    split
    · next hm =>
      split
      · next r t s f e1 =>
        obtain ⟨f', e1'⟩ := s1.keep c ref tgt s0 f0 e0
        rw [e1] at e1'
        injection e1' with h1 h2 h3 h4
        subst h1; subst h2; subst h3
        exact tx_setConstr_mark e1 (match3_engine_imp_strict L σ1 true (s1.wl hw) _ _ _ hm)
      · exact txP_refl L σ1 _
    · exact txP_err
    · split
      · exact txP_refl L σ1 _
      · exact txP_refl L σ1 _
  · exact txP_refl L σ _
  · refine txRP_seq (hmin σ c hw) ?_
    intro σ1 _ s1
    split
    · next ref alts ful e1' =>
      extract_lets normalized alts' σ2
      split
      · exact txP_err
      · have s2 : TX L σ1 σ2 := tx_setConstr_elim _ _ _ e1'
        have s2' : TX L σ1 (setConstr σ1 c (Constr.elim ref alts' ful)) := tx_setConstr_elim _ _ _ e1'
        clear_value σ2 alts'
        split
        · exact txP_err
        · refine TXP.trans s2 (txRP_seq (hunify _ _ _ _ _ _ (s2.wl (s1.wl hw))) ?_)
          intro σ3 _ _
          exact txP_refl L σ3 _
        · exact s2'
    · exact txP_err

theorem all_marks (L : Lang) : ∀ n,
    UnifyM L n ∧ UnifyListM L n ∧ BindM L n ∧ AboveM L n ∧ BelowM L n ∧ FixM L n ∧ FixListM L n ∧
    CheckM L n ∧ CheckListM L n ∧ FulfillM L n ∧ MinimizeM L n ∧ MinLoopM L n
  | 0 => by
    refine ⟨?_, ?_, ?_, ?_, ?_, ?_, ?_, ?_, ?_, ?_, ?_, ?_⟩
    · intro σ a b st sb sw _; unfold unify; exact txR_err
    · intro σ vs xs ys st sb sw _; unfold unifyList; exact txR_err
    · intro σ v t _; unfold bind; exact txR_err
    · intro σ v new _; unfold above; exact txR_err
    · intro σ v new _; unfold below; exact txR_err
    · intro σ t pl _; unfold fix; exact txP_err
    · intro σ vs ps pl _; unfold fixList; exact txR_err
    · intro σ v _; unfold checkConstraints; exact txR_err
    · intro σ v cs _; unfold checkList; exact txR_err
    · intro σ c _; unfold fulfill; exact txP_err
    · intro σ c _; unfold minimize; exact txR_err
    · intro σ alts mins _; unfold minLoop; exact txP_err
  | n+1 => by
    obtain ⟨h1, h2, h3, h4, h5, h6, h7, h8, h9, h10, h11, h12⟩ := all_marks L n
    exact ⟨unify_stepM h1 h2 h3 h4 h5, unifyList_stepM h1 h2, bind_stepM h1 h8,
      above_stepM h3 h8, below_stepM h3 h8, fix_stepM h3 h7, fixList_stepM h6 h7,
      check_stepM h9, checkList_stepM h10 h9, fulfill_stepM h1 h11, minimize_stepM h12,
      minLoop_stepM h6 h12⟩

end Tfv.C03X
