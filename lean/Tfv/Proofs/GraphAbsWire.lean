import Tfv.Proofs.GraphAbsCore
/-!
# C08 on expanded composite operators, part 3: the wiring of an abstraction in argument position

`wireP` is `wire` (Proofs/FlowCore.lean) without its first step, the edge from the argument's node to the internal
node: the node of the body of an abstraction is not fed by the internal node (its parameters already are that node).
-/
namespace Tfv.C08P
open Tfv

/-- everything `add_expr` does for an application after the argument has been added (and, for a passed
operation, fed), on the edge-only core -/
def wireP (k : Core) (fnode xnode : Nat) (ci : Option Nat) : Core :=
  let repeated := (objectsOf k.frm fnode).contains xnode
  let k := k.from fnode xnode
  let k := match ci with
    | some i => (intsOf k.ints xnode).foldl (fun k j => k.from j i) k
    | none => k
  let k := (intsOf k.ints fnode).foldl (fun k j => if some j != ci then k.from j xnode else k) k
  match ci with
  | some i => (objectsOf k.frm fnode).eraseDups.foldl (fun k fin => if xnode != fin || repeated then k.from i fin else k) k
  | none => k

theorem wire_eq_wireP (k : Core) (fnode xnode : Nat) (ci : Option Nat) :
    wire k fnode xnode ci =
      wireP (match ci with | some i => k.from xnode i | none => k) fnode xnode ci := by
  cases ci <;> rfl

theorem coreOf_wirePostG (c : GCfg) (origin : Option Node) (g : GState) (cur fnode xnode : Nat) (ci : Option Nat) :
    coreOf (wirePostG c origin g cur fnode xnode ci) = wireP (coreOf g) fnode xnode ci := by
  cases ci with
  | none =>
    simp only [wirePostG, wireP]
    show coreOf (originG c origin _ cur) = _
    rw [coreOf_originG, coreOf_foldl_from c (fun j => some j != none) (fun j => j) (fun _ => xnode)]
    simp only [ints_coreOf, coreOf_gAddFrom]; rfl
  | some i =>
    simp only [wirePostG, wireP]
    show coreOf (originG c origin (originG c origin _ i) cur) = _
    rw [coreOf_originG, coreOf_originG]
    rw [frm_coreOf g]
    generalize (objectsOf (coreOf g).frm fnode).contains xnode = rep
    rw [coreOf_foldl_from c (fun fin => xnode != fin || rep) (fun _ => i) (fun fin => fin)]
    rw [coreOf_foldl_from c (fun j => some j != some i) (fun j => j) (fun _ => xnode)]
    rw [coreOf_foldl_from' c (fun j => j) (fun _ => i)]
    simp only [ints_coreOf, frm_coreOf, coreOf_gAddFrom]
    rw [coreOf_foldl_from c (fun j => some j != some i) (fun j => j) (fun _ => xnode)]
    rw [coreOf_foldl_from' c (fun j => j) (fun _ => i)]
    simp only [coreOf_gAddFrom]
    rfl

theorem wireP_frame (k : Core) (fnode xnode i : Nat) :
    (wireP k fnode xnode (some i)).nextB = k.nextB ∧ (wireP k fnode xnode (some i)).src = k.src ∧
    (wireP k fnode xnode (some i)).shared = k.shared ∧ (wireP k fnode xnode (some i)).ints = k.ints := by
  simp only [wireP]
  have h1 := foldl_from_frame' (fun j => j) (fun _ => i) (intsOf (k.from fnode xnode).ints xnode) (k.from fnode xnode)
  generalize List.foldl (fun k j => k.from j i) (k.from fnode xnode) (intsOf (k.from fnode xnode).ints xnode) = k1 at h1
  have h2 := foldl_from_frame (fun j => some j != some i) (fun j => j) (fun _ => xnode) (intsOf k1.ints fnode) k1
  generalize List.foldl (fun k j => if (some j != some i) = true then k.from j xnode else k) k1 (intsOf k1.ints fnode) = k2 at h2
  generalize (objectsOf k.frm fnode).contains xnode = rep
  have h3 := foldl_from_frame (fun fin => xnode != fin || rep) (fun _ => i) (fun fin => fin)
    (objectsOf k2.frm fnode).eraseDups k2
  simp only [Core.from] at h1
  simp only [] at h2 h3
  obtain ⟨a1, b1, c1, d1⟩ := h1
  obtain ⟨a2, b2, c2, d2⟩ := h2
  obtain ⟨a3, b3, c3, d3⟩ := h3
  exact ⟨by rw [a3, a2, a1], by rw [b3, b2, b1], by rw [c3, c2, c1], by rw [d3, d2, d1]⟩

/-- `repeated` of the model: the argument's node was an input of the step already -/
theorem repeatedP_iff (k : Core) (n x : Nat) : (objectsOf k.frm n).contains x = true ↔ (n, x) ∈ k.frm := by
  rw [List.contains_iff_mem, mem_objectsOf]

/-- The wiring of an abstraction in argument position: the step `n` takes the body's node `x`; the internal
nodes attached to `x` take the internal node `i`; the other internal nodes of `n` take `x`; and `i` takes every
input that `n` had before. There is no edge from `x` to `i`. -/
theorem wireP_some_mem_all (k : Core) (n x i : Nat) (p : Nat × Nat)
    (hnx : n ≠ x) (hnn : (n, n) ∉ k.ints) (hxn : (x, n) ∉ k.ints) :
    p ∈ (wireP k n x (some i)).frm ↔
      p ∈ k.frm ∨ p = (n, x) ∨ (∃ j, (x, j) ∈ k.ints ∧ p = (j, i)) ∨
      (∃ j, (n, j) ∈ k.ints ∧ j ≠ i ∧ p = (j, x)) ∨
      (∃ fin, (n, fin) ∈ k.frm ∧ p = (i, fin)) := by
  simp only [wireP]
  have hrep := repeatedP_iff k n x
  generalize (objectsOf k.frm n).contains x = rep at hrep
  rw [mem_foldl_from (fun fin => x != fin || rep) (fun _ => i) (fun fin => fin)]
  have hints : ∀ (K : Core), (List.foldl (fun k j => k.from j i) K (intsOf K.ints x)).ints = K.ints :=
    fun K => (foldl_from_frame' (fun j => j) (fun _ => i) _ K).2.2.2
  have hF : ∀ q, q ∈ (List.foldl (fun k j => if (some j != some i) = true then k.from j x else k)
      (List.foldl (fun k j => k.from j i) (k.from n x) (intsOf (k.from n x).ints x))
      (intsOf (List.foldl (fun k j => k.from j i) (k.from n x)
        (intsOf (k.from n x).ints x)).ints n)).frm ↔
      q ∈ k.frm ∨ q = (n, x) ∨ (∃ j, (x, j) ∈ k.ints ∧ q = (j, i)) ∨
      (∃ j, (n, j) ∈ k.ints ∧ j ≠ i ∧ q = (j, x)) := by
    intro q
    rw [mem_foldl_from (fun j => some j != some i) (fun j => j) (fun _ => x), hints,
      mem_foldl_from' (fun j => j) (fun _ => i)]
    simp only [Core.from, List.mem_cons, mem_intsOf]
    constructor
    · rintro (((h | h) | ⟨j, hj, h⟩) | ⟨j, hj, hji, h⟩)
      · exact Or.inr (Or.inl h)
      · exact Or.inl h
      · exact Or.inr (Or.inr (Or.inl ⟨j, hj, h⟩))
      · exact Or.inr (Or.inr (Or.inr ⟨j, hj, by simpa using hji, h⟩))
    · rintro (h | h | ⟨j, hj, h⟩ | ⟨j, hj, hji, h⟩)
      · exact Or.inl (Or.inl (Or.inr h))
      · exact Or.inl (Or.inl (Or.inl h))
      · exact Or.inl (Or.inr ⟨j, hj, h⟩)
      · exact Or.inr ⟨j, hj, by simpa using hji, h⟩
  rw [hF]
  constructor
  · rintro (h | ⟨fin, hfin, hc, h⟩)
    · rcases h with h | h | h | h
      · exact Or.inl h
      · exact Or.inr (Or.inl h)
      · exact Or.inr (Or.inr (Or.inl h))
      · exact Or.inr (Or.inr (Or.inr (Or.inl h)))
    · rw [List.mem_eraseDups, mem_objectsOf, hF] at hfin
      rcases hfin with h' | h' | ⟨j, hj, h'⟩ | ⟨j, hj, _, h'⟩
      · exact Or.inr (Or.inr (Or.inr (Or.inr ⟨fin, h', h⟩)))
      · have hfx : fin = x := (Prod.mk.inj h').2
        subst hfx
        have hr : rep = true := by simpa using hc
        exact Or.inr (Or.inr (Or.inr (Or.inr ⟨fin, hrep.1 hr, h⟩)))
      · have := (Prod.mk.inj h').1
        subst this
        exact absurd hj hxn
      · have := (Prod.mk.inj h').1
        subst this
        exact absurd hj hnn
  · rintro (h | h | h | h | ⟨fin, hfin, h⟩)
    · exact Or.inl (Or.inl h)
    · exact Or.inl (Or.inr (Or.inl h))
    · exact Or.inl (Or.inr (Or.inr (Or.inl h)))
    · exact Or.inl (Or.inr (Or.inr (Or.inr h)))
    · refine Or.inr ⟨fin, ?_, ?_, h⟩
      · rw [List.mem_eraseDups, mem_objectsOf, hF]
        exact Or.inl hfin
      · by_cases hfx : fin = x
        · subst hfx
          simp [hrep.2 hfin]
        · have : (x != fin) = true := by simpa using fun h' => hfx h'.symm
          simp [this]

/-- edges that the wiring of an abstraction adds in any case -/
theorem wireP_some_sub (k : Core) (n x i : Nat) (p : Nat × Nat)
    (h : p ∈ k.frm ∨ p = (n, x) ∨ ∃ j, (x, j) ∈ k.ints ∧ p = (j, i)) :
    p ∈ (wireP k n x (some i)).frm := by
  simp only [wireP]
  apply foldl_from_mono
  apply foldl_from_mono
  rw [mem_foldl_from' (fun j => j) (fun _ => i)]
  rcases h with h | h | ⟨j, hj, h⟩
  · exact Or.inl (List.mem_cons_of_mem _ h)
  · exact Or.inl (by rw [h]; exact List.mem_cons_self)
  · exact Or.inr ⟨j, (mem_intsOf _ _ _).2 hj, h⟩

/-- the internal node receives every input the step had before this argument -/
theorem wireP_some_inputs (k : Core) (n x i fin : Nat) (h : (n, fin) ∈ k.frm) :
    (i, fin) ∈ (wireP k n x (some i)).frm := by
  simp only [wireP]
  have hrep : fin = x → (objectsOf k.frm n).contains x = true := by
    intro hfx
    rw [repeatedP_iff]
    exact hfx ▸ h
  generalize (objectsOf k.frm n).contains x = rep at hrep
  rw [mem_foldl_from (fun fin => x != fin || rep) (fun _ => i) (fun fin => fin)]
  refine Or.inr ⟨fin, ?_, ?_, rfl⟩
  · rw [List.mem_eraseDups, mem_objectsOf]
    apply foldl_from_mono
    apply foldl_from_mono'
    exact List.mem_cons_of_mem _ h
  · by_cases hfx : fin = x
    · simp [hrep hfx]
    · have : (x != fin) = true := by simpa using fun h' => hfx h'.symm
      simp [this]

/-- every other internal node `j` of the step receives the body's node -/
theorem wireP_some_siblings (k : Core) (n x i j : Nat) (h : (n, j) ∈ k.ints) (hji : j ≠ i) :
    (j, x) ∈ (wireP k n x (some i)).frm := by
  simp only [wireP]
  apply foldl_from_mono
  rw [mem_foldl_from (fun j => some j != some i) (fun j => j) (fun _ => x)]
  refine Or.inr ⟨j, ?_, by simpa using hji, rfl⟩
  rw [(foldl_from_frame' (fun j => j) (fun _ => i) _ _).2.2.2]
  exact (mem_intsOf _ _ _).2 h

end Tfv.C08P
