import Tfv.Model.Infer
/-!
# M4 — tokenizer and the two stack-machine parsers (lang.py)

`tokenize` (lang.py:442-452), `Language.parse_type` (as repaired: operator
parameters are applied when their bracket closes; malformed input raises
`ParseError`), `Language.parse_expr` over an abstract expression builder.
Every place where the Python code could raise something other than its
declared errors is a branch returning `PErr.internal site`.
-/
namespace Tfv

/-! ## tokenizer -/

/-- `tokenize(string, specials)`: runs of ordinary characters join, each
special character is its own token, blanks separate and vanish -/
def tokenizeAux (specials blanks : List Char) : List Char → String → List String
  | [], cur => if cur.isEmpty then [] else [cur]
  | c :: cs, cur =>
    if blanks.contains c then
      (if cur.isEmpty then [] else [cur]) ++ tokenizeAux specials blanks cs ""
    else if specials.contains c then
      (if cur.isEmpty then [] else [cur]) ++ String.singleton c :: tokenizeAux specials blanks cs ""
    else tokenizeAux specials blanks cs (cur.push c)

def tokenize (specials blanks : String) (s : String) : List String :=
  tokenizeAux specials.toList blanks.toList s.toList ""

/-! ## type parser -/

/-- a parameterised or plain type alias: arity and body over parameters `var 0 … var (arity-1)` -/
structure AliasDecl where
  name : String
  arity : Nat
  body : Term
  deriving Repr, Inhabited

/-- what the parsers need to know of a `Language` -/
structure PLang where
  types : Lang
  aliases : List AliasDecl := []
  deriving Repr, Inhabited

inductive PErr where
  | parseError (msg : String)      -- ParseError
  | bracketMismatch                -- BracketMismatch
  | emptyParse                     -- EmptyParse
  | undefinedToken (tok : String)  -- UndefinedTokenError
  | missingInput (k : Nat)         -- MissingInputError
  | typeParameter                  -- TypeParameterError (a TypingError)
  | typeAnnotation                 -- TypeAnnotationError (a TypingError)
  | application (e : Err)          -- ApplicationError (caused by a TypingError)
  | typing (e : Err)               -- any other TypingError
  | internal (site : String)       -- AssertionError / IndexError / ValueError …: must never happen
  deriving Repr, Inhabited

/-- entries of `parse_type`'s stack -/
inductive TItem where
  | mark                      -- None
  | ty (t : Term)             -- a TypeInstance
  | op (o : Nat)              -- a TypeOperator of arity > 0
  | alias (k : Nat)           -- a TypeAlias of arity > 0
  deriving Repr, Inhabited

def TItem.isTy : TItem → Bool
  | .ty _ => true
  | _ => false

def TItem.isOp : TItem → Bool
  | .op _ => true
  | .alias _ => true
  | _ => false

mutual
def Term.substArgs (args : List Term) : Term → Term
  | .var v => args.getD v (.var v)
  | .app o as => .app o (Term.substArgsL args as)
def Term.substArgsL (args : List Term) : List Term → List Term
  | [] => []
  | t :: ts => Term.substArgs args t :: Term.substArgsL args ts
end

/-- `arg(*reversed(args))` for an operator or alias on the stack -/
def applyItem (P : PLang) (it : TItem) (args : List Term) : Except PErr Term :=
  match it with
  | .op o => if args.length == arityOf P.types o then .ok (.app o args) else .error .typeParameter
  | .alias k =>
    match P.aliases[k]? with
    | some a => if args.length == a.arity then .ok (a.body.substArgs args) else .error .typeParameter
    | none => .error (.internal "alias index")
  | _ => .error (.internal "applyItem on non-operator")

/-- the nested function `backtrack()`; the stack's head is its top -/
def backtrack (P : PLang) : List TItem → List Term → Except PErr (List TItem)
  | [], _ => .error .bracketMismatch
  | .mark :: rest, args =>
    match args with
    | [a] => .ok (.ty a :: rest)
    | _ => .error (.parseError "Could not parse type instance")
  | .ty t :: rest, args => backtrack P rest (args ++ [t])
  | it :: rest, args =>
    -- stack.append(arg(*reversed(args))); args = []  — then the loop pops it again
    match applyItem P it args.reverse with
    | .error e => .error e
    | .ok t => backtrack P rest [t]

/-- the nested function `apply_operator()` (fix: an operator's parameters are applied when its bracket closes) -/
def applyOperator (P : PLang) : List TItem → List Term → Except PErr (List TItem)
  | .ty t :: rest, args => applyOperator P rest (args ++ [t])
  | it :: rest, args =>
    if it.isOp then
      match applyItem P it args.reverse with
      | .error e => .error e
      | .ok t => .ok (.ty t :: rest)
    else .error (.parseError "Could not parse type instance")
  | [], _ => .error (.parseError "Could not parse type instance")

def resolveTypeToken (P : PLang) (tok : String) : Except PErr TItem :=
  if tok == "Top" then .ok (.ty (.app TOP []))
  else if tok == "Bottom" then .ok (.ty (.app BOT []))
  else
    match (P.types.drop 5).findIdx? (fun d => d.name == tok) with
    | some i =>
      let o := i + 5
      .ok (if arityOf P.types o == 0 then .ty (.app o []) else .op o)
    | none =>
      match P.aliases.findIdx? (fun a => a.name == tok) with
      | some k =>
        match P.aliases[k]? with
        | some a => .ok (if a.arity == 0 then .ty a.body else .alias k)
        | none => .error (.internal "alias index")
      | none => .error (.undefinedToken tok)

structure TState where
  stack : List TItem := [.mark]   -- head = top
  level : Int := 0
  calls : List Bool := []
  fresh : Nat := 0                -- number of `_` variables created so far
  comment : Bool := false         -- skipping a `# …` comment
  deriving Repr, Inhabited

/-- the second entry from the bottom of the stack (`stack[1]`) -/
def secondFromBottom (st : List TItem) : Option TItem := st.reverse[1]?

/-- one iteration of `parse_type`'s loop; `varBase` numbers the variables made for `_` -/
def typeStep (P : PLang) (varBase : Nat) (s : TState) (tok : String) : Except PErr TState :=
  if tok == "(" then
    match s.stack with
    | top :: _ => .ok { s with stack := .mark :: s.stack, level := s.level + 1, calls := top.isOp :: s.calls }
    | [] => .error (.internal "stack[-1] on empty stack")
  else if tok == ")" || tok == "," then
    match backtrack P s.stack [] with
    | .error e => .error e
    | .ok st =>
      if tok == ")" then
        match s.calls with
        | true :: cs =>
          (match applyOperator P st [] with
           | .error e => .error e
           | .ok st' => .ok { s with stack := st', level := s.level - 1, calls := cs })
        | false :: cs => .ok { s with stack := st, level := s.level - 1, calls := cs }
        | [] => .ok { s with stack := st, level := s.level - 1 }
      else .ok { s with stack := .mark :: st }
  else if tok == "_" then
    .ok { s with stack := .ty (.var (varBase + s.fresh)) :: s.stack, fresh := s.fresh + 1 }
  else if tok == "*" then
    match s.stack with
    | .ty t1 :: rest => .ok { s with stack := .ty t1 :: .op PROD :: rest }
    | _ :: _ => .error (.parseError "Product type without a left-hand side")
    | [] => .error (.internal "pop from empty stack")
  else
    match resolveTypeToken P tok with
    | .error e => .error e
    | .ok it => .ok { s with stack := it :: s.stack }

/-- the in-line early-exit rule (`consume_all` false) -/
def inlineDone (s : TState) : Except PErr Bool :=
  match secondFromBottom s.stack with
  | none => .error (.internal "stack[1] IndexError")
  | some it => .ok (it.isTy || (it.isOp && s.level == 0 && s.stack.length > 2))

def typeFinish (P : PLang) (s : TState) : Except PErr (Term × Nat) :=
  match backtrack P s.stack [] with
  | .error e => .error e
  | .ok [.ty t] => .ok (t, s.fresh)
  | .ok _ => .error (.parseError "Could not parse as type instance")

/-- `parse_type` on a token list. Returns the type, the number of `_` variables
created and the unconsumed tokens (in-line mode stops early). -/
def parseTypeLoop (P : PLang) (consumeAll : Bool) (varBase : Nat) : TState → List String → Except PErr (Term × Nat × List String)
  | s, [] =>
    match typeFinish P s with
    | .error e => .error e
    | .ok (t, k) => .ok (t, k, [])
  | s, tok :: rest =>
    -- fix: a line break inside a type is whitespace (`continue`)
    -- inside a comment: the inner `while` of the source consumes tokens up to and including the line break
    if s.comment then parseTypeLoop P consumeAll varBase { s with comment := tok != "\n" } rest else
    if tok == "\n" then parseTypeLoop P consumeAll varBase s rest else
    -- fix: a comment runs to the end of the line (only the expression tokenizer makes `#` a token)
    if tok == "#" then parseTypeLoop P consumeAll varBase { s with comment := true } rest else
    match typeStep P varBase s tok with
    | .error e => .error e
    | .ok s' =>
      if consumeAll then parseTypeLoop P consumeAll varBase s' rest
      else
        match inlineDone s' with
        | .error e => .error e
        | .ok true =>
          (match typeFinish P s' with
           | .error e => .error e
           | .ok (t, k) => .ok (t, k, rest))
        | .ok false => parseTypeLoop P consumeAll varBase s' rest

def parseTypeToks (P : PLang) (toks : List String) (varBase : Nat := 0) : Except PErr (Term × Nat) :=
  match parseTypeLoop P true varBase {} toks with
  | .error e => .error e
  | .ok (t, k, _) => .ok (t, k)

/-! ## expression parser over an abstract builder -/

/-- what `parse_expr` does with expressions, abstracted: `S` is the state the
builder threads (inference store, source counter), `E` the expressions -/
structure Builder (S E : Type) where
  mkSource : S → S × E                                 -- `Source()`
  mkOp : S → String → Except PErr (S × E)              -- `self.parse_operator(token).instance()`
  mkApp : S → E → E → Except PErr (S × E)              -- `Application(x, y, fix, unify)`
  /-- `: T` after `previous`; the flag says the previous token was `-` -/
  annotate : S → E → Term → Nat → Bool → Except PErr (S × E)
  /-- number of variables allocated so far (for the variables `_` creates in annotations) -/
  varBase : S → Nat

/-- `str.isdecimal()` and `int()` on the characters the model knows: ASCII digits
(the harness' alphabet table for other decimal digits is in `decimalValue`) -/
def decimalValue (c : Char) : Option Nat :=
  if '0' ≤ c ∧ c ≤ '9' then some (c.toNat - '0'.toNat)
  else if 0x0660 ≤ c.toNat ∧ c.toNat ≤ 0x0669 then some (c.toNat - 0x0660)   -- ARABIC-INDIC digits
  else if 0xFF10 ≤ c.toNat ∧ c.toNat ≤ 0xFF19 then some (c.toNat - 0xFF10)   -- FULLWIDTH digits
  else none

def parseDecimal (tok : String) : Option Nat :=
  if tok.isEmpty then none
  else tok.toList.foldl (fun acc c => match acc, decimalValue c with
    | some n, some d => some (10 * n + d)
    | _, _ => none) (some 0)

structure EState (S E : Type) where
  st : S
  stack : List (Option E) := [none]      -- head = top
  comment : Bool := false
  prevTok : String := ""

/-- `args_map[input - 1]` for a list (Python's negative index included) or a defaultdict -/
def lookupInput {E : Type} (inputs : List E) (k : Nat) : Option E :=
  if k == 0 then inputs.getLast? else inputs[k - 1]?

/-- `parse_expr`'s loop on a token list. `typeSpecialsAreTokens`: the type parser reads from the same token stream. -/
def parseExprLoop {S E : Type} (P : PLang) (B : Builder S E) (inputs : List E) (defaults : Bool) :
    Nat → EState S E → List String → Except PErr (EState S E)
  | 0, _, _ => .error (.internal "fuel")
  | _, s, [] => .ok s
  | n+1, s, tok :: rest =>
    -- layout and comments do not count as "the previous token" (repair of defect D31: `-` followed by a line break and `: T`)
    if tok == "#" then parseExprLoop P B inputs defaults n { s with comment := true } rest
    else if tok == "\n" then parseExprLoop P B inputs defaults n { s with comment := false } rest
    else if s.comment then parseExprLoop P B inputs defaults n s rest
    else if tok == "(" || tok == "," || tok == ")" then
      -- `if token in "),"`: pop y; if y: pop x; push App(x, y) if x else y
      let r : Except PErr (S × List (Option E)) :=
        if tok == ")" || tok == "," then
          match s.stack with
          | [] => .error .bracketMismatch
          | none :: rest' => .ok (s.st, rest')
          | some y :: rest' =>
            match rest' with
            | [] => .error .bracketMismatch
            | none :: rest'' => .ok (s.st, some y :: rest'')
            | some x :: rest'' =>
              match B.mkApp s.st x y with
              | .error e => .error e
              | .ok (st', e) => .ok (st', some e :: rest'')
        else .ok (s.st, s.stack)
      match r with
      | .error e => .error e
      | .ok (st', stack') =>
        let stack'' := if tok == "(" || tok == "," then none :: stack' else stack'
        parseExprLoop P B inputs defaults n { s with st := st', stack := stack'', prevTok := tok } rest
    else if tok == ":" then
      match s.stack with
      | some previous :: below =>
        -- t = self.parse_type(tokens): in-line mode, consumes from the same stream
        (match parseTypeLoop P false (B.varBase s.st) {} rest with
         | .error e => .error e
         | .ok (t, nfresh, rest') =>
           match B.annotate s.st previous t nfresh (s.prevTok == "-") with
           | .error e => .error e
           | .ok (st', previous') =>
             -- `previous_token = token` is executed at the end of the iteration: the last token seen is `:`
             parseExprLoop P B inputs defaults n { s with st := st', stack := some previous' :: below, prevTok := tok } rest')
      | none :: _ => .error (.parseError "Type annotation without an expression")
      | [] => .error .bracketMismatch
    else if tok == ";" then
      parseExprLoop P B inputs defaults n { s with stack := [none], prevTok := tok } rest
    else
      let cur : Except PErr (S × E) :=
        if tok == "-" then .ok (B.mkSource s.st)
        else match parseDecimal tok with
          | some k =>
            (match lookupInput inputs k with
             | some e => .ok (s.st, e)
             | none =>
               if defaults then .ok (B.mkSource s.st)   -- defaultdict(Source): a fresh source per missing key (memoised by the harness' choice of inputs)
               else .error (.missingInput k))
          | none => B.mkOp s.st tok
      match cur with
      | .error e => .error e
      | .ok (st', current) =>
        match s.stack with
        | [] => .error .bracketMismatch
        | none :: below =>
          parseExprLoop P B inputs defaults n { s with st := st', stack := some current :: below, prevTok := tok } rest
        | some previous :: below =>
          match B.mkApp st' previous current with
          | .error e => .error e
          | .ok (st'', e) =>
            parseExprLoop P B inputs defaults n { s with st := st'', stack := some e :: below, prevTok := tok } rest

def parseExprToks {S E : Type} (P : PLang) (B : Builder S E) (inputs : List E) (st0 : S) (toks : List String) :
    Except PErr (S × E) :=
  match parseExprLoop P B inputs false (toks.length + 1) { st := st0 } toks with
  | .error e => .error e
  | .ok s =>
    match s.stack with
    | [some e] => .ok (s.st, e)
    | [none] => .error .emptyParse
    | _ => .error .bracketMismatch

/-! ### the free builder: structure only -/

inductive PExpr where
  | src (id : Nat)
  | input (k : Nat)
  | op (name : String)
  | app (f x : PExpr)
  | ann (e : PExpr) (t : Term)      -- `e : T`; erased by `PExpr.erase`
  deriving Repr, Inhabited

def PExpr.erase : PExpr → PExpr
  | .app f x => .app f.erase x.erase
  | .ann e _ => e.erase
  | e => e

/-- state of the free builder: sources created, type variables created by `_`, annotation types in parse order -/
structure FreeState where
  nsrc : Nat := 0
  nvars : Nat := 0
  anns : List Term := []
  deriving Repr, Inhabited

def freeBuilder (opNames : List String) : Builder FreeState PExpr where
  mkSource s := ({ s with nsrc := s.nsrc + 1 }, .src s.nsrc)
  mkOp s name := if opNames.contains name then .ok (s, .op name) else .error (.undefinedToken name)
  mkApp s f x := .ok (s, .app f x)
  annotate s e t nfresh _ := .ok ({ s with nvars := s.nvars + nfresh, anns := s.anns ++ [t] }, .ann e t)
  varBase s := s.nvars

end Tfv
