import Tfv.Proofs.LambdaSNFund
import Tfv.Proofs.LambdaTypedExamples
/-!
# strong normalisation of typed terms, part 3: the fuelled normaliser terminates
-/
namespace Tfv.C15P
open Tfv Tfv.LamSpec Tfv.LamTyped

variable {L : Lang} {Sg : String → Option Ty} {S : Nat → Option Ty}

/-- a strongly normalising term has a normal form -/
theorem sn_normal_form {t : LTerm} (h : SN t) : ∃ r, RedStar t r ∧ Normal r := by
  induction h with
  | intro t _ ih =>
    by_cases hx : ∃ t', Red t t'
    · obtain ⟨t', hr⟩ := hx
      obtain ⟨r, h1, h2⟩ := ih t' hr
      exact ⟨r, .step hr h1, h2⟩
    · exact ⟨t, .refl t, fun t' hr => hx ⟨t', hr⟩⟩

/-- no infinite reduction sequence starts at a strongly normalising term -/
theorem sn_no_infinite {t : LTerm} (h : SN t) : ¬ ∃ f : Nat → LTerm, f 0 = t ∧ ∀ n, Red (f n) (f (n+1)) := by
  induction h with
  | intro t _ ih =>
    rintro ⟨f, h0, hf⟩
    refine ih (f 1) (h0 ▸ hf 0) ⟨fun n => f (n+1), rfl, fun n => hf (n+1)⟩

/-- on a strongly normalising term `nf` returns a result for some fuel -/
theorem sn_nf_terminates {t : LTerm} (h : SN t) : ∃ fuel r, nf fuel t = some r := by
  obtain ⟨r, h1, h2⟩ := sn_normal_form h
  obtain ⟨n, hn⟩ := nf_complete h1 (normal_noRedex h2)
  exact ⟨n, r, hn⟩

theorem typed_nf_terminates (wf : WF L) {Γ : List Ty} {t : LTerm} {T : Ty} (h : HasType L Sg S Γ t T) :
    ∃ fuel r, nf fuel t = some r := sn_nf_terminates (typed_sn wf h)

theorem typed_primitive_terminates (wf : WF L) {defs : List LDef} (hd : DefsTyped L Sg S defs)
    {Γ : List Ty} {t : LTerm} {T : Ty} (h : HasType L Sg S Γ t T) :
    ∃ fuel r, primitiveL defs fuel t = some r :=
  typed_nf_terminates wf (unfold_preserves wf hd _ h)

/-- termination, normality, type preservation and fuel independence together -/
theorem typed_primitive_total (wf : WF L) {defs : List LDef} (hd : DefsTyped L Sg S defs)
    (hdep : depOrdered defs = true) {Γ : List Ty} {t : LTerm} {T : Ty} (h : HasType L Sg S Γ t T) :
    ∃ fuel r, primitiveL defs fuel t = some r ∧ normalB defs r = true ∧ HasType L Sg S Γ r T ∧
      ∀ fuel' r', primitiveL defs fuel' t = some r' → r' = r := by
  obtain ⟨fuel, r, hr⟩ := typed_primitive_terminates wf hd h
  exact ⟨fuel, r, hr, primitive_normal hdep hr, primitive_preserves wf hd hr h,
    fun _ _ h' => primitive_deterministic h' hr⟩

/-- from some fuel on, every run succeeds with the same result -/
theorem typed_primitive_eventually (wf : WF L) {defs : List LDef} (hd : DefsTyped L Sg S defs)
    {Γ : List Ty} {t : LTerm} {T : Ty} (h : HasType L Sg S Γ t T) :
    ∃ fuel₀ r, ∀ fuel, fuel₀ ≤ fuel → primitiveL defs fuel t = some r := by
  obtain ⟨fuel, r, hr⟩ := typed_primitive_terminates wf hd h
  exact ⟨fuel, r, fun _ hle => primitive_mono hr hle⟩

/-- `exOmega = (λx. x x) (λx. x x)` is not strongly normalising -/
theorem exOmega_not_sn : ¬ SN exOmega := by
  intro h
  obtain ⟨n, r, hn⟩ := sn_nf_terminates h
  rw [exOmega_diverges n] at hn
  cases hn

/-- hence it has no type, in any well-formed language, signature and context -/
theorem exOmega_untypable (wf : WF L) (Γ : List Ty) (T : Ty) : ¬ HasType L Sg S Γ exOmega T :=
  fun h => exOmega_not_sn (typed_sn wf h)

/-- its half `λx. x x` IS typable — through `Bottom ≤ Bottom → T`: the parameter has the type `Bottom` -/
theorem selfapp_typed (Γ : List Ty) (T : Ty) :
    HasType L Sg S Γ (.lam (.app (.var 0) (.var 0))) (fn (.app BOT []) T) :=
  HasType.lam (HasType.app (A := .app BOT []) (HasType.sub (HasType.var rfl) (Sub.bot _)) (HasType.var rfl))

theorem tDefs_dep : depOrdered tDefs = true := by decide

end Tfv.C15P
