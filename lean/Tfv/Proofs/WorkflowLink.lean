import Tfv.Proofs.WorkflowMain
/-!
# Without passthrough: the stand-in sources are linked to the tool outputs they stand for (C12, part 5);
the tool's expression is parsed over the expressions of its inputs (part 4)
-/
namespace Tfv

/-! ## `from` edges are never removed -/

theorem gAddFrom_frm (c : GCfg) (g : GState) (a b : Nat) (r : Bool) :
    (gAddFrom c g a b r).fd.frm = (a, b) :: g.fd.frm := by
  unfold gAddFrom
  split
  · rfl
  · rfl

theorem GStep.frm_mono {c : GCfg} {P : Triple → Prop} {Q : Term × Node → Prop} {g g' : GState} (h : GStep c P Q g g') :
    ∀ p, p ∈ g.fd.frm → p ∈ g'.fd.frm := by
  induction h with
  | refl g => exact fun _ h => h
  | trans _ _ ih1 ih2 => exact fun p h => ih2 p (ih1 p h)
  | ty h => rw [h.fd_eq]; exact fun _ h => h
  | addFrom g a b r => intro p h; rw [gAddFrom_frm]; exact List.mem_cons_of_mem _ h
  | pushSrc g x => exact fun _ h => h
  | pushShared g x => exact fun _ h => h
  | pushInternal g x => exact fun _ h => h

theorem gAddFrom_srcNodes (c : GCfg) (g : GState) (a b : Nat) (r : Bool) : (gAddFrom c g a b r).srcNodes = g.srcNodes := by
  unfold gAddFrom; split <;> rfl

theorem wfLinkStep_nodes (c : GCfg) (g : GState) (p : Nat × Nat) :
    (wfLinkStep c g p).srcNodes = g.srcNodes ∧ (wfLinkStep c g p).sharedNodes = g.sharedNodes := by
  unfold wfLinkStep
  split
  · exact ⟨gAddFrom_srcNodes _ _ _ _ _, gAddFrom_sharedNodes _ _ _ _ _⟩
  · exact ⟨rfl, rfl⟩

/-- the link fold adds the edge of every pair whose two nodes exist -/
theorem wfLink_edges (c : GCfg) : ∀ (l : List (Nat × Nat)) (g : GState),
    ((l.foldl (wfLinkStep c) g).srcNodes = g.srcNodes ∧ (l.foldl (wfLinkStep c) g).sharedNodes = g.sharedNodes) ∧
    ∀ p ∈ l, ∀ s t, alook g.srcNodes p.1 = some s → alook g.sharedNodes p.2 = some t →
      (s, t) ∈ (l.foldl (wfLinkStep c) g).fd.frm := by
  intro l
  induction l with
  | nil => intro g; exact ⟨⟨rfl, rfl⟩, by simp⟩
  | cons q l ih =>
    intro g
    obtain ⟨⟨n1, n2⟩, e⟩ := ih (wfLinkStep c g q)
    obtain ⟨m1, m2⟩ := wfLinkStep_nodes c g q
    rw [List.foldl_cons]
    refine ⟨⟨by rw [n1, m1], by rw [n2, m2]⟩, ?_⟩
    intro p hp s t hs ht
    rcases List.mem_cons.1 hp with rfl | hp
    · have : (s, t) ∈ (wfLinkStep c g p).fd.frm := by
        unfold alook at hs ht
        unfold wfLinkStep
        cases h1 : g.srcNodes.find? (fun q => q.1 == p.1) with
        | none => rw [h1] at hs; cases hs
        | some x =>
          cases h2 : g.sharedNodes.find? (fun q => q.1 == p.2) with
          | none => rw [h2] at ht; cases ht
          | some y =>
            rw [h1] at hs; rw [h2] at ht
            simp only [Option.map_some, Option.some.injEq] at hs ht
            simp only [gAddFrom_frm, hs, ht, List.mem_cons, true_or]
      exact (wfLink_step c l _).frm_mono _ this
    · exact e p hp s t (by rw [m1]; exact hs) (by rw [m2]; exact ht)

/-! ## what `wfExpr` records in `indirection` -/

/-- the new `indirection` entries stand for non-source resources that are in the memo table -/
def IndPost (w : Wf) (s : WState) (_ : Nat) (s' : WState) (_ : TExpr) : Prop :=
  (∃ ks, s'.exprs.map (·.1) = s.exprs.map (·.1) ++ ks) ∧
  ∃ li, s'.indirection = s.indirection ++ li ∧ ∀ p ∈ li, p.2 ∉ w.sources ∧ p.2 ∈ s'.exprs.map (·.1)

theorem foldRun_ind {w : Wf} {s s1 : WState} {is : List Nat} {es : List TExpr} (hr : FoldRun (IndPost w) s is s1 es) :
    (∃ ks, s1.exprs.map (·.1) = s.exprs.map (·.1) ++ ks) ∧
    ∃ li, s1.indirection = s.indirection ++ li ∧ ∀ p ∈ li, p.2 ∉ w.sources ∧ p.2 ∈ s1.exprs.map (·.1) := by
  induction hr with
  | nil s => exact ⟨⟨[], by simp⟩, [], by simp, by simp⟩
  | cons h1 _ ih =>
    obtain ⟨⟨la, hla⟩, lia, hia, pa⟩ := h1
    obtain ⟨⟨lb, hlb⟩, lib, hib, pb⟩ := ih
    refine ⟨⟨la ++ lb, by rw [hlb, hla, List.append_assoc]⟩, lia ++ lib, by rw [hib, hia, List.append_assoc], ?_⟩
    intro p hp
    rcases List.mem_append.1 hp with hp | hp
    · obtain ⟨h1, hv⟩ := pa p hp
      exact ⟨h1, by rw [hlb]; exact List.mem_append_left _ hv⟩
    · exact pb p hp

theorem wfStandIns_ind (P : PLang) (w : Wf) (pt : Bool) (a : WfApp) (s1 : WState) (ies : List TExpr) (s2 : WState)
    (inputs : List TExpr) (h : wfStandIns P w pt a s1 ies = .ok (s2, inputs)) :
    ∃ li, s2.indirection = s1.indirection ++ li ∧ ∀ p ∈ li, p.2 ∉ w.sources ∧ ∃ x, (p.2, x) ∈ a.inputs.zip ies := by
  unfold wfStandIns at h
  split at h
  · simp only [Except.ok.injEq, Prod.mk.injEq] at h
    exact ⟨[], by rw [← h.1]; simp, by simp⟩
  · refine Wfl.foldlM_inv (wfStandInStep P w) (fun acc => ∃ li, acc.1.indirection = s1.indirection ++ li ∧
      ∀ p ∈ li, p.2 ∉ w.sources ∧ ∃ x, (p.2, x) ∈ a.inputs.zip ies) _ _ _ ?_ ⟨[], by simp, by simp⟩ h
    intro b p b' hp hb hf
    rcases wfStandInStep_ok hf with ⟨_, rfl⟩ | ⟨hns, _, _, _, _, _, ⟨sid, hind⟩, _⟩
    · exact hb
    · obtain ⟨li, hli, hp'⟩ := hb
      refine ⟨li ++ [(sid, p.1)], by rw [hind, hli, List.append_assoc], ?_⟩
      intro q hq
      rcases List.mem_append.1 hq with hq | hq
      · exact hp' q hq
      · rw [List.mem_singleton] at hq
        subst hq
        exact ⟨hns, p.2, hp⟩

theorem wfExpr_ind (P : PLang) (ops : List OperatorDecl) (w : Wf) (pt : Bool) :
    ∀ n s r s' e, wfExpr P ops w pt n s r = .ok (s', e) → IndPost w s r s' e := by
  apply wfExpr_induction2
  · intro s r e _; exact ⟨⟨[], by simp⟩, [], by simp, by simp⟩
  · intro s r a s1 ies s2 inputs xs3 e0 l1 hst hr _ hext hes _
    obtain ⟨⟨ks1, hks1⟩, li1, hli1, p1⟩ := foldRun_ind hr
    obtain ⟨li2, hli2, p2⟩ := wfStandIns_ind P w pt a s1 ies s2 inputs hst.stand
    have hx : (({ s2 with xs := xs3, exprs := s2.exprs ++ [(r, TExpr.shared r e0)] } : WState).exprs).map (·.1)
        = s1.exprs.map (·.1) ++ [r] := by
      show (s2.exprs ++ _).map (·.1) = _
      rw [List.map_append, hst.keys]; rfl
    refine ⟨⟨ks1 ++ [r], by rw [hx, hks1, List.append_assoc]⟩,
      li1 ++ li2, by show s2.indirection = _; rw [hli2, hli1, List.append_assoc], ?_⟩
    intro p hp
    rw [hx]
    rcases List.mem_append.1 hp with hp | hp
    · obtain ⟨h1, hv⟩ := p1 p hp
      exact ⟨h1, List.mem_append_left _ hv⟩
    · obtain ⟨h1, x, hx'⟩ := p2 p hp
      obtain ⟨v, hv, _⟩ := hes _ hx'
      exact ⟨h1, List.mem_append_left _ (alook_some_key (by rw [← expr?_eq]; exact hv))⟩

/-! ## part 5 -/

section
variable {P : PLang} {G : GLang} {ops : List OperatorDecl} {c : GCfg} {pt : Bool} {w : Wf}
  {g : GState} {out : Nat} {m : List (Nat × Nat)} {xs0 : XState} {stypes : List (Nat × Term)} {tgt : Nat}
  {ws : WState} {te : TExpr} {σf : Store} {te' : TExpr} {g1 g3 : GState}

theorem WfRun.link (run : WfRun P G ops c pt w g out m xs0 stypes tgt ws te σf te' g1 g3) (hn : w.sources.Nodup)
    (sid r : Nat) (h : (sid, r) ∈ ws.indirection) :
    r ∉ w.sources ∧ ∃ t, (r, t) ∈ m ∧ (r, t) ∈ g1.sharedNodes ∧
      ∀ s, alook g1.srcNodes sid = some s → (s, t) ∈ g.fd.frm := by
  have hT := run.table hn
  obtain ⟨_, li, hli, hp⟩ := wfExpr_ind P ops w pt _ _ _ _ _ run.expr
  simp only [List.nil_append] at hli
  rw [hli] at h
  obtain ⟨hns, hv⟩ := hp _ h
  have hkey : r ∈ (wfFinalExprs ws te').map (·.1) := by
    unfold wfFinalExprs
    rw [List.map_map]
    exact hv
  have hreach : SReach w tgt r := by
    rcases (run.table_keys hT r).1 hkey with h | h
    · exact absurd h hns
    · exact h
  obtain ⟨e, t, he, ht⟩ := (run.reach_hasNode hT).2 r hreach
  rcases hT.entry_shape he with hs | ⟨e0, rfl⟩
  · exact absurd (hT.onlySrcs _ (alook_some_mem he) hs) hns
  · have ht' : alook g1.sharedNodes r = some t := ht
    refine ⟨hns, t, ?_, alook_some_mem ht', ?_⟩
    · rw [run.map, mem_wfNodeMap]
      exact ⟨_, alook_some_mem he, (run.tail_step hT).1.nodeOf_stable ht⟩
    · intro s hs
      have := (wfLink_edges c ws.indirection g1).2 (sid, r) (by rw [hli]; exact h) s t hs ht'
      rw [run.graph]
      exact (GStep.trans (run.marks_post hT).1 (wfFinish_step c g3 out)).frm_mono _ this
end

/-! ## part 4: the tool's text is parsed over the expressions of its inputs -/

/-- with passthrough the memo table only grows, and the result is the entry -/
def ExactPost (s : WState) (r : Nat) (s' : WState) (e : TExpr) : Prop :=
  (∃ l, s'.exprs = s.exprs ++ l) ∧ s'.expr? r = some e

theorem foldRun_exact {s s1 : WState} {is : List Nat} {es : List TExpr} (hr : FoldRun ExactPost s is s1 es) :
    (∃ l, s1.exprs = s.exprs ++ l) ∧ ∀ p ∈ is.zip es, s1.expr? p.1 = some p.2 := by
  induction hr with
  | nil s => exact ⟨⟨[], by simp⟩, by simp⟩
  | @cons s sm s1 i e is es h1 _ ih =>
    obtain ⟨⟨la, ha⟩, he⟩ := h1
    obtain ⟨⟨lb, hb⟩, hes⟩ := ih
    refine ⟨⟨la ++ lb, by rw [hb, ha, List.append_assoc]⟩, ?_⟩
    intro p hp
    rw [List.zip_cons_cons, List.mem_cons] at hp
    rcases hp with rfl | hp
    · exact expr?_some_of_append hb he
    · exact hes p hp

theorem wfExpr_exact_true (P : PLang) (ops : List OperatorDecl) (w : Wf) :
    ∀ n s r s' e, wfExpr P ops w true n s r = .ok (s', e) → ExactPost s r s' e := by
  apply wfExpr_induction'
  · intro s r e he; exact ⟨⟨[], by simp⟩, he⟩
  · intro s r a s1 ies s2 inputs xs3 e0 hst hr hs1
    obtain ⟨⟨l1, h1⟩, _⟩ := foldRun_exact hr
    obtain ⟨rfl, _⟩ := wfStandIns_true P w a s1 ies s2 inputs hst.stand
    refine ⟨⟨l1 ++ [(r, TExpr.shared r e0)], by show s2.exprs ++ _ = _; rw [h1, List.append_assoc]⟩, ?_⟩
    show alook (s2.exprs ++ _) r = _
    rw [alook_append_none (by rw [← expr?_eq]; exact hs1), alook_singleton]

theorem wfExpr_inline (P : PLang) (ops : List OperatorDecl) (w : Wf) (n : Nat) (s : WState) (r : Nat) (s' : WState)
    (e' : TExpr) (habs : s.expr? r = none) (h : wfExpr P ops w true (n+1) s r = .ok (s', e')) :
    ∃ (a : WfApp) (inputs : List TExpr) (s1 : WState) (xs3 : XState) (e0 : TExpr), w.app? r = some a ∧ e' = TExpr.shared r e0 ∧
      parseExprToks P (typedBuilder P.types ops true) inputs s1.xs a.toks = .ok (xs3, e0) ∧
      inputs.length = a.inputs.length ∧ (∀ p ∈ a.inputs.zip inputs, s'.expr? p.1 = some p.2) ∧
      s'.expr? r = some e' ∧
      ((∀ p ∈ s.exprs, p.2.IsSrc ∨ IsSharedOwn p) → ∀ p ∈ a.inputs.zip inputs, p.2.IsSrc ∨ ∃ ei, p.2 = TExpr.shared p.1 ei) := by
  have hmain := wfExpr_main P ops w true _ _ _ _ _ h
  rcases wfExpr_ok_cases P ops w true n s r s' e' h with ⟨he, _⟩ | ⟨a, s1, ies, s2, inputs, xs3, e0, hst, hr, hs', rfl⟩
  · rw [habs] at he; cases he
  · obtain ⟨rfl, rfl⟩ := wfStandIns_true P w a s1 ies s2 inputs hst.stand
    obtain ⟨⟨l1, h1⟩, hes⟩ := foldRun_exact (hr.mono (fun s i s' e h => wfExpr_exact_true P ops w n s i s' e h))
    obtain ⟨⟨l1', h1'⟩, _⟩ := foldRun_main (hr.mono (fun s i s' e h => wfExpr_main P ops w true n s i s' e h))
    have hx : s'.exprs = s2.exprs ++ [(r, TExpr.shared r e0)] := by rw [hs']
    refine ⟨a, inputs, s2, xs3, e0, hst.app, rfl, hst.parse, hr.length, ?_, hmain.2, ?_⟩
    · intro p hp; exact expr?_some_of_append hx (hes p hp)
    · intro hshape p hp
      have hp1 := hes p hp
      cases h0 : s.expr? p.1 with
      | some v =>
        have := expr?_some_of_append h1 h0
        rw [hp1] at this
        cases this
        rcases hshape _ (alook_some_mem (by rw [← expr?_eq]; exact h0)) with h | ⟨ei, h⟩
        · exact .inl h
        · exact .inr ⟨ei, h⟩
      | none =>
        obtain ⟨ei, h⟩ := h1'.own_of_fresh hp1 h0
        exact .inr ⟨ei, h⟩

/-- a tag without a node: the same triples, edges, counters and node as for the untagged expression -/
theorem addExpr_shared_transparent (G : GLang) (c : GCfg) (root : Node) (origin : Option Node) (g : GState) (k : Nat)
    (e : TExpr) (cur : Option Nat) (inter : Bool) (h : alook g.sharedNodes k = none) :
    (∀ g1 n, addExpr G c root origin g e cur inter = .ok (g1, n) →
      addExpr G c root origin g (.shared k e) cur inter
        = .ok ({ g1 with sharedNodes := g1.sharedNodes ++ [(k, n)] }, n)) ∧
    (∀ err, addExpr G c root origin g e cur inter = .error err →
      addExpr G c root origin g (.shared k e) cur inter = .error err) := by
  rw [addExpr_shared_miss G c root origin g k e cur inter h]
  exact ⟨fun g1 n h1 => by rw [h1], fun err h1 => by rw [h1]⟩

/-! ## without passthrough the expression of a tool contains no other tool's expression -/

theorem wfStandIns_false_inputs (P : PLang) (w : Wf) (a : WfApp) (s1 : WState) (ies : List TExpr) (s2 : WState)
    (inputs : List TExpr) (h : wfStandIns P w false a s1 ies = .ok (s2, inputs)) :
    ∀ x ∈ inputs, x.IsSrc ∨ ∃ i, i ∈ w.sources ∧ (i, x) ∈ a.inputs.zip ies := by
  unfold wfStandIns at h
  simp only [Bool.false_eq_true, if_false] at h
  refine Wfl.foldlM_inv (wfStandInStep P w) (fun acc => ∀ x ∈ acc.2, x.IsSrc ∨ ∃ i, i ∈ w.sources ∧ (i, x) ∈ a.inputs.zip ies)
    _ _ _ ?_ (by simp) h
  intro b p b' hp hb hf
  rcases wfStandInStep_ok hf with ⟨hsrc, rfl⟩ | ⟨_, _, _, _, _, _, _, y, hy, hb'⟩
  · intro x hx
    rcases List.mem_append.1 hx with hx | hx
    · exact hb x hx
    · rw [List.mem_singleton] at hx
      subst hx
      exact .inr ⟨p.1, hsrc, hp⟩
  · rw [hb']
    intro x hx
    rcases List.mem_append.1 hx with hx | hx
    · exact hb x hx
    · rw [List.mem_singleton] at hx
      subst hx
      exact .inl hy

theorem wfExpr_flat (P : PLang) (ops : List OperatorDecl) (w : Wf) (n : Nat) (s : WState) (r : Nat) (s' : WState)
    (e' : TExpr) (hsrc : ∀ i ∈ w.sources, ∃ e, s.expr? i = some e ∧ e.IsSrc) (habs : s.expr? r = none)
    (h : wfExpr P ops w false (n+1) s r = .ok (s', e')) : ∃ e0, e' = TExpr.shared r e0 ∧ e0.sharedKeys = [] := by
  rcases wfExpr_ok_cases P ops w false n s r s' e' h with ⟨he, _⟩ | ⟨a, s1, ies, s2, inputs, xs3, e0, hst, hr, _, rfl⟩
  · rw [habs] at he; cases he
  · obtain ⟨⟨l1, h1⟩, hes⟩ := foldRun_main (hr.mono (fun s i s' e h => wfExpr_main P ops w false n s i s' e h))
    refine ⟨e0, rfl, List.eq_nil_iff_forall_not_mem.2 (fun j hj => ?_)⟩
    obtain ⟨x, hx, hjx⟩ := parse_keys P ops inputs _ _ _ _ hst.parse j hj
    have hxs : x.IsSrc := by
      rcases wfStandIns_false_inputs P w a s1 ies s2 inputs hst.stand x hx with h | ⟨i, hi, hz⟩
      · exact h
      · obtain ⟨e, he, hes'⟩ := hsrc i hi
        obtain ⟨v, hv, hvx⟩ := hes _ hz
        obtain ⟨v', hv', hve⟩ := h1.sim i e he
        simp only at hv
        rw [hv] at hv'
        cases hv'
        exact sig_isSrc (hvx.symm.trans hve) hes'
    rw [IsSrc.sharedKeys hxs] at hjx
    cases hjx

end Tfv
