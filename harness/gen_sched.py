"""Regenerates lean/Tfv/Model/InferSched.lean from lean/Tfv/Model/Infer.lean: the same mutual block with the
re-check order of pending constraints as a parameter `ord` (used by C18). Run after every change of Infer.lean."""
import os, re
HERE = os.path.dirname(os.path.dirname(os.path.abspath(__file__)))
src = open(os.path.join(HERE, "lean/Tfv/Model/Infer.lean")).read()
i = src.index("abbrev R := Except Err Store")
j = src.index("/-! ### Schemas, constraint creation, application -/")
block, tail = src[i:j], src[j:]
names = ["unifyList", "unify", "bind", "above", "below", "checkConstraints", "checkList", "fulfill", "minimize", "minLoop", "fixList", "fix"]


def conv(text):
    for n in names:
        text = re.sub(r"\bdef " + n + r" \(L : Lang\)", "def " + n + "S (L : Lang) (ord : List Nat → List Nat)", text)
    for n in names:
        text = re.sub(r"(?<![A-Za-z0-9_.])" + n + r" L\b", n + "S L ord", text)
    return text


b2 = conv(block).replace("abbrev R := Except Err Store\n", "")
b2 = b2.replace("checkListS L ord n σ v (getCset σ (getVar σ v).cset)", "checkListS L ord n σ v (ord (getCset σ (getVar σ v).cset))")
t2 = tail
for n in ["addConstraint", "addConstraints", "instantiate", "applyT"]:
    t2 = re.sub(r"\bdef " + n + r" \(L : Lang\)", "def " + n + "S (L : Lang) (ord : List Nat → List Nat)", t2)
    t2 = re.sub(r"(?<![A-Za-z0-9_.])" + n + r" L\b", n + "S L ord", t2)
t2 = conv(t2)
t2 = re.sub(r"inductive CAst where.*?deriving Repr, Inhabited\n", "", t2, flags=re.S)
t2 = re.sub(r"/-- a type schema as data.*?structure Schema where.*?deriving Repr, Inhabited\n", "", t2, flags=re.S)
t2 = re.sub(r"mutual\ndef Term.shift.*?end\n", "", t2, flags=re.S, count=1)
t2 = re.sub(r"def allocVars .*?\n\n", "", t2, flags=re.S, count=1)
t2 = re.sub(r"/-- Python builds the body of a schema.*?def spineFollow .*?\n\n", "", t2, flags=re.S, count=1)   # shared with Infer.lean
t2 = t2.replace("end Tfv", "")
out = '''import Tfv.Model.Infer
/-!
# M2s — the inference engine with the re-check order as a parameter (C18)

GENERATED from `Tfv/Model/Infer.lean` by harness/gen_sched.py: the same mutual block, where
`check_constraints` iterates `ord (pending constraints)` instead of the pending constraints in creation
order. `ord = id` is the model of `Infer.lean` (theorem `Tfv.C18.sched_id`); the harness imposes the same
`ord` on the implementation through the TRANSFORGE_VERIF hook.
-/
namespace Tfv

''' + b2 + t2 + '''
/-- iterate the pending constraints by the rank their creation number has in `perm` (unranked ones last, in creation order) -/
def priorityOrd (perm : List Nat) (cs : List Nat) : List Nat :=
  let rank (c : Nat) : Nat := (perm.idxOf? c).getD (perm.length + c)
  cs.mergeSort (fun a b => rank a ≤ rank b)

end Tfv
'''
open(os.path.join(HERE, "lean/Tfv/Model/InferSched.lean"), "w").write(out)
