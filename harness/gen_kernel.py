# Generator of Tfv/Proofs/SchedKernel.lean (property C18) from Tfv/Model/InferSched.lean.
# Re-run after every change of Tfv/Model/InferSched.lean:
#     python3 gen_kernel.py <lean-project-dir>        e.g.  python3 gen_kernel.py /tmp/pf/r3/lean
# It reads  <lean-project-dir>/Tfv/Model/InferSched.lean  and overwrites
# <lean-project-dir>/Tfv/Proofs/SchedKernel.lean ; then `lake build Tfv.Props.C18` in that directory.
# If the call graph of the mutual block changes, adjust the table `uses` below (callees of each function,
# used as rewrite rules in `blockP_succ`).
import re, sys, os
if len(sys.argv) != 2:
    sys.exit('usage: python3 gen_kernel.py <lean-project-dir>')
PROJ=sys.argv[1]
src=open(os.path.join(PROJ,'Tfv/Model/InferSched.lean')).read()
# take from first 'mutual' to just before priorityOrd doc comment
body=src[src.index('\nmutual\n')+1:src.index('/-- iterate the pending constraints')]
names=['unifyList','unify','bind','above','below','checkConstraints','checkList','fulfill','minimize','minLoop','fixList','fix',
       'addConstraints','addConstraint','instantiate','applyT']
for nm in names:
    body=re.sub(r'\b'+nm+r'S\b', nm+'P', body)
PARAM='(m3 : Store → Nat → Bool → Bool → Term → Term → Option Bool) (occ : Store → Nat → Term → Term → Bool)'
body=body.replace('(ord : List Nat → List Nat)', '(ord : List Nat → List Nat) '+PARAM)
body=re.sub(r'\b(\w+P) L ord\b', r'\1 L ord m3 occ', body)
assert 'match3 L σ' in body or 'match3 L' in body
body=re.sub(r'\bmatch3 L\b','m3',body)
body=re.sub(r'\boccurs L\b','occ',body)
assert 'match3' not in body and 'occurs' not in body
hdr='''import Tfv.Proofs.SchedMatchK
import Tfv.Proofs.SchedOrd
/-!
# C18 — the scheduled engine over an abstract `match3`/`occurs` (kernel evaluation)

GENERATED from `Tfv/Model/InferSched.lean` (text substitution: suffix `S` becomes `P`, `match3 L` becomes the
parameter `m3`, `occurs L` the parameter `occ`). With `m3 = match3 L`, `occ = occurs L` this is the scheduled
engine (`blockP_eq`); with `m3 = match3K L`, `occ = occursK L` every function is structurally recursive, so
`decide +kernel` evaluates it. Nothing but the counterexamples depends on this file.
-/
namespace Tfv.C18P

'''
names12=['unify','unifyList','bind','above','below','checkConstraints','checkList','fulfill','minimize','minLoop','fix','fixList']
sigs={
 'unify':('σ a b st sb sw',None),
 'unifyList':('σ vs xs ys st sb sw','cases vs <;> cases xs <;> cases ys'),
 'bind':('σ v t',None),
 'above':('σ v o',None),
 'below':('σ v o',None),
 'checkConstraints':('σ v',None),
 'checkList':('σ v cs','cases cs'),
 'fulfill':('σ c',None),
 'minimize':('σ c',None),
 'minLoop':('σ alts acc','cases alts'),
 'fix':('σ t pl',None),
 'fixList':('σ vs ps pl','cases vs <;> cases ps'),
}
thm='''
/-! ## the abstract engine at `match3`/`occurs` is the scheduled engine -/

/-- all twelve functions of the block agree at fuel `n` -/
structure BlockP (L : Lang) (ord : List Nat → List Nat) (n : Nat) : Prop where
'''
for nm in names12:
    a=sigs[nm][0]
    thm+=f'  {nm} : ∀ {a}, {nm}P L ord (match3 L) (occurs L) n {a} = {nm}S L ord n {a}\n'
thm+='\ntheorem blockP_zero (L : Lang) (ord : List Nat → List Nat) : BlockP L ord 0 where\n'
for nm in names12:
    thm+=f'  {nm} := by intros; simp only [{nm}P, {nm}S]\n'
thm+='\ntheorem blockP_succ {L : Lang} {ord : List Nat → List Nat} {n : Nat} (ih : BlockP L ord n) : BlockP L ord (n+1) where\n'
uses={'unify':['bind','unify','unifyList','above','below'],'unifyList':['unify','unifyList'],
 'bind':['unify','checkConstraints'],'above':['bind','checkConstraints'],'below':['bind','checkConstraints'],
 'checkConstraints':['checkList'],'checkList':['fulfill','checkList'],'fulfill':['unify','minimize'],
 'minimize':['minLoop'],'minLoop':['fix','minLoop'],'fix':['bind','fixList'],'fixList':['fix','fixList']}
for nm in names12:
    a,cs=sigs[nm]
    ihs=', '.join('ih.'+u for u in uses[nm])
    if cs:
        thm+=f'  {nm} := by\n    intro {a}\n    {cs} <;> (simp only [{nm}P, {nm}S, {ihs}]; try rfl)\n'
    else:
        thm+=f'  {nm} := by intros; (simp only [{nm}P, {nm}S, {ihs}]; try rfl)\n'
thm+='''
theorem blockP (L : Lang) (ord : List Nat → List Nat) : ∀ n, BlockP L ord n
  | 0 => blockP_zero L ord
  | n+1 => blockP_succ (blockP L ord n)

theorem addConstraintP_eq (L : Lang) (ord : List Nat → List Nat) (fuel : Nat) (σ : Store) (c : Constr) :
    addConstraintP L ord (match3 L) (occurs L) fuel σ c = addConstraintS L ord fuel σ c := by
  simp only [addConstraintP, addConstraintS, (blockP L ord fuel).fulfill]
  try rfl

theorem addConstraintsP_eq (L : Lang) (ord : List Nat → List Nat) (fuel base : Nat) : ∀ (σ : Store) (cs : List CAst),
    addConstraintsP L ord (match3 L) (occurs L) fuel base σ cs = addConstraintsS L ord fuel base σ cs
  | σ, [] => by simp only [addConstraintsP, addConstraintsS]
  | σ, c :: cs => by
    simp only [addConstraintsP, addConstraintsS, addConstraintP_eq]
    cases addConstraintS L ord fuel σ _ with
    | error e => rfl
    | ok σ1 => exact addConstraintsP_eq L ord fuel base σ1 cs

theorem instantiateP_eq (L : Lang) (ord : List Nat → List Nat) (fuel : Nat) (σ : Store) (s : Schema) :
    instantiateP L ord (match3 L) (occurs L) fuel σ s = instantiateS L ord fuel σ s := by
  simp only [instantiateP, instantiateS, addConstraintsP_eq, (blockP L ord fuel).fix]
  try rfl

theorem applyTP_eq (L : Lang) (ord : List Nat → List Nat) (fuel : Nat) (σ : Store) (f x : Term) (fixFlag : Bool) :
    applyTP L ord (match3 L) (occurs L) fuel σ f x fixFlag = applyTS L ord fuel σ f x fixFlag := by
  simp only [applyTP, applyTS, (blockP L ord fuel).bind, (blockP L ord fuel).unify, (blockP L ord fuel).fix]
  try rfl

/-- the kernel-evaluable instance -/
theorem instantiateS_eq_K (L : Lang) (perm : List Nat) (fuel : Nat) (σ : Store) (s : Schema) :
    instantiateS L (priorityOrd perm) fuel σ s = instantiateP L (insOrd perm) (match3K L) (occursK L) fuel σ s := by
  rw [← instantiateP_eq, match3K_funext, occursK_funext, priorityOrd_funext]

theorem applyTS_eq_K (L : Lang) (perm : List Nat) (fuel : Nat) (σ : Store) (f x : Term) (fixFlag : Bool) :
    applyTS L (priorityOrd perm) fuel σ f x fixFlag = applyTP L (insOrd perm) (match3K L) (occursK L) fuel σ f x fixFlag := by
  rw [← applyTP_eq, match3K_funext, occursK_funext, priorityOrd_funext]

end Tfv.C18P
'''
open(os.path.join(PROJ,'Tfv/Proofs/SchedKernel.lean'),'w').write(hdr+body.rstrip()+'\n'+thm)
