"""import_harm.py <worktree> <Hxx> <Cxx> : copy a sub-agent's property-PRESERVING change into /verif/seeded/<Hxx> (patch re-taken with git diff),
remove the worktree. Evaluate with harmtest.py."""
import json, os, shutil, subprocess, sys
wt, hid, prop = sys.argv[1:4]
VERIF = os.path.dirname(os.path.dirname(os.path.abspath(__file__)))
d = os.path.join(VERIF, "seeded", hid)
os.makedirs(d, exist_ok=True)
diff = subprocess.run(["git", "-C", wt, "diff", "--", "transforge"], stdout=subprocess.PIPE, text=True).stdout
assert diff.strip(), "no change in the worktree"
open(os.path.join(d, "patch.diff"), "w").write(diff)
for f in ("equiv.py", "NOTES.md"):
    shutil.copy(os.path.join(wt, f), os.path.join(d, f))
meta = {"preserves_property": prop, "round": 5, "kind": "harmless",
        "produced_by": "independent sub-agent given only the property text, a scratch worktree and notes/seeding/INSTRUCTIONS5.md (a realistic change of the anchored code under which the property still holds)"}
json.dump(meta, open(os.path.join(d, "meta.json"), "w"), indent=1)
subprocess.run(["git", "-C", "/repo", "worktree", "remove", "--force", wt])
shutil.rmtree(wt, ignore_errors=True)
