import Tfv.Proofs.QueryMatch
/-!
# When `genQuery` succeeds: no cycle among the reachable steps, and the types have URIs
-/
namespace Tfv

/-! ## a duplicate-free list of numbers below `N` has at most `N` elements -/

theorem nodup_bounded_length : ∀ (N : Nat) (l : List Nat), l.Nodup → (∀ x ∈ l, x < N) → l.length ≤ N := by
  intro N
  induction N with
  | zero =>
    intro l _ hb
    cases l with
    | nil => simp
    | cons x xs => exact absurd (hb x List.mem_cons_self) (Nat.not_lt_zero _)
  | succ N ih =>
    intro l hn hb
    have h1 : (l.erase N).Nodup := hn.erase N
    have h2 : ∀ x ∈ l.erase N, x < N := by
      intro x hx
      have hx' := (hn.mem_erase_iff).1 hx
      have := hb x hx'.2
      omega
    have h3 := ih (l.erase N) h1 h2
    have h4 := List.length_erase (a := N) (l := l)
    split at h4 <;> omega

/-! ## no cycle ⇒ `assignVars` succeeds -/

theorem step_lt_of_from {t : QTask} {k b : Nat} (hb : b ∈ (t.step k).from_) : k < t.steps.length := by
  apply Classical.not_not.1
  intro hk
  have : t.step k = {} := by
    unfold QTask.step
    simp only [List.getD_eq_getElem?_getD]
    rw [List.getElem?_eq_none (by omega)]
    rfl
  rw [this] at hb
  cases hb

theorem linkFold_total (t : QTask) (f : QFlags) (n k : Nat) (path : List Nat) :
    ∀ (bs : List Nat), (∀ b ∈ bs, ∀ a, ∃ a', assignVars t f n a b (path ++ [k]) = .ok (a', [b])) →
      ∀ a, ∃ a'', bs.foldlM (linkStep t f n k path) a = .ok a'' := by
  intro bs
  induction bs with
  | nil => exact fun _ a => ⟨a, rfl⟩
  | cons b bs ih =>
    intro h a
    obtain ⟨a1, h1⟩ := h b List.mem_cons_self a
    simp only [List.foldlM_cons]
    have : linkStep t f n k path a b = .ok { a1 with links := a1.links ++ [([k], [b])] } := by
      unfold linkStep
      rw [h1]
    rw [this]
    exact ih (fun b' hb' => h b' (List.mem_cons_of_mem _ hb')) _

theorem assignVars_total (t : QTask) (f : QFlags) (hf : f.unfoldTree = false) (hnc : NoCycle t) :
    ∀ (n : Nat) (a : QAssign) (k : Nat) (path : List Nat), StepReach t k → (∀ p ∈ path, ∃ b ∈ (t.step p).from_, ReachFrom t b k) →
      path.Nodup → (∀ p ∈ path, p < t.steps.length) → t.steps.length + 1 ≤ n + path.length →
      ∃ a', assignVars t f n a k path = .ok (a', [k]) := by
  intro n
  induction n with
  | zero =>
    intro a k path _ _ hn hb hfuel
    have := nodup_bounded_length _ path hn hb
    omega
  | succ n ih =>
    intro a k path hk hpath hn hb hfuel
    rw [assignVars_succ t f hf]
    have hnot : k ∉ path := fun hmem => hnc k hk (hpath k hmem)
    have hc : path.contains k = false := by simpa using hnot
    rw [hc]
    simp only [Bool.false_eq_true, if_false]
    have hall : ∀ b ∈ (t.step k).from_, ∀ a, ∃ a', assignVars t f n a b (path ++ [k]) = .ok (a', [b]) := by
      intro b hbk a0
      apply ih a0 b (path ++ [k]) (.step hk hbk)
      · intro p hp
        rcases List.mem_append.1 hp with hp | hp
        · obtain ⟨b', hb', hr⟩ := hpath p hp
          exact ⟨b', hb', hr.tail hbk⟩
        · simp only [List.mem_singleton] at hp
          subst hp
          exact ⟨b, hbk, .refl b⟩
      · rw [List.nodup_append]
        refine ⟨hn, by simp, ?_⟩
        intro x hx y hy
        simp only [List.mem_singleton] at hy
        subst hy
        rintro rfl
        exact hnot hx
      · intro p hp
        rcases List.mem_append.1 hp with hp | hp
        · exact hb p hp
        · simp only [List.mem_singleton] at hp
          subst hp
          exact step_lt_of_from hbk
      · simp only [List.length_append, List.length_singleton]
        omega
    obtain ⟨a'', h2⟩ := linkFold_total t f n k path _ hall (visit t a k)
    rw [h2]
    exact ⟨a'', rfl⟩

theorem assignAll_total (t : QTask) (f : QFlags) (hf : f.unfoldTree = false) (hnc : NoCycle t) :
    ∃ a, assignAll t f = .ok a := by
  unfold assignAll
  have : ∀ (os : List Nat), (∀ o ∈ os, o ∈ t.outputs) → ∀ a : QAssign,
      ∃ a', os.foldlM (fun (a : QAssign) o =>
        match assignVars t f (t.steps.length + 2) a o [] with
        | .error e => Except.error e
        | .ok (a', _) => .ok a') a = .ok a' := by
    intro os
    induction os with
    | nil => exact fun _ a => ⟨a, rfl⟩
    | cons o os ih =>
      intro hos a
      obtain ⟨a1, h1⟩ := assignVars_total t f hf hnc (t.steps.length + 2) a o [] (.out (hos o List.mem_cons_self))
        (by simp) List.nodup_nil (by simp) (by simp)
      simp only [List.foldlM_cons]
      rw [h1]
      exact ih (fun o' ho' => hos o' (List.mem_cons_of_mem _ ho')) a1
  exact this t.outputs (fun _ h => h) {}

/-! ## `assignVars` succeeds ⇒ no cycle -/

theorem linkFold_each (t : QTask) (f : QFlags) (n k : Nat) (path : List Nat) :
    ∀ (bs : List Nat) (a a'' : QAssign), bs.foldlM (linkStep t f n k path) a = .ok a'' →
      ∀ b ∈ bs, ∃ a0 r, assignVars t f n a0 b (path ++ [k]) = .ok r := by
  intro bs
  induction bs with
  | nil => intro _ _ _ b hb; cases hb
  | cons b0 bs ih =>
    intro a a'' h b hb
    simp only [List.foldlM_cons] at h
    cases hx : linkStep t f n k path a b0 with
    | error e => rw [hx] at h; cases h
    | ok a1 =>
      rw [hx] at h
      rcases List.mem_cons.1 hb with rfl | hb
      · unfold linkStep at hx
        cases hy : assignVars t f n a b (path ++ [k]) with
        | error e => rw [hy] at hx; cases hx
        | ok r => exact ⟨a, r, hy⟩
      · exact ih a1 a'' h b hb

theorem assignVars_ok_nocycle (t : QTask) (f : QFlags) (hf : f.unfoldTree = false) :
    ∀ (n : Nat) (a : QAssign) (k : Nat) (path : List Nat) (r : QAssign × QVar),
      assignVars t f n a k path = .ok r → ∀ j, ReachFrom t k j → (j ∉ path ∧ ¬ OnCycle t j) := by
  intro n
  induction n with
  | zero =>
    intro a k path r h
    rw [assignVars] at h
    cases h
  | succ n ih =>
    intro a k path r h
    rw [assignVars_succ t f hf] at h
    split at h
    · cases h
    · rename_i hc
      have hnot : k ∉ path := by simpa using hc
      cases hx : (t.step k).from_.foldlM (linkStep t f n k path) (visit t a k) with
      | error e => rw [hx] at h; cases h
      | ok a2 =>
        have heach := linkFold_each t f n k path _ _ _ hx
        have hsub : ∀ b ∈ (t.step k).from_, ∀ j, ReachFrom t b j → (j ∉ path ++ [k] ∧ ¬ OnCycle t j) := by
          intro b hb
          obtain ⟨a0, r0, h0⟩ := heach b hb
          exact ih a0 b (path ++ [k]) r0 h0
        intro j hj
        rcases (reachFrom_iff t k j).1 hj with rfl | ⟨b, hb, hr⟩
        · refine ⟨hnot, ?_⟩
          rintro ⟨b, hb, hr⟩
          exact (hsub b hb j hr).1 (by simp)
        · obtain ⟨h1, h2⟩ := hsub b hb j hr
          exact ⟨fun hm => h1 (List.mem_append_left _ hm), h2⟩

theorem assignAll_ok_nocycle (t : QTask) (f : QFlags) (hf : f.unfoldTree = false) (a : QAssign)
    (h : assignAll t f = .ok a) : NoCycle t := by
  unfold assignAll at h
  have : ∀ (os : List Nat) (a a' : QAssign),
      os.foldlM (fun (a : QAssign) o =>
        match assignVars t f (t.steps.length + 2) a o [] with
        | .error e => Except.error e
        | .ok (a', _) => .ok a') a = .ok a' →
      ∀ o ∈ os, ∃ a0 r, assignVars t f (t.steps.length + 2) a0 o [] = .ok r := by
    intro os
    induction os with
    | nil => intro _ _ _ o ho; cases ho
    | cons o0 os ih =>
      intro a a' h o ho
      simp only [List.foldlM_cons] at h
      cases hy : assignVars t f (t.steps.length + 2) a o0 [] with
      | error e => rw [hy] at h; cases h
      | ok r =>
        rw [hy] at h
        rcases List.mem_cons.1 ho with rfl | ho
        · exact ⟨a, r, hy⟩
        · exact ih r.1 a' h o ho
  intro k hk
  obtain ⟨o, ho, hr⟩ := (reach_iff_from t k).1 hk
  obtain ⟨a0, r, h0⟩ := this t.outputs {} a h o ho
  exact (assignVars_ok_nocycle t f hf _ a0 o [] r h0 k hr).2

theorem assignAll_ok_iff (t : QTask) (f : QFlags) (hf : f.unfoldTree = false) :
    (∃ a, assignAll t f = .ok a) ↔ NoCycle t :=
  ⟨fun ⟨a, h⟩ => assignAll_ok_nocycle t f hf a h, assignAll_total t f hf⟩

/-! ## the clause generation succeeds when the types have URIs -/

theorem mapM_total {α β ε : Type} (f : α → Except ε β) :
    ∀ (l : List α), (∀ x ∈ l, ∃ y, f x = .ok y) → ∃ r, l.mapM f = .ok r := by
  intro l
  induction l with
  | nil => exact fun _ => ⟨[], rfl⟩
  | cons x xs ih =>
    intro h
    obtain ⟨y, hy⟩ := h x List.mem_cons_self
    obtain ⟨ys, hys⟩ := ih (fun x' hx' => h x' (List.mem_cons_of_mem _ hx'))
    refine ⟨y :: ys, ?_⟩
    rw [List.mapM_cons, hy, hys]
    rfl

theorem foldlM_accStep_total {α β ε : Type} (piece : α → Except ε (List β)) :
    ∀ (l : List α), (∀ x ∈ l, ∃ y, piece x = .ok y) → ∀ acc, ∃ r, l.foldlM (accStep piece) acc = .ok r := by
  intro l
  induction l with
  | nil => exact fun _ acc => ⟨acc, rfl⟩
  | cons x xs ih =>
    intro h acc
    obtain ⟨y, hy⟩ := h x List.mem_cons_self
    simp only [List.foldlM_cons]
    have : accStep piece acc x = .ok (acc ++ y) := by
      unfold accStep
      rw [hy]
    rw [this]
    exact ih (fun x' hx' => h x' (List.mem_cons_of_mem _ hx')) _

/-- has a URI -/
def HasUri (G : GLang) (T : Ty) : Prop := ∃ u, typeUri G T.toTerm = .ok u

theorem bagOf_subset {α : Type} (le : α → α → Bool) :
    ∀ (reqs content : List (List α)), ∀ c ∈ reqs.foldl (bagAdd le) content,
      c ∈ content ∨ ∃ r ∈ reqs, ∀ x ∈ c, x ∈ r := by
  intro reqs
  induction reqs with
  | nil => exact fun content c hc => Or.inl hc
  | cons r reqs ih =>
    intro content c hc
    rcases ih _ c hc with h | ⟨r', hr', hsub⟩
    · unfold bagAdd at h
      split at h
      · exact Or.inl h
      · simp only at h
        split at h
        · exact Or.inl h
        · rcases List.mem_append.1 h with h | h
          · exact Or.inl (List.mem_filter.1 h).1
          · simp only [List.mem_singleton] at h
            subst h
            exact Or.inr ⟨r, List.mem_cons_self, unionOf_subset le false r⟩
    · exact Or.inr ⟨r', List.mem_cons_of_mem _ hr', hsub⟩

theorem subtypeOfClauses_total {G : GLang} (v : QVar) {types : List Ty} (h : ∀ T ∈ types, HasUri G T) :
    ∃ cs, subtypeOfClauses G v types = .ok cs := by
  unfold subtypeOfClauses
  simp only
  obtain ⟨uris, hu⟩ := mapM_total (fun t : Ty => typeUri G t.toTerm) (unionOf (leTyB G.types) false types)
    (fun T hT => h T (unionOf_subset _ _ _ T hT))
  rw [hu]
  exact ⟨_, rfl⟩

theorem typeClause_total {G : GLang} {ts : List Ty} (h : ∀ T ∈ ts, HasUri G T) :
    ∃ c, typeClause G ts = .ok c := by
  unfold typeClause
  obtain ⟨uris, hu⟩ := mapM_total (fun t : Ty => typeUri G t.toTerm) ts h
  rw [hu]
  split
  · rename_i heq; cases heq
  · exact ⟨_, rfl⟩
  · exact ⟨_, rfl⟩

theorem genFrom_total {G : GLang} {t : QTask} {f : QFlags} {a : QAssign} (ha : AssignOk t a)
    (hU : ∀ k, StepReach t k → ∀ T ∈ (t.step k).types, HasUri G T) : ∃ q, genFrom G t f a = .ok q := by
  unfold genFrom
  have h1 : ∃ pre2, (if f.byTypes then typesClauses G t a else .ok []) = .ok pre2 := by
    split
    · rw [typesClauses_eq]
      apply mapM_total
      intro ts hts
      apply typeClause_total
      rcases bagOf_subset _ _ [] ts hts with h | ⟨r, hr, hsub⟩
      · cases h
      · obtain ⟨k, hk, rfl⟩ := reqs_reach ha r hr
        exact fun T hT => hU k hk T (hsub T hT)
    · exact ⟨[], rfl⟩
  obtain ⟨pre2, h1⟩ := h1
  rw [h1]
  simp only
  have h2 : ∃ outs, a.outs.mapM (outClause G t f a) = .ok outs := by
    apply mapM_total
    intro v hv
    obtain ⟨o, ho, rfl⟩ := (ha.outs v).1 hv
    unfold outClause
    rw [ha.stepOf (.out ho)]
    obtain ⟨cs, hcs⟩ := subtypeOfClauses_total (G := G) [o] (hU o (.out ho))
    rw [hcs]
    exact ⟨_, rfl⟩
  obtain ⟨outs, h2⟩ := h2
  rw [h2]
  simp only
  have h3 : ∃ ins, (if f.byIo then a.ins.mapM (inClause G t f a) else .ok []) = .ok ins := by
    split
    · apply mapM_total
      intro v hv
      obtain ⟨i, hr, hi, rfl⟩ := (ha.ins v).1 hv
      unfold inClause
      rw [ha.stepOf hr]
      obtain ⟨cs, hcs⟩ := subtypeOfClauses_total (G := G) [i] (hU i hr)
      rw [hcs]
      exact ⟨_, rfl⟩
    · exact ⟨[], rfl⟩
  obtain ⟨ins, h3⟩ := h3
  rw [h3]
  simp only
  have h4 : ∃ chron, chronOf G t f a = .ok chron := by
    unfold chronOf
    split
    · exact ⟨[], rfl⟩
    · apply foldlM_accStep_total
      intro p hp
      obtain ⟨hp1, hk⟩ := (ha.mem_vars p).1 hp
      unfold chronPiece
      split
      · exact ⟨_, rfl⟩
      · obtain ⟨cs, hcs⟩ := subtypeOfClauses_total (G := G) p.1 (hU p.2 hk)
        rw [hcs]
        exact ⟨_, rfl⟩
  obtain ⟨chron, h4⟩ := h4
  rw [h4]
  exact ⟨_, rfl⟩

theorem genQuery_total {G : GLang} {t : QTask} {f : QFlags} (hf : f.unfoldTree = false) (hnc : NoCycle t)
    (hU : ∀ k, StepReach t k → ∀ T ∈ (t.step k).types, HasUri G T) : ∃ q, genQuery G t f = .ok q := by
  obtain ⟨a, ha⟩ := assignAll_total t f hf hnc
  obtain ⟨q, hq⟩ := genFrom_total (f := f) (assignAll_ok t f hf a ha) hU
  refine ⟨q, ?_⟩
  rw [genQuery_eq, ha]
  exact hq

theorem genQuery_ok_nocycle {G : GLang} {t : QTask} {f : QFlags} {q : Query} (hf : f.unfoldTree = false)
    (h : genQuery G t f = .ok q) : NoCycle t := by
  obtain ⟨a, ha, _⟩ := genQuery_ok h
  exact assignAll_ok_nocycle t f hf a ha

end Tfv
