import Tfv.Spec.Flow
/-!
# C08 proofs, part 1: the edge-only core of `addExpr`

With `withTypes = false` the graph generator never looks at types (no type nodes, no
fresh blank nodes for non-canonical types) and the only fields of `GState` that influence
the `from` edges are `nextB`, `srcNodes`, `sharedNodes`, `internals` and `fd.frm`. `addExprC`
is `addExpr` on exactly these five fields, without errors; `addExpr_core` is the simulation.
-/
namespace Tfv.C08P
open Tfv

structure Core where
  nextB : Nat
  src : List (Nat × Nat)
  shared : List (Nat × Nat)
  ints : List (Nat × Nat)
  frm : List (Nat × Nat)
  deriving Repr, DecidableEq

def coreOf (g : GState) : Core :=
  { nextB := g.nextB, src := g.srcNodes, shared := g.sharedNodes, ints := g.internals, frm := g.fd.frm }

def Core.fresh (k : Core) : Core × Nat := ({ k with nextB := k.nextB + 1 }, k.nextB)
def Core.from (k : Core) (a b : Nat) : Core := { k with frm := (a, b) :: k.frm }
def Core.cur (k : Core) : Option Nat → Core × Nat
  | some n => (k, n)
  | none => k.fresh

/-- the internal nodes attached to `n` -/
def intsOf (ints : List (Nat × Nat)) (n : Nat) : List Nat :=
  (ints.filter (fun (p : Nat × Nat) => p.1 == n)).map (fun (p : Nat × Nat) => p.2)

/-- everything `addExpr` does for an application after the argument has been added -/
def wire (k : Core) (fnode xnode : Nat) (ci : Option Nat) : Core :=
  let k := match ci with
    | some i => k.from xnode i
    | none => k
  -- `xnode` was an input of `fnode` already before this argument
  let repeated := (objectsOf k.frm fnode).contains xnode
  let k := k.from fnode xnode
  let k := match ci with
    | some i => (intsOf k.ints xnode).foldl (fun k j => k.from j i) k
    | none => k
  let k := (intsOf k.ints fnode).foldl (fun k j => if some j != ci then k.from j xnode else k) k
  match ci with
  | some i => (objectsOf k.frm fnode).eraseDups.foldl (fun k fin => if xnode != fin || repeated then k.from i fin else k) k
  | none => k

/-- reserve the internal node of a function-typed argument -/
def mkInternal (k : Core) (fnode : Nat) (isFun : Bool) : Core × Option Nat :=
  if isFun then ({ k with nextB := k.nextB + 1, ints := k.ints ++ [(fnode, k.nextB)] }, some k.nextB)
  else (k, none)

def addExprC : Core → TExpr → Option Nat → Core × Nat
  | k, .src id _ _, cur =>
    match k.src.find? (fun p => p.1 == id) with
    | some p => (k, p.2)
    | none =>
      let kn := k.cur cur
      ({ kn.1 with src := kn.1.src ++ [(id, kn.2)] }, kn.2)
  | k, .op _ _, cur => k.cur cur
  | k, .app f x _, cur =>
    let kn := k.cur cur
    let kf := addExprC kn.1 f (some kn.2)
    let kx := kf.1.fresh
    let ki := mkInternal kx.1 kf.2 x.ty.isFunction
    let ka := addExprC ki.1 x (some kx.2)
    (wire ka.1 kf.2 ka.2 ki.2, kn.2)
  | k, .shared key e, cur =>
    match k.shared.find? (fun p => p.1 == key) with
    | some p => (k, p.2)
    | none =>
      let r := addExprC k e cur
      ({ r.1 with shared := r.1.shared ++ [(key, r.2)] }, r.2)

/-! ## frame lemmas -/

@[simp] theorem coreOf_add (g : GState) (t : Triple) : coreOf (g.add t) = coreOf g := by
  unfold GState.add; split <;> rfl

@[simp] theorem coreOf_fresh (g : GState) : coreOf g.fresh.1 = (coreOf g).fresh.1 := rfl
@[simp] theorem fresh_snd (g : GState) : g.fresh.2 = (coreOf g).fresh.2 := rfl

/-- the `frm` component does not depend on `withDependencies` -/
theorem frm_gAddFrom (c : GCfg) (g : GState) (a b : Nat) (r : Bool) :
    (gAddFrom c g a b r).fd.frm = (a, b) :: g.fd.frm := by
  unfold gAddFrom; split <;> rfl

@[simp] theorem coreOf_gAddFrom (c : GCfg) (g : GState) (a b : Nat) (r : Bool) :
    coreOf (gAddFrom c g a b r) = (coreOf g).from a b := by
  unfold gAddFrom; split <;> rfl

theorem coreOf_foldl_from {α : Type} (c : GCfg) (p : α → Bool) (a b : α → Nat) (l : List α) (g : GState) :
    coreOf (l.foldl (fun g j => if p j then gAddFrom c g (a j) (b j) else g) g) =
      l.foldl (fun k j => if p j then k.from (a j) (b j) else k) (coreOf g) := by
  induction l generalizing g with
  | nil => rfl
  | cons x xs ih =>
    simp only [List.foldl_cons]
    rw [ih]
    by_cases hp : p x <;> simp [hp]

theorem coreOf_foldl_from' {α : Type} (c : GCfg) (a b : α → Nat) (l : List α) (g : GState) :
    coreOf (l.foldl (fun g j => gAddFrom c g (a j) (b j)) g) =
      l.foldl (fun k j => k.from (a j) (b j)) (coreOf g) := by
  have := coreOf_foldl_from c (fun _ => true) a b l g
  simpa using this

/-! ## `addExpr` in normal form (one equation per constructor, any `current`) -/

def curG (g : GState) : Option Nat → GState × Nat
  | some k => (g, k)
  | none => g.fresh

def originG (c : GCfg) (origin : Option Node) (g : GState) (n : Nat) : GState :=
  match origin with
  | some o => if c.withWorkflowOrigin then g.add (.b n, .tf "origin", o) else g
  | none => g

def mkInternalG (g : GState) (fnode : Nat) (isFun : Bool) : GState × Option Nat :=
  if isFun then
    let (g, i) := g.fresh
    (({ g with internals := g.internals ++ [(fnode, i)] }).add (.b fnode, .tf "internal", .b i), some i)
  else (g, none)

def wireG (c : GCfg) (origin : Option Node) (g : GState) (cur fnode xnode : Nat) (currentInternal : Option Nat) : GState :=
  let g := match currentInternal with
    | some i => gAddFrom c g xnode i
    | none => g
  let repeated := (objectsOf g.fd.frm fnode).contains xnode
  let g := gAddFrom c g fnode xnode
  let g := match currentInternal with
    | some i => ((g.internals.filter (fun (p : Nat × Nat) => p.1 == xnode)).map (fun (p : Nat × Nat) => p.2)).foldl (fun g j => gAddFrom c g j i) g
    | none => g
  let g := ((g.internals.filter (fun (p : Nat × Nat) => p.1 == fnode)).map (fun (p : Nat × Nat) => p.2)).foldl
    (fun g j => if some j != currentInternal then gAddFrom c g j xnode else g) g
  let g := match currentInternal with
    | some i =>
      let g := (objectsOf g.fd.frm fnode).eraseDups.foldl (fun g fin => if xnode != fin || repeated then gAddFrom c g i fin else g) g
      match origin with
      | some o => if c.withWorkflowOrigin then g.add (.b i, .tf "origin", o) else g
      | none => g
    | none => g
  match origin with
  | some o => if c.withWorkflowOrigin then g.add (.b cur, .tf "origin", o) else g
  | none => g

theorem addExpr_app (G : GLang) (c : GCfg) (root : Node) (origin : Option Node) (g : GState) (f x : TExpr) (ty : Term)
    (cur : Option Nat) (im : Bool) :
    addExpr G c root origin g (.app f x ty) cur im =
      match addExpr G c root origin (curG g cur).1 f (some (curG g cur).2) im with
      | .error e => .error e
      | .ok (g1, fnode) =>
        match addExpr G c root origin (mkInternalG g1.fresh.1 fnode x.ty.isFunction).1 x (some g1.fresh.2) true with
        | .error e => .error e
        | .ok (g2, xnode) =>
          .ok (wireG c origin g2 (curG g cur).2 fnode xnode (mkInternalG g1.fresh.1 fnode x.ty.isFunction).2, (curG g cur).2) := by
  cases cur <;> rfl


theorem addExpr_src (G : GLang) (c : GCfg) (root : Node) (origin : Option Node) (g : GState) (id : Nat)
    (l : Option String) (ty : Term) (cur : Option Nat) (im : Bool) :
    addExpr G c root origin g (.src id l ty) cur im =
      match g.srcNodes.find? (fun p => p.1 == id) with
      | some p => .ok (g, p.2)
      | none =>
        let g1 : GState := { (curG g cur).1 with srcNodes := (curG g cur).1.srcNodes ++ [(id, (curG g cur).2)] }
        match (if c.withTypes && (inCanon G (normT G.store ty) || c.withNoncanonicalTypes) then
            annotateType G c g1 root (curG g cur).2 (normT G.store ty) false (some (inCanon G (normT G.store ty))) else .ok g1) with
        | .error e => .error e
        | .ok g2 => .ok (originG c origin g2 (curG g cur).2, (curG g cur).2) := by
  cases cur <;> rfl

def opTriples (c : GCfg) (root : Node) (g : GState) (n : Nat) (name : String) : GState :=
  if c.withOperators then
    let g := g.add (.b n, .tf "via", .ns name)
    if c.withMembership then g.add (root, .tf "containsOperation", .ns name) else g
  else g

theorem addExpr_op (G : GLang) (c : GCfg) (root : Node) (origin : Option Node) (g : GState) (name : String)
    (ty : Term) (cur : Option Nat) (im : Bool) :
    addExpr G c root origin g (.op name ty) cur im =
      let g1 := opTriples c root (curG g cur).1 (curG g cur).2 name
      match (if c.withTypes && (c.withNoncanonicalTypes || inCanon G (normT G.store (outputType 1000 ty))) &&
            (c.withIntermediateTypes || !im) then
          annotateType G c g1 root (curG g cur).2 (normT G.store (outputType 1000 ty)) true else .ok g1) with
      | .error e => .error e
      | .ok g2 => .ok (originG c origin g2 (curG g cur).2, (curG g cur).2) := by
  cases cur <;> rfl

theorem addExpr_shared (G : GLang) (c : GCfg) (root : Node) (origin : Option Node) (g : GState) (key : Nat)
    (e : TExpr) (cur : Option Nat) (im : Bool) :
    addExpr G c root origin g (.shared key e) cur im =
      match g.sharedNodes.find? (fun p => p.1 == key) with
      | some p => .ok (g, p.2)
      | none =>
        match addExpr G c root origin g e cur im with
        | .error err => .error err
        | .ok (g1, n) => .ok ({ g1 with sharedNodes := g1.sharedNodes ++ [(key, n)] }, n) := by
  cases cur <;> rfl

@[simp] theorem coreOf_curG (g : GState) (cur : Option Nat) : coreOf (curG g cur).1 = ((coreOf g).cur cur).1 := by
  cases cur <;> rfl
@[simp] theorem curG_snd (g : GState) (cur : Option Nat) : (curG g cur).2 = ((coreOf g).cur cur).2 := by
  cases cur <;> rfl
@[simp] theorem coreOf_originG (c : GCfg) (origin : Option Node) (g : GState) (n : Nat) :
    coreOf (originG c origin g n) = coreOf g := by
  unfold originG
  cases origin with
  | none => rfl
  | some o => simp only []; split <;> simp
@[simp] theorem coreOf_opTriples (c : GCfg) (root : Node) (g : GState) (n : Nat) (name : String) :
    coreOf (opTriples c root g n name) = coreOf g := by
  unfold opTriples
  repeat' split
  all_goals simp
@[simp] theorem coreOf_mkInternalG (g : GState) (fnode : Nat) (b : Bool) :
    coreOf (mkInternalG g fnode b).1 = (mkInternal (coreOf g) fnode b).1 := by
  unfold mkInternalG mkInternal
  cases b
  · rfl
  · simp only [if_true, coreOf_add]; rfl
@[simp] theorem mkInternalG_snd (g : GState) (fnode : Nat) (b : Bool) :
    (mkInternalG g fnode b).2 = (mkInternal (coreOf g) fnode b).2 := by
  unfold mkInternalG mkInternal
  cases b <;> rfl

theorem ints_coreOf (g : GState) : g.internals = (coreOf g).ints := rfl
theorem frm_coreOf (g : GState) : g.fd.frm = (coreOf g).frm := rfl

theorem coreOf_wireG (c : GCfg) (origin : Option Node) (g : GState) (cur fnode xnode : Nat) (ci : Option Nat) :
    coreOf (wireG c origin g cur fnode xnode ci) = wire (coreOf g) fnode xnode ci := by
  cases ci with
  | none =>
    simp only [wireG, wire]
    show coreOf (originG c origin _ cur) = _
    rw [coreOf_originG, coreOf_foldl_from c (fun j => some j != none) (fun j => j) (fun _ => xnode)]
    simp only [ints_coreOf, coreOf_gAddFrom]; rfl
  | some i =>
    simp only [wireG, wire]
    show coreOf (originG c origin (originG c origin _ i) cur) = _
    rw [coreOf_originG, coreOf_originG]
    have hr : (gAddFrom c g xnode i).fd.frm = ((coreOf g).from xnode i).frm := by
      rw [frm_coreOf, coreOf_gAddFrom]
    rw [hr]
    generalize (objectsOf ((coreOf g).from xnode i).frm fnode).contains xnode = rep
    rw [coreOf_foldl_from c (fun fin => xnode != fin || rep) (fun _ => i) (fun fin => fin)]
    rw [coreOf_foldl_from c (fun j => some j != some i) (fun j => j) (fun _ => xnode)]
    rw [coreOf_foldl_from' c (fun j => j) (fun _ => i)]
    simp only [ints_coreOf, frm_coreOf, coreOf_gAddFrom]
    rw [coreOf_foldl_from c (fun j => some j != some i) (fun j => j) (fun _ => xnode)]
    rw [coreOf_foldl_from' c (fun j => j) (fun _ => i)]
    simp only [coreOf_gAddFrom]
    rfl


theorem addExpr_core {G : GLang} {c : GCfg} {root : Node} {origin : Option Node} (hc : c.withTypes = false) :
    ∀ (e : TExpr) (g : GState) (cur : Option Nat) (im : Bool),
      ∃ g', addExpr G c root origin g e cur im = .ok (g', (addExprC (coreOf g) e cur).2) ∧
        coreOf g' = (addExprC (coreOf g) e cur).1 := by
  intro e
  induction e with
  | src id l ty =>
    intro g cur im
    rw [addExpr_src, addExprC]
    have hs : (coreOf g).src = g.srcNodes := rfl
    rw [hs]
    cases hfind : List.find? (fun p => p.fst == id) g.srcNodes with
    | some p => exact ⟨g, rfl, rfl⟩
    | none =>
      simp only [hc, Bool.false_and, Bool.false_eq_true, if_false, curG_snd]
      refine ⟨_, rfl, ?_⟩
      rw [coreOf_originG]
      show Core.mk _ _ _ _ _ = _
      simp only [← coreOf_curG]; rfl
  | op name ty =>
    intro g cur im
    rw [addExpr_op, addExprC]
    simp only [hc, Bool.false_and, Bool.false_eq_true, if_false, curG_snd]
    refine ⟨_, rfl, ?_⟩
    rw [coreOf_originG, coreOf_opTriples, coreOf_curG]
  | app f x ty ihf ihx =>
    intro g cur im
    rw [addExpr_app, addExprC]
    obtain ⟨g1, h1, h2⟩ := ihf (curG g cur).1 (some (curG g cur).2) im
    rw [h1]
    simp only []
    obtain ⟨g2, h3, h4⟩ := ihx (mkInternalG g1.fresh.1 (addExprC (coreOf (curG g cur).1) f (some (curG g cur).2)).2 x.ty.isFunction).1
      (some g1.fresh.2) true
    rw [h3]
    simp only [curG_snd]
    refine ⟨_, rfl, ?_⟩
    rw [coreOf_wireG, h4]
    simp only [coreOf_mkInternalG, mkInternalG_snd, coreOf_fresh, fresh_snd, h2, coreOf_curG, curG_snd]
  | shared key e ih =>
    intro g cur im
    rw [addExpr_shared, addExprC]
    have hs : (coreOf g).shared = g.sharedNodes := rfl
    rw [hs]
    cases hfind : List.find? (fun p => p.fst == key) g.sharedNodes with
    | some p => exact ⟨g, rfl, rfl⟩
    | none =>
      obtain ⟨g1, h1, h2⟩ := ih g cur im
      simp only [h1]
      refine ⟨_, rfl, ?_⟩
      rw [← h2]; rfl

end Tfv.C08P
