import Tfv.Proofs.ExprTypedConstr
import Tfv.Proofs.InferConstrExamples
import Tfv.Proofs.ExprExamples
/-!
# Concrete runs of the typed expression parser with an operator that HAS a constraint
(non-vacuity of the C04 theorems for constrained signatures)

The language `exL`: `A`, `B ≤ A`. Operators: `h : x ** x [x ≤ A]` (the schema `exSC`) and the constant `b : B`.
`h b` is parsed: the instance of `h` carries the pending constraint `x0 ≤ A`; applying it to `b` raises the lower
bound of `x0` to `B` (constraint re-checked, undecided), fixing resolves `x0 := B` (constraint fulfilled).
All runs at the fuel of the expression layer (`exprFuel = 4000`).
-/
namespace Tfv.C04C
open Tfv Tfv.C03P Tfv.C03C Tfv.C04P

def exPC : PLang := { types := exL }

def exOpsC : List OperatorDecl :=
  [ ⟨"h", exSC⟩, ⟨"b", ⟨0, 0, .app 6 [], []⟩⟩ ]

theorem exPC_aliases : AliasesOk exPC := fun _ h => by cases h
theorem exOpsC_ok : OpsOkC exL exOpsC := opsOkCB_sound (by decide)

/-- the table really has a constraint -/
theorem exOpsC_constrained : ∃ d ∈ exOpsC, d.name = "h" ∧ d.schema.constraints = [.sub (.var 0) (.app 5 []) false] :=
  ⟨_, List.mem_cons_self, rfl, rfl⟩

/-! ## the engine runs of `InferConstrExamples.lean` at fuel 4000 -/

theorem exC_add' : addConstraint exL exprFuel { vars := [{}], csets := [[]] } (.sub (.var 0) (.app 5 []) false false) = .ok σC := by
  rw [addConstraint_eq]
  show ((match fulfill exL exprFuel σC 0 with | .error e => .error e | .ok (σ1, _) => .ok σ1) : R) = _
  rw [show fulfill exL exprFuel σC 0 = _ from exC_fulfill1 3998]

theorem exC_inst' : instantiate exL exprFuel {} exSC = .ok (σC, .app FUN [.var 0, .var 0]) := by
  have h : addConstraints exL exprFuel 0 { vars := [{}], csets := [[]] } exSC.constraints = .ok σC := by
    show ((match addConstraint exL exprFuel { vars := [{}], csets := [[]] } (.sub (.var 0) (.app 5 []) false false) with
      | .error e => .error e | .ok σ1 => addConstraints exL exprFuel 0 σ1 []) : R) = _
    rw [exC_add']
    rfl
  show ((match addConstraints exL exprFuel 0 { vars := [{}], csets := [[]] } exSC.constraints with
    | .error e => .error e
    | .ok σ1 => fix exL exprFuel σ1 (spineFollow σ1 (exSC.body.shift 0)) true) : Except Err (Store × Term)) = _
  rw [h]
  with_unfolding_all rfl

theorem exC_aboveG (n : Nat) : above exL (n+5) σC 0 6 = .ok σC1 := by
  have e : above exL (n+5) σC 0 6 = ((match checkConstraints exL (n+4) σC1 0 with
    | .error e => .error e
    | .ok σ => aboveTail exL (n+4) σ 0) : R) := by rw [above]; rfl
  rw [e, exC_check2 n]
  rfl

theorem exC_unifyG (n : Nat) : unify exL (n+6) σC (.app 6 []) (.var 0) true false false = .ok σC1 := by
  rw [unify_base_unbound rfl, ← exC_aboveG n]
  rfl

theorem exC_fulfill3G (n : Nat) : fulfill exL (n+2) σCb 0 =
    .ok ({ σCb with constrs := [.sub (.var 0) (.app 5 []) false true] }, true) := by
  rw [fulfill_sub_eq exL (n+1) σCb 0 (ref := .var 0) (tgt := .app 5 []) (s := false) (f := false) rfl]
  rw [show unify exL (n+1) σCb (.var 0) (.app 5 []) true true false = .ok σCb from by rw [unify]; rfl]
  simp only []
  have e : matchFuel σCb = 67 + 1 := rfl
  rw [e, match3_base_base (ao := 6) (bo := 5) (as := []) (bs := []) rfl rfl rfl]
  rfl

theorem exC_check3G (n : Nat) : checkConstraints exL (n+4) σCb 0 = .ok σC2 := by
  rw [checkConstraints, show getCset σCb (getVar σCb 0).cset = [0] from rfl, checkList_cons, exC_fulfill3G]
  simp only [checkList_nil]
  rfl

theorem exC_bindG (n : Nat) : bind exL (n+5) σC1 0 (.app 6 []) = .ok σC2 := by
  rw [← exC_check3G n, bind]
  rfl

theorem exC_fixG (n : Nat) : fix exL (n+6) σC1 (.var 0) true = .ok (σC2, .app 6 []) := by
  have e : fix exL (n+6) σC1 (.var 0) true = (match bind exL (n+5) σC1 0 (.app 6 []) with
    | .error e => .error e
    | .ok σ1 => .ok (σ1, followT σ1 (.var 0))) := by rw [fix]; rfl
  rw [e, exC_bindG]
  rfl

theorem exC_apply' : applyT exL exprFuel σC (.app FUN [.var 0, .var 0]) (.app 6 []) true = .ok (σC2, .app 6 []) := by
  rw [applyT_fun, followT_app, show exprFuel = 3994 + 6 from rfl, exC_unifyG]
  exact exC_fixG 3994

/-! ## `h b` -/

def eH : TExpr := .op "h" (.app FUN [.var 0, .var 0])
def eB : TExpr := .src 0 (some "b") (.app 6 [])
def eHB : TExpr := .app eH eB (.app 6 [])
/-- after `h`: the variable of `h` with its pending constraint -/
def sH : XState := { store := σC, nsrc := 0 }
/-- after `b`: a new source, the store unchanged -/
def sB : XState := { store := σC, nsrc := 1 }
/-- after `h b`: `x0 := B`, the constraint fulfilled -/
def sHB : XState := { store := σC2, nsrc := 1 }
def eHBfixed : TExpr := .app (.op "h" (.app FUN [.app 6 [], .app 6 []])) eB (.app 6 [])

theorem exH_isFun : isFunctionOp exL ⟨"h", exSC⟩ = true := by
  unfold isFunctionOp
  simp only [exC_inst']
  rfl

theorem exH_op : mkOpT exL exOpsC {} "h" = .ok (sH, eH) := by
  unfold mkOpT
  have hf : exOpsC.find? (fun d => d.name == "h") = some ⟨"h", exSC⟩ := by with_unfolding_all rfl
  simp only [hf, exC_inst', exH_isFun, if_true]
  rfl

theorem exB_op : mkOpT exL exOpsC sH "b" = .ok (sB, eB) := by with_unfolding_all rfl

theorem exHB_app : mkAppT exL true sB eH eB = .ok (sHB, eHB) := by
  unfold mkAppT eH eB
  simp only [TExpr.ty]
  rw [show sB.store = σC from rfl, exC_apply']
  rfl

theorem pd_h : parseDecimal "h" = none := by decide
theorem pd_b : parseDecimal "b" = none := by decide

theorem exHB_parse :
    parseExprToks exPC (typedBuilder exL exOpsC true) [] {} ["h", "b"] = .ok (sHB, eHB) := by
  unfold parseExprToks
  simp only [List.length, Nat.reduceAdd]
  simp (config := {decide := true}) only [parseExprLoop, typedBuilder, exH_op, exB_op, exHB_app,
    pd_h, pd_b, ↓reduceIte]

theorem exHB_norm1 : normT σC2 (.app FUN [.var 0, .var 0]) = .app FUN [.app 6 [], .app 6 []] := by
  have h0 : followT σC2 (.var 0) = .app 6 [] := rfl
  have hl : σC2.vars.length + 64 = 65 := rfl
  simp only [normT, hl, normTerm, normTermL, followT_app, h0]
theorem exHB_norm2 (o : Nat) : normT σC2 (.app o []) = .app o [] := by
  have hl : σC2.vars.length + 64 = 65 := rfl
  simp only [normT, hl, normTerm, normTermL, followT_app]
theorem exHB_fix_base (pl : Bool) : fix exL exprFuel σC2 (.app 6 []) pl = .ok (σC2, .app 6 []) := by
  cases pl <;> with_unfolding_all rfl

theorem exHB_fix : fixExpr exL sHB.store eHB = .ok (σC2, eHBfixed) := by
  simp only [eHB, eH, eB, sHB, fixExpr, exHB_norm1, exHB_norm2, exHB_fix_base, eHBfixed]

theorem exHB_parseTyped : parseTyped exPC exOpsC 0 ["h", "b"] true = .ok (sHB, eHBfixed) := by
  unfold parseTyped
  have e : mkInputs 0 {} = ({}, []) := rfl
  have e' : exPC.types = exL := rfl
  simp only [e, e', exHB_parse, exHB_fix]
  rfl

theorem exHB_parseTyped_nofix : parseTyped exPC exOpsC 0 ["h", "b"] false = .ok (sHB, eHB) := by
  unfold parseTyped
  have e : mkInputs 0 {} = ({}, []) := rfl
  have e' : exPC.types = exL := rfl
  simp only [e, e', exHB_parse]
  rfl

/-- the constraint is live: `h` applied to a constant of type `Unit` (not below `A`) is rejected -/
theorem exH_unit_rejected :
    mkAppT exL true sH eH (.src 0 none (.app 0 [])) = .error (.application .constraintViolation) := by
  unfold mkAppT eH
  simp only [TExpr.ty]
  have e : above exL (3994+5) σC 0 0 = ((match checkConstraints exL (3994+4) σCu 0 with
    | .error e => .error e
    | .ok σ => aboveTail exL (3994+4) σ 0) : R) := by rw [above]; rfl
  have u : unify exL exprFuel σC (.app 0 []) (.var 0) true false false = .error .constraintViolation := by
    have e2 : exprFuel = (3994 + 5) + 1 := rfl
    rw [e2, unify_base_unbound rfl]
    show above exL (3994+5) σC 0 0 = _
    rw [e, exC_check_bad 3994]
  rw [show sH.store = σC from rfl, applyT_fun, followT_app, u]

/-! ## the invariant, typing and solutions of the states above -/

theorem sH_okc : OkStoreC exL sH.store := σC_okc
theorem sHB_okc : OkStoreC exL sHB.store := σC2_okc
theorem eH_typed : TypedIn exL σC eH := typedIn_op (by decide)
theorem eB_typed : TypedIn exL σC eB := typedIn_src (by decide)

/-- a solution of the final store: `x0 := B` -/
theorem exHB_sat : Sat exL (valOf [.app 6 []]) σC2 := satB_sound exL_wf σC2_okc.ok (by decide)

/-- solutions of the store after `h` alone: `x0 := B` and `x0 := A` -/
theorem exH_sat : Sat exL (valOf [.app 6 []]) σC := satB_sound exL_wf σC_okc.ok (by decide)

theorem exHB_call : callT exL sB eH [eB] = .ok (sHB, eHB) := by
  unfold callT
  simp only [exHB_app]
  unfold callT
  rfl

/-- `b : A` in the state that holds the pending constraint of `h` (`B ≤ A`) -/
theorem exB_annot : annotateT exL sB eB (.app 5 []) 0 false = .ok (sB, eB) := by
  rw [annotateT_eq]
  with_unfolding_all rfl

theorem exHB_fixCore : fixExprCore exL σC2 eHB = .ok (σC2, eHB) := by
  simp only [eHB, eH, eB, fixExprCore, exHB_fix_base]

end Tfv.C04C
