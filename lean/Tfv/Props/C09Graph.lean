import Tfv.Model
import Tfv.Props.C09
import Tfv.Proofs.GraphClosed
import Tfv.Proofs.GraphWorkflow
import Tfv.Proofs.GraphExamples
/-!
# C09 on real graphs — `depends` is the transitive closure of `from` in every graph `addExpr` / `addWorkflow` builds

`Tfv.Props.C09` proves that one `addFrom` keeps `depends = TC(from)`. Here the statement is lifted to the
graph generator: every change of the `from`/`depends` part (`GState.fd`) made by `addExpr`, `wfNode` and
`addWorkflow` goes through `gAddFrom`, which is `addFrom` when `with_dependencies` is on; `addType`,
`annotateType` and the triple emission never touch it. Statements only; the proofs are in
`Tfv/Proofs/Graph*.lean` (`GStep`: a run of the generator is a sequence of primitive state changes).
-/
namespace Tfv.C09Graph
open Tfv Tfv.C09 Tfv.GraphEx

/-- **`addExpr` keeps `depends = TC(from)`.** With `with_dependencies` on, if the invariant holds in the graph
before, it holds in the graph after adding any expression (any root, origin, current node, flags). -/
theorem C09_addExpr_closed (G : GLang) (c : GCfg) (hc : c.withDependencies = true) (root : Node)
    (origin : Option Node) (g : GState) (e : TExpr) (cur : Option Nat) (inter : Bool) (g' : GState) (n : Nat)
    (hg : Closed g.fd) (h : addExpr G c root origin g e cur inter = .ok (g', n)) : Closed g'.fd :=
  addExpr_closed G c hc root origin g e cur inter g' n hg h

/-- the initial graph has no `from`/`depends` edges, hence satisfies the invariant -/
theorem C09_initGraph_closed (G : GLang) (c : GCfg) : Closed (initGraph G c).fd :=
  initGraph_closed G c

/-- **The graph of an expression.** Starting from the initial graph, the graph of any expression satisfies
`depends = TC(from)`: `s depends t` iff there is a path of one or more `from` edges from `s` to `t`. -/
theorem C09_expression_graph (G : GLang) (c : GCfg) (hc : c.withDependencies = true) (root : Node)
    (origin : Option Node) (e : TExpr) (cur : Option Nat) (inter : Bool) (g' : GState) (n : Nat)
    (h : addExpr G c root origin (initGraph G c) e cur inter = .ok (g', n)) :
    ∀ s t, (s, t) ∈ g'.fd.dep ↔ TC g'.fd.frm s t :=
  addExpr_closed G c hc root origin _ e cur inter g' n (initGraph_closed G c) h

/-- non-vacuity: `map g y` (a function-valued argument, hence an internal node) gives four `from` edges and
their six-element closure -/
example : run2.toOption.map (fun p => (p.1.fd.frm, p.1.fd.dep, p.1.internals, p.2))
    = some ([(2, 3), (0, 3), (0, 1), (1, 2)], [(1, 2), (0, 1), (0, 2), (0, 3), (2, 3), (1, 3)], [(0, 2)], 0) :=
  run2_fd

/-- **Several expressions in one graph**: adding expressions one after the other (as `add_workflow` does for
the tool applications) keeps the invariant. -/
theorem C09_addExprs_closed (G : GLang) (c : GCfg) (hc : c.withDependencies = true) (root : Node)
    (es : List (Option Node × TExpr)) (g g' : GState) (hg : Closed g.fd)
    (h : es.foldlM (fun g p => (addExpr G c root p.1 g p.2 none false).map (·.1)) g = .ok g') :
    Closed g'.fd :=
  addExprs_closed G c hc root es g g' hg h

/-- `wfnode2tfmnode`: the recursive descent over a workflow's resources keeps the invariant -/
theorem C09_wfNode_closed (G : GLang) (c : GCfg) (hc : c.withDependencies = true) (w : Wf) (root : Node)
    (exprs : List (Nat × TExpr)) (n : Nat) (g : GState) (r : Nat) (g' : GState) (k : Nat)
    (hg : Closed g.fd) (h : wfNode G c w root exprs n g r = .ok (g', k)) : Closed g'.fd :=
  (wfNode_step G c w root exprs n g r g' k h).closed hc hg

example : runWfNode.toOption.map (fun p => (p.1.fd.frm, p.1.fd.dep, p.1.sharedNodes, p.2))
    = some ([(3, 1), (1, 0)], [(1, 0), (3, 1), (3, 0)], [(1, 1), (2, 3)], 3) := runWfNode_fd

/-- **The graph of a workflow** satisfies `depends = TC(from)` (with or without passthrough: the stand-in
sources are connected by recursive `add_from` calls, which C09 covers as well). The graph is built over
`{ G with store := σf }`, `σf` the store after the final `fixExpr`, and over the expressions as `add_workflow` sees
them after that pass (`sharedOf`, `setSrcTypes`); the `from`/`depends` part never looks at types or the store. -/
theorem C09_workflow_graph (P : PLang) (G : GLang) (ops : List OperatorDecl) (c : GCfg)
    (hc : c.withDependencies = true) (passthrough : Bool) (w : Wf) (g : GState) (out : Nat)
    (m : List (Nat × Nat)) (h : addWorkflow P G ops c passthrough w = .ok (g, out, m)) :
    ∀ s t, (s, t) ∈ g.fd.dep ↔ TC g.fd.frm s t :=
  (addWorkflow_step P G ops c passthrough w g out m h).closed hc (initGraph_closed G c)

-- the parser does not reduce in the kernel; the hypothesis is checked by evaluation (with and without passthrough)
#guard ((addWorkflow wP exG wops {} true wf1).toOption.map (fun p => (p.1.fd.frm, p.1.fd.dep, p.2.1)))
  == some ([(3, 1), (1, 0)], [(1, 0), (3, 1), (3, 0)], 3)
#guard ((addWorkflow wP exG wops {} false wf1).toOption.map (fun p => (p.1.fd.frm, p.1.fd.dep, p.2.1)))
  == some ([(4, 1), (3, 4), (1, 0)], [(1, 0), (3, 4), (4, 1), (4, 0), (3, 1), (3, 0)], 3)

/-- **In the emitted RDF graph** (`allTriples`: the ordinary triples plus one `from` / `depends` triple per edge) of
an expression: the `depends` triples are exactly the transitive closure of the `from` triples. The ordinary
triples never use these two predicates, so nothing else interferes. -/
theorem C09_expression_triples (G : GLang) (c : GCfg) (hc : c.withDependencies = true) (root : Node)
    (origin : Option Node) (e : TExpr) (cur : Option Nat) (inter : Bool) (g' : GState) (n : Nat)
    (h : addExpr G c root origin (initGraph G c) e cur inter = .ok (g', n)) (s t : Nat) :
    ((Node.b s, Node.tf "depends", Node.b t) ∈ g'.allTriples ↔ TC g'.fd.frm s t) ∧
      ((Node.b s, Node.tf "from", Node.b t) ∈ g'.allTriples ↔ (s, t) ∈ g'.fd.frm) :=
  allTriples_closed hc (addExpr_step G c root origin e _ cur inter g' n h) s t

/-- the same for the emitted RDF graph of a workflow -/
theorem C09_workflow_triples (P : PLang) (G : GLang) (ops : List OperatorDecl) (c : GCfg)
    (hc : c.withDependencies = true) (passthrough : Bool) (w : Wf) (g : GState) (out : Nat)
    (m : List (Nat × Nat)) (h : addWorkflow P G ops c passthrough w = .ok (g, out, m)) (s t : Nat) :
    ((Node.b s, Node.tf "depends", Node.b t) ∈ g.allTriples ↔ TC g.fd.frm s t) ∧
      ((Node.b s, Node.tf "from", Node.b t) ∈ g.allTriples ↔ (s, t) ∈ g.fd.frm) :=
  allTriples_closed hc (addWorkflow_step P G ops c passthrough w g out m h) s t

example : run2.toOption.map (fun p => p.1.allTriples.filter (fun t => t.2.1 == .tf "from" || t.2.1 == .tf "depends"))
    = some [(.b 2, .tf "from", .b 3), (.b 0, .tf "from", .b 3), (.b 0, .tf "from", .b 1), (.b 1, .tf "from", .b 2),
      (.b 1, .tf "depends", .b 2), (.b 0, .tf "depends", .b 1), (.b 0, .tf "depends", .b 2),
      (.b 0, .tf "depends", .b 3), (.b 2, .tf "depends", .b 3), (.b 1, .tf "depends", .b 3)] := by
  unfold run2 ex2
  graph_eval

/-- Without `with_dependencies` no `depends` edge is ever recorded (so the invariant fails as soon as there is
a `from` edge: the switch really turns the closure off). -/
theorem C09_no_dependencies (G : GLang) (c : GCfg) (hc : c.withDependencies = false) (root : Node)
    (origin : Option Node) (e : TExpr) (cur : Option Nat) (inter : Bool) (g' : GState) (n : Nat)
    (h : addExpr G c root origin (initGraph G c) e cur inter = .ok (g', n)) : g'.fd.dep = [] :=
  addExpr_no_dependencies G c hc root origin e cur inter g' n h

example : run2nd.toOption.map (fun p => (p.1.fd.frm, p.1.fd.dep)) = some ([(2, 3), (0, 3), (0, 1), (1, 2)], []) :=
  run2nd_fd

end Tfv.C09Graph
