import Tfv.Proofs.LambdaConfl
/-!
# normalisation theorem: leftmost-outermost `nf` finds the normal form whenever one exists

Standardisation in the style of Loader / Kashima: `St t r` ("standard reduction") is defined inductively
from weak head reduction; it is reflexive, closed under substitution and under a beta step on the right,
hence contains `RedStar`; and when the right-hand side has no redex it is realised by `nf`.
-/
namespace Tfv.C15P
open Tfv Tfv.LamSpec

/-- one weak head step: contract the head redex of the application spine (never under a binder, never in
an argument) -/
inductive WHStep : LTerm → LTerm → Prop where
  | beta (b x : LTerm) : WHStep (.app (.lam b) x) (lsub b x 0)
  | appL {f f' : LTerm} (x : LTerm) : WHStep f f' → WHStep (.app f x) (.app f' x)

abbrev WHs : LTerm → LTerm → Prop := Star WHStep

theorem WHs.appL {f f' : LTerm} (x : LTerm) (h : WHs f f') : WHs (.app f x) (.app f' x) :=
  Star.map (R := WHStep) (fun f => LTerm.app f x) (fun _ _ => WHStep.appL x) h

theorem whStep_red {t t' : LTerm} (h : WHStep t t') : Red t t' := by
  induction h with
  | beta b x => rw [← beta_eq]; exact Red.beta b x
  | appL x _ ih => exact Red.appL x ih

theorem whStep_lift {t t' : LTerm} (h : WHStep t t') : ∀ k, WHStep (llift t k) (llift t' k) := by
  induction h with
  | beta b x =>
    intro k
    rw [lift_sub b x k 0 (by omega)]
    simp only [llift]
    exact WHStep.beta _ _
  | appL x _ ih => intro k; simp only [llift]; exact WHStep.appL _ (ih k)

theorem whStep_sub {t t' : LTerm} (h : WHStep t t') : ∀ s k, WHStep (lsub t s k) (lsub t' s k) := by
  induction h with
  | beta b x =>
    intro s k
    rw [← sub_sub b x s 0 k (by omega)]
    simp only [lsub]
    exact WHStep.beta _ _
  | appL x _ ih => intro s k; simp only [lsub]; exact WHStep.appL _ (ih s k)

theorem whs_lift {t t' : LTerm} (h : WHs t t') (k : Nat) : WHs (llift t k) (llift t' k) :=
  Star.map (R := WHStep) (fun t => llift t k) (fun _ _ h => whStep_lift h k) h

theorem whs_sub {t t' : LTerm} (h : WHs t t') (s : LTerm) (k : Nat) : WHs (lsub t s k) (lsub t' s k) :=
  Star.map (R := WHStep) (fun t => lsub t s k) (fun _ _ h => whStep_sub h s k) h

/-- standard reduction -/
inductive St : LTerm → LTerm → Prop where
  | op {t : LTerm} (s : String) : WHs t (.op s) → St t (.op s)
  | src {t : LTerm} (k : Nat) : WHs t (.src k) → St t (.src k)
  | var {t : LTerm} (i : Nat) : WHs t (.var i) → St t (.var i)
  | lam {t b b' : LTerm} : WHs t (.lam b) → St b b' → St t (.lam b')
  | app {t f x f' x' : LTerm} : WHs t (.app f x) → St f f' → St x x' → St t (.app f' x')

theorem St.refl : ∀ t : LTerm, St t t
  | .op s => .op s (.refl _)
  | .src k => .src k (.refl _)
  | .var i => .var i (.refl _)
  | .lam b => .lam (.refl _) (St.refl b)
  | .app f x => .app (.refl _) (St.refl f) (St.refl x)

theorem St.whs {t t' r : LTerm} (h : WHs t t') (hs : St t' r) : St t r := by
  cases hs with
  | op s h' => exact .op s (Star.trans h h')
  | src k h' => exact .src k (Star.trans h h')
  | var i h' => exact .var i (Star.trans h h')
  | lam h' hb => exact .lam (Star.trans h h') hb
  | app h' hf hx => exact .app (Star.trans h h') hf hx

theorem st_lift {t t' : LTerm} (h : St t t') : ∀ k, St (llift t k) (llift t' k) := by
  induction h with
  | op s h => intro k; exact .op s (whs_lift h k)
  | src j h => intro k; exact .src j (whs_lift h k)
  | var i h =>
    intro k
    have := whs_lift h k
    simp only [llift] at this ⊢
    split
    · rename_i hik; rw [if_pos hik] at this; exact .var _ this
    · rename_i hik; rw [if_neg hik] at this; exact .var _ this
  | lam h _ ih => intro k; simp only [llift]; exact .lam (whs_lift h k) (ih (k+1))
  | app h _ _ ihf ihx => intro k; simp only [llift]; exact .app (whs_lift h k) (ihf k) (ihx k)

theorem st_sub {t t' : LTerm} (h : St t t') : ∀ (s s' : LTerm) (k : Nat), St s s' →
    St (lsub t s k) (lsub t' s' k) := by
  induction h with
  | op n h => intro s s' k _; exact .op n (whs_sub h s k)
  | src j h => intro s s' k _; exact .src j (whs_sub h s k)
  | var i h =>
    intro s s' k hs
    refine St.whs (whs_sub h s k) ?_
    simp only [lsub]
    split
    · exact St.refl _
    · split
      · exact hs
      · exact St.refl _
  | lam h _ ih =>
    intro s s' k hs; simp only [lsub]
    exact .lam (whs_sub h s k) (ih _ _ (k+1) (st_lift hs 0))
  | app h _ _ ihf ihx =>
    intro s s' k hs; simp only [lsub]
    exact .app (whs_sub h s k) (ihf s s' k hs) (ihx s s' k hs)

theorem st_lam_inv {t b' : LTerm} (h : St t (.lam b')) : ∃ b, WHs t (.lam b) ∧ St b b' := by
  cases h with
  | lam h hb => exact ⟨_, h, hb⟩

theorem st_app_inv {t f' x' : LTerm} (h : St t (.app f' x')) :
    ∃ f x, WHs t (.app f x) ∧ St f f' ∧ St x x' := by
  cases h with
  | app h hf hx => exact ⟨_, _, h, hf, hx⟩

/-- standard reduction absorbs a beta step on the right -/
theorem st_red {r r' : LTerm} (h : Red r r') : ∀ t, St t r → St t r' := by
  induction h with
  | beta b' x' =>
    intro t hs
    obtain ⟨f, x, ht, hf, hx⟩ := st_app_inv hs
    obtain ⟨b, hfb, hb⟩ := st_lam_inv hf
    rw [beta_eq]
    refine St.whs (Star.trans ht (Star.trans (WHs.appL x hfb) (Star.single (WHStep.beta b x)))) ?_
    exact st_sub hb x x' 0 hx
  | appL x' _ ih =>
    intro t hs
    obtain ⟨f, x, ht, hf, hx⟩ := st_app_inv hs
    exact .app ht (ih f hf) hx
  | appR f' _ ih =>
    intro t hs
    obtain ⟨f, x, ht, hf, hx⟩ := st_app_inv hs
    exact .app ht hf (ih x hx)
  | lam _ ih =>
    intro t hs
    obtain ⟨b, ht, hb⟩ := st_lam_inv hs
    exact .lam ht (ih b hb)

/-- standardisation: every beta reduction sequence can be reordered into a standard one -/
theorem redStar_st {a r : LTerm} (h : RedStar a r) : ∀ t, St t a → St t r := by
  induction h with
  | refl => exact fun _ h => h
  | step hab _ ih => exact fun t hs => ih t (st_red hab t hs)

/-! ## the fuelled evaluators follow weak head steps -/

theorem whnf_pos {n : Nat} {t r : LTerm} (h : whnf n t = some r) : ∃ m, n = m + 1 := by
  cases n with
  | zero => rw [whnf_zero] at h; cases h
  | succ m => exact ⟨m, rfl⟩

theorem nf_pos {n : Nat} {t r : LTerm} (h : nf n t = some r) : ∃ m, n = m + 1 := by
  cases n with
  | zero => rw [nf_zero] at h; cases h
  | succ m => exact ⟨m, rfl⟩

theorem whnf_expand {t t' : LTerm} (h : WHStep t t') : ∀ (n : Nat) (w : LTerm),
    whnf n t' = some w → whnf (n+1) t = some w := by
  induction h with
  | beta b x =>
    intro n w hw
    obtain ⟨m, rfl⟩ := whnf_pos hw
    rw [whnf_app_lam x (whnf_lam m b), beta_eq]; exact hw
  | @appL f f' x _ ih =>
    intro n w hw
    obtain ⟨m, rfl⟩ := whnf_pos hw
    rcases whnf_app_inv hw with ⟨b, hf, hb⟩ | ⟨g, hf, hl, rfl⟩
    · rw [whnf_app_lam x (ih m _ hf)]; exact whnf_mono_succ _ _ _ hb
    · rw [whnf_app_other x (ih m _ hf) hl]

theorem nf_expand {t t' : LTerm} (h : WHStep t t') : ∀ (n : Nat) (r : LTerm),
    nf n t' = some r → nf (n+1) t = some r := by
  cases h with
  | beta b x =>
    intro n r hr
    obtain ⟨m, rfl⟩ := nf_pos hr
    rw [nf_app_lam x (whnf_lam m b), beta_eq]; exact hr
  | @appL f f' x hff =>
    intro n r hr
    obtain ⟨m, rfl⟩ := nf_pos hr
    rcases nf_app_inv hr with ⟨b, hf, hb⟩ | ⟨g, g', x', hf, hl, hg, hx, rfl⟩
    · rw [nf_app_lam x (whnf_expand hff m _ hf)]; exact nf_mono_succ _ _ _ hb
    · rw [nf_app_other x (whnf_expand hff m _ hf) hl, nf_mono_succ _ _ _ hg, nf_mono_succ _ _ _ hx]; rfl

theorem nf_expand_star {t t' : LTerm} (h : WHs t t') : ∀ (r : LTerm),
    (∃ n, nf n t' = some r) → ∃ n, nf n t = some r := by
  induction h with
  | refl => exact fun _ h => h
  | step hab _ ih =>
    intro r hr
    obtain ⟨n, hn⟩ := ih r hr
    exact ⟨n+1, nf_expand hab n r hn⟩

/-- `whnf` is idempotent with the same fuel -/
theorem whnf_idem : ∀ (n : Nat) (t w : LTerm), whnf n t = some w → whnf n w = some w
  | 0, t, w, h => by rw [whnf_zero] at h; cases h
  | n+1, .op s, w, h => by rw [whnf_op] at h; cases h; exact whnf_op n s
  | n+1, .src s, w, h => by rw [whnf_src] at h; cases h; exact whnf_src n s
  | n+1, .var s, w, h => by rw [whnf_var] at h; cases h; exact whnf_var n s
  | n+1, .lam b, w, h => by rw [whnf_lam] at h; cases h; exact whnf_lam n b
  | n+1, .app f x, w, h => by
    rcases whnf_app_inv h with ⟨b, hf, hb⟩ | ⟨g, hf, hl, rfl⟩
    · exact whnf_mono_succ _ _ _ (whnf_idem n _ w hb)
    · exact whnf_app_other x (whnf_idem n f g hf) hl

/-- a normalisation whose result is not an anonymous function goes through a weak head normal form that is
not one either -/
theorem nf_via_whnf : ∀ (n : Nat) (f f' : LTerm), nf n f = some f' → f'.isLam = false →
    ∃ g, whnf n f = some g ∧ g.isLam = false ∧ nf n g = some f'
  | 0, f, f', h, _ => by rw [nf_zero] at h; cases h
  | n+1, .op s, f', h, _ => ⟨.op s, whnf_op n s, rfl, h⟩
  | n+1, .src s, f', h, _ => ⟨.src s, whnf_src n s, rfl, h⟩
  | n+1, .var s, f', h, _ => ⟨.var s, whnf_var n s, rfl, h⟩
  | n+1, .lam b, f', h, hl => by
    obtain ⟨b', _, rfl⟩ := nf_lam_inv h
    cases hl
  | n+1, .app f₁ x₁, f', h, hl => by
    rcases nf_app_inv h with ⟨b, hf, hb⟩ | ⟨g₁, g₁', x₁', hf, hl₁, hg, hx, rfl⟩
    · obtain ⟨g, hg, hgl, hgn⟩ := nf_via_whnf n _ f' hb hl
      exact ⟨g, by rw [whnf_app_lam x₁ hf]; exact hg, hgl, nf_mono_succ _ _ _ hgn⟩
    · refine ⟨.app g₁ x₁, whnf_app_other x₁ hf hl₁, rfl, ?_⟩
      rw [nf_app_other x₁ (whnf_idem n f₁ g₁ hf) hl₁, hg, hx]; rfl

/-- a standard reduction to a term without redex is found by `nf` -/
theorem st_nf {t r : LTerm} (h : St t r) : noRedex r = true → ∃ n, nf n t = some r := by
  induction h with
  | op s h => exact fun _ => nf_expand_star h _ ⟨1, nf_op 0 s⟩
  | src k h => exact fun _ => nf_expand_star h _ ⟨1, nf_src 0 k⟩
  | var i h => exact fun _ => nf_expand_star h _ ⟨1, nf_var 0 i⟩
  | @lam t b b' h _ ih =>
    intro hn
    simp only [noRedex] at hn
    obtain ⟨n, hb⟩ := ih hn
    exact nf_expand_star h _ ⟨n+1, by rw [nf_lam, hb]; rfl⟩
  | @app t f x f' x' h _ _ ihf ihx =>
    intro hn
    simp only [noRedex, Bool.and_eq_true, Bool.not_eq_true'] at hn
    obtain ⟨n₁, hf⟩ := ihf hn.1.2
    obtain ⟨n₂, hx⟩ := ihx hn.2
    have hf' := nf_mono hf (Nat.le_max_left n₁ n₂)
    have hx' := nf_mono hx (Nat.le_max_right n₁ n₂)
    obtain ⟨g, hg, hgl, hgn⟩ := nf_via_whnf _ f f' hf' hn.1.1
    refine nf_expand_star h _ ⟨max n₁ n₂ + 1, ?_⟩
    rw [nf_app_other x hg hgl, hgn, hx']; rfl

/-- normalisation theorem: if `t` has a normal form `r` (reachable by beta steps in ANY order), then the
leftmost-outermost evaluator `nf` returns `r` for all sufficiently large fuel -/
theorem nf_complete {t r : LTerm} (h : RedStar t r) (hn : noRedex r = true) : ∃ n, nf n t = some r :=
  st_nf (redStar_st h t (St.refl t)) hn

/-- `nf` fails for every fuel exactly on the terms without normal form -/
theorem nf_none_iff (t : LTerm) : (∀ n, nf n t = none) ↔ ¬ ∃ r, RedStar t r ∧ noRedex r = true := by
  constructor
  · rintro h ⟨r, hr, hn⟩
    obtain ⟨n, hnf⟩ := nf_complete hr hn
    rw [h n] at hnf; cases hnf
  · intro h n
    cases hnf : nf n t with
    | none => rfl
    | some r => exact absurd ⟨r, nf_sound n t r hnf, nf_noRedex n t r hnf⟩ h

end Tfv.C15P
