import Tfv.Proofs.HistoryConstrStore
/-!
# History independence in the shift form WITH constraints (C16), part 5: the engine block behind a history

Every function of the mutual block (`unify`, `unifyList`, `bind`, `above`, `below`, `fix`, `fixList`,
`checkConstraints`, `checkList`, `fulfill`, `minimize`, `minLoop`) run on the store `σ₀.appendC σ` with shifted
arguments gives the same error as, or the shifted result of, its counterpart with fuel offsets
(`unifyE L σ₀.vars.length …`) run on `σ`: ONE induction on the fuel. Hypotheses: the part of the store behind the
history is closed (`Behind σ₀ σ`: its bindings, constraint sets and constraints mention allocated objects behind the
history only) and the arguments are over allocated variables. Nothing is assumed about the history `σ₀`.
-/
namespace Tfv.C16H
open Tfv Tfv.C03P Tfv.C16P Tfv.C03C Tfv.C16C Tfv.C18P

/-! ## 1. the statements proved by induction on the fuel -/

def UnifyH (L : Lang) (σ₀ : Store) (n : Nat) : Prop :=
  ∀ σ a b st sb sw, Behind σ₀ σ → TermScoped σ a → TermScoped σ b →
    unify L n (σ₀.appendC σ) (a.shift σ₀.vars.length) (b.shift σ₀.vars.length) st sb sw =
      shR σ₀ (unifyE L σ₀.vars.length n σ a b st sb sw)

def UnifyListH (L : Lang) (σ₀ : Store) (n : Nat) : Prop :=
  ∀ σ vs xs ys st sb sw, Behind σ₀ σ → (∀ t, t ∈ xs → TermScoped σ t) → (∀ t, t ∈ ys → TermScoped σ t) →
    unifyList L n (σ₀.appendC σ) vs (Term.shiftL σ₀.vars.length xs) (Term.shiftL σ₀.vars.length ys) st sb sw =
      shR σ₀ (unifyListE L σ₀.vars.length n σ vs xs ys st sb sw)

def BindH (L : Lang) (σ₀ : Store) (n : Nat) : Prop :=
  ∀ σ v t, Behind σ₀ σ → v < σ.vars.length → TermScoped σ t →
    bind L n (σ₀.appendC σ) (v + σ₀.vars.length) (t.shift σ₀.vars.length) =
      shR σ₀ (bindE L σ₀.vars.length n σ v t)

def AboveH (L : Lang) (σ₀ : Store) (n : Nat) : Prop :=
  ∀ σ v new, Behind σ₀ σ → v < σ.vars.length →
    above L n (σ₀.appendC σ) (v + σ₀.vars.length) new = shR σ₀ (aboveE L σ₀.vars.length n σ v new)

def BelowH (L : Lang) (σ₀ : Store) (n : Nat) : Prop :=
  ∀ σ v new, Behind σ₀ σ → v < σ.vars.length →
    below L n (σ₀.appendC σ) (v + σ₀.vars.length) new = shR σ₀ (belowE L σ₀.vars.length n σ v new)

def FixH (L : Lang) (σ₀ : Store) (n : Nat) : Prop :=
  ∀ σ t pl, Behind σ₀ σ → TermScoped σ t →
    fix L n (σ₀.appendC σ) (t.shift σ₀.vars.length) pl = afterHistoryC σ₀ (fixE L σ₀.vars.length n σ t pl)

def FixListH (L : Lang) (σ₀ : Store) (n : Nat) : Prop :=
  ∀ σ vs ps pl, Behind σ₀ σ → (∀ t, t ∈ ps → TermScoped σ t) →
    fixList L n (σ₀.appendC σ) vs (Term.shiftL σ₀.vars.length ps) pl =
      shR σ₀ (fixListE L σ₀.vars.length n σ vs ps pl)

def CheckH (L : Lang) (σ₀ : Store) (n : Nat) : Prop :=
  ∀ σ v, Behind σ₀ σ → v < σ.vars.length →
    checkConstraints L n (σ₀.appendC σ) (v + σ₀.vars.length) =
      shR σ₀ (checkConstraintsE L σ₀.vars.length n σ v)

def CheckListH (L : Lang) (σ₀ : Store) (n : Nat) : Prop :=
  ∀ σ v cs, Behind σ₀ σ → v < σ.vars.length → (∀ c, c ∈ cs → c < σ.constrs.length) →
    checkList L n (σ₀.appendC σ) (v + σ₀.vars.length) (shiftIds σ₀.constrs.length cs) =
      shR σ₀ (checkListE L σ₀.vars.length n σ v cs)

def FulfillH (L : Lang) (σ₀ : Store) (n : Nat) : Prop :=
  ∀ σ c, Behind σ₀ σ → c < σ.constrs.length →
    fulfill L n (σ₀.appendC σ) (c + σ₀.constrs.length) = shB σ₀ (fulfillE L σ₀.vars.length n σ c)

def MinimizeH (L : Lang) (σ₀ : Store) (n : Nat) : Prop :=
  ∀ σ c, Behind σ₀ σ → c < σ.constrs.length →
    minimize L n (σ₀.appendC σ) (c + σ₀.constrs.length) = shR σ₀ (minimizeE L σ₀.vars.length n σ c)

def MinLoopH (L : Lang) (σ₀ : Store) (n : Nat) : Prop :=
  ∀ σ alts mins, Behind σ₀ σ → (∀ t, t ∈ alts → TermScoped σ t) → (∀ t, t ∈ mins → TermScoped σ t) →
    minLoop L n (σ₀.appendC σ) (Term.shiftL σ₀.vars.length alts) (Term.shiftL σ₀.vars.length mins) =
      shL σ₀ (minLoopE L σ₀.vars.length n σ alts mins)

/-! ## 2. `checkConstraints`, `checkList` -/

theorem check_stepH {L : Lang} {σ₀ : Store} {n : Nat} (hlist : CheckListH L σ₀ n) : CheckH L σ₀ (n+1) := by
  intro σ v hc hv
  rw [checkConstraints, checkConstraintsE, getCsetOf_appendC hv]
  exact hlist σ v _ hc hv (hc.cset_lt hv)

theorem checkList_stepH {L : Lang} {σ₀ : Store} {n : Nat} (hful : FulfillH L σ₀ n) (hlist : CheckListH L σ₀ n) :
    CheckListH L σ₀ (n+1) := by
  intro σ v cs hc hv hcs
  cases cs with
  | nil => rw [shiftIds_nil, checkList_nil', checkListE_nil']; rfl
  | cons c cs =>
    have hcl := hcs c List.mem_cons_self
    rw [shiftIds_cons, checkList_cons', checkListE_cons', hful σ c hc hcl]
    cases e1 : fulfillE L σ₀.vars.length n σ c with
    | error e => rfl
    | ok p =>
      obtain ⟨σ1, done⟩ := p
      simp only [shB_ok]
      have e1' : fulfill L n (σ₀.appendC σ) (c + σ₀.constrs.length) = .ok (σ₀.appendC σ1, done) := by
        rw [hful σ c hc hcl, e1]; rfl
      have f1 := (all_frameC L n).2.2.2.2.2.2.2.2.2.1 _ _ _ _ done hc (hc.cin hcl).1 (hc.cin hcl).2 e1'
      obtain ⟨hc1, g1⟩ := behind_of_frC f1
      have hv1 : v < σ1.vars.length := Nat.lt_of_lt_of_le hv g1.vlen
      have hcs1 : ∀ d, d ∈ cs → d < σ1.constrs.length := fun d hd =>
        Nat.lt_of_lt_of_le (hcs d (List.mem_cons_of_mem _ hd)) g1.clen
      cases done with
      | false =>
        simp only [Bool.false_eq_true, if_false]
        exact hlist σ1 v cs hc1 hv1 hcs1
      | true =>
        simp only [if_true]
        rw [getCsetOf_appendC hv1, filter_ne_shift, getVar_appendC_ge hv1, shiftI_cset, setCset_appendC]
        have hk := hc1.cs _ (hc1.ins hv1).2 (hc1.ins hv1).1
        have f2 := frC_setCset hc1 hk (cs := (getCset (σ₀.appendC σ1)
            (getVar (σ₀.appendC σ1) (v + σ₀.vars.length)).cset).filter (· != c + σ₀.constrs.length))
          (fun d hd => hc1.mem _ d hk (List.mem_filter.mp hd).1)
        rw [getCsetOf_appendC hv1, filter_ne_shift, getVar_appendC_ge hv1, shiftI_cset, setCset_appendC] at f2
        obtain ⟨hc2, g2⟩ := behind_of_frC f2
        exact hlist _ v cs hc2 (Nat.lt_of_lt_of_le hv1 g2.vlen)
          (fun d hd => Nat.lt_of_lt_of_le (hcs1 d hd) g2.clen)

/-! ## 3. `above`, `below` -/

theorem mk_shift_map (k j : Nat) (b : Option Term) (l u : Option Nat) (w : Bool) (c : Nat) :
    ({ bound := b.map (Term.shift k), lower := l, upper := u, wildcard := w, cset := c + j } : VarInfo) =
      VarInfo.shift k j { bound := b, lower := l, upper := u, wildcard := w, cset := c } := rfl

theorem behind_setVar_same {σ₀ σ : Store} (hc : Behind σ₀ σ) {v : Nat} (hv : v < σ.vars.length) (i : VarInfo)
    (hb : i.bound = (getVar σ v).bound) (hk : i.cset = (getVar σ v).cset) : Behind σ₀ (setVar σ v i) := by
  have f := (FrC.refl hc).put_same (hc.ins hv) (i.shift σ₀.vars.length σ₀.csets.length)
    (by rw [getVar_appendC_ge hv, shiftI_bound, shiftI_bound, hb])
    (by rw [getVar_appendC_ge hv, shiftI_cset, shiftI_cset, hk])
  rw [setVar_appendC] at f
  exact f.closed

theorem aboveTailH {L : Lang} {σ₀ : Store} {n : Nat} (hbind : BindH L σ₀ n) {σ1 : Store} {v : Nat}
    (hc1 : Behind σ₀ σ1) (hv1 : v < σ1.vars.length) :
    (if ((getVar (σ₀.appendC σ1) (v + σ₀.vars.length)).bound.isNone &&
          (getVar (σ₀.appendC σ1) (v + σ₀.vars.length)).lower.isSome &&
          (getVar (σ₀.appendC σ1) (v + σ₀.vars.length)).lower ==
            (getVar (σ₀.appendC σ1) (v + σ₀.vars.length)).upper) = true then
        match (getVar (σ₀.appendC σ1) (v + σ₀.vars.length)).lower with
        | some l => bind L n (σ₀.appendC σ1) (v + σ₀.vars.length) (Term.app l [])
        | none => Except.ok (σ₀.appendC σ1)
      else Except.ok (σ₀.appendC σ1)) =
    shR σ₀ (if ((getVar σ1 v).bound.isNone && (getVar σ1 v).lower.isSome &&
          (getVar σ1 v).lower == (getVar σ1 v).upper) = true then
        match (getVar σ1 v).lower with
        | some l => bindE L σ₀.vars.length n σ1 v (Term.app l [])
        | none => Except.ok σ1
      else Except.ok σ1) := by
  rw [getVar_appendC_ge hv1]
  simp only [shiftI_bound, shiftI_lower, shiftI_upper, Option.isNone_map]
  split
  · cases (getVar σ1 v).lower with
    | none => rfl
    | some l =>
      simp only []
      have := hbind σ1 v (.app l []) hc1 hv1 (termScoped_base _)
      rw [shift_app, shiftL_nil] at this
      exact this
  · rfl

theorem belowTailH {L : Lang} {σ₀ : Store} {n : Nat} (hbind : BindH L σ₀ n) {σ1 : Store} {v : Nat}
    (hc1 : Behind σ₀ σ1) (hv1 : v < σ1.vars.length) :
    (if ((getVar (σ₀.appendC σ1) (v + σ₀.vars.length)).bound.isNone &&
          (getVar (σ₀.appendC σ1) (v + σ₀.vars.length)).upper.isSome &&
          (getVar (σ₀.appendC σ1) (v + σ₀.vars.length)).upper ==
            (getVar (σ₀.appendC σ1) (v + σ₀.vars.length)).lower) = true then
        match (getVar (σ₀.appendC σ1) (v + σ₀.vars.length)).upper with
        | some l => bind L n (σ₀.appendC σ1) (v + σ₀.vars.length) (Term.app l [])
        | none => Except.ok (σ₀.appendC σ1)
      else Except.ok (σ₀.appendC σ1)) =
    shR σ₀ (if ((getVar σ1 v).bound.isNone && (getVar σ1 v).upper.isSome &&
          (getVar σ1 v).upper == (getVar σ1 v).lower) = true then
        match (getVar σ1 v).upper with
        | some l => bindE L σ₀.vars.length n σ1 v (Term.app l [])
        | none => Except.ok σ1
      else Except.ok σ1) := by
  rw [getVar_appendC_ge hv1]
  simp only [shiftI_bound, shiftI_lower, shiftI_upper, Option.isNone_map]
  split
  · cases (getVar σ1 v).upper with
    | none => rfl
    | some l =>
      simp only []
      have := hbind σ1 v (.app l []) hc1 hv1 (termScoped_base _)
      rw [shift_app, shiftL_nil] at this
      exact this
  · rfl

theorem above_stepH {L : Lang} {σ₀ : Store} {n : Nat} (hbind : BindH L σ₀ n) (hcheck : CheckH L σ₀ n) :
    AboveH L σ₀ (n+1) := by
  intro σ v new hc hv
  rw [above, aboveE]
  by_cases hT : (new == TOP) = true
  · simp only [hT, if_true]
    have := hbind σ v (.app TOP []) hc hv (termScoped_base _)
    rw [shift_app, shiftL_nil] at this
    exact this
  · simp only [hT, Bool.false_eq_true, if_false]
    rw [getVar_appendC_ge hv]
    simp only [shiftI_bound, shiftI_lower, shiftI_upper, shiftI_cset, mk_shift_map, setVar_appendC,
      Option.isSome_map]
    have hc1 : Behind σ₀ (setVar σ v { (getVar σ v) with wildcard := false }) :=
      behind_setVar_same hc hv _ rfl rfl
    have hv1 : v < (setVar σ v { (getVar σ v) with wildcard := false }).vars.length := by
      rw [length_setVar]; exact hv
    by_cases h0 : (getVar σ v).bound.isSome = true
    · simp only [h0, if_true, shR_error]
    · simp only [h0, Bool.false_eq_true, if_false]
      by_cases h1 : Option.any (fun u => opSub L u new true) (getVar σ v).upper = true
      · simp only [h1, if_true, shR_error]
      · simp only [h1, Bool.false_eq_true, if_false]
        by_cases h2 : Option.any (fun u => !opSub L new u) (getVar σ v).upper = true
        · simp only [h2, if_true, shR_error]
        · simp only [h2, Bool.false_eq_true, if_false]
          by_cases h3 : Option.any (fun l => opSub L new l true) (getVar σ v).lower = true
          · simp only [h3, if_true]
            exact aboveTailH hbind hc1 hv1
          · simp only [h3, Bool.false_eq_true, if_false]
            by_cases h4 : Option.all (fun l => opSub L l new) (getVar σ v).lower = true
            · simp only [h4, if_true]
              have hc2 : Behind σ₀ (setVar (setVar σ v { (getVar σ v) with wildcard := false }) v
                  { bound := (getVar σ v).bound, lower := some new, upper := (getVar σ v).upper,
                    cset := (getVar σ v).cset }) := by
                refine behind_setVar_same hc1 hv1 _ ?_ ?_
                · rw [getVar_setVar_eq _ hv]
                · rw [getVar_setVar_eq _ hv]
              have hv2 : v < (setVar (setVar σ v { (getVar σ v) with wildcard := false }) v
                  { bound := (getVar σ v).bound, lower := some new, upper := (getVar σ v).upper,
                    cset := (getVar σ v).cset }).vars.length := by
                rw [length_setVar]; exact hv1
              rw [hcheck _ v hc2 hv2]
              cases e1 : checkConstraintsE L σ₀.vars.length n _ v with
              | error e => rfl
              | ok σ1 =>
                simp only [shR_ok]
                have e1' := hcheck _ v hc2 hv2
                rw [e1] at e1'
                have f1 := (all_frameC L n).2.2.2.2.2.2.2.1 _ _ _ _ hc2 (hc2.ins hv2) e1'
                obtain ⟨hc3, g3⟩ := behind_of_frC f1
                exact aboveTailH hbind hc3 (Nat.lt_of_lt_of_le hv2 g3.vlen)
            · simp only [h4, Bool.false_eq_true, if_false, shR_error]

theorem below_stepH {L : Lang} {σ₀ : Store} {n : Nat} (hbind : BindH L σ₀ n) (hcheck : CheckH L σ₀ n) :
    BelowH L σ₀ (n+1) := by
  intro σ v new hc hv
  rw [below, belowE]
  by_cases hT : (new == BOT) = true
  · simp only [hT, if_true]
    have := hbind σ v (.app BOT []) hc hv (termScoped_base _)
    rw [shift_app, shiftL_nil] at this
    exact this
  · simp only [hT, Bool.false_eq_true, if_false]
    rw [getVar_appendC_ge hv]
    simp only [shiftI_bound, shiftI_lower, shiftI_upper, shiftI_cset, mk_shift_map, setVar_appendC,
      Option.isSome_map]
    have hc1 : Behind σ₀ (setVar σ v { (getVar σ v) with wildcard := false }) :=
      behind_setVar_same hc hv _ rfl rfl
    have hv1 : v < (setVar σ v { (getVar σ v) with wildcard := false }).vars.length := by
      rw [length_setVar]; exact hv
    by_cases h0 : (getVar σ v).bound.isSome = true
    · simp only [h0, if_true, shR_error]
    · simp only [h0, Bool.false_eq_true, if_false]
      by_cases h1 : Option.any (fun l => opSub L new l true) (getVar σ v).lower = true
      · simp only [h1, if_true, shR_error]
      · simp only [h1, Bool.false_eq_true, if_false]
        by_cases h2 : Option.any (fun l => !opSub L l new) (getVar σ v).lower = true
        · simp only [h2, if_true, shR_error]
        · simp only [h2, Bool.false_eq_true, if_false]
          by_cases h3 : Option.any (fun u => opSub L u new true) (getVar σ v).upper = true
          · simp only [h3, if_true]
            exact belowTailH hbind hc1 hv1
          · simp only [h3, Bool.false_eq_true, if_false]
            by_cases h4 : Option.all (fun u => opSub L new u) (getVar σ v).upper = true
            · simp only [h4, if_true]
              have hc2 : Behind σ₀ (setVar (setVar σ v { (getVar σ v) with wildcard := false }) v
                  { bound := (getVar σ v).bound, lower := (getVar σ v).lower, upper := some new,
                    cset := (getVar σ v).cset }) := by
                refine behind_setVar_same hc1 hv1 _ ?_ ?_
                · rw [getVar_setVar_eq _ hv]
                · rw [getVar_setVar_eq _ hv]
              have hv2 : v < (setVar (setVar σ v { (getVar σ v) with wildcard := false }) v
                  { bound := (getVar σ v).bound, lower := (getVar σ v).lower, upper := some new,
                    cset := (getVar σ v).cset }).vars.length := by
                rw [length_setVar]; exact hv1
              rw [hcheck _ v hc2 hv2]
              cases e1 : checkConstraintsE L σ₀.vars.length n _ v with
              | error e => rfl
              | ok σ1 =>
                simp only [shR_ok]
                have e1' := hcheck _ v hc2 hv2
                rw [e1] at e1'
                have f1 := (all_frameC L n).2.2.2.2.2.2.2.1 _ _ _ _ hc2 (hc2.ins hv2) e1'
                obtain ⟨hc3, g3⟩ := behind_of_frC f1
                exact belowTailH hbind hc3 (Nat.lt_of_lt_of_le hv2 g3.vlen)
            · simp only [h4, Bool.false_eq_true, if_false, shR_error]

/-! ## 4. `bind` -/

theorem bind_stepH {L : Lang} {σ₀ : Store} {n : Nat} (hunify : UnifyH L σ₀ n) (hcheck : CheckH L σ₀ n) :
    BindH L σ₀ (n+1) := by
  intro σ v t hc hv ht
  cases t with
  | var tv =>
    have htv := termScoped_var.mp ht
    rw [shift_var, bind_var_eq, bindE_var_eq, getVar_appendC_ge hv]
    simp only [shiftI_bound, shiftI_lower, shiftI_upper, Option.isSome_map, beq_add_right]
    by_cases h0 : (getVar σ v).bound.isSome = true
    · simp only [h0, if_true, shR_error]
    · simp only [h0, Bool.false_eq_true, if_false]
      by_cases h1 : (tv == v) = true
      · simp only [h1, if_true, setClearW_appendC hv, shR_ok]
      · simp only [h1, Bool.false_eq_true, if_false]
        rw [bindVarStore_appendC hv htv]
        have fB := frC_bindVarStore hc (hc.ins hv) (hc.ins htv)
        rw [bindVarStore_appendC hv htv] at fB
        obtain ⟨hcB, gB⟩ := behind_of_frC fB
        have cont1 : ∀ σ1, Behind σ₀ σ1 → v < σ1.vars.length → tv < σ1.vars.length →
            (match (match (getVar σ v).upper with
                | some u => unify L n (σ₀.appendC σ1) (.var (tv + σ₀.vars.length)) (.app u []) true false false
                | none => .ok (σ₀.appendC σ1)) with
              | .error e => .error e
              | .ok σ2 => checkConstraints L n σ2 (v + σ₀.vars.length)) =
            shR σ₀ (match (match (getVar σ v).upper with
                | some u => unifyE L σ₀.vars.length n σ1 (.var tv) (.app u []) true false false
                | none => .ok σ1) with
              | .error e => .error e
              | .ok σ2 => checkConstraintsE L σ₀.vars.length n σ2 v) := by
          intro σ1 hc1 hv1 htv1
          cases (getVar σ v).upper with
          | none => exact hcheck σ1 v hc1 hv1
          | some u =>
            simp only []
            have hu := hunify σ1 (.var tv) (.app u []) true false false hc1 (termScoped_var.mpr htv1)
              (termScoped_base _)
            rw [shift_var, shift_app, shiftL_nil] at hu
            rw [hu]
            cases e2 : unifyE L σ₀.vars.length n σ1 (.var tv) (.app u []) true false false with
            | error e => rfl
            | ok σ2 =>
              simp only [shR_ok]
              rw [e2] at hu
              have f2 := (all_frameC L n).1 _ _ _ _ _ _ _ _ hc1 (termInR_var.mpr (hc1.ins htv1))
                (termInR_base _) hu
              obtain ⟨hc2, g2⟩ := behind_of_frC f2
              exact hcheck σ2 v hc2 (Nat.lt_of_lt_of_le hv1 g2.vlen)
        cases (getVar σ v).lower with
        | none =>
          exact cont1 _ hcB (Nat.lt_of_lt_of_le hv gB.vlen) (Nat.lt_of_lt_of_le htv gB.vlen)
        | some l =>
          simp only []
          have hl := hunify (bindVarStore σ v tv) (.app l []) (.var tv) true false false hcB (termScoped_base _)
            (termScoped_var.mpr (Nat.lt_of_lt_of_le htv gB.vlen))
          rw [shift_var, shift_app, shiftL_nil] at hl
          rw [hl]
          cases e1 : unifyE L σ₀.vars.length n (bindVarStore σ v tv) (.app l []) (.var tv) true false false with
          | error e => rfl
          | ok σ1 =>
            simp only [shR_ok]
            rw [e1] at hl
            have f1 := (all_frameC L n).1 _ _ _ _ _ _ _ _ hcB (termInR_base _)
              (termInR_var.mpr (hcB.ins (Nat.lt_of_lt_of_le htv gB.vlen))) hl
            obtain ⟨hc1, g1⟩ := behind_of_frC f1
            exact cont1 σ1 hc1 (Nat.lt_of_lt_of_le hv (gB.trans g1).vlen)
              (Nat.lt_of_lt_of_le htv (gB.trans g1).vlen)
  | app o args =>
    rw [shift_app, bind_app_eq, bindE_app_eq, getVar_appendC_ge hv]
    simp only [shiftI_bound, shiftI_lower, shiftI_upper, Option.isSome_map]
    by_cases h0 : (getVar σ v).bound.isSome = true
    · simp only [h0, if_true, shR_error]
    · simp only [h0, Bool.false_eq_true, if_false]
      by_cases ha : (arityOf L o == 0) = true
      · simp only [ha, if_true]
        by_cases h1 : Option.any (fun l => opSub L o l true) (getVar σ v).lower = true
        · simp only [h1, if_true, shR_error]
        · simp only [h1, Bool.false_eq_true, if_false]
          by_cases h2 : Option.any (fun u => opSub L u o true) (getVar σ v).upper = true
          · simp only [h2, if_true, shR_error]
          · simp only [h2, Bool.false_eq_true, if_false]
            have fB := frC_bindBaseStore hc (hc.ins hv) (hc.tin ht)
            rw [bindBaseStore_appendC hv] at fB
            obtain ⟨hcB, gB⟩ := behind_of_frC fB
            rw [← shift_app, bindBaseStore_appendC hv]
            exact hcheck _ v hcB (Nat.lt_of_lt_of_le hv gB.vlen)
      · simp only [ha, Bool.false_eq_true, if_false]
        by_cases h1 : ((getVar σ v).lower.isSome || (getVar σ v).upper.isSome) = true
        · simp only [h1, if_true, shR_error]
        · simp only [h1, Bool.false_eq_true, if_false]
          have fA := frC_bindAppStore hc (hc.ins hv) (hc.tin ht)
          rw [bindAppStore_appendC hc hv ht] at fA
          obtain ⟨hcA, gA⟩ := behind_of_frC fA
          rw [← shift_app, bindAppStore_appendC hc hv ht]
          exact hcheck _ v hcA (Nat.lt_of_lt_of_le hv gA.vlen)

/-! ## 5. `unify`, `unifyList` -/

theorem length_shiftL (k : Nat) (ts : List Term) : (Term.shiftL k ts).length = ts.length := by
  rw [shiftL_eq_map, List.length_map]

theorem followTE_scoped {σ₀ σ : Store} (hc : Behind σ₀ σ) {t : Term} (ht : TermScoped σ t) :
    TermScoped σ (followTE σ₀.vars.length σ t) := by
  have := followT_inR hc (hc.tin ht)
  rw [followT_appendC] at this
  exact termInB_iff.mp this

theorem newVars_scoped {σ₀ σ : Store} (hc : Behind σ₀ σ) (m : Nat) :
    Behind σ₀ (newVars σ m).1 ∧ Grow σ (newVars σ m).1 ∧ ∀ t, t ∈ (newVars σ m).2 → TermScoped (newVars σ m).1 t := by
  obtain ⟨fN, hfresh⟩ := frC_newVars (R := beyond σ₀) m hc
  rw [newVars_appendC] at fN hfresh
  obtain ⟨hcN, gN⟩ := behind_of_frC fN
  exact ⟨hcN, gN, termsInB_iff.mp hfresh⟩

theorem unify_stepH {L : Lang} {σ₀ : Store} {n : Nat} (hunify : UnifyH L σ₀ n) (hlist : UnifyListH L σ₀ n)
    (hbind : BindH L σ₀ n) (habove : AboveH L σ₀ n) (hbelow : BelowH L σ₀ n) : UnifyH L σ₀ (n+1) := by
  intro σ x y st sb sw hc hx hy
  have hx' := followTE_scoped hc hx
  have hy' := followTE_scoped hc hy
  rw [unify, unifyE, followT_appendC, followT_appendC, termFuel_appendC]
  cases ex : followTE σ₀.vars.length σ x with
  | var av =>
    rw [ex] at hx'
    have hav := termScoped_var.mp hx'
    cases ey : followTE σ₀.vars.length σ y with
    | var bv =>
      rw [ey] at hy'
      have hbv := termScoped_var.mp hy'
      simp only [shift_var, (getVar_appendC_core σ₀ σ av).2.2.2, (getVar_appendC_core σ₀ σ bv).2.2.2]
      split
      · have := hbind σ av (.var bv) hc hav hy'
        rw [shift_var] at this
        exact this
      · rfl
    | app bo bs =>
      rw [ey] at hy'
      have ho := occurs_appendC L σ₀ σ (termFuelE σ₀.vars.length σ) (.app bo bs) (.var av)
      rw [shift_app, shift_var] at ho
      simp only [shift_var, shift_app, ho, (getVar_appendC_core σ₀ σ av).2.2.2]
      have hb0 := hbind σ av (.app bo bs) hc hav hy'
      rw [shift_app] at hb0
      split
      · rfl
      · split
        · rfl
        · split
          · split
            · rfl
            · split
              · exact hbelow σ av bo hc hav
              · exact hb0
          · split
            · obtain ⟨hcN, gN, hfresh⟩ := newVars_scoped hc bs.length
              rw [length_shiftL, newVars_appendC, newVars_eta σ]
              simp only []
              have hb1 := hbind (newVars σ bs.length).1 av (.app bo (newVars σ bs.length).2) hcN
                (Nat.lt_of_lt_of_le hav gN.vlen) (termScoped_app.mpr hfresh)
              rw [shift_app] at hb1
              rw [hb1]
              cases e2 : bindE L σ₀.vars.length n (newVars σ bs.length).1 av (.app bo (newVars σ bs.length).2) with
              | error e => rfl
              | ok σ2 =>
                simp only [shR_ok]
                rw [e2] at hb1
                have f2 := (all_frameC L n).2.2.1 _ _ _ _ _ hcN (hcN.ins (Nat.lt_of_lt_of_le hav gN.vlen))
                  (termInR_app.mpr (termsInB_iff.mpr hfresh)) hb1
                obtain ⟨hc2, g2⟩ := behind_of_frC f2
                have := hunify σ2 (.var av) (.app bo bs) st sb sw hc2 ((gN.trans g2).ts hx') ((gN.trans g2).ts hy')
                rw [shift_var, shift_app] at this
                exact this
            · exact hb0
  | app ao as =>
    rw [ex] at hx'
    cases ey : followTE σ₀.vars.length σ y with
    | var bv =>
      rw [ey] at hy'
      have hbv := termScoped_var.mp hy'
      have ho := occurs_appendC L σ₀ σ (termFuelE σ₀.vars.length σ) (.app ao as) (.var bv)
      rw [shift_app, shift_var] at ho
      simp only [shift_var, shift_app, ho, (getVar_appendC_core σ₀ σ bv).2.2.2]
      have hb0 := hbind σ bv (.app ao as) hc hbv hx'
      rw [shift_app] at hb0
      split
      · rfl
      · split
        · rfl
        · split
          · split
            · rfl
            · split
              · exact habove σ bv ao hc hbv
              · exact hb0
          · split
            · obtain ⟨hcN, gN, hfresh⟩ := newVars_scoped hc as.length
              rw [length_shiftL, newVars_appendC, newVars_eta σ]
              simp only []
              have hb1 := hbind (newVars σ as.length).1 bv (.app ao (newVars σ as.length).2) hcN
                (Nat.lt_of_lt_of_le hbv gN.vlen) (termScoped_app.mpr hfresh)
              rw [shift_app] at hb1
              rw [hb1]
              cases e2 : bindE L σ₀.vars.length n (newVars σ as.length).1 bv (.app ao (newVars σ as.length).2) with
              | error e => rfl
              | ok σ2 =>
                simp only [shR_ok]
                rw [e2] at hb1
                have f2 := (all_frameC L n).2.2.1 _ _ _ _ _ hcN (hcN.ins (Nat.lt_of_lt_of_le hbv gN.vlen))
                  (termInR_app.mpr (termsInB_iff.mpr hfresh)) hb1
                obtain ⟨hc2, g2⟩ := behind_of_frC f2
                have := hunify σ2 (.var bv) (.var bv) st sb sw hc2 ((gN.trans g2).ts hy') ((gN.trans g2).ts hy')
                rw [shift_var] at this
                exact this
            · exact hb0
    | app bo bs =>
      rw [ey] at hy'
      simp only [shift_app]
      split
      · rfl
      · split
        · split
          · rfl
          · split
            · rfl
            · split
              · rfl
              · rfl
        · split
          · exact hlist σ _ as bs st sb sw hc (termScoped_app.mp hx') (termScoped_app.mp hy')
          · rfl

theorem unifyList_stepH {L : Lang} {σ₀ : Store} {n : Nat} (hunify : UnifyH L σ₀ n) (hlist : UnifyListH L σ₀ n) :
    UnifyListH L σ₀ (n+1) := by
  intro σ vs xs ys st sb sw hc hxs hys
  by_cases hcase : ∃ v vs' x xs' y ys', vs = v :: vs' ∧ xs = x :: xs' ∧ ys = y :: ys'
  · obtain ⟨v, vs, x, xs, y, ys, rfl, rfl, rfl⟩ := hcase
    have hx := hxs x List.mem_cons_self
    have hy := hys y List.mem_cons_self
    have hxs' : ∀ t, t ∈ xs → TermScoped σ t := fun t ht => hxs t (List.mem_cons_of_mem _ ht)
    have hys' : ∀ t, t ∈ ys → TermScoped σ t := fun t ht => hys t (List.mem_cons_of_mem _ ht)
    rw [shiftL_cons, shiftL_cons, unifyList_cons, unifyListE_cons]
    cases v with
    | true =>
      simp only [if_true]
      have h1 := hunify σ x y st sb sw hc hx hy
      rw [h1]
      cases e1 : unifyE L σ₀.vars.length n σ x y st sb sw with
      | error e => rfl
      | ok σ1 =>
        simp only [shR_ok]
        rw [e1] at h1
        have f1 := (all_frameC L n).1 _ _ _ _ _ _ _ _ hc (hc.tin hx) (hc.tin hy) h1
        obtain ⟨hc1, g1⟩ := behind_of_frC f1
        exact hlist σ1 vs xs ys st sb sw hc1 (g1.tss hxs') (g1.tss hys')
    | false =>
      simp only [Bool.false_eq_true, if_false]
      have h1 := hunify σ y x st sb sw hc hy hx
      rw [h1]
      cases e1 : unifyE L σ₀.vars.length n σ y x st sb sw with
      | error e => rfl
      | ok σ1 =>
        simp only [shR_ok]
        rw [e1] at h1
        have f1 := (all_frameC L n).1 _ _ _ _ _ _ _ _ hc (hc.tin hy) (hc.tin hx) h1
        obtain ⟨hc1, g1⟩ := behind_of_frC f1
        exact hlist σ1 vs xs ys st sb sw hc1 (g1.tss hxs') (g1.tss hys')
  · rcases unifyListE_cases L σ₀.vars.length n σ vs xs ys st sb sw with h | e1
    · exact absurd h hcase
    · rcases unifyList_cases L n (σ₀.appendC σ) vs (Term.shiftL σ₀.vars.length xs)
          (Term.shiftL σ₀.vars.length ys) st sb sw with h | e2
      · exfalso
        obtain ⟨v, vs', x, xs', y, ys', q1, q2, q3⟩ := h
        apply hcase
        cases xs with
        | nil => rw [shiftL_nil] at q2; cases q2
        | cons x0 xs0 =>
          cases ys with
          | nil => rw [shiftL_nil] at q3; cases q3
          | cons y0 ys0 => exact ⟨v, vs', x0, xs0, y0, ys0, q1, rfl, rfl⟩
      · rw [e1, e2]; rfl

/-! ## 6. `fix`, `fixList` -/

theorem fixTailH (σ₀ : Store) (v : Nat) (r : Except Err Store) :
    (match shR σ₀ r with
      | .error e => .error e
      | .ok τ1 => .ok (τ1, followT τ1 (.var (v + σ₀.vars.length)))) =
    afterHistoryC σ₀ (match r with
      | .error e => .error e
      | .ok σ1 => .ok (σ1, followTE σ₀.vars.length σ1 (.var v))) := by
  cases r with
  | error e => rfl
  | ok σ1 =>
    simp only [shR_ok, shP_ok]
    rw [← followT_appendC, shift_var]

theorem fix_stepH {L : Lang} {σ₀ : Store} {n : Nat} (hbind : BindH L σ₀ n) (hlist : FixListH L σ₀ n) :
    FixH L σ₀ (n+1) := by
  intro σ t pl hc ht
  have ht' := followTE_scoped hc ht
  rw [fix, fixE, followT_appendC]
  cases et : followTE σ₀.vars.length σ t with
  | app o args =>
    rw [et] at ht'
    simp only [shift_app]
    rw [hlist σ _ args pl hc (termScoped_app.mp ht')]
    cases fixListE L σ₀.vars.length n σ (varianceOf L o) args pl with
    | error e => rfl
    | ok σ1 => simp only [shR_ok, shP_ok, shift_app]
  | var v =>
    rw [et] at ht'
    have hv := termScoped_var.mp ht'
    simp only [shift_var]
    rw [getVar_appendC_ge hv]
    simp only [shiftI_lower, shiftI_upper]
    by_cases h1 : (pl && (getVar σ v).lower.isSome) = true
    · simp only [h1, if_true]
      cases hl : (getVar σ v).lower with
      | none => exact fixTailH σ₀ v (.ok σ)
      | some l =>
        simp only []
        have hb := hbind σ v (.app l []) hc hv (termScoped_base _)
        rw [shift_app, shiftL_nil] at hb
        rw [hb]
        exact fixTailH σ₀ v _
    · simp only [h1, Bool.false_eq_true, if_false]
      by_cases h2 : (!pl && (getVar σ v).upper.isSome) = true
      · simp only [h2, if_true]
        cases hu : (getVar σ v).upper with
        | none => exact fixTailH σ₀ v (.ok σ)
        | some u =>
          simp only []
          have hb := hbind σ v (.app u []) hc hv (termScoped_base _)
          rw [shift_app, shiftL_nil] at hb
          rw [hb]
          exact fixTailH σ₀ v _
      · simp only [h2, Bool.false_eq_true, if_false]
        exact fixTailH σ₀ v (.ok σ)

theorem fixList_stepH {L : Lang} {σ₀ : Store} {n : Nat} (hfix : FixH L σ₀ n) (hlist : FixListH L σ₀ n) :
    FixListH L σ₀ (n+1) := by
  intro σ vs ps pl hc hps
  match vs, ps with
  | [], ps => rw [fixList_nil_left, fixListE_nil_left]; rfl
  | vs, [] => rw [shiftL_nil, fixList_nil_right, fixListE_nil_right]; rfl
  | v :: vs, p :: ps =>
    have hp := hps p List.mem_cons_self
    rw [shiftL_cons, fixList_cons, fixListE_cons]
    have h1 := hfix σ p (if v then pl else !pl) hc hp
    rw [h1]
    cases e1 : fixE L σ₀.vars.length n σ p (if v then pl else !pl) with
    | error e => rfl
    | ok q =>
      obtain ⟨σ1, t1⟩ := q
      simp only [shP_ok]
      rw [e1] at h1
      obtain ⟨f1, _⟩ := (all_frameC L n).2.2.2.2.2.1 _ _ _ _ _ _ hc (hc.tin hp) h1
      obtain ⟨hc1, g1⟩ := behind_of_frC f1
      exact hlist σ1 vs ps pl hc1 (g1.tss (fun t ht => hps t (List.mem_cons_of_mem _ ht)))

end Tfv.C16H
