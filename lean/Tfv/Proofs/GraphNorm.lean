import Tfv.Model.Graph
/-!
# `normT` on variable-free types

`normTerm` follows variables; a type without variables is left as it is, whatever the store and the fuel.
(`normTerm`/`normTermL` are compiled by well-founded recursion and do not reduce in the kernel: the examples
rewrite `normT σ t` to `t` with `normT_closed` before they evaluate.)
-/
namespace Tfv.GraphN
open Tfv

theorem followT_app' (σ : Store) (o : Nat) (args : List Term) : followT σ (.app o args) = .app o args := by
  unfold followT
  rw [follow]
  · intro h; cases h
  · intro n v _ h; cases h

mutual
theorem normTerm_closed (σ : Store) : ∀ (n : Nat) (t : Term), t.isClosed = true → normTerm σ n t = t
  | 0, t, _ => by rw [normTerm]
  | n+1, .var v, h => by rw [Term.isClosed] at h; cases h
  | n+1, .app o args, h => by
    rw [Term.isClosed] at h
    rw [normTerm, followT_app']
    simp only [normTermL_closed σ n args h]
theorem normTermL_closed (σ : Store) : ∀ (n : Nat) (ts : List Term), Term.isClosedL ts = true → normTermL σ n ts = ts
  | n, [], _ => by rw [normTermL]
  | n, t :: ts, h => by
    rw [Term.isClosedL, Bool.and_eq_true] at h
    rw [normTermL, normTerm_closed σ n t h.1, normTermL_closed σ n ts h.2]
end

/-- a variable-free type is its own normal form, in every store -/
theorem normT_closed (σ : Store) (t : Term) (h : t.isClosed = true) : normT σ t = t :=
  normTerm_closed σ _ t h

mutual
theorem isClosed_toTerm : ∀ (t : Ty), t.toTerm.isClosed = true
  | .app o args => by rw [Ty.toTerm, Term.isClosed]; exact isClosedL_toTermL args
theorem isClosedL_toTermL : ∀ (ts : List Ty), Term.isClosedL (Ty.toTermL ts) = true
  | [] => by rw [Ty.toTermL, Term.isClosedL]
  | t :: ts => by rw [Ty.toTermL, Term.isClosedL, isClosed_toTerm t, isClosedL_toTermL ts]; rfl
end

theorem normT_toTerm (σ : Store) (t : Ty) : normT σ t.toTerm = t.toTerm :=
  normT_closed σ _ (isClosed_toTerm t)

theorem isClosed_of_inCanon {G : GLang} {t : Term} (h : inCanon G t = true) : t.isClosed = true := by
  unfold inCanon at h
  rw [Bool.and_eq_true] at h
  exact h.1

theorem normT_inCanon {G : GLang} {t : Term} (σ : Store) (h : inCanon G t = true) : normT σ t = t :=
  normT_closed σ t (isClosed_of_inCanon h)

end Tfv.GraphN
