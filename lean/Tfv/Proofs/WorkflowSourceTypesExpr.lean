import Tfv.Proofs.WorkflowSourceTypesParse
import Tfv.Proofs.WorkflowSourceTypesAnn
import Tfv.Proofs.AgreeConstrMain
import Tfv.Proofs.ExprTypedConstr
/-!
# The typed builder, `parse_expr` and `Expr.fix()` read only their region of the store

Two builder states with the same source counter whose stores have the same sizes and agree on a closed
region `R` (`AgreeC R`, Tfv/Proofs/AgreeConstr.lean) — and differ arbitrarily elsewhere — give, for
expressions whose node types are over `R`, the same error or the same expression and states that agree again.
-/
namespace Tfv.C12P
open Tfv Tfv.C03P Tfv.C16P Tfv.C03C Tfv.C16C Tfv.C04P Tfv.C04C Tfv.ParseSim

/-! ## expressions over a region -/

/-- every node type of the expression is over allocated members of `S` -/
def ExprIn (σ : Store) (S : Nat → Prop) : TExpr → Prop
  | .src _ _ t => TermInR σ S t
  | .op _ t => TermInR σ S t
  | .app f x t => ExprIn σ S f ∧ ExprIn σ S x ∧ TermInR σ S t
  | .shared _ e => ExprIn σ S e

theorem exprIn_mono {σ σ' : Store} {S : Nat → Prop} (h : σ.vars.length ≤ σ'.vars.length) :
    ∀ {e : TExpr}, ExprIn σ S e → ExprIn σ' S e
  | .src _ _ _, he => termInR_mono h he
  | .op _ _, he => termInR_mono h he
  | .app _ _ _, he => ⟨exprIn_mono h he.1, exprIn_mono h he.2.1, termInR_mono h he.2.2⟩
  | .shared _ e, he => exprIn_mono (e := e) h he

theorem exprIn_ty {σ : Store} {S : Nat → Prop} : ∀ {e : TExpr}, ExprIn σ S e → TermInR σ S e.ty
  | .src _ _ _, he => he
  | .op _ _, he => he
  | .app _ _ _, he => he.2.2
  | .shared _ e, he => exprIn_ty (e := e) he

theorem exprIn_setTy {σ : Store} {S : Nat → Prop} {t : Term} (ht : TermInR σ S t) :
    ∀ {e : TExpr}, ExprIn σ S e → ExprIn σ S (e.setTy t)
  | .src _ _ _, _ => ht
  | .op _ _, _ => ht
  | .app _ _ _, he => ⟨he.1, he.2.1, ht⟩
  | .shared _ e, he => exprIn_setTy (e := e) ht he

theorem exprIn_annotated {σ : Store} {S : Nat → Prop} {prev : TExpr} {t : Term} (dash : Bool)
    (hp : ExprIn σ S prev) (ht : TermInR σ S t) : ExprIn σ S (annotated prev t dash) := by
  unfold annotated
  split
  · exact exprIn_setTy ht hp
  · exact hp

/-! ## `normalize()` -/

theorem normTermL_eq_map (σ : Store) (n : Nat) : ∀ ts, normTermL σ n ts = ts.map (normTerm σ n)
  | [] => by rw [normTermL]; rfl
  | t :: ts => by rw [normTermL, normTermL_eq_map σ n ts]; rfl

theorem normTerm_congr {R : Region} {τ τ' : Store} (a : AgreeC R τ τ') :
    ∀ (n : Nat) (t : Term), TermInR τ R.S t → normTerm τ' n t = normTerm τ n t
  | 0, t, _ => by rw [normTerm, normTerm]
  | n+1, t, ht => by
    rw [normTerm, normTerm, a.followT ht]
    have hf := followT_inR a.closed ht
    cases hx : followT τ t with
    | var v => rfl
    | app o args =>
      rw [hx] at hf
      simp only [normTermL_eq_map]
      congr 1
      apply List.map_congr_left
      intro x hm
      exact normTerm_congr a n x (termInR_app.mp hf x hm)

theorem normT_congr {R : Region} {τ τ' : Store} (a : AgreeC R τ τ') {t : Term} (ht : TermInR τ R.S t) :
    normT τ' t = normT τ t := by
  unfold normT
  rw [a.same.vlen]
  exact normTerm_congr a _ t ht

theorem normTerm_inR {R : Region} {σ : Store} (hc : ClosedC σ R) :
    ∀ (n : Nat) (t : Term), TermInR σ R.S t → TermInR σ R.S (normTerm σ n t)
  | 0, t, ht => by rw [normTerm]; exact ht
  | n+1, t, ht => by
    rw [normTerm]
    have hf := followT_inR hc ht
    cases hx : followT σ t with
    | var v => rw [hx] at hf; exact hf
    | app o args =>
      rw [hx] at hf
      simp only [normTermL_eq_map]
      apply termInR_app.mpr
      intro u hu
      obtain ⟨x, hm, e⟩ := List.mem_map.mp hu
      subst e
      exact normTerm_inR hc n x (termInR_app.mp hf x hm)

theorem normT_inR {R : Region} {σ : Store} (hc : ClosedC σ R) {t : Term} (ht : TermInR σ R.S t) :
    TermInR σ R.S (normT σ t) := normTerm_inR hc _ t ht

/-! ## `Expr.fix()` -/

theorem fixExpr_frC {L : Lang} {R : Region} : ∀ (e : TExpr) {σ σ1 : Store} {e1 : TExpr}, ClosedC σ R → ExprIn σ R.S e →
    fixExpr L σ e = .ok (σ1, e1) → FrC R σ σ1 ∧ ExprIn σ1 R.S e1
  | .src i l t, σ, σ1, e1, hc, he, h => by
    rw [fixExpr] at h
    split at h
    · cases h
    · next σ2 t2 hf =>
      obtain ⟨f, ht2⟩ := (all_frameC L exprFuel).2.2.2.2.2.1 R σ t false σ2 t2 hc he hf
      cases h
      exact ⟨f, normT_inR f.closed ht2⟩
  | .op n t, σ, σ1, e1, hc, he, h => by
    rw [fixExpr] at h
    cases h
    exact ⟨FrC.refl hc, normT_inR hc he⟩
  | .app f x t, σ, σ1, e1, hc, he, h => by
    rw [fixExpr] at h
    split at h
    · cases h
    · next σa f1 hf =>
      obtain ⟨fa, hf1⟩ := fixExpr_frC f hc he.1 hf
      split at h
      · cases h
      · next σb x1 hx =>
        obtain ⟨fb, hx1⟩ := fixExpr_frC x fa.closed (exprIn_mono fa.len he.2.1) hx
        split at h
        · cases h
        · next σc t1 ht =>
          obtain ⟨fc, ht1⟩ := (all_frameC L exprFuel).2.2.2.2.2.1 R σb t true σc t1 fb.closed
            (termInR_mono (Nat.le_trans fa.len fb.len) he.2.2) ht
          cases h
          exact ⟨(fa.trans fb).trans fc,
            exprIn_mono (Nat.le_trans fb.len fc.len) hf1, exprIn_mono fc.len hx1, normT_inR fc.closed ht1⟩
  | .shared k e, σ, σ1, e1, hc, he, h => by
    rw [fixExpr] at h
    split at h
    · cases h
    · next σa ea hf =>
      have := fixExpr_frC e hc he hf
      cases h
      exact this

theorem fixExpr_agree {L : Lang} {R : Region} : ∀ (e : TExpr) {τ τ' : Store}, AgreeC R τ τ' → ExprIn τ R.S e →
    RelP R (fixExpr L τ e) (fixExpr L τ' e)
  | .src i l t, τ, τ', a, he => by
    rw [fixExpr, fixExpr]
    rcases RelP.cases ((all_agreeC L exprFuel).2.2.2.2.2.1 R τ τ' t false a he) with
      ⟨e, h1, h2⟩ | ⟨τ1, τ1', t1, e1, e2, a1⟩
    · rw [h1, h2]; exact RelX.err _ _
    · rw [e1, e2]
      simp only []
      obtain ⟨_, ht1⟩ := (all_frameC L exprFuel).2.2.2.2.2.1 R τ t false τ1 t1 a.closed he e1
      rw [normT_congr a1 ht1]
      exact RelP.ok a1 _
  | .op n t, τ, τ', a, he => by
    rw [fixExpr, fixExpr, normT_congr a he]
    exact RelP.ok a _
  | .app f x t, τ, τ', a, he => by
    rw [fixExpr, fixExpr]
    rcases RelP.cases (fixExpr_agree (L := L) f a he.1) with ⟨e, h1, h2⟩ | ⟨τa, τa', f1, e1, e2, aa⟩
    · rw [h1, h2]; exact RelX.err _ _
    rw [e1, e2]
    simp only []
    obtain ⟨fa, _⟩ := fixExpr_frC f a.closed he.1 e1
    rcases RelP.cases (fixExpr_agree (L := L) x aa (exprIn_mono fa.len he.2.1)) with
      ⟨e, h1, h2⟩ | ⟨τb, τb', x1, e3, e4, ab⟩
    · rw [h1, h2]; exact RelX.err _ _
    rw [e3, e4]
    simp only []
    obtain ⟨fb, _⟩ := fixExpr_frC x fa.closed (exprIn_mono fa.len he.2.1) e3
    have ht : TermInR τb R.S t := termInR_mono (Nat.le_trans fa.len fb.len) he.2.2
    rcases RelP.cases ((all_agreeC L exprFuel).2.2.2.2.2.1 R τb τb' t true ab ht) with
      ⟨e, h1, h2⟩ | ⟨τc, τc', t1, e5, e6, ac⟩
    · rw [h1, h2]; exact RelX.err _ _
    rw [e5, e6]
    simp only []
    obtain ⟨_, ht1⟩ := (all_frameC L exprFuel).2.2.2.2.2.1 R τb t true τc t1 ab.closed ht e5
    rw [normT_congr ac ht1]
    exact RelP.ok ac _
  | .shared k e, τ, τ', a, he => by
    rw [fixExpr, fixExpr]
    rcases RelP.cases (fixExpr_agree (L := L) e a he) with ⟨e, h1, h2⟩ | ⟨τa, τa', ea, e1, e2, aa⟩
    · rw [h1, h2]; exact RelX.err _ _
    rw [e1, e2]
    exact RelP.ok aa _

/-! ## builder states -/

/-- the same source counter; stores of the same sizes that agree on the region -/
structure XAgree (R : Region) (s s' : XState) : Prop where
  nsrc : s'.nsrc = s.nsrc
  store : AgreeC R s.store s'.store

/-- the later state has at least the variables of the earlier one -/
def XStep (s s1 : XState) : Prop := s.store.vars.length ≤ s1.store.vars.length

/-- the two runs hold the same expression, over the region -/
def XRe (R : Region) (s : XState) (e e' : TExpr) : Prop := e' = e ∧ ExprIn s.store R.S e

theorem relB_ok {R : Region} {s s1 s1' : XState} {e : TExpr} (a : XAgree R s1 s1') (st : XStep s s1)
    (he : ExprIn s1.store R.S e) :
    RelB True (XAgree R) (XRe R) XStep s (.ok (s1, e)) (.ok (s1', e)) :=
  ⟨s1', e, rfl, a, st, rfl, he⟩

/-! ## the four operations of the typed builder -/

theorem mkSourceT_sim {R : Region} {s s' : XState} (a : XAgree R s s') :
    XAgree R (mkSourceT s).1 (mkSourceT s').1 ∧ XStep s (mkSourceT s).1 ∧
      XRe R (mkSourceT s).1 (mkSourceT s).2 (mkSourceT s').2 := by
  rw [mkSourceT_eq, mkSourceT_eq, a.nsrc, a.store.same.vlen]
  refine ⟨⟨rfl, a.store.newVar true⟩, ?_, rfl, ?_⟩
  · show s.store.vars.length ≤ (newVar s.store true).1.vars.length
    rw [length_newVar]; omega
  · show TermInR (newVar s.store true).1 R.S (.var s.store.vars.length)
    apply termInR_var.mpr
    exact ⟨a.store.closed.sfr _ (Nat.le_refl _), by rw [length_newVar]; omega⟩

theorem mkOpT_sim {L : Lang} {ops : List OperatorDecl} (hops : OpsOkC L ops) {R : Region} {s s' : XState}
    (a : XAgree R s s') (name : String) :
    RelB True (XAgree R) (XRe R) XStep s (mkOpT L ops s name) (mkOpT L ops s' name) := by
  unfold mkOpT
  cases hd : ops.find? (fun d => d.name == name) with
  | none => intro _; rfl
  | some d =>
    simp only []
    have hmem : d ∈ ops := List.mem_of_find?_eq_some hd
    rcases RelP.cases (instantiate_agree (L := L) (n := exprFuel) a.store (hops d hmem).1 (hops d hmem).2) with
      ⟨e, h1, h2⟩ | ⟨τ1, τ1', t, e1, e2, a1⟩
    · rw [h1, h2]; intro _; rfl
    · rw [e1, e2]
      simp only []
      obtain ⟨f1, ht, _⟩ := instantiate_frC a.store.closed (hops d hmem).1 (hops d hmem).2 e1
      rw [a.nsrc]
      split
      · exact relB_ok ⟨rfl, a1⟩ f1.len ht
      · exact relB_ok ⟨rfl, a1⟩ f1.len ht

theorem mkAppT_sim {L : Lang} (fixFlag : Bool) {R : Region} {s s' : XState} (a : XAgree R s s') {f x : TExpr}
    (hf : ExprIn s.store R.S f) (hx : ExprIn s.store R.S x) :
    RelB True (XAgree R) (XRe R) XStep s (mkAppT L fixFlag s f x) (mkAppT L fixFlag s' f x) := by
  unfold mkAppT
  rcases RelP.cases (applyT_agree (L := L) (n := exprFuel) (fixFlag := fixFlag) a.store (exprIn_ty hf) (exprIn_ty hx)) with
    ⟨e, h1, h2⟩ | ⟨τ1, τ1', t, e1, e2, a1⟩
  · rw [h1, h2]; intro _; rfl
  · rw [e1, e2]
    simp only []
    obtain ⟨f1, ht⟩ := applyT_frC a.store.closed (exprIn_ty hf) (exprIn_ty hx) e1
    exact relB_ok ⟨a.nsrc, a1⟩ f1.len ⟨exprIn_mono f1.len hf, exprIn_mono f1.len hx, ht⟩

/-- a term over fresh variables is over the region once they are allocated -/
theorem termInR_of_range {R : Region} {σ σ1 : Store} (hc : ClosedC σ R) {t : Term} {k : Nat}
    (ht : TermRange σ.vars.length (σ.vars.length + k) t) (hl : σ.vars.length + k ≤ σ1.vars.length) :
    TermInR σ1 R.S t := fun v hv => ⟨hc.sfr v (ht v hv).1, Nat.lt_of_lt_of_le (ht v hv).2 hl⟩

theorem annotateT_sim {L : Lang} {R : Region} {s s' : XState} (a : XAgree R s s') {prev : TExpr} {t : Term}
    {nfresh : Nat} (dash : Bool) (hp : ExprIn s.store R.S prev)
    (ht : TermRange s.store.vars.length (s.store.vars.length + nfresh) t) :
    RelB True (XAgree R) (XRe R) XStep s (annotateT L s prev t nfresh dash) (annotateT L s' prev t nfresh dash) := by
  rw [annotateT_eq, annotateT_eq]
  obtain ⟨f0, hlen⟩ := frC_allocVars (R := R) a.store.closed nfresh 0
  have a0 := agreeC_allocVars a.store nfresh 0
  have ht0 : TermInR (allocVars s.store nfresh 0) R.S t :=
    termInR_of_range a.store.closed ht (by rw [hlen]; omega)
  have hp0 : ExprIn (allocVars s.store nfresh 0) R.S (annotated prev t dash) :=
    exprIn_annotated dash (exprIn_mono f0.len hp) ht0
  rcases RelS.cases ((all_agreeC L exprFuel).1 R _ _ (annotated prev t dash).ty t true false false a0
      (exprIn_ty hp0) ht0) with ⟨e, h1, h2⟩ | ⟨τ1, τ1', e1, e2, a1⟩
  · rw [h1, h2]; intro _; rfl
  · rw [e1, e2]
    simp only []
    have f1 := (all_frameC L exprFuel).1 R _ _ _ true false false τ1 f0.closed (exprIn_ty hp0) ht0 e1
    exact relB_ok ⟨a.nsrc, a1⟩ (Nat.le_trans f0.len f1.len) (exprIn_mono f1.len hp0)

/-- **the typed builder reads only its region** -/
theorem typedBuilder_sim {P : PLang} (ha : AliasesOk P) {ops : List OperatorDecl} (hops : OpsOkC P.types ops)
    (fixFlag : Bool) (R : Region) :
    BuilderSim P (typedBuilder P.types ops fixFlag) (typedBuilder P.types ops fixFlag) True True
      (XAgree R) (XRe R) XStep where
  refl := fun _ => Nat.le_refl _
  trans := fun _ _ _ h1 h2 => Nat.le_trans h1 h2
  mono := fun _ _ _ _ hs hr => ⟨hr.1, exprIn_mono hs hr.2⟩
  varBase := fun _ _ _ a => a.store.same.vlen
  mkSource := fun _ _ a => mkSourceT_sim a
  mkOp := fun _ _ name a => mkOpT_sim hops a name
  mkApp := fun s s' f f' x x' a hf hx => by
    obtain ⟨rfl, hf⟩ := hf
    obtain ⟨rfl, hx⟩ := hx
    exact mkAppT_sim fixFlag a hf hx
  annotate := fun _ s s' prev prev' t nfresh dash toks toks' a hp hty => by
    obtain ⟨rfl, hp⟩ := hp
    exact annotateT_sim a dash hp (parseTypeLoop_init_range ha hty)

/-! ## `parse_expr` with the typed builder -/

theorem all2_refl {R : Region} {s : XState} : ∀ {inputs : List TExpr}, (∀ e, e ∈ inputs → ExprIn s.store R.S e) →
    All2 (XRe R s) inputs inputs
  | [], _ => .nil
  | e :: _, h => .cons ⟨rfl, h e List.mem_cons_self⟩ (all2_refl (fun x hx => h x (List.mem_cons_of_mem _ hx)))

/-- related outcomes of a parse: the same error, or the same expression (over the region) and states that agree -/
def RelE (R : Region) (s : XState) : Except PErr (XState × TExpr) → Except PErr (XState × TExpr) → Prop
  | .error e, r' => r' = .error e
  | .ok (s1, e), r' => ∃ s1', r' = .ok (s1', e) ∧ XAgree R s1 s1' ∧ XStep s s1 ∧ ExprIn s1.store R.S e

theorem parseTyped_sim {P : PLang} (ha : AliasesOk P) {ops : List OperatorDecl} (hops : OpsOkC P.types ops)
    (fixFlag : Bool) {R : Region} {s s' : XState} (a : XAgree R s s') {inputs : List TExpr}
    (hin : ∀ e, e ∈ inputs → ExprIn s.store R.S e) (toks : List String) :
    RelE R s (parseExprToks P (typedBuilder P.types ops fixFlag) inputs s toks)
      (parseExprToks P (typedBuilder P.types ops fixFlag) inputs s' toks) := by
  have h := parseExprToks_sim (typedBuilder_sim ha hops fixFlag R) a (all2_refl hin) toks (Or.inl trivial)
  cases h1 : parseExprToks P (typedBuilder P.types ops fixFlag) inputs s toks with
  | error e =>
    rw [h1] at h
    exact h trivial
  | ok p =>
    obtain ⟨s1, e⟩ := p
    rw [h1] at h
    obtain ⟨s1', e', h2, a1, st, rfl, he⟩ := h
    exact ⟨s1', h2, a1, st, he⟩

end Tfv.C12P
