import Tfv.Proofs.VocabTaxonomy
/-!
# The triples of `add_taxonomy` / `add_vocabulary`, stated on the result
-/
namespace Tfv.Voc
open Tfv Tfv.Tax

/-- a triple of the first loop: a description of a registered type or a link triple -/
def DirectTr (G : GLang) (c : GCfg) (g : GState) (tr : Triple) : Prop := Described G c g tr ∨ LinkTr G tr

/-- the `rdfs:subClassOf` edges of the first loop -/
def DirectEdge (G : GLang) (c : GCfg) (g : GState) (s o : Node) : Prop := DirectTr G c g (s, subClassOf, o)

/-- the result of `add_taxonomy` on the empty graph, in any order that covers the canon -/
structure TaxResult (G : GLang) (c : GCfg) (closure : Bool) (g : GState) : Prop where
  canonical : c.withCanonicalTypes = true
  node : ∀ x n, g.L x = some n → NodeOk G c x n
  params : ∀ x n, g.L x = some n → ∀ o args, x = .app o args → arityOf G.types o > 0 → c.withTypeParameters = true →
    ∀ p ∈ args, ∃ pn, g.L p = some pn
  done : ∀ t ∈ G.canon, ∃ n, typeUri G t.toTerm = .ok n ∧ g.L t.toTerm = some n
  registered : ∀ x, (∃ n, g.L x = some n) ↔ FromCanon G c x
  triples : ∀ tr, tr ∈ g.triples ↔ DirectTr G c g tr ∨ (closure = true ∧ ClTr G (DirectEdge G c g) G.canon tr)

theorem clTr_congr {G : GLang} {E E' : Node → Node → Prop} {l l' : List Ty} (hE : ∀ a b, E a b ↔ E' a b)
    (hl : ∀ t, t ∈ l → t ∈ l') {tr : Triple} (h : ClTr G E l tr) : ClTr G E' l' tr := by
  obtain ⟨t, ht, ref, s, href, hs, rfl⟩ := h
  exact ⟨t, hl t ht, ref, s, href, hs.mono (fun a b hab => (hE a b).1 hab), rfl⟩

theorem described_congr {G : GLang} {c : GCfg} {g g' : GState} (h : g'.L = g.L) (tr : Triple) :
    Described G c g' tr ↔ Described G c g tr := by
  unfold Described; rw [h]

/-- **`add_taxonomy`, started on the empty graph**, in an order that covers the canon -/
theorem addTaxonomyOn_result (G : GLang) (c : GCfg) (closure : Bool) (order : List Ty) (g' : GState)
    (hcov : ∀ t ∈ G.canon, t ∈ order) (h : addTaxonomyOn G c closure order {} = .ok g') : TaxResult G c closure g' := by
  unfold addTaxonomyOn at h
  split at h
  · cases h
  · rename_i hcan
    simp only [Bool.not_eq_true', Bool.not_eq_false] at hcan
    split at h
    · cases h
    · rename_i g1 hloop
      obtain ⟨⟨i1, s1⟩, _, d1⟩ := taxonomyLoop_voc G c order {} g1 hloop (vinv_empty G c) (vsound_empty G c)
      have p1 : Phase1 G c g1 := ⟨i1, s1, fun t ht => d1 t (hcov t ht)⟩
      have hord : ∀ t, t ∈ order → t ∈ G.canon := fun t ht => (d1 t ht).canon
      have hedge : ∀ a b, SubEdge g1.triples a b ↔ DirectEdge G c g1 a b := fun a b => p1.triples_iff _
      cases closure with
      | false =>
        simp only [Bool.false_eq_true, if_false, Except.ok.injEq] at h
        subst h
        refine ⟨hcan, fun x n hl => (i1.node x n hl).1, i1.params, fun t ht => (p1.done t ht).reg, p1.registered_iff, ?_⟩
        intro tr
        rw [p1.triples_iff tr]
        simp [DirectTr]
      | true =>
        simp only [if_true] at h
        obtain ⟨hn, htr⟩ := closureLoop_voc G g1 order [] g1 g' h (by
          intro tr
          constructor
          · exact fun h => .inl h
          · rintro (h | ⟨t, ht, _⟩)
            · exact h
            · cases ht)
        have hL : g'.L = g1.L := L_congr hn
        have hdir : ∀ tr, DirectTr G c g' tr ↔ DirectTr G c g1 tr := by
          intro tr; unfold DirectTr; rw [described_congr hL]
        refine ⟨hcan, ?_, ?_, ?_, ?_, ?_⟩
        · intro x n hl; rw [hL] at hl; exact (i1.node x n hl).1
        · intro x n hl; rw [hL] at hl ⊢; exact i1.params x n hl
        · intro t ht; rw [hL]; exact (p1.done t ht).reg
        · intro x; rw [hL]; exact p1.registered_iff x
        · intro tr
          rw [htr tr, p1.triples_iff tr, List.nil_append]
          constructor
          · rintro (h0 | h0)
            · exact .inl ((hdir tr).2 h0)
            · exact .inr ⟨rfl, clTr_congr (fun a b => (hedge a b).trans (hdir _).symm) hord h0⟩
          · rintro (h0 | ⟨_, h0⟩)
            · exact .inl ((hdir tr).1 h0)
            · exact .inr (clTr_congr (fun a b => ((hedge a b).trans (hdir _).symm).symm) hcov h0)

end Tfv.Voc
