import Tfv.Proofs.SchedRun
/-!
# C18 — order-independence of constraint re-checking: what holds, and what does not

The property as stated ("the outcome of an application is the same for every order in which the constraints
attached to a variable are re-checked") is FALSE of the implementation and of the model; the counterexamples
at the end of this file are checked by the kernel. What is proved:

1. `sched_id …`: the scheduled engine (`InferSched.lean`) under the identity schedule IS the model
   (`Infer.lean`), function by function, for every fuel; `C18_model_is_creation_order`: so is the scheduled
   engine under `priorityOrd []`, because the model keeps its constraint sets in creation order.
2. `C18_partial`: two schedules that agree on every constraint set that can occur give the same engine;
   instances: no pending constraints, at most one pending constraint, fulfilled elimination constraints.
3. Counterexamples: the error kind, success versus failure, and the resulting type all depend on the order.

`Tfv.C18P.runS L ord fuel s args` instantiates the schema `s` in the empty store and applies the instance to
the closed arguments `args` in turn (the run of the differential harness); `Tfv.C18P.run` is the same run of
the unscheduled model.
-/
namespace Tfv.C18
open Tfv.C18P

/-! ## 1. the tie between the scheduled engine and the model -/

/-- Under a schedule that returns its argument, each of the twelve mutually recursive functions of the
scheduled engine equals the function of the model it was generated from, at every fuel. -/
theorem sched_id {L : Lang} {ord : List Nat → List Nat} (hord : ∀ cs, ord cs = cs) (n : Nat) :
    BlockEq L ord n := blockEq hord n

example : ∀ cs : List Nat, id cs = cs := fun _ => rfl
example : ∀ cs : List Nat, priorityOrd [] (priorityOrd [] cs) = priorityOrd [] cs := fun cs =>
  priorityOrd_of_sorted (priorityOrd_sorted [] cs)

/-- `unify` under the identity schedule is the model's `unify`. -/
theorem sched_id_unify (L : Lang) (n : Nat) (σ : Store) (a b : Term) (st sb sw : Bool) :
    unifyS L id n σ a b st sb sw = unify L n σ a b st sb sw :=
  (blockEq (fun _ => rfl) n).unify σ a b st sb sw

/-- `unifyList` under the identity schedule. -/
theorem sched_id_unifyList (L : Lang) (n : Nat) (σ : Store) (vs : List Bool) (xs ys : List Term) (st sb sw : Bool) :
    unifyListS L id n σ vs xs ys st sb sw = unifyList L n σ vs xs ys st sb sw :=
  (blockEq (fun _ => rfl) n).unifyList σ vs xs ys st sb sw

/-- `bind` under the identity schedule. -/
theorem sched_id_bind (L : Lang) (n : Nat) (σ : Store) (v : Nat) (t : Term) :
    bindS L id n σ v t = bind L n σ v t := (blockEq (fun _ => rfl) n).bind σ v t

/-- `above` under the identity schedule. -/
theorem sched_id_above (L : Lang) (n : Nat) (σ : Store) (v o : Nat) :
    aboveS L id n σ v o = above L n σ v o := (blockEq (fun _ => rfl) n).above σ v o

/-- `below` under the identity schedule. -/
theorem sched_id_below (L : Lang) (n : Nat) (σ : Store) (v o : Nat) :
    belowS L id n σ v o = below L n σ v o := (blockEq (fun _ => rfl) n).below σ v o

/-- `checkConstraints` under the identity schedule (the only function whose text differs). -/
theorem sched_id_checkConstraints (L : Lang) (n : Nat) (σ : Store) (v : Nat) :
    checkConstraintsS L id n σ v = checkConstraints L n σ v := (blockEq (fun _ => rfl) n).checkConstraints σ v

/-- `checkList` under the identity schedule. -/
theorem sched_id_checkList (L : Lang) (n : Nat) (σ : Store) (v : Nat) (cs : List Nat) :
    checkListS L id n σ v cs = checkList L n σ v cs := (blockEq (fun _ => rfl) n).checkList σ v cs

/-- `fulfill` under the identity schedule. -/
theorem sched_id_fulfill (L : Lang) (n : Nat) (σ : Store) (c : Nat) :
    fulfillS L id n σ c = fulfill L n σ c := (blockEq (fun _ => rfl) n).fulfill σ c

/-- `minimize` under the identity schedule. -/
theorem sched_id_minimize (L : Lang) (n : Nat) (σ : Store) (c : Nat) :
    minimizeS L id n σ c = minimize L n σ c := (blockEq (fun _ => rfl) n).minimize σ c

/-- `minLoop` under the identity schedule. -/
theorem sched_id_minLoop (L : Lang) (n : Nat) (σ : Store) (alts acc : List Term) :
    minLoopS L id n σ alts acc = minLoop L n σ alts acc := (blockEq (fun _ => rfl) n).minLoop σ alts acc

/-- `fix` under the identity schedule. -/
theorem sched_id_fix (L : Lang) (n : Nat) (σ : Store) (t : Term) (pl : Bool) :
    fixS L id n σ t pl = fix L n σ t pl := (blockEq (fun _ => rfl) n).fix σ t pl

/-- `fixList` under the identity schedule. -/
theorem sched_id_fixList (L : Lang) (n : Nat) (σ : Store) (vs : List Bool) (ps : List Term) (pl : Bool) :
    fixListS L id n σ vs ps pl = fixList L n σ vs ps pl := (blockEq (fun _ => rfl) n).fixList σ vs ps pl

/-- Registering a constraint under a schedule that returns its argument is the model's `addConstraint`. -/
theorem sched_id_addConstraint {L : Lang} {ord : List Nat → List Nat} (hord : ∀ cs, ord cs = cs)
    (fuel : Nat) (σ : Store) (c : Constr) :
    addConstraintS L ord fuel σ c = addConstraint L fuel σ c := addConstraintS_id hord fuel σ c

/-- The same for a list of constraints. -/
theorem sched_id_addConstraints {L : Lang} {ord : List Nat → List Nat} (hord : ∀ cs, ord cs = cs)
    (fuel base : Nat) (σ : Store) (cs : List CAst) :
    addConstraintsS L ord fuel base σ cs = addConstraints L fuel base σ cs :=
  addConstraintsS_id hord fuel base σ cs

/-- Instantiating a schema under a schedule that returns its argument is the model's `instantiate`. -/
theorem sched_id_instantiate {L : Lang} {ord : List Nat → List Nat} (hord : ∀ cs, ord cs = cs)
    (fuel : Nat) (σ : Store) (s : Schema) :
    instantiateS L ord fuel σ s = instantiate L fuel σ s := instantiateS_id hord fuel σ s

/-- Applying a function type under a schedule that returns its argument is the model's `applyT`. -/
theorem sched_id_applyT {L : Lang} {ord : List Nat → List Nat} (hord : ∀ cs, ord cs = cs)
    (fuel : Nat) (σ : Store) (f x : Term) (fixFlag : Bool) :
    applyTS L ord fuel σ f x fixFlag = applyT L fuel σ f x fixFlag := applyTS_id hord fuel σ f x fixFlag

/-- A whole run under a schedule that returns its argument is the model's run. -/
theorem sched_id_run {L : Lang} {ord : List Nat → List Nat} (hord : ∀ cs, ord cs = cs)
    (fuel : Nat) (s : Schema) (args : List Term) :
    runS L ord fuel s args = run L fuel s args := runS_id hord fuel s args

/-- The engine depends on the schedule only through its values: extensionally equal schedules give the
same engine. -/
theorem sched_ext (L : Lang) {ord₁ ord₂ : List Nat → List Nat} (h : ∀ cs, ord₁ cs = ord₂ cs) :
    unifyS L ord₁ = unifyS L ord₂ ∧ fixS L ord₁ = fixS L ord₂ ∧ instantiateS L ord₁ = instantiateS L ord₂ ∧
      applyTS L ord₁ = applyTS L ord₂ := by
  have e : ord₁ = ord₂ := funext h
  subst e
  exact ⟨rfl, rfl, rfl, rfl⟩

example : ∀ cs, priorityOrd [1, 0] cs = insOrd [1, 0] cs := priorityOrd_eq_insOrd [1, 0]

/-! ## the schedules `priorityOrd perm` -/

/-- `priorityOrd perm cs` is a rearrangement of `cs`. -/
theorem C18_priority_perm (perm cs : List Nat) : (priorityOrd perm cs).Perm cs := priorityOrd_perm perm cs

/-- Without priorities the schedule is creation order: an ascending list is left alone. -/
theorem C18_priority_nil {cs : List Nat} (h : cs.Pairwise (· ≤ ·)) : priorityOrd [] cs = cs :=
  priorityOrd_nil_of_sorted h

example : [0, 2, 5].Pairwise (· ≤ ·) := by decide

/-- Every `priorityOrd perm` leaves lists with at most one element alone. -/
theorem C18_priority_short (perm : List Nat) {cs : List Nat} (h : cs.length ≤ 1) : priorityOrd perm cs = cs :=
  priorityOrd_short perm h

/-- `priorityOrd` (defined with the library merge sort) is insertion sort by rank; this is the form the kernel
evaluates in the counterexamples. -/
theorem C18_priority_insertion (perm cs : List Nat) : priorityOrd perm cs = insOrd perm cs :=
  priorityOrd_eq_insOrd perm cs

/-- The model keeps its constraint sets strictly ascending: the three operations it performs on them preserve
that, and so does registering a constraint. -/
theorem C18_csets_stay_sorted : CsClosed Asc ∧ CsInsert Asc := ⟨closed_asc, insert_asc⟩

/-- On a store whose constraint sets are ascending, the scheduled engine without priorities is the model,
and the constraint sets of the result are ascending again. -/
theorem C18_priority_nil_unify (L : Lang) (n : Nat) {σ : Store} (h : CsInv Asc σ) (a b : Term) (st sb sw : Bool) :
    unifyS L (priorityOrd []) n σ a b st sb sw = unify L n σ a b st sb sw ∧
      ∀ σ', unify L n σ a b st sb sw = .ok σ' → CsInv Asc σ' :=
  unifyS_eq_of_inv closed_asc priorityOrd_nil_asc n h a b st sb sw

/-- two variables sharing the constraint set `{0, 2}` -/
def ascStore : Store :=
  { vars := [{ cset := 0 }, { cset := 0 }], csets := [[0, 2]], constrs := [.sub (.var 0) (.app 5 []) false false, .sub (.var 0) (.app 5 []) false true, .elim (.var 1) [.app 5 [], .app 6 []] false] }

example : CsInv Asc ascStore := by
  intro k
  match k with
  | 0 => show [0, 2].Pairwise (· < ·); decide
  | k+1 => exact List.Pairwise.nil

/-- THE TIE for the schedule the harness uses as its baseline: a whole run under `priorityOrd []` (no
priorities) is the run of the model. -/
theorem C18_model_is_creation_order (L : Lang) (fuel : Nat) (s : Schema) (args : List Term) :
    runS L (priorityOrd []) fuel s args = run L fuel s args := runS_priority_nil L fuel s args

/-! ## 2. order-independent fragments -/

/-- THE PARTIAL THEOREM. Let `Q` be a property of constraint sets that holds of the empty set and is kept by
union, by removing a member and by inserting a member. If two schedules agree on every list satisfying `Q`,
the two runs are equal (outcome, store and all). -/
theorem C18_partial {Q : List Nat → Prop} {L : Lang} {ord₁ ord₂ : List Nat → List Nat} (hQ : CsClosed Q)
    (hI : CsInsert Q) (hord : ∀ cs, Q cs → ord₁ cs = ord₂ cs) (fuel : Nat) (s : Schema) (args : List Term) :
    runS L ord₁ fuel s args = runS L ord₂ fuel s args := runS_agree hQ hI hord fuel s args

example : CsClosed Asc ∧ CsInsert Asc ∧ ∀ cs, Asc cs → priorityOrd [] cs = id cs :=
  ⟨closed_asc, insert_asc, priorityOrd_nil_asc⟩

/-- The same inside the engine: on a store all of whose constraint sets satisfy `Q`, all twelve functions of
the two scheduled engines agree and keep the invariant (`BlockAgree` lists the twelve statements). -/
theorem C18_partial_block {Q : List Nat → Prop} {L : Lang} {ord₁ ord₂ : List Nat → List Nat} (hQ : CsClosed Q)
    (hord : ∀ cs, Q cs → ord₁ cs = ord₂ cs) (n : Nat) : BlockAgree L ord₁ ord₂ Q n := blockAgree hQ hord n

/-- Without pending constraints the schedule is unobservable: `unify` (with any flags) under any schedule
that maps `[]` to `[]` is the model's `unify`, and no constraints appear. -/
theorem C18_no_constraints (L : Lang) {ord : List Nat → List Nat} (h0 : ord [] = []) (n : Nat) {σ : Store}
    (nc : NoConstraints σ) (a b : Term) (st sb sw : Bool) :
    unifyS L ord n σ a b st sb sw = unify L n σ a b st sb sw ∧
      ∀ σ', unify L n σ a b st sb sw = .ok σ' → NoConstraints σ' :=
  unifyS_eq_of_inv closed_nil (fun cs h => by subst h; exact h0) n ((csInv_nil_iff σ).mpr nc) a b st sb sw

example : NoConstraints { vars := [{ cset := 0 }, { cset := 1, lower := some 5 }], csets := [[], []] } ∧
    priorityOrd [1, 0] [] = [] := by
  refine ⟨fun k => ?_, priorityOrd_short _ (by decide)⟩
  match k with
  | 0 => rfl
  | 1 => rfl
  | k+2 => rfl

/-- The same for `fix`. -/
theorem C18_no_constraints_fix (L : Lang) {ord : List Nat → List Nat} (h0 : ord [] = []) (n : Nat) {σ : Store}
    (nc : NoConstraints σ) (t : Term) (pl : Bool) :
    fixS L ord n σ t pl = fix L n σ t pl ∧ ∀ σ' t', fix L n σ t pl = .ok (σ', t') → NoConstraints σ' :=
  fixS_eq_of_inv closed_nil (fun cs h => by subst h; exact h0) n ((csInv_nil_iff σ).mpr nc) t pl

/-- The same for `applyT`. -/
theorem C18_no_constraints_applyT (L : Lang) {ord : List Nat → List Nat} (h0 : ord [] = []) (fuel : Nat)
    {σ : Store} (nc : NoConstraints σ) (f x : Term) (fixFlag : Bool) :
    applyTS L ord fuel σ f x fixFlag = applyT L fuel σ f x fixFlag ∧
      ∀ σ' t', applyT L fuel σ f x fixFlag = .ok (σ', t') → NoConstraints σ' :=
  applyTS_eq_of_inv closed_nil (fun cs h => by subst h; exact h0) fuel ((csInv_nil_iff σ).mpr nc) f x fixFlag

/-- A schema without constraints runs the same under every schedule that maps `[]` to `[]`. -/
theorem C18_no_constraints_run (L : Lang) {ord : List Nat → List Nat} (h0 : ord [] = []) (fuel : Nat)
    (s : Schema) (hs : s.constraints = []) (args : List Term) :
    runS L ord fuel s args = run L fuel s args := runS_no_constraints h0 fuel s hs args

example : (⟨1, 0, .app 4 [.var 0, .var 0], []⟩ : Schema).constraints = [] := rfl

/-- One pending constraint: if every constraint set of the store is empty or holds exactly the constraint
`c0`, then under every schedule that leaves `[]` and `[c0]` alone `unify` is the model's `unify`, and the
invariant is kept. -/
theorem C18_single_pending (L : Lang) {ord : List Nat → List Nat} (c0 : Nat) (h0 : ord [] = [])
    (h1 : ord [c0] = [c0]) (n : Nat) {σ : Store} (hσ : CsInv (AtMost c0) σ) (a b : Term) (st sb sw : Bool) :
    unifyS L ord n σ a b st sb sw = unify L n σ a b st sb sw ∧
      ∀ σ', unify L n σ a b st sb sw = .ok σ' → CsInv (AtMost c0) σ' :=
  unifyS_eq_of_inv (closed_atMost c0)
    (fun cs h => by rcases h with rfl | rfl; exact h0; exact h1) n hσ a b st sb sw

/-- The static form: a store with at most one registered constraint, whose constraint sets are duplicate-free
and mention registered constraints only. Every schedule that leaves lists of length ≤ 1 alone (every
`priorityOrd perm` does) gives the model's `unify`, `fix` and `applyT`. -/
theorem C18_single_constraint (L : Lang) {ord : List Nat → List Nat} (hord : ∀ cs, cs.length ≤ 1 → ord cs = cs)
    {σ : Store} (h1 : σ.constrs.length ≤ 1) (hmem : ∀ k c, c ∈ getCset σ k → c < σ.constrs.length)
    (hnd : ∀ k, (getCset σ k).Nodup) (n : Nat) :
    (∀ a b st sb sw, unifyS L ord n σ a b st sb sw = unify L n σ a b st sb sw) ∧
    (∀ t pl, fixS L ord n σ t pl = fix L n σ t pl) ∧
    (∀ f x fixFlag, applyTS L ord n σ f x fixFlag = applyT L n σ f x fixFlag) := by
  have hinv := atMost_of_static h1 hmem hnd
  have ho : ∀ cs, AtMost 0 cs → ord cs = cs := fun cs h => hord cs (atMost_length h)
  exact ⟨fun a b st sb sw => (unifyS_eq_of_inv (closed_atMost 0) ho n hinv a b st sb sw).1,
    fun t pl => (fixS_eq_of_inv (closed_atMost 0) ho n hinv t pl).1,
    fun f x ff => (applyTS_eq_of_inv (closed_atMost 0) ho n hinv f x ff).1⟩

/-- a store with one variable and one pending constraint `x <= A` -/
def oneConstraintStore : Store :=
  { vars := [{ cset := 0 }], csets := [[0]], constrs := [.sub (.var 0) (.app 5 []) false false] }

example : oneConstraintStore.constrs.length ≤ 1 ∧
    (∀ k c, c ∈ getCset oneConstraintStore k → c < oneConstraintStore.constrs.length) ∧
    (∀ k, (getCset oneConstraintStore k).Nodup) ∧
    (∀ cs : List Nat, cs.length ≤ 1 → priorityOrd [3, 0, 1] cs = cs) := by
  refine ⟨by decide, ?_, ?_, fun cs h => priorityOrd_short _ h⟩
  · intro k c hc
    match k with
    | 0 => have : c = 0 := by simpa [oneConstraintStore, getCset] using hc
           subst this; decide
    | k+1 => simp [oneConstraintStore, getCset] at hc
  · intro k
    match k with
    | 0 => show [0].Nodup; decide
    | k+1 => show ([] : List Nat).Nodup; exact List.nodup_nil

/-- A schema with at most one constraint runs the same under every schedule that leaves `[]` and `[0]`
alone, in particular under every `priorityOrd perm`. -/
theorem C18_single_constraint_run (L : Lang) {ord : List Nat → List Nat} (h0 : ord [] = []) (h1 : ord [0] = [0])
    (fuel : Nat) (s : Schema) (hs : s.constraints.length ≤ 1) (args : List Term) :
    runS L ord fuel s args = run L fuel s args := runS_single_constraint h0 h1 fuel s hs args

example : (⟨1, 0, .app 4 [.var 0, .var 0], [.elim (.var 0) [.app 5 [], .app 6 []]]⟩ : Schema).constraints.length ≤ 1 ∧
    priorityOrd [4, 0] [] = [] ∧ priorityOrd [4, 0] [0] = [0] :=
  ⟨by decide, priorityOrd_short _ (by decide), priorityOrd_short _ (by decide)⟩

/- such a run does real work: `x ** x [x << [A, B]]` applied to `A` succeeds with result `A`,
applied to `F(A)` it fails with `ConstraintViolation` -/
example : resultIs (runS langAB (priorityOrd [4, 0]) 4000
    ⟨1, 0, .app 4 [.var 0, .var 0], [.elim (.var 0) [.app 5 [], .app 6 []]]⟩ [.app 5 []]) (.app 5 []) = true := by
  rw [runS_eq_runK]; decide +kernel
example : errOf (runS langAB (priorityOrd [4, 0]) 4000
    ⟨1, 0, .app 4 [.var 0, .var 0], [.elim (.var 0) [.app 5 [], .app 6 []]]⟩ [.app 7 [.app 5 []]])
    = some .constraintViolation := by
  rw [runS_eq_runK]; decide +kernel

/-- A fulfilled elimination constraint is not re-examined: `fulfill` returns the store unchanged. -/
theorem C18_fulfilled_noop (L : Lang) (ord : List Nat → List Nat) (n : Nat) {σ : Store} {c : Nat} {r : Term}
    {alts : List Term} (h : getConstr σ c = .elim r alts true) :
    fulfillS L ord (n+1) σ c = .ok (σ, true) := fulfillS_fulfilled L ord n h

example : getConstr { constrs := [.elim (.var 0) [.app 5 []] true] } 0 = .elim (.var 0) [.app 5 []] true := rfl

/-- Re-checking a list that starts with a fulfilled elimination constraint only drops that constraint from
the variable's constraint set. -/
theorem C18_fulfilled_skip (L : Lang) (ord : List Nat → List Nat) (n : Nat) {σ : Store} (v : Nat) {c : Nat}
    (cs : List Nat) {r : Term} {alts : List Term} (h : getConstr σ c = .elim r alts true) :
    checkListS L ord (n+2) σ v (c :: cs) = checkListS L ord (n+1) (dropFrom σ v c) v cs :=
  checkListS_fulfilled L ord n v cs h

/-- Two fulfilled elimination constraints that a schedule puts next to each other can be swapped. -/
theorem C18_fulfilled_swap (L : Lang) (ord : List Nat → List Nat) (n : Nat) {σ : Store} (v : Nat) {c d : Nat}
    (cs : List Nat) {rc rd : Term} {ac ad : List Term}
    (hc : getConstr σ c = .elim rc ac true) (hd : getConstr σ d = .elim rd ad true) :
    checkListS L ord (n+3) σ v (c :: d :: cs) = checkListS L ord (n+3) σ v (d :: c :: cs) :=
  checkListS_fulfilled_swap L ord n v cs hc hd

/-! ## 3. counterexamples to the general statement (kernel-checked) -/

/-- WHICH ERROR is raised depends on the order. Language: `A`, `B` unrelated, `F` unary. The schema
`x ** x [x << [A, B], x <= A]` applied to `F(B)` violates both constraints; re-checking the elimination
constraint first reports `ConstraintViolation`, re-checking the subtype constraint first reports
`TypeMismatch`. -/
theorem C18_counterexample_error_kind :
    errOf (runS langAB (priorityOrd [0, 1]) 4000 schemaTwo [.app 7 [.app 6 []]]) = some .constraintViolation ∧
    errOf (runS langAB (priorityOrd [1, 0]) 4000 schemaTwo [.app 7 [.app 6 []]]) = some .typeMismatch :=
  ⟨cex_two_01, cex_two_10⟩

/-- The implementation's witness schema `x ** y ** G(x, y) [x << [A, F(y)], y << [B, F(x)], x <= A]`:
applied to `B` the model reports `ConstraintViolation` under all six orders, applied to `F(A)` the error
kind depends on the order. -/
theorem C18_counterexample_error_kind_witness :
    errOf (runS langAB (priorityOrd [0, 1, 2]) 4000 schemaThree [.app 7 [.app 5 []]]) = some .constraintViolation ∧
    errOf (runS langAB (priorityOrd [0, 2, 1]) 4000 schemaThree [.app 7 [.app 5 []]]) = some .typeMismatch :=
  ⟨cex_three_012, cex_three_021⟩

/-- The witness schema applied to `B` (the implementation's witness as reported): in the model all six orders
report the same error. -/
theorem C18_witness_B_same_error : ∀ p ∈ perms3,
    errOf (runS langAB (priorityOrd p) 4000 schemaThree [.app 6 []]) = some .constraintViolation := cex_three_B

/-- SUCCESS OR FAILURE depends on the order (the implementation's witness: `minimize()` fixes
self-referential alternatives). Language `A`, `B < A`, `F` contravariant in both places; schema
`B ** F(x, x) ** x ** F(x, _) [x << [B, F(B, B)], x << [F(x, _), F(_, _), F(A, x), B]]` applied to `B`, then
`F(A, A)`. -/
theorem C18_counterexample_result :
    isOk (runS langSub (priorityOrd [0, 1]) 4000 schemaRes argsRes) = true ∧
    errOf (runS langSub (priorityOrd [1, 0]) 4000 schemaRes argsRes) = some .constraintViolation :=
  ⟨cex_res_01, cex_res_10⟩

/-- THE RESULTING TYPE depends on the order.
Language `A`, `B < A`, `C < A`, `F` covariant, `G` contravariant-covariant; schema
`y ** A ** G(x, C) [y << [A, G(B, x)], y << [F(C), B, x], y << [G(B, A), A]]` applied to `C`, then `B`:
`G(A, C)` under (0,1,2), `G(C, C)` under (1,0,2) and under (2,1,0). (Before `bind` was repaired to hand the
bounds of a variable over through `unify`, order (2,1,0) tripped `below: assert not self.bound`.) -/
theorem C18_counterexample_result_type :
    resultIs (runS langABC (priorityOrd [0, 1, 2]) 4000 schemaType argsType) (.app 9 [.app 5 [], .app 7 []]) = true ∧
    resultIs (runS langABC (priorityOrd [1, 0, 2]) 4000 schemaType argsType) (.app 9 [.app 7 [], .app 7 []]) = true ∧
    resultIs (runS langABC (priorityOrd [2, 1, 0]) 4000 schemaType argsType) (.app 9 [.app 7 [], .app 7 []]) = true :=
  ⟨cex_type_012, cex_type_102, cex_type_210⟩

/- all six orders of the three constraints: three give `G(A, C)`, three give `G(C, C)`, none fails -/
example :
    (∀ p ∈ [[0, 1, 2], [0, 2, 1], [2, 0, 1]],
      resultIs (runS langABC (priorityOrd p) 4000 schemaType argsType) (.app 9 [.app 5 [], .app 7 []]) = true) ∧
    (∀ p ∈ [[1, 0, 2], [1, 2, 0], [2, 1, 0]],
      resultIs (runS langABC (priorityOrd p) 4000 schemaType argsType) (.app 9 [.app 7 [], .app 7 []]) = true) :=
  cex_type_all

/-- The general statement is false: it is not the case that all schedules that merely rearrange the pending
constraints give runs with the same error (let alone the same outcome). -/
theorem C18_general_false :
    ¬ (∀ (L : Lang) (ord₁ ord₂ : List Nat → List Nat) (fuel : Nat) (s : Schema) (args : List Term),
        (∀ cs, (ord₁ cs).Perm cs) → (∀ cs, (ord₂ cs).Perm cs) →
        errOf (runS L ord₁ fuel s args) = errOf (runS L ord₂ fuel s args)) := by
  intro h
  have e := h langAB (priorityOrd [0, 1]) (priorityOrd [1, 0]) 4000 schemaTwo [.app 7 [.app 6 []]]
    (priorityOrd_perm _) (priorityOrd_perm _)
  rw [cex_two_01, cex_two_10] at e
  exact absurd e (by decide)

end Tfv.C18
