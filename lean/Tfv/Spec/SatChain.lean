import Tfv.Spec.Sat
/-!
# Specification: applying a function type to a list of arguments

`applyAll` is the left-to-right fold of `Type.apply` (`applyT`);
`Accepts L f xs r` says the concrete type `f` takes the concrete arguments `xs`
(each a subtype of the corresponding parameter) and returns `r`.
-/
namespace Tfv

/-- `f.apply(x₁).apply(x₂)…` -/
def applyAll (L : Lang) (fuel : Nat) (fixFlag : Bool) : Store → Term → List Term → Except Err (Store × Term)
  | σ, f, [] => .ok (σ, f)
  | σ, f, x :: xs =>
    match applyT L fuel σ f x fixFlag with
    | .error e => .error e
    | .ok (σ1, r) => applyAll L fuel fixFlag σ1 r xs

/-- `f = p₁ ** p₂ ** … ** r` with `xᵢ ≤ pᵢ`; the type `Top` accepts anything and returns `Top` -/
def Accepts (L : Lang) : Ty → List Ty → Ty → Prop
  | f, [], r => f = r
  | f, x :: xs, r =>
    (∃ p q, f = .app FUN [p, q] ∧ Sub L x p ∧ Accepts L q xs r) ∨
    (f = .app TOP [] ∧ Accepts L (.app TOP []) xs r)

end Tfv

namespace Tfv

mutual
/-- a schema body is well formed: variables below `k`, arities respected -/
def okTermN (L : Lang) (k : Nat) : Term → Bool
  | .var v => v < k
  | .app o args => o < L.length && args.length == arityOf L o && okTermNL L k args
def okTermNL (L : Lang) (k : Nat) : List Term → Bool
  | [] => true
  | t :: ts => okTermN L k t && okTermNL L k ts
end

end Tfv
