import Tfv.Model
import Tfv.Proofs.GraphAbsDeepTop
import Tfv.Proofs.GraphAbsDeepClass
import Tfv.Proofs.GraphAbsDeepAgree
import Tfv.Proofs.GraphAbsDeepExamples
import Tfv.Proofs.FlowExamplesS
/-!
# C08 on expanded composite operators — abstractions in argument position at any depth

`Props/C08Abs.lean` gives the local rule for one abstraction `f (λ ps. body)`. Here the whole graph of an expression
with abstractions is described, at any depth, in the form of `C08_hofS_general` (Props/C08.lean):

1. The class `HofA` (`C08a_hofA_class`): every application spine — at the top, inside arguments, inside the bodies of
   abstractions — has an operator at its head. Arguments may be data expressions, passed operations, sources (of
   any type, the same one as often as one likes), parameters (as data *or* passed on as operations), and
   abstractions `λ ps. body` with `body` in the class: an operator-headed spine, but also a bare parameter (`λx. x`)
   or a source (`λx. s`). `hofA` decides it. The embedding of the class `HofS` of `C08_hofS_general` is contained in it.
2. The layout `flowHA` (`C08a_flowHA_spine`, `C08a_haStep`, `C08a_spineEdges`): `flowHO` with the parameter table, with
   computable edge lists, and with one more kind of argument. An abstraction contributes an internal node `λ` in front
   of it like a passed operation; its parameters are registered for `λ`, so every occurrence of a parameter *is* the
   node `λ`; the node of the argument is the node of the body; and the body's node is not fed by `λ`: the edge
   `node(body) → λ` is not made for the argument (it is in the graph exactly when the body makes it, e.g. in `λx. g x`,
   where `g` takes `x`). Everything else — `n → node`, `λ → other arguments`, the nested rule — is as for a passed operation.
3. `C08a_hofA_general`: for an expression of the class with an operator at its head, added to a consistent state, the
   layout describes the result exactly: result node, counter, source map, parameter table, the internal pairs, and
   the `from` edges as a set. `C08a_hofA_empty`: from the empty graph. `C08a_hofA_general_fresh`: consistency is kept.
4. `C08a_hofS_via_hofA`, `C08a_layout_agrees`: on abstraction-free expressions the new layout describes `addExpr` and agrees
   with `flowHO`.
5. `C08a_param_head_oddity`: why the head must be an operator — a parameter at the head of a spine.

No hypothesis on parameter numbers is needed: the layout follows the parameter table as the model does (first match),
so it also describes `k (λx. x) (λx. x)` with a reused number (`C08a_reused_parameter_number`), self-edge included.
Statements only; proofs in `Tfv/Proofs/GraphAbsDeep*.lean` (namespace `Tfv.C08P`).
-/
namespace Tfv.C08AbsDeep
open Tfv Tfv.C08P

/-! ## 1. the class -/

/-- The class `HofA`: `hofA` decides it; the embedding of an expression of the class `HofS` (operations and sources
passed as arguments at any depth, no abstractions) is in it; an expression of the class is a source, a parameter, an
abstraction, or a spine with an operator at its head; the arguments of such a spine and the body of an abstraction
are in the class again. -/
theorem C08a_hofA_class :
    (∀ e, hofA e = true ↔ HofA e) ∧ (∀ e : TExpr, HofS e → HofA (AExpr.ofT e)) ∧
    (∀ e, HofA e → (∃ id l t, e = .src id l t) ∨ (∃ id t, e = .pvar id t) ∨ (∃ qs b t, e = .lam qs b t) ∨
      ∃ name ty, headOfA e = .op name ty) ∧
    (∀ e name ty, HofA e → headOfA e = .op name ty → ∀ a ∈ argsOfA e, HofA a) ∧
    (∀ qs body t, HofA (.lam qs body t) → HofA body) :=
  ⟨hofA_iff, fun _ h => hofA_of_hofS h, fun _ h => hofA_head h, fun _ _ _ h hh => hofA_args h hh, fun _ _ _ h => hofA_body h⟩

/-- `h (λx. g (f x)) s`, `h (λx. k (λy. g2 y x) x) s` (the inner abstraction uses the outer parameter), `hh (λf. k f s)` (a
parameter passed on as an operation), `k s (λx. g x) s`, `h (λx. x)` and `k (λx. x) (λx. x)` are in the class;
`hh (λf. f s)` (a parameter at the head of a spine) is not. -/
example : hofA exDeep1 = true ∧ hofA exDeep2 = true ∧ hofA exDeep3 = true ∧ hofA exDeep4 = true ∧
    hofA exLamG = true ∧ hofA exLamNested = true ∧ hofA exLamId = true ∧ hofA exLamTwice = true ∧
    hofA exParamHead = false := exDeep_class

/-! ## 2. the layout -/

/-- The spine case of the layout: the node is the reserved one; the arguments are laid out left to right by `haStep`;
the internal pairs and edges are `spineIntsA` and `spineEdgesA` of the argument layouts. -/
theorem C08a_flowHA_spine (next : Nat) (memo params : List (Nat × Nat)) (e : AExpr) (cur : Nat) (name : String)
    (ty : Term) (h : headOfA e = .op name ty) :
    flowHA next memo params e cur =
      { node := cur,
        next := ((argsOfA e).foldl haStep { next := next, memo := memo, params := params, rs := [] }).next,
        memo := ((argsOfA e).foldl haStep { next := next, memo := memo, params := params, rs := [] }).memo,
        params := ((argsOfA e).foldl haStep { next := next, memo := memo, params := params, rs := [] }).params,
        ints := spineIntsA cur ((argsOfA e).foldl haStep { next := next, memo := memo, params := params, rs := [] }).rs,
        edges := spineEdgesA cur ((argsOfA e).foldl haStep { next := next, memo := memo, params := params, rs := [] }).rs } :=
  flowHA_spine next memo params e cur name ty h

/-- One argument more, for the three kinds of argument. With `x = st.next` the node reserved for the argument and
`λ = st.next + 1`:
* an abstraction `λ qs. body`: the body is laid out with node `x`, counter `x + 2`, and the parameter table extended by
  `q ↦ λ` for every `q` of `qs`; the argument has the body's node, the internal node `λ`, and is *not fed*;
* any other argument of function type (a passed operation, source or parameter): laid out with node `x`, counter
  `x + 2`; internal node `λ`, fed (`node → λ`);
* a data argument: laid out with node `x`, counter `x + 1`; no internal node.
Leaves: a source or parameter that is in its table has the node found there (the first match) and uses up nothing. -/
theorem C08a_haStep (st : HaArgs) :
    (∀ qs body t, haStep st (.lam qs body t) =
      pushArg st (flowHA (st.next + 2) st.memo (st.params ++ qs.map (fun q => (q, st.next + 1))) body st.next)
        (some (st.next + 1)) false) ∧
    (∀ x, AExpr.isLam x = false → x.ty.isFunction = true →
      haStep st x = pushArg st (flowHA (st.next + 2) st.memo st.params x st.next) (some (st.next + 1)) true) ∧
    (∀ x, AExpr.isLam x = false → x.ty.isFunction = false →
      haStep st x = pushArg st (flowHA (st.next + 1) st.memo st.params x st.next) none false) ∧
    (∀ r lam fed, pushArg st r lam fed =
      { next := r.next, memo := r.memo, params := r.params, rs := st.rs ++ [⟨r.node, lam, fed, r.ints, r.edges⟩] }) ∧
    (∀ next memo params id ty cur p, params.find? (fun p => p.1 == id) = some p →
      flowHA next memo params (.pvar id ty) cur = ⟨p.2, next, memo, params, [], []⟩) ∧
    (∀ next memo params id l ty cur p, memo.find? (fun p => p.1 == id) = some p →
      flowHA next memo params (.src id l ty) cur = ⟨p.2, next, memo, params, [], []⟩) ∧
    (∀ next memo params id l ty cur, memo.find? (fun p => p.1 == id) = none →
      flowHA next memo params (.src id l ty) cur = ⟨cur, next, memo ++ [(id, cur)], params, [], []⟩) :=
  ⟨fun _ _ _ => rfl,
   fun x hx hf => by rw [haStep_nonlam st x hx, hf]; rfl,
   fun x hx hf => by rw [haStep_nonlam st x hx, hf]; rfl,
   fun _ _ _ => rfl,
   fun next memo params id ty cur p h => by rw [flowHA_pvar, h],
   fun next memo params id l ty cur p h => by rw [flowHA_src, h],
   fun next memo params id l ty cur h => by rw [flowHA_src, h]⟩

/-- The edges of a spine with node `n` whose arguments have been laid out as `rs`, in words: (1) the edges inside the
arguments; (2) `n → node(a)` for every argument; (3) `node(a) → λ` for every *fed* argument `a` with internal node `λ` — a
passed operation, not an abstraction; (4) `λ → node(b)` for every argument `a` with internal node `λ` and every other
argument `b` (the internal nodes of a spine are pairwise different, so "other" = with another internal node or none);
(5) `μ → λ` for every internal node `μ` attached, inside `a`, to the node of `a` (nesting). The internal pairs are, per
argument, `(n, λ)` followed by the pairs made inside. -/
theorem C08a_spineEdges (n : Nat) (rs : List HaArg) (p : Nat × Nat) :
    (p ∈ spineEdgesA n rs ↔
      (∃ q ∈ rs, p ∈ q.edges) ∨ (∃ a ∈ rs, p = (n, a.node)) ∨
      (∃ a ∈ rs, ∃ l, a.lam = some l ∧ a.fed = true ∧ p = (a.node, l)) ∨
      (∃ a ∈ rs, ∃ b ∈ rs, ∃ l, a.lam = some l ∧ b.lam ≠ some l ∧ p = (l, b.node)) ∨
      (∃ q ∈ rs, ∃ l μ, q.lam = some l ∧ (q.node, μ) ∈ q.ints ∧ p = (μ, l))) ∧
    (p ∈ spineIntsA n rs ↔ (∃ q ∈ rs, q.lam = some p.2 ∧ p.1 = n) ∨ (∃ q ∈ rs, p ∈ q.ints)) :=
  ⟨mem_spineEdgesA n rs p, mem_spineIntsA n rs p⟩

/-- `h (λx. g (f x)) s`, evaluated from the definition: 0 = `h …`, 1 = `g (f x)` (the body: the node of the argument),
2 = the internal node = `x`, 3 = `f x`, 5 = `s`. `3 → 2` (`f` takes `x`), `1 → 3`, `0 → 1`, `0 → 5`, `2 → 5`; no `1 → 2`. -/
example : flowHATop 0 [] [] exDeep1 none =
    ⟨0, 6, [(0, 5)], [(7, 2)], [(0, 2)], [(3, 2), (1, 3), (0, 1), (0, 5), (2, 5)]⟩ := exDeep1_layout

/-! ## 3. the graph of an expression with abstractions -/

/-- **Abstractions at any depth.** For an expression `e` of the class `HofA` with an operator at its head, added with
`addExprA` (no type triples) to a consistent state — `GFresh`, no internal node hangs off a source node (`SrcNoInt`) or
off a node a parameter stands for (`ParFresh`, which also says these nodes have been handed out), a reserved node is
unused (`CurFreeA`) — the layout `flowHATop` (= `flowHA` with the reserved node, or the next unused one) describes the
result exactly: the result node; the counter; the source map; the parameter table; the internal pairs (the old ones
followed by `ints`, all new and pairwise distinct); and the `from` edges as a set: the old ones and `edges`
(`C08a_flowHA_spine`, `C08a_haStep`, `C08a_spineEdges` say what these are). Any language, any configuration without
types, any origin, any flags. -/
theorem C08a_hofA_general (G : GLang) (c : GCfg) (root : Node) (origin : Option Node)
    (hc : c.withTypes = false) (s s' : AState) (e : AExpr) (cur : Option Nat) (im : Bool) (n : Nat)
    (name : String) (ty : Term) (hof : HofA e) (hh : headOfA e = .op name ty)
    (hg : GFresh s.g) (hs : SrcNoInt s.g) (hp : ParFresh s) (hcur : ∀ m, cur = some m → CurFreeA s m)
    (h : addExprA G c root origin s e cur im = .ok (s', n)) :
    n = (allocNode s.g.nextB cur).1 ∧
    n = (flowHATop s.g.nextB s.g.srcNodes s.params e cur).node ∧
    s'.g.nextB = (flowHATop s.g.nextB s.g.srcNodes s.params e cur).next ∧
    s'.g.srcNodes = (flowHATop s.g.nextB s.g.srcNodes s.params e cur).memo ∧
    s'.params = (flowHATop s.g.nextB s.g.srcNodes s.params e cur).params ∧
    s'.g.sharedNodes = s.g.sharedNodes ∧
    s'.g.internals = s.g.internals ++ (flowHATop s.g.nextB s.g.srcNodes s.params e cur).ints ∧
    (∀ p, p ∈ s'.g.fd.frm ↔ p ∈ s.g.fd.frm ∨ p ∈ (flowHATop s.g.nextB s.g.srcNodes s.params e cur).edges) ∧
    ((flowHATop s.g.nextB s.g.srcNodes s.params e cur).ints.map Prod.snd).Nodup ∧
    (∀ q ∈ (flowHATop s.g.nextB s.g.srcNodes s.params e cur).ints, s.g.nextB ≤ q.2 ∧ q.2 < s'.g.nextB) :=
  addExprA_hofA_general hc hof hh hg hs hp hcur h

/-- Non-vacuity, nested: `h (λx. k (λy. g2 y x) x) s` is in the class, has the operator `h` at its head, the empty state
qualifies, the run succeeds; the layout evaluated from its definition and the run of the graph code (both by kernel
evaluation, independently of the theorem) have the same internal pairs and the same edge set. -/
example : HofA exDeep2 ∧ headOfA exDeep2 = .op "h" tFAA ∧ GFresh sA0.g ∧ SrcNoInt sA0.g ∧ ParFresh sA0 ∧
    (∃ s' n, addExprA exG exCfg (.res "w") none sA0 exDeep2 none false = .ok (s', n)) ∧
    flowHATop 0 [] [] exDeep2 none =
      ⟨0, 9, [(0, 8)], [(7, 2), (8, 4)], [(0, 2), (1, 4)],
        [(3, 4), (3, 2), (1, 3), (1, 2), (4, 2), (0, 1), (0, 8), (2, 8), (4, 2)]⟩ ∧
    summaryA (addExprA exG exCfg (.res "w") none sA0 exDeep2 none false) =
      some ⟨[(2, 8), (0, 8), (4, 2), (0, 1), (4, 2), (1, 2), (1, 3), (3, 2), (3, 4)], [(0, 2), (1, 4)], [(0, 8)], 9, 0,
        [(7, 2), (8, 4)]⟩ ∧
    sameSet (flowHATop 0 [] [] exDeep2 none).edges
      [(2, 8), (0, 8), (4, 2), (0, 1), (4, 2), (1, 2), (1, 3), (3, 2), (3, 4)] = true :=
  ⟨hofA_sound _ exDeep_class.2.1, rfl, gfresh_empty, srcNoInt_empty, parFresh_nil {}, ok_of_summaryA exDeep2_run,
    exDeep2_layout, exDeep2_run, exDeep_sameSet.2.1⟩

/-- `h (λx. g (f x)) s`: layout and run. -/
example : HofA exDeep1 ∧ headOfA exDeep1 = .op "h" tFAA ∧
    (flowHATop 0 [] [] exDeep1 none).edges = [(3, 2), (1, 3), (0, 1), (0, 5), (2, 5)] ∧
    summaryA (addExprA exG exCfg (.res "w") none sA0 exDeep1 none false) =
      some ⟨[(2, 5), (0, 5), (0, 1), (1, 3), (3, 2)], [(0, 2)], [(0, 5)], 6, 0, [(7, 2)]⟩ :=
  ⟨hofA_sound _ exDeep_class.1, rfl, congrArg HaRes.edges exDeep1_layout, exDeep1_run⟩

/-- A parameter of function type passed on as an operation (`hh (λf. k f s)`: the node 2 that `f` stands for is fed by
the internal node 4 of `k`: `2 → 4`), and a source passed twice around an abstraction (`k s (λx. g x) s`). -/
example : (flowHATop 0 [] [] exDeep3 none).edges = [(1, 2), (1, 5), (2, 4), (4, 5), (0, 1), (4, 2)] ∧
    summaryA (addExprA exG exCfg (.res "w") none sA0 exDeep3 none false) =
      some ⟨[(4, 2), (0, 1), (4, 5), (1, 5), (1, 2), (2, 4)], [(0, 2), (1, 4)], [(0, 5)], 6, 0, [(7, 2)]⟩ ∧
    sameSet (flowHATop 0 [] [] exDeep4 none).edges
      [(7, 3), (7, 1), (4, 1), (2, 1), (0, 1), (1, 7), (4, 1), (2, 3), (0, 3), (3, 4), (0, 1), (1, 2)] = true ∧
    summaryA (addExprA exG exCfg (.res "w") none sA0 exDeep4 none false) =
      some ⟨[(7, 3), (7, 1), (4, 1), (2, 1), (0, 1), (1, 7), (4, 1), (2, 3), (0, 3), (3, 4), (0, 1), (1, 2)],
        [(0, 2), (0, 4), (0, 7)], [(3, 1)], 8, 0, [(7, 4)]⟩ :=
  ⟨congrArg HaRes.edges exDeep3_layout, exDeep3_run, exDeep_sameSet.2.2.2, exDeep4_run⟩

/-- **From the empty graph**: the result node is 0, and counter, source map, parameter table, internal pairs and `from`
edges (as a set) of the graph are exactly those of the layout started at 0 with empty tables. -/
theorem C08a_hofA_empty (G : GLang) (c : GCfg) (root : Node) (origin : Option Node) (hc : c.withTypes = false)
    (s' : AState) (e : AExpr) (im : Bool) (n : Nat) (name : String) (ty : Term)
    (hof : HofA e) (hh : headOfA e = .op name ty)
    (h : addExprA G c root origin { g := {}, params := [] } e none im = .ok (s', n)) :
    n = 0 ∧ s'.g.nextB = (flowHATop 0 [] [] e none).next ∧ s'.g.srcNodes = (flowHATop 0 [] [] e none).memo ∧
    s'.params = (flowHATop 0 [] [] e none).params ∧
    s'.g.internals = (flowHATop 0 [] [] e none).ints ∧
    (∀ p, p ∈ s'.g.fd.frm ↔ p ∈ (flowHATop 0 [] [] e none).edges) :=
  addExprA_hofA_empty hc hof hh h

example : exCfg.withTypes = false ∧ HofA exLamTwice ∧ headOfA exLamTwice = .op "k" tFFA ∧
    (∃ s' n, addExprA exG exCfg (.res "w") none { g := {}, params := [] } exLamTwice none false = .ok (s', n)) ∧
    flowHATop 0 [] [] exLamTwice none =
      ⟨0, 5, [], [(7, 2), (7, 4)], [(0, 2), (0, 4)], [(0, 2), (0, 2), (2, 2), (4, 2)]⟩ :=
  ⟨rfl, hofA_sound _ exDeep_class.2.2.2.2.2.2.2.1, rfl, ok_of_summaryA exLamTwice_run.1, exLam_layouts.2⟩

/-- An expression of the class keeps the state consistent (graph and parameter table), so the theorem can be applied
to the next expression added to the same graph. -/
theorem C08a_hofA_general_fresh (G : GLang) (c : GCfg) (root : Node) (origin : Option Node)
    (hc : c.withTypes = false) (s s' : AState) (e : AExpr) (cur : Option Nat) (im : Bool) (n : Nat)
    (name : String) (ty : Term) (hof : HofA e) (hh : headOfA e = .op name ty)
    (hg : GFresh s.g) (hs : SrcNoInt s.g) (hp : ParFresh s) (hcur : ∀ m, cur = some m → CurFreeA s m)
    (h : addExprA G c root origin s e cur im = .ok (s', n)) : GFresh s'.g ∧ SrcNoInt s'.g ∧ ParFresh s' :=
  addExprA_hofA_general_fresh hc hof hh hg hs hp hcur h

example : HofA exDeep3 ∧ headOfA exDeep3 = .op "hh" tFAA ∧ GFresh sA0.g ∧ SrcNoInt sA0.g ∧ ParFresh sA0 ∧
    (∀ m, (none : Option Nat) = some m → CurFreeA sA0 m) ∧
    (∃ s' n, addExprA exG exCfg (.res "w") none sA0 exDeep3 none false = .ok (s', n)) :=
  ⟨hofA_sound _ exDeep_class.2.2.1, rfl, gfresh_empty, srcNoInt_empty, parFresh_nil {}, fun _ hm => (by cases hm),
    ok_of_summaryA exDeep3_run⟩

/-! ## 4. abstraction-free expressions -/

/-- The theorem read for `addExpr`: for an abstraction-free expression of the class `HofS` the layout `flowHA` of its
embedding describes the graph `addExpr` builds (hypotheses of `C08_hofS_general`). -/
theorem C08a_hofS_via_hofA (G : GLang) (c : GCfg) (root : Node) (origin : Option Node)
    (hc : c.withTypes = false) (g g' : GState) (e : TExpr) (cur : Option Nat) (im : Bool) (n : Nat)
    (name : String) (ty : Term) (hof : HofS e) (hh : headOf e = .op name ty)
    (hg : GFresh g) (hs : SrcNoInt g) (hcur : ∀ m, cur = some m → CurFree g m)
    (h : addExpr G c root origin g e cur im = .ok (g', n)) :
    n = (flowHATop g.nextB g.srcNodes [] (AExpr.ofT e) cur).node ∧
    g'.nextB = (flowHATop g.nextB g.srcNodes [] (AExpr.ofT e) cur).next ∧
    g'.srcNodes = (flowHATop g.nextB g.srcNodes [] (AExpr.ofT e) cur).memo ∧
    g'.internals = g.internals ++ (flowHATop g.nextB g.srcNodes [] (AExpr.ofT e) cur).ints ∧
    (∀ p, p ∈ g'.fd.frm ↔ p ∈ g.fd.frm ∨ p ∈ (flowHATop g.nextB g.srcNodes [] (AExpr.ofT e) cur).edges) :=
  addExpr_hofS_via_hofA hc hof hh hg hs hcur h

/-- On abstraction-free expressions the new layout is the old one: for `e` of the class `HofS` with an operator at
its head, `flowHA` of the embedding and `flowHO` give the same node, counter, source map and internal pairs, and the
same edge set (start state as it can occur: the source nodes handed out, the reserved node handed out and not a
source node). -/
theorem C08a_layout_agrees (e : TExpr) (name : String) (ty : Term) (hof : HofS e) (hh : headOf e = .op name ty)
    (next : Nat) (memo : List (Nat × Nat)) (cur : Option Nat) (hm : ∀ p ∈ memo, p.2 < next)
    (hcur : ∀ m, cur = some m → m < next ∧ ∀ p ∈ memo, p.2 ≠ m) :
    (flowHATop next memo [] (AExpr.ofT e) cur).node = (flowHOTop next memo e cur).node ∧
    (flowHATop next memo [] (AExpr.ofT e) cur).next = (flowHOTop next memo e cur).next ∧
    (flowHATop next memo [] (AExpr.ofT e) cur).memo = (flowHOTop next memo e cur).memo ∧
    (flowHATop next memo [] (AExpr.ofT e) cur).ints = (flowHOTop next memo e cur).ints ∧
    (∀ p, p ∈ (flowHATop next memo [] (AExpr.ofT e) cur).edges ↔ (flowHOTop next memo e cur).edges p) :=
  flowHA_agrees hof hh next memo cur hm hcur

example : HofS exNestS ∧ headOf exNestS = .op "h" tFFA ∧ (∀ p ∈ ([] : List (Nat × Nat)), p.2 < 0) ∧
    (flowHATop 0 [] [] (AExpr.ofT exNestS) none).edges =
      [(1, 3), (3, 4), (0, 1), (0, 3), (1, 2), (3, 6), (2, 3), (6, 1), (4, 2)] := by
  refine ⟨exNestS_hofS, rfl, fun _ h => (by cases h), ?_⟩
  decide +kernel

/-! ## 5. a model oddity -/

/-- Why every spine must have an operator at its head. In `hh (λf. f s)` the parameter `f` is *applied*. The graph code
attaches the argument `s` to the node the parameter stands for (the internal node 2: `2 → 3`), but the node it returns
for the application `f s` is the reserved blank node 1, which gets no edge at all; so the body's node 1 (`0 → 1`) is not
connected to `s`. The layout would give `1 → 3`. (The same happens with a source at the head of a spine, see the oddity
at the end of `Props/C08.lean`.) -/
theorem C08a_param_head_oddity :
    hofA exParamHead = false ∧ headOfA exParamHead = .op "hh" tFAA ∧
    summaryA (addExprA exG exCfg (.res "w") none sA0 exParamHead none false) =
      some ⟨[(0, 1), (2, 3)], [(0, 2)], [(0, 3)], 4, 0, [(7, 2)]⟩ ∧
    (flowHATop 0 [] [] exParamHead none).edges = [(1, 3), (0, 1)] ∧
    ¬ (∀ p, p ∈ [((0 : Nat), (1 : Nat)), (2, 3)] ↔ p ∈ (flowHATop 0 [] [] exParamHead none).edges) := by
  refine ⟨exDeep_class.2.2.2.2.2.2.2.2, rfl, exParamHead_run.1, exParamHead_run.2, ?_⟩
  rw [exParamHead_run.2]
  intro h
  exact absurd ((h (2, 3)).1 (by decide)) (by decide)

end Tfv.C08AbsDeep
