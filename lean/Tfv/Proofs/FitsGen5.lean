import Tfv.Proofs.FitsGen2
/-!
# C06 beyond linear alternatives, part 5: the subtype order has the interpolation property

If finitely many well-formed types `ls` all lie below finitely many well-formed types `us`, some well-formed type
lies between them (`interp`). With it `fitsX` decides `Fits` for EVERY well-formed pattern, however often a
variable is repeated (`fitsX_iff_fits_all`).
-/
namespace Tfv

theorem anc_chain {L : Lang} {a b c : Nat} (h1 : Anc L a b) (h2 : Anc L a c) : Anc L b c ∨ Anc L c b := by
  induction h1 with
  | refl a => exact Or.inl h2
  | step hp hpb ih =>
    cases h2 with
    | refl => exact Or.inr (Anc.step hp hpb)
    | step hp' hpc =>
      rw [hp] at hp'
      injection hp' with e
      subst e
      exact ih hpc

/-- the statement for two lower and two upper types whose sizes add up to at most `n` -/
def Interp22 (L : Lang) (n : Nat) : Prop :=
  ∀ l1 l2 u1 u2 : Ty, wfTy L l1 = true → wfTy L l2 = true → wfTy L u1 = true → wfTy L u2 = true →
    Ty.size l1 + Ty.size l2 + Ty.size u1 + Ty.size u2 ≤ n →
    Sub L l1 u1 → Sub L l1 u2 → Sub L l2 u1 → Sub L l2 u2 →
    ∃ θ, wfTy L θ = true ∧ Sub L l1 θ ∧ Sub L l2 θ ∧ Sub L θ u1 ∧ Sub L θ u2

theorem wfTyL_cons_mk {L : Lang} {t : Ty} {ts : List Ty} (h1 : wfTy L t = true) (h2 : wfTyL L ts = true) :
    wfTyL L (t :: ts) = true := by
  rw [wfTyL, h1, h2]; rfl

/-- position-wise interpolation of argument lists, given the statement for the elements -/
theorem interp_args {L : Lang} {n : Nat} (P : Interp22 L n) : ∀ (vs : List Bool) (as1 as2 bs1 bs2 : List Ty),
    wfTyL L as1 = true → wfTyL L as2 = true → wfTyL L bs1 = true → wfTyL L bs2 = true →
    Ty.sizeL as1 + Ty.sizeL as2 + Ty.sizeL bs1 + Ty.sizeL bs2 ≤ n →
    SubArgs L vs as1 bs1 → SubArgs L vs as1 bs2 → SubArgs L vs as2 bs1 → SubArgs L vs as2 bs2 →
    ∃ θs, wfTyL L θs = true ∧ θs.length = vs.length ∧
      SubArgs L vs as1 θs ∧ SubArgs L vs as2 θs ∧ SubArgs L vs θs bs1 ∧ SubArgs L vs θs bs2
  | [], as1, as2, bs1, bs2, _, _, _, _, _, h11, _, _, h22 => by
    cases h11; cases h22
    exact ⟨[], rfl, rfl, SubArgs.nil, SubArgs.nil, SubArgs.nil, SubArgs.nil⟩
  | true :: vs, as1, as2, bs1, bs2, w1, w2, w3, w4, hn, h11, h12, h21, h22 => by
    cases h11 with
    | co a11 r11 =>
      cases h22 with
      | co a22 r22 =>
        cases h12 with
        | co a12 r12 =>
          cases h21 with
          | co a21 r21 =>
            obtain ⟨w1a, w1b⟩ := wfTyL_cons w1
            obtain ⟨w2a, w2b⟩ := wfTyL_cons w2
            obtain ⟨w3a, w3b⟩ := wfTyL_cons w3
            obtain ⟨w4a, w4b⟩ := wfTyL_cons w4
            simp only [Ty.sizeL] at hn
            obtain ⟨θ, hθ, t1, t2, t3, t4⟩ := P _ _ _ _ w1a w2a w3a w4a (by omega) a11 a12 a21 a22
            obtain ⟨θs, hθs, hl, s1, s2, s3, s4⟩ :=
              interp_args P vs _ _ _ _ w1b w2b w3b w4b (by omega) r11 r12 r21 r22
            exact ⟨θ :: θs, wfTyL_cons_mk hθ hθs, by simp [hl], SubArgs.co t1 s1, SubArgs.co t2 s2,
              SubArgs.co t3 s3, SubArgs.co t4 s4⟩
  | false :: vs, as1, as2, bs1, bs2, w1, w2, w3, w4, hn, h11, h12, h21, h22 => by
    cases h11 with
    | contra a11 r11 =>
      cases h22 with
      | contra a22 r22 =>
        cases h12 with
        | contra a12 r12 =>
          cases h21 with
          | contra a21 r21 =>
            obtain ⟨w1a, w1b⟩ := wfTyL_cons w1
            obtain ⟨w2a, w2b⟩ := wfTyL_cons w2
            obtain ⟨w3a, w3b⟩ := wfTyL_cons w3
            obtain ⟨w4a, w4b⟩ := wfTyL_cons w4
            simp only [Ty.sizeL] at hn
            -- the elements of `bs` are the lower ones here
            obtain ⟨θ, hθ, t1, t2, t3, t4⟩ := P _ _ _ _ w3a w4a w1a w2a (by omega) a11 a21 a12 a22
            obtain ⟨θs, hθs, hl, s1, s2, s3, s4⟩ :=
              interp_args P vs _ _ _ _ w1b w2b w3b w4b (by omega) r11 r12 r21 r22
            exact ⟨θ :: θs, wfTyL_cons_mk hθ hθs, by simp [hl], SubArgs.contra t3 s1, SubArgs.contra t4 s2,
              SubArgs.contra t1 s3, SubArgs.contra t2 s4⟩

theorem wfTy_app_mk {L : Lang} {o : Nat} {args : List Ty} (ho : o < L.length)
    (hl : args.length = arityOf L o) (ha : wfTyL L args = true) : wfTy L (.app o args) = true := by
  rw [wfTy, ha]
  simp [ho, hl]

theorem wfTy_op_lt {L : Lang} {o : Nat} {args : List Ty} (h : wfTy L (.app o args) = true) : o < L.length := by
  unfold wfTy at h
  simp only [Bool.and_eq_true, decide_eq_true_eq] at h
  exact h.1.1

theorem interp22 {L : Lang} (wf : WF L) : ∀ n, Interp22 L n
  | 0 => by
    intro l1 l2 u1 u2 _ _ _ _ hn
    cases l1 with
    | app a as => rw [Ty.size] at hn; omega
  | n+1 => by
    have IH := interp22 wf n
    intro l1 l2 u1 u2 w1 w2 w3 w4 hn s11 s12 s21 s22
    obtain ⟨a1, as1⟩ := l1
    obtain ⟨a2, as2⟩ := l2
    obtain ⟨b1, bs1⟩ := u1
    obtain ⟨b2, bs2⟩ := u2
    by_cases e1 : a1 = BOT
    · exact ⟨_, w2, by subst e1; rw [wfTy_nullary w1 (arity_bot wf)]; exact Sub.bot _, sub_refl _ w2, s21, s22⟩
    by_cases e2 : a2 = BOT
    · exact ⟨_, w1, sub_refl _ w1, by subst e2; rw [wfTy_nullary w2 (arity_bot wf)]; exact Sub.bot _, s11, s12⟩
    by_cases e3 : b1 = TOP
    · exact ⟨_, w4, s12, s22, by subst e3; rw [wfTy_nullary w3 (arity_top wf)]; exact Sub.top _, sub_refl _ w4⟩
    by_cases e4 : b2 = TOP
    · exact ⟨_, w3, s11, s21, sub_refl _ w3, by subst e4; rw [wfTy_nullary w4 (arity_top wf)]; exact Sub.top _⟩
    rcases sub_inv s11 with ⟨h, _⟩ | ⟨h, _⟩ | ⟨_, hb1, n1, nb1, anc1⟩ | ⟨eo1, no1, r11⟩
    · exact absurd h e1
    · exact absurd h e3
    · -- base types: `u1`, `u2` are ancestors of `l1`, hence comparable; the lower one interpolates
      rcases sub_inv s12 with ⟨h, _⟩ | ⟨h, _⟩ | ⟨_, hb2, _, nb2, anc2⟩ | ⟨_, no, _⟩
      · exact absurd h e1
      · exact absurd h e4
      · subst hb1; subst hb2
        rcases anc_chain anc1 anc2 with c | c
        · exact ⟨_, w3, s11, s21, sub_refl _ w3, Sub.base nb1 nb2 c⟩
        · exact ⟨_, w4, s12, s22, Sub.base nb2 nb1 c, sub_refl _ w4⟩
      · exact absurd n1 no
    · -- the same compound operator everywhere
      subst eo1
      rcases sub_inv s12 with ⟨h, _⟩ | ⟨h, _⟩ | ⟨_, _, n1, _, _⟩ | ⟨eo2, _, r12⟩
      · exact absurd h e1
      · exact absurd h e4
      · exact absurd n1 no1
      · subst eo2
        rcases sub_inv s21 with ⟨h, _⟩ | ⟨h, _⟩ | ⟨_, _, _, nb, _⟩ | ⟨eo3, _, r21⟩
        · exact absurd h e2
        · exact absurd h e3
        · exact absurd nb no1
        · subst eo3
          rcases sub_inv s22 with ⟨h, _⟩ | ⟨h, _⟩ | ⟨_, _, n2, _, _⟩ | ⟨_, _, r22⟩
          · exact absurd h e2
          · exact absurd h e4
          · exact absurd n2 no1
          · simp only [Ty.size] at hn
            obtain ⟨θs, hθs, hl, t1, t2, t3, t4⟩ := interp_args IH _ as1 as2 bs1 bs2
              (wfTy_app w1).2 (wfTy_app w2).2 (wfTy_app w3).2 (wfTy_app w4).2 (by omega) r11 r12 r21 r22
            exact ⟨.app a2 θs, wfTy_app_mk (wfTy_op_lt w2) (by rw [hl]; rfl) hθs,
              Sub.cong no1 t1, Sub.cong no1 t2, Sub.cong no1 t3, Sub.cong no1 t4⟩

theorem interp_two {L : Lang} (wf : WF L) (l1 l2 u1 u2 : Ty)
    (w1 : wfTy L l1 = true) (w2 : wfTy L l2 = true) (w3 : wfTy L u1 = true) (w4 : wfTy L u2 = true)
    (s11 : Sub L l1 u1) (s12 : Sub L l1 u2) (s21 : Sub L l2 u1) (s22 : Sub L l2 u2) :
    ∃ θ, wfTy L θ = true ∧ Sub L l1 θ ∧ Sub L l2 θ ∧ Sub L θ u1 ∧ Sub L θ u2 :=
  interp22 wf _ l1 l2 u1 u2 w1 w2 w3 w4 (Nat.le_refl _) s11 s12 s21 s22

/-- two lower types, any number of upper types -/
theorem interp_2n {L : Lang} (wf : WF L) (l1 l2 : Ty) (w1 : wfTy L l1 = true) (w2 : wfTy L l2 = true) :
    ∀ (us : List Ty), (∀ u ∈ us, wfTy L u = true) → (∀ u ∈ us, Sub L l1 u) → (∀ u ∈ us, Sub L l2 u) →
    ∃ θ, wfTy L θ = true ∧ Sub L l1 θ ∧ Sub L l2 θ ∧ ∀ u ∈ us, Sub L θ u
  | [], _, _, _ => ⟨.app TOP [], wfTy_top wf, Sub.top _, Sub.top _, fun _ h => by cases h⟩
  | u :: us, hw, h1, h2 => by
    obtain ⟨θ', wθ', a1, a2, a3⟩ := interp_2n wf l1 l2 w1 w2 us
      (fun v hv => hw v (List.mem_cons_of_mem _ hv)) (fun v hv => h1 v (List.mem_cons_of_mem _ hv))
      (fun v hv => h2 v (List.mem_cons_of_mem _ hv))
    obtain ⟨θ, wθ, b1, b2, b3, b4⟩ := interp_two wf l1 l2 θ' u w1 w2 wθ' (hw u List.mem_cons_self)
      a1 (h1 u List.mem_cons_self) a2 (h2 u List.mem_cons_self)
    refine ⟨θ, wθ, b1, b2, fun v hv => ?_⟩
    rcases List.mem_cons.mp hv with e | hv'
    · rw [e]; exact b4
    · exact sub_trans wf θ' θ v b3 (a3 v hv')

/-- **interpolation**: finitely many well-formed types all below finitely many well-formed types have a
well-formed type between them -/
theorem interp {L : Lang} (wf : WF L) : ∀ (ls us : List Ty), (∀ l ∈ ls, wfTy L l = true) →
    (∀ u ∈ us, wfTy L u = true) → (∀ l ∈ ls, ∀ u ∈ us, Sub L l u) →
    ∃ θ, wfTy L θ = true ∧ (∀ l ∈ ls, Sub L l θ) ∧ ∀ u ∈ us, Sub L θ u
  | [], us, _, _, _ => ⟨.app BOT [], wfTy_bot wf, fun _ h => (by cases h), fun _ _ => Sub.bot _⟩
  | l :: ls, us, hwl, hwu, h => by
    obtain ⟨θ', wθ', a1, a2⟩ := interp wf ls us (fun v hv => hwl v (List.mem_cons_of_mem _ hv)) hwu
      (fun v hv => h v (List.mem_cons_of_mem _ hv))
    obtain ⟨θ, wθ, b1, b2, b3⟩ := interp_2n wf θ' l wθ' (hwl l List.mem_cons_self) us hwu a2
      (h l List.mem_cons_self)
    refine ⟨θ, wθ, fun v hv => ?_, b3⟩
    rcases List.mem_cons.mp hv with e | hv'
    · rw [e]; exact b2
    · exact sub_trans wf θ' v θ (a1 v hv') b1

/-- **`fitsX` decides `Fits`** for every well-formed pattern -/
theorem fitsX_iff_fits_all {L : Lang} (wf : WF L) (x : Ty) (p : Term)
    (hx : wfTy L x = true) (hp : wfTm L p = true) : fitsX L x p = true ↔ Fits L x p := by
  refine ⟨fun h => ?_, fitsX_of_fits wf x p hx hp⟩
  unfold fitsX at h
  rw [Bool.and_eq_true, compat_iff] at h
  obtain ⟨hb, hc⟩ := h
  have hw := reqs_wf L true x p hx
  have key : ∀ v, ∃ t, wfTy L t = true ∧
      (∀ l ∈ lowers (reqs L true x p) v, Sub L l t) ∧ ∀ u ∈ uppers (reqs L true x p) v, Sub L t u := by
    intro v
    apply interp wf
    · intro l hl; exact hw _ (mem_lowers.mp hl)
    · intro u hu; exact hw _ (mem_uppers.mp hu)
    · intro l hl u hu
      have wl := hw _ (mem_lowers.mp hl)
      have wu := hw _ (mem_uppers.mp hu)
      have := (matchC_true_iff wf true l u wl wu).mp (hc v l u (mem_lowers.mp hl) (mem_uppers.mp hu))
      simpa using this
  obtain ⟨θ, hθ⟩ := Classical.axiomOfChoice key
  refine ⟨θ, fun v => (hθ v).1, ?_⟩
  have hm := match_of_reqs L θ true x p hb (by
    rintro ⟨v, b, t⟩ hr
    unfold Req.holds
    simp only
    have wt : wfTy L t = true := hw _ hr
    cases b with
    | true =>
      exact (matchC_true_iff wf true t (θ v) wt (hθ v).1).mpr (by simpa using (hθ v).2.1 t (mem_lowers.mpr hr))
    | false =>
      exact (matchC_true_iff wf false t (θ v) wt (hθ v).1).mpr (by simpa using (hθ v).2.2 t (mem_uppers.mpr hr)))
  have := (matchC_true_iff wf true x _ hx (inst_wf L θ (fun v => (hθ v).1) p hp)).mp hm
  simpa using this

/-- for any well-formed alternatives: the filter keeps the fitting alternatives and, in addition, exactly those
that pass `fitsB` but fail `fitsX` -/
theorem kept_all {L : Lang} (wf : WF L) (σ : Store) (n : Nat) (x : Ty) (alts : List Term)
    (hx : wfTy L x = true) (hp : ∀ t ∈ alts, wfTm L t = true)
    (hf : ∀ t ∈ alts, PatFree σ t) (hn : Ty.depth x < n) (t : Term) :
    t ∈ alts.filter (fun t => match3 L σ n true true x.toTerm t != some false) ↔
      t ∈ alts ∧ (Fits L x t ∨ (fitsB L true x t = true ∧ fitsX L x t = false)) := by
  rw [filter_keeps_fitting L σ n x alts hf hn, List.mem_filter]
  constructor
  · rintro ⟨ht, hb⟩
    refine ⟨ht, ?_⟩
    cases hX : fitsX L x t with
    | true => exact Or.inl ((fitsX_iff_fits_all wf x t hx (hp t ht)).mp hX)
    | false => exact Or.inr ⟨hb, rfl⟩
  · rintro ⟨ht, hfit | ⟨hb, _⟩⟩
    · exact ⟨ht, fits_of_instance wf x t hx (hp t ht) hfit⟩
    · exact ⟨ht, hb⟩

/-- the filter is exact on an alternative iff the demands of the argument on it are compatible -/
theorem kept_exact_iff {L : Lang} (wf : WF L) (σ : Store) (n : Nat) (x : Ty) (p : Term)
    (hx : wfTy L x = true) (hp : wfTm L p = true) (hf : PatFree σ p) (hn : Ty.depth x < n) :
    (match3 L σ n true true x.toTerm p ≠ some false ∧ ¬ Fits L x p) ↔
      (fitsB L true x p = true ∧ compat L (reqs L true x p) = false) := by
  have h1 := match3_keep_iff L σ n x p hf hn
  have h2 := fitsX_iff_fits_all wf x p hx hp
  unfold fitsX at h2
  constructor
  · rintro ⟨hk, hnf⟩
    have hb : fitsB L true x p = true := by rw [← h1]; simpa using hk
    refine ⟨hb, ?_⟩
    cases hc : compat L (reqs L true x p) with
    | false => rfl
    | true => exact absurd (h2.mp (by rw [hb, hc]; rfl)) hnf
  · rintro ⟨hb, hc⟩
    refine ⟨?_, fun hfit => ?_⟩
    · have : (match3 L σ n true true x.toTerm p != some false) = true := by rw [h1]; exact hb
      simpa using this
    · have := h2.mpr hfit
      rw [hb, hc] at this
      cases this

end Tfv
