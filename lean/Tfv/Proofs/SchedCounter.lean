import Tfv.Proofs.SchedKernel
/-!
# C18 — kernel-checked counterexamples to order-independence in general

The model (like the implementation) does NOT give the same outcome for every re-check order.
-/
namespace Tfv.C18P

/-- apply a function type to the arguments in turn -/
def applyArgsG (app : Store → Term → Term → Except Err (Store × Term)) :
    Store → Term → List Term → Except Err (Store × Term)
  | σ, f, [] => .ok (σ, f)
  | σ, f, a :: as =>
    match app σ f a with
    | .error e => .error e
    | .ok (σ', r) => applyArgsG app σ' r as

def runG (inst : Store → Schema → Except Err (Store × Term))
    (app : Store → Term → Term → Except Err (Store × Term)) (s : Schema) (args : List Term) :
    Except Err (Store × Term) :=
  match inst {} s with
  | .error e => .error e
  | .ok (σ, f) => applyArgsG app σ f args

/-- instantiate a schema in the empty store and apply the instance to closed arguments in turn
(what the driver command `infersched` does for arguments without wildcards) -/
def runS (L : Lang) (ord : List Nat → List Nat) (fuel : Nat) (s : Schema) (args : List Term) :
    Except Err (Store × Term) :=
  runG (instantiateS L ord fuel) (fun σ f x => applyTS L ord fuel σ f x) s args

/-- the same run through the kernel-evaluable engine -/
def runK (L : Lang) (perm : List Nat) (fuel : Nat) (s : Schema) (args : List Term) :
    Except Err (Store × Term) :=
  runG (instantiateP L (insOrd perm) (match3K L) (occursK L) fuel)
    (fun σ f x => applyTP L (insOrd perm) (match3K L) (occursK L) fuel σ f x) s args

theorem runS_eq_runK (L : Lang) (perm : List Nat) (fuel : Nat) (s : Schema) (args : List Term) :
    runS L (priorityOrd perm) fuel s args = runK L perm fuel s args := by
  unfold runS runK
  congr 1
  · funext σ s; exact instantiateS_eq_K L perm fuel σ s
  · funext σ f x; exact applyTS_eq_K L perm fuel σ f x true

def errOf {α : Type} : Except Err α → Option Err
  | .error e => some e
  | .ok _ => none

def isOk {α : Type} : Except Err α → Bool
  | .error _ => false
  | .ok _ => true

/-- `A`, `B` unrelated base types, `F` unary covariant, `G` binary covariant -/
def langAB : Lang := builtinDecls ++
  [⟨"A", [], none⟩, ⟨"B", [], none⟩, ⟨"F", [true], none⟩, ⟨"G", [true, true], none⟩]

/-- `x ** x [x << [A, B], x <= A]` -/
def schemaTwo : Schema := ⟨1, 0, .app 4 [.var 0, .var 0],
  [.elim (.var 0) [.app 5 [], .app 6 []], .sub (.var 0) (.app 5 []) false]⟩

/-- `x ** y ** G(x, y) [x << [A, F(y)], y << [B, F(x)], x <= A]` (the implementation's witness) -/
def schemaThree : Schema := ⟨2, 0, .app 4 [.var 0, .app 4 [.var 1, .app 8 [.var 0, .var 1]]],
  [.elim (.var 0) [.app 5 [], .app 7 [.var 1]], .elim (.var 1) [.app 6 [], .app 7 [.var 0]],
   .sub (.var 0) (.app 5 []) false]⟩

theorem cex_two_01 : errOf (runS langAB (priorityOrd [0, 1]) 4000 schemaTwo [.app 7 [.app 6 []]])
    = some .constraintViolation := by
  rw [runS_eq_runK]; decide +kernel

theorem cex_two_10 : errOf (runS langAB (priorityOrd [1, 0]) 4000 schemaTwo [.app 7 [.app 6 []]])
    = some .typeMismatch := by
  rw [runS_eq_runK]; decide +kernel

theorem cex_three_012 : errOf (runS langAB (priorityOrd [0, 1, 2]) 4000 schemaThree [.app 7 [.app 5 []]])
    = some .constraintViolation := by
  rw [runS_eq_runK]; decide +kernel

theorem cex_three_021 : errOf (runS langAB (priorityOrd [0, 2, 1]) 4000 schemaThree [.app 7 [.app 5 []]])
    = some .typeMismatch := by
  rw [runS_eq_runK]; decide +kernel

/-- the six orders of three constraints -/
def perms3 : List (List Nat) := [[0, 1, 2], [0, 2, 1], [1, 0, 2], [1, 2, 0], [2, 0, 1], [2, 1, 0]]

theorem cex_three_B_K : (perms3.all fun p =>
    errOf (runK langAB p 4000 schemaThree [.app 6 []]) == some .constraintViolation) = true := by
  decide +kernel

/-- the witness schema applied to `B`: the same error under all six orders (in the model) -/
theorem cex_three_B : ∀ p ∈ perms3,
    errOf (runS langAB (priorityOrd p) 4000 schemaThree [.app 6 []]) = some .constraintViolation := by
  intro p hp
  rw [runS_eq_runK]
  have h := List.all_eq_true.mp cex_three_B_K p hp
  exact eq_of_beq h

/-- `A`, `B < A`, `F` binary contravariant in both places -/
def langSub : Lang := builtinDecls ++ [⟨"A", [], none⟩, ⟨"B", [], some 5⟩, ⟨"F", [false, false], none⟩]

/-- `B ** F(x, x) ** x ** F(x, _) [x << [B, F(B, B)], x << [F(x, _), F(_, _), F(A, x), B]]` -/
def schemaRes : Schema := ⟨1, 4,
  .app 4 [.app 6 [], .app 4 [.app 7 [.var 0, .var 0], .app 4 [.var 0, .app 7 [.var 0, .var 1]]]],
  [.elim (.var 0) [.app 6 [], .app 7 [.app 6 [], .app 6 []]],
   .elim (.var 0) [.app 7 [.var 0, .var 2], .app 7 [.var 3, .var 4], .app 7 [.app 5 [], .var 0], .app 6 []]]⟩

/-- the arguments `B`, then `F(A, A)` -/
def argsRes : List Term := [.app 6 [], .app 7 [.app 5 [], .app 5 []]]

theorem cex_res_01 : isOk (runS langSub (priorityOrd [0, 1]) 4000 schemaRes argsRes) = true := by
  rw [runS_eq_runK]; decide +kernel

theorem cex_res_10 : errOf (runS langSub (priorityOrd [1, 0]) 4000 schemaRes argsRes)
    = some .constraintViolation := by
  rw [runS_eq_runK]; decide +kernel

/-! ## different successful results -/

mutual
def termBeq : Term → Term → Bool
  | .var a, .var b => a == b
  | .app a as, .app b bs => a == b && termBeqL as bs
  | _, _ => false
def termBeqL : List Term → List Term → Bool
  | [], [] => true
  | s :: ss, t :: ts => termBeq s t && termBeqL ss ts
  | _, _ => false
end

/-- the term with its bound variables replaced by their bindings -/
def resolve (σ : Store) : Nat → Term → Term
  | 0, t => t
  | n+1, t =>
    match followT σ t with
    | .var v => .var v
    | .app o args => .app o (args.map (resolve σ n))

/-- the run succeeds and its (resolved) result is `t` -/
def resultIs (r : Except Err (Store × Term)) (t : Term) : Bool :=
  match r with
  | .ok (σ, u) => termBeq (resolve σ 16 u) t
  | .error _ => false

/-- `A`, `B < A`, `C < A`, `F` unary covariant, `G` contravariant then covariant -/
def langABC : Lang := builtinDecls ++
  [⟨"A", [], none⟩, ⟨"B", [], some 5⟩, ⟨"C", [], some 5⟩, ⟨"F", [true], none⟩, ⟨"G", [false, true], none⟩]

/-- `y ** A ** G(x, C) [y << [A, G(B, x)], y << [F(C), B, x], y << [G(B, A), A]]` (found by random search) -/
def schemaType : Schema := ⟨2, 0,
  .app 4 [.var 1, .app 4 [.app 5 [], .app 9 [.var 0, .app 7 []]]],
  [.elim (.var 1) [.app 5 [], .app 9 [.app 6 [], .var 0]],
   .elim (.var 1) [.app 8 [.app 7 []], .app 6 [], .var 0],
   .elim (.var 1) [.app 9 [.app 6 [], .app 5 []], .app 5 []]]⟩

/-- the arguments `C`, then `B` -/
def argsType : List Term := [.app 7 [], .app 6 []]

/-- order (0,1,2): the result is `G(A, C)` -/
theorem cex_type_012 : resultIs (runS langABC (priorityOrd [0, 1, 2]) 4000 schemaType argsType)
    (.app 9 [.app 5 [], .app 7 []]) = true := by
  rw [runS_eq_runK]; decide +kernel

/-- order (1,0,2): the result is `G(C, C)` -/
theorem cex_type_102 : resultIs (runS langABC (priorityOrd [1, 0, 2]) 4000 schemaType argsType)
    (.app 9 [.app 7 [], .app 7 []]) = true := by
  rw [runS_eq_runK]; decide +kernel

/-- order (2,1,0): the result is `G(C, C)` (before the repair of `bind` — bounds handed over through `unify` —
this order tripped `below: assert not self.bound`) -/
theorem cex_type_210 : resultIs (runS langABC (priorityOrd [2, 1, 0]) 4000 schemaType argsType)
    (.app 9 [.app 7 [], .app 7 []]) = true := by
  rw [runS_eq_runK]; decide +kernel

theorem cex_type_all_K :
    ([[0, 1, 2], [0, 2, 1], [2, 0, 1]].all fun p =>
      resultIs (runK langABC p 4000 schemaType argsType) (.app 9 [.app 5 [], .app 7 []])) = true ∧
    ([[1, 0, 2], [1, 2, 0], [2, 1, 0]].all fun p =>
      resultIs (runK langABC p 4000 schemaType argsType) (.app 9 [.app 7 [], .app 7 []])) = true := by
  decide +kernel

/-- all six orders: (0,1,2), (0,2,1), (2,0,1) give `G(A, C)`; (1,0,2), (1,2,0), (2,1,0) give `G(C, C)` -/
theorem cex_type_all :
    (∀ p ∈ [[0, 1, 2], [0, 2, 1], [2, 0, 1]],
      resultIs (runS langABC (priorityOrd p) 4000 schemaType argsType) (.app 9 [.app 5 [], .app 7 []]) = true) ∧
    (∀ p ∈ [[1, 0, 2], [1, 2, 0], [2, 1, 0]],
      resultIs (runS langABC (priorityOrd p) 4000 schemaType argsType) (.app 9 [.app 7 [], .app 7 []]) = true) := by
  refine ⟨fun p hp => ?_, fun p hp => ?_⟩
  · rw [runS_eq_runK]; exact List.all_eq_true.mp cex_type_all_K.1 p hp
  · rw [runS_eq_runK]; exact List.all_eq_true.mp cex_type_all_K.2 p hp

end Tfv.C18P
