import Tfv.Model.InferSched
/-!
# C18, part 1 — the scheduled engine under the identity schedule is the model

`InferSched.lean` is a generated copy of the mutual block of `Infer.lean` with an extra parameter
`ord`. For an `ord` that returns its argument the two blocks are equal, function by function and
for every fuel.
-/
namespace Tfv.C18P

/-- all twelve functions of the block agree at fuel `n` -/
structure BlockEq (L : Lang) (ord : List Nat → List Nat) (n : Nat) : Prop where
  unify : ∀ σ a b st sb sw, unifyS L ord n σ a b st sb sw = unify L n σ a b st sb sw
  unifyList : ∀ σ vs xs ys st sb sw, unifyListS L ord n σ vs xs ys st sb sw = unifyList L n σ vs xs ys st sb sw
  bind : ∀ σ v t, bindS L ord n σ v t = bind L n σ v t
  above : ∀ σ v o, aboveS L ord n σ v o = above L n σ v o
  below : ∀ σ v o, belowS L ord n σ v o = below L n σ v o
  checkConstraints : ∀ σ v, checkConstraintsS L ord n σ v = checkConstraints L n σ v
  checkList : ∀ σ v cs, checkListS L ord n σ v cs = checkList L n σ v cs
  fulfill : ∀ σ c, fulfillS L ord n σ c = fulfill L n σ c
  minimize : ∀ σ c, minimizeS L ord n σ c = minimize L n σ c
  minLoop : ∀ σ alts acc, minLoopS L ord n σ alts acc = minLoop L n σ alts acc
  fix : ∀ σ t pl, fixS L ord n σ t pl = fix L n σ t pl
  fixList : ∀ σ vs ps pl, fixListS L ord n σ vs ps pl = fixList L n σ vs ps pl

theorem blockEq_zero (L : Lang) (ord : List Nat → List Nat) : BlockEq L ord 0 where
  unify := by intros; simp only [unifyS, Tfv.unify]
  unifyList := by intros; simp only [unifyListS, Tfv.unifyList]
  bind := by intros; simp only [bindS, Tfv.bind]
  above := by intros; simp only [aboveS, Tfv.above]
  below := by intros; simp only [belowS, Tfv.below]
  checkConstraints := by intros; simp only [checkConstraintsS, Tfv.checkConstraints]
  checkList := by intros; simp only [checkListS, Tfv.checkList]
  fulfill := by intros; simp only [fulfillS, Tfv.fulfill]
  minimize := by intros; simp only [minimizeS, Tfv.minimize]
  minLoop := by intros; simp only [minLoopS, Tfv.minLoop]
  fix := by intros; simp only [fixS, Tfv.fix]
  fixList := by intros; simp only [fixListS, Tfv.fixList]

theorem blockEq_succ {L : Lang} {ord : List Nat → List Nat} (hord : ∀ cs, ord cs = cs) {n : Nat}
    (ih : BlockEq L ord n) : BlockEq L ord (n+1) where
  unify := by intros; (simp only [unifyS, Tfv.unify, ih.bind, ih.unify, ih.unifyList, ih.above, ih.below]; try rfl)
  unifyList := by
    intro σ vs xs ys st sb sw
    cases vs <;> cases xs <;> cases ys <;> (simp only [unifyListS, Tfv.unifyList, ih.unify, ih.unifyList]; try rfl)
  bind := by intros; (simp only [bindS, Tfv.bind, ih.unify, ih.checkConstraints]; try rfl)
  above := by intros; (simp only [aboveS, Tfv.above, ih.bind, ih.checkConstraints]; try rfl)
  below := by intros; (simp only [belowS, Tfv.below, ih.bind, ih.checkConstraints]; try rfl)
  checkConstraints := by intros; (simp only [checkConstraintsS, Tfv.checkConstraints, ih.checkList, hord]; try rfl)
  checkList := by
    intro σ v cs
    cases cs <;> (simp only [checkListS, Tfv.checkList, ih.fulfill, ih.checkList]; try rfl)
  fulfill := by intros; (simp only [fulfillS, Tfv.fulfill, ih.unify, ih.minimize]; try rfl)
  minimize := by intros; (simp only [minimizeS, Tfv.minimize, ih.minLoop]; try rfl)
  minLoop := by
    intro σ alts acc
    cases alts <;> (simp only [minLoopS, Tfv.minLoop, ih.fix, ih.minLoop]; try rfl)
  fix := by intros; (simp only [fixS, Tfv.fix, ih.bind, ih.fixList]; try rfl)
  fixList := by
    intro σ vs ps pl
    cases vs <;> cases ps <;> (simp only [fixListS, Tfv.fixList, ih.fix, ih.fixList]; try rfl)

theorem blockEq {L : Lang} {ord : List Nat → List Nat} (hord : ∀ cs, ord cs = cs) : ∀ n, BlockEq L ord n
  | 0 => blockEq_zero L ord
  | n+1 => blockEq_succ hord (blockEq hord n)

/-! ## the functions outside the block -/

theorem addConstraintS_id {L : Lang} {ord : List Nat → List Nat} (hord : ∀ cs, ord cs = cs)
    (fuel : Nat) (σ : Store) (c : Constr) :
    addConstraintS L ord fuel σ c = addConstraint L fuel σ c := by
  simp only [addConstraintS, addConstraint, (blockEq hord fuel).fulfill]
  try rfl

theorem addConstraintsS_id {L : Lang} {ord : List Nat → List Nat} (hord : ∀ cs, ord cs = cs)
    (fuel base : Nat) : ∀ (σ : Store) (cs : List CAst),
    addConstraintsS L ord fuel base σ cs = addConstraints L fuel base σ cs
  | σ, [] => by simp only [addConstraintsS, addConstraints]
  | σ, c :: cs => by
    simp only [addConstraintsS, addConstraints, addConstraintS_id hord]
    cases addConstraint L fuel σ _ with
    | error e => rfl
    | ok σ1 => exact addConstraintsS_id hord fuel base σ1 cs

theorem instantiateS_id {L : Lang} {ord : List Nat → List Nat} (hord : ∀ cs, ord cs = cs)
    (fuel : Nat) (σ : Store) (s : Schema) :
    instantiateS L ord fuel σ s = instantiate L fuel σ s := by
  simp only [instantiateS, instantiate, addConstraintsS_id hord, (blockEq hord fuel).fix]
  try rfl

theorem applyTS_id {L : Lang} {ord : List Nat → List Nat} (hord : ∀ cs, ord cs = cs)
    (fuel : Nat) (σ : Store) (f x : Term) (fixFlag : Bool) :
    applyTS L ord fuel σ f x fixFlag = applyT L fuel σ f x fixFlag := by
  simp only [applyTS, applyT, (blockEq hord fuel).bind, (blockEq hord fuel).unify, (blockEq hord fuel).fix]
  try rfl

end Tfv.C18P
