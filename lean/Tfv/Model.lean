import Tfv.Model.Basic
import Tfv.Model.Sub
import Tfv.Model.Sexp
