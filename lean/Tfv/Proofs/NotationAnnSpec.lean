import Tfv.Model.Text
import Tfv.Spec.Notation
/-!
# Specification for C13 with annotations, over an arbitrary expression builder

* `AItem` / spines: the abstract syntax of `Spec/Notation.lean` extended by the postfix item `: T`
  (`T` a concrete type, rendered by `typeToks`), and its rendering `atoks`.
* `den`: the meaning of a spine as a fold of the operations of an arbitrary `Builder S E`
  (state threaded, errors propagated) over an optional accumulator. An annotation item acts on the
  accumulator of its own bracket level: `f x : T` annotates `f x`, `f (x : T)` annotates `x`.
* `ATree`: application trees with annotation nodes, their value `evalA` (callee first, leaves left to right)
  and four rendering styles.
-/
namespace Tfv.NotationAnn
open Tfv Tfv.Notation

/-- an item of a juxtaposition: as `Notation.Item`, plus the postfix annotation `: T` -/
inductive AItem where
  | op (name : String)
  | src
  | input (k : Nat)
  | group (spines : List (List AItem))
  | ann (T : Ty)

abbrev ASpine := List AItem

/-! ## rendering into tokens -/

mutual
def atoksItem (L : Lang) : AItem → List String
  | .op name => [name]
  | .src => ["-"]
  | .input k => [toString k]
  | .group ss => "(" :: atoksGroup L ss
  | .ann T => ":" :: typeToks L T
def atoks (L : Lang) : List AItem → List String
  | [] => []
  | i :: is => atoksItem L i ++ atoks L is
def atoksGroup (L : Lang) : List (List AItem) → List String
  | [] => [")"]
  | s :: ss => atoks L s ++ atoksSeps L ss
def atoksSeps (L : Lang) : List (List AItem) → List String
  | [] => [")"]
  | s :: ss => "," :: (atoks L s ++ atoksSeps L ss)
end

/-- the item is the bare token `-` (the flag `parse_expr` passes to the annotation that follows) -/
def isSrcItem : AItem → Bool
  | .src => true
  | _ => false

/-- the expression parser's `previous_token` after an item: after an annotation it is `:` (not the last token
of the type, which the type parser consumed) -/
def itemLast : AItem → String
  | .op name => name
  | .src => "-"
  | .input k => toString k
  | .group _ => ")"
  | .ann _ => ":"

def lastP (p : String) : List AItem → String
  | [] => p
  | i :: is => lastP (itemLast i) is

/-- the flag after a spine -/
def lastD (d : Bool) : List AItem → Bool
  | [] => d
  | i :: is => lastD (isSrcItem i) is

mutual
/-- operator names are name tokens, annotation types satisfy `okT` (`printable L` in the main theorems;
`fun _ => false` for annotation-free spines) -/
def aOk (okT : Ty → Bool) : AItem → Bool
  | .op name => isNameToken name
  | .group ss => aOkG okT ss
  | .ann T => okT T
  | _ => true
def aOkS (okT : Ty → Bool) : List AItem → Bool
  | [] => true
  | i :: is => aOk okT i && aOkS okT is
def aOkG (okT : Ty → Bool) : List (List AItem) → Bool
  | [] => true
  | s :: ss => aOkS okT s && aOkG okT ss
end

/-- no type is acceptable: the annotation-free fragment -/
def noTy : Ty → Bool := fun _ => false

/-! ## meaning over an arbitrary builder -/

section den
variable {S E : Type} (B : Builder S E) (inputs : List E)

/-- `None · x = x`, `some f · x = Application(f, x)` -/
def gapp (st : S) : Option E → E → Except PErr (S × E)
  | none, x => .ok (st, x)
  | some f, x => B.mkApp st f x

def someR : Except PErr (S × E) → Except PErr (S × Option E)
  | .error e => .error e
  | .ok (st, x) => .ok (st, some x)

/-- folding an optional value into the accumulator (an empty sub-spine contributes nothing) -/
def gappO (st : S) (k : Option E) : Option E → Except PErr (S × Option E)
  | none => .ok (st, k)
  | some x => someR (gapp B st k x)

/-- a freshly made expression is applied to the accumulator -/
def pushCur (k : Option E) : Except PErr (S × E) → Except PErr (S × Option E)
  | .error e => .error e
  | .ok (st, x) => someR (gapp B st k x)

mutual
/-- one item with accumulator `k` in builder state `st`; `d` says the previous token was the bare `-` -/
def denItem : S → Option E → Bool → AItem → Except PErr (S × Option E)
  | st, k, _, .op name => pushCur B k (B.mkOp st name)
  | st, k, _, .src => pushCur B k (.ok (B.mkSource st))
  | st, k, _, .input n =>
    match lookupInput inputs n with
    | some e => pushCur B k (.ok (st, e))
    | none => .error (.missingInput n)
  | st, k, _, .group ss => denGroup st k ss
  | st, k, d, .ann T =>
    match k with
    | none => .error (.parseError "Type annotation without an expression")
    | some e => someR (B.annotate st e T.toTerm 0 d)
/-- the items of a juxtaposition from left to right -/
def den : S → Option E → Bool → List AItem → Except PErr (S × Option E)
  | st, k, _, [] => .ok (st, k)
  | st, k, d, i :: is =>
    match denItem st k d i with
    | .error e => .error e
    | .ok (st', k') => den st' k' (isSrcItem i) is
/-- a group: every sub-spine is evaluated on a fresh accumulator, then its value is applied to `k` -/
def denGroup : S → Option E → List (List AItem) → Except PErr (S × Option E)
  | st, k, [] => .ok (st, k)
  | st, k, s :: ss =>
    match den st none false s with
    | .error e => .error e
    | .ok (st', v) =>
      match gappO B st' k v with
      | .error e => .error e
      | .ok (st'', k') => denGroup st'' k' ss
end

/-- the value of a whole expression -/
def denote (st : S) (sp : List AItem) : Except PErr (S × E) :=
  match den B inputs st none false sp with
  | .error e => .error e
  | .ok (st', some e) => .ok (st', e)
  | .ok (_, none) => .error .emptyParse

end den

/-! ## trees with annotation nodes -/

inductive ATree where
  | op (name : String)
  | src
  | input (k : Nat)
  | app (f x : ATree)
  | ann (e : ATree) (T : Ty)

def ATree.isSrc : ATree → Bool
  | .src => true
  | _ => false

/-- names are name tokens, annotation types satisfy `okT` -/
def aOkT (okT : Ty → Bool) : ATree → Bool
  | .op name => isNameToken name
  | .app f x => aOkT okT f && aOkT okT x
  | .ann e T => aOkT okT e && okT T
  | _ => true

def ATree.noAnn : ATree → Bool
  | .app f x => f.noAnn && x.noAnn
  | .ann _ _ => false
  | _ => true

section evalA
variable {S E : Type} (B : Builder S E) (inputs : List E)

/-- the fold of the builder over a tree: callee first, then the argument, then the application; an annotation
node evaluates its expression and then calls `annotate`. `fl e` is the flag ("the previous token was `-`")
handed to `annotate`; it depends on how `e` is written, see `styleFlag` -/
def evalA (fl : ATree → Bool) : S → ATree → Except PErr (S × E)
  | st, .op name => B.mkOp st name
  | st, .src => .ok (B.mkSource st)
  | st, .input n =>
    match lookupInput inputs n with
    | some e => .ok (st, e)
    | none => .error (.missingInput n)
  | st, .app f x =>
    match evalA fl st f with
    | .error e => .error e
    | .ok (st1, ef) =>
      match evalA fl st1 x with
      | .error e => .error e
      | .ok (st2, ex) => B.mkApp st2 ef ex
  | st, .ann e T =>
    match evalA fl st e with
    | .error err => .error err
    | .ok (st1, v) => B.annotate st1 v T.toTerm 0 (fl e)

end evalA

/-- a sub-tree in operand position: a leaf stands for itself, anything else is parenthesised -/
def argA (t : ATree) (s : List AItem) : AItem :=
  match t with
  | .op name => .op name
  | .src => .src
  | .input k => .input k
  | _ => .group [s]

/-- juxtaposition with the necessary parentheses only: `f x (g y)`, `f x : T`, `f (x : T)`, `f : T x` -/
def juxtaA : ATree → List AItem
  | .op name => [.op name]
  | .src => [.src]
  | .input k => [.input k]
  | .app f x => juxtaA f ++ [argA x (juxtaA x)]
  | .ann e T => juxtaA e ++ [.ann T]

/-- both sides of every application parenthesised unless leaves: `(f x) (g y)`, `(f x) : T` -/
def binaryA : ATree → List AItem
  | .op name => [.op name]
  | .src => [.src]
  | .input k => [.input k]
  | .app f x => [argA f (binaryA f), argA x (binaryA x)]
  | .ann e T => [argA e (binaryA e), .ann T]

/-- everything parenthesised: `((f)(x))((g)(y))`, `(x) : T` -/
def parenA : ATree → List AItem
  | .op name => [.op name]
  | .src => [.src]
  | .input k => [.input k]
  | .app f x => [.group [parenA f], .group [parenA x]]
  | .ann e T => [.group [parenA e], .ann T]

/-- a spine followed by an argument list, if any -/
def withArgs (sp : List AItem) : List (List AItem) → List AItem
  | [] => sp
  | a :: as => sp ++ [.group (a :: as)]

/-- call notation, arguments collected: `f(x, g(y))`, `f(x : T, y)`, `f(x) : T`, `f : T (x)` -/
def callA : ATree → List (List AItem) → List AItem
  | .op name, args => withArgs [.op name] args
  | .src, args => withArgs [.src] args
  | .input k, args => withArgs [.input k] args
  | .app f x, args => callA f (callA x [] :: args)
  | .ann e T, args => withArgs (callA e [] ++ [.ann T]) args

def renderA : Style → ATree → List AItem
  | .juxta, t => juxtaA t
  | .binary, t => binaryA t
  | .paren, t => parenA t
  | .call, t => callA t []

/-- is the last token of the juxtaposition rendering the bare `-`? (`- : T`, `f - : T`) -/
def dashJ : ATree → Bool
  | .src => true
  | .app _ .src => true
  | _ => false

/-- the flag `annotate` receives for `e : T` in each style: the last token written for `e` is the bare `-` -/
def styleFlag : Style → ATree → Bool
  | .juxta, e => dashJ e
  | .binary, e => e.isSrc
  | .paren, _ => false
  | .call, e => e.isSrc

end Tfv.NotationAnn
