import Tfv.Proofs.WorkflowIso
/-!
# `addExpr` is equivariant under a renaming of the blank-node supply (types off)

`SRen ρ g g'`: the graph state `g'` is the graph state `g` with every blank node `n` renamed to `ρ n`, and `ρ` maps the
blank nodes `g` is going to allocate (`g.nextB + i`) to the ones `g'` is going to allocate (`g'.nextB + i`).
-/
namespace Tfv

structure SRen (ρ : Nat → Nat) (g g' : GState) : Prop where
  triples : g'.triples = g.triples.map (renT ρ)
  srcNodes : g'.srcNodes = g.srcNodes.map (renV ρ)
  sharedNodes : g'.sharedNodes = g.sharedNodes.map (renV ρ)
  internals : g'.internals = g.internals.map (renP ρ)
  fd : g'.fd = renFD ρ g.fd
  supply : ∀ i, ρ (g.nextB + i) = g'.nextB + i
  typeNodes : g'.typeNodes = g.typeNodes.map (fun p => (p.1, renN ρ p.2))
  supertyped : g'.supertyped = g.supertyped

variable {ρ : Nat → Nat}

theorem SRen.frm {g g' : GState} (h : SRen ρ g g') : g'.fd.frm = g.fd.frm.map (renP ρ) := by rw [h.fd]; rfl

theorem SRen.stepAdd (hρ : Function.Injective ρ) {g g' : GState} (h : SRen ρ g g') (t : Triple) :
    SRen ρ (g.add t) (g'.add (renT ρ t)) := by
  unfold GState.add
  rw [h.triples, contains_map_inj (renT_inj hρ)]
  split
  · exact h
  · exact ⟨by simp, h.srcNodes, h.sharedNodes, h.internals, h.fd, h.supply, h.typeNodes, h.supertyped⟩

theorem SRen.stepFresh {g g' : GState} (h : SRen ρ g g') : SRen ρ g.fresh.1 g'.fresh.1 ∧ g'.fresh.2 = ρ g.fresh.2 := by
  refine ⟨⟨h.triples, h.srcNodes, h.sharedNodes, h.internals, h.fd, ?_, h.typeNodes, h.supertyped⟩, ?_⟩
  · intro i
    have := h.supply (1 + i)
    simp only [GState.fresh]
    rw [Nat.add_assoc, this, Nat.add_assoc]
  · have := h.supply 0
    simp only [GState.fresh]
    simpa using this.symm

theorem SRen.stepCur {g g' : GState} (h : SRen ρ g g') (cur : Option Nat) :
    SRen ρ (curOrFresh g cur).1 (curOrFresh g' (cur.map ρ)).1 ∧
      (curOrFresh g' (cur.map ρ)).2 = ρ (curOrFresh g cur).2 := by
  cases cur with
  | none => exact h.stepFresh
  | some k => exact ⟨h, rfl⟩

theorem SRen.stepAddFrom (hρ : Function.Injective ρ) (c : GCfg) {g g' : GState} (h : SRen ρ g g') (a b : Nat) :
    SRen ρ (gAddFrom c g a b) (gAddFrom c g' (ρ a) (ρ b)) := by
  unfold gAddFrom
  split
  · refine ⟨h.triples, h.srcNodes, h.sharedNodes, h.internals, ?_, h.supply, h.typeNodes, h.supertyped⟩
    show addFrom g'.fd (ρ a) (ρ b) false = renFD ρ (addFrom g.fd a b false)
    rw [h.fd, addFrom_ren hρ]
  · refine ⟨h.triples, h.srcNodes, h.sharedNodes, h.internals, ?_, h.supply, h.typeNodes, h.supertyped⟩
    show ({ g'.fd with frm := (ρ a, ρ b) :: g'.fd.frm } : FD) = renFD ρ { g.fd with frm := (a, b) :: g.fd.frm }
    rw [h.fd]
    rfl

/-- folding related steps over a list and over its renaming -/
theorem SRen.stepFold (F F' : GState → Nat → GState)
    (hF : ∀ g g' j, SRen ρ g g' → SRen ρ (F g j) (F' g' (ρ j))) :
    ∀ (l : List Nat) (g g' : GState), SRen ρ g g' → SRen ρ (l.foldl F g) ((l.map ρ).foldl F' g') := by
  intro l
  induction l with
  | nil => intro g g' h; exact h
  | cons x xs ih =>
    intro g g' h
    rw [List.map_cons, List.foldl_cons, List.foldl_cons]
    exact ih _ _ (hF g g' x h)

/-- renaming an origin: a resource node is not a blank node -/
def OriginFixed (ρ : Nat → Nat) (origin : Option Node) : Prop := ∀ o, origin = some o → renN ρ o = o

theorem SRen.stepOrigin (hρ : Function.Injective ρ) (c : GCfg) {origin : Option Node} (ho : OriginFixed ρ origin)
    {g g' : GState} (h : SRen ρ g g') (k : Nat) :
    SRen ρ (addOrigin c origin g k) (addOrigin c origin g' (ρ k)) := by
  unfold Tfv.addOrigin
  cases origin with
  | none => exact h
  | some o =>
    simp only
    split
    · have e : renT ρ (Node.b k, Node.tf "origin", o) = (Node.b (ρ k), Node.tf "origin", o) := by
        show (renN ρ (.b k), renN ρ (.tf "origin"), renN ρ o) = _
        rw [ho o rfl]; rfl
      have := h.stepAdd hρ (.b k, .tf "origin", o)
      rw [e] at this
      exact this
    · exact h

theorem SRen.stepOpTriples (hρ : Function.Injective ρ) (c : GCfg) {root : Node} (hr : renN ρ root = root)
    {g g' : GState} (h : SRen ρ g g') (cur : Nat) (name : String) :
    SRen ρ (opTriples c root g cur name) (opTriples c root g' (ρ cur) name) := by
  unfold Tfv.opTriples
  split
  · have h1 := h.stepAdd hρ (.b cur, .tf "via", .ns name)
    simp only [renT, renN] at h1
    simp only
    split
    · have e : renT ρ (root, Node.tf "containsOperation", Node.ns name) = (root, Node.tf "containsOperation", Node.ns name) := by
        show (renN ρ root, renN ρ (.tf "containsOperation"), renN ρ (.ns name)) = _
        rw [hr]; rfl
      have h2 := h1.stepAdd hρ (root, .tf "containsOperation", .ns name)
      rw [e] at h2
      exact h2
    · exact h1
  · exact h

theorem SRen.stepAppPre (hρ : Function.Injective ρ) {g g' : GState} (h : SRen ρ g g') (fnode : Nat) (isFun : Bool) :
    SRen ρ (appPre g fnode isFun).1 (appPre g' (ρ fnode) isFun).1 ∧
      (appPre g' (ρ fnode) isFun).2 = (appPre g fnode isFun).2.map ρ := by
  unfold Tfv.appPre
  cases isFun with
  | false => exact ⟨h, rfl⟩
  | true =>
    simp only [if_true]
    obtain ⟨hf, hn⟩ := h.stepFresh
    have h1 : SRen ρ { g.fresh.1 with internals := g.fresh.1.internals ++ [(fnode, g.fresh.2)] }
        { g'.fresh.1 with internals := g'.fresh.1.internals ++ [(ρ fnode, g'.fresh.2)] } :=
      ⟨hf.triples, hf.srcNodes, hf.sharedNodes, by simp [hf.internals, renP, hn], hf.fd, hf.supply, hf.typeNodes, hf.supertyped⟩
    have h2 := h1.stepAdd hρ (.b fnode, .tf "internal", .b g.fresh.2)
    simp only [renT, renN, ← hn] at h2
    exact ⟨h2, by simp [hn]⟩

theorem SRen.stepWire1 (hρ : Function.Injective ρ) (c : GCfg) {g g' : GState} (h : SRen ρ g g') (xnode : Nat)
    (ci : Option Nat) : SRen ρ (wire1 c g xnode ci) (wire1 c g' (ρ xnode) (ci.map ρ)) := by
  cases ci with
  | none => exact h
  | some i => exact h.stepAddFrom hρ c xnode i

theorem SRen.stepWire3 (hρ : Function.Injective ρ) (c : GCfg) {g g' : GState} (h : SRen ρ g g') (xnode : Nat)
    (ci : Option Nat) : SRen ρ (wire3 c g xnode ci) (wire3 c g' (ρ xnode) (ci.map ρ)) := by
  cases ci with
  | none => exact h
  | some i =>
    simp only [Tfv.wire3, Option.map_some]
    rw [h.internals, internalsOf_ren hρ]
    exact SRen.stepFold (fun g j => Tfv.gAddFrom c g j i) (fun g j => Tfv.gAddFrom c g j (ρ i)) (fun g g' j hg => hg.stepAddFrom hρ c j i) _ _ _ h

theorem SRen.stepWire4 (hρ : Function.Injective ρ) (c : GCfg) {g g' : GState} (h : SRen ρ g g') (fnode xnode : Nat)
    (ci : Option Nat) : SRen ρ (wire4 c g fnode xnode ci) (wire4 c g' (ρ fnode) (ρ xnode) (ci.map ρ)) := by
  simp only [Tfv.wire4]
  rw [h.internals, internalsOf_ren hρ]
  refine SRen.stepFold (fun g j => if some j != ci then Tfv.gAddFrom c g j xnode else g)
    (fun g j => if some j != ci.map ρ then Tfv.gAddFrom c g j (ρ xnode) else g) (fun g g' j hg => ?_) _ _ _ h
  show SRen ρ (if some j != ci then Tfv.gAddFrom c g j xnode else g)
    (if some (ρ j) != ci.map ρ then Tfv.gAddFrom c g' (ρ j) (ρ xnode) else g')
  have : (some (ρ j) != ci.map ρ) = (some j != ci) := by
    cases ci with
    | none => rfl
    | some i =>
      simp only [Option.map_some, bne]
      congr 1
      exact beq_map_inj (f := fun x : Option Nat => x.map ρ) (fun a b hab => by
        cases a <;> cases b <;> simp at hab ⊢
        exact hρ hab) (some j) (some i)
  rw [this]
  split
  · exact hg.stepAddFrom hρ c j xnode
  · exact hg

theorem SRen.stepWire5 (hρ : Function.Injective ρ) (c : GCfg) {origin : Option Node} (ho : OriginFixed ρ origin)
    {g g' : GState} (h : SRen ρ g g') (fnode xnode : Nat) (ci : Option Nat) (rep : Bool) :
    SRen ρ (wire5 c origin g fnode xnode ci rep) (wire5 c origin g' (ρ fnode) (ρ xnode) (ci.map ρ) rep) := by
  cases ci with
  | none => exact h
  | some i =>
    simp only [Tfv.wire5, Option.map_some]
    have hfold : SRen ρ
        ((objectsOf g.fd.frm fnode).eraseDups.foldl (fun g fin => if xnode != fin || rep then gAddFrom c g i fin else g) g)
        ((objectsOf g'.fd.frm (ρ fnode)).eraseDups.foldl
          (fun g fin => if ρ xnode != fin || rep then gAddFrom c g (ρ i) fin else g) g') := by
      rw [h.frm, objectsOf_ren hρ, eraseDups_map_inj' (fun a b hab => hρ hab)]
      refine SRen.stepFold (fun g fin => if xnode != fin || rep then Tfv.gAddFrom c g i fin else g)
        (fun g fin => if ρ xnode != fin || rep then Tfv.gAddFrom c g (ρ i) fin else g) (fun g g' j hg => ?_) _ _ _ h
      show SRen ρ (if xnode != j || rep then Tfv.gAddFrom c g i j else g)
        (if ρ xnode != ρ j || rep then Tfv.gAddFrom c g' (ρ i) (ρ j) else g')
      have : (ρ xnode != ρ j) = (xnode != j) := by
        simp only [bne]
        congr 1
        exact beq_map_inj (fun a b hab => hρ hab) _ _
      rw [this]
      split
      · exact hg.stepAddFrom hρ c i j
      · exact hg
    have := hfold.stepOrigin hρ c ho i
    exact this

theorem SRen.stepAppWire (hρ : Function.Injective ρ) (c : GCfg) {origin : Option Node} (ho : OriginFixed ρ origin)
    {g g' : GState} (h : SRen ρ g g') (fnode xnode : Nat) (ci : Option Nat) (cur : Nat) :
    SRen ρ (appWire c origin g fnode xnode ci cur)
      (appWire c origin g' (ρ fnode) (ρ xnode) (ci.map ρ) (ρ cur)) := by
  unfold Tfv.appWire
  have h1 := h.stepWire1 hρ c xnode ci
  have hrep : (objectsOf (wire1 c g' (ρ xnode) (ci.map ρ)).fd.frm (ρ fnode)).contains (ρ xnode)
      = (objectsOf (wire1 c g xnode ci).fd.frm fnode).contains xnode := by
    rw [h1.frm, objectsOf_ren hρ, contains_map_inj (fun a b hab => hρ hab)]
  rw [hrep]
  exact SRen.stepOrigin hρ c ho
    (((((h1.stepAddFrom hρ c fnode xnode).stepWire3 hρ c xnode ci).stepWire4 hρ c fnode xnode ci).stepWire5 hρ c ho fnode xnode ci _)) cur

end Tfv
