import Tfv.Proofs.WorkflowIsoCheck
/-!
# Invariants of graph isomorphism, and the two hypotheses of the goal that cannot be dropped (kernel checked)
-/
namespace Tfv

theorem GIso.preimage {ρ : Nat → Nat} {a b : List Triple} (h : GIso ρ a b) {t : Triple} (ht : t ∈ b) :
    ∃ s ∈ a, renT ρ s = t := by
  obtain ⟨s, hs, he⟩ := List.mem_map.1 ((h.image t).1 ht)
  exact ⟨s, hs, he⟩

def Node.isBlank : Node → Bool
  | .b _ => true
  | _ => false

theorem renN_eq_of_not_blank {ρ : Nat → Nat} {x y : Node} (h : renN ρ x = y) (hy : y.isBlank = false) : x = y := by
  cases x with
  | b n => simp only [renN] at h; subst h; cases hy
  | tf s => exact h
  | ns s => exact h
  | rdf s => exact h
  | rdfs s => exact h
  | res s => exact h

/-- some triple has predicate `p` and object `o` -/
def hasPO (p o : Node) (l : List Triple) : Bool := l.any (fun t => t.2.1 == p && t.2.2 == o)

/-- all triples with predicate `p` and object `o` have the same subject -/
def uniqS (p o : Node) (l : List Triple) : Bool :=
  l.all (fun t => l.all (fun t' => !((t.2.1 == p && t.2.2 == o) && (t'.2.1 == p && t'.2.2 == o)) || t.1 == t'.1))

theorem GIso.hasPO {ρ : Nat → Nat} {a b : List Triple} (h : GIso ρ a b) {p o : Node} (hp : p.isBlank = false)
    (ho : o.isBlank = false) (hb : hasPO p o b = true) : hasPO p o a = true := by
  simp only [Tfv.hasPO, List.any_eq_true, Bool.and_eq_true, beq_iff_eq] at hb ⊢
  obtain ⟨t, ht, h1, h2⟩ := hb
  obtain ⟨s, hs, he⟩ := h.preimage ht
  subst he
  exact ⟨s, hs, by rw [← h1]; exact renN_eq_of_not_blank rfl (by rw [h1]; exact hp),
    by rw [← h2]; exact renN_eq_of_not_blank rfl (by rw [h2]; exact ho)⟩

theorem GIso.uniqS {ρ : Nat → Nat} {a b : List Triple} (h : GIso ρ a b) {p o : Node} (hp : p.isBlank = false)
    (ho : o.isBlank = false) (ha : uniqS p o a = true) : uniqS p o b = true := by
  simp only [Tfv.uniqS, List.all_eq_true, Bool.or_eq_true, Bool.not_eq_true', Bool.and_eq_false_iff,
    beq_iff_eq] at ha ⊢
  intro t ht t' ht'
  obtain ⟨s, hs, he⟩ := h.preimage ht
  obtain ⟨s', hs', he'⟩ := h.preimage ht'
  subst he; subst he'
  by_cases hm : ((renT ρ s).2.1 = p ∧ (renT ρ s).2.2 = o) ∧ ((renT ρ s').2.1 = p ∧ (renT ρ s').2.2 = o)
  · obtain ⟨⟨h1, h2⟩, h3, h4⟩ := hm
    have e1 : s.2.1 = p := by rw [← h1]; exact renN_eq_of_not_blank rfl (by rw [h1]; exact hp)
    have e2 : s.2.2 = o := by rw [← h2]; exact renN_eq_of_not_blank rfl (by rw [h2]; exact ho)
    have e3 : s'.2.1 = p := by rw [← h3]; exact renN_eq_of_not_blank rfl (by rw [h3]; exact hp)
    have e4 : s'.2.2 = o := by rw [← h4]; exact renN_eq_of_not_blank rfl (by rw [h4]; exact ho)
    rcases ha s hs s' hs' with hx | hx
    · rcases hx with hx | hx
      · rcases hx with hx | hx
        · simp [e1] at hx
        · simp [e2] at hx
      · rcases hx with hx | hx
        · simp [e3] at hx
        · simp [e4] at hx
    · right
      show renN ρ s.1 = renN ρ s'.1
      rw [hx]
  · left
    by_cases c1 : (renT ρ s).2.1 = p
    · by_cases c2 : (renT ρ s).2.2 = o
      · by_cases c3 : (renT ρ s').2.1 = p
        · by_cases c4 : (renT ρ s').2.2 = o
          · exact (hm ⟨⟨c1, c2⟩, c3, c4⟩).elim
          · exact .inr (.inr (beq_eq_false_iff_ne.2 c4))
        · exact .inr (.inl (beq_eq_false_iff_ne.2 c3))
      · exact .inl (.inr (beq_eq_false_iff_ne.2 c2))
    · exact .inl (.inl (beq_eq_false_iff_ne.2 c1))

/-- some `from` edge ends where another one starts -/
def hasPath2 (l : List Triple) : Bool :=
  l.any (fun t => t.2.1 == Node.tf "from" && l.any (fun t' => t'.2.1 == Node.tf "from" && t'.1 == t.2.2))

theorem GIso.hasPath2 {ρ : Nat → Nat} {a b : List Triple} (h : GIso ρ a b) (ha : hasPath2 a = true) :
    hasPath2 b = true := by
  simp only [Tfv.hasPath2, List.any_eq_true, Bool.and_eq_true, beq_iff_eq] at ha ⊢
  obtain ⟨s, hs, h1, s', hs', h2, h3⟩ := ha
  refine ⟨renT ρ s, (h.image _).2 (List.mem_map_of_mem hs), ?_, renT ρ s', (h.image _).2 (List.mem_map_of_mem hs'), ?_, ?_⟩
  · show renN ρ s.2.1 = _
    rw [h1]; rfl
  · show renN ρ s'.2.1 = _
    rw [h2]; rfl
  · show renN ρ s'.1 = renN ρ s.2.2
    rw [h3]

namespace IsoEx
open Tfv.GraphEx

/-! ### `withIntermediateTypes = false` (types on): the workflow types the intermediate resource, the single call does not -/

def cNI : GCfg := { withWorkflowOrigin := false, withIntermediateTypes := false }
def wf1Wni : Except WErr (GState × Nat) := wfNode exG cNI wf1 wfRoot' wf1exprs 4 (initGraph exG cNI) 2
def wf1Dni : Except GErr (GState × Nat) := addExpr exG cNI wfRoot' none (initGraph exG cNI) wf1inl' none false

def niCheck : Bool :=
  match wf1Dni, wf1Wni with
  | .ok d, .ok w => hasPO (.tf "type") (.ns "B") w.1.allTriples && !hasPO (.tf "type") (.ns "B") d.1.allTriples
  | _, _ => false

theorem niCheck_true : niCheck = true := by
  unfold niCheck wf1Dni wf1Wni wf1inl'
  simp only [wfNode, wf1exprs, wf1, Wf.app?, List.find?, Option.map, Nat.reduceBEq, List.contains, List.elem,
    List.foldlM]
  graph_eval

theorem ni_not_iso : ∃ gd nd gw nw, wf1Dni = .ok (gd, nd) ∧ wf1Wni = .ok (gw, nw) ∧
    ∀ ρ : Nat → Nat, ¬ GIso ρ gd.allTriples gw.allTriples := by
  have h := niCheck_true
  unfold niCheck at h
  split at h
  · rename_i d w hd hw
    simp only [Bool.and_eq_true, Bool.not_eq_true'] at h
    refine ⟨d.1, d.2, w.1, w.2, hd, hw, fun ρ hiso => ?_⟩
    have := hiso.hasPO (p := .tf "type") (o := .ns "B") rfl rfl h.1
    rw [h.2] at this
    cases this
  · cases h

/-! ### an input the tool's text does not mention (`wfU` of `Props/C12Inline`): two nodes `via f` against one -/

def wfU' : Wf := { sources := [0], apps := [
  { out := 1, toks := ["f", "1"], inputs := [0] },
  { out := 3, toks := ["f", "1"], inputs := [0] },
  { out := 2, toks := ["g", "1"], inputs := [1, 3] }] }

def eUr1 : TExpr := .shared 1 (.app (.op "f" (tmFn tmA tmB)) (.src 4 none tmA) tmB)
def eUr3 : TExpr := .shared 3 (.app (.op "f" (tmFn tmA tmB)) (.src 4 none tmA) tmB)
def eUr2 : TExpr := .shared 2 (.app (.op "g" (tmFn tmB tmC)) eUr1 tmC)
/-- the final table of `wfU` (compared with `add_workflow`'s by evaluation in `Props/C12Iso`) -/
def wfUexprs : List (Nat × TExpr) := [(0, .src 4 none tmA), (1, eUr1), (3, eUr3), (2, eUr2)]

def wfUW : Except WErr (GState × Nat) := wfNode exG c0 wfU' wfRoot' wfUexprs 5 (initGraph exG c0) 2
def wfUD : Except GErr (GState × Nat) := addExpr exG c0 wfRoot' none (initGraph exG c0) eUr2 none false

def uCheck : Bool :=
  match wfUD, wfUW with
  | .ok d, .ok w => uniqS (.tf "via") (.ns "f") d.1.allTriples && !uniqS (.tf "via") (.ns "f") w.1.allTriples
  | _, _ => false

theorem uCheck_true : uCheck = true := by
  unfold uCheck wfUD wfUW eUr2 eUr1
  simp only [wfNode, wfUexprs, eUr3, eUr2, eUr1, wfU', Wf.app?, List.find?, Option.map, Nat.reduceBEq, List.contains,
    List.elem, List.foldlM]
  graph_eval

theorem u_not_iso : ∃ gd nd gw nw, wfUD = .ok (gd, nd) ∧ wfUW = .ok (gw, nw) ∧
    ∀ ρ : Nat → Nat, ¬ GIso ρ gd.allTriples gw.allTriples := by
  have h := uCheck_true
  unfold uCheck at h
  split at h
  · rename_i d w hd hw
    simp only [Bool.and_eq_true, Bool.not_eq_true'] at h
    refine ⟨d.1, d.2, w.1, w.2, hd, hw, fun ρ hiso => ?_⟩
    have := hiso.uniqS (p := .tf "via") (o := .ns "f") rfl rfl h.1
    rw [h.2] at this
    cases this
  · cases h

/-! ### a function-valued resource in function position: `r1 = f` (the operator itself), `r2 = r1 r0`, `r3 = g r2` -/

def wfH2' : Wf := { sources := [0], apps := [
  { out := 1, toks := ["f"], inputs := [] },
  { out := 2, toks := ["1", "2"], inputs := [1, 0] },
  { out := 3, toks := ["g", "1"], inputs := [2] }] }

def eHr1 : TExpr := .shared 1 (.op "f" (tmFn tmA tmB))
def eHr2 : TExpr := .shared 2 (.app eHr1 (.src 3 none tmA) tmB)
def eHr3 : TExpr := .shared 3 (.app (.op "g" (tmFn tmB tmC)) eHr2 tmC)
/-- the final table of `wfH2` (compared with `add_workflow`'s by evaluation in `Props/C12Iso`) -/
def wfH2exprs : List (Nat × TExpr) := [(0, .src 3 none tmA), (1, eHr1), (2, eHr2), (3, eHr3)]

def wfHW : Except WErr (GState × Nat) := wfNode exG c0 wfH2' wfRoot' wfH2exprs 5 (initGraph exG c0) 3
def wfHD : Except GErr (GState × Nat) := addExpr exG c0 wfRoot' none (initGraph exG c0) eHr3 none false

def hCheck : Bool :=
  match wfHD, wfHW with
  | .ok d, .ok w => hasPath2 d.1.allTriples && !hasPath2 w.1.allTriples
  | _, _ => false

theorem hCheck_true : hCheck = true := by
  unfold hCheck wfHD wfHW eHr3 eHr2 eHr1
  simp only [wfNode, wfH2exprs, eHr3, eHr2, eHr1, wfH2', Wf.app?, List.find?, Option.map, Nat.reduceBEq, List.contains,
    List.elem, List.foldlM]
  graph_eval

theorem h_not_iso : ∃ gd nd gw nw, wfHD = .ok (gd, nd) ∧ wfHW = .ok (gw, nw) ∧
    ∀ ρ : Nat → Nat, ¬ GIso ρ gd.allTriples gw.allTriples := by
  have h := hCheck_true
  unfold hCheck at h
  split at h
  · rename_i d w hd hw
    simp only [Bool.and_eq_true, Bool.not_eq_true'] at h
    refine ⟨d.1, d.2, w.1, w.2, hd, hw, fun ρ hiso => ?_⟩
    have := hiso.hasPath2 h.1
    rw [h.2] at this
    cases this
  · cases h

end IsoEx
end Tfv
