import sys
sys.path.insert(0,'/repo')
from transforge.type import *
from transforge.type import _
from transforge.expr import *
from transforge.lang import *
def tryit(label, fn):
    try:
        r=fn(); print(label,'=>',r)
    except Exception as e:
        print(label,'!!',type(e).__name__, e)
A=TypeOperator('A')
f=Operator(type=A**A, name='f')
inc=Operator(type=A**A, name='inc', body=lambda x: f(x))
twice=Operator(type=lambda a: (a**a)**a**a, name='twice', body=lambda g,x: g(g(x)))
compose=Operator(type=lambda a,b,c: (b**c)**(a**b)**(a**c), name='compose', body=lambda g,h,x: g(h(x)))
lang=Language(dict(A=A,f=f,inc=inc,twice=twice,compose=compose))
tryit('validate', lambda: lang.validate())
tryit('twice f -', lambda: lang.parse('twice f (-:A)').primitive())
tryit('twice inc -', lambda: lang.parse('twice inc (-:A)').primitive())
tryit('compose inc inc -', lambda: lang.parse('compose inc inc (-:A)').primitive())
tryit('twice (compose inc f) -', lambda: lang.parse('twice (compose inc f) (-:A)').primitive())
tryit('twice (twice f) -', lambda: lang.parse('twice (twice f) (-:A)').primitive())
e=lang.parse('compose inc inc (-:A)').primitive()
tryit('again', lambda: e.primitive())
# C17 parser
for s in [': A', '- : (* A)', 'f ²', 'f ٣', '(', ')', 'f (', 'f )', ',', 'f,', '- : A,', '- : F(', ';', 'f ; f', '- : _', '- : ', '1', 'f 0', 'f : ', 'f : A : A', ': ', '- : A *', '- : (A * )', '- : )', '~', 'f ~ f', '- : A(A)', '- : Top(A)','-:*']:
    tryit(f'parse {s!r}', lambda: lang.parse(s))
for s in ['', '(', ')', 'A(', 'A)', '*', 'A *', '* A', 'A A', 'A,A', '(A', 'A(A)', '_(A)', ',', '()', 'Top(A)']:
    tryit(f'parse_type {s!r}', lambda: lang.parse_type(s))
