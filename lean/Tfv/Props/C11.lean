import Tfv.Model
namespace Tfv.C11
theorem placeholder : True := trivial
end Tfv.C11
