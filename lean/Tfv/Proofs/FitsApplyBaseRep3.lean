import Tfv.Proofs.FitsApplyBaseRep2
/-!
# C06 end to end, `x ** r(x) [x << {G(b, b), F(c)}]`, part 3: the run on `G(A₁, A₂)` and its clauses
-/
namespace Tfv.C06B
open Tfv Tfv.C03P Tfv.C03C Tfv.C16P Tfv.C17E Tfv.C03R Tfv.C06A Tfv.C05P

theorem bind_rep (L : Lang) (wf : WF L) (oF oG : Nat) (ops : RepOps L oF oG) (x A1 A2 : Nat)
    (h1 : arityOf L A1 = 0) (h2 : arityOf L A2 = 0) (b1 : A1 ≠ BOT) (t1 : A1 ≠ TOP) (b2 : A2 ≠ BOT) (t2 : A2 ≠ TOP)
    (hx : 18 ≤ x) :
    bind L (x+8) (σJ oF oG) 0 (aG oG A1 A2).toTerm = repAfter L oG A1 A2 := by
  have kG : arityOf L oG ≠ 0 := by rw [ops.aG]; decide
  rw [← check_σJB L wf oF oG ops x A1 A2 h1 h2 b1 t1 b2 t2 hx]
  generalize hal : Ty.toTermL [Ty.app A1 [], Ty.app A2 []] = as'
  have hcl : Term.closedL as' = true := by rw [← hal]; exact closedL_toTermL _
  have hat : (aG oG A1 A2).toTerm = .app oG as' := by rw [aG, Tfv.toTerm_app, hal]
  rw [hat, bind]
  have hdv : directVars (setVar (setVar (σJ oF oG) 0 { cset := 0 }) 0
      { bound := some (.app oG as'), cset := 0 })
      (termFuel (setVar (setVar (σJ oF oG) 0 { cset := 0 }) 0
      { bound := some (.app oG as'), cset := 0 })) (.app oG as') [] = [] :=
    directVars_closed _ _ _ _ (by rw [closed_app]; exact hcl)
  simp [σJ, getVar, kG, setVar] at hdv ⊢
  rw [hdv]
  simp [getCset, setCset, σJX, hat]

theorem unify_rep0 (L : Lang) (wf : WF L) (m oF oG : Nat) (a : Ty) (ao : Nat) (as : List Ty) (ha : a = .app ao as)
    (h0 : arityOf L ao ≠ 0) :
    unify L (m+1) (σJ oF oG) a.toTerm (.var 0) true false false = bind L m (σJ oF oG) 0 a.toTerm := by
  subst ha
  have hb : ao ≠ BOT := compound_not_bot wf h0
  have hocc := occurs_closed_var (L := L) (σ := σJ oF oG) (w := 0) rfl (termFuel (σJ oF oG)) _
    (closed_toTerm (.app ao as))
  rw [Tfv.toTerm_app] at hocc ⊢
  rw [unify, Tfv.followT_app, C16P.followT_unbound rfl]
  simp [hb, hocc, h0]

theorem repAfter_bound {L : Lang} {oG A1 A2 : Nat} {σ1 : Store} (h : repAfter L oG A1 A2 = .ok σ1) :
    (getVar σ1 0).bound = some (aG oG A1 A2).toTerm := by
  unfold repAfter at h
  cases hr : repOutcome L A1 A2 with
  | error e => rw [hr] at h; cases h
  | ok i => rw [hr] at h; injection h with h; subst h; rfl

/-- a fuel that suffices -/
def repFuel (r : Term) : Nat := 8 * tsz r + 40

theorem runAll_rep (L : Lang) (wf : WF L) (oF oG : Nat) (ops : RepOps L oF oG) (N : Nat) (r : Term) (A1 A2 : Nat)
    (fixFlag : Bool) (h1 : arityOf L A1 = 0) (h2 : arityOf L A2 = 0) (b1 : A1 ≠ BOT) (t1 : A1 ≠ TOP) (b2 : A2 ≠ BOT)
    (t2 : A2 ≠ TOP) (hr : ∀ v ∈ r.vars, v = 0) (hN : repFuel r ≤ N) :
    runAll L N fixFlag (repSchema r oF oG) [(aG oG A1 A2).toTerm] =
      (match repAfter L oG A1 A2 with
       | .error e => .error e
       | .ok σ1 => .ok (σ1, if fixFlag && !C06A.isFunT r then resTerm σ1 r else r)) := by
  have kG : arityOf L oG ≠ 0 := by rw [ops.aG]; decide
  unfold repFuel at hN
  obtain ⟨x, rfl⟩ : ∃ x, N = x + 9 := ⟨N - 9, by omega⟩
  unfold runAll
  rw [show x + 9 = (x + 4) + 5 from rfl, instantiate_repSchema L wf oF oG ops r (x+4) (by omega)]
  simp only []
  rw [applyAll]
  rw [show x + 4 + 5 = x + 9 from rfl]
  have happ : applyT L (x+9) (σJ oF oG) (.app FUN [.var 0, r]) (aG oG A1 A2).toTerm fixFlag =
      (match repAfter L oG A1 A2 with
       | .error e => .error e
       | .ok σ1 => if fixFlag && !C06A.isFunT r then fix L (x+9) σ1 r true else .ok (σ1, r)) := by
    unfold applyT
    rw [Tfv.followT_app, followT_toTerm]
    simp only [beq_self_eq_true, if_true]
    rw [unify_rep0 L wf (x+8) oF oG (aG oG A1 A2) oG _ rfl kG, bind_rep L wf oF oG ops x A1 A2 h1 h2 b1 t1 b2 t2 (by omega)]
    cases repAfter L oG A1 A2 with
    | error e => rfl
    | ok σ1 =>
      simp only []
      cases r <;> rfl
  rw [happ]
  cases hc : repAfter L oG A1 A2 with
  | error e => rfl
  | ok σ1 =>
    simp only []
    cases hb : (fixFlag && !C06A.isFunT r)
    · simp only [Bool.false_eq_true, if_false]
      rw [applyAll]
    · simp only [if_true]
      rw [fix_bound0 (repAfter_bound hc) _ r true hr (by rw [size_aG]; omega)]
      simp only []
      rw [applyAll]

/-- `G(A₁, A₂)` always FITS `G(b, b)`: take `b := Top` -/
theorem rep_fits {L : Lang} (wf : WF L) (oF oG : Nat) (ops : RepOps L oF oG) (A1 A2 : Nat) :
    Fits L (aG oG A1 A2) (R1 oG) := by
  have kG : arityOf L oG ≠ 0 := by rw [ops.aG]; decide
  refine ⟨fun _ => .app TOP [], fun _ => Tfv.wfTy_top wf, ?_⟩
  have e : (R1 oG).inst (fun _ => .app TOP []) = .app oG [.app TOP [], .app TOP []] := by
    simp [R1, Term.inst, Term.instL]
  rw [e, aG]
  refine Sub.cong kG ?_
  rw [ops.vG]
  exact SubArgs.co (Sub.top _) (SubArgs.co (Sub.top _) SubArgs.nil)

/-- accepted iff the two components are comparable -/
theorem rep_accept_iff {L : Lang} (wf : WF L) (oF oG : Nat) (ops : RepOps L oF oG) (N : Nat) (r : Term) (A1 A2 : Nat)
    (fixFlag : Bool) (h1 : arityOf L A1 = 0) (h2 : arityOf L A2 = 0) (b1 : A1 ≠ BOT) (t1 : A1 ≠ TOP) (b2 : A2 ≠ BOT)
    (t2 : A2 ≠ TOP) (hr : ∀ v ∈ r.vars, v = 0) (hN : repFuel r ≤ N) :
    (∃ σ' res, runAll L N fixFlag (repSchema r oF oG) [(aG oG A1 A2).toTerm] = .ok (σ', res)) ↔
      (opSub L A2 A1 true = true ∨ opSub L A1 A2 = true) := by
  rw [runAll_rep L wf oF oG ops N r A1 A2 fixFlag h1 h2 b1 t1 b2 t2 hr hN]
  unfold repAfter repOutcome
  cases opSub L A2 A1 true
  · cases opSub L A1 A2
    · simp
    · simp
  · simp

/-- … and otherwise the error is `subtypeMismatch` (from `above`), NOT the declared `constraintViolation` -/
theorem rep_reject {L : Lang} (wf : WF L) (oF oG : Nat) (ops : RepOps L oF oG) (N : Nat) (r : Term) (A1 A2 : Nat)
    (fixFlag : Bool) (h1 : arityOf L A1 = 0) (h2 : arityOf L A2 = 0) (b1 : A1 ≠ BOT) (t1 : A1 ≠ TOP) (b2 : A2 ≠ BOT)
    (t2 : A2 ≠ TOP) (hr : ∀ v ∈ r.vars, v = 0) (hN : repFuel r ≤ N)
    (hn1 : opSub L A2 A1 true = false) (hn2 : opSub L A1 A2 = false) :
    runAll L N fixFlag (repSchema r oF oG) [(aG oG A1 A2).toTerm] = .error .subtypeMismatch := by
  rw [runAll_rep L wf oF oG ops N r A1 A2 fixFlag h1 h2 b1 t1 b2 t2 hr hN]
  unfold repAfter repOutcome
  simp [hn1, hn2]

/-- accepted: `x` is bound to the argument, `b` has the LARGER of the two components as its lower bound, the record is narrowed
to `G(b, b)` and fulfilled -/
theorem rep_accepted {L : Lang} (wf : WF L) (oF oG : Nat) (ops : RepOps L oF oG) (N : Nat) (r : Term) (A1 A2 : Nat)
    (fixFlag : Bool) (h1 : arityOf L A1 = 0) (h2 : arityOf L A2 = 0) (b1 : A1 ≠ BOT) (t1 : A1 ≠ TOP) (b2 : A2 ≠ BOT)
    (t2 : A2 ≠ TOP) (hr : ∀ v ∈ r.vars, v = 0) (hN : repFuel r ≤ N)
    (hc : opSub L A2 A1 true = true ∨ opSub L A1 A2 = true) :
    ∃ σ' res, runAll L N fixFlag (repSchema r oF oG) [(aG oG A1 A2).toTerm] = .ok (σ', res) ∧
      (getVar σ' 0).bound = some (aG oG A1 A2).toTerm ∧
      getVar σ' 1 = { lower := some (if opSub L A2 A1 true then A1 else A2), cset := 1 } ∧
      getConstr σ' 0 = .elim (aG oG A1 A2).toTerm [R1 oG] true ∧
      getCset σ' 0 = [] ∧ getCset σ' 1 = [] ∧
      Res σ' res (r.inst (fun _ => aG oG A1 A2)) := by
  have hrun := runAll_rep L wf oF oG ops N r A1 A2 fixFlag h1 h2 b1 t1 b2 t2 hr hN
  unfold repAfter repOutcome at hrun
  cases hs : opSub L A2 A1 true
  · have h2' : opSub L A1 A2 = true := by
      rcases hc with h | h
      · rw [hs] at h; cases h
      · exact h
    simp only [hs, h2', Bool.false_eq_true, if_false, if_true] at hrun
    exact ⟨_, _, hrun, rfl, rfl, rfl, rfl, rfl, res_result0 rfl r hr _⟩
  · simp only [hs, if_true] at hrun
    exact ⟨_, _, hrun, rfl, rfl, rfl, rfl, rfl, res_result0 rfl r hr _⟩

end Tfv.C06B
