import Tfv.Proofs.SchedSoundBind
/-!
# C18 (soundness under every schedule): `unifyS`, `unifyListS`, `fixS`, `fixListS`

Port of `InferConstrUnify.lean` to the scheduled engine.
-/
namespace Tfv.C18S
open Tfv Tfv.C03P Tfv.C03C

variable {ord : List Nat → List Nat}

def UnifyListCO (L : Lang) (ord : List Nat → List Nat) (n : Nat) : Prop :=
  ∀ σ vs xs ys sb sw σ', OkStoreC L σ → okTermL L σ xs = true → okTermL L σ ys = true →
    xs.length = vs.length → ys.length = vs.length →
    unifyListS L ord n σ vs xs ys true sb sw = .ok σ' →
    StepC L σ σ' ∧ (sb = false → sw = false → ∀ ρ, Sat L ρ σ' → SubArgs L vs (denL ρ xs) (denL ρ ys))

def FixCO (L : Lang) (ord : List Nat → List Nat) (n : Nat) : Prop :=
  ∀ σ t pl σ' t', OkStoreC L σ → okTerm L σ t = true →
    fixS L ord n σ t pl = .ok (σ', t') →
    StepC L σ σ' ∧ okTerm L σ' t' = true ∧ ∀ ρ, Sat L ρ σ' → den ρ t' = den ρ t

def FixListCO (L : Lang) (ord : List Nat → List Nat) (n : Nat) : Prop :=
  ∀ σ vs ps pl σ', OkStoreC L σ → okTermL L σ ps = true →
    fixListS L ord n σ vs ps pl = .ok σ' → StepC L σ σ'

/-! ## 1. `unify` -/

theorem unify_stepCO {L : Lang} (wf : WF L) {n : Nat} (hunify : UnifyCO L ord n) (hlist : UnifyListCO L ord n)
    (hbind : BindCO L ord n) (habove : AboveCO L ord n) (hbelow : BelowCO L ord n) : UnifyCO L ord (n+1) := by
  intro σ a b sb sw σ' okc ha hb h
  have ok := okc.ok
  have ha' := okTerm_followT ok a ha
  have hb' := okTerm_followT ok b hb
  -- it suffices to relate the followed terms
  suffices hh : StepC L σ σ' ∧ (sb = false → sw = false →
      ∀ ρ, Sat L ρ σ' → Sub L (den ρ (followT σ a)) (den ρ (followT σ b))) by
    refine ⟨hh.1, fun e1 e2 ρ hρ => ?_⟩
    have := hh.2 e1 e2 ρ hρ
    rw [den_followT (hh.1.sat ρ hρ), den_followT (hh.1.sat ρ hρ)] at this
    exact this
  unfold unifyS at h
  split at h
  · next av bv e1 e2 =>
    rw [e1] at ha'; rw [e2] at hb'
    rw [e1, e2]
    split at h
    · obtain ⟨s, hs⟩ := hbind σ av _ σ' okc (okTerm_var.mp ha') hb' (bindPre_var L σ av bv) h
      refine ⟨s, fun _ _ ρ hρ => ?_⟩
      rw [den_var]
      exact sub_of_eq (hρ.wf av) (hs ρ hρ)
    · next hc =>
      injection h with h; subst h
      refine ⟨StepC.refl okc, fun _ hsw => ?_⟩
      subst hsw
      simp at hc
  · next ao as bo bs e1 e2 =>
    rw [e1] at ha'; rw [e2] at hb'
    rw [e1, e2]
    obtain ⟨hao, hasl, has⟩ := okTerm_app.mp ha'
    obtain ⟨hbo, hbsl, hbs⟩ := okTerm_app.mp hb'
    split at h
    · next hbt =>
      injection h with h; subst h
      refine ⟨StepC.refl okc, fun _ _ ρ _ => ?_⟩
      simp only [Bool.or_eq_true, beq_iff_eq] at hbt
      rw [den_app, den_app]
      rcases hbt with e | e
      · subst e
        rw [arity_bot wf] at hasl
        rw [List.eq_nil_of_length_eq_zero hasl, denL_nil]; exact Sub.bot _
      · subst e
        rw [arity_top wf] at hbsl
        rw [List.eq_nil_of_length_eq_zero hbsl, denL_nil]; exact Sub.top _
    · split at h
      · next h0 =>
        have h0 : arityOf L ao = 0 := by simpa using h0
        split at h
        · next hsb =>
          injection h with h; subst h
          refine ⟨StepC.refl okc, fun e _ => ?_⟩
          rw [e] at hsb; cases hsb
        · split at h
          · cases h
          · next hop =>
            split at h
            · cases h
            · injection h with h; subst h
              have hop : opSub L ao bo = true := by simpa using hop
              refine ⟨StepC.refl okc, fun _ _ ρ _ => ?_⟩
              rw [den_app, den_app]
              rw [h0] at hasl
              rw [List.eq_nil_of_length_eq_zero hasl, denL_nil]
              exact sub_of_opSub_nullary wf h0 (by rw [length_denL]; exact hbsl) hop
      · next h0 =>
        have h0 : arityOf L ao ≠ 0 := by simpa using h0
        split at h
        · next heq =>
          have heq : ao = bo := by simpa using heq
          subst heq
          obtain ⟨s, hs⟩ := hlist σ _ as bs sb sw σ' okc has hbs hasl hbsl h
          refine ⟨s, fun e1 e2 ρ hρ => ?_⟩
          rw [den_app, den_app]
          exact Sub.cong h0 (hs e1 e2 ρ hρ)
        · cases h
  · next av bo bs e1 e2 =>
    rw [e1] at ha'; rw [e2] at hb'
    rw [e1, e2]
    obtain ⟨hbo, hbsl, hbs⟩ := okTerm_app.mp hb'
    have hav := okTerm_var.mp ha'
    split at h
    · next htop =>
      have htop : bo = TOP := by simpa using htop
      subst htop
      injection h with h; subst h
      refine ⟨StepC.refl okc, fun _ _ ρ _ => ?_⟩
      rw [arity_top wf] at hbsl
      rw [den_app, List.eq_nil_of_length_eq_zero hbsl, denL_nil]; exact Sub.top _
    · split at h
      · cases h
      · split at h
        · next h0 =>
          have h0 : arityOf L bo = 0 := by simpa using h0
          split at h
          · next hskip =>
            injection h with h; subst h
            refine ⟨StepC.refl okc, fun e1 e2 => ?_⟩
            subst e1; subst e2
            simp at hskip
          · simp only [↓reduceIte] at h
            obtain ⟨s, hs⟩ := hbelow σ av bo σ' okc hav hbo h0 h
            refine ⟨s, fun _ _ ρ hρ => ?_⟩
            rw [h0] at hbsl
            rw [den_var, den_app, List.eq_nil_of_length_eq_zero hbsl, denL_nil]
            exact hs ρ hρ
        · next h0 =>
          have h0 : arityOf L bo ≠ 0 := by simpa using h0
          split at h
          · next hskip =>
            split at h
            next σ1 fresh hnv =>
            obtain ⟨s1, hfresh, hflen⟩ := stepC_newVars (L := L) bs.length okc
            rw [hnv] at s1 hfresh hflen
            simp only [] at s1 hfresh hflen
            split at h
            · cases h
            · next σ2 hb2 =>
              obtain ⟨s2, _⟩ := hbind σ1 av _ σ2 s1.ok (Nat.lt_of_lt_of_le hav s1.len)
                (okTerm_app.mpr ⟨hbo, by rw [hflen]; exact hbsl, hfresh⟩) (bindPre_compound h0) hb2
              have s12 := s1.trans s2
              obtain ⟨s3, _⟩ := hunify σ2 (.var av) (.app bo bs) sb sw σ' s2.ok
                (s12.okTerm ha') (s12.okTerm hb') h
              refine ⟨s12.trans s3, fun e1 e2 => ?_⟩
              subst e1; subst e2
              simp at hskip
          · obtain ⟨s, hs⟩ := hbind σ av _ σ' okc hav hb' (bindPre_compound h0) h
            refine ⟨s, fun _ _ ρ hρ => ?_⟩
            rw [den_var]
            exact sub_of_eq (hρ.wf av) (hs ρ hρ)
  · next ao as bv e1 e2 =>
    rw [e1] at ha'; rw [e2] at hb'
    rw [e1, e2]
    obtain ⟨hao, hasl, has⟩ := okTerm_app.mp ha'
    have hbv := okTerm_var.mp hb'
    split at h
    · next hbot =>
      have hbot : ao = BOT := by simpa using hbot
      subst hbot
      injection h with h; subst h
      refine ⟨StepC.refl okc, fun _ _ ρ _ => ?_⟩
      rw [arity_bot wf] at hasl
      rw [den_app, List.eq_nil_of_length_eq_zero hasl, denL_nil]; exact Sub.bot _
    · split at h
      · cases h
      · split at h
        · next h0 =>
          have h0 : arityOf L ao = 0 := by simpa using h0
          split at h
          · next hskip =>
            injection h with h; subst h
            refine ⟨StepC.refl okc, fun e1 e2 => ?_⟩
            subst e1; subst e2
            simp at hskip
          · simp only [↓reduceIte] at h
            obtain ⟨s, hs⟩ := habove σ bv ao σ' okc hbv hao h0 h
            refine ⟨s, fun _ _ ρ hρ => ?_⟩
            rw [h0] at hasl
            rw [den_var, den_app, List.eq_nil_of_length_eq_zero hasl, denL_nil]
            exact hs ρ hρ
        · next h0 =>
          have h0 : arityOf L ao ≠ 0 := by simpa using h0
          split at h
          · next hskip =>
            split at h
            next σ1 fresh hnv =>
            obtain ⟨s1, hfresh, hflen⟩ := stepC_newVars (L := L) as.length okc
            rw [hnv] at s1 hfresh hflen
            simp only [] at s1 hfresh hflen
            split at h
            · cases h
            · next σ2 hb2 =>
              obtain ⟨s2, _⟩ := hbind σ1 bv _ σ2 s1.ok (Nat.lt_of_lt_of_le hbv s1.len)
                (okTerm_app.mpr ⟨hao, by rw [hflen]; exact hasl, hfresh⟩) (bindPre_compound h0) hb2
              have s12 := s1.trans s2
              obtain ⟨s3, _⟩ := hunify σ2 (.var bv) (.var bv) sb sw σ' s2.ok
                (s12.okTerm hb') (s12.okTerm hb') h
              refine ⟨s12.trans s3, fun e1 e2 => ?_⟩
              subst e1; subst e2
              simp at hskip
          · obtain ⟨s, hs⟩ := hbind σ bv _ σ' okc hbv ha' (bindPre_compound h0) h
            refine ⟨s, fun _ _ ρ hρ => ?_⟩
            rw [den_var]
            exact sub_of_eq (wfTy_den hρ.wf _ (s.okTerm ha')) (hs ρ hρ).symm

/-! ## 2. `unifyList` -/

theorem unifyList_stepCO {L : Lang} {n : Nat} (hunify : UnifyCO L ord n) (hlist : UnifyListCO L ord n) :
    UnifyListCO L ord (n+1) := by
  intro σ vs xs ys sb sw σ' okc hxs hys hlx hly h
  match vs, xs, ys, hlx, hly with
  | [], [], [], _, _ =>
    rw [unifyListS_nil] at h
    injection h with h; subst h
    refine ⟨StepC.refl okc, fun _ _ ρ _ => ?_⟩
    rw [denL_nil]; exact SubArgs.nil
  | [], _ :: _, _, hlx, _ => simp at hlx
  | [], [], _ :: _, _, hly => simp at hly
  | _ :: _, [], _, hlx, _ => simp at hlx
  | _ :: _, _ :: _, [], _, hly => simp at hly
  | v :: vs, x :: xs, y :: ys, hlx, hly =>
    rw [unifyListS_cons] at h
    obtain ⟨hx, hxs'⟩ := okTermL_cons.mp hxs
    obtain ⟨hy, hys'⟩ := okTermL_cons.mp hys
    split at h
    · cases h
    · next σ1 h1 =>
      have k1 : StepC L σ σ1 ∧ (sb = false → sw = false → ∀ ρ, Sat L ρ σ1 →
          (if v then Sub L (den ρ x) (den ρ y) else Sub L (den ρ y) (den ρ x))) := by
        cases v with
        | true => simpa using hunify σ x y sb sw σ1 okc hx hy (by simpa using h1)
        | false => simpa using hunify σ y x sb sw σ1 okc hy hx (by simpa using h1)
      obtain ⟨s1, hs1⟩ := k1
      obtain ⟨s2, hs2⟩ := hlist σ1 vs xs ys sb sw σ' s1.ok (s1.okTermL hxs') (s1.okTermL hys')
        (by simpa using hlx) (by simpa using hly) h
      refine ⟨s1.trans s2, fun e1 e2 ρ hρ => ?_⟩
      rw [denL_cons, denL_cons]
      have := hs1 e1 e2 ρ (s2.sat ρ hρ)
      cases v with
      | true => exact SubArgs.co (by simpa using this) (hs2 e1 e2 ρ hρ)
      | false => exact SubArgs.contra (by simpa using this) (hs2 e1 e2 ρ hρ)

/-! ## 3. `fix`, `fixList` -/

theorem fix_stepCO {L : Lang} {n : Nat} (hbind : BindCO L ord n) (hlist : FixListCO L ord n) : FixCO L ord (n+1) := by
  intro σ t pl σ' t' okc ht h
  have ok := okc.ok
  have ht' := okTerm_followT ok t ht
  unfold fixS at h
  split at h
  · next o args e1 =>
    rw [e1] at ht'
    split at h
    · cases h
    · next σ1 h1 =>
      injection h with h
      injection h with h2 h3
      subst h2; subst h3
      have s := hlist σ _ args pl σ1 okc (okTerm_app.mp ht').2.2 h1
      refine ⟨s, s.okTerm ht', fun ρ hρ => ?_⟩
      rw [← e1, den_followT (s.sat ρ hρ)]
  · next v e1 =>
    rw [e1] at ht'
    have hv := okTerm_var.mp ht'
    simp only [] at h
    split at h
    · cases h
    · next σ1 h1 =>
      injection h with h
      injection h with h2 h3
      subst h2; subst h3
      -- binding to the own lower (upper) bound
      have bind_own : ∀ o, ((getVar σ v).lower = some o ∨ (getVar σ v).upper = some o) →
          bindS L ord n σ v (.app o []) = .ok σ1 → StepC L σ σ1 := by
        intro o ho hb
        have ho0 : o < L.length ∧ arityOf L o = 0 := by
          rcases ho with ho | ho
          · exact ok.lower v o ho
          · exact ok.upper v o ho
        refine (hbind σ v _ σ1 okc hv (okTerm_base ho0.1 ho0.2) ?_ hb).1
        intro o' args' e _
        injection e with e _
        subst e
        rcases ho with ho | ho
        · refine ⟨fun l hl => Or.inl ?_, fun u hu => Or.inl (ok.ordered v _ u ho hu)⟩
          rw [ho] at hl; injection hl with hl; subst hl; exact opSub_self L _
        · refine ⟨fun l hl => Or.inl (ok.ordered v l _ hl ho), fun u hu => Or.inl ?_⟩
          rw [ho] at hu; injection hu with hu; subst hu; exact opSub_self L _
      have s : StepC L σ σ1 := by
        split at h1
        · split at h1
          · next l hl => exact bind_own l (Or.inl hl) h1
          · injection h1 with h1; subst h1; exact StepC.refl okc
        · split at h1
          · split at h1
            · next u hu => exact bind_own u (Or.inr hu) h1
            · injection h1 with h1; subst h1; exact StepC.refl okc
          · injection h1 with h1; subst h1; exact StepC.refl okc
      refine ⟨s, okTerm_followT s.ok.ok _ (s.okTerm ht'), fun ρ hρ => ?_⟩
      rw [den_followT hρ, ← e1, den_followT (s.sat ρ hρ)]

theorem fixList_stepCO {L : Lang} {n : Nat} (hfix : FixCO L ord n) (hlist : FixListCO L ord n) :
    FixListCO L ord (n+1) := by
  intro σ vs ps pl σ' okc hps h
  match vs, ps with
  | [], ps =>
    rw [fixListS_nil_left] at h
    injection h with h; subst h; exact StepC.refl okc
  | vs, [] =>
    rw [fixListS_nil_right] at h
    injection h with h; subst h; exact StepC.refl okc
  | v :: vs, p :: ps =>
    rw [fixListS_cons] at h
    obtain ⟨hp, hps'⟩ := okTermL_cons.mp hps
    split at h
    · cases h
    · next σ1 t1 h1 =>
      obtain ⟨s1, _, _⟩ := hfix σ p _ σ1 t1 okc hp h1
      exact s1.trans (hlist σ1 vs ps pl σ' s1.ok (s1.okTermL hps') h)

end Tfv.C18S
