import Tfv.Proofs.WorkflowAssoc
/-!
# The recording discipline of `source_types`

`sourceTypes` folds `recordUse` over the uses `(source, type)` of each application. For a fixed comparison
`lt` ("the new type is a strict subtype of the recorded one, or incomparable-unknown"), the recorded type
per source after any number of uses is the least of the used types, whenever the types used for one source are
totally ordered by `lt` — hence independent of the order of the uses.
-/
namespace Tfv

/-- the recording step of `source_types` for one input of one application (the body of the model's fold) -/
def recordUse (w : Wf) (L : Lang) (σ3 : Store) (acc : List (Nat × Term)) (p : Nat × TExpr) : List (Nat × Term) :=
  let node := p.1
  let ty := followT σ3 p.2.ty
  match ty with
  | .var _ => acc
  | _ =>
    if !w.sources.contains node then acc else
    match acc.find? (fun q => q.1 == node) with
    | none => acc ++ [(node, ty)]
    | some q =>
      if isSubtypeStrict3 L σ3 ty q.2 != some false then
        acc.map (fun r => if r.1 == node then (node, ty) else r)
      else acc

theorem sourceTypes_nil (P : PLang) (ops : List OperatorDecl) (w : Wf) (s : XState) (acc : List (Nat × Term)) :
    sourceTypes P ops w s [] acc = .ok (s, acc) := by
  rw [sourceTypes]

/-- `sourceTypes` is the fold of `recordUse` over the applications in listing order -/
theorem sourceTypes_cons (P : PLang) (ops : List OperatorDecl) (w : Wf) (s : XState) (a : WfApp) (rest : List WfApp)
    (acc : List (Nat × Term)) :
    sourceTypes P ops w s (a :: rest) acc =
      match parseExprToks P (untypedBuilder P.types ops) (mkInputs a.inputs.length s).2 (mkInputs a.inputs.length s).1 a.toks with
      | .error e => .error (.composition e)
      | .ok (s2, e) =>
        match fixExpr P.types s2.store e with
        | .error err => .error (.typing err)
        | .ok (σ3, _) =>
          sourceTypes P ops w { s2 with store := σ3 } rest
            ((a.inputs.zip (mkInputs a.inputs.length s).2).foldl (recordUse w P.types σ3) acc) := by
  rw [sourceTypes]; rfl

/-- the same step on a use `(source, type)`, for an abstract comparison -/
def recordAbs (lt : Term → Term → Bool) (acc : List (Nat × Term)) (u : Nat × Term) : List (Nat × Term) :=
  match acc.find? (fun q => q.1 == u.1) with
  | none => acc ++ [u]
  | some q => if lt u.2 q.2 then acc.map (fun r => if r.1 == u.1 then u else r) else acc

/-- a use that says something (a non-variable type of a source of the workflow) is recorded by `recordAbs` -/
theorem recordUse_eq (w : Wf) (L : Lang) (σ3 : Store) (acc : List (Nat × Term)) (p : Nat × TExpr) (o : Nat)
    (args : List Term) (hty : followT σ3 p.2.ty = .app o args) (hsrc : p.1 ∈ w.sources) :
    recordUse w L σ3 acc p =
      recordAbs (fun a b => isSubtypeStrict3 L σ3 a b != some false) acc (p.1, followT σ3 p.2.ty) := by
  unfold recordUse recordAbs
  simp only [hty, List.contains_iff_mem.2 hsrc, Bool.not_true, Bool.false_eq_true, if_false]

theorem recordUse_skip_var (w : Wf) (L : Lang) (σ3 : Store) (acc : List (Nat × Term)) (p : Nat × TExpr) (v : Nat)
    (hty : followT σ3 p.2.ty = .var v) : recordUse w L σ3 acc p = acc := by
  unfold recordUse
  simp only [hty]

/-! ## the recorded type is the least used type -/

/-- what one use does to the type recorded for its source -/
def recStep (lt : Term → Term → Bool) : Option Term → Term → Option Term
  | none, t => some t
  | some cur, t => some (if lt t cur then t else cur)

theorem alook_map_replace (acc : List (Nat × Term)) (u : Nat × Term) (r : Nat) :
    alook (acc.map (fun x => if x.1 == u.1 then u else x)) r =
      if u.1 = r then (alook acc r).map (fun _ => u.2) else alook acc r := by
  induction acc with
  | nil => simp [alook_nil]
  | cons x acc ih =>
    rw [List.map_cons, alook_cons, alook_cons, ih]
    by_cases hx : x.1 = u.1
    · simp only [hx, beq_self_eq_true, if_true]
      by_cases hr : u.1 = r
      · simp [hr]
      · simp [hr]
    · have hb : (x.1 == u.1) = false := by simp [hx]
      simp only [hb, Bool.false_eq_true, if_false]
      by_cases hr : u.1 = r
      · have : x.1 ≠ r := by rw [← hr]; exact hx
        simp [hr, this]
      · simp [hr]

theorem alook_recordAbs (lt : Term → Term → Bool) (acc : List (Nat × Term)) (u : Nat × Term) (r : Nat) :
    alook (recordAbs lt acc u) r = if u.1 = r then recStep lt (alook acc r) u.2 else alook acc r := by
  unfold recordAbs
  cases hf : acc.find? (fun q => q.1 == u.1) with
  | none =>
    have hn : alook acc u.1 = none := by unfold alook; rw [hf]; rfl
    by_cases hr : u.1 = r
    · subst hr
      simp only [if_true]
      rw [alook_append_none hn, hn]
      show alook [(u.1, u.2)] u.1 = _
      rw [alook_singleton]; rfl
    · simp only [hr, if_false]
      cases hl : alook acc r with
      | none => rw [alook_append_none hl]; exact alook_singleton_ne (r := u.1) u.2 hr
      | some v => exact alook_append_some hl
  | some q =>
    have hq : alook acc u.1 = some q.2 := by unfold alook; rw [hf]; rfl
    simp only []
    by_cases hlt : lt u.2 q.2 = true
    · rw [if_pos hlt, alook_map_replace]
      by_cases hr : u.1 = r
      · subst hr
        simp only [if_true, hq, Option.map_some, recStep, hlt]
      · simp only [hr, if_false]
    · rw [if_neg hlt]
      by_cases hr : u.1 = r
      · subst hr
        simp only [if_true, hq, recStep, hlt]
        rfl
      · simp only [hr, if_false]

/-- the types used for source `r`, in the order of the uses -/
def usesOf (l : List (Nat × Term)) (r : Nat) : List Term := (l.filter (fun u => u.1 == r)).map (·.2)

theorem alook_foldl_recordAbs (lt : Term → Term → Bool) (r : Nat) : ∀ (l : List (Nat × Term)) (acc : List (Nat × Term)),
    alook (l.foldl (recordAbs lt) acc) r = (usesOf l r).foldl (recStep lt) (alook acc r) := by
  intro l
  induction l with
  | nil => intro acc; rfl
  | cons u l ih =>
    intro acc
    rw [List.foldl_cons, ih, alook_recordAbs]
    unfold usesOf
    by_cases hr : u.1 = r
    · have hb : (u.1 == r) = true := by simp [hr]
      simp only [List.filter_cons, hb, if_true, List.map_cons, List.foldl_cons, if_pos hr]
    · have hb : (u.1 == r) = false := by simp [hr]
      simp only [List.filter_cons, hb, Bool.false_eq_true, if_false, if_neg hr]

/-- `lt` is a strict total order on the set `S` of types -/
structure StrictTotalOn (lt : Term → Term → Bool) (S : Term → Prop) : Prop where
  irrefl : ∀ t, S t → lt t t = false
  total : ∀ s t, S s → S t → s ≠ t → (lt s t = true ∨ lt t s = true)
  asymm : ∀ s t, S s → S t → lt s t = true → lt t s = false
  trans : ∀ s t u, S s → S t → S u → lt s t = true → lt t u = true → lt s u = true

/-- `m` is the least element of the list -/
def IsLeast (lt : Term → Term → Bool) (ts : List Term) (m : Term) : Prop := m ∈ ts ∧ ∀ t ∈ ts, t = m ∨ lt m t = true

theorem recStep_foldl_least {lt : Term → Term → Bool} {S : Term → Prop} (ho : StrictTotalOn lt S) :
    ∀ (ts seen : List Term) (cur : Term), (∀ t ∈ seen, S t) → (∀ t ∈ ts, S t) → IsLeast lt seen cur →
      ∃ m, ts.foldl (recStep lt) (some cur) = some m ∧ IsLeast lt (seen ++ ts) m := by
  intro ts
  induction ts with
  | nil => intro seen cur _ _ h; exact ⟨cur, rfl, by simpa using h⟩
  | cons t ts ih =>
    intro seen cur hseen hts hcur
    have hSt : S t := hts t List.mem_cons_self
    have hScur : S cur := hseen cur hcur.1
    rw [List.foldl_cons]
    show ∃ m, ts.foldl (recStep lt) (some (if lt t cur then t else cur)) = some m ∧ _
    have hS' : ∀ x ∈ seen ++ [t], S x := by
      intro x hx
      rcases List.mem_append.1 hx with hx | hx
      · exact hseen x hx
      · rw [List.mem_singleton] at hx; rw [hx]; exact hSt
    have hnext : IsLeast lt (seen ++ [t]) (if lt t cur then t else cur) := by
      by_cases hlt : lt t cur = true
      · rw [if_pos hlt]
        refine ⟨by simp, fun x hx => ?_⟩
        rcases List.mem_append.1 hx with hx | hx
        · rcases hcur.2 x hx with rfl | h
          · exact .inr hlt
          · exact .inr (ho.trans t cur x hSt hScur (hseen x hx) hlt h)
        · rw [List.mem_singleton] at hx; exact .inl hx
      · rw [if_neg hlt]
        refine ⟨List.mem_append_left _ hcur.1, fun x hx => ?_⟩
        rcases List.mem_append.1 hx with hx | hx
        · exact hcur.2 x hx
        · rw [List.mem_singleton] at hx
          subst hx
          by_cases he : x = cur
          · exact .inl he
          · rcases ho.total x cur hSt hScur he with h | h
            · exact absurd h hlt
            · exact .inr h
    obtain ⟨m, hm, hl⟩ := ih (seen ++ [t]) _ hS' (fun x hx => hts x (List.mem_cons_of_mem _ hx)) hnext
    exact ⟨m, hm, by rw [List.append_assoc] at hl; exact hl⟩

theorem isLeast_unique {lt : Term → Term → Bool} {S : Term → Prop} (ho : StrictTotalOn lt S) {ts ts' : List Term}
    (hS : ∀ t ∈ ts, S t) (hmem : ∀ t, t ∈ ts ↔ t ∈ ts') {m m' : Term} (h : IsLeast lt ts m) (h' : IsLeast lt ts' m') :
    m = m' := by
  have hm' : m' ∈ ts := (hmem m').2 h'.1
  rcases h.2 m' hm' with e | h1
  · exact e.symm
  · rcases h'.2 m ((hmem m).1 h.1) with e | h2
    · exact e
    · rw [ho.asymm m m' (hS m h.1) (hS m' hm') h1] at h2; cases h2

/-- **order independence of the recording**: for a comparison that totally orders the types used for each source,
the type recorded for a source does not depend on the order of the uses -/
theorem recordAbs_perm (lt : Term → Term → Bool) (S : Term → Prop) (ho : StrictTotalOn lt S)
    (l₁ l₂ : List (Nat × Term)) (hp : l₁.Perm l₂) (hS : ∀ u ∈ l₁, S u.2) (r : Nat) :
    alook (l₁.foldl (recordAbs lt) []) r = alook (l₂.foldl (recordAbs lt) []) r := by
  rw [alook_foldl_recordAbs, alook_foldl_recordAbs, alook_nil]
  have hperm : (usesOf l₁ r).Perm (usesOf l₂ r) := (hp.filter _).map _
  have hS1 : ∀ t ∈ usesOf l₁ r, S t := by
    intro t ht
    unfold usesOf at ht
    obtain ⟨u, hu, rfl⟩ := List.mem_map.1 ht
    exact hS u (List.mem_filter.1 hu).1
  have hS2 : ∀ t ∈ usesOf l₂ r, S t := fun t ht => hS1 t (hperm.mem_iff.2 ht)
  cases h1 : usesOf l₁ r with
  | nil =>
    rw [h1] at hperm
    rw [List.nil_perm.1 hperm]
  | cons t ts =>
    cases h2 : usesOf l₂ r with
    | nil => rw [h1, h2] at hperm; exact absurd hperm.length_eq (by simp)
    | cons t' ts' =>
      rw [h1] at hS1 hperm; rw [h2] at hS2 hperm
      simp only [List.foldl_cons, recStep]
      obtain ⟨m, hm, hl⟩ := recStep_foldl_least ho ts [t] t (by simpa using hS1 t List.mem_cons_self)
        (fun x hx => hS1 x (List.mem_cons_of_mem _ hx)) ⟨by simp, by simp⟩
      obtain ⟨m', hm', hl'⟩ := recStep_foldl_least ho ts' [t'] t' (by simpa using hS2 t' List.mem_cons_self)
        (fun x hx => hS2 x (List.mem_cons_of_mem _ hx)) ⟨by simp, by simp⟩
      rw [hm, hm']
      simp only [List.singleton_append] at hl hl'
      rw [isLeast_unique ho hS1 (fun x => hperm.mem_iff) hl hl']

/-! ## the model's fold over the uses of one application -/

/-- the comparison `source_types` uses, in the store after the application has been parsed and fixed -/
def recordCmp (L : Lang) (σ3 : Store) (a b : Term) : Bool := isSubtypeStrict3 L σ3 a b != some false

/-- the uses of one application that say something: a source of the workflow, a non-variable type -/
def sayingUses (w : Wf) (σ3 : Store) (zs : List (Nat × TExpr)) : List (Nat × Term) :=
  zs.filterMap (fun p =>
    match followT σ3 p.2.ty with
    | .var _ => none
    | .app o args => if w.sources.contains p.1 then some (p.1, .app o args) else none)

theorem recordUse_foldl (w : Wf) (L : Lang) (σ3 : Store) : ∀ (zs : List (Nat × TExpr)) (acc : List (Nat × Term)),
    zs.foldl (recordUse w L σ3) acc = (sayingUses w σ3 zs).foldl (recordAbs (recordCmp L σ3)) acc := by
  intro zs
  induction zs with
  | nil => intro acc; rfl
  | cons p zs ih =>
    intro acc
    rw [List.foldl_cons, ih]
    unfold sayingUses
    rw [List.filterMap_cons]
    cases hty : followT σ3 p.2.ty with
    | var v => simp only [recordUse_skip_var w L σ3 acc p v hty]
    | app o args =>
      by_cases hs : p.1 ∈ w.sources
      · simp only [List.contains_iff_mem.2 hs, if_true, List.foldl_cons]
        rw [recordUse_eq w L σ3 acc p o args hty hs, hty]
        rfl
      · have hc : w.sources.contains p.1 = false := by
          cases h : w.sources.contains p.1 with
          | false => rfl
          | true => exact absurd (List.contains_iff_mem.1 h) hs
        have : recordUse w L σ3 acc p = acc := by
          unfold recordUse
          simp only [hty, hc, Bool.not_false, if_true]
        simp only [hc, Bool.false_eq_true, if_false, this]

end Tfv
