import Tfv.Model
namespace Tfv.C03
theorem placeholder : True := trivial
end Tfv.C03
