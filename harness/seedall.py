"""seedall.py [Sxx ...]: evaluate seeded changes (all of /verif/seeded by default) with harness/seedtest.py, record the outcome of each check in
the seed's meta.json ("results", "evaluated_at_repo", "evaluated_at_verif") and print the matrix rows for DESIGN.md section 12.6."""
import json, os, subprocess, sys
VERIF = os.path.dirname(os.path.dirname(os.path.abspath(__file__)))
seeds = sys.argv[1:] or sorted(d for d in os.listdir(os.path.join(VERIF, "seeded")) if d.startswith("S"))
repo = subprocess.check_output(["git", "-C", "/repo", "rev-parse", "--short", "HEAD"], text=True).strip()
ver = subprocess.check_output(["git", "-C", VERIF, "rev-parse", "--short", "HEAD"], text=True).strip()
for sd in seeds:
    d = os.path.join(VERIF, "seeded", sd)
    mp = os.path.join(d, "meta.json")
    meta = json.load(open(mp))
    p = subprocess.run([sys.executable, os.path.join(VERIF, "harness", "seedtest.py"), d], stdout=subprocess.PIPE, stderr=subprocess.STDOUT, text=True)
    last = [l for l in p.stdout.splitlines() if l.startswith("{")]
    if not last:
        print(sd, "NO RESULT", p.stdout[-300:])
        continue
    r = json.loads(last[-1])
    old = meta.get("results", {})
    meta["results_before_last_run"] = old if old != r["checks"] else meta.get("results_before_last_run", {})
    meta["results"] = r["checks"]
    meta["suite_unchanged"] = r["suite_unchanged"]
    meta["demo_exit_with_change"] = r["demo_exit"]
    meta["evaluated_at_repo"] = repo
    meta["evaluated_at_verif"] = ver
    json.dump(meta, open(mp, "w"), indent=1)
    print(f"| {sd} | {meta.get('breaks_property')} | " + "; ".join(f"{k}: {v}" for k, v in r["checks"].items()) + f" | demo exit {r['demo_exit']} |", flush=True)
