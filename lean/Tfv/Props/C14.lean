import Tfv.Model
namespace Tfv.C14
theorem placeholder : True := trivial
end Tfv.C14
