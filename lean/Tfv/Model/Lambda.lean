import Tfv.Model.Sexp
/-!
# M5b — expansion of composite operators as beta-reduction (expr.py: `primitive`, `normalize`)

`Expr.primitive()` replaces every composite operator by an anonymous function built from its definition and
reduces all applications of anonymous functions, by binding `Variable` objects in place. When no definition
uses a parameter twice, no object is reachable twice and in-place binding is capture-free substitution; the
model is therefore the pure calculus: de Bruijn terms, `unfold` of composite operators, leftmost-outermost
reduction to full normal form (fuelled). Definitions that duplicate a parameter are outside this model
(known finding D8: the implementation crashes on them).
-/
namespace Tfv

inductive LTerm where
  | op (name : String)        -- a primitive operator, or a composite one before unfolding
  | src (k : Nat)             -- source / numbered input
  | var (i : Nat)             -- de Bruijn index (innermost binder = 0)
  | lam (body : LTerm)
  | app (f x : LTerm)
  deriving Repr, DecidableEq, Inhabited

/-- a composite operator: number of parameters and body (parameter `i` of `k` is `var (k - 1 - i)`) -/
structure LDef where
  name : String
  arity : Nat
  body : LTerm
  deriving Repr, Inhabited

/-- `shift d c t`: add `d` to every index `≥ c` -/
def LTerm.shift : Int → Nat → LTerm → LTerm
  | d, c, .var i => if i ≥ c then .var (Int.toNat (i + d)) else .var i
  | d, c, .lam b => .lam (LTerm.shift d (c + 1) b)
  | d, c, .app f x => .app (LTerm.shift d c f) (LTerm.shift d c x)
  | _, _, t => t

/-- `subst j s t`: replace index `j` by `s` -/
def LTerm.subst : Nat → LTerm → LTerm → LTerm
  | j, s, .var i => if i == j then s else .var i
  | j, s, .lam b => .lam (LTerm.subst (j + 1) (LTerm.shift 1 0 s) b)
  | j, s, .app f x => .app (LTerm.subst j s f) (LTerm.subst j s x)
  | _, _, t => t

/-- beta step: `(λ. b) x` -/
def LTerm.beta (b x : LTerm) : LTerm := LTerm.shift (-1) 0 (LTerm.subst 0 (LTerm.shift 1 0 x) b)

def lamN : Nat → LTerm → LTerm
  | 0, b => b
  | n+1, b => .lam (lamN n b)

/-- replace every composite operator by its definition (definitions may use earlier definitions) -/
def unfoldDefs (defs : List LDef) : Nat → LTerm → LTerm
  | 0, t => t
  | n+1, .op name =>
    match defs.find? (fun d => d.name == name) with
    | some d => lamN d.arity (unfoldDefs defs n d.body)
    | none => .op name
  | n+1, .lam b => .lam (unfoldDefs defs (n+1) b)
  | n+1, .app f x => .app (unfoldDefs defs (n+1) f) (unfoldDefs defs (n+1) x)
  | _, t => t

mutual
/-- weak head normal form -/
def whnf : Nat → LTerm → Option LTerm
  | 0, _ => none
  | n+1, .app f x =>
    match whnf n f with
    | none => none
    | some (.lam b) => whnf n (LTerm.beta b x)
    | some f' => some (.app f' x)
  | _+1, t => some t
end

/-- full normal form, leftmost-outermost -/
def nf : Nat → LTerm → Option LTerm
  | 0, _ => none
  | n+1, .app f x =>
    match whnf n f with
    | none => none
    | some (.lam b) => nf n (LTerm.beta b x)
    | some f' =>
      match nf n f', nf n x with
      | some f'', some x' => some (.app f'' x')
      | _, _ => none
  | n+1, .lam b => (nf n b).map .lam
  | _+1, t => some t

/-- `primitive()` on the pure calculus -/
def primitiveL (defs : List LDef) (fuel : Nat) (t : LTerm) : Option LTerm :=
  nf fuel (unfoldDefs defs (defs.length + 1) t)

def LTerm.isLam : LTerm → Bool
  | .lam _ => true
  | _ => false

/-- no reducible application and no composite operator -/
def normalB (defs : List LDef) : LTerm → Bool
  | .op name => !(defs.any (fun d => d.name == name))
  | .lam b => normalB defs b
  | .app f x => !f.isLam && normalB defs f && normalB defs x
  | _ => true

partial def LTerm.show : LTerm → String
  | .op n => n
  | .src k => s!"s{k}"
  | .var i => s!"#{i}"
  | .lam b => "(L " ++ b.show ++ ")"
  | .app f x => "(" ++ f.show ++ " " ++ x.show ++ ")"

namespace Sexp
partial def lterm? : Sexp → Option LTerm
  | .list [.atom "op", .atom n] => some (.op n)
  | .list [.atom "src", k] => (nat? k).map .src
  | .list [.atom "var", k] => (nat? k).map .var
  | .list [.atom "lam", b] => (lterm? b).map .lam
  | .list [.atom "app", f, x] => do pure (.app (← lterm? f) (← lterm? x))
  | _ => none

def ldef? : Sexp → Option LDef
  | .list [.atom name, k, b] => do pure ⟨name, ← nat? k, ← lterm? b⟩
  | _ => none
end Sexp

end Tfv
