"""Worker for C19: run in a fresh interpreter (own PYTHONHASHSEED); builds vocabulary / expression / workflow graphs
for deterministically generated inputs and prints one canonical digest per graph as JSON."""
import sys, os, json, re, random, hashlib
HERE = os.path.dirname(os.path.dirname(os.path.abspath(__file__)))
sys.path.insert(0, HERE)
os.environ["TRANSFORGE_VERIF"] = "1"
import common
common.import_impl()
import langgen as G, exprgen as X, graphgen as GG, wfgen as W


def normalise_literal(s):
    s = re.sub(r"τ\d+", "τ", s)
    # bracketed constraint lists are sets: their order may follow the (excluded) running numbers

    def sort_list(m):
        inner = m.group(1)
        parts, depth, cur = [], 0, ""
        for ch in inner:
            if ch in "([":
                depth += 1
            if ch in ")]":
                depth -= 1
            if ch == "," and depth == 0:
                parts.append(cur.strip()); cur = ""
            else:
                cur += ch
        parts.append(cur.strip())
        return "[" + ", ".join(sorted(parts)) + "]"
    return re.sub(r"\[([^\[\]]*(?:\[[^\[\]]*\][^\[\]]*)*)\]", sort_list, s)


def digest1(g, as_sets):
    """isomorphism-invariant digest (harness/iso.py: colour refinement with sha1 signatures - NOT rdflib.compare, whose canonical form
    depends on the hash seed for some graphs) and the triples themselves, for the exact isomorphism test in the parent"""
    from rdflib import Literal, Graph
    import iso
    h = Graph()
    for s, p, o in g:
        if isinstance(o, Literal):
            o = Literal(normalise_literal(str(o)) if as_sets else re.sub(r"τ\d+", "τ", str(o)))
        h.add((s, p, o))
    triples = iso.triples_of(h)
    return iso.wl_digest(triples), len(triples), triples


def digest(g):
    """(digest with bracketed constraint lists as sets, digest with their printed order kept), the size, and the triples (printed order kept)"""
    a, n, _ = digest1(g, True)
    b, _, triples = digest1(g, False)
    return a + "/" + b, n, triples


def make_plan(seed, nlang):
    """the inputs, generated ONCE (in one interpreter) and handed to every worker: generation is by trial against the implementation, and a
    trial's verdict can depend on the iteration order of constraint sets (known finding D21, helped along by the state failed trials leave on
    shared input expressions) - workers that generated their own inputs could drift apart and compare different things (thorough seed 109)"""
    rng = random.Random(seed)
    plan = []
    for li in range(nlang):
        spec = G.gen_lang(rng, max_base=5, max_ops=2, max_arity=2)
        ops = spec.build()
        opdecls = X.gen_operators(rng, spec)
        top, bottom = rng.random() < 0.3, rng.random() < 0.3
        listed = G.gen_canon(rng, spec, max_items=3, depth=2) + [(b, ()) for b in spec.bases()]
        item = {"spec": spec.to_json(), "opdecls": [[n, s_] for n, s_ in opdecls], "top": top, "bottom": bottom, "listed": listed}
        plan.append(item)
        try:
            lang, operators = X.build_typed_language(spec, ops, opdecls, canon=listed, include_top=top, include_bottom=bottom)
        except Exception as ex:  # noqa
            item["rejected"] = type(ex).__name__
            continue
        ninputs = rng.randint(0, 2)
        trees = X.gen_typed_trees(rng, lang, spec, opdecls, ninputs, rounds=3, per_round=6)
        texts = [X.tree_text(t) for t in trees]
        wfs = [w for w in (W.gen_workflow(rng, lang, spec, opdecls) for _ in range(4)) if w]
        bits = [GG.gen_bits(rng) for _ in range(len(texts) + len(wfs) + 1)]
        item.update(ninputs=ninputs, texts=texts, wfs=wfs, bits=bits)
    return plan


def tt(x):
    return (x[0], tuple(tt(a) for a in x[1]))


def main():
    if sys.argv[1] == "plan":
        print(json.dumps(make_plan(int(sys.argv[2]), int(sys.argv[3]))))
        return
    planfile, unrelated_first, seed = sys.argv[2], sys.argv[3] == "1", int(sys.argv[4])
    from props.C03 import fix_schema
    with open(planfile) as f:
        plan = json.load(f)
    from rdflib import BNode
    from transforge.graph import TransformationGraph
    from transforge import expr as E
    out = []
    for li, item in enumerate(plan):
        spec = G.LangSpec([(n, v, p) for n, v, p in item["spec"]])
        ops = spec.build()
        opdecls = [(n, fix_schema(s_)) for n, s_ in item["opdecls"]]
        top, bottom = item["top"], item["bottom"]
        listed = [tt(t) for t in item["listed"]]
        try:
            lang, operators = X.build_typed_language(spec, ops, opdecls, canon=listed, include_top=top, include_bottom=bottom)
        except Exception as ex:  # noqa
            out.append({"what": f"lang{li}", "digest": "rejected:" + type(ex).__name__}); continue
        if "rejected" in item:
            out.append({"what": f"lang{li}", "digest": "accepted-but-planned-rejected:" + item["rejected"]}); continue
        ninputs, texts, bits = item["ninputs"], item["texts"], item["bits"]
        wfs = [{"sources": w["sources"], "apps": [tuple(a) for a in w["apps"]]} for w in item["wfs"]]
        if unrelated_first:
            # allocation history: unrelated graphs from the same language first
            for t in texts[:3]:
                try:
                    e = lang.parse(t, *[E.Source() for _ in range(ninputs)]); e.fix()
                    TransformationGraph(lang).add_expr(e, BNode())
                except Exception:  # noqa
                    pass
            junk = [object() for _ in range(random.Random(seed + li).randint(1, 2000))]
        # vocabulary (labels, signatures)
        for closure in (False, True):
            try:
                g = TransformationGraph(lang, with_canonical_types=True, with_transitive_closure=closure)
                g.add_vocabulary()
                d, n, tr = digest(g)
            except Exception as ex:  # noqa
                d, n, tr = "E:" + type(ex).__name__, 0, []
            out.append({"what": f"lang{li}/vocabulary/closure={closure}", "digest": d, "n": n, "triples": tr})
        for k, t in enumerate(texts):
            try:
                e = lang.parse(t, *[E.Source() for _ in range(ninputs)]); e.fix()
                args = {name: (b == "T") for name, b in zip(GG.SWITCHES, bits[k])}
                g = TransformationGraph(lang, **args)          # labels on (default)
                g.add_expr(e, BNode())
                d, n, tr = digest(g)
            except Exception as ex:  # noqa
                d, n, tr = "E:" + type(ex).__name__, 0, []
            out.append({"what": f"lang{li}/expr/{t}/{bits[k]}", "digest": d, "n": n, "triples": tr})
        for k, wf in enumerate(wfs):
            try:
                args = {name: (b == "T") for name, b in zip(GG.SWITCHES, bits[len(texts) + k])}
                g = TransformationGraph(lang, **args)
                g.add_workflow(W.make_dict(wf) if not unrelated_first else W.make_dict(wf, list(reversed(range(len(wf["apps"]))))))
                d, n, tr = digest(g)
            except Exception as ex:  # noqa
                d, n, tr = "E:" + type(ex).__name__, 0, []
            out.append({"what": f"lang{li}/workflow/{k}/{json.dumps(wf)}", "digest": d, "n": n, "triples": tr})
    # a fixed language whose signatures print several bounds / constraints that differ only in the variable they are about
    try:
        from transforge.type import TypeOperator, TypeSchema
        from transforge.expr import Operator
        from transforge.lang import Language
        V = TypeOperator("V"); O = TypeOperator("O", supertype=V); Rr = TypeOperator("R", params=2)
        sigs = {
            "p1": lambda x, y: V ** Rr(x, y) [x << [O], y << [O]],
            "p2": lambda x, y: x ** y ** V [O << x, O << y],
            "p3": lambda x, y, z: Rr(x, y) ** z ** V [x <= V, y <= V, z <= V],
            "p4": lambda x, y: x ** y ** Rr(x, y) [x << [O, V], y << [O, V]],
            "p5": lambda x, y, z: x ** y ** z [x << [O], y << [O], z << [V], x <= V, y <= V],
        }
        scope = dict(V=V, O=O, R=Rr)
        scope.update({k: Operator(type=f, name=k) for k, f in sigs.items()})
        plang = Language(scope=scope, namespace="https://example.com/#")
        if unrelated_first:
            for o in list(plang.operators.values()):
                str(o.type)
            junk2 = [object() for _ in range(random.Random(seed).randint(1, 3000))]
        g = TransformationGraph(plang, with_canonical_types=True)
        g.add_vocabulary()
        d, n, tr = digest(g)
    except Exception as ex:  # noqa
        d, n, tr = "E:" + type(ex).__name__, 0, []
    out.append({"what": "printlang/vocabulary", "digest": d, "n": n, "triples": tr})
    print(json.dumps(out))


if __name__ == "__main__":
    main()
