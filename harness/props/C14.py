"""C14 - type notation and type URIs round-trip, and URIs identify types uniquely."""
from __future__ import annotations
import itertools
import langgen as G

RULE = ("languages with operators of arity 0-3; canon from nested types of depth<=3 (biased to an inner compound "
        "type followed by further parameters); every canonical type: uri, parse_type_uri(uri), pairwise distinctness; "
        "random well-formed non-canonical types and malformed token sequences for the decoder; printed form re-parsed; "
        "non-trivial = compound type with a compound argument; distinct by (language, type or token list)")
ASSUMPTIONS = ["operator names are Python identifiers (no '-'), distinct, none reserved - Language.add enforces it"]
TRUSTED = ["str.split/join on '-' (modelled by String.splitOn / intercalate in the driver, compared on every case)"]


def local(uri):
    from transforge.namespace import shorten
    return shorten(uri)


def name_clash_cases(ctx):
    """URIs identify types (and operators) uniquely: `Language` strips trailing underscores from the names it is given (`in_` -> `in`), so two
    symbols whose names differ only by trailing underscores, or a symbol that becomes a reserved word, must be refused; if such a language
    is accepted its symbols must at least keep distinct URIs and round-trip through them"""
    from transforge.type import TypeOperator, TypeAlias
    from transforge.expr import Operator
    from transforge.lang import Language
    cases = []
    A, A_ = TypeOperator(), TypeOperator()
    cases.append(("types A / A_", dict(A=A, A_=A_), [A, A_]))
    B, B__ = TypeOperator(), TypeOperator()
    cases.append(("types B / B__", dict(B=B, B__=B__), [B, B__]))
    C = TypeOperator(); f, f_ = Operator(type=C ** C), Operator(type=C ** C ** C)
    cases.append(("operators f / f_", dict(C=C, f=f, f_=f_), [f, f_]))
    Top_ = TypeOperator()
    cases.append(("type Top_ (reserved word after stripping)", dict(Top_=Top_), [Top_]))
    D = TypeOperator(); F = TypeOperator(params=1); D_ = TypeAlias(F(D))
    cases.append(("type D / alias D_", dict(D=D, F=F, D_=D_), [D]))
    for what, scope, items in cases:
        ctx.evaluations += 1
        ctx.count("name_clash_cases")
        try:
            lang = Language(scope=scope, namespace="https://example.com/#")
        except (ValueError, RuntimeError):
            ctx.count("name_clash_refused")
            continue
        except Exception as ex:  # noqa
            ctx.fail(f"language with {what} raised {type(ex).__name__}", {"check": "name-clash-error"}, {"what": "name-clash", "case": what})
            continue
        uris = []
        for it in items:
            try:
                uris.append(str(lang.uri(it() if isinstance(it, TypeOperator) else it)))
            except Exception as ex:  # noqa
                uris.append("X:" + type(ex).__name__)
        bad = len(set(uris)) < len(uris) or any(u.endswith("#Top") for u in uris)
        if bad:
            ctx.fail(f"a language with {what} is accepted and gives the URIs {uris}: two symbols share a URI (or take a built-in's)",
                {"check": "name-clash-accepted"}, {"what": "name-clash", "case": what})


def run(ctx):
    name_clash_cases(ctx)
    from rdflib import URIRef
    from transforge import type as T
    from transforge.type import TypeAlias
    rng = ctx.rng
    nlang = 10 if ctx.tier == "quick" else 80
    for li in range(nlang):
        spec = G.gen_lang(rng, max_base=5, max_ops=3, max_arity=3)
        ops = spec.build()
        canon = G.gen_canon(rng, spec, max_items=3, depth=2 if ctx.tier == "quick" else 3)
        ncanon = len(canon)
        canon = G.bound_canon(spec, canon)       # depth-3 types whose closure would run to millions of types are not listed
        ctx.count("canon_items_dropped_for_size", ncanon - len(canon))
        itop, ibot = rng.random() < 0.4, rng.random() < 0.3
        lang = G.build_language(spec, ops, canon=canon, include_top=itop, include_bottom=ibot)
        ctx.setup(spec.sexp(), "ok T")
        ctx.setup("(aliases)", "ok")
        ns = str(lang.namespace)
        ctypes = sorted((G.py_to_data(t, ops) for t in lang.canon), key=repr)
        if len(ctypes) > (150 if ctx.tier == "quick" else 1500):
            ctypes = rng.sample(ctypes, 150 if ctx.tier == "quick" else 1500)
        seen = {}
        for t in ctypes:
            pt = G.ty_py(t, ops)
            nontriv = any(a[1] for a in t[1])
            try:
                u = lang.uri(pt)
                o = local(u)
            except Exception as e:  # noqa
                u, o = None, "X:" + type(e).__name__
            ctx.case(f"(uri {G.ty_sexp(t)})", o, {"lang": spec.to_json(), "op": "uri", "t": G.ty_str(t, spec)},
                nontrivial=nontriv, key=(li, "uri", t))
            if u is None:
                ctx.fail(f"uri({G.ty_str(t, spec)}) raised {o}", {"check": "uri-raises"}, {"lang": spec.to_json(), "t": t, "canon": canon, "top": itop, "bot": ibot})
                continue
            # round trip on the implementation
            try:
                back = G.py_to_data(lang.parse_type_uri(u), ops)
                ob = "ok " + G.ty_sexp(back)
            except Exception as e:  # noqa
                back, ob = None, "E:" + type(e).__name__
            ctx.case(f"(deuri {G.str_sexp(o)})", ob, {"lang": spec.to_json(), "op": "parse_type_uri", "uri": o},
                nontrivial=nontriv, key=(li, "deuri", o))
            ctx.count("roundtrip_ok" if back == t else "roundtrip_bad")
            if back != t:
                ctx.fail(f"parse_type_uri(uri({G.ty_str(t, spec)})) = {ob}", {"check": "uri-roundtrip"},
                    {"lang": spec.to_json(), "t": t, "canon": canon, "top": itop, "bot": ibot})
            if str(u) in seen and seen[str(u)] != t:
                ctx.fail(f"{G.ty_str(t, spec)} and {G.ty_str(seen[str(u)], spec)} share the URI {u}", {"check": "uri-unique"},
                    {"lang": spec.to_json(), "t": t, "t2": seen[str(u)], "canon": canon, "top": itop, "bot": ibot})
            seen[str(u)] = t
        # operator URIs distinct from each other
        uris = {}
        for i in range(len(spec.decls)):
            u = str(lang.uri(ops[i]))
            if u in uris:
                ctx.fail(f"operators {spec.name(i)} and {spec.name(uris[u])} share a URI", {"check": "op-uri-unique"}, {"lang": spec.to_json()})
            uris[u] = i
        # decoder on arbitrary well-formed types (canonical or not) and on malformed token lists
        for k in range(60 if ctx.tier == "quick" else 400):
            if rng.random() < 0.7:
                t = G.gen_ty(rng, spec, rng.randint(0, 3), allow_fun=False)
                toks = uritoks(t, spec)
                want = t
            else:
                names = [spec.name(i) for i in range(len(spec.decls)) if i != G.FUN] + ["Zz", ""]
                toks = [rng.choice(names) for _ in range(rng.randint(1, 5))]
                want = None
            s = "-".join(toks)
            try:
                back = G.py_to_data(lang.parse_type_uri(URIRef(ns + s)), ops)
                ob = "ok " + G.ty_sexp(back)
            except (KeyError, AssertionError) as e:
                back, ob = None, "E:" + type(e).__name__
            except Exception as e:  # noqa
                back, ob = None, "X:" + type(e).__name__
            ctx.case(f"(deuri {G.str_sexp(s)})", ob, {"lang": spec.to_json(), "op": "parse_type_uri", "uri": s},
                nontrivial=want is not None and any(a[1] for a in want[1]), key=(li, "deuri", s))
            ctx.count("decode_" + ob.split(" ")[0])
            if want is not None and back != want:
                ctx.fail(f"decoding {s} gives {ob}, expected {G.ty_str(want, spec)}", {"check": "uri-decode"},
                    {"lang": spec.to_json(), "t": want})
        # printed form re-parsed (non-function concrete types incl. products, Top, Bottom)
        for k in range(60 if ctx.tier == "quick" else 400):
            t = G.gen_ty(rng, spec, rng.randint(0, 3), allow_fun=False)
            if has_op(t, G.UNIT):
                continue  # Unit cannot be written in type text
            pt = G.ty_py(t, ops)
            txt = pt.text()
            nontriv = any(a[1] for a in t[1])
            # the printer and the tokens of the printed form (model: typeText / typeToks)
            ctx.case(f"(ttext {G.ty_sexp(t)})", "T " + G.str_sexp(txt), {"lang": spec.to_json(), "op": "text", "t": G.ty_str(t, spec)},
                nontrivial=nontriv, key=(li, "text", t))
            try:
                back = G.py_to_data(lang.parse_type(txt), ops)
                ob = "ok " + G.ty_sexp(back)
            except Exception as e:  # noqa
                back = "E:" + type(e).__name__
                ob = back
            ctx.case(f"(ptype {G.str_sexp(txt)})", ob, {"lang": spec.to_json(), "op": "parse_type", "text": txt},
                nontrivial=nontriv, key=(li, "ptype", txt))
            if back != t:
                ctx.fail(f"parse_type({txt!r}) = {back}", {"check": "text-roundtrip"}, {"lang": spec.to_json(), "t": t})
        # aliases, plain and parameterised
        comps = [c for c in spec.compounds(builtin=False)]
        if comps:
            body = G.gen_ty(rng, spec, 2, p_special=0.0, allow_fun=False)
            c = rng.choice(comps)
            ar = spec.arity(c)
            pos = rng.randrange(ar)
            fixed = [G.gen_ty(rng, spec, 1, p_special=0.0, allow_fun=False) for _ in range(ar)]
            plain = TypeAlias(G.ty_py(body, ops))
            param = TypeAlias(eval("lambda x: op(" + ", ".join("x" if i == pos else f"a{i}" for i in range(ar)) + ")",
                {"op": ops[c], **{f"a{i}": G.ty_py(fixed[i], ops) for i in range(ar)}}))
            lang2 = G.build_language(spec, ops, aliases={"Syn": plain, "PSyn": param})
            arg = G.gen_ty(rng, spec, 1, p_special=0.0, allow_fun=False)
            if not has_op(arg, G.UNIT) and not has_op(body, G.UNIT):
                for txt, want in (("Syn", body), (f"PSyn({G.ty_py(arg, ops).text()})", (c, tuple(arg if i == pos else fixed[i] for i in range(ar)))),
                        (f"{spec.name(c)}(" + ", ".join(["Syn"] * ar) + ")", (c, tuple([body] * ar)))):
                    try:
                        back = G.py_to_data(lang2.parse_type(txt), ops)
                    except Exception as e:  # noqa
                        back = "E:" + type(e).__name__
                    ctx.evaluations += 1
                    if back != want:
                        ctx.fail(f"alias text {txt!r} parsed to {back}, expected {G.ty_str(want, spec)}", {"check": "alias"},
                            {"lang": spec.to_json(), "text": txt})
                if not has_op(body, G.UNIT) and not any(has_op(f, G.UNIT) for f in fixed):
                    alias_context_cases(ctx, li, spec, ops, lang2, body, c, pos, fixed, ar)


def alias_context_cases(ctx, li, spec, ops, lang2, body, c, pos, fixed, ar):
    """aliases in every syntactic context: operator parameters, either operand of a product (bracketed or at top level), nested"""
    rng = ctx.rng

    def gen(depth):
        """(text, data) of a sugared type"""
        r = rng.random()
        comps = [k for k in spec.compounds(builtin=False)]
        if r < 0.2:
            return "Syn", body
        if r < 0.45:
            at, ad = gen(depth - 1) if depth > 0 else leaf()
            return f"PSyn({at})", (c, tuple(ad if i == pos else fixed[i] for i in range(ar)))
        if r < 0.65 and depth > 0:
            (at, ad), (bt, bd) = gen(depth - 1), gen(depth - 1)
            return f"({at} * {bt})", (G.PROD, (ad, bd))
        if r < 0.85 and depth > 0 and comps:
            k = rng.choice(comps)
            parts = [gen(depth - 1) for _ in range(spec.arity(k))]
            return spec.name(k) + "(" + ", ".join(p[0] for p in parts) + ")", (k, tuple(p[1] for p in parts))
        return leaf()

    def leaf():
        b = spec.bases()
        t = (rng.choice(b), ()) if b else (G.TOP, ())
        return spec.name(t[0]), t
    ctx.setup("(aliases (Syn 0 " + term_sexp(body) + ") (PSyn 1 " + term_sexp((c, tuple(('v', 0) if i == pos else fixed[i] for i in range(ar)))) + "))", "ok")
    for _ in range(25 if ctx.tier == "quick" else 120):
        txt, want = gen(2)
        if rng.random() < 0.3:
            # a product at the top level, without brackets
            (at, ad), (bt, bd) = gen(1), gen(1)
            txt, want = f"{at} * {bt}", (G.PROD, (ad, bd))
        if has_op(want, G.UNIT):
            continue
        try:
            back = G.py_to_data(lang2.parse_type(txt), ops)
            ob = "ok " + G.ty_sexp(back)
        except Exception as e:  # noqa
            back = "E:" + type(e).__name__
            ob = back
        ctx.case(f"(ptype {G.str_sexp(txt)})", ob, {"lang": spec.to_json(), "op": "parse_type with aliases", "text": txt},
            nontrivial="Syn" in txt, key=(li, "alias-ctx", txt))
        ctx.count("alias_context")
        if back != want:
            ctx.fail(f"type text {txt!r} (aliases Syn = {G.ty_str(body, spec)}, PSyn(x) = {spec.name(c)}(...x at {pos}...)) parsed to "
                     f"{back if isinstance(back, str) else G.ty_str(back, spec)}, its definition-expanded form is {G.ty_str(want, spec)}",
                {"check": "alias"}, {"lang": spec.to_json(), "text": txt})
    ctx.setup("(aliases)", "ok")


def term_sexp(t):
    if t[0] == 'v':
        return f"(v {t[1]})"
    if not t[1]:
        return f"({t[0]})"
    return "(" + str(t[0]) + " " + " ".join(term_sexp(a) for a in t[1]) + ")"


def has_op(t, o):
    return t[0] == o or any(has_op(a, o) for a in t[1])


def uritoks(t, spec):
    return [spec.name(t[0])] + [x for a in t[1] for x in uritoks(a, spec)]


def replay(ctx, payload):
    from rdflib import URIRef
    inp = payload["input"]
    if inp.get("what") == "name-clash":
        c = type("C", (), {"failures": [], "evaluations": 0, "count": lambda self, n, k=1: None,
            "fail": lambda self, d, f, r: self.failures.append(d)})()
        name_clash_cases(c)
        for d in c.failures:
            print(d)
        return not c.failures
    spec = G.LangSpec([(n, v, p) for n, v, p in inp["lang"]])
    ops = spec.build()
    tt = lambda x: (x[0], tuple(tt(a) for a in x[1]))  # noqa
    if "t" not in inp:
        print("no single-type replay for this finding")
        return True
    t = tt(inp["t"])
    canon = [tt(c) for c in inp["canon"]] if "canon" in inp else None
    lang = G.build_language(spec, ops, canon=canon, include_top=inp.get("top", False), include_bottom=inp.get("bot", False))
    s = "-".join(uritoks(t, spec))
    back = G.py_to_data(lang.parse_type_uri(URIRef(str(lang.namespace) + s)), ops)
    print(f"{G.ty_str(t, spec)} -> {s} -> {G.ty_str(back, spec)}")
    ok = back == t
    if not has_op(t, G.UNIT) and not has_op(t, G.FUN):
        back2 = G.py_to_data(lang.parse_type(G.ty_py(t, ops).text()), ops)
        print(f"text {G.ty_py(t, ops).text()!r} -> {G.ty_str(back2, spec)}")
        ok = ok and back2 == t
    return ok
