import Tfv.Proofs.SchedSoundUnify
/-!
# C18 (soundness under every schedule): the constraint machinery and the induction on the fuel

Port of `InferConstrCheck.lean` to the scheduled engine. The one place where the schedule matters:
`checkConstraintsS` walks `ord (pending ids)`; the induction needs every id it walks to be allocated, which
follows from `OrdSub ord` (the schedule only reorders or drops what it is given) and the store invariant.
-/
namespace Tfv.C18S
open Tfv Tfv.C03P Tfv.C03C

variable {ord : List Nat → List Nat}

def CheckListCO (L : Lang) (ord : List Nat → List Nat) (n : Nat) : Prop :=
  ∀ σ v cs σ', OkStoreC L σ → (∀ c, c ∈ cs → c < σ.constrs.length) →
    checkListS L ord n σ v cs = .ok σ' → StepC L σ σ'

def FulfillCO (L : Lang) (ord : List Nat → List Nat) (n : Nat) : Prop :=
  ∀ σ c σ' d, OkStoreC L σ → c < σ.constrs.length → fulfillS L ord n σ c = .ok (σ', d) → StepC L σ σ'

def MinimizeCO (L : Lang) (ord : List Nat → List Nat) (n : Nat) : Prop :=
  ∀ σ c σ', OkStoreC L σ → c < σ.constrs.length → minimizeS L ord n σ c = .ok σ' → StepC L σ σ'

def MinLoopCO (L : Lang) (ord : List Nat → List Nat) (n : Nat) : Prop :=
  ∀ σ alts mins σ' out, OkStoreC L σ → okTermL L σ alts = true → okTermL L σ mins = true →
    minLoopS L ord n σ alts mins = .ok (σ', out) → StepC L σ σ' ∧ okTermL L σ' out = true

/-! ## 1. `checkConstraints`, `checkList` -/

theorem check_stepCO {L : Lang} {n : Nat} (hord : OrdSub ord) (hlist : CheckListCO L ord n) : CheckCO L ord (n+1) := by
  intro σ v σ' okc h
  unfold checkConstraintsS at h
  exact hlist σ v _ σ' okc (fun c hc => okc.crange.get (hord _ _ hc)) h

theorem checkList_stepCO {L : Lang} {n : Nat} (hful : FulfillCO L ord n) (hlist : CheckListCO L ord n) :
    CheckListCO L ord (n+1) := by
  intro σ v cs σ' okc hcs h
  cases cs with
  | nil =>
    unfold checkListS at h
    injection h with h; subst h; exact StepC.refl okc
  | cons c cs =>
    unfold checkListS at h
    split at h
    · cases h
    · next σ1 done h1 =>
      have s1 := hful σ c σ1 done okc (hcs c List.mem_cons_self) h1
      have hcs1 : ∀ d, d ∈ cs → d < σ1.constrs.length := fun d hd =>
        Nat.lt_of_lt_of_le (hcs d (List.mem_cons_of_mem _ hd)) s1.clen
      simp only [] at h
      cases done with
      | false =>
        simp only [Bool.false_eq_true, if_false] at h
        exact s1.trans (hlist σ1 v cs σ' s1.ok hcs1 h)
      | true =>
        simp only [if_true] at h
        have s2 : StepC L σ1 (setCset σ1 (getVar σ1 v).cset
            ((getCset σ1 (getVar σ1 v).cset).filter (· != c))) :=
          stepC_setCset s1.ok _ (fun d hd => s1.ok.crange.get (List.mem_filter.mp hd).1)
        exact s1.trans (s2.trans (hlist _ v cs σ' s2.ok hcs1 h))


theorem fulfill_stepCO {L : Lang} (wf : WF L) {n : Nat} (hunify : UnifyCO L ord n) (hmin : MinimizeCO L ord n) :
    FulfillCO L ord (n+1) := by
  intro σ c σ' d okc hc h
  unfold fulfillS at h
  split at h
  · next ref tgt s0 f0 e0 =>
    have hterms := okc.cget hc
    rw [e0, constrTerms_sub] at hterms
    obtain ⟨hr, hterms2⟩ := okTermL_cons.mp hterms
    obtain ⟨htg, _⟩ := okTermL_cons.mp hterms2
    split at h
    · cases h
    · next σ1 h1 =>
      obtain ⟨s1, _⟩ := hunify σ ref tgt true false σ1 okc hr htg h1
      have hc1 : c < σ1.constrs.length := Nat.lt_of_lt_of_le hc s1.clen
      split at h
      · next hm3 =>
        split at h
        · next r t s f e1 =>
          injection h with h
          injection h with h2 h3
          subst h2
          have hx := s1.ok.cget hc1
          rw [e1, constrTerms_sub] at hx
          obtain ⟨f', e1'⟩ := s1.subkeep c ref tgt s0 f0 hc e0
          rw [e1] at e1'
          injection e1' with er et es _
          subst er; subst et; subst es
          refine s1.trans (stepC_setConstr s1.ok hc1 (x := .sub r t s true) hx ?_ ?_)
          · intro r' t' s' f'' h'
            rw [e1] at h'
            injection h' with a1 a2 a3 _
            exact ⟨true, by rw [a1, a2, a3]⟩
          · intro nw r' t' s' h'
            injection h' with a1 a2 a3 _
            subst a1; subst a2
            exact Or.inr (fun ρ hρ => match3_true_sound wf s1.ok.ok nw _ r t (s1.okTerm hr) (s1.okTerm htg) hm3 ρ hρ)
        · injection h with h
          injection h with h2 h3
          subst h2; exact s1
      · cases h
      · split at h
        · injection h with h
          injection h with h2 h3
          subst h2; exact s1
        · injection h with h
          injection h with h2 h3
          subst h2; exact s1
  · injection h with h
    injection h with h2 h3
    subst h2; exact StepC.refl okc
  · split at h
    · cases h
    · next σ1 h1 =>
      have s1 := hmin σ c σ1 okc hc h1
      have hc1 : c < σ1.constrs.length := Nat.lt_of_lt_of_le hc s1.clen
      split at h
      · next ref alts ful e1 =>
        have hx := s1.ok.cget hc1
        rw [e1, constrTerms_elim] at hx
        obtain ⟨hr, halts⟩ := okTermL_cons.mp hx
        simp only [] at h
        have h := ite_error_inv h
        · split at h
          · cases h
          · next only e2 =>
            have honly : okTerm L σ1 only = true := by
              have hm : only ∈ [only] := List.mem_cons_self
              rw [← e2] at hm
              exact okTermL_iff.mp halts only (List.mem_filter.mp hm).1
            have s2 : StepC L σ1 (setConstr σ1 c (.elim ref [only] true)) :=
              stepC_setConstr s1.ok hc1 (by
                rw [constrTerms_elim]
                exact okTermL_cons.mpr ⟨hr, okTermL_single honly⟩)
                (fun r' t' s' f' h' => by rw [e1] at h'; cases h') (fun _ r' t' s' h' => by cases h')
            rw [e2] at h
            split at h
            · cases h
            · next σ3 h3 =>
              injection h with h
              injection h with h4 h5
              subst h4
              obtain ⟨s3, _⟩ := hunify _ ref only false false σ3 s2.ok (s2.okTerm hr) (s2.okTerm honly) h3
              exact s1.trans (s2.trans s3)
          · injection h with h
            injection h with h4 h5
            subst h4
            exact s1.trans (stepC_setConstr s1.ok hc1 (by
              rw [constrTerms_elim]
              exact okTermL_cons.mpr ⟨hr, okTermL_filter _ halts⟩)
              (fun r' t' s' f' h' => by rw [e1] at h'; cases h') (fun _ r' t' s' h' => by cases h'))
      · cases h

/-! ## 3. `minimize`, `minLoop` -/

theorem minimize_stepCO {L : Lang} {n : Nat} (hloop : MinLoopCO L ord n) : MinimizeCO L ord (n+1) := by
  intro σ c σ' okc hc h
  unfold minimizeS at h
  split at h
  · next ref alts f0 e0 =>
    have hx := okc.cget hc
    rw [e0, constrTerms_elim] at hx
    obtain ⟨hr, halts⟩ := okTermL_cons.mp hx
    split at h
    · cases h
    · next σ1 minimized h1 =>
      obtain ⟨s1, hmin⟩ := hloop σ alts [] σ1 minimized okc halts okTermL_nil h1
      split at h
      · next r1 a1 ful e1 =>
        injection h with h; subst h
        exact s1.trans (stepC_setConstr s1.ok (Nat.lt_of_lt_of_le hc s1.clen) (by
          rw [constrTerms_elim]
          exact okTermL_cons.mpr ⟨okTerm_followT s1.ok.ok _ (s1.okTerm hr),
            okTermL_map_followT s1.ok.ok hmin⟩)
          (fun r' t' s' f' h' => by rw [e1] at h'; cases h') (fun _ r' t' s' h' => by cases h'))
      · injection h with h; subst h; exact s1
  · injection h with h; subst h; exact StepC.refl okc

theorem minLoop_stepCO {L : Lang} {n : Nat} (hfix : FixCO L ord n) (hloop : MinLoopCO L ord n) :
    MinLoopCO L ord (n+1) := by
  intro σ alts mins σ' out okc halts hmins h
  cases alts with
  | nil =>
    unfold minLoopS at h
    injection h with h
    injection h with h1 h2
    subst h1; subst h2
    exact ⟨StepC.refl okc, hmins⟩
  | cons obj rest =>
    obtain ⟨hobj, hrest⟩ := okTermL_cons.mp halts
    have hobj' := okTerm_followT okc.ok obj hobj
    unfold minLoopS at h
    simp only [] at h
    split at h
    · split at h
      · cases h
      · next σ1 t h1 =>
        obtain ⟨s1, ht, _⟩ := hfix σ _ true σ1 t okc hobj' h1
        obtain ⟨s2, hout⟩ := hloop σ1 rest _ σ' out s1.ok (s1.okTermL hrest)
          (okTermL_append (s1.okTermL (minFold_ok hobj' _ _ mins hmins)) (okTermL_single ht)) h
        exact ⟨s1.trans s2, hout⟩
    · refine hloop σ rest _ σ' out okc hrest ?_ h
      exact minFold_ok hobj' _ _ mins hmins

/-! ## 4. the induction on the fuel -/

theorem all_soundCO {L : Lang} (wf : WF L) (hord : OrdSub ord) : ∀ n,
    UnifyCO L ord n ∧ UnifyListCO L ord n ∧ BindCO L ord n ∧ AboveCO L ord n ∧ BelowCO L ord n ∧ FixCO L ord n ∧ FixListCO L ord n ∧
    CheckCO L ord n ∧ CheckListCO L ord n ∧ FulfillCO L ord n ∧ MinimizeCO L ord n ∧ MinLoopCO L ord n
  | 0 => by
    refine ⟨?_, ?_, ?_, ?_, ?_, ?_, ?_, ?_, ?_, ?_, ?_, ?_⟩
    · intro σ a b sb sw σ' _ _ _ h; unfold unifyS at h; cases h
    · intro σ vs xs ys sb sw σ' _ _ _ _ _ h; unfold unifyListS at h; cases h
    · intro σ v t σ' _ _ _ _ h; unfold bindS at h; cases h
    · intro σ v new σ' _ _ _ _ h; unfold aboveS at h; cases h
    · intro σ v new σ' _ _ _ _ h; unfold belowS at h; cases h
    · intro σ t pl σ' t' _ _ h; unfold fixS at h; cases h
    · intro σ vs ps pl σ' _ _ h; unfold fixListS at h; cases h
    · intro σ v σ' _ h; unfold checkConstraintsS at h; cases h
    · intro σ v cs σ' _ _ h; unfold checkListS at h; cases h
    · intro σ c σ' d _ _ h; unfold fulfillS at h; cases h
    · intro σ c σ' _ _ h; unfold minimizeS at h; cases h
    · intro σ alts mins σ' out _ _ _ h; unfold minLoopS at h; cases h
  | n+1 => by
    obtain ⟨h1, h2, h3, h4, h5, h6, h7, h8, h9, h10, h11, h12⟩ := all_soundCO wf hord n
    exact ⟨unify_stepCO wf h1 h2 h3 h4 h5, unifyList_stepCO h1 h2, bind_stepCO wf h1 h8,
      above_stepCO wf h3 h8, below_stepCO wf h3 h8, fix_stepCO h3 h7, fixList_stepCO h6 h7,
      check_stepCO hord h9, checkList_stepCO h10 h9, fulfill_stepCO wf h1 h11, minimize_stepCO h12,
      minLoop_stepCO h6 h12⟩

end Tfv.C18S
