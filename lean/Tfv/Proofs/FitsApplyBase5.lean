import Tfv.Proofs.FitsApplyBase4
/-!
# C06 end to end, nullary argument, part 5: the clauses of the property (base type, `Bottom`, `Top`)
-/
namespace Tfv.C06B
open Tfv Tfv.C03P Tfv.C03C Tfv.C16P Tfv.C17E Tfv.C03R Tfv.C06A Tfv.C05P

/-! ## a base type other than `Top`, `Bottom` -/

theorem accept_iff_fit_base {L : Lang} (wf : WF L) (N : Nat) (r : Term) (ts : List Ty) (ao : Nat) (fixFlag : Bool)
    (h0 : arityOf L ao = 0) (hb : ao ≠ BOT) (ht : ao ≠ TOP) (ha : antichain L ts = true) (h2 : 2 ≤ ts.length)
    (hd : ∀ t ∈ ts, Ty.depth t < 64) (hwa : wfTy L (.app ao []) = true) (hwt : ∀ t ∈ ts, wfTy L t = true)
    (hN : fuelFor r ts (.app ao []) ≤ N) :
    (∃ σ' res, runAll L N fixFlag (elimSchema r ts) [(Ty.app ao []).toTerm] = .ok (σ', res)) ↔
      ∃ t ∈ ts, Fits L (.app ao []) t.toTerm := by
  rw [← filter_ne_nil_iff wf hwa hwt]
  rcases filter_cases wf h0 hb ha with hk | ⟨t, hk⟩
  · rw [runAll_base_none L wf N r ts ao fixFlag h0 hb ht ha h2 hd hN hk, hk]
    constructor
    · rintro ⟨_, _, h⟩; cases h
    · intro h; exact absurd rfl h
  · rw [runAll_base_one L wf N r ts ao fixFlag t h0 hb ht ha h2 hd hN hk, hk]
    exact ⟨fun _ => List.cons_ne_nil _ _, fun _ => ⟨_, _, rfl⟩⟩

/-- the same in the declared order of the operators: some alternative is `Top` or a base type above the argument -/
theorem accept_iff_above {L : Lang} (wf : WF L) (N : Nat) (r : Term) (ts : List Ty) (ao : Nat) (fixFlag : Bool)
    (h0 : arityOf L ao = 0) (hb : ao ≠ BOT) (ht : ao ≠ TOP) (ha : antichain L ts = true) (h2 : 2 ≤ ts.length)
    (hd : ∀ t ∈ ts, Ty.depth t < 64) (hN : fuelFor r ts (.app ao []) ≤ N) :
    (∃ σ' res, runAll L N fixFlag (elimSchema r ts) [(Ty.app ao []).toTerm] = .ok (σ', res)) ↔
      ∃ t ∈ ts, C06B.hd t = TOP ∨ (arityOf L (C06B.hd t) = 0 ∧ opSub L ao (C06B.hd t) = true) := by
  have hiff : (∃ t ∈ ts, C06B.hd t = TOP ∨ (arityOf L (C06B.hd t) = 0 ∧ opSub L ao (C06B.hd t) = true)) ↔
      ts.filter (fun t => sub L (.app ao []) t) ≠ [] := by
    rw [← filter_above_eq_sub wf h0 hb]
    constructor
    · rintro ⟨t, h1, h3⟩ e
      have : t ∈ ts.filter (aboveB L ao) := List.mem_filter.mpr ⟨h1, by simpa [aboveB] using h3⟩
      rw [e] at this; cases this
    · intro h
      obtain ⟨t, ht'⟩ := List.exists_mem_of_ne_nil _ h
      obtain ⟨h1, h3⟩ := List.mem_filter.mp ht'
      exact ⟨t, h1, by simpa [aboveB] using h3⟩
  rw [hiff]
  rcases filter_cases wf h0 hb ha with hk | ⟨t, hk⟩
  · rw [runAll_base_none L wf N r ts ao fixFlag h0 hb ht ha h2 hd hN hk, hk]
    constructor
    · rintro ⟨_, _, h⟩; cases h
    · intro h; exact absurd rfl h
  · rw [runAll_base_one L wf N r ts ao fixFlag t h0 hb ht ha h2 hd hN hk, hk]
    exact ⟨fun _ => List.cons_ne_nil _ _, fun _ => ⟨_, _, rfl⟩⟩

theorem reject_is_violation_base {L : Lang} (wf : WF L) (N : Nat) (r : Term) (ts : List Ty) (ao : Nat) (fixFlag : Bool)
    (h0 : arityOf L ao = 0) (hb : ao ≠ BOT) (ht : ao ≠ TOP) (ha : antichain L ts = true) (h2 : 2 ≤ ts.length)
    (hd : ∀ t ∈ ts, Ty.depth t < 64) (hwa : wfTy L (.app ao []) = true) (hwt : ∀ t ∈ ts, wfTy L t = true)
    (hN : fuelFor r ts (.app ao []) ≤ N) (hno : ∀ t ∈ ts, ¬ Fits L (.app ao []) t.toTerm) :
    runAll L N fixFlag (elimSchema r ts) [(Ty.app ao []).toTerm] = .error .constraintViolation := by
  have hnil : ts.filter (fun t => sub L (.app ao []) t) = [] := by
    cases hf : ts.filter (fun t => sub L (.app ao []) t) with
    | nil => rfl
    | cons x xs =>
      obtain ⟨t, h1, h3⟩ := (filter_ne_nil_iff wf hwa hwt).mp (by rw [hf]; exact List.cons_ne_nil _ _)
      exact absurd h3 (hno t h1)
  exact runAll_base_none L wf N r ts ao fixFlag h0 hb ht ha h2 hd hN hnil

/-- under an antichain at most one alternative is above a base type: "several fits" does not happen -/
theorem at_most_one_base {L : Lang} (wf : WF L) (ts : List Ty) (ao : Nat) (h0 : arityOf L ao = 0) (hb : ao ≠ BOT)
    (ha : antichain L ts = true) : (ts.filter (fun t => sub L (.app ao []) t)).length ≤ 1 := by
  rcases filter_cases wf h0 hb ha with hk | ⟨t, hk⟩ <;> rw [hk] <;> simp

theorem inert_σFin (L : Lang) (ao : Nat) (t : Ty) (r : Term) (c : Bool) (b : Nat) (hs : finS L ao (hd t) r c = some b) :
    Inert (σFin L ao t r c) (.app b []) ∧ (getVar (σFin L ao t r c) 0).bound = some (Ty.app b []).toTerm := by
  have hb0 : (getVar (σFin L ao t r c) 0).bound = some (Ty.app b []).toTerm := by
    rw [Tfv.toTerm_app, Ty.toTermL]
    unfold σFin
    rw [getVar_σX, hs]
    rfl
  refine ⟨fun v => ?_, hb0⟩
  cases v with
  | zero => exact Or.inr hb0
  | succ v => exact Or.inl ⟨rfl, rfl, rfl⟩

theorem unique_fit_base {L : Lang} (wf : WF L) (N : Nat) (r : Term) (ts : List Ty) (ao : Nat) (fixFlag : Bool) (t : Ty)
    (h0 : arityOf L ao = 0) (hb : ao ≠ BOT) (ht : ao ≠ TOP) (ha : antichain L ts = true) (h2 : 2 ≤ ts.length)
    (hd : ∀ t ∈ ts, Ty.depth t < 64) (hwa : wfTy L (.app ao []) = true) (hwt : ∀ t ∈ ts, wfTy L t = true)
    (hr : ∀ v ∈ r.vars, v = 0) (hN : fuelFor r ts (.app ao []) ≤ N)
    (hu : ts.filter (fun t => sub L (.app ao []) t) = [t]) :
    ∃ σ' res, runAll L N fixFlag (elimSchema r ts) [(Ty.app ao []).toTerm] = .ok (σ', res) ∧
      getVar σ' 0 = recS ao (upOf (C06B.hd t)) (finS L ao (C06B.hd t) r (fixFlag && !C06A.isFunT r)) ∧
      getConstr σ' 0 = .elim (.var 0) [t.toTerm] true ∧
      getCset σ' (getVar σ' 0).cset = [] ∧
      t ∈ ts ∧ Sub L (.app ao []) t ∧
      (∀ b, finS L ao (C06B.hd t) r (fixFlag && !C06A.isFunT r) = some b → Res σ' res (r.inst (fun _ => .app b []))) := by
  have hmem : t ∈ ts.filter (fun t => sub L (.app ao []) t) := by rw [hu]; exact List.mem_cons_self
  obtain ⟨h1, h3⟩ := List.mem_filter.mp hmem
  refine ⟨_, _, runAll_base_one L wf N r ts ao fixFlag t h0 hb ht ha h2 hd hN hu, rfl, rfl, rfl, h1,
    (sub_iff_Sub wf hwa (hwt t h1)).mp h3, fun b hs => ?_⟩
  obtain ⟨hi, hb0⟩ := inert_σFin L ao t r _ b hs
  exact res_result hi hb0 r hr (fixFlag && !C06A.isFunT r)

/-! ## when does `fix` bind `x` to the argument: every visited occurrence of `x` is covariant -/

mutual
/-- every occurrence of `x` that `fix` visits is in a covariant position -/
def posB (L : Lang) : Bool → Term → Bool
  | pl, .var v => v != 0 || pl
  | pl, .app o args => posBL L pl (varianceOf L o) args
def posBL (L : Lang) : Bool → List Bool → List Term → Bool
  | pl, v :: vs, t :: ts => posB L (if v then pl else !pl) t && posBL L pl vs ts
  | _, _, _ => true
end

mutual
/-- `fix` visits an occurrence of `x` -/
def visB (L : Lang) : Term → Bool
  | .var v => v == 0
  | .app o args => visBL L (varianceOf L o) args
def visBL (L : Lang) : List Bool → List Term → Bool
  | _ :: vs, t :: ts => visB L t || visBL L vs ts
  | _, _ => false
end

mutual
theorem fixS_some (L : Lang) (ao : Nat) (up : Option Nat) (b : Nat) : ∀ (t : Term) (pl : Bool),
    fixS L ao up pl t (some b) = some b
  | .var v, pl => by rw [fixS]; split <;> rfl
  | .app o args, pl => by rw [fixS]; exact fixSL_some L ao up b args _ pl
theorem fixSL_some (L : Lang) (ao : Nat) (up : Option Nat) (b : Nat) : ∀ (ts : List Term) (vs : List Bool) (pl : Bool),
    fixSL L ao up pl vs ts (some b) = some b
  | [], vs, pl => by rw [fixSL]; intro _ _ _ _ _ h; cases h
  | t :: ts, [], pl => by rw [fixSL]; intro _ _ _ _ h; cases h
  | t :: ts, v :: vs, pl => by rw [fixSL, fixS_some L ao up b t]; exact fixSL_some L ao up b ts vs pl
end

mutual
theorem fixS_pos (L : Lang) (ao : Nat) (up : Option Nat) : ∀ (t : Term) (pl : Bool), posB L pl t = true →
    fixS L ao up pl t none = if visB L t then some ao else none
  | .var v, pl, h => by
    rw [posB] at h
    rw [fixS, visB]
    cases hv : (v == 0)
    · rfl
    · have : pl = true := by
        have e : v = 0 := by simpa using hv
        subst e; simpa using h
      subst this; rfl
  | .app o args, pl, h => by
    rw [posB] at h
    rw [fixS, visB]
    exact fixSL_pos L ao up args _ pl h
theorem fixSL_pos (L : Lang) (ao : Nat) (up : Option Nat) : ∀ (ts : List Term) (vs : List Bool) (pl : Bool),
    posBL L pl vs ts = true → fixSL L ao up pl vs ts none = if visBL L vs ts then some ao else none
  | [], vs, pl, _ => by cases vs <;> simp [fixSL, visBL]
  | t :: ts, [], pl, _ => by simp [fixSL, visBL]
  | t :: ts, v :: vs, pl, h => by
    rw [posBL, Bool.and_eq_true] at h
    rw [fixSL, visBL, fixS_pos L ao up t _ h.1]
    cases visB L t
    · simp only [Bool.false_eq_true, if_false, Bool.false_or]
      exact fixSL_pos L ao up ts vs pl h.2
    · simp only [if_true, Bool.true_or]
      exact fixSL_some L ao up ao ts vs pl
end

/-- `x` occurs covariantly (and is visited): after `fix` it is bound to the ARGUMENT -/
theorem finS_pos (L : Lang) (ao bo : Nat) (r : Term) (hp : posB L true r = true) (hv : visB L r = true) :
    finS L ao bo r true = some ao := by
  unfold finS
  simp only [if_true]
  unfold st0
  split
  · exact fixS_some L ao _ ao r true
  · rw [fixS_pos L ao _ r true hp, hv]; rfl

/-! ## the argument `Bottom` -/

theorem σ0_inert (alts : List Term) : Inert (σ0 alts) (.app 0 []) := fun v => Or.inl (σ0_free alts v)

theorem resTerm_σ0 (alts : List Term) (r : Term) : resTerm (σ0 alts) r = r := by
  cases r with
  | var v => exact C16P.followT_unbound (σ0_free alts v).1
  | app o args => rfl

theorem applyT_bottom (L : Lang) (m : Nat) (r : Term) (alts : List Term) (fixFlag : Bool) (hm : 2 * tsz r ≤ m + 1) :
    applyT L (m+1) (σ0 alts) (.app FUN [.var 0, r]) (Ty.app BOT []).toTerm fixFlag = .ok (σ0 alts, r) := by
  unfold applyT
  rw [Tfv.followT_app, followT_toTerm, Tfv.toTerm_app]
  simp only [beq_self_eq_true, if_true]
  rw [unify, Tfv.followT_app, C16P.followT_unbound rfl]
  simp only [beq_self_eq_true, if_true]
  have hf : fix L (m+1) (σ0 alts) r true = .ok (σ0 alts, r) := by
    rw [fix_inert (σ0_inert alts) (m+1) r true (by rw [size_base]; omega), resTerm_σ0]
  cases r with
  | var v => simp only [Bool.not_false, Bool.and_true]; cases fixFlag <;> simp [hf]
  | app o args => simp only []; split <;> first | exact hf | rfl

theorem runAll_bottom (L : Lang) (N : Nat) (r : Term) (ts : List Ty) (fixFlag : Bool)
    (ha : antichain L ts = true) (h2 : 2 ≤ ts.length) (hd : ∀ t ∈ ts, Ty.depth t < 64)
    (hN : fuelFor r ts (.app BOT []) ≤ N) :
    runAll L N fixFlag (elimSchema r ts) [(Ty.app BOT []).toTerm] = .ok (σ0 (Ty.toTermL ts), r) := by
  unfold fuelFor at hN
  rw [size_base, Nat.mul_one] at hN
  obtain ⟨m, rfl⟩ : ∃ m, N = m + 2 := ⟨N - 2, by omega⟩
  unfold runAll
  rw [instantiate_elimSchema L m r ts ha h2 hd (by omega)]
  simp only []
  rw [applyAll, applyT_bottom L (m+1) r _ fixFlag (by omega)]
  simp only []
  rw [applyAll]

theorem sub_bottom (L : Lang) (t : Ty) : sub L (.app BOT []) t = true := by
  cases t with
  | app b bs => unfold sub; rw [matchC]; simp

end Tfv.C06B
