import Tfv.Proofs.VocabSpec
/-!
# `addType` (and `addSupertypesRec`) keep the vocabulary invariant and only write descriptions and link triples
-/
namespace Tfv.Voc
open Tfv Tfv.Tax

/-- a fold with a state invariant `Inv`, a reflexive-transitive relation `R` between states and a per-element
result `D` that `R` preserves -/
theorem foldlM_inv {α ε : Type} (f : GState → α → Except ε GState) (R : GState → GState → Prop) (D : α → GState → Prop)
    (Inv : GState → Prop) (hrefl : ∀ g, R g g) (htrans : ∀ g1 g2 g3, R g1 g2 → R g2 g3 → R g1 g3)
    (hD : ∀ s g g', D s g → R g g' → D s g') (l : List α)
    (hstep : ∀ g s g1, s ∈ l → Inv g → f g s = .ok g1 → Inv g1 ∧ R g g1 ∧ D s g1) :
    ∀ g g', Inv g → l.foldlM f g = .ok g' → Inv g' ∧ R g g' ∧ ∀ s ∈ l, D s g' := by
  induction l with
  | nil =>
    intro g g' hi h
    simp only [List.foldlM_nil, pure, Except.pure, Except.ok.injEq] at h
    subst h
    exact ⟨hi, hrefl g, fun _ hs => by cases hs⟩
  | cons s l ih =>
    intro g g' hi h
    simp only [List.foldlM_cons] at h
    cases hx : f g s with
    | error e => rw [hx] at h; cases h
    | ok g1 =>
      rw [hx] at h
      obtain ⟨i1, r1, d1⟩ := hstep g s g1 List.mem_cons_self hi hx
      obtain ⟨i2, r2, d2⟩ := ih (fun g s g1 hs => hstep g s g1 (List.mem_cons_of_mem _ hs)) g1 g' i1 h
      refine ⟨i2, htrans _ _ _ r1 r2, ?_⟩
      intro s' hs'
      rcases List.mem_cons.1 hs' with rfl | hs'
      · exact hD _ _ _ d1 r2
      · exact d2 s' hs'

/-- only link triples are added, nothing is registered -/
structure TExt (G : GLang) (g g' : GState) : Prop where
  nodes : g'.typeNodes = g.typeNodes
  old : ∀ tr, tr ∈ g.triples → tr ∈ g'.triples
  new : ∀ tr, tr ∈ g'.triples → tr ∈ g.triples ∨ LinkTr G tr

theorem TExt.refl (G : GLang) (g : GState) : TExt G g g := ⟨rfl, fun _ h => h, fun _ h => .inl h⟩

theorem TExt.trans {G : GLang} {g1 g2 g3 : GState} (h1 : TExt G g1 g2) (h2 : TExt G g2 g3) : TExt G g1 g3 := by
  refine ⟨by rw [h2.nodes, h1.nodes], fun tr h => h2.old tr (h1.old tr h), ?_⟩
  intro tr h
  rcases h2.new tr h with h | h
  · exact h1.new tr h
  · exact .inr h

theorem TExt.add {G : GLang} (g : GState) (tr : Triple) (h : LinkTr G tr) : TExt G g (g.add tr) := by
  refine ⟨add_typeNodes g tr, fun _ hm => mem_add.2 (.inl hm), ?_⟩
  intro u hu
  rcases mem_add.1 hu with hu | rfl
  · exact .inl hu
  · exact .inr h

theorem TExt.ext {G : GLang} {g g' : GState} (h : TExt G g g') (b : Nat) : Ext g g' b :=
  Ext.of_triples b h.nodes h.old

theorem TExt.L {G : GLang} {g g' : GState} (h : TExt G g g') : g'.L = g.L := L_congr h.nodes

theorem TExt.newOk {G : GLang} {c : GCfg} {g g' : GState} (h : TExt G g g') : NewOk G c g g' (fun _ => False) := by
  intro tr htr
  rcases h.new tr htr with h | h
  · exact .inl h
  · exact .inr (.inr (.inl h))

theorem mem_of_memTy {t : Ty} {l : List Ty} (h : memTy t l = true) : t ∈ l := (memTy_iff t l).1 h

/-- `add_supertypes(t, recursive=True)` for a canonical `t` -/
theorem addSupertypesRec_voc (G : GLang) (c : GCfg) : ∀ (k : Nat) (g : GState) (t : Ty) (g' : GState),
    addSupertypesRec G k g t = .ok g' → t ∈ G.canon → VInv G c g → VInv G c g' ∧ TExt G g g' := by
  intro k
  induction k with
  | zero =>
    intro g t g' h _ hi
    simp only [addSupertypesRec, Except.ok.injEq] at h
    subst h; exact ⟨hi, TExt.refl G g⟩
  | succ k ih =>
    intro g t g' h htc hi
    rw [addSupertypesRec] at h
    split at h
    · simp only [Except.ok.injEq] at h; subst h; exact ⟨hi, TExt.refl G g⟩
    · split at h
      · cases h
      · rename_i ref href
        simp only [] at h
        split at h
        · cases h
        · rename_i g1 hfold
          simp only [Except.ok.injEq] at h
          subst h
          have hf := foldlM_inv _ (TExt G) (fun (s : Ty) (gg : GState) => ∀ sn, typeUri G s.toTerm = .ok sn →
              (ref, subClassOf, sn) ∈ gg.triples) (VInv G c) (TExt.refl G) (fun _ _ _ => TExt.trans)
            (fun s ga gb hd hr sn hsn => hr.old _ (hd sn hsn)) _ (by
              intro ga s gb hs hia hstep
              have hs' : s ∈ langSucc G.types G.cfg G.canon (G.canon.length + 2) true t false := (mem_dedupTy _ _).1 hs
              split at hstep
              · cases hstep
              · rename_i sn hsn
                have hlink : LinkTr G (ref, subClassOf, sn) := .up htc hs' href hsn
                obtain ⟨i2, r2⟩ := ih _ _ _ hstep (mem_of_memTy (langSucc_canon _ _ _ _ _ _ _ _ hs')) (hia.add _)
                refine ⟨i2, (TExt.add ga _ hlink).trans r2, ?_⟩
                intro sn' hsn'
                rw [hsn] at hsn'; cases hsn'
                exact r2.old _ (mem_add.2 (.inr rfl))) g g1 hi hfold
          obtain ⟨i1, r1, d1⟩ := hf
          constructor
          · refine ⟨i1.node, i1.complete, i1.params, ?_⟩
            intro t' ht' u a b hu ha hb
            rcases List.mem_append.1 ht' with ht' | ht'
            · exact i1.sup t' ht' u a b hu ha hb
            · rw [List.mem_singleton.1 ht'] at hu ha
              rw [href] at ha; cases ha
              exact d1 u ((mem_dedupTy _ _).2 hu) b hb
          · exact ⟨r1.nodes, r1.old, r1.new⟩

/-- the state after the body of `addType` for a new type `x` with node `n`, before `x` is registered -/
structure Ready (G : GLang) (c : GCfg) (g : GState) (x : Term) (n : Node) (gb : GState) : Prop where
  inv : VInv G c gb
  ext : Ext g gb (sizeOf x)
  cls : c.withClasses = true → (n, Node.rdf "type", Node.tf "Type") ∈ gb.triples
  op : ∀ o args, x = .app o args → arityOf G.types o > 0 → c.withTypeParameters = true →
    (n, subClassOf, opUri G o) ∈ gb.triples ∧
      ∀ j p, args[j]? = some p → ∃ pn, gb.L p = some pn ∧ (n, paramPred (j + 1), pn) ∈ gb.triples
  new : ∀ tr, tr ∈ gb.triples → tr ∈ g.triples ∨ Described G c gb tr ∨ LinkTr G tr ∨ TyDesc G c gb.L x n tr

theorem Ready.pass {G : GLang} {c : GCfg} {g : GState} {x : Term} {n : Node} {gb gc : GState}
    (h : Ready G c g x n gb) (hi : VInv G c gc) (hr : TExt G gb gc) : Ready G c g x n gc := by
  have hL := hr.L
  refine ⟨hi, h.ext.trans (hr.ext _), fun hc => hr.old _ (h.cls hc), ?_, ?_⟩
  · intro o args hx ha htp
    obtain ⟨h1, h2⟩ := h.op o args hx ha htp
    refine ⟨hr.old _ h1, ?_⟩
    intro j p hj
    obtain ⟨pn, hp, ht⟩ := h2 j p hj
    exact ⟨pn, by rw [hL]; exact hp, hr.old _ ht⟩
  · intro tr htr
    rcases hr.new tr htr with htr | htr
    · rcases h.new tr htr with h1 | h1 | h1 | h1
      · exact .inl h1
      · exact .inr (.inl (h1.mono (fun x n hx => by rw [hL]; exact hx)))
      · exact .inr (.inr (.inl h1))
      · exact .inr (.inr (.inr (by rw [hL]; exact h1)))
    · exact .inr (.inr (.inl htr))

/-- registering the new type -/
theorem Ready.finish {G : GLang} {c : GCfg} {g : GState} {x : Term} {n : Node} {gc : GState}
    (h : Ready G c g x n gc) (hlx : g.L x = none) (hn : NodeOk G c x n) (hfc : FromCanon G c x) :
    VInv G c { gc with typeNodes := gc.typeNodes ++ [(x, n)] } ∧
    Ext g { gc with typeNodes := gc.typeNodes ++ [(x, n)] } (sizeOf x + 1) ∧
    NewOk G c g { gc with typeNodes := gc.typeNodes ++ [(x, n)] } (fun _ => False) ∧
    ({ gc with typeNodes := gc.typeNodes ++ [(x, n)] } : GState).L x = some n := by
  have hcx : gc.L x = none := h.ext.none x hlx (Nat.le_refl _)
  have hlook : ∀ y m, gc.L y = some m → ({ gc with typeNodes := gc.typeNodes ++ [(x, n)] } : GState).L y = some m :=
    fun y m hy => L_push_some hy
  have hself := L_push_self (n := n) hcx
  have hown : ∀ tr, TyDesc G c ({ gc with typeNodes := gc.typeNodes ++ [(x, n)] } : GState).L x n tr → tr ∈ gc.triples := by
    intro tr hd
    cases hd with
    | cls hc => exact h.cls hc
    | op hx ha htp => exact (h.op _ _ hx ha htp).1
    | @param o args i p pn hx ha htp hi hpn =>
      obtain ⟨pn', hp', ht'⟩ := (h.op _ _ hx ha htp).2 i p hi
      have := hlook _ _ hp'
      rw [hpn] at this; cases this
      exact ht'
  refine ⟨⟨?_, ?_, ?_, ?_⟩, ⟨?_, ?_, ?_⟩, ?_, hself⟩
  · intro y m hy
    rcases L_push_inv hcx hy with hy | ⟨rfl, rfl⟩
    · exact h.inv.node y m hy
    · exact ⟨hn, hfc⟩
  · intro y m hy tr hd
    show tr ∈ gc.triples
    rcases L_push_inv hcx hy with hy' | ⟨rfl, rfl⟩
    · exact h.inv.complete y m hy' tr (hd.anti hlook (h.inv.params y m hy'))
    · exact hown tr hd
  · intro y m hy o args hyx ha htp p hp
    rcases L_push_inv hcx hy with hy' | ⟨rfl, rfl⟩
    · obtain ⟨pn, hpn⟩ := h.inv.params y m hy' o args hyx ha htp p hp
      exact ⟨pn, hlook _ _ hpn⟩
    · obtain ⟨j, hj⟩ := List.getElem?_of_mem hp
      obtain ⟨pn, hpn, _⟩ := (h.op o args hyx ha htp).2 j p hj
      exact ⟨pn, hlook _ _ hpn⟩
  · exact h.inv.sup
  · intro y m hy; exact hlook y m (h.ext.look y m hy)
  · intro y hy hb
    have hne : y ≠ x := by
      intro he; rw [he] at hb; omega
    exact L_push_ne (h.ext.none y hy (by omega)) hne
  · exact h.ext.triples
  · intro tr htr
    have htr' : tr ∈ gc.triples := htr
    rcases h.new tr htr' with h1 | h1 | h1 | h1
    · exact .inl h1
    · exact .inr (.inl (h1.mono hlook))
    · exact .inr (.inr (.inl h1))
    · exact .inr (.inl ⟨x, n, hself, h1.mono hlook⟩)

/-- the extra triples of the parameter loop -/
def ParamTr (g' : GState) (node : Node) (i : Nat) (ps : List Term) (tr : Triple) : Prop :=
  ∃ j p pn, ps[j]? = some p ∧ g'.L p = some pn ∧ tr = (node, paramPred (i + j), pn)

theorem typeUri_nodeOk {G : GLang} {c : GCfg} {x : Term} {n : Node} (h : typeUri G x = .ok n) : NodeOk G c x n := .inl h

theorem addType_voc (G : GLang) (c : GCfg) : ∀ (k : Nat),
    (∀ (g : GState) (x : Term) (g' : GState) (n : Node), addType G c k g x = .ok (g', n) → VInv G c g → FromCanon G c x →
      VInv G c g' ∧ Ext g g' (sizeOf x + 1) ∧ NewOk G c g g' (fun _ => False) ∧ g'.L x = some n) ∧
    (∀ (g : GState) (node : Node) (i : Nat) (ps : List Term) (g' : GState), addTypeParams G c k g node i ps = .ok g' →
      VInv G c g → (∀ p ∈ ps, FromCanon G c p) → ∀ b, (∀ p ∈ ps, sizeOf p < b) →
      VInv G c g' ∧ Ext g g' b ∧ NewOk G c g g' (ParamTr g' node i ps) ∧
        ∀ j p, ps[j]? = some p → ∃ pn, g'.L p = some pn ∧ (node, paramPred (i + j), pn) ∈ g'.triples) := by
  intro k
  induction k with
  | zero =>
    constructor
    · intro g x g' n h; rw [addType] at h; cases h
    · intro g node i ps g' h; rw [addTypeParams] at h; cases h
  | succ k ih =>
    obtain ⟨ihT, ihP⟩ := ih
    constructor
    · intro g x g' n h hi hfc
      rw [addType] at h
      split at h
      · rename_i nd hl
        simp only [Except.ok.injEq, Prod.mk.injEq] at h
        obtain ⟨rfl, rfl⟩ := h
        exact ⟨hi, Ext.refl _ _, fun tr htr => .inl htr, hl⟩
      · rename_i hl
        have hlx : g.L x = none := hl
        simp only [] at h
        split at h
        · cases h
        · rename_i r ga na hr
          -- the node
          have h1 : NodeOk G c x na ∧ ga.typeNodes = g.typeNodes ∧ ga.triples = g.triples ∧ ga.supertyped = g.supertyped := by
            split at hr
            · rename_i nd hnd
              simp only [Except.ok.injEq, Prod.mk.injEq] at hr
              obtain ⟨rfl, rfl⟩ := hr
              exact ⟨.inl hnd, rfl, rfl, rfl⟩
            · rename_i hnd
              split at hr
              · rename_i hnc
                simp only [Except.ok.injEq, Prod.mk.injEq] at hr
                obtain ⟨rfl, rfl⟩ := hr
                exact ⟨.inr ⟨hnd, hnc, _, rfl⟩, rfl, rfl, rfl⟩
              · cases hr
            · cases hr
          obtain ⟨hnode, ha1, ha2, ha3⟩ := h1
          have hia : VInv G c ga := hi.congr ha1 ha2 ha3
          have hexta : Ext g ga (sizeOf x) := Ext.of_triples _ ha1 (fun tr htr => by rw [ha2]; exact htr)
          split at h
          · cases h
          · rename_i r2 gb hr2
            split at h
            · cases h
            · rename_i r3 gc hr3
              simp only [Except.ok.injEq, Prod.mk.injEq] at h
              obtain ⟨rfl, rfl⟩ := h
              -- the state after the class triple
              have hcls : ∀ (g2 : GState), g2 = (if c.withClasses = true then ga.add (na, Node.rdf "type", Node.tf "Type") else ga) →
                  VInv G c g2 ∧ Ext g g2 (sizeOf x) ∧ (c.withClasses = true → (na, Node.rdf "type", Node.tf "Type") ∈ g2.triples) ∧
                  (∀ tr, tr ∈ g2.triples → tr ∈ g.triples ∨ (c.withClasses = true ∧ tr = (na, Node.rdf "type", Node.tf "Type"))) := by
                intro g2 hg2
                by_cases hc : c.withClasses = true
                · rw [if_pos hc] at hg2
                  subst hg2
                  refine ⟨hia.add _, hexta.trans (Ext.add _ _ _), fun _ => mem_add.2 (.inr rfl), ?_⟩
                  intro tr htr
                  rcases mem_add.1 htr with htr | rfl
                  · rw [ha2] at htr; exact .inl htr
                  · exact .inr ⟨hc, rfl⟩
                · rw [if_neg hc] at hg2
                  subst hg2
                  exact ⟨hia, hexta, fun h' => absurd h' hc, fun tr htr => by rw [ha2] at htr; exact .inl htr⟩
              obtain ⟨hi2, hext2, hcls2, hnew2⟩ := hcls _ rfl
              generalize (if c.withClasses = true then ga.add (na, Node.rdf "type", Node.tf "Type") else ga) = g2 at hr2 hi2 hext2 hcls2 hnew2
              -- the parameters
              have hready : Ready G c g x na gb := by
                split at hr2
                · rename_i o args
                  split at hr2
                  · rename_i hcond
                    simp only [Bool.and_eq_true, decide_eq_true_eq] at hcond
                    obtain ⟨harity, htp⟩ := hcond
                    have hsz : ∀ p ∈ args, sizeOf p < sizeOf (Term.app o args) := by
                      intro p hp
                      have := List.sizeOf_lt_of_mem hp
                      simp only [Term.app.sizeOf_spec]
                      omega
                    obtain ⟨i3, e3, n3, p3⟩ := ihP _ _ _ _ _ hr2 (hi2.add _)
                      (fun p hp => hfc.param harity htp hp) _ hsz
                    have hopin : (na, subClassOf, opUri G o) ∈ gb.triples := e3.triples _ (mem_add.2 (.inr rfl))
                    refine ⟨i3, (hext2.trans (Ext.add _ _ _)).trans e3, fun hc => e3.triples _ (mem_add.2 (.inl (hcls2 hc))), ?_, ?_⟩
                    · intro o' args' hx _ _
                      cases hx
                      refine ⟨hopin, ?_⟩
                      intro j p hj
                      obtain ⟨pn, hp1, hp2⟩ := p3 j p hj
                      refine ⟨pn, hp1, ?_⟩
                      rw [Nat.add_comm] at hp2; exact hp2
                    · intro tr htr
                      rcases n3 tr htr with h' | h' | h' | h'
                      · rcases mem_add.1 h' with h' | rfl
                        · rcases hnew2 tr h' with h' | ⟨hc, rfl⟩
                          · exact .inl h'
                          · exact .inr (.inr (.inr (.cls hc)))
                        · exact .inr (.inr (.inr (.op rfl harity htp)))
                      · exact .inr (.inl h')
                      · exact .inr (.inr (.inl h'))
                      · obtain ⟨j, p, pn, hj, hp, rfl⟩ := h'
                        rw [Nat.add_comm]
                        exact .inr (.inr (.inr (.param rfl harity htp hj hp)))
                  · rename_i hcond
                    simp only [Except.ok.injEq] at hr2
                    subst hr2
                    refine ⟨hi2, hext2, hcls2, ?_, ?_⟩
                    · intro o' args' hx ha htp
                      cases hx
                      exact absurd (by simp only [Bool.and_eq_true, decide_eq_true_eq]; exact ⟨ha, htp⟩) hcond
                    · intro tr htr
                      rcases hnew2 tr htr with h' | ⟨hc, rfl⟩
                      · exact .inl h'
                      · exact .inr (.inr (.inr (.cls hc)))
                · simp only [Except.ok.injEq] at hr2
                  subst hr2
                  refine ⟨hi2, hext2, hcls2, ?_, ?_⟩
                  · intro o' args' hx; cases hx
                  · intro tr htr
                    rcases hnew2 tr htr with h' | ⟨hc, rfl⟩
                    · exact .inl h'
                    · exact .inr (.inr (.inr (.cls hc)))
              -- the supertypes
              have hready' : Ready G c g x na gc := by
                split at hr3
                · rename_i hcond
                  simp only [Bool.and_eq_true] at hcond
                  have hcan : x.generalize ∈ G.canon := by
                    have := hcond.2
                    unfold inCanon at this
                    simp only [Bool.and_eq_true] at this
                    exact mem_of_memTy this.2
                  obtain ⟨i4, r4⟩ := addSupertypesRec_voc G c _ _ _ _ hr3 hcan hready.inv
                  exact hready.pass i4 r4
                · simp only [Except.ok.injEq] at hr3
                  subst hr3
                  exact hready
              exact hready'.finish hlx hnode hfc
    · intro g node i ps g' h hi hfc b hb
      cases ps with
      | nil =>
        rw [addTypeParams] at h
        simp only [Except.ok.injEq] at h
        subst h
        exact ⟨hi, Ext.refl _ _, fun tr htr => .inl htr, fun j p hj => by simp at hj⟩
      | cons p ps =>
        rw [addTypeParams] at h
        split at h
        · cases h
        · rename_i g1 pn hp
          obtain ⟨i1, e1, n1, l1⟩ := ihT _ _ _ _ hp hi (hfc p List.mem_cons_self)
          obtain ⟨i2, e2, n2, p2⟩ := ihP _ _ _ _ _ h (i1.add _) (fun q hq => hfc q (List.mem_cons_of_mem _ hq)) b
            (fun q hq => hb q (List.mem_cons_of_mem _ hq))
          have e1' : Ext g g1 b := e1.weaken (hb p List.mem_cons_self)
          have e12 : Ext g1 g' b := (Ext.add _ _ _).trans e2
          have hpl : g'.L p = some pn := e12.look _ _ l1
          have hpt : (node, paramPred i, pn) ∈ g'.triples := e2.triples _ (mem_add.2 (.inr rfl))
          refine ⟨i2, e1'.trans e12, ?_, ?_⟩
          · intro tr htr
            rcases n2 tr htr with h' | h' | h' | h'
            · rcases mem_add.1 h' with h' | rfl
              · rcases n1 tr h' with h' | h' | h' | h'
                · exact .inl h'
                · exact .inr (.inl (h'.mono e12.look))
                · exact .inr (.inr (.inl h'))
                · exact h'.elim
              · exact .inr (.inr (.inr ⟨0, p, pn, rfl, hpl, rfl⟩))
            · exact .inr (.inl h')
            · exact .inr (.inr (.inl h'))
            · obtain ⟨j, q, qn, hj, hq, rfl⟩ := h'
              refine .inr (.inr (.inr ⟨j + 1, q, qn, by simpa using hj, hq, ?_⟩))
              rw [show i + (j + 1) = i + 1 + j by omega]
          · intro j q hj
            cases j with
            | zero =>
              simp only [List.getElem?_cons_zero, Option.some.injEq] at hj
              subst hj
              exact ⟨pn, hpl, hpt⟩
            | succ j =>
              simp only [List.getElem?_cons_succ] at hj
              obtain ⟨qn, hq1, hq2⟩ := p2 j q hj
              refine ⟨qn, hq1, ?_⟩
              rw [show i + (j + 1) = i + 1 + j by omega]
              exact hq2

end Tfv.Voc
