import Tfv.Proofs.ResolvedConstrEngineB
/-!
# The attachment invariant through the engine: `checkConstraints`, `checkList`, `fulfill`, `minimize`, `minLoop`,
and the induction on the fuel
-/
namespace Tfv.C03R
open Tfv Tfv.C03P Tfv.C03C Tfv.C16P Tfv.C17E

theorem check_stepR {L : Lang} {n : Nat} (hlist : CheckListR L n) : CheckR L (n+1) := by
  intro σ v σ' P p inv h
  unfold checkConstraints at h
  exact hlist σ v _ σ' P p (fun c hc => p.okc.crange.get hc) inv h

theorem checkList_stepR {L : Lang} (wf : WF L) {n : Nat} (hful : FulfillR L n) (hlist : CheckListR L n) :
    CheckListR L (n+1) := by
  intro σ v l σ' P p hl inv h
  cases l with
  | nil =>
    unfold checkList at h
    injection h with h; subst h
    exact ⟨StepR.refl L σ, inv.dropP (fun c _ hm => nomatch hm)⟩
  | cons c l =>
    unfold checkList at h
    split at h
    · cases h
    · next σ1 done h1 =>
      have hc := hl c List.mem_cons_self
      have inv' : Inv L σ ((P.addP (fun x => x ∈ l)).addP (fun x => x = c)) :=
        Inv.mono' (P := P.addP (fun x => x ∈ c :: l)) (P' := (P.addP (fun x => x ∈ l)).addP (fun x => x = c))
          (fun x _ (hq : P.p x ∨ x ∈ c :: l) => by
            show (P.p x ∨ x ∈ l) ∨ x = c
            rcases hq with hp | hm
            · exact Or.inl (Or.inl hp)
            · rcases List.mem_cons.mp hm with e | e
              · exact Or.inr e
              · exact Or.inl (Or.inr e)) (fun _ hw => hw) (fun _ hg => hg) (fun _ hk => hk) inv
      obtain ⟨r1, i1, hd⟩ := hful σ c σ1 done _ p hc inv' h1
      obtain ⟨p1, s1⟩ := fulfill_pre wf p hc h1
      have hl1 : ∀ d, d ∈ l → d < σ1.constrs.length := fun d hd =>
        Nat.lt_of_lt_of_le (hl d (List.mem_cons_of_mem _ hd)) s1.clen
      simp only [] at h
      cases done with
      | false =>
        simp only [Bool.false_eq_true, if_false] at h
        obtain ⟨r2, i2⟩ := hlist σ1 v l σ' P p1 hl1 i1 h
        exact ⟨r1.trans r2, i2⟩
      | true =>
        simp only [if_true] at h
        obtain ⟨i1', r1'⟩ := inv_removeDone (k := (getVar σ1 v).cset) p1.okc (hd rfl) i1
        have s2 : StepC L σ1 (setCset σ1 (getVar σ1 v).cset
            ((getCset σ1 (getVar σ1 v).cset).filter (· != c))) :=
          stepC_setCset s1.ok _ (fun d hd => s1.ok.crange.get (List.mem_filter.mp hd).1)
        have p2 : Pre L _ := p1.step s2 (StepN.of_boundEq p1.ch (boundEq_setCset _ _ _) rfl)
        obtain ⟨r2, i2⟩ := hlist _ v l σ' P p2 hl1 i1' h
        exact ⟨r1.trans (r1'.trans r2), i2⟩

/-! ## `fulfill` -/

/-- the pending constraint `c` is not (or no longer) unfulfilled -/
theorem Inv.drop {L : Lang} {σ : Store} {c : Nat} {P : Pend}
    (h : ¬ Unful σ c) (inv : Inv L σ (P.addP (fun x => x = c))) : Inv L σ P :=
  inv.dropP (fun x hx (e : x = c) => by subst e; exact absurd hx h)

theorem den_same {L : Lang} {ρ : Val} {σ : Store} (hρ : Sat L ρ σ) (hc : Chains σ) {a b : Term} (h : Same σ a b) :
    den ρ a = den ρ b := by
  rw [← den_followT hρ a, ← den_followT hρ b, h.now hc]

theorem resL_mem {σ : Store} : ∀ {as : List Term} {τs : List Ty} {τ : Ty}, ResL σ as τs → τ ∈ τs →
    ∃ a, a ∈ as ∧ Res σ a τ ∧ Ty.depth τ + 1 ≤ Ty.depthL τs
  | [], [], _, _, hm => nomatch hm
  | [], _ :: _, _, h, _ => by rw [resL_nil_left] at h; cases h
  | _ :: _, [], _, _, hm => nomatch hm
  | a :: as, τ0 :: τs, τ, h, hm => by
    rw [resL_cons] at h
    rw [Ty.depthL]
    rcases List.mem_cons.mp hm with e | e
    · subst e
      exact ⟨a, List.mem_cons_self, h.1, by omega⟩
    · obtain ⟨a', ha', hr, hd⟩ := resL_mem h.2 e
      exact ⟨a', List.mem_cons_of_mem _ ha', hr, by omega⟩

theorem two_le_of_not_short {α : Type} {l : List α} (h0 : l ≠ []) (h1 : ∀ x, l ≠ [x]) : 2 ≤ l.length := by
  match l, h0, h1 with
  | [], h0, _ => exact absurd rfl h0
  | [x], _, h1 => exact absurd rfl (h1 x)
  | _ :: _ :: _, _, _ => simp

theorem fulfill_stepR {L : Lang} (wf : WF L) {n : Nat} (hunify : UnifyR L n) (hmin : MinimizeR L n) :
    FulfillR L (n+1) := by
  intro σ c σ' d P p hc inv h
  have okc := p.okc
  unfold fulfill at h
  split at h
  · next ref tgt s0 f0 e0 =>
    obtain ⟨hr, htg⟩ := okc_sub_terms okc hc e0
    split at h
    · cases h
    · next σ1 h1 =>
      obtain ⟨r1, i1⟩ := hunify σ ref tgt true false σ1 _ p hr htg inv h1
      obtain ⟨p1, s1⟩ := unify_pre wf p hr htg h1
      have hc1 : c < σ1.constrs.length := Nat.lt_of_lt_of_le hc s1.clen
      obtain ⟨f', e1', _⟩ := r1.subk c ref tgt s0 f0 hc e0
      split at h
      · next hm3 =>
        split at h
        · next r t s f e1 =>
          injection h with h
          injection h with h2 h3
          subst h2; subst h3
          rw [e1] at e1'
          injection e1' with er et es _
          subst er; subst et; subst es
          have hfo : FulOK L σ1 r t :=
            match3_true_res wf p1.okc.ok p1.nw _ r t (s1.okTerm hr) (s1.okTerm htg) hm3
          have i2 : Inv L (setConstr σ1 c (.sub r t s true)) P :=
            inv_setConstr (P := P.addP (fun x => x = c)) (P' := P) hc1
              (fun d hd (hq : P.p d ∨ d = c) => hq.elim id (fun e => absurd e hd))
              (fun _ _ hw => hw) (fun _ hg => hg) (fun _ _ hk => hk)
              (fun hu => by cases hu) (fun _ _ _ e => by injection e with _ _ _ e4; cases e4)
              (fun _ _ e => by cases e)
              (fun r' t' s' e => by injection e with a1 a2 _ _; subst a1; subst a2; exact hfo)
              (fun _ _ e => by cases e) (fun _ _ _ e => by cases e) i1
          have r2 : StepR L σ1 (setConstr σ1 c (.sub r t s true)) :=
            (StepR.refl L σ1).then_setConstr hc1 (fun hu => by cases hu)
              (fun r' t' s' f'' _ e => by
                rw [e1] at e
                injection e with a1 a2 a3 _
                subst a1; subst a2; subst a3
                exact ⟨true, rfl, fun _ => rfl⟩)
              (fun r' as' f'' _ e => by rw [e1] at e; cases e)
          have hdone : ¬ Unful (setConstr σ1 c (.sub r t s true)) c :=
            not_unful_sub_true (getConstr_setConstr_eq _ hc1)
          exact ⟨r1.trans r2, i2, fun _ => hdone⟩
        · next hne =>
          exact absurd e1' (hne _ _ _ _)
      · cases h
      · next hm3 =>
        -- undecided: the constraint cannot have both sides resolved
        have hchk : ∀ τr τt, Res σ1 ref τr → Res σ1 tgt τt → Ty.depth τr < 64 → Ty.depth τt < 64 → False := by
          intro τr τt h1 h2 d1 d2
          have hfuel : 64 ≤ matchFuel σ1 := by unfold matchFuel; omega
          have := match3_res L σ1 (matchFuel σ1) true false ref tgt τr τt h1 h2 (by omega) (by omega)
          rw [this] at hm3
          cases hm3
        have i1' : Inv L σ1 P := by
          refine ⟨i1.idx, i1.att, ?_, i1.ful, i1.attE, ?_, i1.ful1, i1.ful2⟩
          · intro x r t s hx hn τr τt h1 h2 d1 d2
            by_cases e : x = c
            · subst e
              rw [e1'] at hx
              injection hx with er et _ _
              subst er; subst et
              exact hchk τr τt h1 h2 d1 d2
            · exact i1.chk x r t s hx (fun (hq : P.p x ∨ x = c) => hq.elim hn e) τr τt h1 h2 d1 d2
          · intro x r as hx hn
            have e : x ≠ c := fun e => by subst e; rw [e1'] at hx; cases hx
            exact i1.chkE x r as hx (fun (hq : P.p x ∨ x = c) => hq.elim hn e)
        split at h
        · next r t s f e1 =>
          injection h with h
          injection h with h2 h3
          subst h2; subst h3
          refine ⟨r1, i1', fun hd => ?_⟩
          subst hd
          exact not_unful_sub_true e1
        · injection h with h
          injection h with h2 h3
          subst h2; subst h3
          exact ⟨r1, i1', fun hd => by cases hd⟩
  · next r0 a0 e0 =>
    injection h with h
    injection h with h2 h3
    subst h2; subst h3
    have hdone : ¬ Unful σ c := not_unful_elim_true e0
    exact ⟨StepR.refl L σ, inv.drop hdone, fun _ => hdone⟩
  · next r0 a0 e0 =>
    split at h
    · cases h
    · next σ1 h1 =>
      obtain ⟨r1, i1⟩ := hmin σ c σ1 ((P.addP (fun x => x = c)).addW c) p hc (Or.inr rfl) (Or.inr rfl)
        (unful_elim e0) (inv.addW c) h1
      obtain ⟨p1, s1, _⟩ := minimize_pre wf p hc h1
      have hc1 : c < σ1.constrs.length := Nat.lt_of_lt_of_le hc s1.clen
      split at h
      · next ref alts ful e1 =>
        have hx := s1.ok.cget hc1
        rw [e1, constrTerms_elim] at hx
        obtain ⟨hr, halts⟩ := okTermL_cons.mp hx
        simp only [] at h
        have h := ite_error_inv h
        -- the filtered alternatives are among the alternatives
        have hsubset : ∀ a', a' ∈ alts.filter (fun t => match3 L σ1 (matchFuel σ1) true true ref t != some false) →
            ∃ a, a ∈ alts ∧ Same σ1 a' a := fun a' ha' => ⟨a', (List.mem_filter.mp ha').1, Same.refl _ _⟩
        split at h
        · cases h
        · next only e2 =>
          have honly : okTerm L σ1 only = true := by
            have hm : only ∈ [only] := List.mem_cons_self
            rw [← e2] at hm
            exact okTermL_iff.mp halts only (List.mem_filter.mp hm).1
          have s2 : StepC L σ1 (setConstr σ1 c (.elim ref [only] true)) :=
            stepC_setConstr s1.ok hc1 (by
              rw [constrTerms_elim]
              exact okTermL_cons.mpr ⟨hr, okTermL_single honly⟩)
              (fun r' t' s' f' h' => by rw [e1] at h'; cases h') (fun _ r' t' s' h' => by cases h')
          have i2 : Inv L (setConstr σ1 c (.elim ref [only] true)) ((P.addP (fun x => x = c)).addW c) :=
            inv_setConstr hc1 (fun _ _ hq => hq) (fun _ _ hw => hw) (fun _ hg => hg) (fun _ _ hk => hk)
              (fun hu => by cases hu) (fun _ _ _ e => by cases e)
              (fun _ _ e => by cases e) (fun _ _ _ e => by cases e)
              (fun _ _ _ hn => absurd (Or.inr rfl) hn)
              (fun r' as' f'' e hk => by
                injection e with _ a2 a3
                subst a2; subst a3
                refine ⟨?_, fun _ => rfl⟩
                have hcl := (i1.ful2 c ref alts ful hk e1).1
                have hm : only ∈ alts := by
                  have : only ∈ [only] := List.mem_cons_self
                  rw [← e2] at this
                  exact (List.mem_filter.mp this).1
                rw [closedL_cons, closedL_iff.mp hcl only hm, closedL_nil]; rfl) i1
          have r2 : StepR L σ1 (setConstr σ1 c (.elim ref [only] true)) :=
            (StepR.refl L σ1).then_setConstr hc1 (fun hu => by cases hu)
              (fun r' t' s' f'' _ e => by rw [e1] at e; cases e)
              (fun r' as' f'' _ e => by
                rw [e1] at e
                injection e with a1 a2 a3
                subst a1; subst a2; subst a3
                refine ⟨_, [only], true, rfl, fun _ => rfl, Same.refl _ _, ?_⟩
                rw [← e2]
                exact hsubset)
          have p2 : Pre L _ := p1.step s2
            ⟨(boundEq_setConstr σ1 c (.elim ref [only] true)).chains p1.ch, kindEq_setConstr (by rw [e1]; rfl)⟩
          rw [e2] at h
          split at h
          · cases h
          · next σ3 h3 =>
            injection h with h
            injection h with h4 h5
            subst h4; subst h5
            obtain ⟨r3, i3⟩ := hunify _ ref only false false σ3 _ p2 (s2.okTerm hr) (s2.okTerm honly) i2 h3
            obtain ⟨p3, _⟩ := unify_pre wf p2 (s2.okTerm hr) (s2.okTerm honly) h3
            obtain ⟨_, hs⟩ := (all_soundC wf n).1 _ ref only false false σ3 p2.okc (s2.okTerm hr) (s2.okTerm honly) h3
            obtain ⟨r', as', f', e3, hf, hr', has'⟩ := r3.der c ref [only] true (by rw [length_setConstr]; exact hc1)
              (getConstr_setConstr_eq _ hc1)
            have hdone : ¬ Unful σ3 c := by
              rw [hf rfl] at e3
              exact not_unful_elim_true e3
            have i4 : Inv L σ3 (P.addP (fun x => x = c)) := by
              refine i3.dropW ?_
              intro r a e ρ hρ _
              rw [e3] at e
              injection e with a1 a2 _
              subst a1; subst a2
              obtain ⟨a0, ha0, hsame⟩ := has' a List.mem_cons_self
              rw [List.mem_singleton] at ha0
              subst ha0
              rw [den_same hρ p3.ch hr', den_same hρ p3.ch hsame]
              exact hs rfl rfl ρ hρ
            exact ⟨r1.trans (r2.trans r3), i4.drop hdone, fun _ => hdone⟩
        · next hnil hone =>
          injection h with h
          injection h with h4 h5
          subst h4; subst h5
          have hlen : 2 ≤ (alts.filter (fun t => match3 L σ1 (matchFuel σ1) true true ref t != some false)).length :=
            two_le_of_not_short (fun e => hnil e) (fun x e => hone x e)
          have r2 : StepR L σ1 (setConstr σ1 c
              (.elim ref (alts.filter (fun t => match3 L σ1 (matchFuel σ1) true true ref t != some false)) ful)) :=
            (StepR.refl L σ1).then_setConstr hc1
              (fun hu => by
                cases ful with
                | false => exact unful_elim e1
                | true => cases hu)
              (fun r' t' s' f'' _ e => by rw [e1] at e; cases e)
              (fun r' as' f'' _ e => by
                rw [e1] at e
                injection e with a1 a2 a3
                subst a1; subst a2; subst a3
                exact ⟨_, _, _, rfl, fun e => e, Same.refl _ _, hsubset⟩)
          have i2 : Inv L (setConstr σ1 c
              (.elim ref (alts.filter (fun t => match3 L σ1 (matchFuel σ1) true true ref t != some false)) ful)) P := by
            refine inv_setConstr (P := (P.addP (fun x => x = c)).addW c) (P' := P) hc1
              (fun d hd (hq : P.p d ∨ d = c) => hq.elim id (fun e => absurd e hd))
              (fun d hd (hw : P.w d ∨ d = c) => hw.elim id (fun e => absurd e hd)) (fun _ hg => hg)
              (fun _ _ hk => hk)
              ?_ (fun _ _ _ e => by cases e) ?_
              (fun _ _ _ e => by cases e) ?_ ?_ i1
            rotate_left 2
            · intro r' a' e
              injection e with _ a2 _
              rw [a2] at hlen
              simp at hlen
            · intro r' as' f'' e hk
              injection e with _ a2 a3
              obtain ⟨hcl, hone1⟩ := i1.ful2 c ref alts ful hk e1
              refine ⟨by rw [← a2]; exact closedL_filter _ hcl, fun hf => ?_⟩
              exfalso
              rw [← a3] at hf
              have h1len := hone1 hf
              have := List.length_filter_le (fun t => match3 L σ1 (matchFuel σ1) true true ref t != some false) alts
              omega
            · intro hu t ht
              cases ful with
              | true => cases hu
              | false =>
                rw [constrTerms_elim] at ht
                refine i1.attE c ref alts e1 t ?_
                rcases List.mem_cons.mp ht with e | e
                · rw [e]; exact List.mem_cons_self
                · exact List.mem_cons_of_mem _ (List.mem_filter.mp e).1
            · intro r' as' e _
              injection e with a1 a2 a3
              subst a1; subst a2
              refine ⟨hlen, fun τr τs h1 hl d1 d2 τ hτ => ?_⟩
              obtain ⟨a, ha, hra, hda⟩ := resL_mem hl hτ
              obtain ⟨ha1, ha2⟩ := List.mem_filter.mp ha
              have hfuel : 64 ≤ matchFuel σ1 := by unfold matchFuel; omega
              have hm := match3_res L σ1 (matchFuel σ1) true true _ a τr τ h1 hra (by omega) (by omega)
              rw [hm] at ha2
              have hmc : matchC L true true τr τ = true := by
                cases hb : matchC L true true τr τ with
                | true => rfl
                | false => rw [hb] at ha2; simp at ha2
              exact (sub_iff_Sub wf (res_wf p1.okc.ok τr _ hr h1)
                (res_wf p1.okc.ok τ a (okTermL_iff.mp halts a ha1) hra)).mp hmc
          refine ⟨r1.trans r2, i2, fun hd => ?_⟩
          subst hd
          exact not_unful_elim_true (getConstr_setConstr_eq _ hc1)
      · cases h

/-! ## `minimize`, `minLoop` -/

/-- `fix` returns a term that follows to what the given term follows to -/
theorem fix_same {L : Lang} {n : Nat} {σ σ1 : Store} {t t' : Term} {pl : Bool} (ex : Ext σ σ1)
    (h : fix L n σ t pl = .ok (σ1, t')) : Same σ1 t' t := by
  cases n with
  | zero => unfold fix at h; cases h
  | succ n =>
    unfold fix at h
    split at h
    · next o args e1 =>
      split at h
      · cases h
      · injection h with h
        injection h with h2 h3
        subst h3
        rw [← e1]
        exact (Same.of_followT σ t).mono ex
    · next v e1 =>
      simp only [] at h
      split at h
      · cases h
      · injection h with h
        injection h with h2 h3
        subst h2; subst h3
        refine (Same.of_followT _ (.var v)).trans ?_
        rw [← e1]; exact (Same.of_followT σ t).mono ex

theorem foldl_mem_fst {σ : Store} {obj : Term} (c : Term → Bool) (d : List Term × Bool → Term → Bool) :
    ∀ (mins : List Term) (acc : List Term × Bool) (x : Term),
      x ∈ (List.foldl (fun acc m => (acc.fst ++ [if c m = true then followT σ obj else m], d acc m)) acc mins).1 →
      x ∈ acc.1 ∨ x = followT σ obj ∨ x ∈ mins
  | [], acc, x, h => Or.inl h
  | m :: ms, acc, x, h => by
    simp only [List.foldl_cons] at h
    rcases foldl_mem_fst c d ms _ x h with h1 | h1 | h1
    · simp only [List.mem_append, List.mem_singleton] at h1
      rcases h1 with h2 | h2
      · exact Or.inl h2
      · split at h2
        · exact Or.inr (Or.inl h2)
        · exact Or.inr (Or.inr (by rw [h2]; exact List.mem_cons_self))
    · exact Or.inr (Or.inl h1)
    · exact Or.inr (Or.inr (List.mem_cons_of_mem _ h1))

theorem minimize_stepR {L : Lang} (wf : WF L) {n : Nat} (hloop : MinLoopR L n) : MinimizeR L (n+1) := by
  intro σ c σ' P p hc hPc hWc hUn inv h
  have okc := p.okc
  unfold minimize at h
  split at h
  · next ref alts f0 e0 =>
    have hx := okc.cget hc
    rw [e0, constrTerms_elim] at hx
    obtain ⟨hr, halts⟩ := okTermL_cons.mp hx
    split at h
    · cases h
    · next σ1 minimized h1 =>
      obtain ⟨r1, i1, hder⟩ := hloop σ alts [] σ1 minimized P p halts okTermL_nil inv h1
      obtain ⟨p1, s1, _⟩ := minLoop_pre wf p halts okTermL_nil h1
      have hc1 : c < σ1.constrs.length := Nat.lt_of_lt_of_le hc s1.clen
      split at h
      · next r1' a1 ful e1 =>
        injection h with h; subst h
        obtain ⟨r', as', f', e1'', hflag, _, _⟩ := r1.der c ref alts f0 hc e0
        rw [e1] at e1''
        injection e1'' with _ _ eful
        have hfl : f0 = true → ful = true := fun e => by rw [eful]; exact hflag e
        have hidem : ∀ y, followT σ1 y = followT σ1 (followT σ1 y) := fun y =>
          ((Same.of_followT σ1 y).now p1.ch).symm
        have i2 : Inv L (setConstr σ1 c (.elim (followT σ1 ref) (minimized.map (followT σ1)) ful)) P := by
          refine inv_setConstr hc1 (fun _ _ hq => hq) (fun _ _ hw => hw) (fun _ hg => hg) (fun _ _ hk => hk) ?_
            (fun _ _ _ e => by cases e)
            (fun _ _ _ hn => absurd hPc hn) (fun _ _ _ e => by cases e) (fun _ _ _ hn => absurd hWc hn) ?_ i1
          rotate_left 1
          · intro r'' as'' f'' e hk
            injection e with _ a2 a3
            have hcl0 := (inv.ful2 c ref alts f0 hk e0).1
            obtain ⟨eσ, hclm⟩ := minLoop_closed L n σ alts [] σ1 minimized hcl0 closedL_nil h1
            subst eσ
            refine ⟨by rw [← a2]; exact closedL_map_followT _ hclm, fun hf => ?_⟩
            exfalso
            rw [e0] at e1
            injection e1 with _ _ b3
            have : Unful σ1 c := hUn
            unfold Unful at this
            rw [e0] at this
            rw [← a3, ← b3] at hf
            rw [hf] at this
            cases this
          intro hu t ht
          have hful : ful = false := by
            cases ful with
            | false => rfl
            | true => cases hu
          have hf0 : f0 = false := by
            cases f0 with
            | false => rfl
            | true => rw [hfl rfl] at hful; cases hful
          subst hf0; subst hful
          have hun1 : Unful σ1 c := unful_elim e1
          rw [constrTerms_elim] at ht
          rcases List.mem_cons.mp ht with e | e
          · subst e
            exact (r1.attT c ref hc hr hun1 (inv.attE c ref alts e0 ref List.mem_cons_self)).congr (hidem ref)
          · obtain ⟨m, hm, em⟩ := List.mem_map.mp e
            subst em
            obtain ⟨a, ha, hs⟩ := hder m hm
            rw [List.append_nil] at ha
            have hatt := r1.attT c a hc (okTermL_iff.mp halts a ha) hun1
              (inv.attE c ref alts e0 a (List.mem_cons_of_mem _ ha))
            exact hatt.congr (((hs.now p1.ch).symm).trans (hidem m))
        have r2 : StepR L σ (setConstr σ1 c (.elim (followT σ1 ref) (minimized.map (followT σ1)) ful)) := by
          refine r1.then_setConstr hc1 ?_ (fun r' t' s' f'' _ e => by rw [e0] at e; cases e) ?_
          · intro hu
            cases ful with
            | false => exact unful_elim e1
            | true => cases hu
          · intro r' as'' f'' _ e
            rw [e0] at e
            injection e with a1' a2' a3'
            subst a1'; subst a2'; subst a3'
            refine ⟨_, _, ful, rfl, hfl, Same.of_followT σ1 _, ?_⟩
            intro a' ha'
            obtain ⟨m, hm, em⟩ := List.mem_map.mp ha'
            subst em
            obtain ⟨a, ha, hs⟩ := hder m hm
            rw [List.append_nil] at ha
            exact ⟨a, ha, (Same.of_followT σ1 m).trans hs⟩
        exact ⟨r2, i2⟩
      · injection h with h; subst h; exact ⟨r1, i1⟩
  · injection h with h; subst h; exact ⟨StepR.refl L σ, inv⟩

theorem minLoop_stepR {L : Lang} (wf : WF L) {n : Nat} (hfix : FixR L n) (hloop : MinLoopR L n) :
    MinLoopR L (n+1) := by
  intro σ alts mins σ' out P p halts hmins inv h
  have okc := p.okc
  cases alts with
  | nil =>
    unfold minLoop at h
    injection h with h
    injection h with h1 h2
    subst h1; subst h2
    exact ⟨StepR.refl L σ, inv, fun m hm => ⟨m, by simpa using hm, Same.refl _ _⟩⟩
  | cons obj rest =>
    obtain ⟨hobj, hrest⟩ := okTermL_cons.mp halts
    have hobj' := okTerm_followT okc.ok obj hobj
    unfold minLoop at h
    simp only [] at h
    split at h
    · split at h
      · cases h
      · next σ1 t h1 =>
        obtain ⟨r1, i1⟩ := hfix σ _ true σ1 t P p hobj' inv h1
        obtain ⟨p1, s1, ht⟩ := fix_pre wf p hobj' h1
        obtain ⟨r2, i2, hder⟩ := hloop σ1 rest _ σ' out P p1 (s1.okTermL hrest)
          (okTermL_append (s1.okTermL (minFold_ok hobj' _ _ mins hmins)) (okTermL_single ht)) i1 h
        have r12 := r1.trans r2
        refine ⟨r12, i2, fun m hm => ?_⟩
        obtain ⟨a, ha, hs⟩ := hder m hm
        have hobjS : Same σ' (followT σ obj) obj := (Same.of_followT σ obj).mono r12.ext
        rcases List.mem_append.mp ha with h3 | h3
        · exact ⟨a, List.mem_append_left _ (List.mem_cons_of_mem _ h3), hs⟩
        · rcases List.mem_append.mp h3 with h4 | h4
          · rcases foldl_mem_fst _ _ mins _ a h4 with h5 | h5 | h5
            · cases h5
            · subst h5
              exact ⟨obj, List.mem_append_left _ List.mem_cons_self, hs.trans hobjS⟩
            · exact ⟨a, List.mem_append_right _ h5, hs⟩
          · rw [List.mem_singleton] at h4
            subst h4
            have hfx : Same σ' a (followT σ obj) := (fix_same r1.ext h1).mono r2.ext
            exact ⟨obj, List.mem_append_left _ List.mem_cons_self, hs.trans (hfx.trans hobjS)⟩
    · obtain ⟨r2, i2, hder⟩ := hloop σ rest _ σ' out P p hrest (minFold_ok hobj' _ _ mins hmins) inv h
      refine ⟨r2, i2, fun m hm => ?_⟩
      obtain ⟨a, ha, hs⟩ := hder m hm
      have hobjS : Same σ' (followT σ obj) obj := (Same.of_followT σ obj).mono r2.ext
      rcases List.mem_append.mp ha with h3 | h3
      · exact ⟨a, List.mem_append_left _ (List.mem_cons_of_mem _ h3), hs⟩
      · rcases foldl_mem_fst _ _ mins _ a h3 with h5 | h5 | h5
        · cases h5
        · subst h5
          exact ⟨obj, List.mem_append_left _ List.mem_cons_self, hs.trans hobjS⟩
        · exact ⟨a, List.mem_append_right _ h5, hs⟩

/-! ## the induction on the fuel -/

theorem all_R {L : Lang} (wf : WF L) : ∀ n,
    UnifyR L n ∧ UnifyListR L n ∧ BindR L n ∧ AboveR L n ∧ BelowR L n ∧ FixR L n ∧ FixListR L n ∧
    CheckR L n ∧ CheckListR L n ∧ FulfillR L n ∧ MinimizeR L n ∧ MinLoopR L n
  | 0 => by
    refine ⟨?_, ?_, ?_, ?_, ?_, ?_, ?_, ?_, ?_, ?_, ?_, ?_⟩
    · intro σ a b sb sw σ' P _ _ _ _ h; unfold unify at h; cases h
    · intro σ vs xs ys sb sw σ' P _ _ _ _ _ _ h; unfold unifyList at h; cases h
    · intro σ v t σ' P _ _ _ _ _ _ _ h; unfold bind at h; cases h
    · intro σ v new σ' P _ _ _ _ _ _ h; unfold above at h; cases h
    · intro σ v new σ' P _ _ _ _ _ _ h; unfold below at h; cases h
    · intro σ t pl σ' t' P _ _ _ h; unfold fix at h; cases h
    · intro σ vs ps pl σ' P _ _ _ h; unfold fixList at h; cases h
    · intro σ v σ' P _ _ h; unfold checkConstraints at h; cases h
    · intro σ v l σ' P _ _ _ h; unfold checkList at h; cases h
    · intro σ c σ' d P _ _ _ h; unfold fulfill at h; cases h
    · intro σ c σ' P _ _ _ _ _ _ h; unfold minimize at h; cases h
    · intro σ alts mins σ' out P _ _ _ _ h; unfold minLoop at h; cases h
  | n+1 => by
    obtain ⟨h1, h2, h3, h4, h5, h6, h7, h8, h9, h10, h11, h12⟩ := all_R wf n
    exact ⟨unify_stepR wf h1 h2 h3 h4 h5, unifyList_stepR wf h1 h2, bind_stepR wf h1 h8,
      above_stepR wf h3 h8, below_stepR wf h3 h8, fix_stepR h3 h7, fixList_stepR wf h6 h7,
      check_stepR h9, checkList_stepR wf h10 h9, fulfill_stepR wf h1 h11, minimize_stepR wf h12,
      minLoop_stepR wf h6 h12⟩

end Tfv.C03R
