import Tfv.Model
import Tfv.Spec.History
import Tfv.Spec.HistoryConstr
import Tfv.Spec.HistoryShiftConstr
import Tfv.Proofs.HistoryConstrTop
import Tfv.Proofs.HistoryConstrExamples
import Tfv.Proofs.AgreeConstrExamples
/-!
# C16 in the SHIFT form for schemas WITH constraints — how exactly a use depends on the history

"The type inferred for an expression depends only on its text, the supplied inputs and the language definition, not on
which expressions were parsed or which types were applied before."

`Tfv/Props/C16.lean` §3 proves, for the CONSTRAINT-FREE engine, that one use of a definition started behind any
history `σ₀` gives the outcome of the use started in the empty store, placed behind the history
(`afterHistory σ₀`, all variable indices shifted). `Tfv/Props/C16Constr.lean` proves for the engine WITH pending
constraints that only the SIZES of the history matter. This file settles the dependence on the sizes.

`Store.appendC σ₀ σ` (Spec/HistoryShiftConstr.lean) places a store WITH its constraint sets and constraints behind a
history: variable indices shifted by `σ₀.vars.length`, constraint-set ids by `σ₀.csets.length`, constraint ids by
`σ₀.constrs.length`, inside variable records, constraint sets and constraint records (reference, target,
alternatives). It extends `Store.append` (§1).

RESULT (§3). For ANY history `σ₀` — no well-formedness needed, pending constraints allowed —, any well-scoped schema
WITH constraints, concrete arguments, any fuel and flag:

    useSchema L n fixFlag σ₀ s xs = afterHistoryC σ₀ (useSchemaE L σ₀.vars.length σ₀.constrs.length n fixFlag {} s xs)

where `useSchemaE L kv kc` is the engine of the model in which the four fuels the model computes from the size of the
store (`followT`: `vars + 1`; `match`: `4·vars + 64`; occurs check and `variables()`: `vars + 64`; closure over
constraints: `vars·(constrs+1) + 8`) are computed as if the store had `kv` more variables and `kc` more constraints
(`useSchemaE L 0 0 = useSchema L`, `C16s_offsets_zero`). So: the history is never read and never written; the run
behind it is the fresh run renamed — sorting of constraint ids, merging of constraint sets, duplicate elimination,
all comparisons of indices commute with the renaming —; the ONLY thing that leaks is the size of the history, through
these four fuels. Hence (`C16s_history_independent_iff`) the statement

    useSchema L n fixFlag σ₀ s xs = afterHistoryC σ₀ (useSchema L n fixFlag {} s xs)

holds for a given history exactly when the fresh run is insensitive to the fuel offsets `(σ₀.vars.length,
σ₀.constrs.length)`; `C16s_history_independent_partial` is the usable direction. It is NOT true in general
(`C16s_history_independent_fails*`, kernel-checked): with constraints `fulfill` / `minimize` compare the terms of a
constraint by `match`; on terms nested deeper than `4·vars + 64` the comparison gives up in the short store and succeeds
behind a history — an elimination constraint stays pending in one run and is resolved in the other; the two runs can even
fail with different errors. (In the constraint-free engine `match` is only called by the occurs check, where it cannot
succeed on a concrete argument: there the statement holds unconditionally, C16 §3.)

The same for every function of the engine block, `instantiate` and `Type.apply`, for stores `σ₀.appendC σ` with `σ`
scoped (`ScopedC`, implied by the invariant `OkStoreC`) and ARBITRARY (also schematic) terms over allocated variables
(§4): there is no exception for non-concrete arguments in this form (`C16_history_independent_unify_fails` is the
statement with both fuel offsets `0`).

Statements only; proofs in `Tfv/Proofs/HistoryConstr*.lean` (namespace `Tfv.C16H`).
-/
namespace Tfv.C16
open Tfv Tfv.C03P Tfv.C03C Tfv.C16P Tfv.C16C Tfv.C16H

/-! ## 1. the store behind a history, with its constraints -/

/-- `appendC` extends `append`: for a store without constraints (all constraint sets empty, no constraint records) the
two coincide — the stores of the constraint-free engine. -/
theorem C16s_appendC_extends_append (σ₀ σ : Store) (nc : NoConstraints σ) (hk : σ.constrs = []) :
    σ₀.appendC σ = σ₀.append σ :=
  appendC_eq_append σ₀ σ nc hk

example : NoConstraints σS1fix ∧ σS1fix.constrs = [] ∧ hist3.appendC σS1fix = hist3.append σS1fix :=
  ⟨noConstraintsB_sound (by decide), rfl, appendC_eq_append _ _ (noConstraintsB_sound (by decide)) rfl⟩

/-- … hence `afterHistoryC` is `afterHistory` on every outcome whose store has no constraints, and the main theorem
of C16 §3 is the special case of `C16s_history_shift` / `C16s_history_independent_partial` for such runs. -/
theorem C16s_afterHistoryC_extends_afterHistory (σ₀ : Store) (r : Except Err (Store × Term))
    (h : ∀ σ t, r = .ok (σ, t) → NoConstraints σ ∧ σ.constrs = []) :
    afterHistoryC σ₀ r = afterHistory σ₀ r :=
  afterHistoryC_eq_afterHistory σ₀ r h

example : ∀ σ t, useSchema exL 10 true {} exSch [.app 6 []] = .ok (σ, t) → NoConstraints σ ∧ σ.constrs = [] := by
  intro σ t h
  rw [exUse_run0] at h
  injection h with h
  injection h with h1 h2
  subst h1
  exact ⟨noConstraintsB_sound (by decide), rfl⟩

/-- FINDING (ill-formed input only): `σ.constrs = []` alone is not enough — a constraint set may hold a dangling
constraint id, which `appendC` shifts and `append` does not. -/
theorem C16s_appendC_extends_append_needs_empty_sets :
    (({ constrs := [.sub (.var 0) (.var 0) false true] } : Store).appendC { csets := [[0]] }) ≠
      (({ constrs := [.sub (.var 0) (.var 0) false true] } : Store).append { csets := [[0]] }) :=
  appendC_ne_append_dangling

/-- Reading a store behind a history: the history's own variables, constraint sets and constraints are as in the
history; the others are the shifted records of `σ`; sizes add up; `σ₀.appendC {} = σ₀` for EVERY `σ₀`. -/
theorem C16s_read_appendC (σ₀ σ : Store) :
    (∀ v, v < σ₀.vars.length → getVar (σ₀.appendC σ) v = getVar σ₀ v) ∧
    (∀ k, k < σ₀.csets.length → getCset (σ₀.appendC σ) k = getCset σ₀ k) ∧
    (∀ c, c < σ₀.constrs.length → getConstr (σ₀.appendC σ) c = getConstr σ₀ c) ∧
    (∀ v, v < σ.vars.length →
      getVar (σ₀.appendC σ) (v + σ₀.vars.length) = (getVar σ v).shift σ₀.vars.length σ₀.csets.length) ∧
    (∀ k, getCset (σ₀.appendC σ) (k + σ₀.csets.length) = shiftIds σ₀.constrs.length (getCset σ k)) ∧
    (∀ c, c < σ.constrs.length →
      getConstr (σ₀.appendC σ) (c + σ₀.constrs.length) = (getConstr σ c).shift σ₀.vars.length) ∧
    (σ₀.appendC σ).vars.length = σ₀.vars.length + σ.vars.length ∧
    (σ₀.appendC σ).csets.length = σ₀.csets.length + σ.csets.length ∧
    (σ₀.appendC σ).constrs.length = σ₀.constrs.length + σ.constrs.length ∧
    σ₀.appendC {} = σ₀ :=
  ⟨fun _ h => getVar_appendC_lt h, fun _ h => getCset_appendC_lt h, fun _ h => getConstr_appendC_lt h,
   fun _ h => getVar_appendC_ge h, fun k => getCset_appendC σ₀ σ k, fun _ h => getConstr_appendC h,
   vlen_appendC σ₀ σ, klen_appendC σ₀ σ, clen_appendC σ₀ σ, appendC_empty σ₀⟩

/-- non-vacuity: `σSub` (the result of using `x ** x [x ≤ A]` on `B`) behind `σCC` (two pending constraints) -/
example : σCC.appendC σSub =
    { vars := [{}, { cset := 1 }, { bound := some (.app 6 []), lower := some 6, cset := 2 }],
      csets := [[0], [1], []],
      constrs := [.sub (.var 0) (.app 5 []) false false, .sub (.var 1) (.app 5 []) false false,
        .sub (.var 2) (.app 5 []) false true] } := by decide +kernel

/-- Placing behind a history loses nothing: `afterHistoryC σ₀` is injective. -/
theorem C16s_afterHistoryC_injective (σ₀ : Store) (r r' : Except Err (Store × Term))
    (h : afterHistoryC σ₀ r = afterHistoryC σ₀ r') : r = r' :=
  afterHistoryC_inj σ₀ r r' h

example : afterHistoryC σCC (.ok (σSub, .app 6 [])) = afterHistoryC σCC (.ok (σSub, .app 6 [])) := rfl

/-! ## 2. the engine with fuel offsets -/

/-- With both offsets `0` the engine with fuel offsets is the model. -/
theorem C16s_offsets_zero (L : Lang) (n : Nat) (fixFlag : Bool) (σ : Store) (s : Schema) (xs : List Term) :
    useSchemaE L 0 0 n fixFlag σ s xs = useSchema L n fixFlag σ s xs :=
  useSchemaE_zero L n fixFlag σ s xs

example : useSchemaE exL 0 0 40 true {} sElim [.app 6 []] = .ok (σElim, .app 5 []) := by
  rw [useSchemaE_zero]; exact exElim_fresh

/-! ## 3. one whole use behind ANY history -/

/-- THE SHIFT THEOREM. One use of a definition WITH constraints — instantiate the schema `s`, apply the instance to the
concrete argument types `xs` in turn — started behind ANY history `σ₀` (no hypothesis: pending constraints, bound
variables, even ill-formed records are allowed) gives the outcome of the use started in the empty store with the four
store-size fuels computed as behind `σ₀.vars.length` more variables and `σ₀.constrs.length` more constraints, placed
behind the history: the same error, or the history followed by the shifted store, and the shifted result type.
The history is never read and never written; only its size enters, and only through these fuels. -/
theorem C16s_history_shift (L : Lang) (n : Nat) (fixFlag : Bool) (σ₀ : Store) (s : Schema) (xs : List Term)
    (hcs : ∀ c, c ∈ s.constraints → okCAstN L (s.nvars + s.nwild) c = true)
    (hbody : okTermN L (s.nvars + s.nwild) s.body = true) (hxs : Term.closedL xs = true) :
    useSchema L n fixFlag σ₀ s xs =
      afterHistoryC σ₀ (useSchemaE L σ₀.vars.length σ₀.constrs.length n fixFlag {} s xs) :=
  useSchema_shift σ₀ hcs hbody hxs

/-- non-vacuity: `x ** x [x << {A, B}]` (an elimination constraint) used on `B` behind `σC`, a history that carries the
pending constraint `x0 ≤ A` -/
example : (∀ c, c ∈ sElim.constraints → okCAstN exL (sElim.nvars + sElim.nwild) c = true) ∧
    okTermN exL (sElim.nvars + sElim.nwild) sElim.body = true ∧ Term.closedL [.app 6 []] = true ∧
    σC.constrs = [.sub (.var 0) (.app 5 []) false false] ∧ getCset σC 0 = [0] :=
  ⟨sElim_ok.1, sElim_ok.2, by decide, rfl, rfl⟩

/-- THE MAIN STATEMENT, as strong as it is true. PARTIAL: behind a history `σ₀` the use gives the outcome of the use
from the empty store placed behind the history, PROVIDED the fresh run does not depend on the fuel offsets the history
induces (`hstable`; decidable by evaluation, and by `C16s_history_independent_iff` also necessary). Without `hstable`
the statement is false of the model: `C16s_history_independent_fails`. -/
theorem C16s_history_independent_partial (L : Lang) (n : Nat) (fixFlag : Bool) (σ₀ : Store) (s : Schema)
    (xs : List Term) (hcs : ∀ c, c ∈ s.constraints → okCAstN L (s.nvars + s.nwild) c = true)
    (hbody : okTermN L (s.nvars + s.nwild) s.body = true) (hxs : Term.closedL xs = true)
    (hstable : useSchemaE L σ₀.vars.length σ₀.constrs.length n fixFlag {} s xs = useSchema L n fixFlag {} s xs) :
    useSchema L n fixFlag σ₀ s xs = afterHistoryC σ₀ (useSchema L n fixFlag {} s xs) :=
  (useSchema_shift_iff σ₀ hcs hbody hxs).mpr hstable

/-- non-vacuity: the elimination constraint behind the history with a pending constraint: `hstable` holds … -/
example : useSchemaE exL σC.vars.length σC.constrs.length 40 true {} sElim [.app 6 []] =
    useSchema exL 40 true {} sElim [.app 6 []] := exElim_stable

/-- … and both sides evaluated by the kernel (independently of the theorem): equal up to the shift -/
example : useSchema exL 40 true σC sElim [.app 6 []] =
      .ok ({ vars := [{}, { bound := some (.app 5 []), upper := some 5, cset := 1 }], csets := [[0], []],
             constrs := [.sub (.var 0) (.app 5 []) false false, .elim (.var 1) [.app 5 []] true] }, .app 5 []) ∧
    useSchema exL 40 true {} sElim [.app 6 []] = .ok (σElim, .app 5 []) ∧
    useSchema exL 40 true σC sElim [.app 6 []] = afterHistoryC σC (useSchema exL 40 true {} sElim [.app 6 []]) :=
  ⟨exElim_behind, exElim_fresh, exElim_shift⟩

/-- a SUBTYPE constraint (`x ** x [x ≤ A]` on `B`) behind a history with two pending constraints -/
example : useSchemaE exL σCC.vars.length σCC.constrs.length 40 true {} exSC [.app 6 []] =
      useSchema exL 40 true {} exSC [.app 6 []] ∧
    useSchema exL 40 true {} exSC [.app 6 []] = .ok (σSub, .app 6 []) ∧
    useSchema exL 40 true σCC exSC [.app 6 []] = afterHistoryC σCC (useSchema exL 40 true {} exSC [.app 6 []]) :=
  ⟨exSub_stable, exSub_fresh, exSub_shift⟩

/-- a subtype constraint against a compound type (`x ** y ** x [x ≤ F(y)]` on `F(B)`, `A`): the re-check with
`skip_basic` allocates a fresh skeleton variable; behind the same history -/
example : useSchema exL 60 true {} sSubF [.app 7 [.app 6 []], .app 5 []] = .ok (σSubF, .app 7 [.var 2]) ∧
    useSchema exL 60 true σCC sSubF [.app 7 [.app 6 []], .app 5 []] =
      afterHistoryC σCC (useSchema exL 60 true {} sSubF [.app 7 [.app 6 []], .app 5 []]) :=
  ⟨exSubF_fresh, exSubF_shift⟩

/-- The main statement holds for a history EXACTLY when the fresh run is insensitive to the fuel offsets. -/
theorem C16s_history_independent_iff (L : Lang) (n : Nat) (fixFlag : Bool) (σ₀ : Store) (s : Schema)
    (xs : List Term) (hcs : ∀ c, c ∈ s.constraints → okCAstN L (s.nvars + s.nwild) c = true)
    (hbody : okTermN L (s.nvars + s.nwild) s.body = true) (hxs : Term.closedL xs = true) :
    useSchema L n fixFlag σ₀ s xs = afterHistoryC σ₀ (useSchema L n fixFlag {} s xs) ↔
      useSchemaE L σ₀.vars.length σ₀.constrs.length n fixFlag {} s xs = useSchema L n fixFlag {} s xs :=
  useSchema_shift_iff σ₀ hcs hbody hxs

example : (∀ c, c ∈ sDeep.constraints → okCAstN exL (sDeep.nvars + sDeep.nwild) c = true) ∧
    okTermN exL (sDeep.nvars + sDeep.nwild) sDeep.body = true ∧ Term.closedL ([] : List Term) = true :=
  ⟨sDeep_ok.1, sDeep_ok.2, rfl⟩

/-- For a schema WITHOUT constraints the hypothesis `hstable` of `C16s_history_independent_partial` holds for ALL fuel
offsets: the use from the empty store never runs a fuelled primitive to its limit. With
`C16s_afterHistoryC_extends_afterHistory` the main theorem of the constraint-free engine (`C16_history_independent`)
is the special case of `C16s_history_independent_partial`. (Derived from that theorem and the shift theorem.) -/
theorem C16s_constraint_free_stable (L : Lang) (n : Nat) (fixFlag : Bool) (s : Schema) (xs : List Term)
    (hc : s.constraints = []) (hbody : okTermN L (s.nvars + s.nwild) s.body = true)
    (hxs : Term.closedL xs = true) (kv kc : Nat) :
    useSchemaE L kv kc n fixFlag {} s xs = useSchema L n fixFlag {} s xs :=
  useSchemaE_stable_constraint_free hc hbody hxs kv kc

example : exSch.constraints = [] ∧ okTermN exL (exSch.nvars + exSch.nwild) exSch.body = true ∧
    Term.closedL [.app 6 []] = true := ⟨rfl, by decide, by decide⟩

/-- THE DEPENDENCE ON THE HISTORY, stated about the model alone (no engine with offsets in the statement): the outcome
of a use behind a history is a function `F` of the NUMBERS of variables and of constraints of the history only, placed
behind the history; `F 0 0` is the use from the empty store. (Since `afterHistoryC σ₀` is injective, `F` is determined
by the model: it is `useSchemaE`.) -/
theorem C16s_history_enters_through_sizes_only (L : Lang) (n : Nat) (fixFlag : Bool) (s : Schema) (xs : List Term)
    (hcs : ∀ c, c ∈ s.constraints → okCAstN L (s.nvars + s.nwild) c = true)
    (hbody : okTermN L (s.nvars + s.nwild) s.body = true) (hxs : Term.closedL xs = true) :
    ∃ F : Nat → Nat → Except Err (Store × Term), F 0 0 = useSchema L n fixFlag {} s xs ∧
      ∀ σ₀ : Store, useSchema L n fixFlag σ₀ s xs = afterHistoryC σ₀ (F σ₀.vars.length σ₀.constrs.length) :=
  useSchema_sizes_only hcs hbody hxs

example : (∀ c, c ∈ sSubF.constraints → okCAstN exL (sSubF.nvars + sSubF.nwild) c = true) ∧
    okTermN exL (sSubF.nvars + sSubF.nwild) sSubF.body = true ∧
    Term.closedL [.app 7 [.app 6 []], .app 5 []] = true := ⟨sSubF_ok.1, sSubF_ok.2, by decide⟩

/-- The main statement, PARTIAL, with a hypothesis about the model only: if it holds behind the BLANK history of the
same numbers of variables and constraints (`blankHistory k m`: `k` unresolved variables, `m` inert constraint records —
decidable by evaluating the model), it holds behind `σ₀`, whatever `σ₀` contains. -/
theorem C16s_history_independent_of_blank_partial (L : Lang) (n : Nat) (fixFlag : Bool) (σ₀ : Store) (s : Schema)
    (xs : List Term) (hcs : ∀ c, c ∈ s.constraints → okCAstN L (s.nvars + s.nwild) c = true)
    (hbody : okTermN L (s.nvars + s.nwild) s.body = true) (hxs : Term.closedL xs = true)
    (hblank : useSchema L n fixFlag (blankHistory σ₀.vars.length σ₀.constrs.length) s xs =
      afterHistoryC (blankHistory σ₀.vars.length σ₀.constrs.length) (useSchema L n fixFlag {} s xs)) :
    useSchema L n fixFlag σ₀ s xs = afterHistoryC σ₀ (useSchema L n fixFlag {} s xs) :=
  useSchema_shift_transfer σ₀ (blankHistory σ₀.vars.length σ₀.constrs.length) (vlen_blankHistory _ _)
    (clen_blankHistory _ _) hcs hbody hxs hblank

example : useSchema exL 40 true (blankHistory σC.vars.length σC.constrs.length) sElim [.app 6 []] =
    afterHistoryC (blankHistory σC.vars.length σC.constrs.length) (useSchema exL 40 true {} sElim [.app 6 []]) :=
  exElim_blank

/-- FINDING. With constraints THE MAIN STATEMENT IS FALSE of the model — for a well-formed language, a history that
satisfies the invariant `OkStoreC` (one unresolved variable), a well-formed schema and no arguments at all.
`sDeep` is `x ** x [x << {F⁷⁰(A), F⁷⁰(B)}]`: `minimize` compares the two alternatives with `match`, fuel
`4·vars + 64`; from the empty store (one variable, fuel 68) the comparison runs out of fuel, answers "not enough
information", and the constraint stays pending with both alternatives; behind one more variable (fuel 72) it finds
`F⁷⁰(B) ≤ F⁷⁰(A)`, keeps `F⁷⁰(A)` only and binds `x`. -/
theorem C16s_history_independent_fails :
    ¬ (∀ (L : Lang) (n : Nat) (fixFlag : Bool) (σ₀ : Store) (s : Schema) (xs : List Term), WF L → OkStoreC L σ₀ →
        (∀ c, c ∈ s.constraints → okCAstN L (s.nvars + s.nwild) c = true) →
        okTermN L (s.nvars + s.nwild) s.body = true → Term.closedL xs = true →
        useSchema L n fixFlag σ₀ s xs = afterHistoryC σ₀ (useSchema L n fixFlag {} s xs)) :=
  history_shift_counterexample

/-- … what the two runs give: from the empty store `x` is unresolved and its constraint pending; behind the history of
one variable `x` (now `x1`) is bound and the constraint gone. -/
theorem C16s_history_independent_fails_outcomes :
    (∃ σ t, useSchema exL 200 true {} sDeep [] = .ok (σ, t) ∧ (getVar σ 0).bound = none ∧ getCset σ 0 = [0]) ∧
    (∃ σ t, useSchema exL 200 true σ1 sDeep [] = .ok (σ, t) ∧ (getVar σ 1).bound.isSome = true ∧
      getCset σ 1 = []) :=
  ⟨exDeep_fresh_pending, exDeep_behind_bound⟩

/-- … and applied to `B` the same schema is rejected with DIFFERENT errors: from the empty store `B` is matched against
both pending alternatives and fits none (`constraintViolation`); behind the history `x` is already `F⁷⁰(A)` and the
application fails in `unify` (`subtypeMismatch`). -/
theorem C16s_history_independent_fails_errors :
    useSchema exL 200 true {} sDeep [.app 6 []] = .error .constraintViolation ∧
    useSchema exL 200 true σ1 sDeep [.app 6 []] = .error .subtypeMismatch :=
  exDeep_errors

/-- … and a SHALLOW schema, `x ** y ** z [z << {x, y}]`, applied to the deep concrete arguments `F⁷⁷(A)`, `F⁷⁷(B)`:
from the empty store the result type is the unresolved `z`; behind a history of one variable it is `F⁷⁷(A)`. -/
theorem C16s_history_independent_fails_shallow_schema :
    (∃ σ, useSchema exL 300 true {} sXYZ [dA 77, dB 77] = .ok (σ, .var 2)) ∧
    (∃ σ, useSchema exL 300 true σ1 sXYZ [dA 77, dB 77] = .ok (σ, dA 77)) :=
  exXYZ_results

/-- Two histories with the same numbers of variables and of constraints — whatever they contain, and however many
constraint-set objects they allocated — give the same run up to re-basing: both outcomes are the SAME fresh outcome
`r`, placed behind the respective history. (Strengthens `C16c_history_content_irrelevant`: equal numbers of constraint
sets are not needed, and the conclusion is an equation.) -/
theorem C16s_history_content_irrelevant (L : Lang) (n : Nat) (fixFlag : Bool) (σ₀ σ₀' : Store) (s : Schema)
    (xs : List Term) (hv : σ₀'.vars.length = σ₀.vars.length) (hk : σ₀'.constrs.length = σ₀.constrs.length)
    (hcs : ∀ c, c ∈ s.constraints → okCAstN L (s.nvars + s.nwild) c = true)
    (hbody : okTermN L (s.nvars + s.nwild) s.body = true) (hxs : Term.closedL xs = true) :
    ∃ r, useSchema L n fixFlag σ₀ s xs = afterHistoryC σ₀ r ∧ useSchema L n fixFlag σ₀' s xs = afterHistoryC σ₀' r :=
  useSchema_content_irrelevant σ₀ σ₀' hv hk hcs hbody hxs

example : σCalt.vars.length = σC.vars.length ∧ σCalt.constrs.length = σC.constrs.length ∧
    getVar σCalt 0 ≠ getVar σC 0 := ⟨rfl, rfl, σCalt_differs⟩

/-! ## 4. the engine behind a history, arbitrary terms -/

/-- The same for a use that starts in any store `σ` satisfying the invariant `OkStoreC` (not only the empty one), with
ARBITRARY — also schematic — argument types over its variables: `σ₀.appendC σ` behaves as `σ` with the fuel offsets of
`σ₀`. -/
theorem C16s_history_shift_general (L : Lang) (n : Nat) (fixFlag : Bool) (σ₀ σ : Store) (s : Schema)
    (xs : List Term) (okc : OkStoreC L σ)
    (hcs : ∀ c, c ∈ s.constraints → okCAstN L (s.nvars + s.nwild) c = true)
    (hbody : okTermN L (s.nvars + s.nwild) s.body = true) (hxs : ∀ x, x ∈ xs → okTerm L σ x = true) :
    useSchema L n fixFlag (σ₀.appendC σ) s (Term.shiftL σ₀.vars.length xs) =
      afterHistoryC σ₀ (useSchemaE L σ₀.vars.length σ₀.constrs.length n fixFlag σ s xs) :=
  useSchema_historyC (behind_of_scopedC (scopedC_of_okStoreC okc)) hcs hbody
    (fun x hx => termScoped_of_okTerm (hxs x hx))

example : OkStoreC exL σCC ∧ (∀ x, x ∈ [Term.var 0] → okTerm exL σCC x = true) :=
  ⟨σCC_okc, by decide⟩

/-- Instantiating a schema WITH constraints behind ANY history: the shifted instance with the fuel offsets. -/
theorem C16s_instantiate_shift (L : Lang) (n : Nat) (σ₀ : Store) (s : Schema)
    (hcs : ∀ c, c ∈ s.constraints → okCAstN L (s.nvars + s.nwild) c = true)
    (hbody : okTermN L (s.nvars + s.nwild) s.body = true) :
    instantiate L n σ₀ s = afterHistoryC σ₀ (instantiateE L σ₀.vars.length σ₀.constrs.length n {} s) :=
  instantiate_shift σ₀ hcs hbody

example : (∀ c, c ∈ exSC.constraints → okCAstN exL (exSC.nvars + exSC.nwild) c = true) ∧
    okTermN exL (exSC.nvars + exSC.nwild) exSC.body = true ∧
    instantiate exL 11 σC exSC = .ok (σCC, .app FUN [.var 1, .var 1]) :=
  ⟨exSC_ok.1, exSC_ok.2, exCC_inst⟩

/-- Unification, ANY flags, of ARBITRARY terms over the variables of a scoped store `σ` placed behind ANY history: the
same error as, or the store of, the unification with fuel offsets on `σ` itself, placed behind the history. There is no
exception for non-concrete terms: the finding `C16_history_independent_unify_fails` is exactly the difference between
the fuel offsets `σ₀.vars.length` and `0`. -/
theorem C16s_unify_shift (L : Lang) (n : Nat) (σ₀ σ : Store) (a b : Term) (st sb sw : Bool) (hs : ScopedC σ)
    (ha : TermScoped σ a) (hb : TermScoped σ b) :
    unify L n (σ₀.appendC σ) (a.shift σ₀.vars.length) (b.shift σ₀.vars.length) st sb sw =
      (unifyE L σ₀.vars.length n σ a b st sb sw).map (σ₀.appendC ·) :=
  unify_shift hs ha hb

example : ScopedC σCC ∧ TermScoped σCC (.app 6 []) ∧ TermScoped σCC (.var 0) :=
  ⟨σCC_scoped, termScoped_base 6, termScoped_var.mpr (by decide)⟩

/-- `TypeVariable.bind` behind a history. -/
theorem C16s_bind_shift (L : Lang) (n : Nat) (σ₀ σ : Store) (v : Nat) (t : Term) (hs : ScopedC σ)
    (hv : v < σ.vars.length) (ht : TermScoped σ t) :
    bind L n (σ₀.appendC σ) (v + σ₀.vars.length) (t.shift σ₀.vars.length) =
      (bindE L σ₀.vars.length n σ v t).map (σ₀.appendC ·) :=
  bind_shift hs hv ht

example : ScopedC σCC ∧ 0 < σCC.vars.length ∧ TermScoped σCC (.app 6 []) :=
  ⟨σCC_scoped, by decide, termScoped_base 6⟩

/-- Re-checking the constraints of a variable (`check_constraints`) behind a history. -/
theorem C16s_check_shift (L : Lang) (n : Nat) (σ₀ σ : Store) (v : Nat) (hs : ScopedC σ) (hv : v < σ.vars.length) :
    checkConstraints L n (σ₀.appendC σ) (v + σ₀.vars.length) =
      (checkConstraintsE L σ₀.vars.length n σ v).map (σ₀.appendC ·) :=
  check_shift hs hv

example : ScopedC σCC ∧ 1 < σCC.vars.length := ⟨σCC_scoped, by decide⟩

/-- `Constraint.fulfill()` of the constraint `c` of `σ` — constraint `c + σ₀.constrs.length` behind the history: the
same error, or the same answer and the store placed behind the history. -/
theorem C16s_fulfill_shift (L : Lang) (n : Nat) (σ₀ σ : Store) (c : Nat) (hs : ScopedC σ)
    (hc : c < σ.constrs.length) :
    fulfill L n (σ₀.appendC σ) (c + σ₀.constrs.length) =
      (fulfillE L σ₀.vars.length n σ c).map (fun p => (σ₀.appendC p.1, p.2)) :=
  fulfill_shift hs hc

example : ScopedC σCC ∧ 1 < σCC.constrs.length := ⟨σCC_scoped, by decide⟩

/-- `fix` behind a history: the shifted result. -/
theorem C16s_fix_shift (L : Lang) (n : Nat) (σ₀ σ : Store) (t : Term) (pl : Bool) (hs : ScopedC σ)
    (ht : TermScoped σ t) :
    fix L n (σ₀.appendC σ) (t.shift σ₀.vars.length) pl = afterHistoryC σ₀ (fixE L σ₀.vars.length n σ t pl) :=
  (all_historyC L σ₀ n).2.2.2.2.2.1 σ t pl (behind_of_scopedC hs) ht

example : ScopedC σCC ∧ TermScoped σCC (.var 1) := ⟨σCC_scoped, termScoped_var.mpr (by decide)⟩

/-- `Type.apply` of ARBITRARY types over the variables of `σ` behind a history: the shifted application. -/
theorem C16s_apply_shift (L : Lang) (n : Nat) (σ₀ σ : Store) (f x : Term) (fixFlag : Bool) (hs : ScopedC σ)
    (hf : TermScoped σ f) (hx : TermScoped σ x) :
    applyT L n (σ₀.appendC σ) (f.shift σ₀.vars.length) (x.shift σ₀.vars.length) fixFlag =
      afterHistoryC σ₀ (applyTE L σ₀.vars.length n σ f x fixFlag) :=
  applyT_historyC (behind_of_scopedC hs) hf hx

example : ScopedC σCC ∧ TermScoped σCC (.app FUN [.var 0, .var 0]) ∧ TermScoped σCC (.var 1) :=
  ⟨σCC_scoped, fun _ hv => varIn_okTerm (L := exL) (σ := σCC) _ (by decide) hv, termScoped_var.mpr (by decide)⟩

/-- The hypothesis `ScopedC` of this section follows from the invariant `OkStoreC` of the constrained engine (which
every store built by the engine from the empty store satisfies, C03Constr), and holds of the empty store. -/
theorem C16s_scoped_of_invariant (L : Lang) (σ : Store) (okc : OkStoreC L σ) :
    ScopedC σ ∧ (∀ t, okTerm L σ t = true → TermScoped σ t) ∧ ScopedC {} :=
  ⟨scopedC_of_okStoreC okc, fun _ h => termScoped_of_okTerm h, scopedC_empty⟩

example : OkStoreC exL σCC := σCC_okc

end Tfv.C16
