import Tfv.Proofs.Notation
import Tfv.Proofs.ParseTotal
import Tfv.Proofs.NotationAnnSpec
import Tfv.Proofs.NotationAnnType
/-!
# C13 with annotations: the expression parser on rendered spines, for an arbitrary builder

`parse_items`: the stack machine `parseExprLoop`, run with any `Builder`, started anywhere, consumes the rendering
of a spine (annotations included) and leaves the spine's denotation `den` — or stops with its error.
The loop is always run with the fuel `parseExprToks` gives it (`length + 1`); `parseExprLoop_fuel` makes the fuel
irrelevant when the type parser has consumed tokens.
-/
namespace Tfv.NotationAnn
open Tfv Tfv.Notation Tfv.TypeText

section steps
variable {S E : Type} (P : PLang) (B : Builder S E) (inputs : List E)

/-- the loop with the fuel of `parseExprToks` -/
abbrev runG (s : EState S E) (ts : List String) : Except PErr (EState S E) :=
  parseExprLoop P B inputs false (ts.length + 1) s ts

/-- continue with the result of a denotation: the new accumulator is put on the stack by `mk` -/
def cont (mk : Option E → List (Option E)) (rest : List String) (p' : String) :
    Except PErr (S × Option E) → Except PErr (EState S E)
  | .error e => .error e
  | .ok (st', k') => runG P B inputs ⟨st', mk k', false, p'⟩ rest

theorem run_step (s : EState S E) (tok : String) (rest : List String)
    (h1 : tok ≠ "#") (h2 : tok ≠ "\n") (h3 : tok ≠ ":") (hc : s.comment = false) :
    runG P B inputs s (tok :: rest) =
      match exprStep B inputs false s.st s.stack tok with
      | .error e => .error e
      | .ok (st', stack') => runG P B inputs { s with st := st', stack := stack', prevTok := tok } rest :=
  Notation.loop_step P B inputs false (rest.length + 1) s tok rest h1 h2 h3 hc

theorem step_open (st : S) (stack : List (Option E)) (p : String) (rest : List String) :
    runG P B inputs ⟨st, stack, false, p⟩ ("(" :: rest) = runG P B inputs ⟨st, none :: stack, false, "("⟩ rest := by
  rw [run_step P B inputs _ _ _ (by decide) (by decide) (by decide) rfl]
  simp [exprStep]

theorem step_comma (st : S) (t k : Option E) (Sk : List (Option E)) (p : String) (rest : List String) :
    runG P B inputs ⟨st, t :: k :: Sk, false, p⟩ ("," :: rest)
    = cont P B inputs (fun k1 => none :: k1 :: Sk) rest "," (gappO B st k t) := by
  rw [run_step P B inputs _ _ _ (by decide) (by decide) (by decide) rfl]
  cases t with
  | none => cases k <;> simp [exprStep, gappO, cont]
  | some y =>
    cases k with
    | none => simp [exprStep, gappO, gapp, someR, cont]
    | some x =>
      simp only [exprStep, gappO, gapp]
      cases B.mkApp st x y with
      | error e => simp [someR, cont]
      | ok r => simp [someR, cont]

theorem step_close (st : S) (t k : Option E) (Sk : List (Option E)) (p : String) (rest : List String) :
    runG P B inputs ⟨st, t :: k :: Sk, false, p⟩ (")" :: rest)
    = cont P B inputs (fun k1 => k1 :: Sk) rest ")" (gappO B st k t) := by
  rw [run_step P B inputs _ _ _ (by decide) (by decide) (by decide) rfl]
  cases t with
  | none => cases k <;> simp [exprStep, gappO, cont]
  | some y =>
    cases k with
    | none => simp [exprStep, gappO, gapp, someR, cont]
    | some x =>
      simp only [exprStep, gappO, gapp]
      cases B.mkApp st x y with
      | error e => simp [someR, cont]
      | ok r => simp [someR, cont]

/-- the value `parse_expr` computes for a token that is not punctuation -/
def curOf (st : S) (tok : String) : Except PErr (S × E) :=
  if tok == "-" then .ok (B.mkSource st)
  else match parseDecimal tok with
    | some k =>
      (match lookupInput inputs k with
       | some e => .ok (st, e)
       | none => .error (.missingInput k))
    | none => B.mkOp st tok

theorem step_cur (st : S) (k : Option E) (Sk : List (Option E)) (p : String) (rest : List String) (tok : String)
    (h1 : tok ≠ "#") (h2 : tok ≠ "\n") (h3 : tok ≠ "(") (h4 : tok ≠ ",") (h5 : tok ≠ ")") (h6 : tok ≠ ":")
    (h7 : tok ≠ ";") :
    runG P B inputs ⟨st, k :: Sk, false, p⟩ (tok :: rest)
    = cont P B inputs (fun k1 => k1 :: Sk) rest tok (pushCur B k (curOf B inputs st tok)) := by
  rw [run_step P B inputs _ _ _ h1 h2 h6 rfl]
  have hp : (tok == "(" || tok == "," || tok == ")") = false := by simp [h3, h4, h5]
  have hs : (tok == ";") = false := by simp [h7]
  unfold exprStep curOf
  simp only [hp, hs, Bool.false_eq_true, if_false]
  generalize (if (tok == "-") = true then _ else _ : Except PErr (S × E)) = cur
  cases cur with
  | error e => simp [pushCur, cont]
  | ok r =>
    obtain ⟨st', x⟩ := r
    cases k with
    | none => simp [pushCur, gapp, someR, cont]
    | some f =>
      simp only [pushCur, gapp]
      cases B.mkApp st' f x with
      | error e => simp [someR, cont]
      | ok r => simp [someR, cont]

theorem curOf_name (st : S) (tok : String) (hn : isNameToken tok = true) : curOf B inputs st tok = B.mkOp st tok := by
  obtain ⟨-, -, -, -, -, -, -, h8, h9⟩ := isNameToken_spec hn
  simp [curOf, h8, h9]

theorem curOf_src (st : S) : curOf B inputs st "-" = .ok (B.mkSource st) := by
  simp [curOf]

theorem curOf_input (st : S) (i : Nat) :
    curOf B inputs st (toString i) =
      match lookupInput inputs i with
      | some e => .ok (st, e)
      | none => .error (.missingInput i) := by
  have h8 := (toString_not_special i).2.2.2.2.2.2.2
  simp only [curOf, beq_iff_eq, h8, if_false, parseDecimal_toString]

/-- the in-line type parser reads the printed form of `T` exactly -/
def InlineOk (P : PLang) (T : Ty) : Prop :=
  ∀ (vb : Nat) (rest : List String),
    parseTypeLoop P false vb {} (typeToks P.types T ++ rest) = .ok (T.toTerm, 0, rest)

theorem inlineOk_printable (P : PLang) (hN : TextNames P.types) (T : Ty) (hT : printable P.types T = true) :
    InlineOk P T := fun vb rest => inline_typeToks P vb hN T hT rest

theorem step_ann (T : Ty) (hT : InlineOk P T)
    (st : S) (e : E) (Sk : List (Option E)) (p : String) (rest : List String) :
    runG P B inputs ⟨st, some e :: Sk, false, p⟩ (":" :: (typeToks P.types T ++ rest))
    = cont P B inputs (fun k1 => k1 :: Sk) rest ":" (someR (B.annotate st e T.toTerm 0 (p == "-"))) := by
  unfold runG
  rw [List.length_cons, parseExprLoop]
  have c1 : (":" == "#") = false := by decide
  have c2 : (":" == "\n") = false := by decide
  have c3 : (":" == "(" || ":" == "," || ":" == ")") = false := by decide
  simp only [c1, c2, c3, Bool.false_eq_true, if_false, beq_self_eq_true, if_true,
    hT _ rest]
  cases B.annotate st e T.toTerm 0 (p == "-") with
  | error err => simp [someR, cont]
  | ok r =>
    simp only [someR, cont]
    exact parseExprLoop_fuel P B inputs false _ _ _ _ (by simp; omega) (by omega)

theorem step_ann_none (T : Ty) (st : S) (Sk : List (Option E)) (p : String) (rest : List String) :
    runG P B inputs ⟨st, none :: Sk, false, p⟩ (":" :: (typeToks P.types T ++ rest))
    = .error (.parseError "Type annotation without an expression") := by
  unfold runG
  rw [List.length_cons, parseExprLoop]
  have c1 : (":" == "#") = false := by decide
  have c2 : (":" == "\n") = false := by decide
  have c3 : (":" == "(" || ":" == "," || ":" == ")") = false := by decide
  simp only [c1, c2, c3, Bool.false_eq_true, if_false, beq_self_eq_true, if_true]

theorem itemLast_dash (okT : Ty → Bool) (it : AItem) (h : aOk okT it = true) : (itemLast it == "-") = isSrcItem it := by
  cases it with
  | op name =>
    simp only [aOk] at h
    have := (isNameToken_spec h).2.2.2.2.2.2.2.1
    simp [itemLast, isSrcItem, this]
  | src => rfl
  | input i =>
    have := (toString_not_special i).2.2.2.2.2.2.2
    simp only [itemLast, isSrcItem, beq_eq_false_iff_ne, ne_eq]
    exact this
  | group ss => simp [itemLast, isSrcItem]
  | ann T => simp [itemLast, isSrcItem]

/-- the rest of a group after a sub-spine with value `t` -/
def sepsDen (st : S) (k t : Option E) (ss : List (List AItem)) : Except PErr (S × Option E) :=
  match gappO B st k t with
  | .error e => .error e
  | .ok (st1, k1) => denGroup B inputs st1 k1 ss

theorem denGroup_cons (st : S) (k : Option E) (s : List AItem) (ss : List (List AItem)) :
    denGroup B inputs st k (s :: ss) =
      match den B inputs st none false s with
      | .error e => .error e
      | .ok (st', v) => sepsDen B inputs st' k v ss := by
  simp only [denGroup, sepsDen]
  cases den B inputs st none false s with
  | error e => rfl
  | ok r =>
    obtain ⟨st1, v⟩ := r
    simp only []
    cases gappO B st1 k v with
    | error e => rfl
    | ok r2 => rfl

mutual
theorem parse_item (okT : Ty → Bool) (hI : ∀ T, okT T = true → InlineOk P T) : ∀ (it : AItem) (st : S) (k : Option E) (d : Bool)
    (Sk : List (Option E)) (p : String) (rest : List String),
    aOk okT it = true → (p == "-") = d →
    runG P B inputs ⟨st, k :: Sk, false, p⟩ (atoksItem P.types it ++ rest)
    = cont P B inputs (fun k1 => k1 :: Sk) rest (itemLast it) (denItem B inputs st k d it)
  | .op name, st, k, d, Sk, p, rest, hok, hd => by
    simp only [aOk] at hok
    obtain ⟨h1, h2, h3, h4, h5, h6, h7, -, -⟩ := isNameToken_spec hok
    simp only [atoksItem, List.cons_append, List.nil_append, denItem, itemLast]
    rw [step_cur P B inputs st k Sk p rest name h1 h2 h3 h4 h5 h6 h7, curOf_name B inputs st name hok]
  | .src, st, k, d, Sk, p, rest, hok, hd => by
    simp only [atoksItem, List.cons_append, List.nil_append, denItem, itemLast]
    rw [step_cur P B inputs st k Sk p rest "-" (by decide) (by decide) (by decide) (by decide) (by decide)
      (by decide) (by decide), curOf_src]
  | .input i, st, k, d, Sk, p, rest, hok, hd => by
    obtain ⟨h1, h2, h3, h4, h5, h6, h7, -⟩ := toString_not_special i
    simp only [atoksItem, List.cons_append, List.nil_append, denItem, itemLast]
    rw [step_cur P B inputs st k Sk p rest (toString i) h1 h2 h3 h4 h5 h6 h7, curOf_input]
    cases lookupInput inputs i with
    | none => rfl
    | some e => rfl
  | .group ss, st, k, d, Sk, p, rest, hok, hd => by
    simp only [aOk] at hok
    simp only [atoksItem, List.cons_append, denItem, itemLast]
    rw [step_open]
    exact parse_group okT hI ss st k Sk "(" rest hok (by decide)
  | .ann T, st, k, d, Sk, p, rest, hok, hd => by
    simp only [aOk] at hok
    simp only [atoksItem, List.cons_append, denItem, itemLast]
    cases k with
    | none => rw [step_ann_none]; rfl
    | some e => rw [step_ann P B inputs T (hI T hok), hd]
theorem parse_items (okT : Ty → Bool) (hI : ∀ T, okT T = true → InlineOk P T) : ∀ (sp : List AItem) (st : S) (k : Option E) (d : Bool)
    (Sk : List (Option E)) (p : String) (rest : List String),
    aOkS okT sp = true → (p == "-") = d →
    runG P B inputs ⟨st, k :: Sk, false, p⟩ (atoks P.types sp ++ rest)
    = cont P B inputs (fun k1 => k1 :: Sk) rest (lastP p sp) (den B inputs st k d sp)
  | [], st, k, d, Sk, p, rest, hok, hd => by
    simp only [atoks, List.nil_append, den, cont, lastP]
  | it :: is, st, k, d, Sk, p, rest, hok, hd => by
    simp only [aOkS, Bool.and_eq_true] at hok
    simp only [atoks, List.append_assoc, den, lastP]
    rw [parse_item okT hI it st k d Sk p _ hok.1 hd]
    cases denItem B inputs st k d it with
    | error e => rfl
    | ok r =>
      obtain ⟨st1, k1⟩ := r
      simp only [cont]
      exact parse_items okT hI is st1 k1 (isSrcItem it) Sk (itemLast it) rest hok.2 (itemLast_dash _ it hok.1)
theorem parse_group (okT : Ty → Bool) (hI : ∀ T, okT T = true → InlineOk P T) : ∀ (ss : List (List AItem)) (st : S) (k : Option E)
    (Sk : List (Option E)) (p : String) (rest : List String),
    aOkG okT ss = true → (p == "-") = false →
    runG P B inputs ⟨st, none :: k :: Sk, false, p⟩ (atoksGroup P.types ss ++ rest)
    = cont P B inputs (fun k1 => k1 :: Sk) rest ")" (denGroup B inputs st k ss)
  | [], st, k, Sk, p, rest, hok, hd => by
    simp only [atoksGroup, List.cons_append, List.nil_append, denGroup]
    rw [step_close]
    rfl
  | s :: ss, st, k, Sk, p, rest, hok, hd => by
    simp only [aOkG, Bool.and_eq_true] at hok
    simp only [atoksGroup, List.append_assoc]
    rw [parse_items okT hI s st none false (k :: Sk) p _ hok.1 hd, denGroup_cons]
    cases den B inputs st none false s with
    | error e => rfl
    | ok r =>
      obtain ⟨st1, v⟩ := r
      simp only [cont]
      exact parse_seps okT hI ss st1 k v Sk _ rest hok.2
theorem parse_seps (okT : Ty → Bool) (hI : ∀ T, okT T = true → InlineOk P T) : ∀ (ss : List (List AItem)) (st : S) (k t : Option E)
    (Sk : List (Option E)) (p : String) (rest : List String),
    aOkG okT ss = true →
    runG P B inputs ⟨st, t :: k :: Sk, false, p⟩ (atoksSeps P.types ss ++ rest)
    = cont P B inputs (fun k1 => k1 :: Sk) rest ")" (sepsDen B inputs st k t ss)
  | [], st, k, t, Sk, p, rest, hok => by
    simp only [atoksSeps, List.cons_append, List.nil_append, sepsDen, denGroup]
    rw [step_close]
    cases gappO B st k t with
    | error e => rfl
    | ok r => rfl
  | s :: ss, st, k, t, Sk, p, rest, hok => by
    simp only [aOkG, Bool.and_eq_true] at hok
    simp only [atoksSeps, List.cons_append, List.append_assoc, sepsDen]
    rw [step_comma]
    cases gappO B st k t with
    | error e => rfl
    | ok r =>
      obtain ⟨st1, k1⟩ := r
      simp only [cont]
      rw [parse_items okT hI s st1 none false (k1 :: Sk) "," _ hok.1 (by decide), denGroup_cons]
      cases den B inputs st1 none false s with
      | error e => rfl
      | ok r2 =>
        obtain ⟨st2, v⟩ := r2
        simp only [cont]
        exact parse_seps okT hI ss st2 k1 v Sk _ rest hok.2
end

/-- parsing the rendering of a spine gives its denotation -/
theorem parseExprToks_atoks (okT : Ty → Bool) (hI : ∀ T, okT T = true → InlineOk P T)
    (st0 : S) (sp : List AItem) (hok : aOkS okT sp = true) :
    parseExprToks P B inputs st0 (atoks P.types sp) = denote B inputs st0 sp := by
  have h := parse_items P B inputs okT hI sp st0 none false [] "" [] hok (by decide)
  rw [List.append_nil] at h
  unfold parseExprToks denote
  have e0 : ({ st := st0 } : EState S E) = ⟨st0, [none], false, ""⟩ := rfl
  rw [e0]
  unfold runG at h
  rw [h]
  cases den B inputs st0 none false sp with
  | error e => rfl
  | ok r =>
    obtain ⟨st1, k1⟩ := r
    simp only [cont, runG, parseExprLoop]
    cases k1 <;> rfl

end steps

end Tfv.NotationAnn
