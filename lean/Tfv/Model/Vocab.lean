import Tfv.Model.Graph
/-!
# M8b — the vocabulary of a language (graph.py:107-172 `add_vocabulary`, `add_taxonomy`, `add_supertypes`,
`add_subtypes`, `add_operators`; labels, signatures and comments are not modelled)

The graph is built on the `GState` of `Tfv.Model.Graph` with `addType`. Python iterates `language.canon` (a set):
the order is a parameter (`order`), `addTaxonomy` uses the order of the model's list. `with_transitive_closure`
is not a field of `GCfg`; it is the parameter `closure`. The operators of the language are given by their names.

`transitive_subjects(rdfs:subClassOf, ref)` of rdflib yields `ref` itself and every node from which `ref` is
reachable over `rdfs:subClassOf` edges; it is modelled like `transitive_objects` in `Tfv.Model.Closure`
(rounds of a breadth-first search; the results are used as sets). Python adds the triples while the generator
runs; every triple added that way ends in `ref` and starts in a node that already reaches `ref`, so the set
of nodes yielded is the same as on the graph before the loop.
-/
namespace Tfv

abbrev subClassOf : Node := .rdfs "subClassOf"

/-- `subjects(rdfs:subClassOf, o)` -/
def subClassSubjects (ts : List Triple) (o : Node) : List Node :=
  (ts.filter (fun t => t.2.1 == subClassOf && t.2.2 == o)).map (·.1)

/-- nodes from which the frontier is reachable, found in at most `fuel` rounds -/
def reachSubjects (ts : List Triple) : Nat → List Node → List Node → List Node
  | 0, _, seen => seen
  | fuel+1, frontier, seen =>
    let next := (frontier.flatMap (subClassSubjects ts)).eraseDups.filter (fun x => !seen.contains x)
    if next.isEmpty then seen else reachSubjects ts fuel next (seen ++ next)

/-- `transitive_subjects(rdfs:subClassOf, o)`: `o` and every node that reaches it -/
def transitiveSubjects (ts : List Triple) (o : Node) : List Node := reachSubjects ts (ts.length + 1) [o] [o]

/-- `add_supertypes(t)` with `recursive=False` (`supertyped` is only filled by the recursive calls made by `add_type`
under `with_supertype_classes`). The URI of `t` is computed first; `Language.successors` asserts that `t` is canonical. -/
def addSupertypes (G : GLang) (g : GState) (t : Ty) : Except GErr GState :=
  if memTy t g.supertyped then .ok g else
  match typeUri G t.toTerm with
  | .error e => .error e
  | .ok ref =>
    if !memTy t G.canon then .error (.internal "successors: not canonical") else
    (langSucc G.types G.cfg G.canon (G.canon.length + 2) true t false).foldlM (fun (g : GState) s =>
      match typeUri G s.toTerm with
      | .error e => Except.error e
      | .ok sn => .ok (g.add (ref, subClassOf, sn))) g

/-- `add_subtypes(t)` with `recursive=False` (`subtyped` stays empty: nothing calls it recursively) -/
def addSubtypes (G : GLang) (g : GState) (t : Ty) : Except GErr GState :=
  match typeUri G t.toTerm with
  | .error e => .error e
  | .ok ref =>
    if !memTy t G.canon then .error (.internal "successors: not canonical") else
    (langSucc G.types G.cfg G.canon (G.canon.length + 2) false t false).foldlM (fun (g : GState) s =>
      match typeUri G s.toTerm with
      | .error e => Except.error e
      | .ok sn => .ok (g.add (sn, subClassOf, ref))) g

/-- the body of the first loop of `add_taxonomy`: `add_type(t); add_subtypes(t); add_supertypes(t)` -/
def taxonomyStep (G : GLang) (c : GCfg) (g : GState) (t : Ty) : Except GErr GState :=
  match addType G c typeFuel g t.toTerm with
  | .error e => .error e
  | .ok (g, _) =>
    match addSubtypes G g t with
    | .error e => .error e
    | .ok g => addSupertypes G g t

/-- the body of the second loop of `add_taxonomy` (`with_transitive_closure`) -/
def closureStep (G : GLang) (g : GState) (t : Ty) : Except GErr GState :=
  match typeUri G t.toTerm with
  | .error e => .error e
  | .ok ref => .ok ((transitiveSubjects g.triples ref).foldl (fun (g : GState) s => g.add (s, subClassOf, ref)) g)

/-- `add_taxonomy()`, the canonical types visited in the given order (both loops use the same order:
two iterations of an unchanged Python set) -/
def addTaxonomyOn (G : GLang) (c : GCfg) (closure : Bool) (order : List Ty) (g : GState) : Except GErr GState :=
  if !c.withCanonicalTypes then .error (.internal "assert with_canonical_types") else
  match order.foldlM (taxonomyStep G c) g with
  | .error e => .error e
  | .ok g => if closure then order.foldlM (closureStep G) g else .ok g

def addTaxonomy (G : GLang) (c : GCfg) (closure : Bool) (g : GState) : Except GErr GState :=
  addTaxonomyOn G c closure G.canon g

/-- `add_operators()` without labels: the operators are given by their names -/
def addOperators (c : GCfg) (ops : List String) (g : GState) : GState :=
  ops.foldl (fun (g : GState) name => if c.withClasses then g.add (.ns name, .rdf "type", .tf "Operation") else g) g

/-- the four `rdfs:subPropertyOf` triples of `add_vocabulary` -/
def vocabProperties : List Triple :=
  ["signature", "expression", "type", "via"].map (fun p => (Node.ns p, Node.rdfs "subPropertyOf", Node.tf p))

/-- `add_vocabulary()` on a graph in the given state -/
def addVocabularyOn (G : GLang) (c : GCfg) (closure : Bool) (order : List Ty) (ops : List String) (g : GState) :
    Except GErr GState :=
  match addTaxonomyOn G c closure order g with
  | .error e => .error e
  | .ok g => .ok (vocabProperties.foldl GState.add (addOperators c ops g))

/-- `TransformationGraph(lang, …).add_vocabulary()`: the triples of the vocabulary -/
def vocabulary (G : GLang) (c : GCfg) (closure : Bool) (ops : List String) : Except GErr (List Triple) :=
  match addVocabularyOn G c closure G.canon ops (initGraph G c) with
  | .error e => .error e
  | .ok g => .ok g.allTriples

end Tfv
