import Tfv.Spec.Sat
/-!
# Specification: acyclic stores and choices for the unresolved variables

Used to state that the solutions quantified over in the soundness theorems exist.
-/
namespace Tfv

mutual
/-- the variable `w` occurs in the term -/
def occursIn (w : Nat) : Term → Bool
  | .var v => v == w
  | .app _ args => occursInL w args
def occursInL (w : Nat) : List Term → Bool
  | [] => false
  | t :: ts => occursIn w t || occursInL w ts
end

/-- bindings never lead back to the variable they bind: there is a rank that
strictly decreases from a bound variable to every variable of its binding -/
def Acyclic (σ : Store) : Prop :=
  ∃ rank : Nat → Nat, ∀ v t, (getVar σ v).bound = some t → ∀ w, occursIn w t = true → rank w < rank v

/-- `θ` is an admissible choice for the unresolved variables: well-formed types
within the bounds the store reports -/
structure Choice (L : Lang) (θ : Val) (σ : Store) : Prop where
  wf : ∀ v, wfTy L (θ v) = true
  lower : ∀ v l, (getVar σ v).bound = none → (getVar σ v).lower = some l → Sub L (.app l []) (θ v)
  upper : ∀ v u, (getVar σ v).bound = none → (getVar σ v).upper = some u → Sub L (θ v) (.app u [])

end Tfv
